/-
  C09 × C01: every crash image of a history, taken after the moment an index was saved, still begins
  with the data that index was saved for.  Core Lean only.
-/
import Proofs.IndexCacheSanity
import Proofs.FormatLocal
namespace Proofs.IndexCache
open ZodbModel ZodbModel.Format ZodbModel.Disk ZodbModel.IndexCache Proofs.Format Proofs.Disk

theorem trace_append (ops1 : List Op) : ∀ (cs : List FTxn) (ops2 : List Op),
    trace cs (ops1 ++ ops2) = trace cs ops1 ++ trace (cs ++ newCommits cs ops1) ops2 ∧
    newCommits cs (ops1 ++ ops2) = newCommits cs ops1 ++ newCommits (cs ++ newCommits cs ops1) ops2 := by
  induction ops1 with
  | nil => intro cs ops2; simp [trace, newCommits]
  | cons op ops1 ih =>
    intro cs ops2
    obtain ⟨h1, h2⟩ := ih (cs ++ opCommits cs op) ops2
    simp only [List.cons_append, trace, newCommits, h1, h2, List.append_assoc]
    exact ⟨trivial, trivial⟩

theorem opsWF_append (ops1 : List Op) : ∀ (cs : List FTxn) (ops2 : List Op),
    OpsWF cs (ops1 ++ ops2) → OpsWF cs ops1 ∧ OpsWF (cs ++ newCommits cs ops1) ops2 := by
  induction ops1 with
  | nil => intro cs ops2 h; simpa [OpsWF, newCommits] using h
  | cons op ops1 ih =>
    intro cs ops2 h
    obtain ⟨h1, h2⟩ := ih _ ops2 h.2
    refine ⟨⟨h.1, h1⟩, ?_⟩
    simpa [newCommits, List.append_assoc] using h2

/-- an event that does not touch the first `n` bytes leaves them alone -/
theorem applyEv_take (img : Bytes) (n : Nat) (e : Ev) (hn : n ≤ img.length)
    (h : ¬ touchesBelow n e) : (applyEv img e).take n = img.take n ∧ n ≤ (applyEv img e).length := by
  cases e with
  | write off d =>
    simp only [touchesBelow, Nat.not_lt] at h
    simp only [applyEv, applyWrite]
    split
    · exact ⟨rfl, hn⟩
    · have hl : (img.take off).length = min off img.length := List.length_take
      constructor
      · rw [List.append_assoc, List.append_assoc, List.take_append_of_le_length (by omega),
          take_take_ge _ h]
      · simp only [List.length_append]; omega
  | trunc m =>
    simp only [touchesBelow, Nat.not_lt] at h
    simp only [applyEv]
    have hl : (img.take m).length = min m img.length := List.length_take
    constructor
    · rw [List.take_append_of_le_length (by omega), take_take_ge _ h]
    · simp only [List.length_append, zeros, List.length_replicate]; omega
  | fsync => exact ⟨rfl, hn⟩
  | fsyncFailed => exact ⟨rfl, hn⟩
  | ret => exact ⟨rfl, hn⟩

theorem applyEvents_take (es : List Ev) : ∀ (img : Bytes) (n : Nat), n ≤ img.length →
    (∀ e ∈ es, ¬ touchesBelow n e) →
    (applyEvents img es).take n = img.take n ∧ n ≤ (applyEvents img es).length := by
  induction es with
  | nil => intro img n hn _; exact ⟨rfl, hn⟩
  | cons e es ih =>
    intro img n hn h
    obtain ⟨h1, h2⟩ := applyEv_take img n e hn (h e List.mem_cons_self)
    obtain ⟨h3, h4⟩ := ih (applyEv img e) n h2 (fun x hx => h x (List.mem_cons_of_mem _ hx))
    simp only [applyEvents, List.foldl_cons] at *
    exact ⟨by rw [h3, h1], h4⟩

/-- every crash image of a history started on `encodeFile cs` still begins with `encodeFile cs` -/
theorem image_keeps_prefix (cs : List FTxn) (ops : List Op) (hcs : FileWF cs) (k nb : Nat) :
    ∃ ext, image (encodeFile cs) (trace cs ops) k nb = encodeFile cs ++ ext := by
  have hp := filePos_eq cs hcs
  have htouch : ∀ e ∈ (trace cs ops).take k, ¬ touchesBelow (encodeFile cs).length e := by
    intro e he
    rw [← hp]
    exact trace_touches ops cs e (List.mem_of_mem_take he)
  obtain ⟨h1, h2⟩ := applyEvents_take _ (encodeFile cs) (encodeFile cs).length (Nat.le_refl _) htouch
  have key : ∀ (img : Bytes), img.take (encodeFile cs).length = (encodeFile cs).take (encodeFile cs).length →
      (encodeFile cs).length ≤ img.length → ∃ ext, img = encodeFile cs ++ ext := by
    intro img e _
    refine ⟨img.drop (encodeFile cs).length, ?_⟩
    rw [List.take_length] at e
    have := List.take_append_drop (encodeFile cs).length img
    rw [e] at this
    exact this.symm
  unfold image
  simp only []
  cases hk : (trace cs ops)[k]? with
  | none => exact key _ h1 h2
  | some e =>
    cases e with
    | write off d =>
      have hmem : Ev.write off d ∈ trace cs ops := List.mem_of_getElem? hk
      have hoff : ¬ touchesBelow (encodeFile cs).length (Ev.write off (d.take nb)) := by
        have := trace_touches ops cs _ hmem
        rw [hp] at this
        simpa [touchesBelow] using this
      obtain ⟨h3, h4⟩ := applyEv_take _ _ (Ev.write off (d.take nb)) h2 hoff
      simp only [applyEv] at h3 h4
      exact key _ (by rw [h3, h1]) h4
    | trunc n => exact key _ h1 h2
    | fsync => exact key _ h1 h2
    | fsyncFailed => exact key _ h1 h2
    | ret => exact key _ h1 h2

/-- the index saved after the first part `ops1` of a history, any crash image taken later -/
theorem open_crash_image_with_saved_index (ro : Bool) (cs : List FTxn) (ops1 ops2 : List Op)
    (hcs : FileWF cs) (hops : OpsWF cs (ops1 ++ ops2)) (k nb : Nat) :
    (openWith ro (image (encodeFile cs) (trace cs (ops1 ++ ops2)) ((trace cs ops1).length + k) nb)
        (some (saveIndex (cs ++ newCommits cs ops1)))).map Opened.state
      = (openWith ro (image (encodeFile cs) (trace cs (ops1 ++ ops2)) ((trace cs ops1).length + k) nb)
          none).map Opened.state := by
  obtain ⟨ho1, ho2⟩ := opsWF_append ops1 cs ops2 hops
  obtain ⟨happ, hw1, _⟩ := trace_apply ops1 cs hcs ho1
  have himg : image (encodeFile cs) (trace cs (ops1 ++ ops2)) ((trace cs ops1).length + k) nb
      = image (encodeFile (cs ++ newCommits cs ops1)) (trace (cs ++ newCommits cs ops1) ops2) k nb := by
    rw [(trace_append ops1 cs ops2).1, image_append_ge _ _ _ _ _ (by omega), happ]
    congr 1
    omega
  obtain ⟨ext, hext⟩ := image_keeps_prefix (cs ++ newCommits cs ops1) ops2 hw1 k nb
  rw [himg, hext]
  exact openWith_saved_eq ro _ hw1 ext

end Proofs.IndexCache
