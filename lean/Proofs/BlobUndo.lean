/-
  C13: undo (FileStorage._txn_undo_write with the blob copy) preserves the invariant, and what the
  record loop establishes for every record of the transaction being undone.
-/
import Proofs.BlobInv
namespace Proofs.Blob
open ZodbModel ZodbModel.Blob

/-- the transaction record after the record loop of undo has reached accumulator `a` -/
def accTxn (t : Txn) (a : UndoAcc) : Txn :=
  { t with staged := a.staged, failed := t.failed || a.failures || a.broken }

@[simp] theorem accTxn_staged (t : Txn) (a : UndoAcc) : (accTxn t a).staged = a.staged := rfl
@[simp] theorem accTxn_tid (t : Txn) (a : UndoAcc) : (accTxn t a).tid = t.tid := rfl
@[simp] theorem accTxn_failed (t : Txn) (a : UndoAcc) :
    (accTxn t a).failed = (t.failed || a.failures || a.broken) := rfl

/-- the state the record loop of undo has reached with accumulator `a` -/
def accSt (s : St) (t : Txn) (a : UndoAcc) : St :=
  { s with files := a.files, dirty := a.dirty, txn := some (accTxn t a) }

/-- the accumulator the loop starts with -/
def acc0 (s : St) (t : Txn) : UndoAcc :=
  { files := s.files, dirty := s.dirty, staged := t.staged, evs := [], failures := false, broken := false,
    seen := [] }

theorem undoRec_oid (h : List Rec) (r : Rec) (tid : Nat) : (undoRec h r tid).oid = r.oid := by
  unfold undoRec
  split
  · rfl
  · split <;> rfl

theorem undoRec_tid (h : List Rec) (r : Rec) (tid : Nat) : (undoRec h r tid).tid = tid := by
  unfold undoRec
  split
  · rfl
  · split <;> rfl

theorem undoRec_key (h : List Rec) (r : Rec) (tid : Nat) : (undoRec h r tid).key = (r.oid, tid) := by
  simp [Rec.key, undoRec_oid, undoRec_tid]

/-- undo writes a blob record exactly when the previous revision is a blob record, and then points
    at the same data -/
theorem undoRec_blob {h : List Rec} {r : Rec} {tid : Nat} (hb : (undoRec h r tid).kind = .blob) :
    ∃ p, prevRec h r.oid r.tid = some p ∧ p.kind = .blob ∧ (undoRec h r tid).src = p.src := by
  unfold undoRec at hb ⊢
  split at hb
  · simp at hb
  · rename_i p hp
    split at hb
    · rename_i hk
      refine ⟨p, hp, hk, ?_⟩
      simp [hk]
    · simp at hb
    · simp at hb

theorem undoRec_uncreate_of_none {h : List Rec} {r : Rec} {tid : Nat}
    (hp : prevRec h r.oid r.tid = none) : (undoRec h r tid).kind = .uncreate := by
  simp [undoRec, hp]

theorem undoRec_kind_of_some {h : List Rec} {r : Rec} {tid : Nat} {p : Rec}
    (hp : prevRec h r.oid r.tid = some p) : (undoRec h r tid).kind = p.kind := by
  simp only [undoRec, hp]
  cases p.kind <;> rfl

theorem prevRec_mem {h : List Rec} {oid t : Nat} {p : Rec} (hp : prevRec h oid t = some p) :
    p ∈ h ∧ p.oid = oid ∧ p.tid < t := by
  unfold prevRec at hp
  have h1 := List.mem_of_find?_eq_some hp
  have h2 := List.find?_some hp
  simp only [decide_eq_true_eq] at h2
  exact ⟨h1, h2.1, h2.2⟩

theorem accSt_hist (s : St) (t : Txn) (a : UndoAcc) : (accSt s t a).hist = s.hist := rfl
theorem accSt_flavor (s : St) (t : Txn) (a : UndoAcc) : (accSt s t a).flavor = s.flavor := rfl

/-- a failing iteration only raises the `failed` flag -/
theorem inv_acc_fail {s : St} {t : Txn} {a a' : UndoAcc} (h : Inv (accSt s t a))
    (h1 : a'.files = a.files) (h2 : a'.dirty = a.dirty) (h3 : a'.staged = a.staged)
    (h4 : (a'.failures || a'.broken) = true) : Inv (accSt s t a') := by
  have hn : (accSt s t a).txn = some (accTxn t a) := rfl
  have hf : (t.failed || a'.failures || a'.broken) = true := by
    rw [Bool.or_assoc, h4]; simp
  have := inv_setTxn h hn (accTxn t a')
    rfl (by rw [accTxn_staged, h3]; exact h.stagedTid _ hn)
    (by rw [accTxn_staged, h3]; exact h.dirtyStaged _ hn)
    (by intro hc; simp only [accTxn_failed, hf] at hc; cases hc)
    (by intro hc; simp only [accTxn_failed, hf] at hc; cases hc)
    (by rw [accTxn_staged, h3]; intro hw; exact h.wrapStaged hw _ hn)
  refine this.congr rfl ?_ rfl rfl ?_
  · show a'.files = a.files; exact h1
  · show a'.dirty = a.dirty; exact h2

theorem mem_rest {l : List Rec} {oid : Nat} {q : Rec}
    (hq : q ∈ l.filter fun q => decide (q.oid ≠ oid)) : q ∈ l ∧ q.oid ≠ oid := by
  have := List.mem_filter.1 hq
  exact ⟨this.1, by simpa using this.2⟩

theorem inv_undoOne {s : St} {t : Txn} (hfs : s.flavor = .fs) {a : UndoAcc}
    (h : Inv (accSt s t a)) (r : Rec) : Inv (accSt s t (undoOne s.hist t.tid a r)) := by
  have hn : (accSt s t a).txn = some (accTxn t a) := rfl
  have hwrap : (accSt s t a).flavor = .wrap → False := by
    intro hc; rw [accSt_flavor, hfs] at hc; cases hc
  -- a dirty name of this transaction belongs to a staged blob record of the same oid
  have hdirty_oid : ∀ k ∈ a.dirty, k.1 ≠ r.oid →
      ∃ q ∈ a.staged.filter (fun q => decide (q.oid ≠ r.oid)), q.key = k ∧ q.kind = .blob := by
    intro k hk hne
    obtain ⟨q, hq, hqk, hqb⟩ := h.dirtyStaged _ hn k hk
    refine ⟨q, List.mem_filter.2 ⟨hq, ?_⟩, hqk, hqb⟩
    have : q.oid = k.1 := by rw [← hqk]; rfl
    simpa [this] using hne
  unfold undoOne
  split
  · exact h
  · split
    · exact inv_acc_fail h rfl rfl rfl (by simp)
    · split
      · exact inv_acc_fail h rfl rfl rfl (by simp)
      · simp only
        split
        · -- the previous revision is a blob: copy its file
          rename_i hkind
          obtain ⟨p, hp, hpk, hsrc⟩ := undoRec_blob hkind
          obtain ⟨hpm, hpo, hpt⟩ := prevRec_mem hp
          have hpfresh : p.tid < t.tid := h.fresh _ hn p hpm
          obtain ⟨hple, _⟩ := h.srcHist p hpm hpk
          split
          · exact inv_acc_fail h rfl rfl rfl (by simp)
          · rename_i b hb
            have key := inv_update h hn (aset a.files (r.oid, t.tid) b) ((r.oid, t.tid) :: a.dirty)
              (accTxn t { a with staged := undoRec s.hist r t.tid
                            :: a.staged.filter fun q => decide (q.oid ≠ r.oid) })
              rfl ?_ ?_ ?_ ?_ ?_ ?_ ?_ ?_
            · exact key.congr rfl rfl rfl rfl rfl
            · intro q hq
              rcases List.mem_cons.1 hq with hq | hq
              · subst hq; exact undoRec_tid _ _ _
              · exact h.stagedTid _ hn q (mem_rest hq).1
            · intro k hk
              rcases List.mem_cons.1 hk with hk | hk
              · subst hk; rfl
              · exact h.dirty_tid hn k hk
            · intro k hk
              show aget (aset a.files (r.oid, t.tid) b) k = aget a.files k
              rw [aget_aset]
              have : k ≠ (r.oid, t.tid) := by
                intro e; exact hk (by subst e; rfl)
              simp [this]
            · intro k hk
              show (aget (aset a.files (r.oid, t.tid) b) k).isSome ↔ k ∈ (r.oid, t.tid) :: a.dirty
              rw [aget_aset]
              by_cases e : k = (r.oid, t.tid)
              · simp [e]
              · simp only [e, if_false, List.mem_cons, false_or]
                exact h.own_file hn k hk
            · intro k hk
              by_cases e : k.1 = r.oid
              · refine ⟨_, List.mem_cons_self, ?_, hkind⟩
                rw [undoRec_key]
                have hk2 : k.2 = t.tid := by
                  rcases List.mem_cons.1 hk with hk | hk
                  · subst hk; rfl
                  · exact h.dirty_tid hn k hk
                rw [← e, ← hk2]
              · rcases List.mem_cons.1 hk with hk | hk
                · subst hk; exact absurd rfl e
                · obtain ⟨q, hq, hk'⟩ := hdirty_oid k hk e
                  exact ⟨q, List.mem_cons_of_mem _ hq, hk'⟩
            · intro hf q hq hbl
              rcases List.mem_cons.1 hq with hq | hq
              · subst hq; rw [undoRec_key]; exact List.mem_cons_self
              · exact List.mem_cons_of_mem _ (h.stagedFile _ hn hf q (mem_rest hq).1 hbl)
            · intro hf q hq hbl
              rcases List.mem_cons.1 hq with hq | hq
              · subst hq
                rw [undoRec_key, undoRec_oid, undoRec_tid, hsrc]
                refine ⟨by omega, ?_⟩
                rw [aget_aset, aget_aset]
                have e1 : ((r.oid, p.src) : Key) ≠ (r.oid, t.tid) := by
                  intro e; have := congrArg Prod.snd e; simp only at this; omega
                simp only [e1, if_false, if_true]
                rw [← hsrc]; exact hb
              · obtain ⟨hq', hne⟩ := mem_rest hq
                obtain ⟨hle, heq⟩ := h.srcStaged _ hn hf q hq' hbl
                refine ⟨hle, ?_⟩
                have e1 : ((q.oid, q.src) : Key) ≠ (r.oid, t.tid) := by
                  intro e; exact hne (congrArg Prod.fst e)
                have e2 : q.key ≠ (r.oid, t.tid) := by
                  intro e; exact hne (congrArg Prod.fst e)
                show aget (aset a.files (r.oid, t.tid) b) (q.oid, q.src)
                   = aget (aset a.files (r.oid, t.tid) b) q.key
                rw [aget_aset, aget_aset]
                simp only [e1, e2, if_false]
                exact heq
            · intro hw; exact (hwrap hw).elim
        all_goals
          rename_i hkind
          split
          · exact inv_acc_fail h rfl rfl rfl (by simp)
          · rename_i hnone
            have key := inv_setTxn h hn
              (accTxn t { a with staged := undoRec s.hist r t.tid
                            :: a.staged.filter fun q => decide (q.oid ≠ r.oid) }) rfl ?_ ?_ ?_ ?_ ?_
            · exact key.congr rfl rfl rfl rfl rfl
            · intro q hq
              rcases List.mem_cons.1 hq with hq | hq
              · subst hq; exact undoRec_tid _ _ _
              · exact h.stagedTid _ hn q (mem_rest hq).1
            · intro k hk
              have hne : k.1 ≠ r.oid := by
                intro e
                have hk2 : k.2 = t.tid := h.dirty_tid hn k hk
                have hs : (aget a.files k).isSome := (h.own_file hn k hk2).2 hk
                have : k = (r.oid, t.tid) := by rw [← e, ← hk2]
                rw [this, hnone] at hs; cases hs
              obtain ⟨q, hq, hk'⟩ := hdirty_oid k hk hne
              exact ⟨q, List.mem_cons_of_mem _ hq, hk'⟩
            · intro hf q hq hbl
              rcases List.mem_cons.1 hq with hq | hq
              · subst hq; exact (hkind hbl).elim
              · exact h.stagedFile _ hn hf q (mem_rest hq).1 hbl
            · intro hf q hq hbl
              rcases List.mem_cons.1 hq with hq | hq
              · subst hq; exact (hkind hbl).elim
              · exact h.srcStaged _ hn hf q (mem_rest hq).1 hbl
            · intro hw; exact (hwrap hw).elim

theorem inv_undoFold {s : St} {t : Txn} (hfs : s.flavor = .fs) (recs : List Rec) {a : UndoAcc}
    (h : Inv (accSt s t a)) : Inv (accSt s t (recs.foldl (undoOne s.hist t.tid) a)) := by
  induction recs generalizing a with
  | nil => exact h
  | cons r rs ih => exact ih (inv_undoOne hfs h r)

theorem inv_undo {s : St} (h : Inv s) (utid : Nat) : Inv (undo s utid).1 := by
  unfold undo
  cases hfl : s.flavor with
  | wrap => exact h
  | fs =>
    simp only
    cases hn : s.txn with
    | none => exact h
    | some t =>
      simp only
      split
      · exact h
      · split
        · exact inv_failTxn h hn
        · have h0 : Inv (accSt s t (acc0 s t)) := by
            refine h.congr rfl rfl rfl ?_ rfl
            show some (accTxn t (acc0 s t)) = s.txn
            rw [hn]; simp [accTxn, acc0]
          exact (inv_undoFold hfl (txnRecs s.hist utid) h0).congr hfl.symm rfl rfl rfl rfl

end Proofs.Blob
