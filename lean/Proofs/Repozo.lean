/-
  Helper lemmas for C18 (`Props/C18.lean`), part 1: association lists, name order and `find_files`,
  chains.  Core Lean only.
-/
import ZodbModel.Repozo
namespace Proofs.Repozo
open ZodbModel ZodbModel.Repozo

/-! ### association lists keyed by date -/

theorem getK_delK_self {α} (k : Nat) (l : List (Nat × α)) : getK k (delK k l) = none := by
  induction l with
  | nil => rfl
  | cons p t ih =>
    obtain ⟨k', v⟩ := p
    by_cases h : k' = k
    · simp [delK, h] at ih ⊢; exact ih
    · simp [delK, h, getK] at ih ⊢; exact ih

theorem getK_delK_ne {α} {k k' : Nat} (h : k' ≠ k) (l : List (Nat × α)) :
    getK k' (delK k l) = getK k' l := by
  induction l with
  | nil => rfl
  | cons p t ih =>
    obtain ⟨k₀, v⟩ := p
    by_cases h0 : k₀ = k
    · have : k₀ ≠ k' := by omega
      simp [delK, h0, getK] at ih ⊢
      rw [ih]; subst h0; simp [this]
    · simp only [delK, List.filter_cons, h0, ne_eq, not_false_eq_true, decide_true, if_true, getK] at ih ⊢
      rw [ih]

theorem getK_setK {α} (k k' : Nat) (v : α) (l : List (Nat × α)) :
    getK k' (setK k v l) = if k' = k then some v else getK k' l := by
  unfold setK
  by_cases h : k' = k
  · subst h; simp [getK]
  · have : ¬ k = k' := fun e => h e.symm
    simp [getK, h, this, getK_delK_ne h]

theorem getK_setK_self {α} (k : Nat) (v : α) (l : List (Nat × α)) : getK k (setK k v l) = some v := by
  simp [getK_setK]

theorem getK_setK_ne {α} {k k' : Nat} (h : k' ≠ k) (v : α) (l : List (Nat × α)) :
    getK k' (setK k v l) = getK k' l := by
  simp [getK_setK, h]

theorem getK_mem {α} {k : Nat} {v : α} {l : List (Nat × α)} (h : getK k l = some v) : (k, v) ∈ l := by
  induction l with
  | nil => simp [getK] at h
  | cons p t ih =>
    obtain ⟨k', v'⟩ := p
    simp only [getK] at h
    split at h
    · cases h; subst_vars; exact List.mem_cons_self
    · exact List.mem_cons_of_mem _ (ih h)

theorem getK_none_of_not_key {α} {k : Nat} {l : List (Nat × α)} (h : ∀ p ∈ l, p.1 ≠ k) :
    getK k l = none := by
  induction l with
  | nil => rfl
  | cons p t ih =>
    obtain ⟨k', v'⟩ := p
    have h1 : k' ≠ k := h (k', v') List.mem_cons_self
    simp only [getK, h1, if_false]
    exact ih (fun p hp => h p (List.mem_cons_of_mem _ hp))

/-- keys are pairwise distinct (one file per name) -/
abbrev KeysNodup {α} (l : List (Nat × α)) : Prop := l.Pairwise (fun a b => a.1 ≠ b.1)

theorem getK_of_mem {α} {k : Nat} {v : α} {l : List (Nat × α)} (hn : KeysNodup l) (h : (k, v) ∈ l) :
    getK k l = some v := by
  induction l with
  | nil => simp at h
  | cons p t ih =>
    obtain ⟨k', v'⟩ := p
    rw [KeysNodup, List.pairwise_cons] at hn
    rcases List.mem_cons.1 h with h | h
    · cases h; simp [getK]
    · have : k' ≠ k := hn.1 (k, v) h
      simp only [getK, this, if_false]
      exact ih hn.2 h

theorem mem_delK {α} {k : Nat} {p : Nat × α} {l : List (Nat × α)} :
    p ∈ delK k l ↔ p ∈ l ∧ p.1 ≠ k := by
  simp [delK]

theorem keysNodup_delK {α} (k : Nat) {l : List (Nat × α)} (h : KeysNodup l) : KeysNodup (delK k l) :=
  List.Pairwise.sublist List.filter_sublist h

theorem keysNodup_setK {α} (k : Nat) (v : α) {l : List (Nat × α)} (h : KeysNodup l) :
    KeysNodup (setK k v l) := by
  unfold setK
  rw [KeysNodup, List.pairwise_cons]
  refine ⟨?_, keysNodup_delK k h⟩
  intro p hp
  have := (mem_delK.1 hp).2
  simp only; omega

theorem mem_setK {α} {k : Nat} {v : α} {p : Nat × α} {l : List (Nat × α)} :
    p ∈ setK k v l ↔ p = (k, v) ∨ (p ∈ l ∧ p.1 ≠ k) := by
  simp [setK, mem_delK]

theorem getK_filter_key {α} (g : Nat → Bool) (k : Nat) (hk : g k = true) (l : List (Nat × α)) :
    getK k (l.filter (fun p => g p.1)) = getK k l := by
  induction l with
  | nil => rfl
  | cons p t ih =>
    obtain ⟨k', v'⟩ := p
    by_cases h : k' = k
    · subst h; simp [hk, getK]
    · by_cases hg : g k' = true
      · simp [hg, getK, h, ih]
      · simp [hg, getK, h, ih]

/-! ### name order: `sorted(..., reverse=True)` -/

/-- dates strictly decreasing along the list (newest first) -/
abbrev DecDates (l : List DFile) : Prop := l.Pairwise (fun a b => b.name.date < a.name.date)

/-- all dates different (at most one backup per second) -/
abbrev DistinctDates (l : List DFile) : Prop := l.Pairwise (fun a b => a.name.date ≠ b.name.date)

theorem extRank_lt (n : Name) : extRank n < 4 := by
  unfold extRank; split <;> split <;> omega

theorem nameKey_lt_of_date_lt {a b : Name} (h : a.date < b.date) : nameKey a < nameKey b := by
  have := extRank_lt a; have := extRank_lt b
  unfold nameKey; omega

theorem date_le_of_nameKey_le {a b : Name} (h : nameKey a ≤ nameKey b) : a.date ≤ b.date := by
  have := extRank_lt a; have := extRank_lt b
  unfold nameKey at h; omega

theorem insertDesc_of_dec {f : DFile} {t : List DFile} (h : ∀ g ∈ t, g.name.date < f.name.date) :
    insertDesc f t = f :: t := by
  cases t with
  | nil => rfl
  | cons g t' =>
    have := nameKey_lt_of_date_lt (h g List.mem_cons_self)
    simp only [insertDesc]
    rw [if_pos (by omega)]

theorem sortDesc_of_dec {l : List DFile} (h : DecDates l) : sortDesc l = l := by
  induction l with
  | nil => rfl
  | cons f t ih =>
    rw [DecDates, List.pairwise_cons] at h
    show insertDesc f (sortDesc t) = f :: t
    rw [ih h.2]
    exact insertDesc_of_dec h.1

theorem mem_insertDesc {f g : DFile} {t : List DFile} : g ∈ insertDesc f t ↔ g = f ∨ g ∈ t := by
  induction t with
  | nil => simp [insertDesc]
  | cons x t ih =>
    simp only [insertDesc]
    split
    · simp
    · simp only [List.mem_cons, ih]
      constructor
      · rintro (h | h | h) <;> simp [h]
      · rintro (h | h | h) <;> simp [h]

theorem mem_sortDesc {g : DFile} {l : List DFile} : g ∈ sortDesc l ↔ g ∈ l := by
  induction l with
  | nil => simp [sortDesc]
  | cons f t ih =>
    show g ∈ insertDesc f (sortDesc t) ↔ _
    rw [mem_insertDesc, ih]; simp

/-- non-increasing name keys -/
abbrev KeySorted (l : List DFile) : Prop := l.Pairwise (fun a b => nameKey b.name ≤ nameKey a.name)

theorem insertDesc_sorted {f : DFile} {t : List DFile} (h : KeySorted t) : KeySorted (insertDesc f t) := by
  induction t with
  | nil => simp [insertDesc, KeySorted]
  | cons x t ih =>
    have hx := List.pairwise_cons.1 h
    simp only [insertDesc]
    split
    · rename_i hle
      refine List.pairwise_cons.2 ⟨?_, h⟩
      intro a ha
      rcases List.mem_cons.1 ha with ha | ha
      · subst ha; exact hle
      · have := hx.1 a ha
        omega
    · rename_i hgt
      refine List.pairwise_cons.2 ⟨?_, ih hx.2⟩
      intro a ha
      rcases mem_insertDesc.1 ha with ha | ha
      · subst ha; omega
      · exact hx.1 a ha

theorem sortDesc_sorted (l : List DFile) : KeySorted (sortDesc l) := by
  induction l with
  | nil => simp [sortDesc, KeySorted]
  | cons f t ih => exact insertDesc_sorted ih

theorem insertDesc_distinct {f : DFile} {t : List DFile} (h : DistinctDates t)
    (hf : ∀ g ∈ t, f.name.date ≠ g.name.date) : DistinctDates (insertDesc f t) := by
  induction t with
  | nil => simp [insertDesc, DistinctDates]
  | cons x t ih =>
    have hx := List.pairwise_cons.1 h
    simp only [insertDesc]
    split
    · exact List.pairwise_cons.2 ⟨hf, h⟩
    · refine List.pairwise_cons.2 ⟨?_, ih hx.2 (fun g hg => hf g (List.mem_cons_of_mem _ hg))⟩
      intro a ha
      rcases mem_insertDesc.1 ha with ha | ha
      · subst ha; exact (hf x List.mem_cons_self).symm
      · exact hx.1 a ha

theorem sortDesc_distinct {l : List DFile} (h : DistinctDates l) : DistinctDates (sortDesc l) := by
  induction l with
  | nil => simp [sortDesc, DistinctDates]
  | cons f t ih =>
    have hx := List.pairwise_cons.1 h
    exact insertDesc_distinct (ih hx.2) (fun g hg => hx.1 g (mem_sortDesc.1 hg))

/-- a directory with one file per date, once sorted, has strictly decreasing dates -/
theorem sortDesc_dec {l : List DFile} (h : DistinctDates l) : DecDates (sortDesc l) := by
  have h1 := sortDesc_sorted l
  have h2 := sortDesc_distinct h
  have h3 : (sortDesc l).Pairwise (fun a b => nameKey b.name ≤ nameKey a.name ∧ a.name.date ≠ b.name.date) :=
    List.pairwise_and_iff.2 ⟨h1, h2⟩
  refine List.Pairwise.imp ?_ h3
  intro a b hab
  have := date_le_of_nameKey_le hab.1
  have := hab.2
  omega

/-! ### the loop of `find_files` on a sorted directory -/

/-- the newest files down to and including the first full backup -/
def upToFull : List DFile → List DFile
  | [] => []
  | f :: t => if f.name.full then [f] else f :: upToFull t

theorem scanNeeded_of_le {when : Nat} {l : List DFile} (hd : DecDates l)
    (h : ∀ f ∈ l, f.name.date ≤ when) : scanNeeded when l = upToFull l := by
  induction l with
  | nil => rfl
  | cons f t ih =>
    have hf := h f List.mem_cons_self
    simp only [scanNeeded, hf, if_true, upToFull]
    split
    · rfl
    · rw [ih (List.pairwise_cons.1 hd).2 (fun g hg => h g (List.mem_cons_of_mem _ hg))]

theorem scanNeeded_cons_le {when : Nat} {f : DFile} {t : List DFile} (hd : DecDates (f :: t))
    (h : f.name.date ≤ when) : scanNeeded when (f :: t) = upToFull (f :: t) := by
  apply scanNeeded_of_le hd
  intro g hg
  rcases List.mem_cons.1 hg with hg | hg
  · subst hg; exact h
  · have := (List.pairwise_cons.1 hd).1 g hg
    omega

theorem scanNeeded_cons_gt {when : Nat} {f : DFile} {t : List DFile} (h : when < f.name.date) :
    scanNeeded when (f :: t) = scanNeeded when t := by
  simp only [scanNeeded]
  rw [if_neg (by omega)]

theorem concat_append (a b : List DFile) : concat (a ++ b) = concat a ++ concat b := by
  induction a with
  | nil => rfl
  | cons f t ih => simp [concat, ih]

/-- bytes reconstructed from a newest-first list: the contents back to the first full backup -/
def chainBytes : List DFile → Bytes
  | [] => []
  | f :: t => if f.name.full then f.content else chainBytes t ++ f.content

theorem concat_reverse_upToFull (l : List DFile) : concat (upToFull l).reverse = chainBytes l := by
  induction l with
  | nil => rfl
  | cons f t ih =>
    simp only [upToFull, chainBytes]
    split
    · simp [concat]
    · simp [concat_append, ih, concat]

theorem upToFull_ne_nil {l : List DFile} (h : l ≠ []) : upToFull l ≠ [] := by
  cases l with
  | nil => exact absurd rfl h
  | cons f t => simp only [upToFull]; split <;> simp

theorem mem_upToFull {g : DFile} {l : List DFile} (h : g ∈ upToFull l) : g ∈ l := by
  induction l with
  | nil => simp [upToFull] at h
  | cons f t ih =>
    simp only [upToFull] at h
    split at h
    · simp at h; simp [h]
    · rcases List.mem_cons.1 h with h | h
      · simp [h]
      · exact List.mem_cons_of_mem _ (ih h)

/-- the date of the newest file of the list -/
theorem getLast_reverse_upToFull (f : DFile) (t : List DFile) :
    (upToFull (f :: t)).reverse.getLast? = some f := by
  simp only [upToFull]
  split <;> simp

/-- the `.dat` lines a chain must have produced (oldest line first) -/
def chainLines : List DFile → List DatLine
  | [] => []
  | f :: t =>
    if f.name.full then [⟨f.name, 0, f.content.length, f.content⟩]
    else chainLines t ++ [⟨f.name, (chainBytes t).length, (chainBytes t).length + f.content.length,
                            f.content⟩]

/-- date of the full backup the newest chain starts with -/
def chainDate : List DFile → Option Nat
  | [] => none
  | f :: t => if f.name.full then some f.name.date else chainDate t

theorem head_reverse_upToFull {l : List DFile} {D : Nat} (h : chainDate l = some D) :
    ∃ f0 rest, (upToFull l).reverse = f0 :: rest ∧ f0.name.date = D ∧ f0.name.full = true := by
  induction l with
  | nil => simp [chainDate] at h
  | cons f t ih =>
    simp only [chainDate] at h
    simp only [upToFull]
    split at h
    · rename_i hf
      simp only [hf, if_true]
      exact ⟨f, [], rfl, by simpa using h, hf⟩
    · rename_i hf
      simp only [hf]
      obtain ⟨f0, rest, h1, h2, h3⟩ := ih h
      refine ⟨f0, rest ++ [f], ?_, h2, h3⟩
      simp [h1]

theorem chainLines_getLast {f : DFile} {t : List DFile} :
    ∃ l, (chainLines (f :: t)).getLast? = some l ∧ l.endpos = (chainBytes (f :: t)).length ∧
      l.sum = f.content ∧ l.startpos + f.content.length = l.endpos := by
  simp only [chainLines, chainBytes]
  split
  · exact ⟨_, rfl, rfl, rfl, by simp⟩
  · refine ⟨⟨f.name, (chainBytes t).length, (chainBytes t).length + f.content.length, f.content⟩,
      by simp, by simp, rfl, rfl⟩

end Proofs.Repozo
