/-
  Helper lemmas for C07, part 7: packing again to the same or an earlier time (FileStorage).
  General reduction + the gc-off case.  (The gc-on case is in `Proofs/PackIdemGC.lean`.)
-/
import Proofs.PackMisc
set_option linter.unusedSimpArgs false
namespace Proofs.Pack
open ZodbModel ZodbModel.Pack

/-- no undo record at or before the pack time resolves to an un-creation (the situation of the
    recorded defect `C07:fs-repack-same-time-removes-more`) -/
def NoBackToTombstone (h : History) (T : Tid) : Prop :=
  ∀ t ∈ h, t.tid ≤ T → ∀ r ∈ t.recs, r.back.isSome → r.data.isSome

/-! ### copyToPacktime on an already packed prefix -/

theorem copyPreTxn_self {keep : Tid → Oid → Bool} {t : Txn} (hp : t.packed = true)
    (hne : t.recs ≠ []) (hnd : OidNodup t.recs)
    (hr : ∀ r ∈ t.recs, r.back = none ∧ keep t.tid r.oid = true) :
    copyPreTxn keep t = some t := by
  unfold copyPreTxn
  rw [dedupLast_of_nodup hnd]
  have hf : t.recs.filter (fun r => keep t.tid r.oid) = t.recs :=
    List.filter_eq_self.2 (fun r h => (hr r h).2)
  have hm : t.recs.map packRec = t.recs := by
    have : ∀ r ∈ t.recs, packRec r = id r := by
      intro r h
      have := (hr r h).1
      cases r with
      | mk oid data dlen refs back => simp only at this; subst this; rfl
    rw [List.map_congr_left this, List.map_id]
  simp only [hf, hm]
  have : t.recs.isEmpty = false := by
    cases h : t.recs with
    | nil => exact absurd h hne
    | cons a l => rfl
  simp only [this, Bool.false_eq_true, if_false]
  cases t with
  | mk tid packed mlen mdata recs => simp only at hp; subst hp; rfl

theorem copyPre_self {keep : Tid → Oid → Bool} : ∀ {l : History},
    (∀ t ∈ l, t.packed = true ∧ t.recs ≠ [] ∧ OidNodup t.recs ∧
      ∀ r ∈ t.recs, r.back = none ∧ keep t.tid r.oid = true) →
    copyPre keep l = l := by
  intro l
  induction l with
  | nil => intro _; rfl
  | cons t rest ih =>
    intro h
    have ht := h t (List.mem_cons_self ..)
    unfold copyPre at ih ⊢
    rw [List.filterMap_cons, copyPreTxn_self ht.1 ht.2.1 ht.2.2.1 ht.2.2.2]
    simp only
    rw [ih (fun t' ht' => h t' (List.mem_cons_of_mem _ ht'))]

/-- shape of the transactions produced by copyToPacktime -/
theorem copyPre_shape {keep : Tid → Oid → Bool} {pre : History} {t' : Txn}
    (h : t' ∈ copyPre keep pre) : t'.packed = true ∧ t'.recs ≠ [] ∧ OidNodup t'.recs ∧
      (∀ r ∈ t'.recs, r.back = none) ∧
      ∃ t ∈ pre, t'.tid = t.tid ∧
        ∀ r' ∈ t'.recs, ∃ r ∈ t.recs, r' = packRec r ∧ keep t.tid r.oid = true := by
  obtain ⟨t, ht, hct⟩ := copyPre_mem h
  obtain ⟨e1, e2, _, _, e3, e4⟩ := copyPreTxn_some hct
  refine ⟨e2, ?_, ?_, ?_, t, ht, e1, ?_⟩
  · rw [e3]; intro hc; apply e4; simpa using hc
  · rw [e3]; exact copyPre_recs_nodup
  · intro r hr
    rw [e3] at hr
    obtain ⟨r0, _, e⟩ := List.mem_map.1 hr
    rw [← e]; rfl
  · intro r' hr'
    rw [e3] at hr'
    obtain ⟨r0, h0, e⟩ := List.mem_map.1 hr'
    obtain ⟨h1, h2⟩ := List.mem_filter.1 h0
    exact ⟨r0, dedupLast_sub h1, e.symm, h2⟩

/-! ### the split of a packed history at an earlier or equal time -/

theorem takeWhile_eq_self_append {p : Txn → Bool} {a b : History} (ha : ∀ t ∈ a, p t = true)
    (hb : ∀ t ∈ b.head?, p t = false) : (a ++ b).takeWhile p = a ∧ (a ++ b).dropWhile p = b := by
  rw [List.takeWhile_append_of_pos ha, List.dropWhile_append_of_pos ha]
  cases b with
  | nil => simp
  | cons x l =>
    have := hb x (by simp)
    simp [List.takeWhile_cons, List.dropWhile_cons, this]

theorem all_of_dropWhile_nil {α} {p : α → Bool} : ∀ {l : List α}, l.dropWhile p = [] → ∀ t ∈ l, p t = true := by
  intro l
  induction l with
  | nil => intro _ t ht; simp at ht
  | cons a rest ih =>
    intro h t ht
    rw [List.dropWhile_cons] at h
    split at h
    · rename_i hpa
      rcases List.mem_cons.1 ht with rfl | ht
      · exact hpa
      · exact ih h t ht
    · cases h

/-- after a successful pack to `T`, the split at `T' ≤ T` either is the same split, or it cuts
    through the packed prefix — and then the pack is refused as redundant -/
theorem repack_split {pre' post' : History} {T T' : Tid} (hle : T' ≤ T)
    (hpre : ∀ t ∈ pre', t.tid ≤ T ∧ t.packed = true) (hpost : ∀ t ∈ post', T < t.tid) :
    (preOf (pre' ++ post') T' = pre' ∧ postOf (pre' ++ post') T' = post') ∨
      redundant (preOf (pre' ++ post') T') (postOf (pre' ++ post') T') = true := by
  by_cases hall : ∀ t ∈ pre', t.tid ≤ T'
  · left
    apply takeWhile_eq_self_append
    · intro t ht; simpa using hall t ht
    · intro t ht
      have : t ∈ post' := List.mem_of_mem_head? ht
      have := hpost t this
      simp only [decide_eq_false_iff_not]; omega
  · right
    -- some packed transaction lies after T': takeWhile stops inside the packed prefix
    have hex : ∃ t ∈ pre', ¬ (decide (t.tid ≤ T') = true) := by
      apply Classical.byContradiction
      intro hc
      apply hall
      intro t ht
      apply Classical.byContradiction
      intro hn
      exact hc ⟨t, ht, by simpa using hn⟩
    obtain ⟨x, hx, hpx⟩ := hex
    have hdne : pre'.dropWhile (fun t => decide (t.tid ≤ T')) ≠ [] := by
      intro hc
      have : ∀ t ∈ pre', decide (t.tid ≤ T') = true := by
        exact all_of_dropWhile_nil hc
      exact hpx (this x hx)
    have htake : preOf (pre' ++ post') T' = pre'.takeWhile (fun t => decide (t.tid ≤ T')) := by
      unfold preOf
      rw [List.takeWhile_append]
      split
      · rename_i hlen
        exfalso
        have h1 := List.takeWhile_append_dropWhile (p := fun t => decide (t.tid ≤ T')) (l := pre')
        have h2 := congrArg List.length h1
        rw [List.length_append, hlen] at h2
        have : (pre'.dropWhile (fun t => decide (t.tid ≤ T'))).length = 0 := by omega
        exact hdne (List.length_eq_zero_iff.1 this)
      · rfl
    have hdrop : postOf (pre' ++ post') T' =
        pre'.dropWhile (fun t => decide (t.tid ≤ T')) ++ post' := by
      unfold postOf
      rw [List.dropWhile_append]
      split
      · rename_i hemp
        exact absurd (List.isEmpty_iff.1 hemp) hdne
      · rfl
    unfold redundant
    rw [htake, hdrop]
    have h1 : (pre'.takeWhile (fun t => decide (t.tid ≤ T'))).any (fun t => !t.packed) = false := by
      rw [List.any_eq_false]
      intro t ht
      have := (hpre t (List.takeWhile_subset _ ht)).2
      simp [this]
    rw [h1]
    cases hd : pre'.dropWhile (fun t => decide (t.tid ≤ T')) with
    | nil => exact absurd hd hdne
    | cons y l =>
      have hy : y ∈ pre' := by
        have : y ∈ pre'.dropWhile (fun t => decide (t.tid ≤ T')) := by rw [hd]; simp
        exact (List.dropWhile_sublist _).subset this
      simp [(hpre y hy).2]

/-- reduction: a second pack changes nothing as soon as every record of the packed prefix is
    kept by whatever marks its GC computes -/
theorem repack_unchanged {h' : History} {T' : Tid} {gc : Bool}
    (hred : redundant (preOf h' T') (postOf h' T') = true ∨
      ∀ g, findReachable (preOf h' T') (postOf h' T') T' gc (allOids h') = .ok g →
        copyPre g.isReachable (preOf h' T') = preOf h' T') :
    (packFS h' T' gc).hist h' = h' := by
  unfold packFS
  simp only
  split
  · rfl
  · split
    · rfl
    · rename_i hnr
      split
      · rfl
      · rename_i g hg
        rcases hred with hred | hred
        · exact absurd hred hnr
        · rw [hred g hg]
          simp [PackOut.hist]

/-! ### gc off -/

theorem isReachable_nogc {pre : History} {t : Tid} {o : Oid}
    (h : (GC.mk (indexList pre) []).isReachable t o = true) : ∃ r, curAt pre o = some (t, r) := by
  unfold GC.isReachable at h
  simp only at h
  split at h
  · cases h
  · rename_i t' hl
    simp only [List.contains_nil, Bool.or_false, beq_iff_eq] at h
    subst h
    have : (o, t') ∈ indexList pre := by
      have := List.lookup_eq_some_iff.1 hl
      obtain ⟨l1, l2, e, _⟩ := this
      rw [e]; simp
    exact (mem_indexList.1 this).2

theorem packFS_repack_nogc {h h' : History} {T T' : Tid} (hs : Sorted h)
    (hNB : NoBackToTombstone h T) (hp : packFS h T false = .ok h') (hle : T' ≤ T) :
    (packFS h' T' false).hist h' = h' := by
  obtain ⟨g, post', hg, e1, e2⟩ := packFS_ok_shape hp
  have hg' : g = ⟨indexList (preOf h T), []⟩ := by
    unfold findReachable at hg
    simp only [Bool.false_eq_true, if_false] at hg
    injection hg with hg; exact hg.symm
  have hpre : ∀ t ∈ copyPre g.isReachable (preOf h T), t.tid ≤ T ∧ t.packed = true := by
    intro t ht
    exact ⟨copyPre_le (fun t ht => pre_le ht) t ht, (copyPre_shape ht).1⟩
  have hpost : ∀ t ∈ post', T < t.tid := all_gt_of_core_eq e2 (post_gt hs)
  apply repack_unchanged
  rw [e1]
  rcases repack_split hle hpre hpost with ⟨ea, eb⟩ | hr
  · right
    rw [ea, eb]
    intro g2 hg2
    apply copyPre_self
    intro t' ht'
    obtain ⟨hpk, hne, hnd, hbk, t, ht, etid, hrecs⟩ := copyPre_shape ht'
    refine ⟨hpk, hne, hnd, ?_⟩
    intro r' hr'
    refine ⟨hbk r' hr', ?_⟩
    obtain ⟨r, hr, er, hk⟩ := hrecs r' hr'
    rw [hg'] at hk
    obtain ⟨rc, hc⟩ := isReachable_nogc hk
    -- the kept record is the one current at T; it stays current in the packed prefix
    have hl := curAt_lastRec hc
    have hk' : g.isReachable t.tid r.oid = true := by rw [hg']; exact hk
    have hl' := lastRec_copyPre (keep := g.isReachable) (x := (t.tid, rc)) hl hk'
    have hdata : rc.data.isSome := by
      obtain ⟨tx, htx, etx, hro⟩ := mem_recsOf (lastRec_mem hl)
      simp only at etx hro
      have hin : inIndex rc = true := by
        unfold curAt at hc
        rw [hl] at hc
        simp only at hc
        split at hc
        · assumption
        · cases hc
      unfold inIndex at hin
      cases hb : rc.back.isSome with
      | true =>
        have htxh : tx ∈ h := List.takeWhile_subset _ htx
        exact hNB tx htxh (pre_le htx) rc (recOf_mem hro).1 hb
      | false => rw [hb] at hin; simpa using hin
    have hc' : curAt (copyPre g.isReachable (preOf h T)) r.oid = some (t.tid, packRec rc) :=
      curAt_of_lastRec hl' (by simpa using hdata)
    have := findReachable_nogc_keeps hg2 hc'
    rw [etid, er]
    exact this
  · left; exact hr

end Proofs.Pack
