/-
  Connection model, part 4: `_commit` / `_store_objects` / the object writer's stack.
-/
import Proofs.ConnInv
namespace Proofs.Conn
open ZodbModel ZodbModel.Conn

/-! ### `persistent_id`: what the pickler does to the references of the object being stored -/

/-- effect of `persistentId` / `serialize`, relative to the state `s` they started from:
    only `objs` (oid/jar of the pushed objects) and `nextOid` change -/
structure SerOK (s : State) (r : State × List ObjId) : Prop where
  frame : r.1 = { s with objs := r.1.objs, nextOid := r.1.nextOid }
  mono : s.nextOid ≤ r.1.nextOid
  keep : ∀ i, (s.objs i).oid ≠ none → r.1.objs i = s.objs i
  pushedNew : ∀ i ∈ r.2, (s.objs i).oid = none ∧ ∃ k, (r.1.objs i).oid = some k ∧ s.nextOid ≤ k ∧ k < r.1.nextOid
  other : ∀ i, (s.objs i).oid = none → i ∉ r.2 → r.1.objs i = s.objs i
  pushedObj : ∀ i ∈ r.2, r.1.objs i = { s.objs i with oid := (r.1.objs i).oid, jar := true }
  nodup : r.2.Nodup

theorem persistentId_ok (s : State) (acc : State × List ObjId) (h : SerOK s acc) (x : ObjId) :
    SerOK s (persistentId acc x) := by
  unfold persistentId
  dsimp only
  split
  · exact h
  · rename_i hx
    have hf := h.frame
    constructor
    · simp only [setO]
      rw [hf]
    · show s.nextOid ≤ acc.1.nextOid + 1; have := h.mono; omega
    · intro i hi
      simp only [setO]
      have := h.keep i hi
      split
      · subst_vars; rw [this] at hx; exact absurd hx hi
      · exact this
    · intro i hi
      simp only [List.mem_append, List.mem_singleton] at hi
      simp only [setO]
      rcases hi with hi | hi
      · obtain ⟨h1, k, h2, h3, h4⟩ := h.pushedNew i hi
        refine ⟨h1, ?_⟩
        split
        · subst_vars; rw [h2] at hx; cases hx
        · exact ⟨k, h2, h3, by show k < acc.1.nextOid + 1; omega⟩
      · subst hi
        have hnone : (s.objs i).oid = none := by
          cases hs : (s.objs i).oid with
          | none => rfl
          | some k => have := h.keep i (by rw [hs]; simp); rw [this, hs] at hx; cases hx
        refine ⟨hnone, acc.1.nextOid, by simp, h.mono, by show acc.1.nextOid < acc.1.nextOid + 1; omega⟩
    · intro i hi hni
      simp only [List.mem_append, List.mem_singleton, not_or] at hni
      simp only [setO]
      rw [if_neg hni.2]
      exact h.other i hi hni.1
    · intro i hi
      simp only [List.mem_append, List.mem_singleton] at hi
      simp only [setO]
      split
      · subst_vars
        have hnone : (s.objs i).oid = none := by
          cases hs : (s.objs i).oid with
          | none => rfl
          | some k => have := h.keep i (by rw [hs]; simp); rw [this, hs] at hx; cases hx
        by_cases hmem : i ∈ acc.2
        · obtain ⟨_, k, h2, _⟩ := h.pushedNew i hmem
          rw [h2] at hx; cases hx
        · rw [h.other i hnone hmem]
      · rename_i hne
        rcases hi with hi | hi
        · exact h.pushedObj i hi
        · exact absurd hi hne
    · rw [List.nodup_append]
      refine ⟨h.nodup, by simp, ?_⟩
      intro a ha b hb
      simp only [List.mem_singleton] at hb
      subst hb
      intro hab; subst hab
      obtain ⟨_, k, h2, _⟩ := h.pushedNew a ha
      rw [h2] at hx; cases hx

theorem serialize_ok (s : State) (refs : List ObjId) : SerOK s (serialize s refs) := by
  unfold serialize
  have h0 : SerOK s (s, []) := by
    constructor <;> simp
  generalize (s, ([] : List ObjId)) = acc at h0
  induction refs generalizing acc with
  | nil => exact h0
  | cons x t ih => exact ih _ (persistentId_ok s acc h0 x)

/-- after pickling, every reference has an oid -/
theorem serialize_refs_oid (s : State) (refs : List ObjId) :
    ∀ x ∈ refs, ((serialize s refs).1.objs x).oid ≠ none := by
  unfold serialize
  suffices h : ∀ (l : List ObjId) (acc : State × List ObjId), SerOK s acc →
      (∀ x, (acc.1.objs x).oid ≠ none → ((l.foldl persistentId acc).1.objs x).oid ≠ none) ∧
      ∀ x ∈ l, ((l.foldl persistentId acc).1.objs x).oid ≠ none by
    exact (h refs (s, []) (by constructor <;> simp)).2
  intro l
  induction l with
  | nil => intro acc _; exact ⟨fun _ h => h, by simp⟩
  | cons y t ih =>
    intro acc hacc
    have hstep : ∀ x, (acc.1.objs x).oid ≠ none → ((persistentId acc y).1.objs x).oid ≠ none := by
      intro x hx
      unfold persistentId
      dsimp only
      split
      · exact hx
      · simp only [setO]; split
        · simp
        · exact hx
    have hy : ((persistentId acc y).1.objs y).oid ≠ none := by
      unfold persistentId
      dsimp only
      split
      · rename_i k hk; rw [hk]; simp
      · simp [setO]
    obtain ⟨ih1, ih2⟩ := ih (persistentId acc y) (persistentId_ok s acc hacc y)
    simp only [List.foldl_cons]
    refine ⟨fun x hx => ih1 x (hstep x hx), ?_⟩
    intro x hx
    rcases List.mem_cons.1 hx with hx | hx
    · subst hx; exact ih1 x hy
    · exact ih2 x hx


/-! ### what `_commit` never touches -/

/-- fields that `_commit`/`_store_objects` leave alone -/
def ctx (s : State) :=
  (s.snap, s.committed, s.lastTid, s.log, s.opened, s.needsToJoin, s.registered, s.sps, s.begun, s.fail, s.d2)

@[simp] theorem access_ctx (s : State) (i) : ctx (access s i).1 = ctx s := by
  unfold access; dsimp only; repeat' split
  all_goals rfl

@[simp] theorem pickleAccess_ctx (s : State) (i) : ctx (pickleAccess s i).1 = ctx s := by
  rcases pickleAccess_cases s i with h | h <;> rw [h]
  exact access_ctx s i

@[simp] theorem classify_ctx (s : State) (i k) : ctx (classify s i k) = ctx s := by
  unfold classify; split <;> rfl

@[simp] theorem serialize_ctx (s : State) (refs) : ctx (serialize s refs).1 = ctx s := by
  have := (serialize_ok s refs).frame
  rw [this]; rfl

@[simp] theorem storageStore_ctx (s : State) (k r) : ctx (storageStore s k r).1 = ctx s := by
  unfold storageStore; dsimp only; repeat' split
  all_goals rfl

@[simp] theorem storeRec_ctx (s : State) (i k r) : ctx (storeRec s i k r).1 = ctx s := by
  unfold storeRec; dsimp only; repeat' split
  all_goals first | rfl | exact storageStore_ctx s k r

@[simp] theorem storeOne_ctx (s : State) (i) : ctx (storeOne s i).1.1 = ctx s := by
  unfold storeOne; dsimp only; repeat' split
  all_goals simp

@[simp] theorem dropStack_ctx (s : State) (st) : ctx (dropStack s st) = ctx s :=
  foldl_frame ctx disownPending (fun _ _ => rfl) st s

@[simp] theorem storeObjects_ctx (fuel : Nat) (s : State) (st) :
    ctx (storeObjects fuel s st).1 = ctx s := by
  induction fuel generalizing s st with
  | zero => cases st <;> simp [storeObjects]
  | succ n ih =>
    cases st with
    | nil => rfl
    | cons i rest =>
      simp only [storeObjects]
      split
      · rw [ih]; simp
      · simp

@[simp] theorem commitLoop_ctx (fuel : Nat) (s : State) (l) : ctx (commitLoop fuel s l).1 = ctx s := by
  induction l generalizing s with
  | nil => rfl
  | cons i rest ih =>
    simp only [commitLoop]
    repeat' split
    all_goals simp [ih]


/-! ### `Str` through the pieces of `_store_objects` -/

/-- `self._cache[oid] = obj` -/
theorem Str.cacheSet {P Q s} (h : Str P s) (i k) (hi : (s.objs i).oid = some k)
    (ha : s.added.get k = none) (hPQ : ∀ j ∈ P, j = i ∨ j ∈ Q) :
    Str Q { s with cache := s.cache.set k i } := by
  constructor
  · intro k' j hj
    simp only [Map.get_set] at hj
    split at hj
    · cases hj; subst_vars; exact hi
    · exact h.cacheS k' j hj
  · intro k' j hj
    have := h.addedS k' j hj
    simp only [Map.get_set]
    refine ⟨this.1, ?_⟩
    split
    · subst_vars; rw [ha] at hj; cases hj
    · exact this.2
  · exact h.jarOid
  · intro j k' hj
    simp only [Map.get_set]
    by_cases hkk : k' = k
    · subst hkk
      have := h.inj i j k' hi hj
      subst this
      left; simp
    · rw [if_neg hkk]
      rcases h.known j k' hj with h1 | h1 | h1
      · exact Or.inl h1
      · exact Or.inr (Or.inl h1)
      · rcases hPQ j h1 with h2 | h2
        · subst h2; rw [hi] at hj; cases hj; exact absurd rfl hkk
        · exact Or.inr (Or.inr h2)
  · exact h.fresh
  · exact h.inj
  · exact h.addedSorted

theorem classify_str {P s} (h : Str P s) (i k) (hi : i ∈ P) (hk : (s.objs i).oid = some k) :
    Str P (classify s i k) := by
  unfold classify
  split
  · have h1 : Str P { s with added := s.added.del k } := by
      constructor
      · exact h.cacheS
      · intro k' j hj
        simp only [Map.get_del] at hj
        split at hj
        · cases hj
        · exact h.addedS k' j hj
      · exact h.jarOid
      · intro j k' hj
        simp only [Map.get_del]
        rcases h.known j k' hj with h1 | h1 | h1
        · exact Or.inl h1
        · by_cases hkk : k' = k
          · subst hkk
            have := h.inj i j k' hk hj
            subst this
            exact Or.inr (Or.inr hi)
          · rw [if_neg hkk]; exact Or.inr (Or.inl h1)
        · exact Or.inr (Or.inr h1)
      · exact h.fresh
      · exact h.inj
      · exact Map.del_sorted h.addedSorted k
    have h2 := h1.cacheSet (Q := P) i k hk (by simp) (fun j hj => Or.inr hj)
    exact h2.congr rfl rfl rfl rfl
  · exact h.congr rfl rfl rfl rfl

theorem persistentId_str {P} (acc : State × List ObjId) (h : Str (P ++ acc.2) acc.1) (x : ObjId) :
    Str (P ++ (persistentId acc x).2) (persistentId acc x).1 := by
  unfold persistentId
  dsimp only
  split
  · exact h
  · rename_i hx
    constructor
    · intro k j hj
      have := h.cacheS k j hj
      simp only [setO]
      split
      · subst_vars; rw [this] at hx; cases hx
      · exact this
    · intro k j hj
      have := h.addedS k j hj
      simp only [setO]
      split
      · subst_vars; rw [this.1] at hx; cases hx
      · exact this
    · intro j
      simp only [setO]
      split
      · rfl
      · exact h.jarOid j
    · intro j k hj
      simp only [setO] at hj
      split at hj
      · subst_vars; right; right; simp
      · rcases h.known j k hj with h1 | h1 | h1
        · exact Or.inl h1
        · exact Or.inr (Or.inl h1)
        · right; right
          simp only [List.mem_append] at h1 ⊢
          rcases h1 with h1 | h1
          · exact Or.inl h1
          · exact Or.inr (Or.inl h1)
    · intro j k hj
      simp only [setO] at hj
      show k < acc.1.nextOid + 1
      split at hj
      · cases hj; omega
      · have := h.fresh j k hj; omega
    · intro j j' k hj hj'
      simp only [setO] at hj hj'
      split at hj <;> split at hj'
      · subst_vars; rfl
      · cases hj; have := h.fresh j' _ hj'; omega
      · cases hj'; have := h.fresh j _ hj; omega
      · exact h.inj j j' k hj hj'
    · exact h.addedSorted

theorem serialize_str {P s} (h : Str P s) (refs) :
    Str (P ++ (serialize s refs).2) (serialize s refs).1 := by
  unfold serialize
  have h0 : Str (P ++ (s, ([] : List ObjId)).2) (s, ([] : List ObjId)).1 := by simpa using h
  generalize (s, ([] : List ObjId)) = acc at h0
  induction refs generalizing acc with
  | nil => exact h0
  | cons x t ih => exact ih _ (persistentId_str acc h0 x)


/-! ### field-by-field description of the pieces of `storeOne` -/

/-- fields that neither `access`, nor `serialize`, nor `storeRec` touch -/
def books (s : State) := (s.added, s.creating, s.modified)

@[simp] theorem access_books (s : State) (i) : books (access s i).1 = books s := by
  unfold access; dsimp only; repeat' split
  all_goals rfl

@[simp] theorem pickleAccess_books (s : State) (i) : books (pickleAccess s i).1 = books s := by
  rcases pickleAccess_cases s i with h | h <;> rw [h]
  exact access_books s i

@[simp] theorem serialize_books (s : State) (refs) : books (serialize s refs).1 = books s := by
  have := (serialize_ok s refs).frame
  rw [this]; rfl

@[simp] theorem storageStore_books (s : State) (k r) : books (storageStore s k r).1 = books s := by
  unfold storageStore; dsimp only; repeat' split
  all_goals rfl

@[simp] theorem storeRec_books (s : State) (i k r) : books (storeRec s i k r).1 = books s := by
  unfold storeRec; dsimp only; repeat' split
  all_goals first | rfl | exact storageStore_books s k r

/-- fields that `classify`, `access` and `serialize` do not touch but `storeRec` does -/
def stores (s : State) := (s.sp, s.staged, s.nstores)

@[simp] theorem classify_stores (s : State) (i k) : stores (classify s i k) = stores s := by
  unfold classify; split <;> rfl

@[simp] theorem access_stores (s : State) (i) : stores (access s i).1 = stores s := by
  unfold access; dsimp only; repeat' split
  all_goals rfl

@[simp] theorem pickleAccess_stores (s : State) (i) : stores (pickleAccess s i).1 = stores s := by
  rcases pickleAccess_cases s i with h | h <;> rw [h]
  exact access_stores s i

@[simp] theorem serialize_stores (s : State) (refs) : stores (serialize s refs).1 = stores s := by
  have := (serialize_ok s refs).frame
  rw [this]; rfl

@[simp] theorem classify_objs (s : State) (i k) : (classify s i k).objs = s.objs := by
  unfold classify; split <;> rfl

theorem classify_cache (s : State) (i k k') :
    (classify s i k).cache.get k' =
      if isNewObj s (s.objs i) k = true ∧ k' = k then some i else s.cache.get k' := by
  unfold classify
  split
  · rename_i h
    simp only [Map.get_set, h, true_and]
  · rename_i h; simp [h]

@[simp] theorem access_cache (s : State) (i) : (access s i).1.cache = s.cache := by
  unfold access; dsimp only; repeat' split
  all_goals rfl

@[simp] theorem pickleAccess_cache (s : State) (i) : (pickleAccess s i).1.cache = s.cache := by
  rcases pickleAccess_cases s i with h | h <;> rw [h]
  exact access_cache s i

@[simp] theorem serialize_cache (s : State) (refs) : (serialize s refs).1.cache = s.cache := by
  have := (serialize_ok s refs).frame
  rw [this]

@[simp] theorem classify_sp (s : State) (i k) : (classify s i k).sp = s.sp := by
  unfold classify; split <;> rfl

@[simp] theorem classify_staged (s : State) (i k) : (classify s i k).staged = s.staged := by
  unfold classify; split <;> rfl

@[simp] theorem classify_nextOid (s : State) (i k) : (classify s i k).nextOid = s.nextOid := by
  unfold classify; split <;> rfl

@[simp] theorem access_nextOid (s : State) (i) : (access s i).1.nextOid = s.nextOid := by
  unfold access; dsimp only; repeat' split
  all_goals rfl

@[simp] theorem pickleAccess_nextOid (s : State) (i) : (pickleAccess s i).1.nextOid = s.nextOid := by
  rcases pickleAccess_cases s i with h | h <;> rw [h]
  exact access_nextOid s i

@[simp] theorem storageStore_objs (s : State) (k r) : (storageStore s k r).1.objs = s.objs := by
  unfold storageStore; dsimp only; repeat' split
  all_goals rfl

@[simp] theorem storageStore_nextOid (s : State) (k r) : (storageStore s k r).1.nextOid = s.nextOid := by
  unfold storageStore; dsimp only; repeat' split
  all_goals rfl

@[simp] theorem storageStore_cache (s : State) (k r) : (storageStore s k r).1.cache = s.cache := by
  unfold storageStore; dsimp only; repeat' split
  all_goals rfl

@[simp] theorem storageStore_sp (s : State) (k r) : (storageStore s k r).1.sp = s.sp := by
  unfold storageStore; dsimp only; repeat' split
  all_goals rfl

@[simp] theorem storeRec_nextOid (s : State) (i k r) : (storeRec s i k r).1.nextOid = s.nextOid := by
  unfold storeRec; dsimp only; repeat' split
  all_goals first | rfl | simp

theorem storeRec_cache (s : State) (i k r) (h : (storeRec s i k r).2 = none) :
    (storeRec s i k r).1.cache = s.cache.set k i := by
  unfold storeRec at h ⊢; dsimp only at h ⊢
  repeat' split at h
  all_goals first | cases h | skip
  · simp [setO]
  · simp

theorem storeRec_spSome (s : State) (i k r) : (storeRec s i k r).1.sp.isSome = s.sp.isSome := by
  unfold storeRec; dsimp only; repeat' split
  all_goals first | rfl | simp_all [setO]

/-- `storeRec` changes at most the status of the stored object (TmpStore: it becomes up to date) -/
theorem storeRec_objs (s : State) (i k r) (j) :
    (storeRec s i k r).1.objs j = s.objs j ∨
    (j = i ∧ (storeRec s i k r).1.objs j = { s.objs i with status := .uptodate } ∧ s.sp.isSome = true) := by
  unfold storeRec; dsimp only
  repeat' split
  all_goals first | (left; simp; done) | skip
  rename_i heq
  simp only [setO, heq]
  by_cases hj : j = i
  · right; subst hj; simp
  · left; simp [hj]

/-- `access` changes at most the accessed object, and only when it was a ghost with a record -/
theorem access_objs (s : State) (i j) :
    (access s i).1.objs j = s.objs j ∨
    (j = i ∧ (s.objs i).status = .ghost ∧ ((access s i).1.objs i).status = .uptodate ∧
      ((access s i).1.objs i).oid = (s.objs i).oid ∧ ((access s i).1.objs i).jar = (s.objs i).jar ∧
      ∃ k, (s.objs i).oid = some k ∧ loadRec s k ≠ none) := by
  by_cases hg : (s.objs i).status = .ghost
  · unfold access; dsimp only
    repeat' split
    all_goals first | (left; rfl) | skip
    rename_i k hk _ r hr
    simp only [setO]
    by_cases hj : j = i
    · right; subst hj; simp [hg]; exact ⟨k, hk, by rw [hr]; simp⟩
    · left; simp [hj]
  · left; unfold access; simp [hg]

theorem pickleAccess_objs (s : State) (i j) :
    (pickleAccess s i).1.objs j = s.objs j ∨
    (j = i ∧ (s.objs i).status = .ghost ∧ ((pickleAccess s i).1.objs i).status = .uptodate ∧
      ((pickleAccess s i).1.objs i).oid = (s.objs i).oid ∧ ((pickleAccess s i).1.objs i).jar = (s.objs i).jar ∧
      ∃ k, (s.objs i).oid = some k ∧ loadRec s k ≠ none) := by
  rcases pickleAccess_cases s i with h | h <;> rw [h]
  · exact Or.inl rfl
  · exact access_objs s i j

theorem access_nonghost (s : State) (i) (h : (s.objs i).status ≠ .ghost) : access s i = (s, none) := by
  unfold access; simp [h]


theorem storeRec_str {P Q s} (h : Str P s) (i k r) (hi : (s.objs i).oid = some k)
    (ha : s.added.get k = none) (hPQ : ∀ j ∈ P, j = i ∨ j ∈ Q)
    (hok : (storeRec s i k r).2 = none) : Str Q (storeRec s i k r).1 := by
  unfold storeRec at hok ⊢; dsimp only at hok ⊢
  split
  · rename_i t _
    have h1 := h.cacheSet (Q := Q) i k hi ha hPQ
    have h2 : Str Q { s with sp := some (t.store k r), cache := s.cache.set k i } :=
      h1.congr rfl rfl rfl rfl
    exact h2.setO_same i _ rfl rfl
  · rename_i hsp
    rw [hsp] at hok
    dsimp only at hok
    split
    · rename_i e he; rw [he] at hok; cases hok
    · have h1 : Str P (storageStore s k r).1 := h.congr (by simp) (by simp) (by
        have := storageStore_books s k r; simp only [books] at this; simp_all) (by simp)
      have h2 := h1.cacheSet (Q := Q) i k (by simpa using hi) (by
        have := storageStore_books s k r; simp only [books] at this; simp_all) hPQ
      simpa using h2


/-- the `creating` map of the temporary store is not touched by `_store_objects` -/
def tmpCr (s : State) : Option (Map Bool) := s.sp.map (·.creating)

@[simp] theorem classify_tmpCr (s : State) (i k) : tmpCr (classify s i k) = tmpCr s := by
  unfold tmpCr; simp

@[simp] theorem access_tmpCr (s : State) (i) : tmpCr (access s i).1 = tmpCr s := by
  have := access_stores s i; simp only [stores, Prod.mk.injEq] at this; unfold tmpCr; rw [this.1]

@[simp] theorem pickleAccess_tmpCr (s : State) (i) : tmpCr (pickleAccess s i).1 = tmpCr s := by
  rcases pickleAccess_cases s i with h | h <;> rw [h]
  exact access_tmpCr s i

@[simp] theorem serialize_tmpCr (s : State) (refs) : tmpCr (serialize s refs).1 = tmpCr s := by
  have := serialize_stores s refs; simp only [stores, Prod.mk.injEq] at this; unfold tmpCr; rw [this.1]

@[simp] theorem storeRec_tmpCr (s : State) (i k r) : tmpCr (storeRec s i k r).1 = tmpCr s := by
  unfold storeRec tmpCr; dsimp only
  repeat' split
  all_goals first | (simp_all [setO, TmpStore.store]; done) | simp

theorem isNewObj_congr {s s' : State} {o o' : Obj} (k) (h1 : tmpCr s' = tmpCr s) (h2 : o'.serial = o.serial) :
    isNewObj s' o' k = isNewObj s o k := by
  unfold isNewObj
  rw [h2]
  congr 1
  unfold tmpCr at h1
  cases hs : s.sp <;> cases hs' : s'.sp <;> simp_all


theorem storeRec_fail_objs (s : State) (i k r) (h : (storeRec s i k r).2 ≠ none) :
    (storeRec s i k r).1.objs = s.objs ∧ (storeRec s i k r).1.cache = s.cache := by
  unfold storeRec at h ⊢; dsimp only at h ⊢
  split
  · rename_i hsp; simp [hsp] at h
  · split
    · simp
    · rename_i hsp _ he; simp [hsp, he] at h

theorem SerOK.objs_of_nil {s : State} {r : State × List ObjId} (h : SerOK s r) (hn : r.2 = []) :
    r.1.objs = s.objs := by
  funext j
  by_cases h1 : (s.objs j).oid = none
  · exact h.other j h1 (by rw [hn]; simp)
  · exact h.keep j h1


theorem access_ok_nonghost (s : State) (i) (h : (access s i).2 = none) :
    ((access s i).1.objs i).status ≠ .ghost := by
  by_cases hg : (s.objs i).status = .ghost
  · unfold access at h ⊢; dsimp only at h ⊢
    repeat' split at h
    all_goals first | cases h | skip
    all_goals simp_all [setO]
  · rw [access_nonghost s i hg]; exact hg

theorem pickleAccess_ok_nonghost (s : State) (i) (h : (pickleAccess s i).2 = none) :
    ((pickleAccess s i).1.objs i).status ≠ .ghost := by
  rcases pickleAccess_cases s i with h1 | h1
  · rw [h1] at h; cases h
  · rw [h1] at h ⊢; exact access_ok_nonghost s i h

theorem storeRec_none (s : State) (i k r) (hsp : s.sp = none) (h : (storeRec s i k r).2 = none) :
    (storeRec s i k r).1.sp = none ∧ (storeRec s i k r).1.nstores = s.nstores + 1 ∧
    (storeRec s i k r).1.staged = s.staged ++ [(k, r)] := by
  unfold storeRec at h ⊢; simp only [hsp] at h ⊢
  unfold storageStore at h ⊢; dsimp only at h ⊢
  repeat' split at h
  all_goals first | cases h | skip
  all_goals simp_all

theorem storeRec_tmp (s : State) (i k r t) (hsp : s.sp = some t) :
    (storeRec s i k r).1.sp = some (t.store k r) ∧ (storeRec s i k r).1.staged = s.staged ∧
    ((storeRec s i k r).1.objs i).status = .uptodate := by
  unfold storeRec; simp [hsp, setO]

theorem classify_modified (s : State) (i k) :
    (classify s i k).modified = if isNewObj s (s.objs i) k = true then s.modified else s.modified ++ [k] := by
  unfold classify; split <;> simp_all


theorem access_err_state (s : State) (i) (h : (access s i).2 ≠ none) : (access s i).1 = s := by
  unfold access at h ⊢; dsimp only at h ⊢
  repeat' split
  all_goals first | rfl | skip
  all_goals simp_all

theorem pickleAccess_err_state (s : State) (i) (h : (pickleAccess s i).2 ≠ none) :
    (pickleAccess s i).1 = s := by
  rcases pickleAccess_cases s i with h1 | h1
  · rw [h1]
  · rw [h1] at h ⊢; exact access_err_state s i h

theorem pickleAccess_str {P s} (h : Str P s) (i) : Str P (pickleAccess s i).1 := by
  rcases pickleAccess_cases s i with h1 | h1 <;> rw [h1]
  · exact h
  · exact access_str h i

theorem storeRec_cache' (s : State) (i k r) :
    (storeRec s i k r).1.cache = s.cache ∨ (storeRec s i k r).1.cache = s.cache.set k i := by
  cases he : (storeRec s i k r).2 with
  | none => exact Or.inr (storeRec_cache _ _ _ _ he)
  | some e => exact Or.inl (storeRec_fail_objs _ _ _ _ (by rw [he]; simp)).2

@[simp] theorem storeRec_added (s : State) (i k r) : (storeRec s i k r).1.added = s.added := by
  have := storeRec_books s i k r; simp only [books, Prod.mk.injEq] at this; exact this.1

/-- a TmpStore never refuses a record -/
theorem storeRec_tmp_ok (s : State) (i k r) (h : s.sp.isSome = true) : (storeRec s i k r).2 = none := by
  unfold storeRec
  cases hs : s.sp with
  | none => rw [hs] at h; cases h
  | some t => rfl

end Proofs.Conn
