/-
  Connection model, part 4: `_commit` / `_store_objects` / the object writer's stack.
-/
import Proofs.ConnInv
namespace Proofs.Conn
open ZodbModel ZodbModel.Conn

/-! ### `persistent_id`: what the pickler does to the references of the object being stored -/

/-- effect of `persistentId` / `serialize`, relative to the state `s` they started from:
    only `objs` (oid/jar of the pushed objects) and `nextOid` change -/
structure SerOK (s : State) (r : State × List ObjId) : Prop where
  frame : r.1 = { s with objs := r.1.objs, nextOid := r.1.nextOid }
  mono : s.nextOid ≤ r.1.nextOid
  keep : ∀ i, (s.objs i).oid ≠ none → r.1.objs i = s.objs i
  pushedNew : ∀ i ∈ r.2, (s.objs i).oid = none ∧ ∃ k, (r.1.objs i).oid = some k ∧ s.nextOid ≤ k ∧ k < r.1.nextOid
  other : ∀ i, (s.objs i).oid = none → i ∉ r.2 → r.1.objs i = s.objs i
  pushedObj : ∀ i ∈ r.2, r.1.objs i = { s.objs i with oid := (r.1.objs i).oid, jar := true }

theorem persistentId_ok (s : State) (acc : State × List ObjId) (h : SerOK s acc) (x : ObjId) :
    SerOK s (persistentId acc x) := by
  unfold persistentId
  dsimp only
  split
  · exact h
  · rename_i hx
    have hf := h.frame
    constructor
    · simp only [setO]
      rw [hf]
    · show s.nextOid ≤ acc.1.nextOid + 1; have := h.mono; omega
    · intro i hi
      simp only [setO]
      have := h.keep i hi
      split
      · subst_vars; rw [this] at hx; exact absurd hx hi
      · exact this
    · intro i hi
      simp only [List.mem_append, List.mem_singleton] at hi
      simp only [setO]
      rcases hi with hi | hi
      · obtain ⟨h1, k, h2, h3, h4⟩ := h.pushedNew i hi
        refine ⟨h1, ?_⟩
        split
        · subst_vars; rw [h2] at hx; cases hx
        · exact ⟨k, h2, h3, by show k < acc.1.nextOid + 1; omega⟩
      · subst hi
        have hnone : (s.objs i).oid = none := by
          cases hs : (s.objs i).oid with
          | none => rfl
          | some k => have := h.keep i (by rw [hs]; simp); rw [this, hs] at hx; cases hx
        refine ⟨hnone, acc.1.nextOid, by simp, h.mono, by show acc.1.nextOid < acc.1.nextOid + 1; omega⟩
    · intro i hi hni
      simp only [List.mem_append, List.mem_singleton, not_or] at hni
      simp only [setO]
      rw [if_neg hni.2]
      exact h.other i hi hni.1
    · intro i hi
      simp only [List.mem_append, List.mem_singleton] at hi
      simp only [setO]
      split
      · subst_vars
        have hnone : (s.objs i).oid = none := by
          cases hs : (s.objs i).oid with
          | none => rfl
          | some k => have := h.keep i (by rw [hs]; simp); rw [this, hs] at hx; cases hx
        by_cases hmem : i ∈ acc.2
        · obtain ⟨_, k, h2, _⟩ := h.pushedNew i hmem
          rw [h2] at hx; cases hx
        · rw [h.other i hnone hmem]
      · rename_i hne
        rcases hi with hi | hi
        · exact h.pushedObj i hi
        · exact absurd hi hne

theorem serialize_ok (s : State) (refs : List ObjId) : SerOK s (serialize s refs) := by
  unfold serialize
  have h0 : SerOK s (s, []) := by
    constructor <;> simp
  generalize (s, ([] : List ObjId)) = acc at h0
  induction refs generalizing acc with
  | nil => exact h0
  | cons x t ih => exact ih _ (persistentId_ok s acc h0 x)

/-- after pickling, every reference has an oid -/
theorem serialize_refs_oid (s : State) (refs : List ObjId) :
    ∀ x ∈ refs, ((serialize s refs).1.objs x).oid ≠ none := by
  unfold serialize
  suffices h : ∀ (l : List ObjId) (acc : State × List ObjId), SerOK s acc →
      (∀ x, (acc.1.objs x).oid ≠ none → ((l.foldl persistentId acc).1.objs x).oid ≠ none) ∧
      ∀ x ∈ l, ((l.foldl persistentId acc).1.objs x).oid ≠ none by
    exact (h refs (s, []) (by constructor <;> simp)).2
  intro l
  induction l with
  | nil => intro acc _; exact ⟨fun _ h => h, by simp⟩
  | cons y t ih =>
    intro acc hacc
    have hstep : ∀ x, (acc.1.objs x).oid ≠ none → ((persistentId acc y).1.objs x).oid ≠ none := by
      intro x hx
      unfold persistentId
      dsimp only
      split
      · exact hx
      · simp only [setO]; split
        · simp
        · exact hx
    have hy : ((persistentId acc y).1.objs y).oid ≠ none := by
      unfold persistentId
      dsimp only
      split
      · rename_i k hk; rw [hk]; simp
      · simp [setO]
    obtain ⟨ih1, ih2⟩ := ih (persistentId acc y) (persistentId_ok s acc hacc y)
    simp only [List.foldl_cons]
    refine ⟨fun x hx => ih1 x (hstep x hx), ?_⟩
    intro x hx
    rcases List.mem_cons.1 hx with hx | hx
    · subst hx; exact ih1 x hy
    · exact ih2 x hx


/-! ### what `_commit` never touches -/

/-- fields that `_commit`/`_store_objects` leave alone -/
def ctx (s : State) :=
  (s.snap, s.committed, s.lastTid, s.log, s.opened, s.needsToJoin, s.registered, s.sps, s.begun, s.fail, s.d2)

@[simp] theorem access_ctx (s : State) (i) : ctx (access s i).1 = ctx s := by
  unfold access; dsimp only; repeat' split
  all_goals rfl

@[simp] theorem classify_ctx (s : State) (i k) : ctx (classify s i k) = ctx s := by
  unfold classify; split <;> rfl

@[simp] theorem serialize_ctx (s : State) (refs) : ctx (serialize s refs).1 = ctx s := by
  have := (serialize_ok s refs).frame
  rw [this]; rfl

@[simp] theorem storageStore_ctx (s : State) (k r) : ctx (storageStore s k r).1 = ctx s := by
  unfold storageStore; dsimp only; repeat' split
  all_goals rfl

@[simp] theorem storeRec_ctx (s : State) (i k r) : ctx (storeRec s i k r).1 = ctx s := by
  unfold storeRec; dsimp only; repeat' split
  all_goals first | rfl | exact storageStore_ctx s k r

@[simp] theorem storeOne_ctx (s : State) (i) : ctx (storeOne s i).1.1 = ctx s := by
  unfold storeOne; dsimp only; repeat' split
  all_goals simp

@[simp] theorem storeObjects_ctx (fuel : Nat) (s : State) (st) :
    ctx (storeObjects fuel s st).1 = ctx s := by
  induction fuel generalizing s st with
  | zero => cases st <;> rfl
  | succ n ih =>
    cases st with
    | nil => rfl
    | cons i rest =>
      simp only [storeObjects]
      split
      · rw [ih]; simp
      · exact storeOne_ctx s i

@[simp] theorem commitLoop_ctx (fuel : Nat) (s : State) (l) : ctx (commitLoop fuel s l).1 = ctx s := by
  induction l generalizing s with
  | nil => rfl
  | cons i rest ih =>
    simp only [commitLoop]
    repeat' split
    all_goals simp [ih]


/-! ### `Str` through the pieces of `_store_objects` -/

theorem classify_str {P s} (h : Str P s) (i k) (hi : i ∈ P) (hk : (s.objs i).oid = some k) :
    Str P (classify s i k) := by
  unfold classify
  split
  · constructor
    · exact h.cacheS
    · intro k' j hj
      simp only [Map.get_del] at hj
      split at hj
      · cases hj
      · exact h.addedS k' j hj
    · exact h.jarOid
    · intro j k' hj
      simp only [Map.get_del]
      rcases h.known j k' hj with h1 | h1 | h1
      · exact Or.inl h1
      · by_cases hkk : k' = k
        · subst hkk
          have := h.inj i j k' hk hj
          subst this
          exact Or.inr (Or.inr hi)
        · rw [if_neg hkk]; exact Or.inr (Or.inl h1)
      · exact Or.inr (Or.inr h1)
    · exact h.fresh
    · exact h.inj
    · exact Map.del_sorted h.addedSorted k
  · exact h.congr rfl rfl rfl rfl

theorem persistentId_str {P} (acc : State × List ObjId) (h : Str (P ++ acc.2) acc.1) (x : ObjId) :
    Str (P ++ (persistentId acc x).2) (persistentId acc x).1 := by
  unfold persistentId
  dsimp only
  split
  · exact h
  · rename_i hx
    constructor
    · intro k j hj
      have := h.cacheS k j hj
      simp only [setO]
      split
      · subst_vars; rw [this] at hx; cases hx
      · exact this
    · intro k j hj
      have := h.addedS k j hj
      simp only [setO]
      split
      · subst_vars; rw [this.1] at hx; cases hx
      · exact this
    · intro j
      simp only [setO]
      split
      · rfl
      · exact h.jarOid j
    · intro j k hj
      simp only [setO] at hj
      split at hj
      · subst_vars; right; right; simp
      · rcases h.known j k hj with h1 | h1 | h1
        · exact Or.inl h1
        · exact Or.inr (Or.inl h1)
        · right; right
          simp only [List.mem_append] at h1 ⊢
          rcases h1 with h1 | h1
          · exact Or.inl h1
          · exact Or.inr (Or.inl h1)
    · intro j k hj
      simp only [setO] at hj
      show k < acc.1.nextOid + 1
      split at hj
      · cases hj; omega
      · have := h.fresh j k hj; omega
    · intro j j' k hj hj'
      simp only [setO] at hj hj'
      split at hj <;> split at hj'
      · subst_vars; rfl
      · cases hj; have := h.fresh j' _ hj'; omega
      · cases hj'; have := h.fresh j _ hj; omega
      · exact h.inj j j' k hj hj'
    · exact h.addedSorted

theorem serialize_str {P s} (h : Str P s) (refs) :
    Str (P ++ (serialize s refs).2) (serialize s refs).1 := by
  unfold serialize
  have h0 : Str (P ++ (s, ([] : List ObjId)).2) (s, ([] : List ObjId)).1 := by simpa using h
  generalize (s, ([] : List ObjId)) = acc at h0
  induction refs generalizing acc with
  | nil => exact h0
  | cons x t ih => exact ih _ (persistentId_str acc h0 x)

/-- `self._cache[oid] = obj` -/
theorem Str.cacheSet {P Q s} (h : Str P s) (i k) (hi : (s.objs i).oid = some k)
    (ha : s.added.get k = none) (hPQ : ∀ j ∈ P, j = i ∨ j ∈ Q) :
    Str Q { s with cache := s.cache.set k i } := by
  constructor
  · intro k' j hj
    simp only [Map.get_set] at hj
    split at hj
    · cases hj; subst_vars; exact hi
    · exact h.cacheS k' j hj
  · intro k' j hj
    have := h.addedS k' j hj
    simp only [Map.get_set]
    refine ⟨this.1, ?_⟩
    split
    · subst_vars; rw [ha] at hj; cases hj
    · exact this.2
  · exact h.jarOid
  · intro j k' hj
    simp only [Map.get_set]
    by_cases hkk : k' = k
    · subst hkk
      have := h.inj i j k' hi hj
      subst this
      left; simp
    · rw [if_neg hkk]
      rcases h.known j k' hj with h1 | h1 | h1
      · exact Or.inl h1
      · exact Or.inr (Or.inl h1)
      · rcases hPQ j h1 with h2 | h2
        · subst h2; rw [hi] at hj; cases hj; exact absurd rfl hkk
        · exact Or.inr (Or.inr h2)
  · exact h.fresh
  · exact h.inj
  · exact h.addedSorted

end Proofs.Conn
