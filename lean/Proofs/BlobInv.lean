/-
  C13: the inductive invariant of the blob model and its preservation by the two-phase-commit
  operations (begin / mkTemp / store / storeBlob / vote / finish / abort / foreign abort).
  Undo and pack are in `Proofs/BlobUndo.lean` and `Proofs/BlobPack.lean`.
-/
import Proofs.BlobMap
namespace Proofs.Blob
open ZodbModel ZodbModel.Blob

/-- a committed blob revision `k = (oid, tid)` exists in the record list -/
def BlobRecIn (h : List Rec) (k : Key) : Prop := ∃ r ∈ h, r.key = k ∧ r.kind = .blob

structure Inv (s : St) : Prop where
  fresh : ∀ t, s.txn = some t → ∀ r ∈ s.hist, r.tid < t.tid
  stagedTid : ∀ t, s.txn = some t → ∀ r ∈ t.staged, r.tid = t.tid
  dirtyTid : ∀ k ∈ s.dirty, ∃ t, s.txn = some t ∧ k.2 = t.tid
  filesIff : ∀ k, (aget s.files k).isSome ↔ (BlobRecIn s.hist k ∨ k ∈ s.dirty)
  dirtyStaged : ∀ t, s.txn = some t → ∀ k ∈ s.dirty, ∃ r ∈ t.staged, r.key = k ∧ r.kind = .blob
  stagedFile : ∀ t, s.txn = some t → t.failed = false →
    ∀ r ∈ t.staged, r.kind = .blob → r.key ∈ s.dirty
  srcHist : ∀ r ∈ s.hist, r.kind = .blob →
    r.src ≤ r.tid ∧ aget s.files (r.oid, r.src) = aget s.files r.key
  srcStaged : ∀ t, s.txn = some t → t.failed = false → ∀ r ∈ t.staged, r.kind = .blob →
    r.src ≤ r.tid ∧ aget s.files (r.oid, r.src) = aget s.files r.key
  wrapHist : s.flavor = .wrap → ∀ r ∈ s.hist, r.kind ≠ .uncreate ∧ r.src = r.tid
  wrapStaged : s.flavor = .wrap → ∀ t, s.txn = some t →
    ∀ r ∈ t.staged, r.kind ≠ .uncreate ∧ r.src = r.tid

theorem inv_init (fl : Flavor) : Inv (init fl) := by
  constructor <;> simp [init, aget, BlobRecIn]

/-- outside a transaction nothing is dirty -/
theorem Inv.dirty_nil {s : St} (h : Inv s) (hn : s.txn = none) : s.dirty = [] := by
  cases hd : s.dirty with
  | nil => rfl
  | cons k ks =>
    obtain ⟨t, ht, _⟩ := h.dirtyTid k (by simp [hd])
    simp [hn] at ht

theorem inv_mkTemp {s : St} (h : Inv s) (n : Nat) (b : Bytes) : Inv (mkTemp s n b).1 := by
  obtain ⟨h1, h2, h3, h4, h5, h6, h7, h8, h9, h10⟩ := h
  exact ⟨h1, h2, h3, h4, h5, h6, h7, h8, h9, h10⟩

theorem inv_foreignAbort {s : St} (h : Inv s) : Inv (foreignAbort s).1 := h

theorem inv_begin {s : St} (h : Inv s) (tid : Nat) : Inv (begin s tid).1 := by
  unfold begin
  cases hn : s.txn with
  | some t => simpa using h
  | none =>
    simp only
    split
    · rename_i hc
      have hd := h.dirty_nil hn
      have hall : ∀ r ∈ s.hist, r.tid < tid := by
        have := hc.1
        simpa [List.all_eq_true] using this
      constructor
      · intro t ht r hr
        simp only [Option.some.injEq] at ht
        subst ht; exact hall r hr
      · intro t ht r hr
        simp only [Option.some.injEq] at ht
        subst ht; simp at hr
      · intro k hk; simp [hd] at hk
      · simpa [hd] using h.filesIff
      · intro t _ k hk; simp [hd] at hk
      · intro t ht _ r hr
        simp only [Option.some.injEq] at ht
        subst ht; simp at hr
      · exact h.srcHist
      · intro t ht _ r hr
        simp only [Option.some.injEq] at ht
        subst ht; simp at hr
      · exact h.wrapHist
      · intro _ t ht r hr
        simp only [Option.some.injEq] at ht
        subst ht; simp at hr
    · exact h

theorem inv_vote {s : St} (h : Inv s) : Inv (vote s).1 := by
  unfold vote
  cases hn : s.txn with
  | none => simpa using h
  | some t =>
    simp only
    split
    · exact h
    · rename_i hf
      simp only [setTxn]
      constructor
      · intro t' ht'; simp only [Option.some.injEq] at ht'; subst ht'; exact h.fresh t hn
      · intro t' ht'; simp only [Option.some.injEq] at ht'; subst ht'; exact h.stagedTid t hn
      · intro k hk
        obtain ⟨t0, ht0, hk2⟩ := h.dirtyTid k hk
        rw [hn] at ht0; simp only [Option.some.injEq] at ht0; subst ht0
        exact ⟨_, rfl, hk2⟩
      · exact h.filesIff
      · intro t' ht'; simp only [Option.some.injEq] at ht'; subst ht'; exact h.dirtyStaged t hn
      · intro t' ht' hf'; simp only [Option.some.injEq] at ht'; subst ht'
        exact h.stagedFile t hn hf'
      · exact h.srcHist
      · intro t' ht' hf'; simp only [Option.some.injEq] at ht'; subst ht'
        exact h.srcStaged t hn hf'
      · exact h.wrapHist
      · intro hw t' ht'; simp only [Option.some.injEq] at ht'; subst ht'
        exact h.wrapStaged hw t hn

/-- Workhorse: inside a transaction `t`, replace the staged records, the dirty list and the files,
    touching only file names that carry the tid of the transaction in progress. -/
theorem inv_update {s : St} (h : Inv s) {t : Txn} (hn : s.txn = some t)
    (files' : Files) (dirty' : List Key) (t' : Txn)
    (htid : t'.tid = t.tid)
    (hst : ∀ r ∈ t'.staged, r.tid = t.tid)
    (hdt : ∀ k ∈ dirty', k.2 = t.tid)
    (hframe : ∀ k : Key, k.2 ≠ t.tid → aget files' k = aget s.files k)
    (hown : ∀ k : Key, k.2 = t.tid → ((aget files' k).isSome ↔ k ∈ dirty'))
    (hds : ∀ k ∈ dirty', ∃ r ∈ t'.staged, r.key = k ∧ r.kind = .blob)
    (hsf : t'.failed = false → ∀ r ∈ t'.staged, r.kind = .blob → r.key ∈ dirty')
    (hss : t'.failed = false → ∀ r ∈ t'.staged, r.kind = .blob →
      r.src ≤ r.tid ∧ aget files' (r.oid, r.src) = aget files' r.key)
    (hw : s.flavor = .wrap → ∀ r ∈ t'.staged, r.kind ≠ .uncreate ∧ r.src = r.tid) :
    Inv { s with files := files', dirty := dirty', txn := some t' } := by
  have hfresh := h.fresh t hn
  constructor
  · intro t0 ht0 r hr
    simp only [Option.some.injEq] at ht0
    subst ht0; rw [htid]; exact hfresh r hr
  · intro t0 ht0 r hr
    simp only [Option.some.injEq] at ht0
    subst ht0; rw [htid]; exact hst r hr
  · intro k hk
    exact ⟨t', rfl, by rw [htid]; exact hdt k hk⟩
  · intro k
    show (aget files' k).isSome ↔ (BlobRecIn s.hist k ∨ k ∈ dirty')
    by_cases hk : k.2 = t.tid
    · rw [hown k hk]
      constructor
      · exact Or.inr
      · rintro (⟨r, hr, hkey, _⟩ | hd)
        · have h1 := hfresh r hr
          have h2 : k.2 = r.tid := by rw [← hkey]; rfl
          omega
        · exact hd
    · rw [hframe k hk, h.filesIff k]
      constructor
      · rintro (hb | hd)
        · exact Or.inl hb
        · obtain ⟨t0, ht0, hk2⟩ := h.dirtyTid k hd
          rw [hn] at ht0; simp only [Option.some.injEq] at ht0; subst ht0
          exact absurd hk2 hk
      · rintro (hb | hd)
        · exact Or.inl hb
        · exact absurd (hdt k hd) hk
  · intro t0 ht0
    simp only [Option.some.injEq] at ht0
    subst ht0; exact hds
  · intro t0 ht0
    simp only [Option.some.injEq] at ht0
    subst ht0; exact hsf
  · intro r hr hb
    obtain ⟨hle, heq⟩ := h.srcHist r hr hb
    have hlt := hfresh r hr
    refine ⟨hle, ?_⟩
    show aget files' (r.oid, r.src) = aget files' r.key
    have e1 : aget files' (r.oid, r.src) = aget s.files (r.oid, r.src) :=
      hframe (r.oid, r.src) (by show r.src ≠ t.tid; omega)
    have e2 : aget files' r.key = aget s.files r.key :=
      hframe r.key (by show r.tid ≠ t.tid; omega)
    rw [e1, e2]
    exact heq
  · intro t0 ht0
    simp only [Option.some.injEq] at ht0
    subst ht0; exact hss
  · exact h.wrapHist
  · intro hwf t0 ht0
    simp only [Option.some.injEq] at ht0
    subst ht0; exact hw hwf

/-- special case: only the transaction record changes (files and dirty list stay) -/
theorem inv_setTxn {s : St} (h : Inv s) {t : Txn} (hn : s.txn = some t) (t' : Txn)
    (htid : t'.tid = t.tid)
    (hst : ∀ r ∈ t'.staged, r.tid = t.tid)
    (hds : ∀ k ∈ s.dirty, ∃ r ∈ t'.staged, r.key = k ∧ r.kind = .blob)
    (hsf : t'.failed = false → ∀ r ∈ t'.staged, r.kind = .blob → r.key ∈ s.dirty)
    (hss : t'.failed = false → ∀ r ∈ t'.staged, r.kind = .blob →
      r.src ≤ r.tid ∧ aget s.files (r.oid, r.src) = aget s.files r.key)
    (hw : s.flavor = .wrap → ∀ r ∈ t'.staged, r.kind ≠ .uncreate ∧ r.src = r.tid) :
    Inv (setTxn s t') := by
  have := inv_update h hn s.files s.dirty t' htid hst
    (fun k hk => by
      obtain ⟨t0, ht0, hk2⟩ := h.dirtyTid k hk
      rw [hn] at ht0; simp only [Option.some.injEq] at ht0; subst ht0; exact hk2)
    (fun _ _ => rfl)
    (fun k hk => by
      rw [h.filesIff k]
      constructor
      · rintro (⟨r, hr, hkey, _⟩ | hd)
        · have h1 := h.fresh t hn r hr
          have h2 : k.2 = r.tid := by rw [← hkey]; rfl
          omega
        · exact hd
      · exact Or.inr)
    hds hsf hss hw
  exact this

/-- marking the transaction as failed keeps the invariant -/
theorem inv_failTxn {s : St} (h : Inv s) {t : Txn} (hn : s.txn = some t) : Inv (failTxn s t) := by
  have := inv_setTxn h hn { t with failed := true } rfl (h.stagedTid t hn) (h.dirtyStaged t hn)
    (by intro hf; simp at hf) (by intro hf; simp at hf) (fun hw => h.wrapStaged hw t hn)
  exact this

end Proofs.Blob
