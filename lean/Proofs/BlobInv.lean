/-
  C13: the inductive invariant of the blob model and its preservation by the two-phase-commit
  operations (begin / mkTemp / store / storeBlob / vote / finish / abort / foreign abort).
  Undo and pack are in `Proofs/BlobUndo.lean` and `Proofs/BlobPack.lean`.
-/
import Proofs.BlobMap
namespace Proofs.Blob
open ZodbModel ZodbModel.Blob

/-- a committed blob revision `k = (oid, tid)` exists in the record list -/
def BlobRecIn (h : List Rec) (k : Key) : Prop := ∃ r ∈ h, r.key = k ∧ r.kind = .blob

structure Inv (s : St) : Prop where
  fresh : ∀ t, s.txn = some t → ∀ r ∈ s.hist, r.tid < t.tid
  stagedTid : ∀ t, s.txn = some t → ∀ r ∈ t.staged, r.tid = t.tid
  dirtyTid : ∀ k ∈ s.dirty, ∃ t, s.txn = some t ∧ k.2 = t.tid
  filesIff : ∀ k, (aget s.files k).isSome ↔ (BlobRecIn s.hist k ∨ k ∈ s.dirty)
  dirtyStaged : ∀ t, s.txn = some t → ∀ k ∈ s.dirty, ∃ r ∈ t.staged, r.key = k ∧ r.kind = .blob
  stagedFile : ∀ t, s.txn = some t → t.failed = false →
    ∀ r ∈ t.staged, r.kind = .blob → r.key ∈ s.dirty
  srcHist : ∀ r ∈ s.hist, r.kind = .blob →
    r.src ≤ r.tid ∧ aget s.files (r.oid, r.src) = aget s.files r.key
  srcStaged : ∀ t, s.txn = some t → t.failed = false → ∀ r ∈ t.staged, r.kind = .blob →
    r.src ≤ r.tid ∧ aget s.files (r.oid, r.src) = aget s.files r.key
  wrapHist : s.flavor = .wrap → ∀ r ∈ s.hist, r.kind ≠ .uncreate ∧ r.src = r.tid
  wrapStaged : s.flavor = .wrap → ∀ t, s.txn = some t →
    ∀ r ∈ t.staged, r.kind ≠ .uncreate ∧ r.src = r.tid

theorem inv_init (fl : Flavor) : Inv (init fl) := by
  constructor <;> simp [init, aget, BlobRecIn]

/-- outside a transaction nothing is dirty -/
theorem Inv.dirty_nil {s : St} (h : Inv s) (hn : s.txn = none) : s.dirty = [] := by
  cases hd : s.dirty with
  | nil => rfl
  | cons k ks =>
    obtain ⟨t, ht, _⟩ := h.dirtyTid k (by simp [hd])
    simp [hn] at ht

theorem inv_mkTemp {s : St} (h : Inv s) (n : Nat) (b : Bytes) : Inv (mkTemp s n b).1 := by
  obtain ⟨h1, h2, h3, h4, h5, h6, h7, h8, h9, h10⟩ := h
  exact ⟨h1, h2, h3, h4, h5, h6, h7, h8, h9, h10⟩

theorem inv_foreignAbort {s : St} (h : Inv s) : Inv (foreignAbort s).1 := h

theorem inv_begin {s : St} (h : Inv s) (tid : Nat) : Inv (begin s tid).1 := by
  unfold begin
  cases hn : s.txn with
  | some t => simpa using h
  | none =>
    simp only
    split
    · rename_i hc
      have hd := h.dirty_nil hn
      have hall : ∀ r ∈ s.hist, r.tid < tid := by
        have := hc.1
        simpa [List.all_eq_true] using this
      constructor
      · intro t ht r hr
        simp only [Option.some.injEq] at ht
        subst ht; exact hall r hr
      · intro t ht r hr
        simp only [Option.some.injEq] at ht
        subst ht; simp at hr
      · intro k hk; simp [hd] at hk
      · simpa [hd] using h.filesIff
      · intro t _ k hk; simp [hd] at hk
      · intro t ht _ r hr
        simp only [Option.some.injEq] at ht
        subst ht; simp at hr
      · exact h.srcHist
      · intro t ht _ r hr
        simp only [Option.some.injEq] at ht
        subst ht; simp at hr
      · exact h.wrapHist
      · intro _ t ht r hr
        simp only [Option.some.injEq] at ht
        subst ht; simp at hr
    · exact h

theorem inv_vote {s : St} (h : Inv s) : Inv (vote s).1 := by
  unfold vote
  cases hn : s.txn with
  | none => simpa using h
  | some t =>
    simp only
    split
    · exact h
    · rename_i hf
      simp only [setTxn]
      constructor
      · intro t' ht'; simp only [Option.some.injEq] at ht'; subst ht'; exact h.fresh t hn
      · intro t' ht'; simp only [Option.some.injEq] at ht'; subst ht'; exact h.stagedTid t hn
      · intro k hk
        obtain ⟨t0, ht0, hk2⟩ := h.dirtyTid k hk
        rw [hn] at ht0; simp only [Option.some.injEq] at ht0; subst ht0
        exact ⟨_, rfl, hk2⟩
      · exact h.filesIff
      · intro t' ht'; simp only [Option.some.injEq] at ht'; subst ht'; exact h.dirtyStaged t hn
      · intro t' ht' hf'; simp only [Option.some.injEq] at ht'; subst ht'
        exact h.stagedFile t hn hf'
      · exact h.srcHist
      · intro t' ht' hf'; simp only [Option.some.injEq] at ht'; subst ht'
        exact h.srcStaged t hn hf'
      · exact h.wrapHist
      · intro hw t' ht'; simp only [Option.some.injEq] at ht'; subst ht'
        exact h.wrapStaged hw t hn

/-- Workhorse: inside a transaction `t`, replace the staged records, the dirty list and the files,
    touching only file names that carry the tid of the transaction in progress. -/
theorem inv_update {s : St} (h : Inv s) {t : Txn} (hn : s.txn = some t)
    (files' : Files) (dirty' : List Key) (t' : Txn)
    (htid : t'.tid = t.tid)
    (hst : ∀ r ∈ t'.staged, r.tid = t.tid)
    (hdt : ∀ k ∈ dirty', k.2 = t.tid)
    (hframe : ∀ k : Key, k.2 ≠ t.tid → aget files' k = aget s.files k)
    (hown : ∀ k : Key, k.2 = t.tid → ((aget files' k).isSome ↔ k ∈ dirty'))
    (hds : ∀ k ∈ dirty', ∃ r ∈ t'.staged, r.key = k ∧ r.kind = .blob)
    (hsf : t'.failed = false → ∀ r ∈ t'.staged, r.kind = .blob → r.key ∈ dirty')
    (hss : t'.failed = false → ∀ r ∈ t'.staged, r.kind = .blob →
      r.src ≤ r.tid ∧ aget files' (r.oid, r.src) = aget files' r.key)
    (hw : s.flavor = .wrap → ∀ r ∈ t'.staged, r.kind ≠ .uncreate ∧ r.src = r.tid) :
    Inv { s with files := files', dirty := dirty', txn := some t' } := by
  have hfresh := h.fresh t hn
  constructor
  · intro t0 ht0 r hr
    simp only [Option.some.injEq] at ht0
    subst ht0; rw [htid]; exact hfresh r hr
  · intro t0 ht0 r hr
    simp only [Option.some.injEq] at ht0
    subst ht0; rw [htid]; exact hst r hr
  · intro k hk
    exact ⟨t', rfl, by rw [htid]; exact hdt k hk⟩
  · intro k
    show (aget files' k).isSome ↔ (BlobRecIn s.hist k ∨ k ∈ dirty')
    by_cases hk : k.2 = t.tid
    · rw [hown k hk]
      constructor
      · exact Or.inr
      · rintro (⟨r, hr, hkey, _⟩ | hd)
        · have h1 := hfresh r hr
          have h2 : k.2 = r.tid := by rw [← hkey]; rfl
          omega
        · exact hd
    · rw [hframe k hk, h.filesIff k]
      constructor
      · rintro (hb | hd)
        · exact Or.inl hb
        · obtain ⟨t0, ht0, hk2⟩ := h.dirtyTid k hd
          rw [hn] at ht0; simp only [Option.some.injEq] at ht0; subst ht0
          exact absurd hk2 hk
      · rintro (hb | hd)
        · exact Or.inl hb
        · exact absurd (hdt k hd) hk
  · intro t0 ht0
    simp only [Option.some.injEq] at ht0
    subst ht0; exact hds
  · intro t0 ht0
    simp only [Option.some.injEq] at ht0
    subst ht0; exact hsf
  · intro r hr hb
    obtain ⟨hle, heq⟩ := h.srcHist r hr hb
    have hlt := hfresh r hr
    refine ⟨hle, ?_⟩
    show aget files' (r.oid, r.src) = aget files' r.key
    have e1 : aget files' (r.oid, r.src) = aget s.files (r.oid, r.src) :=
      hframe (r.oid, r.src) (by show r.src ≠ t.tid; omega)
    have e2 : aget files' r.key = aget s.files r.key :=
      hframe r.key (by show r.tid ≠ t.tid; omega)
    rw [e1, e2]
    exact heq
  · intro t0 ht0
    simp only [Option.some.injEq] at ht0
    subst ht0; exact hss
  · exact h.wrapHist
  · intro hwf t0 ht0
    simp only [Option.some.injEq] at ht0
    subst ht0; exact hw hwf

/-- special case: only the transaction record changes (files and dirty list stay) -/
theorem inv_setTxn {s : St} (h : Inv s) {t : Txn} (hn : s.txn = some t) (t' : Txn)
    (htid : t'.tid = t.tid)
    (hst : ∀ r ∈ t'.staged, r.tid = t.tid)
    (hds : ∀ k ∈ s.dirty, ∃ r ∈ t'.staged, r.key = k ∧ r.kind = .blob)
    (hsf : t'.failed = false → ∀ r ∈ t'.staged, r.kind = .blob → r.key ∈ s.dirty)
    (hss : t'.failed = false → ∀ r ∈ t'.staged, r.kind = .blob →
      r.src ≤ r.tid ∧ aget s.files (r.oid, r.src) = aget s.files r.key)
    (hw : s.flavor = .wrap → ∀ r ∈ t'.staged, r.kind ≠ .uncreate ∧ r.src = r.tid) :
    Inv (setTxn s t') := by
  have := inv_update h hn s.files s.dirty t' htid hst
    (fun k hk => by
      obtain ⟨t0, ht0, hk2⟩ := h.dirtyTid k hk
      rw [hn] at ht0; simp only [Option.some.injEq] at ht0; subst ht0; exact hk2)
    (fun _ _ => rfl)
    (fun k hk => by
      rw [h.filesIff k]
      constructor
      · rintro (⟨r, hr, hkey, _⟩ | hd)
        · have h1 := h.fresh t hn r hr
          have h2 : k.2 = r.tid := by rw [← hkey]; rfl
          omega
        · exact hd
      · exact Or.inr)
    hds hsf hss hw
  exact this

/-- marking the transaction as failed keeps the invariant -/
theorem inv_failTxn {s : St} (h : Inv s) {t : Txn} (hn : s.txn = some t) : Inv (failTxn s t) := by
  have := inv_setTxn h hn { t with failed := true } rfl (h.stagedTid t hn) (h.dirtyStaged t hn)
    (by intro hf; simp at hf) (by intro hf; simp at hf) (fun hw => h.wrapStaged hw t hn)
  exact this

/-- the invariant does not mention the temp area or the pack mark -/
theorem Inv.congr {s s' : St} (h : Inv s) (h1 : s'.flavor = s.flavor) (h2 : s'.files = s.files)
    (h3 : s'.hist = s.hist) (h4 : s'.txn = s.txn) (h5 : s'.dirty = s.dirty) : Inv s' := by
  obtain ⟨a1, a2, a3, a4, a5, a6, a7, a8, a9, a10⟩ := h
  constructor
  · rw [h3, h4]; exact a1
  · rw [h4]; exact a2
  · rw [h4, h5]; exact a3
  · rw [h2, h3, h5]; exact a4
  · rw [h4, h5]; exact a5
  · rw [h4, h5]; exact a6
  · rw [h2, h3]; exact a7
  · rw [h2, h4]; exact a8
  · rw [h1, h3]; exact a9
  · rw [h1, h4]; exact a10

theorem inv_store {s : St} (h : Inv s) (oid val base : Nat) : Inv (store s oid val base).1 := by
  unfold store
  cases hn : s.txn with
  | none => simpa using h
  | some t =>
    simp only
    split
    · exact h
    · split
      · exact inv_failTxn h hn
      · refine inv_setTxn h hn _ rfl ?_ ?_ ?_ ?_ ?_
        · intro r hr
          rcases List.mem_cons.1 hr with hr | hr
          · subst hr; rfl
          · exact h.stagedTid t hn r hr
        · intro k hk
          obtain ⟨r, hr, hk'⟩ := h.dirtyStaged t hn k hk
          exact ⟨r, List.mem_cons_of_mem _ hr, hk'⟩
        · intro hf r hr hb
          rcases List.mem_cons.1 hr with hr | hr
          · subst hr; simp at hb
          · exact h.stagedFile t hn hf r hr hb
        · intro hf r hr hb
          rcases List.mem_cons.1 hr with hr | hr
          · subst hr; simp at hb
          · exact h.srcStaged t hn hf r hr hb
        · intro hw r hr
          rcases List.mem_cons.1 hr with hr | hr
          · subst hr; simp
          · exact h.wrapStaged hw t hn r hr

theorem not_isStaged {t : Txn} {oid : Nat} (h : ¬ isStaged t oid = true) :
    ∀ r ∈ t.staged, r.oid ≠ oid := by
  intro r hr he
  apply h
  simp only [isStaged, List.any_eq_true]
  exact ⟨r, hr, by simpa using he⟩

/-- inside a transaction, a file name carrying the transaction's tid exists iff it is dirty -/
theorem Inv.own_file {s : St} (h : Inv s) {t : Txn} (hn : s.txn = some t) (k : Key)
    (hk : k.2 = t.tid) : (aget s.files k).isSome ↔ k ∈ s.dirty := by
  rw [h.filesIff k]
  constructor
  · rintro (⟨r, hr, hkey, _⟩ | hd)
    · have h1 := h.fresh t hn r hr
      have h2 : k.2 = r.tid := by rw [← hkey]; rfl
      omega
    · exact hd
  · exact Or.inr

theorem Inv.dirty_tid {s : St} (h : Inv s) {t : Txn} (hn : s.txn = some t) :
    ∀ k ∈ s.dirty, k.2 = t.tid := by
  intro k hk
  obtain ⟨t0, ht0, hk2⟩ := h.dirtyTid k hk
  rw [hn] at ht0; simp only [Option.some.injEq] at ht0; subst ht0; exact hk2

theorem inv_storeBlob {s : St} (h : Inv s) (oid n base : Nat) (check : Bool) :
    Inv (storeBlob s oid n base check).1 := by
  unfold storeBlob
  cases hn : s.txn with
  | none => simpa using h
  | some t =>
    simp only
    split
    · exact h
    · rename_i hns
      have hnst : ∀ r ∈ t.staged, r.oid ≠ oid := by
        apply not_isStaged
        intro hc; exact hns (Or.inr hc)
      split
      · exact inv_failTxn h hn
      · simp only [blobStoreBlob, setTxn]
        cases hb : aget s.tmp n with
        | none =>
          simp only [failTxn]
          refine inv_setTxn h hn _ rfl ?_ ?_ ?_ ?_ ?_
          · intro r hr
            rcases List.mem_cons.1 hr with hr | hr
            · subst hr; rfl
            · exact h.stagedTid t hn r hr
          · intro k hk
            obtain ⟨r, hr, hk'⟩ := h.dirtyStaged t hn k hk
            exact ⟨r, List.mem_cons_of_mem _ hr, hk'⟩
          · intro hf; simp at hf
          · intro hf; simp at hf
          · intro hw r hr
            rcases List.mem_cons.1 hr with hr | hr
            · subst hr; simp
            · exact h.wrapStaged hw t hn r hr
        | some b =>
          simp only
          have key := inv_update h hn (aset s.files (oid, t.tid) b) ((oid, t.tid) :: s.dirty)
            { t with staged := { oid := oid, tid := t.tid, kind := .blob, val := 0,
                                 src := t.tid, back := 0 } :: t.staged } rfl ?_ ?_ ?_ ?_ ?_ ?_ ?_ ?_
          · exact key.congr rfl rfl rfl rfl rfl
          · intro r hr
            rcases List.mem_cons.1 hr with hr | hr
            · subst hr; rfl
            · exact h.stagedTid t hn r hr
          · intro k hk
            rcases List.mem_cons.1 hk with hk | hk
            · subst hk; rfl
            · exact h.dirty_tid hn k hk
          · intro k hk
            rw [aget_aset]
            have : k ≠ (oid, t.tid) := by
              intro e; apply hk; rw [e]
            simp [this]
          · intro k hk
            rw [aget_aset]
            by_cases e : k = (oid, t.tid)
            · simp [e]
            · simp only [e, if_false, List.mem_cons, false_or]
              exact h.own_file hn k hk
          · intro k hk
            rcases List.mem_cons.1 hk with hk | hk
            · subst hk
              exact ⟨_, List.mem_cons_self, rfl, rfl⟩
            · obtain ⟨r, hr, hk'⟩ := h.dirtyStaged t hn k hk
              exact ⟨r, List.mem_cons_of_mem _ hr, hk'⟩
          · intro hf r hr hbl
            rcases List.mem_cons.1 hr with hr | hr
            · subst hr; exact List.mem_cons_self
            · exact List.mem_cons_of_mem _ (h.stagedFile t hn hf r hr hbl)
          · intro hf r hr hbl
            rcases List.mem_cons.1 hr with hr | hr
            · subst hr; exact ⟨Nat.le_refl _, rfl⟩
            · obtain ⟨hle, heq⟩ := h.srcStaged t hn hf r hr hbl
              refine ⟨hle, ?_⟩
              have hne := hnst r hr
              have e1 : ((r.oid, r.src) : Key) ≠ (oid, t.tid) := by
                intro e; exact hne (congrArg Prod.fst e)
              have e2 : r.key ≠ (oid, t.tid) := by
                intro e; exact hne (congrArg Prod.fst e)
              rw [aget_aset, aget_aset]
              simp only [e1, e2, if_false]
              exact heq
          · intro hw r hr
            rcases List.mem_cons.1 hr with hr | hr
            · subst hr; simp
            · exact h.wrapStaged hw t hn r hr

theorem aget_blobTpcAbort (fs : Files) (ks : List Key) (k : Key) :
    aget (blobTpcAbort fs ks).1 k = if k ∈ ks then none else aget fs k := by
  induction ks generalizing fs with
  | nil => simp [blobTpcAbort]
  | cons k0 ks ih =>
    simp only [blobTpcAbort]
    cases h0 : aget fs k0 with
    | some b =>
      simp only
      rw [ih, aget_adel]
      by_cases e : k = k0
      · simp [e]
      · simp [e]
    | none =>
      simp only
      rw [ih]
      by_cases e : k = k0
      · subst e; simp [h0]
      · simp [e]

theorem inv_abort {s : St} (h : Inv s) : Inv (abort s).1 := by
  unfold abort
  cases hn : s.txn with
  | none => simpa using h
  | some t =>
    simp only
    have hfresh := h.fresh t hn
    have hdt := h.dirty_tid hn
    constructor
    · intro t0 ht0; simp at ht0
    · intro t0 ht0; simp at ht0
    · intro k hk; simp at hk
    · intro k
      show (aget (blobTpcAbort s.files s.dirty).1 k).isSome ↔ (BlobRecIn s.hist k ∨ k ∈ [])
      rw [aget_blobTpcAbort]
      by_cases hk : k ∈ s.dirty
      · simp only [hk, if_true, Option.isSome_none, List.not_mem_nil, or_false]
        constructor
        · intro hc; cases hc
        · rintro ⟨r, hr, hkey, _⟩
          have h1 := hfresh r hr
          have h2 := hdt k hk
          have h3 : k.2 = r.tid := by rw [← hkey]; rfl
          omega
      · simp only [hk, if_false, List.not_mem_nil, or_false]
        rw [h.filesIff k]
        simp [hk]
    · intro t0 ht0; simp at ht0
    · intro t0 ht0; simp at ht0
    · intro r hr hb
      obtain ⟨hle, heq⟩ := h.srcHist r hr hb
      have hlt := hfresh r hr
      refine ⟨hle, ?_⟩
      show aget (blobTpcAbort s.files s.dirty).1 (r.oid, r.src)
         = aget (blobTpcAbort s.files s.dirty).1 r.key
      rw [aget_blobTpcAbort, aget_blobTpcAbort]
      have n1 : ((r.oid, r.src) : Key) ∉ s.dirty := by
        intro hc; have := hdt _ hc; simp only at this; omega
      have n2 : r.key ∉ s.dirty := by
        intro hc; have := hdt _ hc; simp only [Rec.key] at this; omega
      simp only [n1, n2, if_false]
      exact heq
    · intro t0 ht0; simp at ht0
    · exact h.wrapHist
    · intro _ t0 ht0; simp at ht0

theorem inv_finish {s : St} (h : Inv s) : Inv (finish s).1 := by
  unfold finish
  cases hn : s.txn with
  | none => simpa using h
  | some t =>
    simp only
    split
    · exact h
    · rename_i hc
      have hf : t.failed = false := by
        cases hff : t.failed with
        | false => rfl
        | true => exact absurd (Or.inl hff) hc
      have hfresh := h.fresh t hn
      have hdt := h.dirty_tid hn
      constructor
      · intro t0 ht0; simp at ht0
      · intro t0 ht0; simp at ht0
      · intro k hk; simp at hk
      · intro k
        show (aget s.files k).isSome ↔ (BlobRecIn (t.staged ++ s.hist) k ∨ k ∈ [])
        rw [h.filesIff k]
        simp only [List.not_mem_nil, or_false, BlobRecIn, List.mem_append]
        constructor
        · rintro (⟨r, hr, hk⟩ | hd)
          · exact ⟨r, Or.inr hr, hk⟩
          · obtain ⟨r, hr, hk⟩ := h.dirtyStaged t hn k hd
            exact ⟨r, Or.inl hr, hk⟩
        · rintro ⟨r, hr | hr, hkey, hb⟩
          · right
            have := h.stagedFile t hn hf r hr hb
            rw [hkey] at this; exact this
          · exact Or.inl ⟨r, hr, hkey, hb⟩
      · intro t0 ht0; simp at ht0
      · intro t0 ht0; simp at ht0
      · intro r hr hb
        rcases List.mem_append.1 hr with hr | hr
        · exact h.srcStaged t hn hf r hr hb
        · exact h.srcHist r hr hb
      · intro t0 ht0; simp at ht0
      · intro hw r hr
        rcases List.mem_append.1 hr with hr | hr
        · exact h.wrapStaged hw t hn r hr
        · exact h.wrapHist hw r hr
      · intro _ t0 ht0; simp at ht0

end Proofs.Blob
