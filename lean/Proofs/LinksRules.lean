/-
  LINK lemmas: the committed history of the store-rule machine (C03 / C10,
  `ZodbModel/StoreRules.lean`: newest first, revisions carry structured `Record`s or are
  un-creation records) against the abstract `History` of C04.  `absS enc` puts the transactions in
  commit order, the records in store order, and encodes each stored record with `enc` (any
  function: pickles are opaque to C04); an un-creation record has no data.
-/
import Proofs.StoreRules
import Proofs.FileStoreHistory
namespace Proofs.Links
open ZodbModel

def recS (enc : Resolve.Record → Bytes) (r : StoreRules.Rev) : History.Rec :=
  ⟨r.oid, if r.deleted then none else some (enc r.data), none⟩

def txnS (enc : Resolve.Record → Bytes) (t : StoreRules.Txn) : History.Txn :=
  ⟨t.tid, History.stNormal, [], [], [], t.recs.reverse.map (recS enc)⟩

def absS (enc : Resolve.Record → Bytes) (h : StoreRules.Hist) : History.History := (h.map (txnS enc)).reverse

/-- revisions of `o`, newest first: (tid, stored record; `none` = un-creation) -/
def revS (o : Nat) (h : StoreRules.Hist) : List (Nat × Option Resolve.Record) :=
  h.filterMap fun t => if t.has o then some (t.tid, t.data o) else none

def toRevS (enc : Resolve.Record → Bytes) (o : Nat) (p : Nat × Option Resolve.Record) : History.Rev :=
  ⟨p.1, [], [], [], ⟨o, p.2.map enc, none⟩⟩

theorem recOf_txnS (enc : Resolve.Record → Bytes) (t : StoreRules.Txn) (o : Nat) :
    (txnS enc t).recOf o = if t.has o then some ⟨o, (t.data o).map enc, none⟩ else none := by
  unfold History.Txn.recOf txnS StoreRules.Txn.data StoreRules.Txn.has
  simp only
  rw [List.getLast?_filter, ← List.map_reverse, List.reverse_reverse]
  induction t.recs with
  | nil => rfl
  | cons r rs ih =>
    simp only [List.map_cons, List.find?_cons, StoreRules.recData, List.any_cons]
    by_cases h : r.oid = o
    · subst h
      cases hd : r.deleted <;> simp [recS, hd]
    · have : ((recS enc r).oid == o) = false := by simp [recS, h]
      have h' : (r.oid == o) = false := by simp [h]
      simp only [this, h, if_false, h', Bool.false_or]
      exact ih

theorem revs_absS (enc : Resolve.Record → Bytes) (h : StoreRules.Hist) (o : Nat) :
    History.revs (absS enc h) o = ((revS o h).map (toRevS enc o)).reverse := by
  unfold History.revs absS revS
  rw [List.filterMap_reverse, List.filterMap_map, List.map_filterMap]
  congr 1
  induction h with
  | nil => rfl
  | cons t h ih =>
    simp only [List.filterMap_cons, Function.comp, recOf_txnS] at ih ⊢
    cases t.has o with
    | false => simpa using ih
    | true => simp only [if_true, Option.map_some]; rw [ih]; rfl

theorem currentTid_eq_head (h : StoreRules.Hist) (o : Nat) :
    StoreRules.currentTid h o = ((revS o h).head?).map (·.1) := by
  induction h with
  | nil => rfl
  | cons t h ih =>
    simp only [StoreRules.currentTid, revS, List.filterMap_cons]
    cases t.has o with
    | false => simp only [Bool.false_eq_true, if_false]; exact ih
    | true => simp

theorem recDeleted_eq (rs : List StoreRules.Rev) (o : Nat) (h : rs.any (fun r => r.oid == o) = true) :
    StoreRules.recDeleted rs o = (StoreRules.recData rs o).isNone := by
  induction rs with
  | nil => simp at h
  | cons r rs ih =>
    simp only [StoreRules.recDeleted, StoreRules.recData]
    by_cases ho : r.oid = o
    · simp only [ho, if_true]
      cases r.deleted <;> rfl
    · simp only [ho, if_false]
      have h' : (r.oid == o) = false := by simp [ho]
      simp only [List.any_cons, h', Bool.false_or] at h
      exact ih h

theorem currentDeleted_eq_head (h : StoreRules.Hist) (o : Nat) :
    StoreRules.currentDeleted h o =
      (match (revS o h).head? with
       | some p => p.2.isNone
       | none => false) := by
  induction h with
  | nil => rfl
  | cons t h ih =>
    simp only [StoreRules.currentDeleted, revS, List.filterMap_cons]
    have hhas : t.has o = t.recs.any (fun r => r.oid == o) := rfl
    cases ha : t.recs.any (fun r => r.oid == o) with
    | false =>
      rw [hhas, ha]
      simp only [Bool.false_eq_true, if_false]; exact ih
    | true =>
      rw [hhas, ha]
      simp only [if_true, List.head?_cons]
      exact recDeleted_eq t.recs o ha

theorem revS_tids {o : Nat} {h : StoreRules.Hist} {p : Nat × Option Resolve.Record} (hp : p ∈ revS o h) :
    ∃ t ∈ h, p.1 = t.tid := by
  obtain ⟨t, ht, he⟩ := List.mem_filterMap.1 hp
  cases hh : t.has o with
  | false => simp [hh] at he
  | true =>
    simp only [hh, if_true, Option.some.injEq] at he
    exact ⟨t, ht, by rw [← he]⟩

theorem revS_desc (enc : Resolve.Record → Bytes) {h : StoreRules.Hist} (hs : StoreRules.Sorted h) (o : Nat) :
    Proofs.FileStoreHistory.Desc ((revS o h).map (toRevS enc o)) := by
  induction h with
  | nil => exact List.Pairwise.nil
  | cons t h ih =>
    obtain ⟨h1, h2⟩ := List.pairwise_cons.1 hs
    have hcons : revS o (t :: h) = (if t.has o then [(t.tid, t.data o)] else []) ++ revS o h := by
      simp only [revS, List.filterMap_cons]
      cases t.has o <;> rfl
    rw [hcons]
    cases t.has o with
    | false => exact ih h2
    | true =>
      simp only [if_true, List.cons_append, List.nil_append, List.map_cons]
      refine List.pairwise_cons.2 ⟨?_, ih h2⟩
      intro x hx
      obtain ⟨p, hp, rfl⟩ := List.mem_map.1 hx
      obtain ⟨t', ht', he⟩ := revS_tids hp
      show p.1 < t.tid
      rw [he]; exact h1 t' ht'

theorem loadSerialFile_none_of_lt (h : StoreRules.Hist) (o ser : Nat) (hl : ∀ t ∈ h, t.tid < ser) :
    StoreRules.loadSerialFile h o ser = none := by
  induction h with
  | nil => rfl
  | cons t h ih =>
    have h1 := hl t List.mem_cons_self
    have ih' := ih (fun x hx => hl x (List.mem_cons_of_mem _ hx))
    simp only [StoreRules.loadSerialFile]
    cases t.data o with
    | none => exact ih'
    | some d => simp only; rw [if_neg (by omega), if_pos h1]

theorem recData_none_of_not_any (rs : List StoreRules.Rev) (o : Nat)
    (h : rs.any (fun r => r.oid == o) = false) : StoreRules.recData rs o = none := by
  induction rs with
  | nil => rfl
  | cons r rs ih =>
    simp only [List.any_cons, Bool.or_eq_false_iff] at h
    have : ¬ r.oid = o := by simpa using h.1
    simp only [StoreRules.recData, this, if_false]
    exact ih h.2

theorem data_none_of_not_has {t : StoreRules.Txn} {o : Nat} (h : t.has o = false) : t.data o = none :=
  recData_none_of_not_any t.recs o h

theorem loadSerialFile_eq_go {h : StoreRules.Hist} (hs : StoreRules.Sorted h) (o ser : Nat) :
    StoreRules.loadSerialFile h o ser =
      (FileStore.loadSerialGo (fun p : Nat × Option Resolve.Record => p.1) ser (revS o h)).bind (·.2) := by
  induction h with
  | nil => rfl
  | cons t h ih =>
    obtain ⟨h1, h2⟩ := List.pairwise_cons.1 hs
    have hcons : revS o (t :: h) = (if t.has o then [(t.tid, t.data o)] else []) ++ revS o h := by
      simp only [revS, List.filterMap_cons]
      cases t.has o <;> rfl
    rw [hcons]
    simp only [StoreRules.loadSerialFile]
    cases hh : t.has o with
    | false =>
      rw [data_none_of_not_has hh]
      simp only [Bool.false_eq_true, if_false, List.nil_append]
      exact ih h2
    | true =>
      simp only [if_true, List.cons_append, List.nil_append, FileStore.loadSerialGo]
      cases hd : t.data o with
      | some d =>
        simp only
        by_cases e1 : t.tid = ser
        · simp [e1]
        · simp only [e1, if_false]
          by_cases e2 : t.tid < ser
          · simp [e2]
          · simp only [e2, if_false]; exact ih h2
      | none =>
        simp only
        by_cases e1 : t.tid = ser
        · simp only [e1, if_true, Option.bind_some]
          exact loadSerialFile_none_of_lt h o ser (fun x hx => by have := h1 x hx; omega)
        · simp only [e1, if_false]
          by_cases e2 : t.tid < ser
          · simp only [e2, if_true, Option.bind_none]
            exact loadSerialFile_none_of_lt h o ser (fun x hx => by have := h1 x hx; omega)
          · simp only [e2, if_false]; exact ih h2

theorem loadSerialMapping_none_of_ne (h : StoreRules.Hist) (o ser : Nat) (hl : ∀ t ∈ h, t.tid ≠ ser) :
    StoreRules.loadSerialMapping h o ser = none := by
  induction h with
  | nil => rfl
  | cons t h ih =>
    simp only [StoreRules.loadSerialMapping]
    rw [if_neg (hl t List.mem_cons_self)]
    exact ih (fun x hx => hl x (List.mem_cons_of_mem _ hx))

theorem loadSerialMapping_eq_find {h : StoreRules.Hist} (hs : StoreRules.Sorted h) (o ser : Nat) :
    StoreRules.loadSerialMapping h o ser = ((revS o h).find? (fun p => p.1 == ser)).bind (·.2) := by
  induction h with
  | nil => rfl
  | cons t h ih =>
    obtain ⟨h1, h2⟩ := List.pairwise_cons.1 hs
    have hcons : revS o (t :: h) = (if t.has o then [(t.tid, t.data o)] else []) ++ revS o h := by
      simp only [revS, List.filterMap_cons]
      cases t.has o <;> rfl
    rw [hcons]
    simp only [StoreRules.loadSerialMapping]
    by_cases e1 : t.tid = ser
    · have hnone : StoreRules.loadSerialMapping h o ser = none :=
        loadSerialMapping_none_of_ne h o ser (fun x hx => by have := h1 x hx; omega)
      cases hh : t.has o with
      | false =>
        rw [data_none_of_not_has hh]
        simp only [e1, if_true, Bool.false_eq_true, if_false, List.nil_append]
        rw [← ih h2]
      | true =>
        have : ((t.tid, t.data o).1 == ser) = true := by simp [e1]
        simp only [e1, if_true, List.cons_append, List.nil_append, List.find?_cons]
        rw [e1] at this
        simp only [this, Option.bind_some]
        cases t.data o with
        | none => exact hnone
        | some d => rfl
    · simp only [e1, if_false]
      cases hh : t.has o with
      | false => simp only [Bool.false_eq_true, if_false, List.nil_append]; exact ih h2
      | true =>
        have : ((t.tid, t.data o).1 == ser) = false := by simp [e1]
        simp only [if_true, List.cons_append, List.nil_append, List.find?_cons, this]
        exact ih h2

def okS (enc : Resolve.Record → Bytes) : Option Resolve.Record → Except History.Err Bytes
  | some d => .ok (enc d)
  | none => .error .keyError

theorem loadSerial_absS_file (enc : Resolve.Record → Bytes) {h : StoreRules.Hist}
    (hs : StoreRules.Sorted h) (o ser : Nat) :
    History.loadSerial (absS enc h) o ser = okS enc (StoreRules.loadSerialFile h o ser) := by
  rw [Proofs.FileStoreHistory.loadSerial_walk (revs_absS enc h o) (revS_desc enc hs o) ser,
    loadSerialFile_eq_go hs,
    Proofs.FileStoreHistory.loadSerialGo_map (toRevS enc o) (fun p => p.1) History.Rev.tid (fun _ => rfl)]
  cases FileStore.loadSerialGo (fun p : Nat × Option Resolve.Record => p.1) ser (revS o h) with
  | none => rfl
  | some p => cases hp : p.2 <;> simp [toRevS, okS, hp]

theorem loadSerial_absS_mapping (enc : Resolve.Record → Bytes) {h : StoreRules.Hist}
    (hs : StoreRules.Sorted h) (o ser : Nat) :
    History.loadSerial (absS enc h) o ser = okS enc (StoreRules.loadSerialMapping h o ser) := by
  rw [Proofs.FileStoreHistory.loadSerial_walk (revs_absS enc h o) (revS_desc enc hs o) ser,
    Proofs.FileStoreHistory.walkSerial_spec ser _ (revS_desc enc hs o), loadSerialMapping_eq_find hs,
    List.find?_map]
  have : ((fun r : History.Rev => r.tid == ser) ∘ toRevS enc o) =
      fun p : Nat × Option Resolve.Record => p.1 == ser := rfl
  rw [this]
  cases (revS o h).find? (fun p => p.1 == ser) with
  | none => rfl
  | some p => cases hp : p.2 <;> simp [toRevS, okS, hp]

theorem getTid_absS (enc : Resolve.Record → Bytes) (h : StoreRules.Hist) (o : Nat) :
    History.getTid (absS enc h) o =
      (match StoreRules.currentTid h o with
       | some t => if StoreRules.currentDeleted h o then .error .keyError else .ok t
       | none => .error .keyError) := by
  rw [Proofs.FileStoreHistory.getTid_walk (revs_absS enc h o), currentTid_eq_head,
    currentDeleted_eq_head, List.head?_map]
  cases (revS o h).head? with
  | none => rfl
  | some p => cases hp : p.2 <;> simp [toRevS, hp]

theorem absS_wf (enc : Resolve.Record → Bytes) {h : StoreRules.Hist} (hs : StoreRules.Sorted h) :
    History.WF (absS enc h) := by
  unfold History.WF absS
  rw [List.pairwise_reverse, List.pairwise_map]
  exact hs

end Proofs.Links
