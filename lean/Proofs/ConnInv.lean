/-
  Connection model, part 3: the structural invariant (who owns which oid) and its preservation by the
  primitive steps.
-/
import Proofs.ConnFrame
namespace Proofs.Conn
open ZodbModel ZodbModel.Conn

/-- Ownership bookkeeping is consistent.  `P` = objects that already got an oid from the object writer
    but are still waiting on its stack (empty outside `_store_objects`). -/
structure Str (P : List ObjId) (s : State) : Prop where
  cacheS : ∀ k i, s.cache.get k = some i → (s.objs i).oid = some k
  addedS : ∀ k i, s.added.get k = some i → (s.objs i).oid = some k ∧ s.cache.get k = none
  jarOid : ∀ i, (s.objs i).jar = (s.objs i).oid.isSome
  known : ∀ i k, (s.objs i).oid = some k → s.cache.get k = some i ∨ s.added.get k = some i ∨ i ∈ P
  fresh : ∀ i k, (s.objs i).oid = some k → k < s.nextOid
  inj : ∀ i j k, (s.objs i).oid = some k → (s.objs j).oid = some k → i = j
  addedSorted : Map.Sorted s.added

theorem Str.mono {P Q : List ObjId} {s : State} (h : Str P s) (hPQ : ∀ i ∈ P, i ∈ Q) : Str Q s := by
  refine ⟨h.cacheS, h.addedS, h.jarOid, ?_, h.fresh, h.inj, h.addedSorted⟩
  intro i k hk
  rcases h.known i k hk with h1 | h1 | h1
  · exact Or.inl h1
  · exact Or.inr (Or.inl h1)
  · exact Or.inr (Or.inr (hPQ i h1))

/-- the fields of the state that `Str` does not mention may change freely -/
theorem Str.congr {P s s'} (h : Str P s) (ho : s'.objs = s.objs) (hc : s'.cache = s.cache)
    (ha : s'.added = s.added) (hn : s'.nextOid = s.nextOid) : Str P s' := by
  constructor
  · rw [ho, hc]; exact h.cacheS
  · rw [ho, hc, ha]; exact h.addedS
  · rw [ho]; exact h.jarOid
  · rw [ho, hc, ha]; exact h.known
  · rw [ho, hn]; exact h.fresh
  · rw [ho]; exact h.inj
  · rw [ha]; exact h.addedSorted

/-- changing anything but `_p_oid/_p_jar` of one object -/
theorem Str.setO_same {P s} (h : Str P s) (i : ObjId) (o : Obj)
    (ho : o.oid = (s.objs i).oid) (hj : o.jar = (s.objs i).jar) : Str P (setO s i o) := by
  constructor
  · intro k j hk; have := h.cacheS k j hk; simp only [setO] at *; grind
  · intro k j hk; have := h.addedS k j hk; simp only [setO] at *; grind
  · intro j; have := h.jarOid j; simp only [setO]; grind
  · intro j k hk
    simp only [setO] at *
    have := h.known j k
    grind
  · intro j k hk; simp only [setO] at *; have := h.fresh j k; grind
  · intro j j' k h1 h2; simp only [setO] at *; have := h.inj j j' k; grind
  · exact h.addedSorted

/-- `Str` only looks at `_p_oid/_p_jar`, `_cache`, `_added` (and oids stay below the counter) -/
theorem Str.transfer {P s s'} (h : Str P s)
    (ho : ∀ j, (s'.objs j).oid = (s.objs j).oid ∧ (s'.objs j).jar = (s.objs j).jar)
    (hc : s'.cache = s.cache) (ha : s'.added = s.added) (hn : s.nextOid ≤ s'.nextOid) : Str P s' := by
  constructor
  · intro k j hj; rw [hc] at hj; rw [(ho j).1]; exact h.cacheS k j hj
  · intro k j hj; rw [ha] at hj; rw [(ho j).1, hc]; exact h.addedS k j hj
  · intro j; rw [(ho j).1, (ho j).2]; exact h.jarOid j
  · intro j k hj; rw [(ho j).1] at hj; rw [hc, ha]; exact h.known j k hj
  · intro j k hj; rw [(ho j).1] at hj; have := h.fresh j k hj; omega
  · intro j j' k h1 h2; rw [(ho j).1] at h1; rw [(ho j').1] at h2; exact h.inj j j' k h1 h2
  · rw [ha]; exact h.addedSorted

/-- `Str` looks at `_cache` through lookups only -/
theorem Str.congrGet {P s s'} (h : Str P s) (ho : s'.objs = s.objs)
    (hc : ∀ k, s'.cache.get k = s.cache.get k) (ha : s'.added = s.added)
    (hn : s'.nextOid = s.nextOid) : Str P s' := by
  constructor
  · intro k j hj; rw [hc] at hj; rw [ho]; exact h.cacheS k j hj
  · intro k j hj; rw [ha] at hj; rw [ho, hc]; exact h.addedS k j hj
  · rw [ho]; exact h.jarOid
  · intro j k hj; rw [ho] at hj; rw [hc, ha]; exact h.known j k hj
  · rw [ho, hn]; exact h.fresh
  · rw [ho]; exact h.inj
  · rw [ha]; exact h.addedSorted

/-- an object that is in `_cache` or `_added` need not be listed as pending -/
theorem Str.drop {P s} {i k : Nat} (h : Str (i :: P) s) (hk : (s.objs i).oid = some k)
    (hkn : s.cache.get k = some i ∨ s.added.get k = some i) : Str P s := by
  refine ⟨h.cacheS, h.addedS, h.jarOid, ?_, h.fresh, h.inj, h.addedSorted⟩
  intro j k' hj
  rcases h.known j k' hj with h1 | h1 | h1
  · exact Or.inl h1
  · exact Or.inr (Or.inl h1)
  · rcases List.mem_cons.1 h1 with h2 | h2
    · subst h2
      rw [hk] at hj; cases hj
      rcases hkn with h3 | h3
      · exact Or.inl h3
      · exact Or.inr (Or.inl h3)
    · exact Or.inr (Or.inr h2)

theorem access_str {P s} (h : Str P s) (i) : Str P (access s i).1 := by
  unfold access
  dsimp only
  repeat' split
  all_goals first | exact h | (apply h.setO_same <;> rfl)

theorem join_str {P s} (h : Str P s) : Str P (join s) := by
  unfold join; split
  · exact h.congr rfl rfl rfl rfl
  · exact h

theorem markChanged_str {P s} (h : Str P s) (i) : Str P (markChanged s i) := by
  have h1 : Str P (setO s i { s.objs i with status := .changed }) := h.setO_same _ _ rfl rfl
  unfold markChanged
  dsimp only
  repeat' split
  all_goals first | exact h | exact h1 | skip
  exact (join_str h1).congr rfl rfl rfl rfl

theorem invalidate_str {P s} (h : Str P s) (k) : Str P (invalidate s k) := by
  unfold invalidate
  split
  · exact h.setO_same _ _ rfl rfl
  · exact h

theorem invalidateAll_str {P s} (h : Str P s) (ks) : Str P (invalidateAll s ks) :=
  foldl_pres (Str P) invalidate (fun _ k h => invalidate_str h k) ks s h

/-- forgetting an object completely: out of `_cache` and `_added`, then disowned -/
theorem Str.remove {P s} (h : Str P s) (i : ObjId) (k : Oid) (hk : (s.objs i).oid = some k) :
    Str P (disown { s with cache := s.cache.del k, added := s.added.del k } i) := by
  constructor
  · intro k' j hj
    simp only [disown, setO, Map.get_del] at *
    have := h.cacheS k' j
    have := h.inj i j k
    grind
  · intro k' j hj
    simp only [disown, setO, Map.get_del] at *
    have := h.addedS k' j
    have := h.inj i j k
    grind
  · intro j; have := h.jarOid j; simp only [disown, setO]; grind
  · intro j k' hj
    simp only [disown, setO, Map.get_del] at *
    have := h.known j k'
    have := h.inj i j k
    grind
  · intro j k' hj; simp only [disown, setO] at *; have := h.fresh j k'; grind
  · intro j j' k' h1 h2; simp only [disown, setO] at *; have := h.inj j j' k'; grind
  · exact Map.del_sorted h.addedSorted k

theorem uncreate_str {P s} (h : Str P s) (k) : Str P (uncreate s k) := by
  unfold uncreate
  split
  · rename_i i hi
    have hoid := h.cacheS k i hi
    have hadd : s.added.get k = none := by
      cases ha : s.added.get k with
      | none => rfl
      | some j => have := (h.addedS k j ha).2; rw [hi] at this; cases this
    have := h.remove i k hoid
    rw [Map.del_of_get_none s.added k hadd] at this
    exact this
  · exact h

theorem invalidateCreating_str {P s} (h : Str P s) (ks) : Str P (invalidateCreating s ks) :=
  foldl_pres (Str P) uncreate (fun _ k h => uncreate_str h k) ks s h

theorem abortOne_str {P s} (h : Str P s) (i) : Str P (abortOne s i) := by
  unfold abortOne
  split
  · exact h
  · rename_i k hk
    split
    · exact (h.remove i k hk).congr rfl rfl rfl rfl
    · split
      · exact h
      · exact invalidate_str h k

theorem abortObjs_str {P s} (h : Str P s) : Str P (abortObjs s) :=
  foldl_pres (Str P) abortOne (fun _ k h => abortOne_str h k) _ s h

theorem drain_aux {P} : ∀ (l : Map ObjId) (t : State), Str P t → t.added = l →
    let r := l.foldl (fun (s : State) (p : Oid × ObjId) =>
      disown { s with added := s.added.del p.1 } p.2) t
    Str P r ∧ r.added = [] := by
  intro l
  induction l with
  | nil => intro t ht hl; exact ⟨ht, hl⟩
  | cons x rest ih =>
    obtain ⟨k, i⟩ := x
    intro t ht hl
    simp only [List.foldl_cons]
    have hs := ht.addedSorted
    rw [hl] at hs
    have hget : t.added.get k = some i := by rw [hl]; simp [Map.get]
    have ⟨hoid, hc⟩ := ht.addedS k i hget
    have hrem := ht.remove i k hoid
    rw [Map.del_of_get_none t.cache k hc] at hrem
    apply ih
    · exact hrem.congr rfl rfl rfl rfl
    · show t.added.del k = rest
      rw [hl]; exact Map.del_head_sorted hs

theorem drainAdded_str {P s} (h : Str P s) : Str P (drainAdded s) := by
  unfold drainAdded
  dsimp only
  have h1 := drain_aux (P := P) s.added s h rfl
  exact h1.1.congr rfl rfl h1.2.symm rfl

theorem drainAdded_added (s : State) : (drainAdded s).added = [] := rfl

end Proofs.Conn
