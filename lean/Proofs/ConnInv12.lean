/-
  Connection model, part 12 (C12): the invariant of every state reachable by a program with
  savepoints (no second connection, no injected failure, no close), and the simple steps.
-/
import Proofs.ConnTxn11
import Proofs.ConnTmp
namespace Proofs.Conn
open ZodbModel ZodbModel.Conn

/-- well-formedness of the temporary store `t` of state `s` -/
structure TmpWF (s : State) (t : TmpStore) : Prop where
  pos : t.position = t.entries.length
  idx : ∀ k p, t.index.get k = some p → p < t.position ∧ ∃ r, t.entries[p]? = some (k, r)
  idxCached : ∀ k, t.index.get k ≠ none → ∃ i, s.cache.get k = some i
  crIdx : ∀ k, t.creating.has k = true → t.index.get k ≠ none ∧ s.committed.get k = none
  recSerial : ∀ k p r, t.index.get k = some p → t.entries[p]? = some (k, r) →
    (∀ c, s.committed.get k = some c → r.serial = c.serial) ∧ (s.committed.get k = none → r.serial = 0)

/-- a savepoint state `(p, idx, cr)` that can still be rolled back to, against the store `t` -/
structure EntryWF (t : TmpStore) (p : Nat) (idx : Map Nat) (cr : Map Bool) : Prop where
  le : p ≤ t.position
  idxLt : ∀ k q, idx.get k = some q → q < p ∧ ∃ r, t.entries[q]? = some (k, r)
  idxSub : ∀ k, idx.get k ≠ none → t.index.get k ≠ none
  crSub : ∀ k, cr.has k = true → t.creating.has k = true
  crIdx : ∀ k, cr.has k = true → idx.get k ≠ none

/-- later savepoints extend earlier ones -/
def entryLe : SpEntry → SpEntry → Prop
  | .real p idx cr, .real p' idx' cr' =>
    p ≤ p' ∧ (∀ k, idx.get k ≠ none → idx'.get k ≠ none) ∧ (∀ k, cr.has k = true → cr'.has k = true)
  | .real _ _ _, .abortSp _ => False      -- a savepoint of the joined connection never precedes …
  | _, _ => True

def SpEntry.isReal : SpEntry → Bool
  | .real _ _ _ => true
  | _ => false

structure Inv12 (s : State) : Prop where
  str : Str [] s
  creatingNil : s.creating = []
  opened : s.opened = true
  snapEq : s.snap = s.committed
  failNone : s.fail = .none
  regOid : ∀ i ∈ s.registered, (s.objs i).oid ≠ none
  regStatus : ∀ i ∈ s.registered, (s.objs i).status = .changed ∨
    ∃ k, (s.objs i).oid = some k ∧ s.added.get k = some i
  addedReg : ∀ k i, s.added.get k = some i → i ∈ s.registered
  changedReg : ∀ i, (s.objs i).status = .changed → i ∈ s.registered
  idle : s.needsToJoin = true → s.registered = [] ∧ s.added = [] ∧ s.sp = none
  serial0 : ∀ i, (s.objs i).oid = none → (s.objs i).serial = 0
  addedSerial : ∀ k i, s.added.get k = some i → (s.objs i).serial = 0
  commFresh : ∀ k, s.committed.get k ≠ none → k < s.nextOid
  addedUncommitted : ∀ k, s.added.get k ≠ none → s.committed.get k = none
  tidB : ∀ k c, s.committed.get k = some c → 1 ≤ c.serial ∧ c.serial ≤ s.lastTid
  coh : ∀ k i, s.cache.get k = some i → ∃ r, loadRec s k = some r ∧
    ((s.objs i).status ≠ .ghost → (s.objs i).serial = r.serial) ∧
    ((s.objs i).status = .uptodate → (s.objs i).val = r.val ∧ (s.objs i).refs = r.refs)
  owned : ∀ k i, s.cache.get k = some i → s.committed.get k ≠ none ∨
    ∃ t, s.sp = some t ∧ t.creating.has k = true
  tmp : ∀ t, s.sp = some t → TmpWF s t
  spsReal : ∀ t, s.sp = some t → ∀ p idx cr, SpEntry.real p idx cr ∈ s.sps → EntryWF t p idx cr
  spsNone : s.sp = none → ∀ p idx cr, SpEntry.real p idx cr ∉ s.sps
  spsOrder : s.sps.Pairwise entryLe
  spsFlag : s.needsToJoin = false → SpEntry.abortSp false ∉ s.sps

theorem inv12_init : Inv12 init := by
  have h := inv11_init
  refine ⟨h.str, h.creatingNil, rfl, rfl, rfl, h.regOid, h.regStatus, h.addedReg, h.changedReg,
    fun _ => ⟨rfl, rfl, rfl⟩, h.serial0, h.addedSerial, h.commFresh, h.addedUncommitted, h.tidB, ?_, ?_,
    ?_, ?_, ?_, List.Pairwise.nil, ?_⟩
  · intro k i hc
    have := h.coh k i hc
    rw [h.loadRec]; exact this
  · intro k i hc
    left
    obtain ⟨r, hr, _⟩ := h.coh k i hc
    obtain ⟨c, hcc, _⟩ := h.snapC k r hr
    rw [hcc]; simp
  · intro t ht; cases ht
  · intro t ht; cases ht
  · intro _ p idx cr hm; cases hm
  · intro _ hm; cases hm

/-- without savepoint storage (and forgetting the transaction's savepoint list) the state is one a
    program without savepoints could be in -/
theorem Inv12.toInv11 {s : State} (h : Inv12 s) (hsp : s.sp = none) : Inv11 { s with sps := [] } := by
  refine ⟨h.str.congr rfl rfl rfl rfl, hsp, rfl, h.creatingNil, h.regOid, h.regStatus, h.addedReg,
    h.changedReg, fun hn => ⟨(h.idle hn).1, (h.idle hn).2.1⟩, ?_,
    h.serial0, h.addedSerial, h.commFresh, h.addedUncommitted, ?_, ?_, h.tidB⟩
  · intro ho
    have : s.opened = false := ho
    rw [h.opened] at this; cases this
  · intro k i hc
    obtain ⟨r, hr, q⟩ := h.coh k i hc
    unfold loadRec at hr
    rw [hsp] at hr
    exact ⟨r, hr, q⟩
  · intro k r hr
    have hr' : s.snap.get k = some r := hr
    rw [h.snapEq] at hr'
    exact ⟨r, hr', (h.tidB k r hr').1, Nat.le_refl _, fun _ => rfl⟩

/-- … and conversely -/
theorem Inv11.toInv12 {s : State} (h : Inv11 s) (hop : s.opened = true) (hsn : s.snap = s.committed)
    (hf : s.fail = .none) : Inv12 s := by
  refine ⟨h.str, h.creatingNil, hop, hsn, hf, h.regOid, h.regStatus, h.addedReg, h.changedReg,
    fun hn => ⟨(h.idle hn).1, (h.idle hn).2, h.spNone⟩, h.serial0, h.addedSerial, h.commFresh,
    h.addedUncommitted, h.tidB, ?_, ?_, ?_, ?_, ?_, ?_, ?_⟩
  · intro k i hc
    rw [h.loadRec]; exact h.coh k i hc
  · intro k i hc
    left
    obtain ⟨r, hr, _⟩ := h.coh k i hc
    obtain ⟨c, hcc, _⟩ := h.snapC k r hr
    rw [hcc]; simp
  · intro t ht; rw [h.spNone] at ht; cases ht
  · intro t ht; rw [h.spNone] at ht; cases ht
  · intro _ p idx cr hm; rw [h.spsNil] at hm; cases hm
  · rw [h.spsNil]; exact List.Pairwise.nil
  · intro _ hm; rw [h.spsNil] at hm; cases hm

/-! ### joining the transaction: earlier savepoints get an `AbortSavepoint` -/

theorem mem_map_markJoined_real {sps : List SpEntry} {p idx cr} :
    SpEntry.real p idx cr ∈ sps.map markJoined ↔ SpEntry.real p idx cr ∈ sps := by
  simp only [List.mem_map]
  constructor
  · rintro ⟨e, he, hm⟩
    cases e <;> simp [markJoined] at hm
    · obtain ⟨rfl, rfl, rfl⟩ := hm; exact he
  · intro h; exact ⟨_, h, rfl⟩

theorem entryLe_markJoined {a b : SpEntry} (h : entryLe a b) : entryLe (markJoined a) (markJoined b) := by
  cases a <;> cases b <;> simp_all [markJoined, entryLe]

theorem pairwise_map_markJoined {sps : List SpEntry} (h : sps.Pairwise entryLe) :
    (sps.map markJoined).Pairwise entryLe := by
  rw [List.pairwise_map]
  exact h.imp entryLe_markJoined

theorem not_mem_map_markJoined_false (sps : List SpEntry) : SpEntry.abortSp false ∉ sps.map markJoined := by
  simp only [List.mem_map, not_exists, not_and]
  intro e _ hm
  cases e <;> simp [markJoined] at hm

/-- the transaction-level part of `Inv12` after `join` -/
theorem Inv12.sps_join {s : State} (h : Inv12 s) :
    (∀ t, s.sp = some t → ∀ p idx cr, SpEntry.real p idx cr ∈ (join s).sps → EntryWF t p idx cr) ∧
    (s.sp = none → ∀ p idx cr, SpEntry.real p idx cr ∉ (join s).sps) ∧
    (join s).sps.Pairwise entryLe ∧ SpEntry.abortSp false ∉ (join s).sps := by
  unfold join
  split
  · refine ⟨?_, ?_, pairwise_map_markJoined h.spsOrder, not_mem_map_markJoined_false _⟩
    · intro t ht p idx cr hm
      exact h.spsReal t ht p idx cr (mem_map_markJoined_real.1 hm)
    · intro hn p idx cr hm
      exact h.spsNone hn p idx cr (mem_map_markJoined_real.1 hm)
  · rename_i hn
    exact ⟨h.spsReal, h.spsNone, h.spsOrder, h.spsFlag (by simpa using hn)⟩

/-- an object in `_added` cannot be loaded: its oid has no record, neither saved nor committed -/
theorem Inv12.added_noRec {s} (h : Inv12 s) {k i} (ha : s.added.get k = some i) : loadRec s k = none := by
  have hc := (h.str.addedS k i ha).2
  have hcm := h.addedUncommitted k (by rw [ha]; simp)
  unfold loadRec
  cases hsp : s.sp with
  | none => simp only; rw [h.snapEq]; exact hcm
  | some t =>
    simp only
    cases hi : t.index.get k with
    | none => simp only; rw [h.snapEq]; exact hcm
    | some p =>
      obtain ⟨j, hj⟩ := (h.tmp t hsp).idxCached k (by rw [hi]; simp)
      rw [hc] at hj; cases hj

/-- everything of `Inv12` that does not look at the objects -/
theorem Inv12.frame {s s' : State} (h : Inv12 s) (hc : s'.cache = s.cache) (hcm : s'.committed = s.committed)
    (hsp : s'.sp = s.sp) :
    (∀ k i, s'.cache.get k = some i → s'.committed.get k ≠ none ∨
      ∃ t, s'.sp = some t ∧ t.creating.has k = true) ∧
    (∀ t, s'.sp = some t → TmpWF s' t) := by
  constructor
  · rw [hc, hcm, hsp]; exact h.owned
  · intro t ht
    rw [hsp] at ht
    have w := h.tmp t ht
    exact ⟨w.pos, w.idx, by rw [hc]; exact w.idxCached, by rw [hcm]; exact w.crIdx,
      by rw [hcm]; exact w.recSerial⟩

theorem access_inv12 {s} (h : Inv12 s) (i) : Inv12 (access s i).1 := by
  by_cases hg' : (s.objs i).status ≠ .ghost
  · rw [access_nonghost s i hg']; exact h
  have hg : (s.objs i).status = .ghost := by
    cases hs : (s.objs i).status <;> simp_all
  clear hg'
  unfold access
  simp only [hg, ne_eq, not_true_eq_false, if_false]
  split
  · exact h
  split
  · exact h
  split
  · exact h
  rename_i k hk
  split
  · exact h
  rename_i r hr
  have hcache : s.cache.get k = some i := by
    have := h.str.known i k hk
    simp only [List.not_mem_nil, or_false] at this
    rcases this with h1 | h1
    · exact h1
    · rw [h.added_noRec h1] at hr; cases hr
  have hnadd : ∀ k', s.added.get k' ≠ some i := by
    intro k' hk'
    have := (h.str.addedS k' i hk').1
    rw [hk] at this; cases this
    have := (h.str.addedS k i hk').2
    rw [hcache] at this; cases this
  have hnreg : i ∉ s.registered := by
    intro hr
    rcases h.regStatus i hr with h1 | ⟨k', _, h1⟩
    · rw [hg] at h1; cases h1
    · exact hnadd k' h1
  obtain ⟨f1, f2⟩ := h.frame (s' := setO s i { s.objs i with status := .uptodate, serial := r.serial,
    val := r.val, refs := r.refs }) rfl rfl rfl
  refine ⟨h.str.setO_same i _ rfl rfl, h.creatingNil, h.opened, h.snapEq, h.failNone, ?_, ?_, h.addedReg,
    ?_, h.idle, ?_, ?_, h.commFresh, h.addedUncommitted, h.tidB, ?_, f1, f2, h.spsReal, h.spsNone,
    h.spsOrder, h.spsFlag⟩
  · intro j hj
    have := h.regOid j hj
    simp only [setO]; split
    · subst_vars; exact absurd hj hnreg
    · exact this
  · intro j hj
    have := h.regStatus j hj
    simp only [setO]; split
    · subst_vars; exact absurd hj hnreg
    · exact this
  · intro j hj
    simp only [setO] at hj
    split at hj
    · cases hj
    · exact h.changedReg j hj
  · intro j hj
    simp only [setO] at hj ⊢
    split
    · subst_vars; simp [hk] at hj
    · rename_i hne; rw [if_neg hne] at hj; exact h.serial0 j hj
  · intro k' j hj
    simp only [setO]
    split
    · subst_vars; exact absurd hj (hnadd k')
    · exact h.addedSerial k' j hj
  · intro k' j hj
    have hl : loadRec (setO s i { s.objs i with status := .uptodate, serial := r.serial,
        val := r.val, refs := r.refs }) k' = loadRec s k' := rfl
    rw [hl]
    simp only [setO]
    split
    · subst_vars
      have := h.str.cacheS k' j hj
      rw [hk] at this; cases this
      exact ⟨r, hr, fun _ => rfl, fun _ => ⟨rfl, rfl⟩⟩
    · exact h.coh k' j hj

end Proofs.Conn
