/-
  Connection model, part 12 (C12): the invariant of every state reachable by a program with
  savepoints (no second connection, no injected failure, no close), and the simple steps.
-/
import Proofs.ConnTxn11
import Proofs.ConnTmp
namespace Proofs.Conn
open ZodbModel ZodbModel.Conn

/-- well-formedness of the temporary store `t` of state `s` -/
structure TmpWF (s : State) (t : TmpStore) : Prop where
  pos : t.position = t.entries.length
  idx : ∀ k p, t.index.get k = some p → p < t.position ∧ ∃ r, t.entries[p]? = some (k, r)
  idxCached : ∀ k, t.index.get k ≠ none → ∃ i, s.cache.get k = some i
  crIdx : ∀ k, t.creating.has k = true → t.index.get k ≠ none ∧ s.committed.get k = none
  recSerial : ∀ k p r, t.index.get k = some p → t.entries[p]? = some (k, r) →
    (∀ c, s.committed.get k = some c → r.serial = c.serial) ∧ (s.committed.get k = none → r.serial = 0)
  crSerial : ∀ k i, t.creating.has k = true → s.cache.get k = some i → (s.objs i).serial = 0

/-- a savepoint state `(p, idx, cr)` that can still be rolled back to, against the store `t` -/
structure EntryWF (cm : Map Rec) (t : TmpStore) (p : Nat) (idx : Map Nat) (cr : Map Bool) : Prop where
  le : p ≤ t.position
  idxLt : ∀ k q, idx.get k = some q → q < p ∧ ∃ r, t.entries[q]? = some (k, r)
  idxSub : ∀ k, idx.get k ≠ none → t.index.get k ≠ none
  crSub : ∀ k, cr.has k = true → t.creating.has k = true
  crIdx : ∀ k, cr.has k = true → idx.get k ≠ none
  idxOwned : ∀ k, idx.get k ≠ none → t.creating.has k = true → cr.has k = true
  recSerial : ∀ k q r, idx.get k = some q → t.entries[q]? = some (k, r) →
    (∀ c, cm.get k = some c → r.serial = c.serial) ∧ (cm.get k = none → r.serial = 0)

/-- later savepoints extend earlier ones -/
def entryLe : SpEntry → SpEntry → Prop
  | .real p idx cr, .real p' idx' cr' =>
    p ≤ p' ∧ (∀ k, idx.get k ≠ none → idx'.get k ≠ none) ∧ (∀ k, cr.has k = true → cr'.has k = true)
  | .real _ _ _, .abortSp _ => False      -- a savepoint of the joined connection never precedes …
  | _, _ => True

def SpEntry.isReal : SpEntry → Bool
  | .real _ _ _ => true
  | _ => false

structure Inv12 (s : State) : Prop where
  str : Str [] s
  creatingNil : s.creating = []
  opened : s.opened = true
  snapEq : s.snap = s.committed
  regOid : ∀ i ∈ s.registered, (s.objs i).oid ≠ none
  regStatus : ∀ i ∈ s.registered, (s.objs i).status = .changed ∨
    ∃ k, (s.objs i).oid = some k ∧ s.added.get k = some i
  addedReg : ∀ k i, s.added.get k = some i → i ∈ s.registered
  changedReg : ∀ i, (s.objs i).status = .changed → i ∈ s.registered
  idle : s.needsToJoin = true → s.registered = [] ∧ s.added = [] ∧ s.sp = none
  serial0 : ∀ i, (s.objs i).oid = none → (s.objs i).serial = 0
  addedSerial : ∀ k i, s.added.get k = some i → (s.objs i).serial = 0
  commFresh : ∀ k, s.committed.get k ≠ none → k < s.nextOid
  addedUncommitted : ∀ k, s.added.get k ≠ none → s.committed.get k = none
  tidB : ∀ k c, s.committed.get k = some c → 1 ≤ c.serial ∧ c.serial ≤ s.lastTid
  coh : ∀ k i, s.cache.get k = some i → ∃ r, loadRec s k = some r ∧
    ((s.objs i).status ≠ .ghost → (s.objs i).serial = r.serial) ∧
    ((s.objs i).status = .uptodate → (s.objs i).val = r.val ∧ (s.objs i).refs = r.refs)
  owned : ∀ k i, s.cache.get k = some i → s.committed.get k ≠ none ∨
    ∃ t, s.sp = some t ∧ t.creating.has k = true
  tmp : ∀ t, s.sp = some t → TmpWF s t
  spsReal : ∀ t, s.sp = some t → ∀ p idx cr, SpEntry.real p idx cr ∈ s.sps → EntryWF s.committed t p idx cr
  spsNone : s.sp = none → ∀ p idx cr, SpEntry.real p idx cr ∉ s.sps
  spsOrder : s.sps.Pairwise entryLe
  spsFlag : s.needsToJoin = false → SpEntry.abortSp false ∉ s.sps

theorem inv12_init : Inv12 init := by
  have h := inv11_init
  refine ⟨h.str, h.creatingNil, rfl, rfl, h.regOid, h.regStatus, h.addedReg, h.changedReg,
    fun _ => ⟨rfl, rfl, rfl⟩, h.serial0, h.addedSerial, h.commFresh, h.addedUncommitted, h.tidB, ?_, ?_,
    ?_, ?_, ?_, List.Pairwise.nil, ?_⟩
  · intro k i hc
    have := h.coh k i hc
    rw [h.loadRec]; exact this
  · intro k i hc
    left
    obtain ⟨r, hr, _⟩ := h.coh k i hc
    obtain ⟨c, hcc, _⟩ := h.snapC k r hr
    rw [hcc]; simp
  · intro t ht; cases ht
  · intro t ht; cases ht
  · intro _ p idx cr hm; cases hm
  · intro _ hm; cases hm

/-- without savepoint storage (and forgetting the transaction's savepoint list) the state is one a
    program without savepoints could be in -/
theorem Inv12.toInv11 {s : State} (h : Inv12 s) (hsp : s.sp = none) : Inv11 { s with sps := [] } := by
  refine ⟨h.str.congr rfl rfl rfl rfl, hsp, rfl, h.creatingNil, h.regOid, h.regStatus, h.addedReg,
    h.changedReg, fun hn => ⟨(h.idle hn).1, (h.idle hn).2.1⟩, ?_,
    h.serial0, h.addedSerial, h.commFresh, h.addedUncommitted, ?_, ?_, h.tidB⟩
  · intro ho
    have : s.opened = false := ho
    rw [h.opened] at this; cases this
  · intro k i hc
    obtain ⟨r, hr, q⟩ := h.coh k i hc
    unfold loadRec at hr
    rw [hsp] at hr
    exact ⟨r, hr, q⟩
  · intro k r hr
    have hr' : s.snap.get k = some r := hr
    rw [h.snapEq] at hr'
    exact ⟨r, hr', (h.tidB k r hr').1, Nat.le_refl _, fun _ => rfl⟩

/-- … and conversely -/
theorem Inv11.toInv12 {s : State} (h : Inv11 s) (hop : s.opened = true) (hsn : s.snap = s.committed) :
    Inv12 s := by
  refine ⟨h.str, h.creatingNil, hop, hsn, h.regOid, h.regStatus, h.addedReg, h.changedReg,
    fun hn => ⟨(h.idle hn).1, (h.idle hn).2, h.spNone⟩, h.serial0, h.addedSerial, h.commFresh,
    h.addedUncommitted, h.tidB, ?_, ?_, ?_, ?_, ?_, ?_, ?_⟩
  · intro k i hc
    rw [h.loadRec]; exact h.coh k i hc
  · intro k i hc
    left
    obtain ⟨r, hr, _⟩ := h.coh k i hc
    obtain ⟨c, hcc, _⟩ := h.snapC k r hr
    rw [hcc]; simp
  · intro t ht; rw [h.spNone] at ht; cases ht
  · intro t ht; rw [h.spNone] at ht; cases ht
  · intro _ p idx cr hm; rw [h.spsNil] at hm; cases hm
  · rw [h.spsNil]; exact List.Pairwise.nil
  · intro _ hm; rw [h.spsNil] at hm; cases hm

/-! ### joining the transaction: earlier savepoints get an `AbortSavepoint` -/

theorem mem_map_markJoined_real {sps : List SpEntry} {p idx cr} :
    SpEntry.real p idx cr ∈ sps.map markJoined ↔ SpEntry.real p idx cr ∈ sps := by
  simp only [List.mem_map]
  constructor
  · rintro ⟨e, he, hm⟩
    cases e <;> simp [markJoined] at hm
    · obtain ⟨rfl, rfl, rfl⟩ := hm; exact he
  · intro h; exact ⟨_, h, rfl⟩

theorem entryLe_markJoined {a b : SpEntry} (h : entryLe a b) : entryLe (markJoined a) (markJoined b) := by
  cases a <;> cases b <;> simp_all [markJoined, entryLe]

theorem pairwise_map_markJoined {sps : List SpEntry} (h : sps.Pairwise entryLe) :
    (sps.map markJoined).Pairwise entryLe := by
  rw [List.pairwise_map]
  exact h.imp entryLe_markJoined

theorem not_mem_map_markJoined_false (sps : List SpEntry) : SpEntry.abortSp false ∉ sps.map markJoined := by
  simp only [List.mem_map, not_exists, not_and]
  intro e _ hm
  cases e <;> simp [markJoined] at hm

/-- the transaction-level part of `Inv12` after `join` -/
theorem Inv12.sps_join {s : State} (h : Inv12 s) :
    (∀ t, s.sp = some t → ∀ p idx cr, SpEntry.real p idx cr ∈ (join s).sps → EntryWF s.committed t p idx cr) ∧
    (s.sp = none → ∀ p idx cr, SpEntry.real p idx cr ∉ (join s).sps) ∧
    (join s).sps.Pairwise entryLe ∧ SpEntry.abortSp false ∉ (join s).sps := by
  unfold join
  split
  · refine ⟨?_, ?_, pairwise_map_markJoined h.spsOrder, not_mem_map_markJoined_false _⟩
    · intro t ht p idx cr hm
      exact h.spsReal t ht p idx cr (mem_map_markJoined_real.1 hm)
    · intro hn p idx cr hm
      exact h.spsNone hn p idx cr (mem_map_markJoined_real.1 hm)
  · rename_i hn
    exact ⟨h.spsReal, h.spsNone, h.spsOrder, h.spsFlag (by simpa using hn)⟩

/-- an object in `_added` cannot be loaded: its oid has no record, neither saved nor committed -/
theorem Inv12.added_noRec {s} (h : Inv12 s) {k i} (ha : s.added.get k = some i) : loadRec s k = none := by
  have hc := (h.str.addedS k i ha).2
  have hcm := h.addedUncommitted k (by rw [ha]; simp)
  unfold loadRec
  cases hsp : s.sp with
  | none => simp only; rw [h.snapEq]; exact hcm
  | some t =>
    simp only
    cases hi : t.index.get k with
    | none => simp only; rw [h.snapEq]; exact hcm
    | some p =>
      obtain ⟨j, hj⟩ := (h.tmp t hsp).idxCached k (by rw [hi]; simp)
      rw [hc] at hj; cases hj

/-- everything of `Inv12` that does not look at the objects -/
theorem Inv12.frame {s s' : State} (h : Inv12 s) (hc : s'.cache = s.cache) (hcm : s'.committed = s.committed)
    (hsp : s'.sp = s.sp) (hser : ∀ t, s.sp = some t → ∀ k i, t.creating.has k = true →
      s.cache.get k = some i → (s'.objs i).serial = 0) :
    (∀ k i, s'.cache.get k = some i → s'.committed.get k ≠ none ∨
      ∃ t, s'.sp = some t ∧ t.creating.has k = true) ∧
    (∀ t, s'.sp = some t → TmpWF s' t) := by
  constructor
  · rw [hc, hcm, hsp]; exact h.owned
  · intro t ht
    rw [hsp] at ht
    have w := h.tmp t ht
    exact ⟨w.pos, w.idx, by rw [hc]; exact w.idxCached, by rw [hcm]; exact w.crIdx,
      by rw [hcm]; exact w.recSerial,
      fun k i hk hi => by rw [hc] at hi; exact hser t ht k i hk hi⟩

theorem TmpStore.loadAt_of {t : TmpStore} {k p : Nat} {r : Rec} (h : t.entries[p]? = some (k, r)) :
    t.loadAt k p = some r := by
  unfold TmpStore.loadAt; rw [h]; simp

theorem access_inv12 {s} (h : Inv12 s) (i) : Inv12 (access s i).1 := by
  by_cases hg' : (s.objs i).status ≠ .ghost
  · rw [access_nonghost s i hg']; exact h
  have hg : (s.objs i).status = .ghost := by
    cases hs : (s.objs i).status <;> simp_all
  clear hg'
  unfold access
  simp only [hg, ne_eq, not_true_eq_false, if_false]
  split
  · exact h
  split
  · exact h
  split
  · exact h
  rename_i k hk
  split
  · exact h
  rename_i r hr
  have hcache : s.cache.get k = some i := by
    have := h.str.known i k hk
    simp only [List.not_mem_nil, or_false] at this
    rcases this with h1 | h1
    · exact h1
    · rw [h.added_noRec h1] at hr; cases hr
  have hnadd : ∀ k', s.added.get k' ≠ some i := by
    intro k' hk'
    have := (h.str.addedS k' i hk').1
    rw [hk] at this; cases this
    have := (h.str.addedS k i hk').2
    rw [hcache] at this; cases this
  have hnreg : i ∉ s.registered := by
    intro hr
    rcases h.regStatus i hr with h1 | ⟨k', _, h1⟩
    · rw [hg] at h1; cases h1
    · exact hnadd k' h1
  obtain ⟨f1, f2⟩ := h.frame
    (s' := setO s i { s.objs i with status := .uptodate, serial := r.serial, val := r.val, refs := r.refs })
    rfl rfl rfl (by
      intro t ht k' i' hk' hi'
      simp only [setO]
      split
      · subst_vars
        have := h.str.cacheS k' i' hi'
        rw [hk] at this
        have hkk : k' = k := (Option.some.inj this).symm
        subst hkk
        have w := h.tmp t ht
        obtain ⟨hidx, hcn⟩ := w.crIdx k' hk'
        obtain ⟨p, hp⟩ := Option.ne_none_iff_exists'.1 hidx
        obtain ⟨_, r', hr'⟩ := w.idx k' p hp
        have hl : loadRec s k' = some r' := by
          unfold loadRec; rw [ht]; simp only; rw [hp]; exact TmpStore.loadAt_of hr'
        rw [hr] at hl; cases hl
        exact (w.recSerial k' p r hp hr').2 hcn
      · exact (h.tmp t ht).crSerial k' i' hk' hi')
  refine ⟨h.str.setO_same i _ rfl rfl, h.creatingNil, h.opened, h.snapEq, ?_, ?_, h.addedReg,
    ?_, h.idle, ?_, ?_, h.commFresh, h.addedUncommitted, h.tidB, ?_, f1, f2, h.spsReal, h.spsNone,
    h.spsOrder, h.spsFlag⟩
  · intro j hj
    have := h.regOid j hj
    simp only [setO]; split
    · subst_vars; exact absurd hj hnreg
    · exact this
  · intro j hj
    have := h.regStatus j hj
    simp only [setO]; split
    · subst_vars; exact absurd hj hnreg
    · exact this
  · intro j hj
    simp only [setO] at hj
    split at hj
    · cases hj
    · exact h.changedReg j hj
  · intro j hj
    simp only [setO] at hj ⊢
    split
    · subst_vars; simp [hk] at hj
    · rename_i hne; rw [if_neg hne] at hj; exact h.serial0 j hj
  · intro k' j hj
    simp only [setO]
    split
    · subst_vars; exact absurd hj (hnadd k')
    · exact h.addedSerial k' j hj
  · intro k' j hj
    show ∃ r', loadRec s k' = some r' ∧ _
    simp only [setO]
    split
    · subst_vars
      have := h.str.cacheS k' j hj
      rw [hk] at this; cases this
      exact ⟨r, hr, fun _ => rfl, fun _ => ⟨rfl, rfl⟩⟩
    · exact h.coh k' j hj

theorem join_fields (t : State) : (join t).objs = t.objs ∧ (join t).cache = t.cache ∧
    (join t).added = t.added ∧ (join t).nextOid = t.nextOid ∧ (join t).sp = t.sp ∧
    (join t).creating = t.creating ∧ (join t).begun = t.begun ∧ (join t).snap = t.snap ∧
    (join t).committed = t.committed ∧ (join t).lastTid = t.lastTid ∧
    (join t).registered = t.registered ∧ (join t).needsToJoin = false ∧
    (t.sps = [] → (join t).sps = []) := by
  unfold join; split
  · simp
  · simp_all

/-- changing the payload of an object that is not up to date (outside the database, or changed) -/
theorem Inv12.setPayload {s} (h : Inv12 s) (i : Nat) (o' : Obj)
    (ho : o'.oid = (s.objs i).oid) (hj : o'.jar = (s.objs i).jar)
    (hst : o'.status = (s.objs i).status) (hse : o'.serial = (s.objs i).serial)
    (hnu : (s.objs i).status = .uptodate → (s.objs i).jar = false) : Inv12 (setO s i o') := by
  have hobj : ∀ j, ((setO s i o').objs j).oid = (s.objs j).oid ∧ ((setO s i o').objs j).jar = (s.objs j).jar ∧
      ((setO s i o').objs j).status = (s.objs j).status ∧ ((setO s i o').objs j).serial = (s.objs j).serial := by
    intro j; simp only [setO]; split
    · subst_vars; exact ⟨ho, hj, hst, hse⟩
    · exact ⟨rfl, rfl, rfl, rfl⟩
  obtain ⟨f1, f2⟩ := h.frame (s' := setO s i o') rfl rfl rfl (by
    intro t ht k' i' hk' hi'; rw [(hobj i').2.2.2]; exact (h.tmp t ht).crSerial k' i' hk' hi')
  refine ⟨h.str.setO_same i o' ho hj, h.creatingNil, h.opened, h.snapEq, ?_, ?_, h.addedReg, ?_,
    h.idle, ?_, ?_, h.commFresh, h.addedUncommitted, h.tidB, ?_, f1, f2, h.spsReal, h.spsNone,
    h.spsOrder, h.spsFlag⟩
  · intro j hj'; rw [(hobj j).1]; exact h.regOid j hj'
  · intro j hj'; rw [(hobj j).2.2.1, (hobj j).1]; exact h.regStatus j hj'
  · intro j hj'; rw [(hobj j).2.2.1] at hj'; exact h.changedReg j hj'
  · intro j hj'; rw [(hobj j).1] at hj'; rw [(hobj j).2.2.2]; exact h.serial0 j hj'
  · intro k j hj'; rw [(hobj j).2.2.2]; exact h.addedSerial k j hj'
  · intro k j hj'
    obtain ⟨r, hr, h1, h2⟩ := h.coh k j hj'
    refine ⟨r, hr, ?_, ?_⟩
    · rw [(hobj j).2.2.1, (hobj j).2.2.2]; exact h1
    · intro hu
      rw [(hobj j).2.2.1] at hu
      simp only [setO]; split
      · subst_vars
        have := hnu hu
        have hj2 := h.str.jarOid j
        rw [h.str.cacheS k j hj'] at hj2
        rw [this] at hj2; cases hj2
      · exact h2 hu

/-- `_p_changed = 1` on an up-to-date object of the connection -/
theorem markChanged_inv12 {s} (h : Inv12 s) (i : Nat) (hg : (s.objs i).status ≠ .ghost) :
    Inv12 (markChanged s i) := by
  unfold markChanged
  dsimp only
  split
  · exact h
  rename_i hjar
  split
  · exact h
  rename_i hch
  have hjar' : (s.objs i).jar = true := by simpa using hjar
  obtain ⟨k, hk⟩ : ∃ k, (s.objs i).oid = some k := by
    have := h.str.jarOid i; rw [hjar'] at this
    exact Option.isSome_iff_exists.1 this.symm
  have hobj : ∀ j, ((setO s i { s.objs i with status := .changed }).objs j).oid = (s.objs j).oid ∧
      ((setO s i { s.objs i with status := .changed }).objs j).serial = (s.objs j).serial ∧
      ((setO s i { s.objs i with status := .changed }).objs j).val = (s.objs j).val ∧
      ((setO s i { s.objs i with status := .changed }).objs j).refs = (s.objs j).refs ∧
      (j ≠ i → ((setO s i { s.objs i with status := .changed }).objs j).status = (s.objs j).status) ∧
      ((setO s i { s.objs i with status := .changed }).objs i).status = .changed := by
    intro j; simp only [setO]; split
    · subst_vars; simp
    · rename_i hne; simp [hne]
  have hstr1 : Str [] (setO s i { s.objs i with status := .changed }) := h.str.setO_same i _ rfl rfl
  -- everything but the registration
  have core : ∀ (t : State), t.objs = (setO s i { s.objs i with status := .changed }).objs →
      t.cache = s.cache → t.added = s.added → t.nextOid = s.nextOid → t.sp = s.sp →
      t.creating = s.creating → t.snap = s.snap → t.committed = s.committed →
      t.lastTid = s.lastTid → t.opened = s.opened → t.fail = s.fail →
      i ∈ t.registered → (∀ j ∈ s.registered, j ∈ t.registered) →
      (∀ j ∈ t.registered, j = i ∨ j ∈ s.registered) → (t.needsToJoin = true → False) →
      ((∀ u, s.sp = some u → ∀ p idx cr, SpEntry.real p idx cr ∈ t.sps → EntryWF s.committed u p idx cr) ∧
        (s.sp = none → ∀ p idx cr, SpEntry.real p idx cr ∉ t.sps) ∧
        t.sps.Pairwise entryLe ∧ SpEntry.abortSp false ∉ t.sps) → Inv12 t := by
    intro t ho hc ha hn hsp hcr hsn hcm hlt hop hfl hireg hregs hregt hntj hsps
    have hl : ∀ k', loadRec t k' = loadRec s k' := by
      intro k'; unfold loadRec; rw [hsp, hsn]
    obtain ⟨f1, f2⟩ := h.frame (s' := t) hc hcm hsp (by
      intro u hu k' i' hk' hi'
      rw [ho]; simp only [setO]
      split
      · subst_vars; exact (h.tmp u hu).crSerial k' _ hk' hi'
      · exact (h.tmp u hu).crSerial k' i' hk' hi')
    refine ⟨hstr1.congr ho hc ha hn, by rw [hcr]; exact h.creatingNil, by rw [hop]; exact h.opened,
      by rw [hsn, hcm]; exact h.snapEq, ?_, ?_, ?_, ?_, ?_, ?_, ?_,
      by rw [hcm, hn]; exact h.commFresh, by rw [ha, hcm]; exact h.addedUncommitted,
      by rw [hcm, hlt]; exact h.tidB, ?_, f1, f2, by rw [hsp, hcm]; exact hsps.1, by rw [hsp]; exact hsps.2.1,
      hsps.2.2.1, fun _ => hsps.2.2.2⟩
    · intro j hj; rw [ho, (hobj j).1]
      rcases hregt j hj with h1 | h1
      · subst h1; rw [hk]; simp
      · exact h.regOid j h1
    · intro j hj; rw [ho, ha]
      by_cases hji : j = i
      · subst hji; left; exact (hobj j).2.2.2.2.2
      · rw [(hobj j).2.2.2.2.1 hji, (hobj j).1]
        rcases hregt j hj with h1 | h1
        · exact absurd h1 hji
        · exact h.regStatus j h1
    · intro k' j hj; rw [ha] at hj; exact hregs j (h.addedReg k' j hj)
    · intro j hj
      rw [ho] at hj
      by_cases hji : j = i
      · subst hji; exact hireg
      · rw [(hobj j).2.2.2.2.1 hji] at hj; exact hregs j (h.changedReg j hj)
    · intro hh; exact absurd hh (fun h' => hntj h')
    · intro j hj; rw [ho] at hj ⊢; rw [(hobj j).1] at hj; rw [(hobj j).2.1]; exact h.serial0 j hj
    · intro k' j hj; rw [ha] at hj; rw [ho, (hobj j).2.1]; exact h.addedSerial k' j hj
    · intro k' j hj
      rw [hc] at hj
      obtain ⟨r, hr, h1, h2⟩ := h.coh k' j hj
      rw [hl, ho]
      refine ⟨r, hr, ?_, ?_⟩
      · intro _
        rw [(hobj j).2.1]
        by_cases hji : j = i
        · subst hji; exact h1 hg
        · apply h1; rw [← (hobj j).2.2.2.2.1 hji]; assumption
      · intro hu
        by_cases hji : j = i
        · subst hji; rw [(hobj j).2.2.2.2.2] at hu; cases hu
        · rw [(hobj j).2.2.2.2.1 hji] at hu
          rw [(hobj j).2.2.1, (hobj j).2.2.2.1]; exact h2 hu
  split
  rotate_left
  · rename_i hnone; rw [hk] at hnone; cases hnone
  rename_i k0 hk0
  have hkk : k = k0 := by rw [hk] at hk0; cases hk0; rfl
  subst hkk
  split
  · -- already registered through `_added`
    rename_i hadd
    rw [Map.has_iff] at hadd
    obtain ⟨j', hj'⟩ := Option.ne_none_iff_exists'.1 hadd
    have hji : j' = i := h.str.inj j' i k (h.str.addedS k j' hj').1 hk
    subst hji
    have hreg := h.addedReg k j' hj'
    have hnj : s.needsToJoin = true → False := by
      intro hn
      have := (h.idle hn).1
      rw [this] at hreg; cases hreg
    apply core _ rfl rfl rfl rfl rfl rfl rfl rfl rfl rfl rfl hreg (fun j hj => hj)
      (fun j hj => Or.inr hj) hnj
    exact ⟨h.spsReal, h.spsNone, h.spsOrder, h.spsFlag (by
      cases hn : s.needsToJoin with
      | true => exact absurd hn (fun h' => hnj h')
      | false => rfl)⟩
  · obtain ⟨j1, j2, j3, j4, j5, j6, j7, j8, j9, j10, j11, j12, _⟩ :=
      join_fields (setO s i { s.objs i with status := .changed })
    have jo : (join (setO s i { s.objs i with status := .changed })).opened = s.opened := by
      unfold join; split <;> rfl
    have jf : (join (setO s i { s.objs i with status := .changed })).fail = s.fail := by
      unfold join; split <;> rfl
    have js : (join (setO s i { s.objs i with status := .changed })).sps = (join s).sps := by
      by_cases hn : s.needsToJoin = true
      · simp [join, setO, hn]
      · simp [join, setO, hn]
    refine core { join (setO s i { s.objs i with status := .changed }) with
      registered := (join (setO s i { s.objs i with status := .changed })).registered ++ [i] }
      j1 j2 j3 j4 j5 j6 j8 j9 j10 jo jf ?_ ?_ ?_ ?_ ?_
    · show i ∈ (join _).registered ++ [i]; simp
    · intro j hj; show j ∈ (join _).registered ++ [i]; rw [j11]; simp [setO, hj]
    · intro j hj
      have : j ∈ (join (setO s i { s.objs i with status := .changed })).registered ++ [i] := hj
      rw [j11] at this
      simp only [setO, List.mem_append, List.mem_singleton] at this
      exact this.symm
    · intro hn
      have : (join (setO s i { s.objs i with status := .changed })).needsToJoin = true := hn
      rw [j12] at this; cases this
    · show (∀ u, s.sp = some u → ∀ p idx cr, SpEntry.real p idx cr ∈
          (join (setO s i { s.objs i with status := .changed })).sps → EntryWF s.committed u p idx cr) ∧ _
      rw [js]
      exact h.sps_join

theorem mutate_inv12 {s} (h : Inv12 s) (i : Nat) (f : Obj → Option (Nat × List ObjId)) :
    Inv12 (mutate s i f).1 := by
  unfold mutate
  dsimp only
  split
  · exact h
  have ht := access_inv12 h i
  have hng := access_ok_nonghost s i
  generalize access s i = a at *
  obtain ⟨t, e⟩ := a
  cases e with
  | some e => exact ht
  | none =>
    simp only at ht hng ⊢
    have hng := hng trivial
    split
    · exact ht
    rename_i p _
    have hm := markChanged_inv12 ht i hng
    refine hm.setPayload i { (markChanged t i).objs i with val := p.1, refs := p.2 } rfl rfl rfl rfl ?_
    intro hu
    rcases markChanged_obj t i with h1 | h1
    · rw [h1.1] at hu ⊢
      rcases h1.2 with h2 | h2
      · exact h2
      · rw [h2] at hu; cases hu
    · rw [h1.2] at hu; cases hu

theorem join_eq' (t : State) : join t = { t with needsToJoin := false, sps := (join t).sps } := by
  unfold join
  split
  · rfl
  · rename_i hn
    have : t.needsToJoin = false := by simpa using hn
    cases t; simp_all

theorem opAdd_inv12 {s} (h : Inv12 s) (i : Nat) : Inv12 (opAdd s i).1 := by
  unfold opAdd
  dsimp only
  split
  · exact h
  split
  · exact h
  rename_i hjar
  have hjar' : (s.objs i).jar = false := by simpa using hjar
  have hnone : (s.objs i).oid = none := by
    have := h.str.jarOid i; rw [hjar'] at this
    cases ho : (s.objs i).oid with
    | none => rfl
    | some k => rw [ho] at this; cases this
  have js : (join (setO { s with nextOid := s.nextOid + 1 } i
      { s.objs i with oid := some s.nextOid, jar := true })).sps = (join s).sps := by
    by_cases hn : s.needsToJoin = true
    · simp [join, setO, hn]
    · simp [join, setO, hn]
  rw [join_eq', js]
  obtain ⟨sj1, sj2, sj3, sj4⟩ := h.sps_join
  have hic : ∀ k', s.cache.get k' ≠ some i := by
    intro k' hk'; have := h.str.cacheS k' i hk'; rw [hnone] at this; cases this
  have hia : ∀ k', s.added.get k' ≠ some i := by
    intro k' hk'; have := (h.str.addedS k' i hk').1; rw [hnone] at this; cases this
  have hfreshc : s.cache.get s.nextOid = none := by
    cases hc : s.cache.get s.nextOid with
    | none => rfl
    | some j => have := h.str.fresh j _ (h.str.cacheS _ j hc); omega
  have hfresha : s.added.get s.nextOid = none := by
    cases hc : s.added.get s.nextOid with
    | none => rfl
    | some j => have := h.str.fresh j _ (h.str.addedS _ j hc).1; omega
  have hfreshk : ∀ j k', (s.objs j).oid = some k' → k' ≠ s.nextOid := by
    intro j k' hj; have := h.str.fresh j k' hj; omega
  constructor
  · -- Str
    constructor
    · intro k' j hj
      dsimp only [setO] at hj ⊢
      have hji : j ≠ i := by intro he; subst he; exact hic k' hj
      rw [if_neg hji]; exact h.str.cacheS k' j hj
    · intro k' j hj
      dsimp only [setO] at hj ⊢
      rw [Map.get_set] at hj
      split at hj
      · cases hj; subst_vars; simp [hfreshc]
      · have hji : j ≠ i := by intro he; subst he; exact hia k' hj
        rw [if_neg hji]; exact h.str.addedS k' j hj
    · intro j
      dsimp only [setO]
      split
      · rfl
      · exact h.str.jarOid j
    · intro j k' hj
      dsimp only [setO] at hj ⊢
      rw [Map.get_set]
      split at hj
      · cases hj; subst_vars; right; left; simp
      · have hne := hfreshk j k' hj
        simp only [hne, if_false]
        exact h.str.known j k' hj
    · intro j k' hj
      dsimp only [setO] at hj ⊢
      split at hj
      · cases hj; omega
      · have := h.str.fresh j k' hj; omega
    · intro j j' k' hj hj'
      dsimp only [setO] at hj hj'
      split at hj <;> split at hj'
      · subst_vars; rfl
      · cases hj; exact absurd rfl (hfreshk j' _ hj')
      · cases hj'; exact absurd rfl (hfreshk j _ hj)
      · exact h.str.inj j j' k' hj hj'
    · exact Map.set_sorted h.str.addedSorted _ _
  · exact h.creatingNil
  · exact h.opened
  · exact h.snapEq
  · intro j hj
    dsimp only [setO] at hj ⊢
    split
    · simp
    · rename_i hji
      simp only [List.mem_append, List.mem_singleton] at hj
      rcases hj with h1 | h1
      · exact h.regOid j h1
      · exact absurd h1 hji
  · intro j hj
    dsimp only [setO] at hj ⊢
    simp only [List.mem_append, List.mem_singleton] at hj
    by_cases hji : j = i
    · subst hji; right; simp
    · simp only [hji, if_false]
      rcases hj with h1 | h1
      · rcases h.regStatus j h1 with h2 | ⟨k', h2, h3⟩
        · exact Or.inl h2
        · right
          refine ⟨k', h2, ?_⟩
          rw [Map.get_set]
          simp [hfreshk j k' h2, h3]
      · exact absurd h1 hji
  · intro k' j hj
    dsimp only [setO] at hj ⊢
    rw [Map.get_set] at hj
    simp only [List.mem_append, List.mem_singleton]
    split at hj
    · cases hj; exact Or.inr rfl
    · exact Or.inl (h.addedReg k' j hj)
  · intro j hj
    dsimp only [setO] at hj ⊢
    simp only [List.mem_append, List.mem_singleton]
    split at hj
    · subst_vars; exact Or.inr rfl
    · exact Or.inl (h.changedReg j hj)
  · intro hn; cases hn
  · intro j hj
    dsimp only [setO] at hj ⊢
    split at hj
    · cases hj
    · rename_i hji; rw [if_neg hji]; exact h.serial0 j hj
  · intro k' j hj
    dsimp only [setO] at hj ⊢
    rw [Map.get_set] at hj
    split at hj
    · cases hj; simp; exact h.serial0 i hnone
    · have hji : j ≠ i := by intro he; subst he; exact hia k' hj
      rw [if_neg hji]; exact h.addedSerial k' j hj
  · intro k' hk'
    have := h.commFresh k' hk'
    show k' < s.nextOid + 1
    omega
  · intro k' hk'
    dsimp only [setO] at hk' ⊢
    rw [Map.get_set] at hk'
    split at hk'
    · subst_vars
      cases hc : s.committed.get s.nextOid with
      | none => rfl
      | some c => have := h.commFresh s.nextOid (by rw [hc]; simp); omega
    · exact h.addedUncommitted k' hk'
  · exact h.tidB
  · intro k' j hj
    dsimp only [setO] at hj ⊢
    have hji : j ≠ i := by intro he; subst he; exact hic k' hj
    rw [if_neg hji]
    exact h.coh k' j hj
  · exact h.owned
  · intro t ht
    have w := h.tmp t ht
    refine ⟨w.pos, w.idx, w.idxCached, w.crIdx, w.recSerial, ?_⟩
    intro k' j hk' hj
    dsimp only [setO]
    have hji : j ≠ i := by intro he; subst he; exact hic k' hj
    rw [if_neg hji]; exact w.crSerial k' j hk' hj
  · exact sj1
  · exact sj2
  · exact sj3
  · intro _; exact sj4

end Proofs.Conn
