/-
  LINK lemmas, byte layout: the record-level store of C17 (`ZodbModel/Copy.lean`) with its byte
  encoding `Recover.encStore` (`ZodbModel/Recover.lean`) against the byte layout of C01/C09
  (`ZodbModel/Format.lean`: `encodeFile`, `FileWF`, the open-time scanner of `ZodbModel/Disk.lean`).

  The translation `storeF` turns a `Copy.Store` (newest first, pointers as (level, index)) into the
  list of `Format.FTxn` (file order, pointers as byte offsets computed by `Recover.recOff`).
-/
import Proofs.RecoverMain
import Proofs.Disk
namespace Proofs.Links
open ZodbModel

/-! ### the translation Copy/Recover → Format -/

/-- body of a record, its pointer resolved to the byte offset `Recover.recOff` assigns -/
def bodyF (older : Copy.Store) : Copy.Body → Format.Body
  | .full d => .data d
  | .back l i => .back (Recover.recOff older l i)
  | .uncreate => .back 0

/-- a record of the transaction written on top of `older` -/
def recF (older : Copy.Store) (r : Copy.Rec) : Format.FRec :=
  ⟨r.oid, r.serial, Recover.ptrOff older r.prev, Recover.storeSize older, bodyF older r.body⟩

def txnF (older : Copy.Store) (t : Copy.Txn) : Format.FTxn :=
  ⟨t.tid, t.status, t.user, t.desc, t.ext, t.recs.map (recF older)⟩

/-- newest-first store ↦ transactions in file order -/
def storeF : Copy.Store → List Format.FTxn
  | [] => []
  | t :: older => storeF older ++ [txnF older t]

/-- no record carries an empty pickle (`plen = 0` means "back pointer" in the format) -/
def NoEmptyPickle (S : Copy.Store) : Prop := ∀ t ∈ S, ∀ r ∈ t.recs, r.body ≠ .full []

/-- the status is one byte -/
def StatusByte (S : Copy.Store) : Prop := ∀ t ∈ S, t.status < 256

/-! ### sizes -/

theorem recF_len (older : Copy.Store) (r : Copy.Rec) (h : r.body ≠ .full []) :
    (recF older r).len = Recover.recLen r := by
  obtain ⟨oid, serial, prev, body⟩ := r
  cases body with
  | full d =>
    have h1 : d ≠ [] := fun e => h (by rw [e])
    have h2 : d.length ≠ 0 := fun e => h1 (List.length_eq_zero_iff.1 e)
    show 42 + (if d.length = 0 then 8 else d.length) = 42 + d.length
    simp [h2]
  | back l i => rfl
  | uncreate => rfl

theorem recsF_len (older : Copy.Store) (rs : List Copy.Rec) (h : ∀ r ∈ rs, r.body ≠ .full []) :
    Format.recsLen (rs.map (recF older)) = Recover.recsLen rs := by
  induction rs with
  | nil => rfl
  | cons r rs ih =>
    have h1 := recF_len older r (h r List.mem_cons_self)
    have h2 := ih (fun x hx => h x (List.mem_cons_of_mem _ hx))
    simp only [Format.recsLen] at h2
    simp only [Format.recsLen, List.map_cons, List.sum_cons, Recover.recsLen, h1, h2]

theorem txnF_hdrLen (older : Copy.Store) (t : Copy.Txn) : (txnF older t).hdrLen = Recover.hdrLen t := rfl

theorem txnF_tlen (older : Copy.Store) (t : Copy.Txn) (h : ∀ r ∈ t.recs, r.body ≠ .full []) :
    (txnF older t).tlen = Recover.tlen t := by
  simp only [Format.FTxn.tlen, Recover.tlen, txnF_hdrLen]
  show _ + Format.recsLen (t.recs.map (recF older)) = _
  rw [recsF_len older t.recs h]

theorem storeF_filePos (S : Copy.Store) (h : NoEmptyPickle S) :
    Disk.filePos (storeF S) = Recover.storeSize S := by
  induction S with
  | nil => rfl
  | cons t older ih =>
    have h1 := ih (fun x hx => h x (List.mem_cons_of_mem _ hx))
    have h2 := txnF_tlen older t (h t List.mem_cons_self)
    simp only [Disk.filePos] at h1
    simp only [storeF, Disk.filePos, List.map_append, List.sum_append, List.map_cons, List.map_nil,
      List.sum_cons, List.sum_nil, Recover.storeSize, h2]
    omega

/-! ### bytes -/

theorem encRec_eq (older : Copy.Store) (r : Copy.Rec) :
    Recover.encRec older (Recover.storeSize older) r = Format.encodeRec (recF older r) := by
  unfold Recover.encRec Format.encodeRec recF bodyF Recover.encBody
  cases r.body <;> simp [Format.Body.plen, Format.Body.bytes, List.append_assoc]

theorem encRecs_eq (older : Copy.Store) (rs : List Copy.Rec) :
    Recover.encRecs older (Recover.storeSize older) rs = Format.encodeRecs (rs.map (recF older)) := by
  induction rs with
  | nil => rfl
  | cons r rs ih =>
    simp only [Recover.encRecs, Format.encodeRecs, List.map_cons, List.flatMap_cons, encRec_eq]
    rw [ih]; rfl

theorem be1 (v : Nat) (h : v < 256) : be 1 v = [v] := by
  simp [be, Nat.mod_eq_of_lt h]

theorem encTxn_eq (older : Copy.Store) (t : Copy.Txn) (hs : t.status < 256)
    (h : ∀ r ∈ t.recs, r.body ≠ .full []) :
    Recover.encTxn older t = Format.encodeTxn (txnF older t) := by
  have htl := txnF_tlen older t h
  unfold Recover.encTxn Format.encodeTxn Format.encodeTxnSt Format.encodeHdr
  rw [htl, encRecs_eq]
  show _ = be 8 t.tid ++ be 8 (Recover.tlen t) ++ be 1 t.status ++ be 2 t.user.length ++
    be 2 t.desc.length ++ be 2 t.ext.length ++ t.user ++ t.desc ++ t.ext ++
    Format.encodeRecs (t.recs.map (recF older)) ++ be 8 (Recover.tlen t)
  rw [be1 _ hs]

theorem encStore_eq (S : Copy.Store) (hs : StatusByte S) (h : NoEmptyPickle S) :
    Recover.encStore S = Format.encodeFile (storeF S) := by
  induction S with
  | nil => rfl
  | cons t older ih =>
    have h1 := ih (fun x hx => hs x (List.mem_cons_of_mem _ hx))
      (fun x hx => h x (List.mem_cons_of_mem _ hx))
    rw [Recover.encStore, storeF, Proofs.Disk.encodeFile_append, h1,
      encTxn_eq older t (hs t List.mem_cons_self) (h t List.mem_cons_self)]

/-! ### well-formedness transfers -/

theorem storeEnc_noEmpty {S : Copy.Store} (h : Proofs.Recover.StoreEnc S) : NoEmptyPickle S := by
  intro t ht r hr hb
  have := (h.2 t ht).2.2.2.2.2 r hr
  unfold Proofs.Recover.RecEnc at this
  rw [hb] at this
  exact this.2.2.1 rfl

theorem storeEnc_status {S : Copy.Store} (h : Proofs.Recover.StoreEnc S) : StatusByte S := by
  intro t ht
  rcases (h.2 t ht).2.1 with h | h <;> omega

theorem storeEnc_tail {t : Copy.Txn} {older : Copy.Store} (h : Proofs.Recover.StoreEnc (t :: older)) :
    Proofs.Recover.StoreEnc older :=
  ⟨by have := h.1; simp only [Recover.storeSize] at this; omega,
   fun x hx => h.2 x (List.mem_cons_of_mem _ hx)⟩

theorem ptrOff_le (S : Copy.Store) (p : Option (Nat × Nat)) : Recover.ptrOff S p ≤ Recover.storeSize S := by
  cases p with
  | none => simp [Recover.ptrOff]
  | some li => exact Proofs.Recover.recOff_le S li.1 li.2

/-- the newest transaction of an encodable store, translated, is a transaction `tpc_vote` can have
    written at the end of the older part (Format's `TxnWF`) — provided its tid is not ff…ff (the
    `stop` bound of `read_index`, which `fsrecover` does not know) -/
theorem txnF_wf {t : Copy.Txn} {older : Copy.Store} (h : Proofs.Recover.StoreEnc (t :: older))
    (htid : t.tid ≠ 2 ^ 64 - 1) : Format.TxnWF (Recover.storeSize older) (txnF older t) := by
  have he := h.2 t List.mem_cons_self
  obtain ⟨h1, h2, h3, h4, h5, h6⟩ := he
  have hne : ∀ r ∈ t.recs, r.body ≠ .full [] := storeEnc_noEmpty h t List.mem_cons_self
  have hsz := h.1
  simp only [Recover.storeSize] at hsz
  refine ⟨by show t.tid < _; omega, by show t.status < _; rcases h2 with h | h <;> omega,
    by show t.status ≠ _; rcases h2 with h | h <;> simp [h, Format.stCheckpoint],
    by show t.status ≠ _; rcases h2 with h | h <;> simp [h, Format.stUndone],
    h3, h4, h5, by rw [txnF_tlen older t hne]; omega, ?_⟩
  intro fr hfr
  obtain ⟨r, hr, rfl⟩ := List.mem_map.1 hfr
  have hr6 := h6 r hr
  unfold Proofs.Recover.RecEnc at hr6
  have hp := ptrOff_le older r.prev
  refine ⟨hr6.1, hr6.2.1, by show Recover.ptrOff older r.prev < _; omega, rfl, ?_⟩
  show Format.BodyWF (bodyF older r.body)
  unfold bodyF
  cases hb : r.body with
  | full d =>
    rw [hb] at hr6
    have h7 := hr6.2.2
    simp only [Format.BodyWF]
    refine ⟨List.length_pos_iff.2 h7.1, ?_⟩
    have : Recover.hugeRead < 2 ^ 64 := by decide
    omega
  | back l i =>
    simp only [Format.BodyWF]
    have := Proofs.Recover.recOff_le older l i
    omega
  | uncreate => simp [Format.BodyWF]

/-- an encodable store whose tids stay below ff…ff translates to a well-formed file of C01 -/
theorem storeF_fileWF (S : Copy.Store) (h : Proofs.Recover.StoreEnc S)
    (htid : ∀ t ∈ S, t.tid ≠ 2 ^ 64 - 1) : Format.FileWF (storeF S) := by
  induction S with
  | nil => trivial
  | cons t older ih =>
    have h1 := ih (storeEnc_tail h) (fun x hx => htid x (List.mem_cons_of_mem _ hx))
    refine Proofs.Disk.fileWF_append _ _ h1 ?_
    rw [storeF_filePos older (storeEnc_noEmpty (storeEnc_tail h))]
    exact txnF_wf h (htid t List.mem_cons_self)

end Proofs.Links

namespace Proofs.Links
open ZodbModel

/-! ### what both readers report about a transaction: tid, status, metadata, (oid, serial) of the records -/

abbrev THdr := Nat × Nat × Bytes × Bytes × Bytes × List (Nat × Nat)

def ihdr (t : Copy.ITxn) : THdr := (t.tid, t.status, t.user, t.desc, t.ext, t.recs.map fun r => (r.oid, r.tid))
def fhdr (t : Format.FTxn) : THdr := (t.tid, t.status, t.user, t.desc, t.ext, t.recs.map fun r => (r.oid, r.tid))

theorem iterRec_hdr {older : Copy.Store} {r : Copy.Rec} {x : Copy.IRec} (h : Copy.iterRec older r = some x) :
    (x.oid, x.tid) = (r.oid, r.serial) := by
  unfold Copy.iterRec at h
  split at h
  · cases h; rfl
  · cases h; rfl
  · split at h
    · split at h
      · cases h; rfl
      · cases h
    · cases h

theorem iterRecs_hdr {older : Copy.Store} {rs : List Copy.Rec} {xs : List Copy.IRec}
    (h : Copy.iterRecs older rs = some xs) :
    xs.map (fun r => (r.oid, r.tid)) = rs.map (fun r => (r.oid, r.serial)) := by
  induction rs generalizing xs with
  | nil => simp only [Copy.iterRecs] at h; cases h; rfl
  | cons r rs ih =>
    simp only [Copy.iterRecs] at h
    cases h1 : Copy.iterRec older r with
    | none => simp [h1] at h
    | some x =>
      cases h2 : Copy.iterRecs older rs with
      | none => simp [h1, h2] at h
      | some ys =>
        simp only [h1, h2] at h
        cases h
        simp only [List.map_cons, iterRec_hdr h1, ih h2]

theorem iterate_hdr {S : Copy.Store} {rs : List Copy.ITxn} (h : Copy.iterate S = some rs) :
    rs.map ihdr = (storeF S).map fhdr := by
  induction S generalizing rs with
  | nil => simp only [Copy.iterate] at h; cases h; rfl
  | cons t older ih =>
    simp only [Copy.iterate] at h
    cases h1 : Copy.iterate older with
    | none => simp [h1] at h
    | some ts =>
      cases h2 : Copy.iterTxn older t with
      | none => simp [h1, h2] at h
      | some x =>
        simp only [h1, h2] at h
        cases h
        unfold Copy.iterTxn at h2
        cases h3 : Copy.iterRecs older t.recs with
        | none => simp [h3] at h2
        | some xs =>
          simp only [h3] at h2
          cases h2
          simp only [storeF, List.map_append, ih h1, List.map_cons, List.map_nil, ihdr, fhdr, txnF,
            iterRecs_hdr h3, List.map_map]
          rfl

end Proofs.Links
