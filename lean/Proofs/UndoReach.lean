/-
  C06, part 8: `Inv` is an invariant of every history of commits and undo transactions, so the
  hypotheses of the property theorems are met by every reachable log.  Core Lean only.
-/
import Proofs.UndoMulti
namespace Proofs.Undo
open ZodbModel ZodbModel.Undo

theorem commitTxn_inv {L : Log} (hInv : Inv L) (tid : Nat) (stores : List (Nat × Bytes))
    (ht : ∀ t ∈ L, t.tid < tid) (hd : ∀ s ∈ stores, s.2 ≠ []) : Inv (commitTxn L tid stores) := by
  refine ⟨?_, ht, (fun hc => by cases hc), hInv⟩
  intro r hr
  simp only [List.mem_map] at hr
  obtain ⟨s, hs, rfl⟩ := hr
  exact ⟨rfl, fun _ => rfl, hd s hs⟩

theorem applyOp_inv (resolve : Resolver) {L : Log} (hInv : Inv L) (o : Op) (ho : OpOK L o) :
    Inv (applyOp resolve L o) := by
  cases o with
  | commit tid stores => exact commitTxn_inv hInv tid stores ho.1 ho.2
  | undo utid ids =>
    simp only [applyOp]
    rcases undoTxn_cases resolve L utid ids with ⟨e, h⟩ | ⟨S, h⟩
    · rw [h]; exact hInv
    · obtain ⟨U, hU, _, _, hI⟩ := undoTxn_inv resolve hInv utid ho.1 ids h
      rw [h]; simp only; rw [hU]; exact hI

theorem run_inv (resolve : Resolver) (ops : List Op) : ∀ (L : Log), Inv L → OpsOK resolve L ops →
    Inv (run resolve L ops) := by
  induction ops with
  | nil => intro L h _; exact h
  | cons o ops ih =>
    intro L hInv hok
    exact ih _ (applyOp_inv resolve hInv o hok.1) hok.2

theorem recOKb_iff (tid : Nat) (packed : Bool) (older : List Rec) (r : Rec) :
    recOKb tid packed older r = true ↔ RecOK tid packed older r := by
  unfold recOKb RecOK PayloadOK
  cases hpl : r.pl with
  | data d =>
    cases packed <;> simp [payloadOKb, and_assoc]
  | back b =>
    cases packed <;> simp [payloadOKb, and_assoc]

theorem invB_iff (L : Log) : invB L = true ↔ Inv L := by
  induction L with
  | nil => simp [invB, Undo.Inv]
  | cons t older ih =>
    simp only [invB, Undo.Inv, Bool.and_eq_true, List.all_eq_true, decide_eq_true_eq, ih,
      recOKb_iff, Bool.or_eq_true, Bool.not_eq_true']
    constructor
    · rintro ⟨⟨⟨h1, h2⟩, h3⟩, h4⟩
      refine ⟨h1, h2, ?_, h4⟩
      intro hp
      rcases h3 with h3 | h3
      · rw [hp] at h3; cases h3
      · exact h3
    · rintro ⟨h1, h2, h3, h4⟩
      refine ⟨⟨⟨h1, h2⟩, ?_⟩, h4⟩
      cases hp : t.packed with
      | false => exact Or.inl rfl
      | true => exact Or.inr (h3 hp)

end Proofs.Undo
