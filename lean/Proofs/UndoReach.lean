/-
  C06, part 8: `Inv` is an invariant of every history of commits and undo transactions, so the
  hypotheses of the property theorems are met by every reachable log.  Core Lean only.
-/
import Proofs.UndoMulti
namespace Proofs.Undo
open ZodbModel ZodbModel.Undo

theorem commitTxn_inv {L : Log} (hInv : Inv L) (tid : Nat) (stores : List (Nat × Bytes))
    (ht : ∀ t ∈ L, t.tid < tid) (hd : ∀ s ∈ stores, s.2 ≠ []) : Inv (commitTxn L tid stores) := by
  refine ⟨?_, ht, hInv⟩
  intro r hr
  simp only [List.mem_map] at hr
  obtain ⟨s, hs, rfl⟩ := hr
  exact ⟨rfl, rfl, hd s hs⟩

theorem applyOp_inv (resolve : Resolver) {L : Log} (hInv : Inv L) (o : Op) (ho : OpOK L o) :
    Inv (applyOp resolve L o) := by
  cases o with
  | commit tid stores => exact commitTxn_inv hInv tid stores ho.1 ho.2
  | undo utid ids =>
    simp only [applyOp]
    rcases undoTxn_cases resolve L utid ids with ⟨e, h⟩ | ⟨S, h⟩
    · rw [h]; exact hInv
    · obtain ⟨U, hU, _, _, hI⟩ := undoTxn_inv resolve hInv utid ho.1 ids h
      rw [h]; simp only; rw [hU]; exact hI

theorem run_inv (resolve : Resolver) (ops : List Op) : ∀ (L : Log), Inv L → OpsOK resolve L ops →
    Inv (run resolve L ops) := by
  induction ops with
  | nil => intro L h _; exact h
  | cons o ops ih =>
    intro L hInv hok
    exact ih _ (applyOp_inv resolve hInv o hok.1) hok.2

theorem invB_iff (L : Log) : invB L = true ↔ Inv L := by
  induction L with
  | nil => simp [invB, Undo.Inv]
  | cons t older ih =>
    simp only [invB, Undo.Inv, Bool.and_eq_true, List.all_eq_true, decide_eq_true_eq, ih]
    constructor
    · rintro ⟨⟨h1, h2⟩, h3⟩
      refine ⟨?_, h2, h3⟩
      intro r hr
      have := h1 r hr
      simp only [recOKb, Bool.and_eq_true, decide_eq_true_eq] at this
      refine ⟨this.1.1, this.1.2, ?_⟩
      have hp := this.2
      unfold PayloadOK
      cases hpl : r.pl with
      | data d => rw [hpl] at hp; simp only [payloadOKb, Bool.not_eq_true', List.isEmpty_eq_false_iff] at hp; exact hp
      | back b => rw [hpl] at hp; simpa [payloadOKb] using hp
    · rintro ⟨h1, h2, h3⟩
      refine ⟨⟨?_, h2⟩, h3⟩
      intro r hr
      obtain ⟨a, b, c⟩ := h1 r hr
      simp only [recOKb, Bool.and_eq_true, decide_eq_true_eq]
      refine ⟨⟨a, b⟩, ?_⟩
      unfold PayloadOK at c
      cases hpl : r.pl with
      | data d => rw [hpl] at c; simpa [payloadOKb] using c
      | back b => rw [hpl] at c; simpa [payloadOKb] using c

end Proofs.Undo
