/-
  Helper lemmas for C06, part 3: the record loop of `_txn_undo_write` (with the "second chance"
  failures map), `_txn_find`, and consequences of `Inv` for a transaction inside the log.
  Core Lean only.
-/
import Proofs.UndoRecord
namespace Proofs.Undo
open ZodbModel ZodbModel.Undo

/-! ### structure of the log -/

theorem flat_append (A B : Log) : flat (A ++ B) = flat A ++ flat B := by
  induction A with
  | nil => rfl
  | cons t A ih => simp [flat, ih]

theorem Inv_suffix {A B : Log} (h : Inv (A ++ B)) : Inv B := by
  induction A with
  | nil => exact h
  | cons t A ih => exact ih h.2.2.2

theorem Inv_newer_tid {newer : Log} {T : Txn} {older : Log} (h : Inv (newer ++ T :: older)) :
    ∀ t ∈ newer, T.tid < t.tid := by
  induction newer with
  | nil => simp
  | cons t newer ih =>
    intro t' ht'
    rcases List.mem_cons.1 ht' with h' | h'
    · subst h'; exact h.2.1 T (by simp)
    · exact ih h.2.2.2 t' h'

/-- everything newer than a not-packed transaction is not packed -/
theorem Inv_newer_unpacked {newer : Log} {T : Txn} {older : Log} (h : Inv (newer ++ T :: older))
    (hp : T.packed = false) : ∀ t ∈ newer, t.packed = false := by
  induction newer with
  | nil => simp
  | cons t newer ih =>
    intro t' ht'
    rcases List.mem_cons.1 ht' with h' | h'
    · subst h'
      cases hpk : t'.packed with
      | false => rfl
      | true =>
        have := h.2.2.1 hpk T (by simp)
        rw [hp] at this; cases this
    · exact ih h.2.2.2 t' h'

theorem txnFind_inv {newer : Log} {T : Txn} {older : Log} (h : Inv (newer ++ T :: older)) :
    txnFind T.tid (newer ++ T :: older) = some (T, older) := by
  induction newer with
  | nil => simp [txnFind]
  | cons t newer ih =>
    have := Inv_newer_tid h t List.mem_cons_self
    simp only [List.cons_append, txnFind]
    rw [if_neg (by omega)]
    exact ih h.2.2.2

theorem txnFind_none {tid : Nat} {L : Log} (h : ∀ t ∈ L, t.tid ≠ tid) : txnFind tid L = none := by
  induction L with
  | nil => rfl
  | cons t L ih =>
    simp only [txnFind]
    rw [if_neg (h t List.mem_cons_self)]
    exact ih (fun x hx => h x (List.mem_cons_of_mem _ hx))

theorem txnFind_some {tid : Nat} {L : Log} {T : Txn} {older : Log}
    (h : txnFind tid L = some (T, older)) : ∃ newer, L = newer ++ T :: older ∧ T.tid = tid := by
  induction L with
  | nil => simp [txnFind] at h
  | cons t L ih =>
    simp only [txnFind] at h
    split at h
    · simp only [Option.some.injEq, Prod.mk.injEq] at h
      obtain ⟨h1, h2⟩ := h; subst h1; subst h2
      exact ⟨[], rfl, by assumption⟩
    · obtain ⟨newer, hn, ht⟩ := ih h
      exact ⟨t :: newer, by simp [hn], ht⟩

/-! ### the newest record of an oid inside a transaction -/

/-- newest record of `oid` in `recs` (newest first) and the number of records of `recs` behind it -/
def newestFor (oid : Nat) : List Rec → Option (Rec × Nat)
  | [] => none
  | r :: rest => if r.oid = oid then some (r, rest.length) else newestFor oid rest

theorem newestFor_none_iff (oid : Nat) (recs : List Rec) :
    newestFor oid recs = none ↔ ∀ r ∈ recs, r.oid ≠ oid := by
  induction recs with
  | nil => simp [newestFor]
  | cons r rest ih =>
    simp only [newestFor, List.mem_cons, forall_eq_or_imp]
    by_cases h : r.oid = oid
    · simp [h]
    · simp [h, ih]

theorem newestFor_isSome_of_mem {oid : Nat} {recs : List Rec} (h : oid ∈ recs.map (·.oid)) :
    ∃ r k, newestFor oid recs = some (r, k) := by
  cases hn : newestFor oid recs with
  | some x => exact ⟨x.1, x.2, rfl⟩
  | none =>
    exfalso
    obtain ⟨r, hr, ho⟩ := List.mem_map.1 h
    exact (newestFor_none_iff oid recs).1 hn r hr ho

theorem newestFor_some {oid : Nat} {recs : List Rec} {r : Rec} {k : Nat}
    (h : newestFor oid recs = some (r, k)) (G : List Rec) :
    r ∈ recs ∧ r.oid = oid ∧ lastPos oid (recs ++ G) = G.length + k + 1 ∧
      recAt (recs ++ G) (G.length + k + 1) = some r := by
  induction recs with
  | nil => simp [newestFor] at h
  | cons x rest ih =>
    simp only [newestFor] at h
    by_cases ho : x.oid = oid
    · rw [if_pos ho] at h
      simp only [Option.some.injEq, Prod.mk.injEq] at h
      obtain ⟨h1, h2⟩ := h; subst h1; subst h2
      refine ⟨List.mem_cons_self, ho, ?_, ?_⟩
      · simp only [List.cons_append, lastPos, if_pos ho, List.length_append]; omega
      · simp only [List.cons_append, recAt, List.length_append]
        rw [if_pos (by omega)]
    · rw [if_neg ho] at h
      obtain ⟨h1, h2, h3, h4⟩ := ih h
      refine ⟨List.mem_cons_of_mem _ h1, h2, ?_, ?_⟩
      · simp only [List.cons_append, lastPos, if_neg ho]; exact h3
      · have := (recAt_le_length h4).2
        simp only [List.cons_append, recAt]
        rw [if_neg (by omega)]; exact h4

/-! ### the loop -/

/-- every record the loop writes: tid of the undo transaction, `prev` = committed index entry, payload
    produced by `_transactionalUndoRecord` for some record of the undone transaction with that oid -/
theorem undoLoop_mem (resolve : Resolver) (S F : List Rec) (utid base : Nat) (recs : List Rec)
    (x : Rec) (hx : x ∈ (undoLoop resolve S F utid base recs).1) :
    x.tid = utid ∧ x.prev = lastPos x.oid F ∧
      ∃ r ∈ recs, ∃ pos, r.oid = x.oid ∧ undoRecord resolve S F r pos = some x.pl := by
  induction recs with
  | nil => simp [undoLoop] at hx
  | cons r rest ih =>
    simp only [undoLoop] at hx
    cases hu : undoRecord resolve S F r (base + rest.length + 1) with
    | none =>
      rw [hu] at hx
      obtain ⟨h1, h2, r', hr', pos, h3⟩ := ih hx
      exact ⟨h1, h2, r', List.mem_cons_of_mem _ hr', pos, h3⟩
    | some pl =>
      rw [hu] at hx
      rcases List.mem_cons.1 hx with hx | hx
      · subst hx
        exact ⟨rfl, rfl, r, List.mem_cons_self, _, rfl, hu⟩
      · obtain ⟨h1, h2, r', hr', pos, h3⟩ := ih hx
        exact ⟨h1, h2, r', List.mem_cons_of_mem _ hr', pos, h3⟩

/-- oids the transaction did not write are neither written nor failed -/
theorem undoLoop_not_mem (resolve : Resolver) (S F : List Rec) (utid base oid : Nat)
    (recs : List Rec) (h : ∀ r ∈ recs, r.oid ≠ oid) :
    oid ∉ (undoLoop resolve S F utid base recs).2 ∧
      ∀ x ∈ (undoLoop resolve S F utid base recs).1, x.oid ≠ oid := by
  induction recs with
  | nil => simp [undoLoop]
  | cons r rest ih =>
    obtain ⟨ih1, ih2⟩ := ih (fun x hx => h x (List.mem_cons_of_mem _ hx))
    have hr := h r List.mem_cons_self
    simp only [undoLoop]
    cases hu : undoRecord resolve S F r (base + rest.length + 1) with
    | none =>
      refine ⟨?_, ih2⟩
      simp only [List.mem_cons, List.mem_filter, not_or, not_and]
      exact ⟨fun e => hr e.symm, fun hm => absurd hm ih1⟩
    | some pl =>
      refine ⟨?_, ?_⟩
      · simp only [List.mem_filter, not_and]
        exact fun hm => absurd hm ih1
      · intro x hx
        rcases List.mem_cons.1 hx with hx | hx
        · subst hx; exact hr
        · exact ih2 x hx

/-- per oid the outcome of the loop is the outcome for the NEWEST record of that oid in the undone
    transaction: it fails iff that record cannot be undone (earlier failures get their second chance),
    and otherwise the newest written record of the oid carries that record's payload -/
theorem undoLoop_spec (resolve : Resolver) (S F : List Rec) (utid base oid : Nat) (recs : List Rec)
    (r : Rec) (k : Nat) (h : newestFor oid recs = some (r, k)) :
    (oid ∈ (undoLoop resolve S F utid base recs).2 ↔ undoRecord resolve S F r (base + k + 1) = none) ∧
    (∀ pl, undoRecord resolve S F r (base + k + 1) = some pl →
      (undoLoop resolve S F utid base recs).1.find? (fun x => x.oid = oid)
        = some { oid := oid, tid := utid, prev := lastPos oid F, pl := pl }) := by
  induction recs with
  | nil => simp [newestFor] at h
  | cons x rest ih =>
    simp only [newestFor] at h
    by_cases ho : x.oid = oid
    · rw [if_pos ho] at h
      simp only [Option.some.injEq, Prod.mk.injEq] at h
      obtain ⟨h1, h2⟩ := h; subst h1; subst h2
      simp only [undoLoop]
      cases hu : undoRecord resolve S F x (base + rest.length + 1) with
      | none => simp [ho]
      | some pl =>
        refine ⟨?_, ?_⟩
        · simp [List.mem_filter, ho]
        · intro pl' hpl'
          simp only [Option.some.injEq] at hpl'; subst hpl'
          simp [ho]
    · rw [if_neg ho] at h
      obtain ⟨ih1, ih2⟩ := ih h
      simp only [undoLoop]
      cases hu : undoRecord resolve S F x (base + rest.length + 1) with
      | none =>
        refine ⟨?_, ih2⟩
        rw [← ih1]
        simp only [List.mem_cons, List.mem_filter]
        constructor
        · rintro (e | ⟨hm, _⟩)
          · exact absurd e.symm ho
          · exact hm
        · intro hm
          exact Or.inr ⟨hm, by simpa using fun e => ho e.symm⟩
      | some pl =>
        refine ⟨?_, ?_⟩
        · rw [← ih1]
          simp only [List.mem_filter]
          constructor
          · exact fun hm => hm.1
          · intro hm
            exact ⟨hm, by simpa using fun e => ho e.symm⟩
        · intro pl' hpl'
          simp only [List.find?_cons, ho, decide_false]
          exact ih2 pl' hpl'

/-- the payloads `_transactionalUndoRecord` can return -/
theorem undoRecord_payload (resolve : Resolver) (S F : List Rec) (r : Rec) (pos : Nat) (pl : Payload)
    (h : undoRecord resolve S F r pos = some pl) :
    pl = .back r.prev ∨ pl = .back 0 ∨ ∃ m, m ≠ [] ∧ pl = .data m := by
  unfold undoRecord at h
  split at h
  · simp at h
  · split at h
    · simp only [Option.some.injEq] at h; exact Or.inr (Or.inl h.symm)
    · simp only [Option.some.injEq] at h; exact Or.inl h.symm
  · split at h
    · simp only [Option.some.injEq] at h; exact Or.inr (Or.inl h.symm)
    · split at h
      · simp at h
      · split at h
        · simp at h
        · split at h
          · simp at h
          · rename_i m _
            split at h
            · simp only [Option.some.injEq] at h; exact Or.inr (Or.inl h.symm)
            · rename_i hm
              simp only [Option.some.injEq] at h; exact Or.inr (Or.inr ⟨_, hm, h.symm⟩)

end Proofs.Undo
