/-
  Helper lemmas for C01: recovery of a cleanly written file followed by a torn tail, raw writes on
  images, and the induction over histories and cuts.  Core Lean only.
-/
import ZodbModel.Disk
import Proofs.Format
namespace Proofs.Disk
open ZodbModel ZodbModel.Format ZodbModel.Disk Proofs.Format

/-! ### `mkTxn` keeps sizes -/

theorem recsLen_mk (pos : Nat) (rs : List FRec) :
    recsLen (rs.map fun r => { r with tloc := pos }) = recsLen rs := by
  induction rs with
  | nil => rfl
  | cons r rs ih =>
    simp only [recsLen, List.map_cons, List.sum_cons] at *
    rw [ih]; rfl

@[simp] theorem mkTxn_tlen (pos : Nat) (t : FTxn) : (mkTxn pos t).tlen = t.tlen := by
  simp [mkTxn, FTxn.tlen, FTxn.hdrLen, recsLen_mk]

@[simp] theorem mkTxn_status (pos : Nat) (t : FTxn) : (mkTxn pos t).status = t.status := rfl

theorem mkTxn_body (pos : Nat) (t : FTxn) (h : ∀ r ∈ t.recs, BodyWF r.body) :
    ∀ r ∈ (mkTxn pos t).recs, BodyWF r.body := by
  intro r hr
  simp only [mkTxn, List.mem_map] at hr
  obtain ⟨r', hr', rfl⟩ := hr
  exact h r' hr'

/-! ### layout: `_pos` is the length of the file -/

theorem encodeTxns_length : ∀ (cs : List FTxn) (pos : Nat), TxnsWF pos cs →
    (encodeTxns cs).length = (cs.map fun t => t.tlen + 8).sum := by
  intro cs
  induction cs with
  | nil => intro _ _; rfl
  | cons t ts ih =>
    intro pos h
    rw [encodeTxns_length_cons pos t ts h.1, ih _ h.2]
    simp

theorem filePos_eq (cs : List FTxn) (h : FileWF cs) : filePos cs = (encodeFile cs).length := by
  simp [filePos, encodeFile, magic, encodeTxns_length cs 4 h]; omega

theorem txnsWF_append : ∀ (cs : List FTxn) (pos : Nat) (t : FTxn), TxnsWF pos cs →
    TxnWF (pos + (cs.map fun t => t.tlen + 8).sum) t → TxnsWF pos (cs ++ [t]) := by
  intro cs
  induction cs with
  | nil => intro pos t _ h; simpa [TxnsWF] using h
  | cons c cs ih =>
    intro pos t h ht
    refine ⟨h.1, ih _ t h.2 ?_⟩
    simp only [List.map_cons, List.sum_cons] at ht
    rw [Nat.add_assoc]; exact ht

theorem fileWF_append (cs : List FTxn) (t : FTxn) (h : FileWF cs) (ht : TxnWF (filePos cs) t) :
    FileWF (cs ++ [t]) :=
  txnsWF_append cs 4 t h ht

theorem encodeFile_append (cs : List FTxn) (t : FTxn) :
    encodeFile (cs ++ [t]) = encodeFile cs ++ encodeTxn t := by
  simp [encodeFile, encodeTxns]

/-! ### torn tails -/

/-- what can follow the committed data on disk while a transaction is in flight: a byte-prefix of
    the vote write (any status byte), or all of it with the status byte still 'c' -/
inductive Torn : Bytes → Prop where
  | part (st : Nat) (t : FTxn) (n : Nat) (hb : ∀ r ∈ t.recs, BodyWF r.body) (htl : t.tlen < 2 ^ 64)
      (hn : n < t.tlen + 8) (hst : st < 128) : Torn ((encodeTxnSt st t).take n)
  | checkpoint (t : FTxn) (hb : ∀ r ∈ t.recs, BodyWF r.body) : Torn (encodeTxnSt stCheckpoint t)

theorem Torn.nil : Torn [] := by
  have := Torn.part 0 ⟨0, 0, [], [], [], []⟩ 0 (by simp) (by simp [FTxn.tlen, FTxn.hdrLen, recsLen])
    (by omega) (by omega)
  simpa using this

/-- one more scan step on a torn tail: nothing is accepted, the scan ends at `pos` -/
theorem scan_torn (tail : Bytes) (ht : Torn tail) (f pos : Nat) (st : ScanState) :
    ∃ how, scan (f + 1) tail pos st = .ok ⟨pos, st.index, st.ltid, st.txns, how⟩ ∧
      (how = .eof ↔ tail = []) ∧ how ≠ .stop := by
  cases ht with
  | part s t n hb htl hn hst =>
    simp only [scan, parseTxn_torn s t pos n hb htl hn hst]
    have hlen : ((encodeTxnSt s t).take n).length = n := by
      rw [List.length_take, encodeTxnSt_length _ _ hb]; omega
    by_cases h0 : n = 0
    · subst h0; exact ⟨.eof, by simp, by simp, by simp⟩
    · have hne : (encodeTxnSt s t).take n ≠ [] := by
        intro h; rw [h] at hlen; simp at hlen; omega
      by_cases h23 : 23 ≤ n
      · exact ⟨.truncSave, by simp [h0, h23], by simp [hne], by simp⟩
      · exact ⟨.truncShort, by simp [h0, h23], by simp [hne], by simp⟩
  | checkpoint t hb =>
    have := parseTxn_checkpoint t pos [] hb
    rw [List.append_nil] at this
    have hne : encodeTxnSt stCheckpoint t ≠ [] := by
      intro h
      have := encodeTxnSt_length stCheckpoint t hb
      rw [h] at this; simp at this
    exact ⟨.truncSave, by simp [scan, this], by simp [hne], by simp⟩

/-- THE recovery lemma: a cleanly written file followed by a torn tail recovers to exactly the
    cleanly written file — bytes, position, index, last tid, transaction list. -/
theorem recover_clean_tail (cs : List FTxn) (hw : FileWF cs) (tail : Bytes) (ht : Torn tail) :
    ∃ r, recover (encodeFile cs ++ tail) = .ok r ∧ r.IsClean cs ∧
      (tail = [] → r.how = .eof ∧ r.saved = none) := by
  have hlen4 : (encodeFile cs ++ tail).length = 4 + (encodeTxns cs).length + tail.length := by
    simp [encodeFile, magic]; omega
  have hge := encodeTxns_length_ge cs 4 hw
  have htake : (encodeFile cs ++ tail).take 4 = magic := by
    simp only [encodeFile, List.append_assoc]; exact take_append_eq rfl
  have hdrop : (encodeFile cs ++ tail).drop 4 = encodeTxns cs ++ tail := by
    simp only [encodeFile, List.append_assoc]; exact drop_append_eq rfl
  obtain ⟨f, hf⟩ : ∃ f, (encodeFile cs ++ tail).length + 1 = cs.length + (f + 1) :=
    ⟨(encodeFile cs ++ tail).length - cs.length, by omega⟩
  obtain ⟨how, hscan, heof, hstop⟩ := scan_torn tail ht f (4 + (encodeTxns cs).length)
    ⟨indexFrom [] 4 cs, lastTid 0 cs, [] ++ cs⟩
  have hri : readIndex (encodeFile cs ++ tail) 4 [] 0 =
      .ok ⟨4 + (encodeTxns cs).length, indexFrom [] 4 cs, lastTid 0 cs, [] ++ cs, how⟩ := by
    unfold readIndex
    rw [if_neg (by omega), if_neg (by omega), if_neg (by simp [htake]), hdrop, hf,
      scan_encode cs 4 _ _ _ hw]
    exact hscan
  have hpos : (encodeFile cs).length = 4 + (encodeTxns cs).length := by
    simp [encodeFile, magic]; omega
  refine ⟨_, by simp only [recover, hri]; rfl, ⟨?_, ?_, ?_, ?_, ?_⟩, ?_⟩
  · simp only
    rw [if_neg (by omega)]
    cases how with
    | eof => simp [heof.1 rfl]
    | truncShort => simp only; rw [← hpos]; exact take_append_eq rfl
    | truncSave => simp only; rw [← hpos]; exact take_append_eq rfl
    | stop => exact absurd rfl hstop
  · simp [hpos]
  · rfl
  · rfl
  · simp
  · intro h
    have := heof.2 h
    subst this
    simp

theorem recover_clean_tail' (cs : List FTxn) (hw : FileWF cs) (tail : Bytes) (ht : Torn tail) :
    ∃ r, recover (encodeFile cs ++ tail) = .ok r ∧ r.IsClean cs := by
  obtain ⟨r, h1, h2, _⟩ := recover_clean_tail cs hw tail ht
  exact ⟨r, h1, h2⟩

theorem recover_clean_eof (cs : List FTxn) (hw : FileWF cs) :
    ∃ r, recover (encodeFile cs) = .ok r ∧ r.IsClean cs ∧ r.how = .eof ∧ r.saved = none := by
  obtain ⟨r, h1, h2, h3⟩ := recover_clean_tail cs hw [] Torn.nil
  rw [List.append_nil] at h1
  exact ⟨r, h1, h2, h3 rfl⟩

theorem recover_clean (cs : List FTxn) (hw : FileWF cs) :
    ∃ r, recover (encodeFile cs) = .ok r ∧ r.IsClean cs := by
  obtain ⟨r, h1, h2, _⟩ := recover_clean_eof cs hw
  exact ⟨r, h1, h2⟩

/-! ### raw writes on images -/

theorem applyWrite_end (img d : Bytes) : applyWrite img img.length d = img ++ d := by
  unfold applyWrite
  split
  · rename_i h; simp [List.eq_nil_of_length_eq_zero h]
  · simp [zeros]

/-- overwriting a segment in the middle of an image by one of the same length -/
theorem applyWrite_mid (a x y c : Bytes) (hx : x.length = y.length) (hy : y.length ≠ 0) :
    applyWrite (a ++ x ++ c) a.length y = a ++ y ++ c := by
  unfold applyWrite
  rw [if_neg hy]
  have h1 : (a ++ x ++ c).take a.length = a := by
    rw [List.append_assoc]; exact take_append_eq rfl
  have h2 : (a ++ x ++ c).drop (a.length + y.length) = c :=
    drop_append_eq (by simp [hx])
  have h3 : a.length - (a ++ x ++ c).length = 0 := by simp
  rw [h1, h2, h3]
  simp [zeros]

/-- flipping the status byte at `pos + 16` turns the voted transaction into the finished one -/
theorem applyWrite_status (base : Bytes) (st st' : Nat) (t : FTxn) :
    applyWrite (base ++ encodeTxnSt st t) (base.length + 16) (be 1 st') = base ++ encodeTxnSt st' t := by
  have e : ∀ s, base ++ encodeTxnSt s t = (base ++ be 8 t.tid ++ be 8 t.tlen) ++ be 1 s ++
      (be 2 t.user.length ++ be 2 t.desc.length ++ be 2 t.ext.length ++ t.user ++ t.desc ++ t.ext
        ++ encodeRecs t.recs ++ be 8 t.tlen) := by
    intro s; simp [encodeTxnSt, encodeHdr]
  have h16 : base.length + 16 = (base ++ be 8 t.tid ++ be 8 t.tlen).length := by
    simp [be_length]
  rw [e st, e st', h16]
  exact applyWrite_mid _ _ _ _ (by simp [be_length]) (by simp [be_length])

theorem applyTrunc_end (base x : Bytes) : applyEv (base ++ x) (.trunc base.length) = base := by
  simp [applyEv, zeros]

theorem applyWrite_end' (img d : Bytes) (off : Nat) (h : off = img.length) :
    applyWrite img off d = img ++ d := by subst h; exact applyWrite_end _ _

theorem applyWrite_status' (base : Bytes) (st st' : Nat) (t : FTxn) (off : Nat)
    (h : off = base.length) :
    applyWrite (base ++ encodeTxnSt st t) (off + 16) (be 1 st') = base ++ encodeTxnSt st' t := by
  subst h; exact applyWrite_status _ _ _ _

theorem applyTrunc_end' (base x : Bytes) (off : Nat) (h : off = base.length) :
    applyEv (base ++ x) (.trunc off) = base := by subst h; exact applyTrunc_end _ _

/-! ### cuts and concatenated traces -/

theorem image_append_lt (init : Bytes) (es es' : List Ev) (k nb : Nat) (h : k < es.length) :
    image init (es ++ es') k nb = image init es k nb := by
  unfold image
  rw [List.take_append_of_le_length (by omega), List.getElem?_append_left h]

theorem image_append_ge (init : Bytes) (es es' : List Ev) (k nb : Nat) (h : es.length ≤ k) :
    image init (es ++ es') k nb = image (applyEvents init es) es' (k - es.length) nb := by
  unfold image
  rw [List.getElem?_append_right h, List.take_append]
  simp [applyEvents, List.take_of_length_le h, List.foldl_append]

theorem returned_append_ge (es es' : List Ev) (k : Nat) (h : es.length ≤ k) :
    returned ((es ++ es').take k) = returned es + returned (es'.take (k - es.length)) := by
  unfold returned
  rw [List.take_append, List.take_of_length_le h, List.count_append]

theorem returned_append_lt (es es' : List Ev) (k : Nat) (h : k < es.length) :
    returned ((es ++ es').take k) = returned (es.take k) := by
  rw [List.take_append_of_le_length (by omega)]


/-! ### one operation: every cut inside it, and its net effect -/

/-- the vote write, cut anywhere (or complete): a torn tail -/
theorem torn_vote (pos : Nat) (t : FTxn) (h : AbortWF t) (nb : Nat) :
    Torn ((voteBytes pos t).take nb) := by
  have hb := mkTxn_body pos t h.1
  by_cases hn : nb < t.tlen + 8
  · exact Torn.part _ _ _ hb (by simpa using h.2) (by simpa using hn) (by decide)
  · have : (voteBytes pos t).take nb = voteBytes pos t := by
      apply List.take_of_length_le
      rw [voteBytes, encodeTxnSt_length _ _ hb, mkTxn_tlen]; omega
    rw [this]; exact Torn.checkpoint _ hb

theorem torn_vote_take (pos : Nat) (t : FTxn) (h : AbortWF t) (n nb : Nat) :
    Torn (((voteBytes pos t).take n).take nb) := by
  rw [List.take_take]; exact torn_vote pos t h _

theorem abortWF_of_txnWF {pos : Nat} {t : FTxn} (h : TxnWF pos (mkTxn pos t)) : AbortWF t := by
  obtain ⟨_, _, _, _, _, _, _, h8, h9⟩ := h
  refine ⟨?_, by simp at h8; omega⟩
  intro r hr
  have := h9 { r with tloc := pos } (by simp only [mkTxn, List.mem_map]; exact ⟨r, hr, rfl⟩)
  exact this.2.2.2.2

/-- a cut inside a vote write, before the truncate that follows it (abort after vote, failed vote) -/
theorem vote_trunc_cut (cs : List FTxn) (hw : FileWF cs) (w : Bytes) (hw' : ∀ nb, Torn (w.take nb))
    (k nb : Nat) (hk : k < 2) :
    ∃ r, recover (image (encodeFile cs) [.write (filePos cs) w, .trunc (filePos cs)] k nb) = .ok r ∧
      r.IsClean cs := by
  have hp := filePos_eq cs hw
  match k, hk with
  | 0, _ =>
    simp only [image, List.take_zero, applyEvents, List.foldl_nil, List.getElem?_cons_zero]
    rw [applyWrite_end' _ _ _ hp]
    exact recover_clean_tail' cs hw _ (hw' nb)
  | 1, _ =>
    have : w = w.take w.length := by simp
    simp only [image, List.take_succ_cons, List.take_zero, applyEvents, List.foldl_cons,
      List.foldl_nil, applyEv, List.getElem?_cons_succ, List.getElem?_cons_zero]
    rw [applyWrite_end' _ _ _ hp, this]
    exact recover_clean_tail' cs hw _ (hw' _)

theorem vote_trunc_apply (cs : List FTxn) (hw : FileWF cs) (w : Bytes) :
    applyEvents (encodeFile cs) [.write (filePos cs) w, .trunc (filePos cs)] = encodeFile cs := by
  have hp := filePos_eq cs hw
  simp only [applyEvents, List.foldl_cons, List.foldl_nil, applyEv]
  rw [applyWrite_end' _ _ _ hp]
  exact applyTrunc_end' _ _ _ hp

/-- every cut inside the events of one commit -/
theorem commit_cut (cs : List FTxn) (t : FTxn) (hw : FileWF cs)
    (ht : TxnWF (filePos cs) (mkTxn (filePos cs) t)) (k nb : Nat) (hk : k < 4) :
    ∃ n, returned ((opEvents cs (.commit t)).take k) ≤ n ∧ n ≤ 1 ∧
      ∃ r, recover (image (encodeFile cs) (opEvents cs (.commit t)) k nb) = .ok r ∧
        r.IsClean (cs ++ [mkTxn (filePos cs) t].take n) := by
  have hp := filePos_eq cs hw
  have ha := abortWF_of_txnWF ht
  have hw1 := fileWF_append cs _ hw ht
  have hfin : encodeFile cs ++ encodeTxnSt t.status (mkTxn (filePos cs) t)
      = encodeFile (cs ++ [mkTxn (filePos cs) t]) := by
    rw [encodeFile_append]; rfl
  have hfull : (voteBytes (filePos cs) t).take (voteBytes (filePos cs) t).length
      = voteBytes (filePos cs) t := by simp
  match k, hk with
  | 0, _ =>
    refine ⟨0, by simp [returned], by omega, ?_⟩
    simp only [image, opEvents, List.take_zero, applyEvents, List.foldl_nil,
      List.getElem?_cons_zero, List.append_nil]
    rw [applyWrite_end' _ _ _ hp]
    exact recover_clean_tail' cs hw _ (torn_vote _ t ha nb)
  | 1, _ =>
    by_cases hnb : nb = 0
    · refine ⟨0, by simp [returned, opEvents], by omega, ?_⟩
      subst hnb
      simp only [image, opEvents, List.take_succ_cons, List.take_zero, applyEvents, List.foldl_cons,
        List.foldl_nil, applyEv, List.getElem?_cons_succ, List.getElem?_cons_zero, List.append_nil]
      rw [applyWrite_end' _ _ _ hp]
      simp only [applyWrite, List.length_nil, if_true]
      rw [← hfull]
      exact recover_clean_tail' cs hw _ (torn_vote _ t ha _)
    · refine ⟨1, by simp [returned, opEvents], by omega, ?_⟩
      have htk : (be 1 t.status).take nb = be 1 t.status :=
        List.take_of_length_le (by simp [be_length]; omega)
      simp only [image, opEvents, List.take_succ_cons, List.take_zero, applyEvents, List.foldl_cons,
        List.foldl_nil, applyEv, List.getElem?_cons_succ, List.getElem?_cons_zero, htk]
      rw [applyWrite_end' _ _ _ hp, voteBytes, applyWrite_status' _ _ _ _ _ hp, hfin]
      exact recover_clean _ hw1
  | 2, _ =>
    refine ⟨1, by simp [returned, opEvents], by omega, ?_⟩
    simp only [image, opEvents, List.take_succ_cons, List.take_zero, applyEvents, List.foldl_cons,
      List.foldl_nil, applyEv, List.getElem?_cons_succ, List.getElem?_cons_zero]
    rw [applyWrite_end' _ _ _ hp, voteBytes, applyWrite_status' _ _ _ _ _ hp, hfin]
    exact recover_clean _ hw1
  | 3, _ =>
    refine ⟨1, by simp [returned, opEvents], by omega, ?_⟩
    simp only [image, opEvents, List.take_succ_cons, List.take_zero, applyEvents, List.foldl_cons,
      List.foldl_nil, applyEv, List.getElem?_cons_succ, List.getElem?_cons_zero]
    rw [applyWrite_end' _ _ _ hp, voteBytes, applyWrite_status' _ _ _ _ _ hp, hfin]
    exact recover_clean _ hw1

/-- every cut inside the events of a finish whose fsync raises (no `ret`) -/
theorem fsyncfail_cut (cs : List FTxn) (t : FTxn) (hw : FileWF cs)
    (ht : TxnWF (filePos cs) (mkTxn (filePos cs) t)) (k nb : Nat) (hk : k < 3) :
    ∃ n, returned ((opEvents cs (.finishFsyncFails t)).take k) ≤ n ∧ n ≤ 1 ∧
      ∃ r, recover (image (encodeFile cs) (opEvents cs (.finishFsyncFails t)) k nb) = .ok r ∧
        r.IsClean (cs ++ [mkTxn (filePos cs) t].take n) := by
  have hp := filePos_eq cs hw
  have ha := abortWF_of_txnWF ht
  have hw1 := fileWF_append cs _ hw ht
  have hfin : encodeFile cs ++ encodeTxnSt t.status (mkTxn (filePos cs) t)
      = encodeFile (cs ++ [mkTxn (filePos cs) t]) := by
    rw [encodeFile_append]; rfl
  have hfull : (voteBytes (filePos cs) t).take (voteBytes (filePos cs) t).length
      = voteBytes (filePos cs) t := by simp
  match k, hk with
  | 0, _ =>
    refine ⟨0, by simp [returned], by omega, ?_⟩
    simp only [image, opEvents, List.take_zero, applyEvents, List.foldl_nil,
      List.getElem?_cons_zero, List.append_nil]
    rw [applyWrite_end' _ _ _ hp]
    exact recover_clean_tail' cs hw _ (torn_vote _ t ha nb)
  | 1, _ =>
    by_cases hnb : nb = 0
    · refine ⟨0, by simp [returned, opEvents], by omega, ?_⟩
      subst hnb
      simp only [image, opEvents, List.take_succ_cons, List.take_zero, applyEvents, List.foldl_cons,
        List.foldl_nil, applyEv, List.getElem?_cons_succ, List.getElem?_cons_zero, List.append_nil]
      rw [applyWrite_end' _ _ _ hp]
      simp only [applyWrite, List.length_nil, if_true]
      rw [← hfull]
      exact recover_clean_tail' cs hw _ (torn_vote _ t ha _)
    · refine ⟨1, by simp [returned, opEvents], by omega, ?_⟩
      have htk : (be 1 t.status).take nb = be 1 t.status :=
        List.take_of_length_le (by simp [be_length]; omega)
      simp only [image, opEvents, List.take_succ_cons, List.take_zero, applyEvents, List.foldl_cons,
        List.foldl_nil, applyEv, List.getElem?_cons_succ, List.getElem?_cons_zero, htk]
      rw [applyWrite_end' _ _ _ hp, voteBytes, applyWrite_status' _ _ _ _ _ hp, hfin]
      exact recover_clean _ hw1
  | 2, _ =>
    refine ⟨1, by simp [returned, opEvents], by omega, ?_⟩
    simp only [image, opEvents, List.take_succ_cons, List.take_zero, applyEvents, List.foldl_cons,
      List.foldl_nil, applyEv, List.getElem?_cons_succ, List.getElem?_cons_zero]
    rw [applyWrite_end' _ _ _ hp, voteBytes, applyWrite_status' _ _ _ _ _ hp, hfin]
    exact recover_clean _ hw1

theorem commit_apply (cs : List FTxn) (t : FTxn) (hw : FileWF cs) :
    applyEvents (encodeFile cs) (opEvents cs (.commit t))
      = encodeFile (cs ++ [mkTxn (filePos cs) t]) := by
  have hp := filePos_eq cs hw
  simp only [opEvents, applyEvents, List.foldl_cons, List.foldl_nil, applyEv]
  rw [applyWrite_end' _ _ _ hp, voteBytes, applyWrite_status' _ _ _ _ _ hp, encodeFile_append]; rfl

theorem fsyncfail_apply (cs : List FTxn) (t : FTxn) (hw : FileWF cs) :
    applyEvents (encodeFile cs) (opEvents cs (.finishFsyncFails t))
      = encodeFile (cs ++ [mkTxn (filePos cs) t]) := by
  have hp := filePos_eq cs hw
  simp only [opEvents, applyEvents, List.foldl_cons, List.foldl_nil, applyEv]
  rw [applyWrite_end' _ _ _ hp, voteBytes, applyWrite_status' _ _ _ _ _ hp, encodeFile_append]; rfl

/-- every cut inside the events of one operation -/
theorem op_cut (cs : List FTxn) (op : Op) (hw : FileWF cs) (ho : OpWF cs op) (k nb : Nat)
    (hk : k < (opEvents cs op).length) :
    ∃ n, returned ((opEvents cs op).take k) ≤ n ∧ n ≤ (opCommits cs op).length ∧
      ∃ r, recover (image (encodeFile cs) (opEvents cs op) k nb) = .ok r ∧
        r.IsClean (cs ++ (opCommits cs op).take n) := by
  cases op with
  | commit t => exact commit_cut cs t hw ho k nb (by simpa [opEvents] using hk)
  | abortAfterVote t =>
    refine ⟨0, ?_, by simp, ?_⟩
    · have hk2 : k < 2 := by simpa [opEvents] using hk
      match k, hk2 with
      | 0, _ => simp [returned]
      | 1, _ => simp [returned, opEvents]
    · simp only [opEvents, opCommits, List.take_nil, List.append_nil]
      exact vote_trunc_cut cs hw _ (torn_vote _ t ho) k nb (by simpa [opEvents] using hk)
  | voteFails t n =>
    refine ⟨0, ?_, by simp, ?_⟩
    · have hk2 : k < 2 := by simpa [opEvents] using hk
      match k, hk2 with
      | 0, _ => simp [returned]
      | 1, _ => simp [returned, opEvents]
    · simp only [opEvents, opCommits, List.take_nil, List.append_nil]
      exact vote_trunc_cut cs hw _ (torn_vote_take _ t ho n) k nb (by simpa [opEvents] using hk)
  | abortBeforeVote => simp [opEvents] at hk
  | finishFsyncFails t => exact fsyncfail_cut cs t hw ho k nb (by simpa [opEvents] using hk)

/-- net effect of one complete operation -/
theorem op_apply (cs : List FTxn) (op : Op) (hw : FileWF cs) (ho : OpWF cs op) :
    applyEvents (encodeFile cs) (opEvents cs op) = encodeFile (cs ++ opCommits cs op) ∧
    FileWF (cs ++ opCommits cs op) ∧
    returned (opEvents cs op) ≤ (opCommits cs op).length := by
  cases op with
  | commit t =>
    exact ⟨commit_apply cs t hw, fileWF_append cs _ hw ho, by simp [returned, opEvents, opCommits]⟩
  | abortAfterVote t =>
    simp only [opCommits, List.append_nil]
    exact ⟨vote_trunc_apply cs hw _, hw, by simp [returned, opEvents]⟩
  | voteFails t n =>
    simp only [opCommits, List.append_nil]
    exact ⟨vote_trunc_apply cs hw _, hw, by simp [returned, opEvents]⟩
  | abortBeforeVote =>
    simp only [opCommits, List.append_nil]
    exact ⟨rfl, hw, by simp [returned, opEvents]⟩
  | finishFsyncFails t =>
    exact ⟨fsyncfail_apply cs t hw, fileWF_append cs _ hw ho, by simp [returned, opEvents, opCommits]⟩

/-! ### all histories, all cuts -/

theorem crash_prefix (ops : List Op) : ∀ (cs : List FTxn) (k : Nat), FileWF cs → OpsWF cs ops →
    ∀ nb, ∃ n, returned ((trace cs ops).take k) ≤ n ∧ n ≤ (newCommits cs ops).length ∧
      ∃ r, recover (image (encodeFile cs) (trace cs ops) k nb) = .ok r ∧
        r.IsClean (cs ++ (newCommits cs ops).take n) := by
  induction ops with
  | nil =>
    intro cs k hw _ nb
    refine ⟨0, by simp [trace, returned], by simp, ?_⟩
    simp only [trace, newCommits, image, List.take_nil, applyEvents, List.foldl_nil,
      List.getElem?_nil, List.append_nil]
    exact recover_clean cs hw
  | cons op ops ih =>
    intro cs k hw ho nb
    obtain ⟨ho1, ho2⟩ := ho
    obtain ⟨happ, hw', hret⟩ := op_apply cs op hw ho1
    simp only [trace, newCommits]
    by_cases hk : k < (opEvents cs op).length
    · obtain ⟨n, h1, h2, r, h3, h4⟩ := op_cut cs op hw ho1 k nb hk
      refine ⟨n, ?_, by simp; omega, r, ?_, ?_⟩
      · rw [returned_append_lt _ _ _ hk]; exact h1
      · rw [image_append_lt _ _ _ _ _ hk]; exact h3
      · rw [List.take_append_of_le_length h2]; exact h4
    · have hk' : (opEvents cs op).length ≤ k := by omega
      obtain ⟨n, h1, h2, r, h3, h4⟩ := ih (cs ++ opCommits cs op) (k - (opEvents cs op).length)
        hw' ho2 nb
      refine ⟨(opCommits cs op).length + n, ?_, by simp; omega, r, ?_, ?_⟩
      · rw [returned_append_ge _ _ _ hk']; omega
      · rw [image_append_ge _ _ _ _ _ hk', happ]; exact h3
      · rw [List.take_length_add_append, ← List.append_assoc]; exact h4

/-- final state of a complete history -/
theorem trace_apply (ops : List Op) : ∀ (cs : List FTxn), FileWF cs → OpsWF cs ops →
    applyEvents (encodeFile cs) (trace cs ops) = encodeFile (cs ++ newCommits cs ops) ∧
    FileWF (cs ++ newCommits cs ops) ∧ returned (trace cs ops) ≤ (newCommits cs ops).length := by
  induction ops with
  | nil => intro cs hw _; simp [trace, newCommits, applyEvents, returned, hw]
  | cons op ops ih =>
    intro cs hw ho
    obtain ⟨happ, hw', hret⟩ := op_apply cs op hw ho.1
    obtain ⟨h1, h2, h3⟩ := ih _ hw' ho.2
    simp only [trace, newCommits]
    refine ⟨?_, by rw [← List.append_assoc]; exact h2, ?_⟩
    · rw [applyEvents, List.foldl_append]
      rw [applyEvents] at happ h1
      rw [happ, h1, List.append_assoc]
    · simp only [returned, List.count_append, List.length_append] at *
      omega


/-! ### recovery is idempotent -/

theorem txnsWF_prefix : ∀ (a b : List FTxn) (pos : Nat), TxnsWF pos (a ++ b) → TxnsWF pos a := by
  intro a
  induction a with
  | nil => intro _ _ _; trivial
  | cons t a ih => intro b pos h; exact ⟨h.1, ih b _ h.2⟩

theorem fileWF_take (cs : List FTxn) (ops : List Op) (hcs : FileWF cs) (hops : OpsWF cs ops)
    (n : Nat) : FileWF (cs ++ (newCommits cs ops).take n) := by
  have h := (trace_apply ops cs hcs hops).2.1
  rw [← List.take_append_drop n (newCommits cs ops), ← List.append_assoc] at h
  exact txnsWF_prefix _ _ 4 h

theorem isClean_ext {r r' : Recovered} {p : List FTxn} (h : r.IsClean p) (h' : r'.IsClean p)
    (hh : r'.how = .eof) (hs : r'.saved = none) : r' = { r with how := .eof, saved := none } := by
  obtain ⟨a1, a2, a3, a4, a5⟩ := h
  obtain ⟨b1, b2, b3, b4, b5⟩ := h'
  cases r; cases r'
  simp_all

/-- opening the recovered file once more finds exactly the same state, with nothing to cut off -/
theorem recover_idempotent_of_clean (b : Bytes) (r : Recovered) (p : List FTxn) (hp : FileWF p)
    (_h : recover b = .ok r) (hc : r.IsClean p) :
    recover r.bytes = .ok { r with how := .eof, saved := none } := by
  obtain ⟨r', h1, h2, h3, h4⟩ := recover_clean_eof p hp
  have h5 : recover r.bytes = .ok r' := by rw [hc.1]; exact h1
  rw [h5, isClean_ext hc h2 h3 h4]

/-! ### fsync before return -/

/-- the event modifies the file below offset `n` -/
def touchesBelow (n : Nat) : Ev → Prop
  | .write off _ => off < n
  | .trunc m => m < n
  | .fsync => False
  | .fsyncFailed => False
  | .ret => False

theorem touchesBelow_mono {n m : Nat} (h : n ≤ m) (e : Ev) (he : ¬ touchesBelow m e) :
    ¬ touchesBelow n e := by
  cases e <;> simp only [touchesBelow] at * <;> omega

theorem filePos_append (cs ds : List FTxn) :
    filePos (cs ++ ds) = filePos cs + (ds.map fun t => t.tlen + 8).sum := by
  simp [filePos]; omega

theorem filePos_le_op (cs : List FTxn) (op : Op) : filePos cs ≤ filePos (cs ++ opCommits cs op) := by
  rw [filePos_append]; omega

/-- no event of a history touches the data committed before it -/
theorem trace_touches (ops : List Op) : ∀ (cs : List FTxn), ∀ e ∈ trace cs ops,
    ¬ touchesBelow (filePos cs) e := by
  induction ops with
  | nil => intro cs e he; simp [trace] at he
  | cons op ops ih =>
    intro cs e he
    simp only [trace, List.mem_append] at he
    rcases he with he | he
    · cases op with
      | commit t =>
        simp only [opEvents, List.mem_cons, List.not_mem_nil, or_false] at he
        rcases he with rfl | rfl | rfl | rfl <;> simp [touchesBelow]
      | abortAfterVote t =>
        simp only [opEvents, List.mem_cons, List.not_mem_nil, or_false] at he
        rcases he with rfl | rfl <;> simp [touchesBelow]
      | voteFails t n =>
        simp only [opEvents, List.mem_cons, List.not_mem_nil, or_false] at he
        rcases he with rfl | rfl <;> simp [touchesBelow]
      | abortBeforeVote => simp [opEvents] at he
      | finishFsyncFails t =>
        simp only [opEvents, List.mem_cons, List.not_mem_nil, or_false] at he
        rcases he with rfl | rfl | rfl <;> simp [touchesBelow]
    · exact touchesBelow_mono (filePos_le_op cs op) e (ih _ e he)

/-- the only `ret` among the events of one operation is the last event of a commit -/
theorem opEvents_ret (cs : List FTxn) (op : Op) (pre post : List Ev)
    (h : opEvents cs op = pre ++ .ret :: post) :
    ∃ t, op = .commit t ∧ post = [] ∧
      pre = [.write (filePos cs) (voteBytes (filePos cs) t),
             .write (filePos cs + 16) (be 1 t.status), .fsync] := by
  cases op with
  | commit t =>
    refine ⟨t, rfl, ?_⟩
    simp only [opEvents] at h
    rcases pre with _ | ⟨a, _ | ⟨b, _ | ⟨c, _ | ⟨d, pre⟩⟩⟩⟩ <;> simp at h
    · obtain ⟨rfl, rfl, rfl, rfl⟩ := h; simp
  | abortAfterVote t =>
    simp only [opEvents] at h
    rcases pre with _ | ⟨a, _ | ⟨b, _ | ⟨c, pre⟩⟩⟩ <;> simp at h
  | voteFails t n =>
    simp only [opEvents] at h
    rcases pre with _ | ⟨a, _ | ⟨b, _ | ⟨c, pre⟩⟩⟩ <;> simp at h
  | abortBeforeVote => simp [opEvents] at h
  | finishFsyncFails t =>
    simp only [opEvents] at h
    rcases pre with _ | ⟨a, _ | ⟨b, _ | ⟨c, _ | ⟨d, pre⟩⟩⟩⟩ <;> simp at h

theorem fsync_before_return (ops : List Op) : ∀ (cs : List FTxn) (pre post : List Ev),
    OpsWF cs ops → trace cs ops = pre ++ .ret :: post →
    ∃ pre' p w s, pre = pre' ++ [.write p w, .write (p + 16) s, .fsync] ∧ 16 < w.length ∧
      s.length = 1 ∧ ∀ e ∈ post, ¬ touchesBelow (p + w.length) e := by
  induction ops with
  | nil => intro cs pre post _ h; simp [trace] at h
  | cons op ops ih =>
    intro cs pre post ho h
    simp only [trace] at h
    rcases List.append_eq_append_iff.1 h with ⟨a', h1, h2⟩ | ⟨c', h1, h2⟩
    · obtain ⟨pre', p, w, s, e1, e2, e3, e4⟩ := ih _ a' post ho.2 h2
      exact ⟨opEvents cs op ++ pre', p, w, s, by rw [h1, e1, List.append_assoc], e2, e3, e4⟩
    · cases c' with
      | nil =>
        simp only [List.nil_append] at h2
        obtain ⟨pre', p, w, s, e1, _⟩ := ih _ [] post ho.2 h2.symm
        simp at e1
      | cons x c'' =>
        simp only [List.cons_append, List.cons.injEq] at h2
        obtain ⟨rfl, hpost⟩ := h2
        obtain ⟨t, rfl, hc, hpre⟩ := opEvents_ret cs op pre c'' h1
        subst hc
        have hwf : TxnWF (filePos cs) (mkTxn (filePos cs) t) := ho.1
        have hlen : (voteBytes (filePos cs) t).length = t.tlen + 8 := by
          rw [voteBytes, encodeTxnSt_length _ _ (mkTxn_body _ t (abortWF_of_txnWF hwf).1), mkTxn_tlen]
        refine ⟨[], filePos cs, voteBytes (filePos cs) t, be 1 t.status, by simpa using hpre, ?_,
          by simp [be_length], ?_⟩
        · rw [hlen]; simp [FTxn.tlen, FTxn.hdrLen]; omega
        · intro e he
          rw [hpost] at he
          simp only [List.nil_append] at he
          have := trace_touches ops _ e he
          rw [filePos_append] at this
          simpa [opCommits, hlen] using this

end Proofs.Disk
