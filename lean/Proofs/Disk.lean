/-
  Helper lemmas for C01: recovery of a cleanly written file followed by a torn tail, raw writes on
  images, and the induction over histories and cuts.  Core Lean only.
-/
import ZodbModel.Disk
import Proofs.Format
namespace Proofs.Disk
open ZodbModel ZodbModel.Format ZodbModel.Disk Proofs.Format

/-! ### `mkTxn` keeps sizes -/

theorem recsLen_mk (pos : Nat) (rs : List FRec) :
    recsLen (rs.map fun r => { r with tloc := pos }) = recsLen rs := by
  induction rs with
  | nil => rfl
  | cons r rs ih =>
    simp only [recsLen, List.map_cons, List.sum_cons] at *
    rw [ih]; rfl

@[simp] theorem mkTxn_tlen (pos : Nat) (t : FTxn) : (mkTxn pos t).tlen = t.tlen := by
  simp [mkTxn, FTxn.tlen, FTxn.hdrLen, recsLen_mk]

@[simp] theorem mkTxn_status (pos : Nat) (t : FTxn) : (mkTxn pos t).status = t.status := rfl

theorem mkTxn_body (pos : Nat) (t : FTxn) (h : ∀ r ∈ t.recs, BodyWF r.body) :
    ∀ r ∈ (mkTxn pos t).recs, BodyWF r.body := by
  intro r hr
  simp only [mkTxn, List.mem_map] at hr
  obtain ⟨r', hr', rfl⟩ := hr
  exact h r' hr'

/-! ### layout: `_pos` is the length of the file -/

theorem encodeTxns_length : ∀ (cs : List FTxn) (pos : Nat), TxnsWF pos cs →
    (encodeTxns cs).length = (cs.map fun t => t.tlen + 8).sum := by
  intro cs
  induction cs with
  | nil => intro _ _; rfl
  | cons t ts ih =>
    intro pos h
    rw [encodeTxns_length_cons pos t ts h.1, ih _ h.2]
    simp

theorem filePos_eq (cs : List FTxn) (h : FileWF cs) : filePos cs = (encodeFile cs).length := by
  simp [filePos, encodeFile, magic, encodeTxns_length cs 4 h]; omega

theorem txnsWF_append : ∀ (cs : List FTxn) (pos : Nat) (t : FTxn), TxnsWF pos cs →
    TxnWF (pos + (cs.map fun t => t.tlen + 8).sum) t → TxnsWF pos (cs ++ [t]) := by
  intro cs
  induction cs with
  | nil => intro pos t _ h; simpa [TxnsWF] using h
  | cons c cs ih =>
    intro pos t h ht
    refine ⟨h.1, ih _ t h.2 ?_⟩
    simp only [List.map_cons, List.sum_cons] at ht
    rw [Nat.add_assoc]; exact ht

theorem fileWF_append (cs : List FTxn) (t : FTxn) (h : FileWF cs) (ht : TxnWF (filePos cs) t) :
    FileWF (cs ++ [t]) :=
  txnsWF_append cs 4 t h ht

theorem encodeFile_append (cs : List FTxn) (t : FTxn) :
    encodeFile (cs ++ [t]) = encodeFile cs ++ encodeTxn t := by
  simp [encodeFile, encodeTxns]

/-! ### torn tails -/

/-- what can follow the committed data on disk while a transaction is in flight: a byte-prefix of
    the vote write (any status byte), or all of it with the status byte still 'c' -/
inductive Torn : Bytes → Prop where
  | part (st : Nat) (t : FTxn) (n : Nat) (hb : ∀ r ∈ t.recs, BodyWF r.body) (htl : t.tlen < 2 ^ 64)
      (hn : n < t.tlen + 8) : Torn ((encodeTxnSt st t).take n)
  | checkpoint (t : FTxn) (hb : ∀ r ∈ t.recs, BodyWF r.body) : Torn (encodeTxnSt stCheckpoint t)

theorem Torn.nil : Torn [] := by
  have := Torn.part 0 ⟨0, 0, [], [], [], []⟩ 0 (by simp) (by simp [FTxn.tlen, FTxn.hdrLen, recsLen])
    (by omega)
  simpa using this

/-- one more scan step on a torn tail: nothing is accepted, the scan ends at `pos` -/
theorem scan_torn (tail : Bytes) (ht : Torn tail) (f pos : Nat) (st : ScanState) :
    ∃ how, scan (f + 1) tail pos st = .ok ⟨pos, st.index, st.ltid, st.txns, how⟩ ∧
      (how = .eof → tail = []) ∧ how ≠ .stop := by
  cases ht with
  | part s t n hb htl hn =>
    simp only [scan, parseTxn_torn s t pos n hb htl hn]
    by_cases h0 : n = 0
    · subst h0; exact ⟨.eof, by simp, by simp, by simp⟩
    · by_cases h23 : 23 ≤ n
      · exact ⟨.truncSave, by simp [h0, h23], by simp, by simp⟩
      · exact ⟨.truncShort, by simp [h0, h23], by simp, by simp⟩
  | checkpoint t hb =>
    have := parseTxn_checkpoint t pos [] hb
    rw [List.append_nil] at this
    exact ⟨.truncSave, by simp [scan, this], by simp, by simp⟩

/-- THE recovery lemma: a cleanly written file followed by a torn tail recovers to exactly the
    cleanly written file — bytes, position, index, last tid, transaction list. -/
theorem recover_clean_tail (cs : List FTxn) (hw : FileWF cs) (tail : Bytes) (ht : Torn tail) :
    ∃ r, recover (encodeFile cs ++ tail) = .ok r ∧ r.IsClean cs := by
  have hlen4 : (encodeFile cs ++ tail).length = 4 + (encodeTxns cs).length + tail.length := by
    simp [encodeFile, magic]; omega
  have hge := encodeTxns_length_ge cs 4 hw
  have htake : (encodeFile cs ++ tail).take 4 = magic := by
    simp only [encodeFile, List.append_assoc]; exact take_append_eq rfl
  have hdrop : (encodeFile cs ++ tail).drop 4 = encodeTxns cs ++ tail := by
    simp only [encodeFile, List.append_assoc]; exact drop_append_eq rfl
  obtain ⟨f, hf⟩ : ∃ f, (encodeFile cs ++ tail).length + 1 = cs.length + (f + 1) :=
    ⟨(encodeFile cs ++ tail).length - cs.length, by omega⟩
  obtain ⟨how, hscan, heof, hstop⟩ := scan_torn tail ht f (4 + (encodeTxns cs).length)
    ⟨indexFrom [] 4 cs, lastTid 0 cs, [] ++ cs⟩
  have hri : readIndex (encodeFile cs ++ tail) 4 [] 0 =
      .ok ⟨4 + (encodeTxns cs).length, indexFrom [] 4 cs, lastTid 0 cs, [] ++ cs, how⟩ := by
    unfold readIndex
    rw [if_neg (by omega), if_neg (by omega), if_neg (by simp [htake]), hdrop, hf,
      scan_encode cs 4 _ _ _ hw]
    exact hscan
  have hpos : (encodeFile cs).length = 4 + (encodeTxns cs).length := by
    simp [encodeFile, magic]; omega
  refine ⟨_, by simp only [recover, hri]; rfl, ?_, ?_, ?_, ?_, ?_⟩
  · simp only
    rw [if_neg (by omega)]
    cases how with
    | eof => simp [heof rfl]
    | truncShort => simp only; rw [← hpos]; exact take_append_eq rfl
    | truncSave => simp only; rw [← hpos]; exact take_append_eq rfl
    | stop => exact absurd rfl hstop
  · simp [hpos]
  · rfl
  · rfl
  · simp

theorem recover_clean (cs : List FTxn) (hw : FileWF cs) :
    ∃ r, recover (encodeFile cs) = .ok r ∧ r.IsClean cs := by
  have := recover_clean_tail cs hw [] Torn.nil
  simpa using this

/-! ### raw writes on images -/

theorem applyWrite_end (img d : Bytes) : applyWrite img img.length d = img ++ d := by
  unfold applyWrite
  split
  · rename_i h; simp [List.eq_nil_of_length_eq_zero h]
  · simp [zeros]

/-- overwriting a segment in the middle of an image by one of the same length -/
theorem applyWrite_mid (a x y c : Bytes) (hx : x.length = y.length) (hy : y.length ≠ 0) :
    applyWrite (a ++ x ++ c) a.length y = a ++ y ++ c := by
  unfold applyWrite
  rw [if_neg hy]
  have h1 : (a ++ x ++ c).take a.length = a := by
    rw [List.append_assoc]; exact take_append_eq rfl
  have h2 : (a ++ x ++ c).drop (a.length + y.length) = c :=
    drop_append_eq (by simp [hx])
  have h3 : a.length - (a ++ x ++ c).length = 0 := by simp
  rw [h1, h2, h3]
  simp [zeros]

/-- flipping the status byte at `pos + 16` turns the voted transaction into the finished one -/
theorem applyWrite_status (base : Bytes) (st st' : Nat) (t : FTxn) :
    applyWrite (base ++ encodeTxnSt st t) (base.length + 16) (be 1 st') = base ++ encodeTxnSt st' t := by
  have e : ∀ s, base ++ encodeTxnSt s t = (base ++ be 8 t.tid ++ be 8 t.tlen) ++ be 1 s ++
      (be 2 t.user.length ++ be 2 t.desc.length ++ be 2 t.ext.length ++ t.user ++ t.desc ++ t.ext
        ++ encodeRecs t.recs ++ be 8 t.tlen) := by
    intro s; simp [encodeTxnSt, encodeHdr]
  have h16 : base.length + 16 = (base ++ be 8 t.tid ++ be 8 t.tlen).length := by
    simp [be_length]
  rw [e st, e st', h16]
  exact applyWrite_mid _ _ _ _ (by simp [be_length]) (by simp [be_length])

theorem applyTrunc_end (base x : Bytes) : applyEv (base ++ x) (.trunc base.length) = base := by
  simp [applyEv, zeros]

/-! ### cuts and concatenated traces -/

theorem image_append_lt (init : Bytes) (es es' : List Ev) (k nb : Nat) (h : k < es.length) :
    image init (es ++ es') k nb = image init es k nb := by
  unfold image
  rw [List.take_append_of_le_length (by omega), List.getElem?_append_left h]

theorem image_append_ge (init : Bytes) (es es' : List Ev) (k nb : Nat) (h : es.length ≤ k) :
    image init (es ++ es') k nb = image (applyEvents init es) es' (k - es.length) nb := by
  unfold image
  rw [List.getElem?_append_right h, List.take_append]
  simp [applyEvents, List.take_of_length_le h, List.foldl_append]

theorem returned_append_ge (es es' : List Ev) (k : Nat) (h : es.length ≤ k) :
    returned ((es ++ es').take k) = returned es + returned (es'.take (k - es.length)) := by
  unfold returned
  rw [List.take_append, List.take_of_length_le h, List.count_append]

theorem returned_append_lt (es es' : List Ev) (k : Nat) (h : k < es.length) :
    returned ((es ++ es').take k) = returned (es.take k) := by
  rw [List.take_append_of_le_length (by omega)]

end Proofs.Disk
