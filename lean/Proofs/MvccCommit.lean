/-
  Invariant preservation for the committer's actions before the finish section and for aborts:
  begin, store, vote, finishEnter, extAbort, abort.
-/
import Proofs.MvccPoll
namespace Proofs.Mvcc
open ZodbModel.Mvcc

/-- changing the in-flight slot between states none of which has delivered anything -/
theorem instInv_infl_change {log infl infl' next next' i x} (v : InstInv log infl next i x)
    (hn : x.ltid < next')
    (hnf : ∀ f, infl = some f → f.phase ≠ .finishing)
    (hnew : ∀ f', infl' = some f' → f'.delivered = [] ∧ x.ltid < f'.tid) :
    InstInv log infl' next' i x :=
  { v with
    ltid_lt := hn
    c2 := fun f' hf' => by
      obtain ⟨h1, h2⟩ := hnew f' hf'
      rw [h1]; exact ⟨fun h => (by cases h), fun _ => h2⟩
    c3 := by
      rcases v.c3 with h | ⟨f, hf1, hf2, _⟩
      · exact Or.inl h
      · exact absurd hf2 (hnf f hf1)
    a2 := fun f' hf' hd => by rw [(hnew f' hf').1] at hd; cases hd
    b3 := fun f' hf' hd => by rw [(hnew f' hf').1] at hd; cases hd }

theorem histInv_infl_change {log infl infl' next next' y} (v : HistInv log infl next y)
    (hn : y.before ≤ next') (hnew : ∀ f', infl' = some f' → y.before ≤ f'.tid) :
    HistInv log infl' next' y :=
  { v with h2 := ⟨hn, hnew⟩ }

theorem inv_begin {s s' : Sys} {c : Option Nat} {t : Nat} (hinv : Inv s)
    (h : step s (.begin c t) = .ok s') : Inv s' := by
  obtain ⟨hnone, hnt, rfl⟩ := begin_ok h
  have g := hinv.glob
  refine ⟨⟨g.sorted, ?_, ?_, ?_⟩, ?_, ?_⟩
  · intro T hT; have := g.loglt T hT; show T.tid < t + 1; omega
  · show 0 < t + 1; omega
  · intro f hf
    simp only [Option.some.injEq] at hf; subst hf
    refine ⟨?_, ?_, ?_, fun _ => rfl, fun j hj => by cases hj⟩
    · have := g.next_pos; show 0 < t; omega
    · show t < t + 1; omega
    · intro T hT; have := g.loglt T hT; show T.tid < t; omega
  · intro i hi
    apply instInv_infl_change (hinv.inst i hi)
      (by have := (hinv.inst i hi).ltid_lt; show (s.insts i).ltid < t + 1; omega)
    · intro f hf; rw [hnone] at hf; cases hf
    · intro f' hf'
      simp only [Option.some.injEq] at hf'; subst hf'
      have := (hinv.inst i hi).ltid_lt
      exact ⟨rfl, by show (s.insts i).ltid < t; omega⟩
  · intro hh hlt
    have hb := (hinv.hist hh hlt).h2.1
    apply histInv_infl_change (hinv.hist hh hlt) (by show (s.hists hh).before ≤ t + 1; omega)
    intro f' hf'
    simp only [Option.some.injEq] at hf'; subst hf'
    show (s.hists hh).before ≤ t; omega

/-- store / vote / finishEnter: the in-flight record keeps tid, committer and (empty) delivered -/
theorem inv_infl_update {s : Sys} {f f' : Infl} (hinv : Inv s) (hf : s.infl = some f)
    (hp : f.phase ≠ .finishing) (htid : f'.tid = f.tid) (hdel : f'.delivered = f.delivered) :
    Inv { s with infl := some f' } := by
  have g := hinv.glob
  obtain ⟨g0, g1, g2, g3, g4⟩ := g.infl_ok f hf
  have hd : f'.delivered = [] := by rw [hdel]; exact g3 hp
  refine ⟨⟨g.sorted, g.loglt, g.next_pos, ?_⟩, ?_, ?_⟩
  · intro f'' hf''
    simp only [Option.some.injEq] at hf''; subst hf''
    rw [htid, hd]
    exact ⟨g0, g1, g2, fun _ => rfl, fun j hj => by cases hj⟩
  · intro i hi
    apply instInv_infl_change (hinv.inst i hi) (hinv.inst i hi).ltid_lt
    · intro f1 hf1; rw [hf] at hf1; simp only [Option.some.injEq] at hf1; subst hf1; exact hp
    · intro f'' hf''
      simp only [Option.some.injEq] at hf''; subst hf''
      refine ⟨hd, ?_⟩
      have := ((hinv.inst i hi).c2 f hf).2 (by rw [g3 hp]; simp)
      rw [htid]; exact this
  · intro hh hlt
    apply histInv_infl_change (hinv.hist hh hlt) (hinv.hist hh hlt).h2.1
    intro f'' hf''
    simp only [Option.some.injEq] at hf''; subst hf''
    rw [htid]; exact (hinv.hist hh hlt).h2.2 f hf

theorem inv_store {s s' : Sys} {ws : List (Nat × Data)} (hinv : Inv s)
    (h : step s (.store ws) = .ok s') : Inv s' := by
  obtain ⟨f, ws', hf, hp, rfl⟩ := store_ok h
  exact inv_infl_update hinv hf (by rw [hp]; decide) rfl rfl

theorem inv_vote {s s' : Sys} (hinv : Inv s) (h : step s .vote = .ok s') : Inv s' := by
  obtain ⟨f, hf, hp, rfl⟩ := vote_ok h
  exact inv_infl_update hinv hf (by rw [hp]; decide) rfl rfl

theorem inv_finishEnter {s s' : Sys} (hinv : Inv s) (h : step s .finishEnter = .ok s') : Inv s' := by
  obtain ⟨f, hf, hp, rfl⟩ := finishEnter_ok h
  exact inv_infl_update hinv hf (by rw [hp]; decide) rfl rfl

/-- dropping the commit lock before the finish section; the tid may be issued again -/
theorem inv_infl_clear {s : Sys} {f : Infl} (hinv : Inv s) (hf : s.infl = some f)
    (hnf : f.phase ≠ .finishing) : Inv { s with infl := none, next := f.tid } := by
  have g := hinv.glob
  obtain ⟨g0, g1, g2, g3, g4⟩ := g.infl_ok f hf
  have hnf' : ∀ f', s.infl = some f' → f'.phase ≠ .finishing := by
    intro f' hf'; rw [hf] at hf'; simp only [Option.some.injEq] at hf'; subst hf'; exact hnf
  refine ⟨⟨g.sorted, g2, g0, fun f' hf' => by cases hf'⟩, ?_, ?_⟩
  · intro i hi
    have hl := ((hinv.inst i hi).c2 f hf).2 (by rw [g3 hnf]; simp)
    exact instInv_infl_change (hinv.inst i hi) hl hnf' (fun f' hf' => by cases hf')
  · intro hh hlt
    exact histInv_infl_change (hinv.hist hh hlt) ((hinv.hist hh hlt).h2.2 f hf)
      (fun f' hf' => by cases hf')

theorem inv_extAbort {s s' : Sys} (hinv : Inv s) (h : step s .extAbort = .ok s') : Inv s' := by
  obtain ⟨f, hf, hp, rfl⟩ := extAbort_ok h
  exact inv_infl_clear hinv hf hp

/-- forgetting own changes: `pending := []`, the touched objects are ghostified -/
theorem instInv_dropCache {log infl next i} {x : Inst} (v : InstInv log infl next i x)
    (p : List (Nat × Data)) (l : List Nat) :
    InstInv log infl next i { x with pending := p, cache := dropOids x.cache l } :=
  { v with
    b0 := fun oid ser d hc => v.b0 oid ser d (dropOids_some hc).1
    b1 := fun oid ser d hc => v.b1 oid ser d (dropOids_some hc).1
    b2 := fun oid ser d hc => v.b2 oid ser d (dropOids_some hc).1
    b3 := fun f hf hd hlt oid hoid => dropOids_none_of_none (v.b3 f hf hd hlt oid hoid)
    b4 := fun oid ser d hc => v.b4 oid ser d (dropOids_some hc).1 }

theorem dropInfl_setInst {s : Sys} {f : Infl} (hf : s.infl = some f) (i : Nat) (x : Inst) :
    dropInfl (setInst s i x) = setInst { s with infl := none, next := f.tid } i x := by
  simp only [dropInfl, setInst, hf]

theorem inv_abort {s s' : Sys} {i : Nat} (hinv : Inv s) (h : step s (.abort i) = .ok s') : Inv s' := by
  obtain ⟨hi, hnfb, rfl⟩ := abort_ok h
  dsimp only
  split
  · next hc =>
    cases hf : s.infl with
    | none => simp [committing, hf] at hc
    | some f =>
      have hnf : f.phase ≠ .finishing := by
        intro hp
        simp only [committing, hf] at hc
        simp [inFinishBy, finishing, hf, hp] at hnfb
        simp [hnfb] at hc
      have h1 := inv_infl_clear hinv hf hnf
      rw [dropInfl_setInst hf]
      exact inv_setInst (s := { s with infl := none, next := f.tid }) h1
        (instInv_dropCache (h1.inst i hi) [] _)
  · exact inv_setInst hinv (instInv_dropCache (hinv.inst i hi) [] _)

end Proofs.Mvcc
