/-
  C14 helper lemmas, part 6: distinct stored objects have distinct oids (given what C20 provides:
  `new_oid` never repeats itself nor an oid in use), so the records of a commit can be put into a
  database under their oids without one overwriting another.
  Core Lean only.
-/
import Proofs.RefsRound
namespace Proofs.Refs
open ZodbModel ZodbModel.Refs ZodbModel.Refs.Tree

/-- what the storage's `new_oid` guarantees (C20) and what a sane connection holds: the answers of
    `new_oid` are pairwise different, different from the oid of every object of this connection,
    and the objects of this connection have pairwise different oids -/
structure FreshOK (env : Env) (objs : List Obj) : Prop where
  inj : ∀ i j, env.fresh i = env.fresh j → i = j
  unused : ∀ (k : Nat) (h : H) (o : Obj) (oid : Oid), objs[h]? = some o → o.jar = env.own → o.oid = some oid → env.fresh k ≠ oid
  distinct : ∀ (h1 h2 : H) (o1 o2 : Obj) (oid : Oid), objs[h1]? = some o1 → objs[h2]? = some o2 → o1.jar = env.own →
    o2.jar = env.own → o1.oid = some oid → o2.oid = some oid → h1 = h2

/-- the oids assigned so far are the first `next` answers of `new_oid`, each used once -/
def WInv (env : Env) (s : WState) : Prop :=
  (s.assigned.map (·.2)).Nodup ∧ ∀ q ∈ s.assigned, ∃ k, k < s.next ∧ q.2 = env.fresh k

theorem winv_assign {env : Env} (hinj : ∀ i j, env.fresh i = env.fresh j → i = j) {s : WState}
    (hw : WInv env s) (h : H) : WInv env (assign env s h).2 := by
  refine ⟨?_, ?_⟩
  · simp only [assign, List.map_cons, List.nodup_cons]
    refine ⟨fun hm => ?_, hw.1⟩
    obtain ⟨q, hq, he⟩ := List.mem_map.1 hm
    obtain ⟨k, hk, hqk⟩ := hw.2 q hq
    rw [hqk] at he
    have := hinj _ _ he
    omega
  · intro q hq
    simp only [assign, List.mem_cons] at hq
    rcases hq with rfl | hq
    · exact ⟨s.next, by simp [assign], rfl⟩
    · obtain ⟨k, hk, hqk⟩ := hw.2 q hq
      exact ⟨k, by simp only [assign]; omega, hqk⟩

theorem winv_persistentId {env : Env} {objs : List Obj}
    (hinj : ∀ i j, env.fresh i = env.fresh j → i = j) {s s' : WState} {l : PLeaf} {tk : Tok}
    (hw : WInv env s) (h : persistentId env objs s l = .ok (tk, s')) : WInv env s' := by
  obtain ⟨o, _, hcase⟩ := persistentId_push h
  rcases hcase with ⟨_, rfl⟩ | ⟨_, rfl⟩
  · exact hw
  · exact winv_assign hinj hw _

theorem winv_serialize {env : Env} {objs : List Obj}
    (hinj : ∀ i j, env.fresh i = env.fresh j → i = j) {s s' : WState} {x : H} {r : Record}
    (hw : WInv env s) (hs : serialize env objs s x = .ok (r, s')) : WInv env s' := by
  obtain ⟨o, _, _, _, hm⟩ := serialize_spec hs
  exact (mapS_rel (f := persistentId env objs) (WInv env) (fun _ _ => True) (fun _ _ _ => True)
    (fun _ => trivial) (fun _ _ _ _ _ => trivial) (fun _ _ _ _ _ _ => trivial)
    (fun s l m s' hi hf => ⟨winv_persistentId hinj hi hf, trivial, trivial⟩) hw hm).1

theorem winv_storeLoop {env : Env} {objs : List Obj}
    (hinj : ∀ i j, env.fresh i = env.fresh j → i = j) :
    ∀ (fuel : Nat) (s s' : WState) (out : List (H × Record)), WInv env s →
      storeLoop env objs fuel s = .ok (out, s') → WInv env s'
  | 0, s, s', out, hw, h => by
    obtain ⟨_, _, rfl⟩ := storeLoop_zero_ok h; exact hw
  | fuel + 1, s, s', out, hw, h => by
    rcases storeLoop_succ_ok h with ⟨_, _, rfl⟩ | ⟨x, rest, r, s1, out', _, hs, hr, _⟩
    · exact hw
    · have hw0 : WInv env { s with stack := rest } := hw
      exact winv_storeLoop hinj fuel s1 s' out' (winv_serialize hinj hw0 hs) hr

theorem winv_commitLoop {env : Env} {objs : List Obj} {p : Pending} {fuel : Nat}
    (hinj : ∀ i j, env.fresh i = env.fresh j → i = j) :
    ∀ (reg : List H) (s s' : WState) (done : List H) (out : List (H × Record)), WInv env s →
      commitLoop env objs p fuel reg s done = .ok (out, s') → WInv env s'
  | [], s, s', done, out, hw, h => by
    simp only [commitLoop, Except.ok.injEq, Prod.mk.injEq] at h
    rw [← h.2]; exact hw
  | x :: rest, s, s', done, out, hw, h => by
    obtain ⟨o, _, _, _, hcase⟩ := commitLoop_cons_ok h
    rcases hcase with ⟨_, out1, s1, out2, hs, hr, _⟩ | ⟨_, hr⟩
    · have hw0 : WInv env { s with stack := [x] } := hw
      exact winv_commitLoop hinj rest s1 s' _ out2 (winv_storeLoop hinj fuel _ s1 out1 hw0 hs) hr
    · exact winv_commitLoop hinj rest s s' done out hw hr

/-! ### every stored object is owned by the writer's connection afterwards -/

/-- everything on the stack is owned by the writer's connection -/
def JInv (env : Env) (objs : List Obj) (s : WState) : Prop :=
  ∀ h ∈ s.stack, ∃ o, objs[h]? = some o ∧ curOid o s h ≠ none ∧ curJar env o s h = env.own

theorem curJar_of_mem_AH {env : Env} {o : Obj} {s : WState} {h : H} (hm : h ∈ AH s) :
    curJar env o s h = env.own := by
  unfold curJar
  cases hl : lookup h s.assigned with
  | some x => rfl
  | none => exact absurd hm ((lookup_none_iff h _).1 hl)

theorem own_mono {env : Env} {objs : List Obj} {s s' : WState} (he : Ext objs s s') {h : H} {o : Obj}
    (ho : objs[h]? = some o) (hc : curOid o s h ≠ none) (hj : curJar env o s h = env.own) :
    curOid o s' h ≠ none ∧ curJar env o s' h = env.own := by
  refine ⟨curOid_ne_none_mono he ho hc, ?_⟩
  cases hc' : curOid o s h with
  | none => exact absurd hc' hc
  | some oid => rw [curJar_mono he ho hc']; exact hj

theorem storeLoop_own {env : Env} {objs : List Obj} :
    ∀ (fuel : Nat) (s s' : WState) (out : List (H × Record)), JInv env objs s →
      storeLoop env objs fuel s = .ok (out, s') →
      ∀ hr ∈ out, ∃ o, objs[hr.1]? = some o ∧ curOid o s' hr.1 ≠ none ∧ curJar env o s' hr.1 = env.own
  | 0, s, s', out, _, h => by
    obtain ⟨_, rfl, rfl⟩ := storeLoop_zero_ok h
    simp
  | fuel + 1, s, s', out, hi, h => by
    rcases storeLoop_succ_ok h with ⟨_, rfl, rfl⟩ | ⟨x, rest, r, s1, out', hst, hs, hr, rfl⟩
    · simp
    · obtain ⟨o, ho, he, _, new, h1, h2, _, h4, _⟩ := serialize_disc hs
      have he' : Ext objs s s1 := he
      have h1' : s1.stack = new.reverse ++ rest := h1
      have hi1 : JInv env objs s1 := by
        intro n hn
        rw [h1'] at hn
        rcases List.mem_append.1 hn with hn | hn
        · obtain ⟨_, ⟨o', ho', _⟩, _⟩ := h4 n (List.mem_reverse.1 hn)
          have hm : n ∈ AH s1 := by rw [h2]; exact List.mem_append_left _ hn
          exact ⟨o', ho', curOid_of_mem_AH hm, curJar_of_mem_AH hm⟩
        · obtain ⟨o', ho', hc', hj'⟩ := hi n (by rw [hst]; exact List.mem_cons_of_mem _ hn)
          exact ⟨o', ho', own_mono he' ho' hc' hj'⟩
      have ih := storeLoop_own fuel s1 s' out' hi1 hr
      obtain ⟨he2, _⟩ := storeLoop_records fuel s1 s' out' hr
      intro hr' hmem
      rcases List.mem_cons.1 hmem with rfl | hmem
      · obtain ⟨o', ho', hc', hj'⟩ := hi x (by rw [hst]; simp)
        exact ⟨o', ho', own_mono (ext_trans he' he2) ho' hc' hj'⟩
      · exact ih hr' hmem

theorem commitLoop_own {env : Env} {objs : List Obj} {p : Pending} {fuel : Nat} :
    ∀ (reg : List H) (s s' : WState) (done : List H) (out : List (H × Record)),
      commitLoop env objs p fuel reg s done = .ok (out, s') →
      ∀ hr ∈ out, ∃ o, objs[hr.1]? = some o ∧ curOid o s' hr.1 ≠ none ∧ curJar env o s' hr.1 = env.own
  | [], s, s', done, out, h => by
    simp only [commitLoop, Except.ok.injEq, Prod.mk.injEq] at h
    obtain ⟨rfl, rfl⟩ := h
    simp
  | x :: rest, s, s', done, out, h => by
    obtain ⟨o, ho, hcur, hjar, hcase⟩ := commitLoop_cons_ok h
    rcases hcase with ⟨_, out1, s1, out2, hs, hr, rfl⟩ | ⟨_, hr⟩
    · have hi : JInv env objs { s with stack := [x] } := by
        intro n hn
        have : n = x := by simpa using hn
        subst this
        exact ⟨o, ho, hcur, hjar⟩
      have r1 := storeLoop_own fuel _ s1 out1 hi hs
      have r2 := commitLoop_own rest s1 s' _ out2 hr
      obtain ⟨e2, _⟩ := commitLoop_records rest s1 s' _ out2 hr
      intro hr' hmem
      rcases List.mem_append.1 hmem with hmem | hmem
      · obtain ⟨o', ho', hc', hj'⟩ := r1 hr' hmem
        exact ⟨o', ho', own_mono e2 ho' hc' hj'⟩
      · exact r2 hr' hmem
    · exact commitLoop_own rest s s' done out hr

/-! ### distinct stored objects, distinct oids -/

theorem eq_of_nodup_map_snd {l : List (H × Oid)} (hn : (l.map (·.2)).Nodup) {a b : H × Oid}
    (ha : a ∈ l) (hb : b ∈ l) (he : a.2 = b.2) : a = b := by
  induction l with
  | nil => simp at ha
  | cons x t ih =>
    simp only [List.map_cons, List.nodup_cons] at hn
    rcases List.mem_cons.1 ha with rfl | ha' <;> rcases List.mem_cons.1 hb with rfl | hb'
    · rfl
    · exact (hn.1 (List.mem_map.2 ⟨b, hb', he.symm⟩)).elim
    · exact (hn.1 (List.mem_map.2 ⟨a, ha', he⟩)).elim
    · exact ih hn.2 ha' hb'

theorem commit_oids_distinct {env : Env} {objs : List Obj} {p : Pending} {out : List (H × Record)}
    {sf : WState} (hf : FreshOK env objs) (hc : commit env objs p = .ok (out, sf)) :
    ∀ hr1 ∈ out, ∀ hr2 ∈ out, ∀ oid, finalOid objs sf hr1.1 = some oid →
      finalOid objs sf hr2.1 = some oid → hr1.1 = hr2.1 := by
  have hw : WInv env sf := winv_commitLoop hf.inj p.registered WState.init sf [] out
    ⟨by simp [WState.init], by simp [WState.init]⟩ hc
  intro hr1 hm1 hr2 hm2 oid e1 e2
  obtain ⟨o1, ho1, _, hj1⟩ := commitLoop_own p.registered WState.init sf [] out hc hr1 hm1
  obtain ⟨o2, ho2, _, hj2⟩ := commitLoop_own p.registered WState.init sf [] out hc hr2 hm2
  simp only [finalOid, ho1] at e1
  simp only [finalOid, ho2] at e2
  unfold curOid at e1 e2
  unfold curJar at hj1 hj2
  cases hl1 : lookup hr1.1 sf.assigned with
  | some x1 =>
    rw [hl1] at e1; cases e1
    cases hl2 : lookup hr2.1 sf.assigned with
    | some x2 =>
      rw [hl2] at e2; cases e2
      have := eq_of_nodup_map_snd hw.1 (lookup_mem hl1) (lookup_mem hl2) rfl
      exact (Prod.mk.inj this).1
    | none =>
      rw [hl2] at e2 hj2
      obtain ⟨k, _, hk⟩ := hw.2 _ (lookup_mem hl1)
      exact absurd hk.symm (hf.unused k hr2.1 o2 _ ho2 hj2 e2)
  | none =>
    rw [hl1] at e1 hj1
    cases hl2 : lookup hr2.1 sf.assigned with
    | some x2 =>
      rw [hl2] at e2; cases e2
      obtain ⟨k, _, hk⟩ := hw.2 _ (lookup_mem hl2)
      exact absurd hk.symm (hf.unused k hr1.1 o1 _ ho1 hj1 e1)
    | none =>
      rw [hl2] at e2 hj2
      exact hf.distinct _ _ o1 o2 oid ho1 ho2 hj1 hj2 e1 e2

/-! ### the database after the commit holds every stored record under its object's oid -/

theorem putRecords_lookup (db : Db) (objs : List Obj) (sf : WState) (base : Store) :
    ∀ (l : List (H × Record)), (l.map (·.1)).Nodup →
      (∀ a ∈ l, ∀ b ∈ l, ∀ oid, finalOid objs sf a.1 = some oid → finalOid objs sf b.1 = some oid →
        a.1 = b.1) →
      ∀ hr ∈ l, ∀ oid, finalOid objs sf hr.1 = some oid →
        lookup (db, oid) (putRecords db objs sf l base) = some hr.2
  | [], _, _, hr, hm, _, _ => by simp at hm
  | x :: t, hn, hp, hr, hm, oid, ho => by
    simp only [List.map_cons, List.nodup_cons] at hn
    have ih := putRecords_lookup db objs sf base t hn.2
      (fun a ha b hb => hp a (List.mem_cons_of_mem _ ha) b (List.mem_cons_of_mem _ hb))
    simp only [putRecords, List.foldr_cons]
    rcases List.mem_cons.1 hm with rfl | hm'
    · rw [ho]; simp [lookup_cons]
    · cases hx : finalOid objs sf x.1 with
      | none => exact ih hr hm' oid ho
      | some o =>
        simp only [lookup_cons]
        split
        · rename_i heq
          simp only [Prod.mk.injEq, true_and] at heq
          subst heq
          have := hp x (by simp) hr hm oid hx ho
          exact absurd (List.mem_map.2 ⟨hr, hm', this.symm⟩) hn.1
        · exact ih hr hm' oid ho

theorem commit_putRecords {env : Env} {objs : List Obj} {p : Pending} {out : List (H × Record)}
    {sf : WState} (hf : FreshOK env objs) (hnd : p.registered.Nodup)
    (hc : commit env objs p = .ok (out, sf)) (base : Store) :
    ∀ hr ∈ out, ∀ oid, finalOid objs sf hr.1 = some oid →
      lookup (env.db, oid) (putRecords env.db objs sf out base) = some hr.2 :=
  putRecords_lookup env.db objs sf base out (commit_stored hnd hc).2.1 (commit_oids_distinct hf hc)

end Proofs.Refs
