/-
  Helper lemmas for C13: association-list maps of `ZodbModel/Blob.lean` (extensional view through
  `aget`).  Core Lean only.
-/
import ZodbModel.Blob
namespace Proofs.Blob
open ZodbModel ZodbModel.Blob

variable {κ : Type} [DecidableEq κ]

theorem aget_filter (p : κ → Bool) (m : List (κ × Bytes)) (k : κ) :
    aget (m.filter fun e => p e.1) k = if p k then aget m k else none := by
  induction m with
  | nil => simp [aget]
  | cons e t ih =>
    obtain ⟨k', b⟩ := e
    simp only [List.filter]
    by_cases hp : p k' = true
    · simp only [hp, aget]
      by_cases hk : k' = k
      · subst hk; simp [hp]
      · simp only [hk, if_false]; exact ih
    · have hp' : p k' = false := by simpa using hp
      simp only [hp', aget]
      by_cases hk : k' = k
      · subst hk; simp [hp', ih]
      · simp only [hk, if_false]; exact ih

theorem aget_adel (m : List (κ × Bytes)) (k k' : κ) :
    aget (adel m k) k' = if k' = k then none else aget m k' := by
  have := aget_filter (fun x => decide (x ≠ k)) m k'
  simp only [adel]
  rw [this]
  by_cases h : k' = k <;> simp [h]

theorem aget_aset (m : List (κ × Bytes)) (k : κ) (b : Bytes) (k' : κ) :
    aget (aset m k b) k' = if k' = k then some b else aget m k' := by
  simp only [aset, aget]
  by_cases h : k = k'
  · subst h; simp
  · have h' : ¬ k' = k := fun e => h e.symm
    simp [h, h', aget_adel]

theorem aget_isSome_iff_mem (m : List (κ × Bytes)) (k : κ) :
    (aget m k).isSome ↔ ∃ e ∈ m, e.1 = k := by
  induction m with
  | nil => simp [aget]
  | cons e t ih =>
    obtain ⟨k', b⟩ := e
    simp only [aget]
    by_cases h : k' = k
    · subst h; simp
    · simp only [h, if_false, ih, List.mem_cons, exists_eq_or_imp, false_or]

end Proofs.Blob
