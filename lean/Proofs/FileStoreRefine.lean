/-
  Helper lemmas for C04 (3): under the invariant, every per-object query computed by pointer
  chasing equals the same-named `History` function on `abs s`.
-/
import Proofs.FileStoreBasic
import Proofs.FileStoreHistory
namespace Proofs.FileStoreRefine
open ZodbModel ZodbModel.FileStore ZodbModel.History
open Proofs.FileStoreBasic Proofs.FileStoreHistory

/-! ### the abstraction is stable under appending newer transactions -/

theorem absRec_oid (log : Log) (r : DRec) : (absRec log r).oid = r.oid := by
  unfold absRec
  cases r.body with
  | data d => rfl
  | back q => simp only; split <;> rfl

theorem absRec_data (log : Log) (r : DRec) : (absRec log r).data = recData log r := by
  unfold absRec recData
  cases r.body with
  | data d => rfl
  | back q => simp only; split <;> rfl

theorem absRec_cons {t : FTxn} {older : Log} {r : DRec}
    (h : ∀ q, r.body = .back q → q < logEnd older) : absRec (t :: older) r = absRec older r := by
  unfold absRec
  cases hb : r.body with
  | data d => rfl
  | back q =>
    have := h q hb
    simp only [loadBack_cons_of_lt this, recAt_cons_of_lt this]

/-- pointers of a record written on top of `older` stay inside `older` -/
theorem recOk_back_lt {older : Log} {ttid : Nat} {r : DRec} (h : RecOk older ttid r) :
    ∀ q, r.body = .back q → q < logEnd older := by
  intro q hb
  have := h.2.2
  rw [hb] at this
  simp only at this
  rcases this with rfl | ⟨th, h1, _⟩
  · have := logEnd_ge older; omega
  · exact (recAt_some h1).1

theorem absTxn_cons {t t' : FTxn} {older : Log}
    (h : ∀ r ∈ t'.recs, ∀ q, r.body = .back q → q < logEnd older) :
    absTxn (t :: older) t' = absTxn older t' := by
  unfold absTxn
  congr 1
  apply List.map_congr_left
  intro r hr
  exact absRec_cons (h r (List.mem_reverse.1 hr))

/-- the abstraction resolves every transaction's pointers in the whole log -/
theorem absLog_eq_map {log : Log} (h : LogInv log) : absLog log = log.map (absTxn log) := by
  induction log with
  | nil => rfl
  | cons t older ih =>
    obtain ⟨_, hrec, _, hi⟩ := h
    simp only [absLog, List.map_cons]
    congr 1
    · exact (absTxn_cons fun r hr => recOk_back_lt (hrec r hr)).symm
    · rw [ih hi]
      apply List.map_congr_left
      intro t' ht'
      exact (absTxn_cons fun r hr q hb => back_lt hi ht' hr hb).symm

/-! ### the revisions of an object, seen through the abstraction -/

/-- a chain element as a `History.Rev` -/
def toRev (log : Log) (th : FTxn × DRec) : Rev :=
  ⟨th.2.tid, th.1.user, th.1.desc, th.1.ext, absRec log th.2⟩

theorem recOf_absTxn (log : Log) (t : FTxn) (oid base : Nat) :
    (absTxn log t).recOf oid = ((lastRecIn base t.recs oid).map (·.1)).map (absRec log) := by
  unfold Txn.recOf absTxn
  simp only
  rw [List.filter_map, List.getLast?_map, List.filter_reverse, List.getLast?_reverse,
    List.head?_filter, lastRecIn_fst]
  congr 2
  funext r
  simp [absRec_oid]

theorem revsNF_abs {log : Log} (h : LogInv log) (oid : Nat) :
    (absLog log).filterMap (fun t => (t.recOf oid).map fun r => (⟨t.tid, t.user, t.desc, t.ext, r⟩ : Rev)) =
      (revRecs log oid).map (toRev log) := by
  induction log with
  | nil => rfl
  | cons t older ih =>
    have hfull := h
    obtain ⟨_, hrec, _, hi⟩ := h
    have htail : (revRecs older oid).map (toRev (t :: older)) = (revRecs older oid).map (toRev older) := by
      apply List.map_congr_left
      intro th hth
      obtain ⟨a, b, _⟩ := mem_revRecs hth
      unfold toRev
      rw [absRec_cons fun q hb => back_lt hi a b hb]
    simp only [absLog, List.filterMap_cons, recOf_absTxn older t oid (logEnd older + t.hdrLen)]
    cases hl : lastRecIn (logEnd older + t.hdrLen) t.recs oid with
    | none =>
      simp only [revRecs, hl, Option.map_none, htail]
      exact ih hi
    | some rp =>
      obtain ⟨r, p⟩ := rp
      obtain ⟨h1, _⟩ := lastRecIn_some hl
      simp only [revRecs, hl, Option.map_some, List.map_cons, htail, ih hi]
      congr 1
      unfold toRev
      simp only [absTxn]
      rw [absRec_cons (recOk_back_lt (hrec r h1)), (hrec r h1).1]

theorem revs_abs {s : FS} (h : LogInv s.log) (oid : Nat) :
    revs (abs s) oid = ((revRecs s.log oid).map (toRev s.log)).reverse := by
  unfold revs abs
  rw [List.filterMap_reverse, revsNF_abs h oid]

theorem toRev_desc {log : Log} (h : LogInv log) (oid : Nat) :
    Desc ((revRecs log oid).map (toRev log)) := by
  unfold Desc
  rw [List.pairwise_map]
  exact revRecs_sorted h oid

theorem recAt_lastPos (oid : Nat) (log : Log) : recAt log (lastPos oid log) = (revRecs log oid).head? := by
  induction log with
  | nil => rfl
  | cons t older ih =>
    cases hl : lastRecIn (logEnd older + t.hdrLen) t.recs oid with
    | none =>
      simp only [lastPos, revRecs, hl]
      rw [recAt_cons_of_lt (lastPos_lt oid older), ih]
    | some rp =>
      obtain ⟨r, p⟩ := rp
      obtain ⟨_, _, h3, _, h5⟩ := lastRecIn_some hl
      have := hdrLen_ge t
      simp only [lastPos, revRecs, hl, recAt, List.head?_cons]
      rw [if_pos (by omega), h5]; rfl

theorem storedSize_absRec {log : Log} {r : DRec}
    (hv : ∀ q, r.body = .back q → q ≠ 0 → (recAt log q).isSome) : (absRec log r).storedSize = r.plen := by
  unfold absRec Rec.storedSize DRec.plen
  cases hb : r.body with
  | data d => rfl
  | back q =>
    by_cases hq : q = 0
    · simp [hq]
    · have := hv q hb hq
      simp only [hq, if_false]
      cases hrec : recAt log q with
      | none => simp [hrec] at this
      | some x => simp

/-! ### per-object queries -/

section
variable {s : FS} (h : Inv s) (oid : Nat)
include h

theorem load_refines : FileStore.load s oid = History.load (abs s) oid := by
  rw [load_walk (revs_abs h.log oid)]
  unfold FileStore.load
  simp only [h.index oid, recAt_lastPos, List.head?_map]
  cases hr : revRecs s.log oid with
  | nil => simp [(lastPos_eq_zero_iff oid s.log).2 hr]
  | cons th rest =>
    have : lastPos oid s.log ≠ 0 := fun h0 => by simp [(lastPos_eq_zero_iff oid s.log).1 h0] at hr
    simp only [this, if_false, List.head?_cons, Option.map_some, toRev, absRec_data]
    cases recData s.log th.2 <;> rfl

theorem getTid_refines : FileStore.getTid s oid = History.getTid (abs s) oid := by
  rw [getTid_walk (revs_abs h.log oid)]
  unfold FileStore.getTid
  simp only [h.index oid, recAt_lastPos, List.head?_map]
  cases hr : revRecs s.log oid with
  | nil => simp [(lastPos_eq_zero_iff oid s.log).2 hr]
  | cons th rest =>
    have hne : lastPos oid s.log ≠ 0 := fun h0 => by simp [(lastPos_eq_zero_iff oid s.log).1 h0] at hr
    have hm : th ∈ revRecs s.log oid := by rw [hr]; exact List.mem_cons_self
    obtain ⟨a, b, _⟩ := mem_revRecs hm
    simp only [hne, if_false, List.head?_cons, Option.map_some, toRev]
    -- a back pointer that is not 0 names a record (invariant), so `dataTxn` is `some`
    have hinv : ∀ q, th.2.body = .back q → q ≠ 0 → (recAt s.log q).isSome := by
      intro q hb hq
      obtain ⟨x, hx, _⟩ := back_valid h.log a b hb hq
      simp [hx]
    unfold absRec
    cases hb : th.2.body with
    | data d => rfl
    | back q =>
      by_cases hq : q = 0
      · subst hq; simp
      · have := hinv q hb hq
        cases hq' : q with
        | zero => exact absurd hq' hq
        | succ n =>
          rw [hq'] at this
          simp only [Nat.succ_ne_zero, if_false]
          cases hrec : recAt s.log (n + 1) with
          | none => simp [hrec] at this
          | some x => simp

theorem loadBefore_refines (b : Nat) : FileStore.loadBefore s oid b = History.loadBefore (abs s) oid b := by
  rw [loadBefore_walk (revs_abs h.log oid) (toRev_desc h.log oid) b]
  unfold FileStore.loadBefore
  simp only [h.index oid, chain_lastPos h.log oid]
  rw [loadBeforeGo_map (toRev s.log) (fun th => th.2.tid) Rev.tid (fun _ => rfl)]
  cases hr : revRecs s.log oid with
  | nil => simp [(lastPos_eq_zero_iff oid s.log).2 hr]
  | cons th rest =>
    have hne : lastPos oid s.log ≠ 0 := fun h0 => by simp [(lastPos_eq_zero_iff oid s.log).1 h0] at hr
    simp only [hne, if_false, List.map_cons, List.isEmpty_cons, Bool.false_eq_true]
    cases loadBeforeGo (fun th => th.2.tid) b none (th :: rest) with
    | none => rfl
    | some x =>
      obtain ⟨⟨t', h'⟩, e⟩ := x
      simp only [Option.map_some, toRev, absRec_data]
      cases recData s.log h' <;> rfl

theorem loadSerial_refines (serial : Nat) :
    FileStore.loadSerial s oid serial = History.loadSerial (abs s) oid serial := by
  rw [loadSerial_walk (revs_abs h.log oid) (toRev_desc h.log oid) serial]
  unfold FileStore.loadSerial
  simp only [h.index oid, chain_lastPos h.log oid]
  rw [loadSerialGo_map (toRev s.log) (fun th => th.2.tid) Rev.tid (fun _ => rfl)]
  cases hr : revRecs s.log oid with
  | nil => simp [(lastPos_eq_zero_iff oid s.log).2 hr, loadSerialGo]
  | cons th rest =>
    have hne : lastPos oid s.log ≠ 0 := fun h0 => by simp [(lastPos_eq_zero_iff oid s.log).1 h0] at hr
    simp only [hne, if_false]
    cases loadSerialGo (fun th => th.2.tid) serial (th :: rest) with
    | none => rfl
    | some x =>
      obtain ⟨t', h'⟩ := x
      simp only [Option.map_some, toRev, absRec_data]
      cases recData s.log h' <;> rfl

end

end Proofs.FileStoreRefine
