/-
  Helper lemmas for C07, part 2: the FileStorage packer (`packFS`) — copyToPacktime, copyRest,
  the GC marks, and the preservation of loads.  Core Lean only.
-/
import Proofs.PackBasic
set_option linter.unusedSimpArgs false
namespace Proofs.Pack
open ZodbModel ZodbModel.Pack

/-! ### copyToPacktime (`copyPre`) -/

theorem find?_filter_oid (keep : Oid → Bool) (l : List Rec) (o : Oid) :
    (l.filter (fun r => keep r.oid)).find? (fun r => r.oid == o) =
      if keep o then l.find? (fun r => r.oid == o) else none := by
  induction l with
  | nil => simp
  | cons a t ih =>
    by_cases hk : keep a.oid = true
    · rw [List.filter_cons_of_pos (by simpa using hk)]
      by_cases ha : a.oid = o
      · subst ha; simp [hk]
      · have : (a.oid == o) = false := by simpa using ha
        simp only [List.find?_cons, this, ih]
    · rw [List.filter_cons_of_neg (by simpa using hk)]
      rw [ih]
      by_cases ha : a.oid = o
      · subst ha
        have : keep a.oid = false := by simpa using hk
        simp [this]
      · have : (a.oid == o) = false := by simpa using ha
        simp only [List.find?_cons, this]

/-- the (tid, record) entry of `o` contributed by one transaction -/
def entry (o : Oid) (t : Txn) : Option (Tid × Rec) := (t.recOf o).map (fun r => (t.tid, r))

theorem recsOf_eq_filterMap (h : History) (o : Oid) : recsOf h o = h.filterMap (entry o) := rfl

theorem copyPreTxn_some {keep : Tid → Oid → Bool} {t t' : Txn} (h : copyPreTxn keep t = some t') :
    t'.tid = t.tid ∧ t'.packed = true ∧ t'.mlen = t.mlen ∧ t'.mdata = t.mdata ∧
      t'.recs = ((dedupLast t.recs).filter (fun r => keep t.tid r.oid)).map packRec ∧
      (dedupLast t.recs).filter (fun r => keep t.tid r.oid) ≠ [] := by
  unfold copyPreTxn at h
  simp only at h
  split at h
  · cases h
  · rename_i hne
    injection h with h; subst h
    refine ⟨rfl, rfl, rfl, rfl, rfl, ?_⟩
    intro hc; apply hne; simp [hc]

theorem copyPreTxn_none {keep : Tid → Oid → Bool} {t : Txn} (h : copyPreTxn keep t = none) :
    (dedupLast t.recs).filter (fun r => keep t.tid r.oid) = [] := by
  unfold copyPreTxn at h
  simp only at h
  split at h
  · rename_i hemp; exact List.isEmpty_iff.1 hemp
  · cases h

theorem copyPre_recs_nodup {keep : Tid → Oid → Bool} {t : Txn} :
    OidNodup (((dedupLast t.recs).filter (fun r => keep t.tid r.oid)).map packRec) :=
  oidNodup_map (fun _ => rfl) (oidNodup_filter _ (dedupLast_nodup _))

theorem copyPreTxn_recOf {keep : Tid → Oid → Bool} {t t' : Txn} (h : copyPreTxn keep t = some t')
    (o : Oid) : t'.recOf o = if keep t.tid o then (t.recOf o).map packRec else none := by
  obtain ⟨_, _, _, _, er, _⟩ := copyPreTxn_some h
  unfold Txn.recOf
  rw [er, dedupLast_of_nodup copyPre_recs_nodup, find?_oid_map_packRec,
    find?_filter_oid (keep t.tid)]
  split <;> rfl

theorem copyPreTxn_entry (keep : Tid → Oid → Bool) (t : Txn) (o : Oid) :
    (copyPreTxn keep t).bind (entry o) =
      ((entry o t).filter (fun x => keep x.1 o)).map tagPack := by
  cases hc : copyPreTxn keep t with
  | none =>
    have hemp := copyPreTxn_none hc
    unfold entry
    cases hr : t.recOf o with
    | none => simp
    | some r =>
      by_cases hk : keep t.tid o = true
      · exfalso
        have : r ∈ (dedupLast t.recs).filter (fun r => keep t.tid r.oid) := by
          rw [List.mem_filter]
          exact ⟨recOf_mem_dedup hr, by rw [(recOf_mem hr).2]; exact hk⟩
        rw [hemp] at this
        simp at this
      · have : keep t.tid o = false := by simpa using hk
        simp [Option.filter, this]
  | some t' =>
    obtain ⟨etid, _⟩ := copyPreTxn_some hc
    unfold entry
    simp only [Option.bind_some]
    rw [copyPreTxn_recOf hc, etid]
    by_cases hk : keep t.tid o = true
    · simp only [hk, if_true]
      cases hr : t.recOf o with
      | none => simp
      | some r => simp [Option.filter, hk, tagPack]
    · have hk' : keep t.tid o = false := by simpa using hk
      simp only [hk', Bool.false_eq_true, if_false]
      cases hr : t.recOf o with
      | none => simp
      | some r => simp [Option.filter, hk']

/-- records of `o` after copyToPacktime: the kept ones, with back pointers resolved -/
theorem recsOf_copyPre (keep : Tid → Oid → Bool) (pre : History) (o : Oid) :
    recsOf (copyPre keep pre) o = ((recsOf pre o).filter (fun x => keep x.1 o)).map tagPack := by
  rw [recsOf_eq_filterMap, recsOf_eq_filterMap, copyPre, List.filterMap_filterMap]
  induction pre with
  | nil => rfl
  | cons t rest ih =>
    simp only [List.filterMap_cons]
    rw [copyPreTxn_entry]
    cases he : entry o t with
    | none => simpa using ih
    | some x =>
      by_cases hk : keep x.1 o = true
      · simp [Option.filter, hk, ih]
      · have hk' : keep x.1 o = false := by simpa using hk
        simp [Option.filter, hk', ih]

theorem lastRec_copyPre {keep : Tid → Oid → Bool} {pre : History} {o : Oid} {x : Tid × Rec}
    (hl : lastRec pre o = some x) (hk : keep x.1 o = true) :
    lastRec (copyPre keep pre) o = some (tagPack x) := by
  unfold lastRec at hl ⊢
  rw [recsOf_copyPre, List.getLast?_map,
    getLast?_filter_of_last (fun x => keep x.1 o) _ x hl hk]
  rfl

theorem copyPre_tid {keep : Tid → Oid → Bool} {pre : History} {t' : Txn}
    (h : t' ∈ copyPre keep pre) : ∃ t ∈ pre, t'.tid = t.tid ∧ t'.packed = true ∧
      t'.recs = ((dedupLast t.recs).filter (fun r => keep t.tid r.oid)).map packRec := by
  unfold copyPre at h
  rw [List.mem_filterMap] at h
  obtain ⟨t, ht, he⟩ := h
  obtain ⟨e1, e2, _, _, e3, _⟩ := copyPreTxn_some he
  exact ⟨t, ht, e1, e2, e3⟩

theorem copyPre_mem {keep : Tid → Oid → Bool} {pre : History} {t' : Txn}
    (h : t' ∈ copyPre keep pre) : ∃ t ∈ pre, copyPreTxn keep t = some t' := by
  unfold copyPre at h
  rw [List.mem_filterMap] at h
  exact h

theorem copyPre_le {keep : Tid → Oid → Bool} {pre : History} {T : Tid}
    (hle : ∀ t ∈ pre, t.tid ≤ T) : ∀ t' ∈ copyPre keep pre, t'.tid ≤ T := by
  intro t' ht'
  obtain ⟨t, ht, e, _⟩ := copyPre_tid ht'
  rw [e]; exact hle t ht

theorem copyPre_core (keep : Tid → Oid → Bool) (pre : History) :
    (copyPre keep pre).map Txn.core = copyPre keep pre := by
  have : ∀ t' ∈ copyPre keep pre, Txn.core t' = id t' := by
    intro t' ht'
    obtain ⟨t, _, _, _, hr⟩ := copyPre_tid ht'
    cases t' with
    | mk tid packed mlen mdata recs =>
      simp only at hr
      subst hr
      simp [Txn.core, List.map_map]
  rw [List.map_congr_left this, List.map_id]

/-! ### copyRest -/

theorem copyRec_cases {out : History} {r r' : Rec} (h : copyRec out r = .ok r') :
    r' = r ∨ (r' = { r with back := none } ∧ r.back.isSome) := by
  unfold copyRec at h
  split at h
  · left; injection h with h; exact h.symm
  · rename_i bt hb
    split at h
    · right; injection h with h; exact ⟨h.symm, by simp [hb]⟩
    · split at h
      · right; injection h with h; exact ⟨h.symm, by simp [hb]⟩
      · split at h
        · left; injection h with h; exact h.symm
        · split at h
          · right; injection h with h; exact ⟨h.symm, by simp [hb]⟩
          · split at h
            · right; injection h with h; exact ⟨h.symm, by simp [hb]⟩
            · left; injection h with h; exact h.symm

theorem copyRec_core {out : History} {r r' : Rec} (h : copyRec out r = .ok r') :
    packRec r' = packRec r := by
  rcases copyRec_cases h with rfl | ⟨rfl, _⟩ <;> rfl

theorem copyRecs_core {out : History} : ∀ {rs rs' : List Rec}, copyRecs out rs = .ok rs' →
    rs'.map packRec = rs.map packRec := by
  intro rs
  induction rs with
  | nil => intro rs' h; simp only [copyRecs] at h; injection h with h; subst h; rfl
  | cons r rest ih =>
    intro rs' h
    simp only [copyRecs] at h
    split at h
    · cases h
    · rename_i r' hr
      split at h
      · cases h
      · rename_i rest' hrest
        injection h with h; subst h
        simp [copyRec_core hr, ih hrest]

theorem copyTxn_core {out : History} {t t' : Txn} (h : copyTxn out t = .ok t') :
    Txn.core t' = Txn.core t ∧ t'.tid = t.tid ∧ t'.packed = t.packed ∧ t'.mlen = t.mlen ∧
      t'.mdata = t.mdata := by
  unfold copyTxn at h
  split at h
  · cases h
  · rename_i rs hrs
    injection h with h; subst h
    simp [Txn.core, copyRecs_core hrs]

theorem copyRest_core : ∀ {post out h' : History}, copyRest out post = .ok h' →
    ∃ post', h' = out ++ post' ∧ post'.map Txn.core = post.map Txn.core := by
  intro post
  induction post with
  | nil => intro out h' h; simp only [copyRest] at h; injection h with h; subst h; exact ⟨[], by simp, rfl⟩
  | cons t rest ih =>
    intro out h' h
    simp only [copyRest] at h
    split at h
    · cases h
    · rename_i t' ht
      obtain ⟨post'', e1, e2⟩ := ih h
      refine ⟨t' :: post'', by simp [e1], ?_⟩
      simp [(copyTxn_core ht).1, e2]

/-! ### the GC marks -/

theorem lookup_of_all_eq {l : List (Nat × Nat)} {o t : Nat} (hex : ∃ t', (o, t') ∈ l)
    (hall : ∀ t', (o, t') ∈ l → t' = t) : l.lookup o = some t := by
  induction l with
  | nil => obtain ⟨_, h⟩ := hex; simp at h
  | cons a rest ih =>
    obtain ⟨k, v⟩ := a
    simp only [List.lookup]
    by_cases hk : o = k
    · subst hk
      have := hall v (List.mem_cons_self ..)
      simp [this]
    · have : (o == k) = false := by simpa using hk
      simp only [this]
      apply ih
      · obtain ⟨t', h⟩ := hex
        rcases List.mem_cons.1 h with h | h
        · injection h with h1 _; exact absurd h1 hk
        · exact ⟨t', h⟩
      · intro t' h; exact hall t' (List.mem_cons_of_mem _ h)

theorem lookup_append_of_some {l l' : List (Nat × Nat)} {o t : Nat} (h : l.lookup o = some t) :
    (l ++ l').lookup o = some t := by
  rw [List.lookup_append, h]; rfl

theorem addMarks_spec {pre : History} : ∀ {fresh : List Oid} {reach reach' : List (Oid × Tid)},
    addMarks pre reach fresh = .ok reach' →
    ∃ ext, reach' = reach ++ ext ∧
      (∀ p ∈ ext, p.1 ∈ fresh ∧ ∃ r, curAt pre p.1 = some (p.2, r)) ∧
      (∀ o ∈ fresh, ∀ t r, curAt pre o = some (t, r) → (o, t) ∈ ext) := by
  intro fresh
  induction fresh with
  | nil =>
    intro reach reach' h
    simp only [addMarks] at h; injection h with h; subst h
    exact ⟨[], by simp, by simp, by simp⟩
  | cons o rest ih =>
    intro reach reach' h
    simp only [addMarks] at h
    split at h
    · rename_i t r hc
      obtain ⟨ext, e1, e2, e3⟩ := ih h
      refine ⟨(o, t) :: ext, by simp [e1], ?_, ?_⟩
      · intro p hp
        rcases List.mem_cons.1 hp with rfl | hp
        · exact ⟨List.mem_cons_self .., r, hc⟩
        · exact ⟨List.mem_cons_of_mem _ (e2 p hp).1, (e2 p hp).2⟩
      · intro o' ho' t' r' hc'
        rcases List.mem_cons.1 ho' with rfl | ho'
        · rw [hc] at hc'; injection hc' with hc'; injection hc' with h1 _
          subst h1; exact List.mem_cons_self ..
        · exact List.mem_cons_of_mem _ (e3 o' ho' t' r' hc')
    · rename_i hc
      split at h
      · obtain ⟨ext, e1, e2, e3⟩ := ih h
        refine ⟨ext, e1, ?_, ?_⟩
        · intro p hp; exact ⟨List.mem_cons_of_mem _ (e2 p hp).1, (e2 p hp).2⟩
        · intro o' ho' t' r' hc'
          rcases List.mem_cons.1 ho' with rfl | ho'
          · rw [hc] at hc'; cases hc'
          · exact e3 o' ho' t' r' hc'
      · cases h

/-- `findReachableAtPacktime`: the marks only grow; every new mark is the record current at the
    pack time; every oid reached (without passing through an already marked one) and present in the
    index is marked -/
theorem mark_spec {pre : History} {U : List Oid} {reach reach' : List (Oid × Tid)} {roots : List Oid}
    (h : mark pre U reach roots = .ok reach') :
    ∃ ext, reach' = reach ++ ext ∧
      (∀ p ∈ ext, p.1 ∉ reach.map (·.1) ∧ ∃ r, curAt pre p.1 = some (p.2, r)) ∧
      (∀ o, Reach.ReachAvoid (refsAtT pre) (reach.map (·.1)) roots o → o ∉ reach.map (·.1) →
        ∀ t r, curAt pre o = some (t, r) → (o, t) ∈ ext) := by
  unfold mark at h
  simp only at h
  split at h
  · cases h
  · rename_i S hS
    obtain ⟨ext, e1, e2, e3⟩ := addMarks_spec h
    have hmem : ∀ o, o ∈ (S.filter (fun o => !(reach.map (·.1)).contains o)).reverse ↔
        (o ∈ S ∧ o ∉ reach.map (·.1)) := by
      intro o; simp [List.mem_filter]
    refine ⟨ext, e1, ?_, ?_⟩
    · intro p hp
      exact ⟨((hmem p.1).1 (e2 p hp).1).2, (e2 p hp).2⟩
    · intro o hra hnk t r hc
      apply e3 o _ t r hc
      rw [hmem]
      exact ⟨(Reach.closure_spec _ _ _ _ _ hS o).2 (Or.inr hra), hnk⟩

theorem scan_reach_append (cs : List (Oid × Tid)) : ∀ (g : GC), ∃ ext, (scan g cs).reach = g.reach ++ ext := by
  induction cs with
  | nil => intro g; exact ⟨[], by simp [scan]⟩
  | cons c rest ih =>
    intro g
    simp only [scan, List.foldl_cons]
    obtain ⟨ext, e⟩ := ih (scanStep g c)
    simp only [scan] at e
    rw [e]
    unfold scanStep
    split
    · split
      · exact ⟨ext, rfl⟩
      · exact ⟨ext, rfl⟩
    · exact ⟨[c] ++ ext, by simp⟩

theorem markAll_append {pre : History} {U : List Oid} : ∀ {exs : List (Oid × Tid)}
    {reach reach' : List (Oid × Tid)}, markAll pre U reach exs = .ok reach' →
    ∃ ext, reach' = reach ++ ext := by
  intro exs
  induction exs with
  | nil => intro reach reach' h; simp only [markAll] at h; injection h with h; subst h; exact ⟨[], by simp⟩
  | cons c rest ih =>
    intro reach reach' h
    obtain ⟨o, bt⟩ := c
    simp only [markAll] at h
    split at h
    · cases h
    · rename_i r1 hm
      obtain ⟨ext1, e1, _, _⟩ := mark_spec hm
      obtain ⟨ext2, e2⟩ := ih h
      exact ⟨ext1 ++ ext2, by rw [e2, e1, List.append_assoc]⟩

theorem inIndex_of_data {r : Rec} (h : r.data.isSome) : inIndex r = true := by
  simp [inIndex, h]

theorem curAt_of_lastRec {pre : History} {o : Oid} {t : Tid} {r : Rec}
    (hl : lastRec pre o = some (t, r)) (hd : r.data.isSome) : curAt pre o = some (t, r) := by
  simp [curAt, hl, inIndex_of_data hd]

theorem curAt_lastRec {pre : History} {o : Oid} {t : Tid} {r : Rec}
    (hc : curAt pre o = some (t, r)) : lastRec pre o = some (t, r) := by
  unfold curAt at hc
  split at hc
  · rename_i t' r' hl
    split at hc
    · rw [hl, ← hc]
    · cases hc
  · cases hc

/-- gc on: every oid reachable from the root at the pack time keeps its current record -/
theorem findReachable_gc_keeps {pre post : History} {T : Tid} {U : List Oid} {g : GC}
    (h : findReachable pre post T true U = .ok g) {o : Oid}
    (hr : Reach.Reachable (refsAtT pre) [0] o) {t : Tid} {r : Rec} (hc : curAt pre o = some (t, r)) :
    g.isReachable t o = true := by
  unfold findReachable at h
  simp only [if_true] at h
  split at h
  · cases h
  · rename_i r1 hm1
    split at h
    · cases h
    · rename_i r3 hm3
      injection h with h
      obtain ⟨ext1, e1, e2, e3⟩ := mark_spec hm1
      simp only [List.nil_append] at e1
      subst e1
      have hmem : (o, t) ∈ r1 := by
        apply e3 o _ (by simp) t r hc
        exact Reach.reachAvoid_nil_seen_iff.2 hr
      have hl1 : r1.lookup o = some t := by
        apply lookup_of_all_eq ⟨t, hmem⟩
        intro t' ht'
        obtain ⟨_, r', hr'⟩ := e2 (o, t') ht'
        simp only at hr'
        rw [hc] at hr'; injection hr' with hr'; injection hr' with h1 _; exact h1.symm
      obtain ⟨ext2, e4⟩ := scan_reach_append (crossing post T) ⟨r1, []⟩
      obtain ⟨ext3, e5⟩ := markAll_append hm3
      have hl : g.reach.lookup o = some t := by
        rw [← h]; simp only
        rw [e5, e4]
        exact lookup_append_of_some (lookup_append_of_some hl1)
      simp [GC.isReachable, hl]

theorem mem_indexList {pre : History} {o : Oid} {t : Tid} :
    (o, t) ∈ indexList pre ↔ (∃ tx ∈ pre, ∃ r0 ∈ tx.recs, r0.oid = o) ∧ ∃ r, curAt pre o = some (t, r) := by
  unfold indexList
  simp only [List.mem_flatMap, List.mem_filterMap]
  constructor
  · rintro ⟨tx, htx, r0, hr0, he⟩
    split at he
    · rename_i t' r' hc
      injection he with he; injection he with h1 h2
      subst h1; subst h2
      exact ⟨⟨tx, htx, r0, hr0, rfl⟩, r', hc⟩
    · cases he
  · rintro ⟨⟨tx, htx, r0, hr0, ho⟩, r, hc⟩
    refine ⟨tx, htx, r0, hr0, ?_⟩
    subst ho
    rw [hc]

/-- gc off: every object in the index keeps its current record -/
theorem findReachable_nogc_keeps {pre post : History} {T : Tid} {U : List Oid} {g : GC}
    (h : findReachable pre post T false U = .ok g) {o : Oid} {t : Tid} {r : Rec}
    (hc : curAt pre o = some (t, r)) : g.isReachable t o = true := by
  unfold findReachable at h
  simp only [Bool.false_eq_true, if_false] at h
  injection h with h
  have hx : (t, r) ∈ recsOf pre o := lastRec_mem (curAt_lastRec hc)
  obtain ⟨tx, htx, _, hro⟩ := mem_recsOf hx
  obtain ⟨hm, ho⟩ := recOf_mem hro
  have hmem : (o, t) ∈ indexList pre := mem_indexList.2 ⟨⟨tx, htx, r, hm, ho⟩, r, hc⟩
  have hl : (indexList pre).lookup o = some t := by
    apply lookup_of_all_eq ⟨t, hmem⟩
    intro t' ht'
    obtain ⟨_, r', hr'⟩ := mem_indexList.1 ht'
    rw [hc] at hr'; injection hr' with hr'; injection hr' with h1 _; exact h1.symm
  rw [← h]
  simp [GC.isReachable, hl]

end Proofs.Pack
