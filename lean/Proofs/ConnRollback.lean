/-
  Connection model, part 16 (C12): `Savepoint.rollback()`.
-/
import Proofs.ConnOps12
namespace Proofs.Conn
open ZodbModel ZodbModel.Conn

/-! ### the savepoint list after a rollback -/

theorem entryLe_invalid_right (a : SpEntry) : entryLe a .invalid := by cases a <;> trivial
theorem entryLe_invalid_left (a : SpEntry) : entryLe .invalid a := by cases a <;> trivial

theorem mem_invalidateAfter {a : SpEntry} {n : Nat} {l : List SpEntry} (h : a ∈ invalidateAfter n l) :
    a = .invalid ∨ a ∈ l.take (n + 1) := by
  unfold invalidateAfter at h
  rcases List.mem_append.1 h with h | h
  · exact Or.inr h
  · simp only [List.mem_map] at h
    obtain ⟨_, _, rfl⟩ := h
    exact Or.inl rfl

theorem invalidateAfter_pairwise {n : Nat} {l : List SpEntry} (h : l.Pairwise entryLe) :
    (invalidateAfter n l).Pairwise entryLe := by
  unfold invalidateAfter
  rw [List.pairwise_append]
  refine ⟨h.sublist (List.take_sublist _ _), ?_, ?_⟩
  · rw [List.pairwise_map]
    generalize List.drop (n + 1) l = l'
    induction l' with
    | nil => exact List.Pairwise.nil
    | cons x t ih => exact List.Pairwise.cons (fun _ _ => trivial) ih
  · intro a _ b hb
    simp only [List.mem_map] at hb
    obtain ⟨_, _, rfl⟩ := hb
    exact entryLe_invalid_right a

theorem before_entry {α} {R : α → α → Prop} : ∀ {l : List α} {n : Nat} {a b : α}, l.Pairwise R →
    l[n]? = some b → a ∈ l.take (n + 1) → a = b ∨ R a b := by
  intro l
  induction l with
  | nil => intro n a b _ hb; simp at hb
  | cons x xs ih =>
    intro n a b hp hb ha
    rw [List.pairwise_cons] at hp
    cases n with
    | zero =>
      simp only [List.getElem?_cons_zero, Option.some.injEq] at hb
      simp only [Nat.zero_add, List.take_succ_cons, List.take_zero, List.mem_singleton] at ha
      left; rw [ha, hb]
    | succ m =>
      simp only [List.getElem?_cons_succ] at hb
      simp only [List.take_succ_cons, List.mem_cons] at ha
      rcases ha with ha | ha
      · right; rw [ha]; exact hp.1 b (List.mem_of_getElem? hb)
      · exact ih hp.2 hb ha

theorem getElem?_invalidateAfter_le {n m : Nat} {l : List SpEntry} (hm : m ≤ n) :
    (invalidateAfter n l)[m]? = l[m]? := by
  unfold invalidateAfter
  by_cases hl : m < l.length
  · rw [List.getElem?_append_left (by rw [List.length_take]; omega), List.getElem?_take]
    simp [Nat.lt_succ_of_le hm]
  · have h1 : l[m]? = none := by simp; omega
    rw [h1]
    simp only [List.getElem?_eq_none_iff, List.length_append, List.length_take, List.length_map,
      List.length_drop]
    omega

theorem getElem?_invalidateAfter_gt {n m : Nat} {l : List SpEntry} (hm : n < m) (hl : m < l.length) :
    (invalidateAfter n l)[m]? = some .invalid := by
  unfold invalidateAfter
  rw [List.getElem?_append_right (by rw [List.length_take]; omega)]
  simp only [List.length_take, List.getElem?_map, List.getElem?_drop]
  have : (l[n + 1 + (m - min (n + 1) l.length)]?).isSome := by
    simp; omega
  cases h : l[n + 1 + (m - min (n + 1) l.length)]? with
  | none => rw [h] at this; cases this
  | some x => rfl

theorem length_invalidateAfter (n : Nat) (l : List SpEntry) : (invalidateAfter n l).length = l.length := by
  unfold invalidateAfter
  simp only [List.length_append, List.length_take, List.length_map, List.length_drop]
  omega

/-! ### `_rollback_savepoint`, object by object -/

/-- the oids `_rollback_savepoint` un-creates: created after the savepoint was made -/
def lateKeys (t : TmpStore) (cr : Map Bool) : List Nat := t.creating.keys.filter fun k => !cr.has k

theorem mem_lateKeys {t : TmpStore} {cr : Map Bool} {k : Nat} :
    k ∈ lateKeys t cr ↔ t.creating.has k = true ∧ cr.has k = false := by
  unfold lateKeys
  rw [List.mem_filter, Map.mem_keys_iff, ← Map.has_iff]
  simp

structure RollbackFacts (s : State) (t : TmpStore) (p : Nat) (idx : Map Nat) (cr : Map Bool)
    (R : State) : Prop where
  clean : Clean [] s R
  sp : R.sp = some (t.reset p idx cr)
  regNil : R.registered = []
  creating : R.creating = s.creating
  sps : R.sps = s.sps
  ntj : R.needsToJoin = s.needsToJoin
  shared : shared R = shared s
  addedNil : R.added = []
  noChanged : ∀ i, (R.objs i).status ≠ .changed
  uncached : ∀ k, t.creating.has k = true → cr.has k = false → R.cache.get k = none
  ghosted : ∀ k, t.index.get k ≠ none → ∀ i, R.cache.get k = some i → (R.objs i).status = .ghost
  kept : ∀ j k, (s.objs j).oid = some k → s.added.get k = none →
    ¬ (t.creating.has k = true ∧ cr.has k = false) → (R.objs j).oid = some k

theorem rollbackSavepoint_eq {s : State} {t : TmpStore} (hsp : s.sp = some t) (p idx cr) :
    rollbackSavepoint s p idx cr =
      invalidateAll (resetTmp (invalidateCreating (clearRegistered (abortObjs s)) (lateKeys t cr))
        t p idx cr) t.index.keys := by
  unfold rollbackSavepoint
  dsimp only
  have : (clearRegistered (abortObjs s)).sp = some t := by
    show (abortObjs s).sp = some t
    rw [abortObjs_sp]; exact hsp
  rw [this]
  rfl

theorem rollbackSavepoint_facts {s : State} {t : TmpStore} (hS : Str [] s) (hsp : s.sp = some t)
    (hregOid : ∀ i ∈ s.registered, (s.objs i).oid ≠ none)
    (hchanged : ∀ i, (s.objs i).status = .changed → i ∈ s.registered)
    (hadded : ∀ k i, s.added.get k = some i → i ∈ s.registered) (hcrn : s.creating = [])
    (hcrIdx : ∀ k, t.creating.has k = true → t.index.get k ≠ none) (p idx cr) :
    RollbackFacts s t p idx cr (rollbackSavepoint s p idx cr) := by
  rw [rollbackSavepoint_eq hsp]
  let K : Nat → Prop := fun k => s.added.get k = none ∧ ¬ (t.creating.has k = true ∧ cr.has k = false)
  have cA := abortObjs_clean hS
  have kA : Keeps K s (abortObjs s) := abortObjs_keeps K hS (fun k hk => hk.1)
  have eA := abortObjs_effect hS
  have cA' : Clean [] (abortObjs s) (clearRegistered (abortObjs s)) := clearRegistered_clean cA.1
  have cB := invalidateCreating_clean cA'.1 (lateKeys t cr)
  have eB := invalidateCreating_cache cA'.1 (lateKeys t cr)
  have kB : Keeps K (clearRegistered (abortObjs s))
      (invalidateCreating (clearRegistered (abortObjs s)) (lateKeys t cr)) :=
    invalidateCreating_keeps K cA'.1 (lateKeys t cr) (by
      intro k hk hK
      exact hK.2 (mem_lateKeys.1 hk))
  have cC : Clean [] (invalidateCreating (clearRegistered (abortObjs s)) (lateKeys t cr))
      (resetTmp (invalidateCreating (clearRegistered (abortObjs s)) (lateKeys t cr)) t p idx cr) :=
    resetTmp_clean cB.1 _ _ _ _
  have cR := invalidateAll_clean cC.1 t.index.keys
  have eR := invalidateAll_ghost cC.1 t.index.keys
  generalize hRdef : invalidateAll (resetTmp (invalidateCreating (clearRegistered (abortObjs s))
    (lateKeys t cr)) t p idx cr) t.index.keys = R at *
  have shAR : Shrink (abortObjs s) R := ((cA'.2.trans cB.2).trans cC.2).trans cR.2
  have shBR : Shrink (invalidateCreating (clearRegistered (abortObjs s)) (lateKeys t cr)) R :=
    cC.2.trans cR.2
  have sh : Shrink s R := cA.2.trans shAR
  have kAll : Keeps K s R := by
    have k1 : Keeps K (abortObjs s) (clearRegistered (abortObjs s)) := Keeps.of_objs rfl
    have k2 : Keeps K (invalidateCreating (clearRegistered (abortObjs s)) (lateKeys t cr))
        (resetTmp (invalidateCreating (clearRegistered (abortObjs s)) (lateKeys t cr)) t p idx cr) :=
      Keeps.of_objs rfl
    have k3 := invalidateAll_keeps K
      (resetTmp (invalidateCreating (clearRegistered (abortObjs s)) (lateKeys t cr)) t p idx cr) t.index.keys
    rw [hRdef] at k3
    exact (((kA.trans k1).trans kB).trans k2).trans k3
  have hreg : ∀ i ∈ s.registered, ∀ k, (s.objs i).oid = some k →
      (s.added.get k = some i → (R.objs i).oid = none) ∧
      (s.added.get k = none → t.creating.has k = false →
        (R.objs i).status = .ghost ∨ (R.objs i).oid = none) := by
    intro i hi k hk
    obtain ⟨e1, e2⟩ := eA i hi k hk
    constructor
    · intro ha
      rw [shAR.noneKept i (e1 ha)]; exact e1 ha
    · intro ha htc
      rcases e2 ha (by rw [hcrn]; rfl) (by unfold tmpCreated; rw [hsp]; exact htc) with h1 | h1
      · exact Or.inl (shAR.ghostKept i h1)
      · right; rw [shAR.noneKept i h1]; exact h1
  have haddR : R.added = [] := by
    apply Map.eq_nil_of_get_none
    intro k
    cases hc : R.added.get k with
    | none => rfl
    | some j =>
      exfalso
      have h1 := sh.added k j hc
      have := (hreg j (hadded k j h1) k (hS.addedS k j h1).1).1 h1
      have h3 := (cR.1.addedS k j hc).1
      rw [this] at h3; cases h3
  have huncR : ∀ k, t.creating.has k = true → cr.has k = false → R.cache.get k = none := by
    intro k h1 h2
    cases hc : R.cache.get k with
    | none => rfl
    | some i =>
      have := shBR.cache k i hc
      rw [eB k (mem_lateKeys.2 ⟨h1, h2⟩)] at this; cases this
  refine ⟨⟨cR.1, sh⟩, ?_, ?_, ?_, ?_, ?_, ?_, ?_, ?_, ?_, ?_, ?_⟩
  · rw [← hRdef, invalidateAll_sp]; rfl
  · rw [← hRdef, invalidateAll_registered]
    show (invalidateCreating _ _).registered = []
    rw [invalidateCreating_registered]; rfl
  · rw [← hRdef, invalidateAll_creating]
    show (invalidateCreating _ _).creating = _
    rw [invalidateCreating_creating]
    show (abortObjs s).creating = _
    rw [abortObjs_creating]
  · rw [← hRdef, invalidateAll_sps]
    show (invalidateCreating _ _).sps = _
    rw [invalidateCreating_sps]
    show (abortObjs s).sps = _
    rw [abortObjs_sps]
  · rw [← hRdef, invalidateAll_ntj]
    show (invalidateCreating _ _).needsToJoin = _
    rw [invalidateCreating_ntj]
    show (abortObjs s).needsToJoin = _
    rw [abortObjs_ntj]
  · rw [← hRdef]; simp
  · exact haddR
  · intro j hch
    have hts : (s.objs j).status = .changed := by
      rcases sh.status j with h1 | h1 | h1
      · rw [← h1]; exact hch
      · rw [h1] at hch; cases hch
      · rw [h1.2.1] at hch; cases hch
    have hr := hchanged j hts
    obtain ⟨k, hk⟩ := Option.ne_none_iff_exists'.1 (hregOid j hr)
    obtain ⟨e1, e2⟩ := hreg j hr k hk
    have hcases : (R.objs j).status = .ghost ∨ (R.objs j).oid = none := by
      cases ha : s.added.get k with
      | none =>
        cases htc : t.creating.has k with
        | false => exact e2 ha htc
        | true =>
          -- created in a savepoint and modified later: left alone by `_abort`; un-created when it is
          -- younger than the savepoint, otherwise invalidated with the saved index
          have hcachedOr : (R.objs j).oid = none ∨ R.cache.get k = some j := by
            rcases sh.oid j with h1 | h1
            · right
              have hoid : (R.objs j).oid = some k := by rw [h1]; exact hk
              have hkn := cR.1.known j k hoid
              simp only [List.not_mem_nil, or_false, haddR, Map.get_nil] at hkn
              rcases hkn with h2 | h2
              · exact h2
              · cases h2
            · exact Or.inl h1.1
          rcases hcachedOr with h1 | h1
          · exact Or.inr h1
          · cases hcr : cr.has k with
            | false => rw [huncR k htc hcr] at h1; cases h1
            | true => exact Or.inl (eR k (Map.mem_keys_iff.2 (hcrIdx k htc)) j h1)
      | some j' =>
        have := hS.inj j' j k (hS.addedS k j' ha).1 hk
        subst this
        exact Or.inr (e1 ha)
    rcases hcases with h1 | h1
    · rw [h1] at hch; cases hch
    · exact sh.disownedClean j h1 (by rw [hk]; simp) hch
  · exact huncR
  · intro k hk i hi
    exact eR k (Map.mem_keys_iff.2 hk) i hi
  · intro j k hj ha hn
    exact kAll j k hj ⟨ha, hn⟩

/-! ### the invariant after a rollback -/

theorem take_get {α} (l : List α) {p q : Nat} (h : q < p) : (l.take p)[q]? = l[q]? := by
  rw [List.getElem?_take]; simp [h]

theorem Inv12.real_entry {s : State} (h : Inv12 s) {n p : Nat} {idx : Map Nat} {cr : Map Bool} (hn : s.sps[n]? = some (SpEntry.real p idx cr)) :
    ∃ t, s.sp = some t ∧ s.needsToJoin = false ∧ EntryWF s.committed t p idx cr ∧ TmpWF s t := by
  have hmem := List.mem_of_getElem? hn
  cases hsp : s.sp with
  | none => exact absurd hmem (h.spsNone hsp p idx cr)
  | some t =>
    refine ⟨t, rfl, ?_, h.spsReal t hsp p idx cr hmem, h.tmp t hsp⟩
    cases hj : s.needsToJoin with
    | false => rfl
    | true => have := (h.idle hj).2.2; rw [hsp] at this; cases this

/-- **The state after `Savepoint.rollback()` satisfies the invariant.** -/
theorem rollbackReal_inv12 {s : State} (h : Inv12 s) {n p : Nat} {idx : Map Nat} {cr : Map Bool}
    (hn : s.sps[n]? = some (SpEntry.real p idx cr)) :
    Inv12 (rollbackSavepoint { s with sps := invalidateAfter n s.sps } p idx cr) := by
  obtain ⟨t, hsp, hj, we, w⟩ := h.real_entry hn
  have hS' : Str [] { s with sps := invalidateAfter n s.sps } := h.str.congr rfl rfl rfl rfl
  have F := rollbackSavepoint_facts (s := { s with sps := invalidateAfter n s.sps }) hS' hsp
    h.regOid h.changedReg h.addedReg h.creatingNil (fun k hk => (w.crIdx k hk).1) p idx cr
  generalize rollbackSavepoint { s with sps := invalidateAfter n s.sps } p idx cr = R at *
  have sh := F.clean.2
  have hSR := F.clean.1
  have hcm : R.committed = s.committed := shared_committed F.shared
  have hlt : R.lastTid = s.lastTid := by
    have := F.shared; simp only [shared, Prod.mk.injEq] at this; exact this.2.1
  have hsnap : R.snap = s.snap := sh.snap
  have hsps : R.sps = invalidateAfter n s.sps := F.sps
  -- an object that keeps its oid keeps its cache entry
  have hkeepc : ∀ k i, s.cache.get k = some i → ¬ (t.creating.has k = true ∧ cr.has k = false) →
      R.cache.get k = some i := by
    intro k i hc hnl
    have hadd : s.added.get k = none := by
      cases ha : s.added.get k with
      | none => rfl
      | some j => have := (h.str.addedS k j ha).2; rw [hc] at this; cases this
    have hoid := F.kept i k (h.str.cacheS k i hc) hadd hnl
    have hkn := hSR.known i k hoid
    simp only [List.not_mem_nil, or_false, F.addedNil, Map.get_nil] at hkn
    rcases hkn with h1 | h1
    · exact h1
    · cases h1
  -- a disowned object was new
  have hdis : ∀ j k, (s.objs j).oid = some k → (R.objs j).oid = none →
      s.added.get k = some j ∨ (s.cache.get k = some j ∧ t.creating.has k = true) := by
    intro j k hjk hX
    have hkn := h.str.known j k hjk
    simp only [List.not_mem_nil, or_false] at hkn
    rcases hkn with hkn | hkn
    · right
      refine ⟨hkn, ?_⟩
      apply Classical.byContradiction
      intro hnc
      have := hkeepc k j hkn (fun hh => hnc hh.1)
      have := hSR.cacheS k j this
      rw [hX] at this; cases this
    · exact Or.inl hkn
  have htake : ∀ q, q < p → (t.reset p idx cr).entries[q]? = t.entries[q]? := by
    intro q hq; exact take_get t.entries hq
  refine ⟨hSR, by rw [F.creating]; exact h.creatingNil, by rw [sh.opened]; exact h.opened,
    by rw [hsnap, hcm]; exact h.snapEq, ?_, ?_, ?_, ?_, ?_, ?_, ?_, ?_, ?_, ?_, ?_, ?_, ?_, ?_, ?_, ?_, ?_⟩
  · intro i hi; rw [F.regNil] at hi; cases hi
  · intro i hi; rw [F.regNil] at hi; cases hi
  · intro k i hi; rw [F.addedNil] at hi; cases hi
  · intro i hi; exact absurd hi (F.noChanged i)
  · intro hn'; rw [F.ntj] at hn'
    have : s.needsToJoin = true := hn'
    rw [hj] at this; cases this
  · -- serial0
    intro j hjn
    rw [(sh.val j).2.2]
    cases ho : (s.objs j).oid with
    | none => exact h.serial0 j ho
    | some k =>
      rcases hdis j k ho hjn with h1 | ⟨h1, h2⟩
      · exact h.addedSerial k j h1
      · exact w.crSerial k j h2 h1
  · intro k i hi; rw [F.addedNil] at hi; cases hi
  · intro k hk
    rw [hcm] at hk; rw [sh.nextOid]; exact h.commFresh k hk
  · intro k hk; rw [F.addedNil] at hk; exact absurd rfl hk
  · intro k c hk
    rw [hcm] at hk; rw [hlt]; exact h.tidB k c hk
  · -- coh
    intro k i hc
    have hcs := sh.cache k i hc
    obtain ⟨r, hr, q1, q2⟩ := h.coh k i hcs
    have hl : loadRec R k = match idx.get k with
        | some q => (t.reset p idx cr).loadAt k q
        | none => s.snap.get k := by
      unfold loadRec; rw [F.sp, hsnap]; rfl
    rw [hl]
    cases hx : idx.get k with
    | some q =>
      obtain ⟨hq, rr, hrr⟩ := we.idxLt k q hx
      have hg := F.ghosted k (we.idxSub k (by rw [hx]; simp)) i hc
      refine ⟨rr, ?_, fun hng => absurd hg hng, fun hu => by rw [hg] at hu; cases hu⟩
      simp only
      apply TmpStore.loadAt_of
      rw [htake q hq]; exact hrr
    | none =>
      simp only
      have hnl : ¬ (t.creating.has k = true) := by
        intro hcr
        cases hh : cr.has k with
        | true => exact (we.crIdx k hh) hx
        | false => rw [F.uncached k hcr hh] at hc; cases hc
      have hcomm : s.committed.get k ≠ none := by
        rcases h.owned k i hcs with h1 | ⟨t1, ht1, h1⟩
        · exact h1
        · rw [hsp] at ht1; cases ht1; exact absurd h1 hnl
      obtain ⟨c, hcc⟩ := Option.ne_none_iff_exists'.1 hcomm
      refine ⟨c, by rw [h.snapEq]; exact hcc, ?_⟩
      have hst : (R.objs i).status ≠ .ghost → (R.objs i).status = (s.objs i).status ∧ r = c := by
        intro hg
        have hti : t.index.get k = none := by
          cases hh : t.index.get k with
          | none => rfl
          | some q => exact absurd (F.ghosted k (by rw [hh]; simp) i hc) hg
        constructor
        · rcases sh.status i with h1 | h1 | h1
          · exact h1
          · exact absurd h1 hg
          · have := hSR.cacheS k i hc; rw [h1.2.2] at this; cases this
        · unfold loadRec at hr
          rw [hsp] at hr
          simp only [hti, h.snapEq, hcc] at hr
          cases hr; rfl
      constructor
      · intro hg
        obtain ⟨h1, h2⟩ := hst hg
        subst h2
        rw [(sh.val i).2.2]
        exact q1 (by rw [← h1]; exact hg)
      · intro hu
        have hg : (R.objs i).status ≠ .ghost := by rw [hu]; simp
        obtain ⟨h1, h2⟩ := hst hg
        subst h2
        rw [(sh.val i).1, (sh.val i).2.1]
        exact q2 (by rw [← h1]; exact hu)
  · -- owned
    intro k i hc
    have hcs := sh.cache k i hc
    rcases h.owned k i hcs with h1 | ⟨t1, ht1, h1⟩
    · left; rw [hcm]; exact h1
    · rw [hsp] at ht1; cases ht1
      right
      refine ⟨_, F.sp, ?_⟩
      show cr.has k = true
      cases hh : cr.has k with
      | true => rfl
      | false => rw [F.uncached k h1 hh] at hc; cases hc
  · -- tmp
    intro t' ht'
    rw [F.sp] at ht'; cases ht'
    refine ⟨?_, ?_, ?_, ?_, ?_, ?_⟩
    · show p = (t.entries.take p).length
      rw [List.length_take]
      have := we.le; have := w.pos; omega
    · intro k q hq
      obtain ⟨h1, rr, hrr⟩ := we.idxLt k q hq
      exact ⟨h1, rr, by rw [htake q h1]; exact hrr⟩
    · intro k hk
      have hk' : idx.get k ≠ none := hk
      obtain ⟨i, hi⟩ := w.idxCached k (we.idxSub k hk')
      refine ⟨i, hkeepc k i hi ?_⟩
      rintro ⟨h1, h2⟩
      rw [we.idxOwned k hk' h1] at h2; cases h2
    · intro k hk
      have hk' : cr.has k = true := hk
      exact ⟨we.crIdx k hk', by rw [hcm]; exact (w.crIdx k (we.crSub k hk')).2⟩
    · intro k q rr hq he
      have hq' : idx.get k = some q := hq
      rw [htake q (we.idxLt k q hq').1] at he
      rw [hcm]
      exact we.recSerial k q rr hq' he
    · intro k i hk hi
      have hk' : cr.has k = true := hk
      rw [(sh.val i).2.2]
      exact w.crSerial k i (we.crSub k hk') (sh.cache k i hi)
  · -- spsReal
    intro t' ht' p' idx' cr' hm
    rw [F.sp] at ht'; cases ht'
    rw [hsps] at hm
    have hm2 : SpEntry.real p' idx' cr' ∈ s.sps.take (n + 1) := by
      rcases mem_invalidateAfter hm with h1 | h1
      · cases h1
      · exact h1
    have we' := h.spsReal t hsp p' idx' cr' (List.mem_of_mem_take hm2)
    have hle : p' ≤ p ∧ (∀ k, idx'.get k ≠ none → idx.get k ≠ none) ∧
        (∀ k, cr'.has k = true → cr.has k = true) := by
      rcases before_entry h.spsOrder hn hm2 with h1 | h1
      · cases h1; exact ⟨Nat.le_refl _, fun _ hk => hk, fun _ hk => hk⟩
      · exact h1
    obtain ⟨l1, l2, l3⟩ := hle
    refine ⟨l1, ?_, l2, l3, we'.crIdx, ?_, ?_⟩
    · intro k q hq
      obtain ⟨h1, rr, hrr⟩ := we'.idxLt k q hq
      exact ⟨h1, rr, by rw [htake q (by omega)]; exact hrr⟩
    · intro k hk hc
      exact we'.idxOwned k hk (we.crSub k hc)
    · intro k q rr hq he
      rw [htake q (by have := (we'.idxLt k q hq).1; omega)] at he
      rw [hcm]
      exact we'.recSerial k q rr hq he
  · intro hn'; rw [F.sp] at hn'; cases hn'
  · rw [hsps]; exact invalidateAfter_pairwise h.spsOrder
  · intro _ hm
    rw [hsps] at hm
    rcases mem_invalidateAfter hm with h1 | h1
    · cases h1
    · exact h.spsFlag hj (List.mem_of_mem_take h1)

/-! ### rolling back to a savepoint made before the connection joined -/

theorem Inv12.invalidated {s : State} (h : Inv12 s) (n : Nat) :
    Inv12 { s with sps := invalidateAfter n s.sps } := by
  have hreal : ∀ p idx cr, SpEntry.real p idx cr ∈ invalidateAfter n s.sps → SpEntry.real p idx cr ∈ s.sps := by
    intro p idx cr hm
    rcases mem_invalidateAfter hm with h1 | h1
    · cases h1
    · exact List.mem_of_mem_take h1
  refine h.transfer rfl rfl rfl rfl rfl rfl rfl rfl rfl rfl rfl rfl ?_ ?_ ?_ ?_
  · intro t ht p idx cr hm; exact h.spsReal t ht p idx cr (hreal p idx cr hm)
  · intro hn p idx cr hm; exact h.spsNone hn p idx cr (hreal p idx cr hm)
  · exact invalidateAfter_pairwise h.spsOrder
  · intro hj hm
    rcases mem_invalidateAfter hm with h1 | h1
    · cases h1
    · exact h.spsFlag hj (List.mem_of_mem_take h1)

/-- the state after `Connection.abort` in the middle of a transaction (rollback to an
    `AbortSavepoint`) satisfies the invariant when no savepoint of the connection remains -/
theorem abortDone_inv12 {t X : State} (hr : AbortReady t) (h : AbortDone t X) (hop : X.opened = true)
    (hsn : X.snap = X.committed) (hnr : ∀ p idx cr, SpEntry.real p idx cr ∉ X.sps)
    (hord : X.sps.Pairwise entryLe) : Inv12 X := by
  have hcomm := shared_committed h.shared
  have hlt : X.lastTid = t.lastTid := by
    have := h.shared; simp only [shared, Prod.mk.injEq] at this; exact this.2.1
  refine ⟨h.clean.1, h.creatingNil, hop, hsn, ?_, ?_, ?_, ?_, fun _ => ⟨h.regNil, h.addedNil, h.spNone⟩,
    h.serial0, ?_, ?_, ?_, ?_, ?_, ?_, ?_, ?_, fun _ => hnr, hord, ?_⟩
  · intro i hi; rw [h.regNil] at hi; cases hi
  · intro i hi; rw [h.regNil] at hi; cases hi
  · intro k i hi; rw [h.addedNil] at hi; cases hi
  · intro i hi; exact absurd hi (h.noChanged i)
  · intro k i hi; rw [h.addedNil] at hi; cases hi
  · intro k hk
    rw [h.clean.2.nextOid]
    exact hr.commFresh k (by rw [← hcomm]; exact hk)
  · intro k hk; rw [h.addedNil] at hk; exact absurd rfl hk
  · intro k c hk
    rw [hlt]; exact hr.tidB k c (by rw [← hcomm]; exact hk)
  · intro k i hc
    obtain ⟨c, hcc, q1, q2⟩ := h.coh k i hc
    refine ⟨c, ?_, q1, q2⟩
    unfold loadRec; rw [h.spNone]; simp only; rw [hsn]; exact hcc
  · intro k i hc
    obtain ⟨c, hcc, _⟩ := h.coh k i hc
    left; rw [hcc]; simp
  · intro t' ht'; rw [h.spNone] at ht'; cases ht'
  · intro t' ht'; rw [h.spNone] at ht'; cases ht'
  · intro hf; rw [h.ntj] at hf; cases hf

/-- **`Savepoint.rollback()` keeps the invariant**, whatever kind of savepoint it is. -/
theorem txnRollback_inv12 {s : State} (h : Inv12 s) (n : Nat) : Inv12 (txnRollback s n).1 := by
  unfold txnRollback
  cases hn : s.sps[n]? with
  | none => exact h
  | some e =>
    cases e with
    | invalid => exact h
    | real p idx cr => exact rollbackReal_inv12 h hn
    | abortSp joined =>
      dsimp only
      have hi := h.invalidated n
      cases joined with
      | false => exact hi
      | true =>
        simp only [if_true]
        have hd := connAbort_done hi.abortReady
        have hsps : (connAbort { s with sps := invalidateAfter n s.sps }).sps = invalidateAfter n s.sps :=
          hd.sps
        apply abortDone_inv12 hi.abortReady hd
        · rw [hd.clean.2.opened]; exact h.opened
        · rw [hd.clean.2.snap, shared_committed hd.shared]; exact h.snapEq
        · intro p idx cr hm
          rw [hsps] at hm
          rcases mem_invalidateAfter hm with h1 | h1
          · cases h1
          · rcases before_entry h.spsOrder hn h1 with h2 | h2
            · cases h2
            · exact h2
        · rw [hsps]; exact invalidateAfter_pairwise h.spsOrder

end Proofs.Conn
