/-
  Locality of the scanner on ARBITRARY bytes: an accepted step reads only the `tl + 8` bytes it
  steps over, so cutting the file anywhere behind them does not change it.  Used for the
  unconditional idempotence of recovery.  Core Lean only.
-/
import Proofs.FormatScan
namespace Proofs.Format
open ZodbModel ZodbModel.Format

theorem take_take_ge {α} (l : List α) {a m : Nat} (h : a ≤ m) : (l.take m).take a = l.take a := by
  rw [List.take_take, Nat.min_eq_left h]

/-- reading a field from a cut-off buffer -/
theorem rd_take (n m : Nat) (l : Bytes) (h : n ≤ m) :
    rd n (l.take m) = ((rd n l).1, (rd n l).2.take (m - n)) := by
  simp only [rd, take_take_ge l h, List.drop_take]

theorem parseRec_take {rest : Bytes} {r : FRec} {dlen : Nat} (h : parseRec rest = .ok (r, dlen))
    (m : Nat) (hm : dlen ≤ m) : parseRec (rest.take m) = .ok (r, dlen) ∧ 43 ≤ dlen := by
  unfold parseRec at h ⊢
  split at h
  · simp at h
  · rename_i h42
    simp only [] at h
    split at h
    · simp at h
    · split at h
      · -- back pointer
        split at h
        · simp at h
        · rename_i hv hz h8
          simp only [Except.ok.injEq, Prod.mk.injEq] at h
          obtain ⟨hr, hd⟩ := h
          subst hd
          have h42' : ((rest.take m).take 42).length = 42 := by
            rw [take_take_ge _ (by omega)]; simpa using h42
          rw [if_neg (by omega)]
          simp only [rd_take _ _ _ (by omega : 8 ≤ m), rd_take _ _ _ (by omega : 8 ≤ m - 8),
            rd_take _ _ _ (by omega : 8 ≤ m - 8 - 8), rd_take _ _ _ (by omega : 8 ≤ m - 8 - 8 - 8),
            rd_take _ _ _ (by omega : 2 ≤ m - 8 - 8 - 8 - 8),
            rd_take _ _ _ (by omega : 8 ≤ m - 8 - 8 - 8 - 8 - 2)]
          rw [if_neg hv, if_pos hz]
          have e : ∀ (l : Bytes), (l.take (m - 8 - 8 - 8 - 8 - 2 - 8)).take 8 = l.take 8 :=
            fun l => take_take_ge l (by omega)
          rw [e, if_neg h8]
          exact ⟨by rw [← hr], by omega⟩
      · -- data
        rename_i hv hz
        simp only [Except.ok.injEq, Prod.mk.injEq] at h
        obtain ⟨hr, hd⟩ := h
        subst hd
        have h42' : ((rest.take m).take 42).length = 42 := by
          rw [take_take_ge _ (by omega)]; simpa using h42
        rw [if_neg (by omega)]
        simp only [rd_take _ _ _ (by omega : 8 ≤ m), rd_take _ _ _ (by omega : 8 ≤ m - 8),
          rd_take _ _ _ (by omega : 8 ≤ m - 8 - 8), rd_take _ _ _ (by omega : 8 ≤ m - 8 - 8 - 8),
          rd_take _ _ _ (by omega : 2 ≤ m - 8 - 8 - 8 - 8),
          rd_take _ _ _ (by omega : 8 ≤ m - 8 - 8 - 8 - 8 - 2)]
        rw [if_neg hv, if_neg hz]
        have e : ∀ (l : Bytes) (a : Nat), a ≤ m - 42 →
            (l.take (m - 8 - 8 - 8 - 8 - 2 - 8)).take a = l.take a :=
          fun l a ha => take_take_ge l (by omega)
        rw [e _ _ (by omega)]
        exact ⟨by rw [← hr], by omega⟩

theorem walkRecs_take : ∀ (f : Nat) (rest : Bytes) (pos tpos tend : Nat) (l : List (Nat × FRec)) (m : Nat),
    walkRecs f rest pos tpos tend = .ok l → tend - pos ≤ m →
    walkRecs f (rest.take m) pos tpos tend = .ok l := by
  intro f
  induction f with
  | zero => intro rest pos tpos tend l m h; simp [walkRecs] at h
  | succ f ih =>
    intro rest pos tpos tend l m h hm
    simp only [walkRecs] at h ⊢
    split at h
    · rename_i hlt
      rw [if_pos hlt]
      cases hp : parseRec rest with
      | error e => rw [hp] at h; simp at h
      | ok v =>
        obtain ⟨r, dlen⟩ := v
        rw [hp] at h
        simp only [] at h
        split at h
        · simp at h
        · rename_i hchk
          have hd : dlen ≤ m := by omega
          rw [(parseRec_take hp m hd).1]
          simp only []
          rw [if_neg hchk]
          cases hw : walkRecs f (rest.drop dlen) (pos + dlen) tpos tend with
          | error e => rw [hw] at h; simp at h
          | ok l' =>
            rw [hw] at h
            rw [List.drop_take, ih _ _ _ _ _ (m - dlen) hw (by omega)]
            exact h
    · rename_i hlt
      rw [if_neg hlt]
      exact h


theorem parseTxn_ok_take {rest : Bytes} {pos : Nat} {t : FTxn} {precs : List (Nat × FRec)} {len : Nat}
    (h : parseTxn rest pos = .ok t precs len) (m : Nat) (hm : len ≤ m) :
    parseTxn (rest.take m) pos = .ok t precs len := by
  have hl := parseTxn_ok_len h
  unfold parseTxn at h ⊢
  simp only [] at h ⊢
  split at h
  · simp at h
  · rename_i h0
    split at h
    · simp at h
    · rename_i h23
      have h23' : (rest.take 23).length = 23 := by
        by_cases hx : (rest.take 23).length = 23
        · exact hx
        · exact absurd hx (by simpa using h23)
      have hm23 : 23 ≤ m := by omega
      have hhead : (rest.take m).take 23 = rest.take 23 := take_take_ge rest hm23
      rw [hhead]
      rw [if_neg h0, if_neg (by simpa using h23)]
      split at h
      · simp at h
      · rename_i hU
        rw [if_neg hU]
        split at h
        · simp at h
        · rename_i hA
          split at h
          · split at h <;> simp at h
          · rename_i hB
            split at h
            · simp at h
            · rename_i hC
              split at h
              · split at h <;> simp at h
              · rename_i hD
                cases hw : walkRecs ((parseHdr (rest.take 23)).tl + 1)
                    (rest.drop (23 + (parseHdr (rest.take 23)).ul + (parseHdr (rest.take 23)).dl +
                      (parseHdr (rest.take 23)).el))
                    (pos + (23 + (parseHdr (rest.take 23)).ul + (parseHdr (rest.take 23)).dl +
                      (parseHdr (rest.take 23)).el)) pos (pos + (parseHdr (rest.take 23)).tl) with
                | error e => rw [hw] at h; simp at h
                | ok l =>
                  rw [hw] at h
                  simp only [] at h
                  split at h
                  · simp at h
                  · rename_i hE
                    simp only [ParseResult.ok.injEq] at h
                    obtain ⟨ht, hp, hlen⟩ := h
                    have hlm : (rest.take m).length = min m rest.length := List.length_take
                    rw [if_neg (by rw [hlm]; omega), if_neg hB, if_neg hC, if_neg hD]
                    rw [List.drop_take, walkRecs_take _ _ _ _ _ _ _ hw (by omega)]
                    simp only []
                    have e8 : ((rest.take m).drop (parseHdr (rest.take 23)).tl).take 8
                        = (rest.drop (parseHdr (rest.take 23)).tl).take 8 := by
                      rw [List.drop_take]; exact take_take_ge _ (by omega)
                    rw [e8, if_neg hE]
                    have eu : ((rest.take m).drop 23).take (parseHdr (rest.take 23)).ul
                        = (rest.drop 23).take (parseHdr (rest.take 23)).ul := by
                      rw [List.drop_take]; exact take_take_ge _ (by omega)
                    have ed : ((rest.take m).drop (23 + (parseHdr (rest.take 23)).ul)).take
                          (parseHdr (rest.take 23)).dl
                        = (rest.drop (23 + (parseHdr (rest.take 23)).ul)).take
                          (parseHdr (rest.take 23)).dl := by
                      rw [List.drop_take]; exact take_take_ge _ (by omega)
                    have ee : ((rest.take m).drop (23 + (parseHdr (rest.take 23)).ul +
                          (parseHdr (rest.take 23)).dl)).take (parseHdr (rest.take 23)).el
                        = (rest.drop (23 + (parseHdr (rest.take 23)).ul +
                          (parseHdr (rest.take 23)).dl)).take (parseHdr (rest.take 23)).el := by
                      rw [List.drop_take]; exact take_take_ge _ (by omega)
                    rw [eu, ed, ee]
                    simp only [ParseResult.ok.injEq]
                    exact ⟨ht, hp, hlen⟩

theorem parseTxn_skip_take {rest : Bytes} {pos tid len : Nat}
    (h : parseTxn rest pos = .skip tid len) (m : Nat) (hm : len ≤ m) :
    parseTxn (rest.take m) pos = .skip tid len := by
  have hl := parseTxn_skip_len h
  unfold parseTxn at h ⊢
  simp only [] at h ⊢
  split at h
  · simp at h
  · rename_i h0
    split at h
    · simp at h
    · rename_i h23
      have hm23 : 23 ≤ m := by omega
      have hhead : (rest.take m).take 23 = rest.take 23 := take_take_ge rest hm23
      rw [hhead]
      rw [if_neg h0, if_neg (by simpa using h23)]
      split at h
      · simp at h
      · rename_i hU
        rw [if_neg hU]
        split at h
        · simp at h
        · rename_i hA
          split at h
          · split at h <;> simp at h
          · rename_i hB
            split at h
            · simp at h
            · rename_i hC
              split at h
              · rename_i hD
                split at h
                · simp at h
                · rename_i hE
                  simp only [ParseResult.skip.injEq] at h
                  have hlm : (rest.take m).length = min m rest.length := List.length_take
                  rw [if_neg (by rw [hlm]; omega), if_neg hB, if_neg hC, if_pos hD]
                  have e8 : ((rest.take m).drop (parseHdr (rest.take 23)).tl).take 8
                      = (rest.drop (parseHdr (rest.take 23)).tl).take 8 := by
                    rw [List.drop_take]; exact take_take_ge _ (by omega)
                  rw [e8, if_neg hE]
                  simp only [ParseResult.skip.injEq]
                  exact h
              · split at h
                · simp at h
                · split at h <;> simp at h

theorem parseTxn_nil (pos : Nat) : parseTxn [] pos = .eof := by
  simp [parseTxn]

/-- the scan never moves backwards -/
theorem scan_pos_ge : ∀ (f : Nat) (rest : Bytes) (pos : Nat) (st : ScanState) (r : ScanResult),
    scan f rest pos st = .ok r → pos ≤ r.pos := by
  intro f
  induction f with
  | zero => intro rest pos st r h; simp [scan] at h; subst h; exact Nat.le_refl _
  | succ f ih =>
    intro rest pos st r h
    simp only [scan] at h
    split at h <;> try (simp at h; subst h; exact Nat.le_refl _)
    · have := ih _ _ _ _ h; omega
    · have := ih _ _ _ _ h; omega
    · simp at h

/-- a scan that ends because nothing is left has consumed everything -/
theorem scan_eof_pos : ∀ (f : Nat) (rest : Bytes) (pos : Nat) (st : ScanState) (r : ScanResult),
    scan f rest pos st = .ok r → r.how = .eof → rest.length < f → r.pos = pos + rest.length := by
  intro f
  induction f with
  | zero => intro rest pos st r _ _ h; omega
  | succ f ih =>
    intro rest pos st r h he hf
    simp only [scan] at h
    split at h
    · rename_i heq
      simp at h; subst h
      have : rest = [] := by
        unfold parseTxn at heq
        simp only [] at heq
        split at heq
        · rename_i h0; simpa using h0
        · repeat' (split at heq <;> try (simp at heq))
      simp [this]
    · simp at h; subst h; simp at he
    · simp at h; subst h; simp at he
    · simp at h; subst h; simp at he
    · rename_i tid len heq
      have hl := parseTxn_skip_len heq
      have := ih _ _ _ _ h he (by simp; omega)
      simp at this; omega
    · rename_i t precs len heq
      have hl := parseTxn_ok_len heq
      have := ih _ _ _ _ h he (by simp; omega)
      simp at this; omega
    · simp at h

/-- cutting the bytes where the scan stopped: the same scan, now ending cleanly -/
theorem scan_take : ∀ (f : Nat) (rest : Bytes) (pos : Nat) (st : ScanState) (r : ScanResult),
    scan f rest pos st = .ok r → r.how ≠ .stop → rest.length < f →
    scan f (rest.take (r.pos - pos)) pos st = .ok { r with how := .eof } := by
  intro f
  induction f with
  | zero => intro rest pos st r _ _ h; omega
  | succ f ih =>
    intro rest pos st r h hs hf
    have hge := scan_pos_ge _ _ _ _ _ h
    simp only [scan] at h
    split at h
    · simp at h; subst h; simp [scan, parseTxn_nil]
    · simp at h; subst h; simp [scan, parseTxn_nil]
    · simp at h; subst h; simp [scan, parseTxn_nil]
    · simp at h; subst h; simp at hs
    · rename_i tid len heq
      have hl := parseTxn_skip_len heq
      have hge' := scan_pos_ge _ _ _ _ _ h
      have := ih _ _ _ _ h hs (by simp; omega)
      simp only [scan, parseTxn_skip_take heq (r.pos - pos) (by omega)]
      rw [List.drop_take]
      have e : r.pos - pos - len = r.pos - (pos + len) := by omega
      rw [e]; exact this
    · rename_i t precs len heq
      have hl := parseTxn_ok_len heq
      have hge' := scan_pos_ge _ _ _ _ _ h
      have := ih _ _ _ _ h hs (by simp; omega)
      simp only [scan, parseTxn_ok_take heq (r.pos - pos) (by omega)]
      rw [List.drop_take]
      have e : r.pos - pos - len = r.pos - (pos + len) := by omega
      rw [e]; exact this
    · simp at h

end Proofs.Format
