/-
  The inductive invariant of the MVCC model (DESIGN C02, clauses (A)-(D)) and frame lemmas.
  Core Lean only.
-/
import Proofs.MvccSteps
namespace Proofs.Mvcc
open ZodbModel.Mvcc

/-- global part: tid discipline of the log and of the transaction holding the commit lock -/
structure Glob (log : List Txn) (infl : Option Infl) (next n : Nat) : Prop where
  sorted : Sorted log
  loglt : ∀ T ∈ log, T.tid < next
  next_pos : 0 < next
  infl_ok : ∀ f, infl = some f → 0 < f.tid ∧ f.tid < next ∧ (∀ T ∈ log, T.tid < f.tid) ∧
      (f.phase ≠ .finishing → f.delivered = []) ∧ (∀ j ∈ f.delivered, j < n ∧ f.who ≠ some j)

/-- per-instance part.  (A) = a1,a2   (B) = b0..b6   (C) = c1..c4,s1,s2   (D) is the guard structure
    of `step` (pollRead / storage reads are disabled inside a finish section). -/
structure InstInv (log : List Txn) (infl : Option Infl) (next : Nat) (i : Nat) (x : Inst) : Prop where
  ltid_lt : x.ltid < next
  polled_le : ∀ L, x.polled = some L → L ≤ headTid log
  /-- (C) everything published after registration was delivered before its publication -/
  c1 : ∀ T ∈ log, x.regAt < T.tid → T.tid ≤ x.ltid
  /-- (C) strengthening for the transaction inside its finish section -/
  c2 : ∀ f, infl = some f →
      (i ∈ f.delivered → x.ltid = f.tid) ∧ (i ∉ f.delivered → x.ltid < f.tid)
  c3 : x.regAt ≤ headTid log ∨ ∃ f, infl = some f ∧ f.phase = .finishing ∧ x.regAt = f.tid
  c4 : ∀ L, x.polled = some L → x.regAt ≤ L
  s1 : x.start ≤ max (headTid log) x.ltid + 1
  s2 : ∀ L, x.polled = some L → x.start ≤ max L x.ltid + 1
  /-- (A) every foreign change at or above the bound is still pending in `inval` -/
  a1 : ∀ T ∈ log, x.regAt < T.tid → x.start ≤ T.tid → T.who ≠ some i →
      ∀ oid ∈ T.oids, covers x.inval oid
  a2 : ∀ f, infl = some f → i ∈ f.delivered → x.start ≤ f.tid →
      ∀ oid ∈ oidsOf f.writes, covers x.inval oid
  /-- (B) cache entries are revisions of the log, not overwritten below the bound -/
  b0 : ∀ oid ser d, x.cache oid = some (ser, d) → x.regAt < x.start ∨ x.regAt ≤ ser
  b1 : ∀ oid ser d, x.cache oid = some (ser, d) → stateAt log (ser + 1) oid = some (ser, d)
  b2 : ∀ oid ser d, x.cache oid = some (ser, d) → ∀ T ∈ log, ser < T.tid → oid ∈ T.oids →
      x.start ≤ T.tid ∧ T.who ≠ some i
  b3 : ∀ f, infl = some f → i ∈ f.delivered → f.tid < x.start →
      ∀ oid ∈ oidsOf f.writes, x.cache oid = none
  b4 : ∀ oid ser d, x.cache oid = some (ser, d) → ser < x.start ∨ (x.live = false ∧ ser ≤ x.ltid)
  b5 : x.live = true → x.regAt < x.start
  b6 : ∀ T ∈ log, T.who = some i → T.tid < x.start ∨ x.live = false

/-- historical instances: constant bound, log only grows at or above it -/
structure HistInv (log : List Txn) (infl : Option Infl) (next : Nat) (y : Hist) : Prop where
  h1 : ∃ ext, log = ext ++ y.log0 ∧ ∀ T ∈ ext, y.before ≤ T.tid
  h2 : y.before ≤ next ∧ ∀ f, infl = some f → y.before ≤ f.tid
  h3 : ∀ oid e, y.cache oid = some e → stateAt y.log0 y.before oid = some e

structure Inv (s : Sys) : Prop where
  glob : Glob s.log s.infl s.next s.n
  inst : ∀ i, i < s.n → InstInv s.log s.infl s.next i (s.insts i)
  hist : ∀ h, h < s.nh → HistInv s.log s.infl s.next (s.hists h)

theorem inv_init : Inv init := by
  refine ⟨⟨?_, ?_, ?_, ?_⟩, ?_, ?_⟩
  · simp [init]
  · intro T hT; simp [init] at hT
  · simp [init]
  · intro f hf; simp [init] at hf
  · intro i hi; simp [init] at hi
  · intro h hh; simp [init] at hh

/-! ### derived facts -/

theorem headTid_lt_infl {log infl next n} (g : Glob log infl next n) {f : Infl} (hf : infl = some f) :
    headTid log < f.tid := by
  obtain ⟨h0, _, h2, _, _⟩ := g.infl_ok f hf
  exact headTid_lt h0 h2

theorem headTid_lt_next {log infl next n} (g : Glob log infl next n) :
    headTid log < next := headTid_lt g.next_pos g.loglt

/-- the key fact of `pollApply`: nothing published is at or above the new bound -/
theorem all_below_new_start {log infl next i x} (v : InstInv log infl next i x) {L : Nat}
    (hp : x.polled = some L) : ∀ T ∈ log, T.tid < max L x.ltid + 1 := by
  intro T hT
  by_cases h : x.regAt < T.tid
  · have := v.c1 T hT h; omega
  · have := v.c4 L hp; omega

/-- the bound never exceeds an undelivered in-flight tid -/
theorem start_le_infl {log infl next n i x} (g : Glob log infl next n) (v : InstInv log infl next i x)
    {f : Infl} (hf : infl = some f) (hd : i ∉ f.delivered) : x.start ≤ f.tid := by
  have h1 := headTid_lt_infl g hf
  have h2 := (v.c2 f hf).2 hd
  have := v.s1
  omega

/-- a cache entry of a live instance IS the snapshot at its bound (log part) -/
theorem entry_is_snapshot {log infl next i x} (v : InstInv log infl next i x) {oid ser : Nat} {d : Data}
    (hc : x.cache oid = some (ser, d)) (hl : x.live = true) :
    stateAt log x.start oid = some (ser, d) := by
  have hlt : ser < x.start := by
    rcases v.b4 oid ser d hc with h | h
    · exact h
    · rw [hl] at h; cases h.1
  exact stateAt_of_entry (v.b1 oid ser d hc) hlt (fun T hT h1 h2 => (v.b2 oid ser d hc T hT h1 h2).1)

end Proofs.Mvcc
