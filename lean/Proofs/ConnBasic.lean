/-
  Helper lemmas for the connection model (`ZodbModel/Conn.lean`), part 1: finite maps, and which
  fields every primitive step leaves alone ("frame" lemmas).  Core Lean only.
-/
import ZodbModel.Conn
namespace Proofs.Conn
open ZodbModel ZodbModel.Conn

theorem nodup_reverse {l : List Nat} (h : l.Nodup) : l.reverse.Nodup := by
  rw [List.Nodup, List.pairwise_reverse]
  exact h.imp (fun h => Ne.symm h)

/-! ### maps -/
namespace Map
variable {α : Type}

@[simp] theorem get_nil (k : Nat) : Map.get ([] : Map α) k = none := rfl

theorem get_set (m : Map α) (k k' : Nat) (v : α) :
    (m.set k v).get k' = if k' = k then some v else m.get k' := by
  induction m with
  | nil => simp [Map.set, Map.get]
  | cons x t ih =>
    obtain ⟨k₀, v₀⟩ := x
    simp only [Map.set]
    split
    · simp [Map.get]
    · split
      · subst_vars; simp only [Map.get]; split <;> rfl
      · simp only [Map.get, ih]; grind

@[simp] theorem get_set_same (m : Map α) (k : Nat) (v : α) : (m.set k v).get k = some v := by
  simp [get_set]

theorem get_set_ne (m : Map α) {k k' : Nat} (v : α) (h : k' ≠ k) : (m.set k v).get k' = m.get k' := by
  simp [get_set, h]

theorem get_del (m : Map α) (k k' : Nat) :
    (m.del k).get k' = if k' = k then none else m.get k' := by
  induction m with
  | nil => simp [Map.del, Map.get]
  | cons x t ih =>
    obtain ⟨k₀, v₀⟩ := x
    simp only [Map.del, List.filter] at ih ⊢
    by_cases h : k₀ = k
    · subst h; simp [Map.get]; grind
    · have : (k₀ != k) = true := by simp [h]
      simp only [this, Map.get, ih]; grind

@[simp] theorem get_del_same (m : Map α) (k : Nat) : (m.del k).get k = none := by simp [get_del]

theorem del_of_get_none (m : Map α) (k : Nat) (h : m.get k = none) : m.del k = m := by
  induction m with
  | nil => rfl
  | cons x t ih =>
    obtain ⟨k₀, v₀⟩ := x
    simp only [Map.get] at h
    split at h
    · simp at h
    · rename_i hne
      have : (k₀ != k) = true := by simp; omega
      simp only [Map.del, List.filter, this]
      congr 1
      exact ih h

theorem has_iff (m : Map α) (k : Nat) : m.has k = true ↔ m.get k ≠ none := by
  unfold Map.has; cases m.get k <;> simp

theorem has_eq_false (m : Map α) (k : Nat) : m.has k = false ↔ m.get k = none := by
  unfold Map.has; cases m.get k <;> simp

theorem mem_keys_of_get {m : Map α} {k : Nat} {v : α} (h : m.get k = some v) : k ∈ m.keys := by
  induction m with
  | nil => simp at h
  | cons x t ih =>
    obtain ⟨k₀, v₀⟩ := x
    simp only [Map.get] at h
    simp only [Map.keys, List.map_cons, List.mem_cons]
    split at h
    · left; assumption
    · right; exact ih h

theorem get_of_mem_keys {m : Map α} {k : Nat} (h : k ∈ m.keys) : m.get k ≠ none := by
  induction m with
  | nil => simp [Map.keys] at h
  | cons x t ih =>
    obtain ⟨k₀, v₀⟩ := x
    simp only [Map.keys, List.map_cons, List.mem_cons] at h
    simp only [Map.get]
    split
    · simp
    · rcases h with h | h
      · contradiction
      · exact ih h

theorem mem_keys_iff {m : Map α} {k : Nat} : k ∈ m.keys ↔ m.get k ≠ none :=
  ⟨get_of_mem_keys, fun h => by
    cases h' : m.get k with
    | none => exact absurd h' h
    | some v => exact mem_keys_of_get h'⟩

theorem mem_of_get {m : Map α} {k : Nat} {v : α} (h : m.get k = some v) : (k, v) ∈ m := by
  induction m with
  | nil => simp at h
  | cons x t ih =>
    obtain ⟨k₀, v₀⟩ := x
    simp only [Map.get] at h
    split at h
    · simp_all
    · exact List.mem_cons_of_mem _ (ih h)

theorem get_ne_none_of_mem {m : Map α} {k : Nat} {v : α} (h : (k, v) ∈ m) : m.get k ≠ none := by
  apply get_of_mem_keys
  simp only [Map.keys, List.mem_map]
  exact ⟨(k, v), h, rfl⟩

/-- `dict.update`: the second map wins -/
theorem get_update (m m2 : Map α) (k : Nat) :
    (m.update m2).get k ≠ none ↔ (m.get k ≠ none ∨ m2.get k ≠ none) := by
  unfold Map.update
  induction m2 generalizing m with
  | nil => simp
  | cons x t ih =>
    obtain ⟨k₀, v₀⟩ := x
    simp only [List.foldl_cons, ih, get_set, Map.get]
    grind

/-! sortedness: every map of the model is built by `set`/`del` from `[]`, so its keys are strictly
    increasing; needed where the code iterates over a dict while mutating it (`popitem`) -/

abbrev Sorted (m : Map α) : Prop := m.Pairwise (fun x y => x.1 < y.1)

theorem sorted_nil : Sorted ([] : Map α) := List.Pairwise.nil

theorem set_sorted {m : Map α} (h : Sorted m) (k : Nat) (v : α) : Sorted (m.set k v) := by
  induction m with
  | nil => simp [Map.set, Sorted]
  | cons x t ih =>
    obtain ⟨k₀, v₀⟩ := x
    rw [Sorted, List.pairwise_cons] at h
    simp only [Map.set]
    split
    · rw [Sorted, List.pairwise_cons, List.pairwise_cons]
      refine ⟨?_, h⟩
      intro y hy
      rcases List.mem_cons.1 hy with hy | hy
      · subst hy; assumption
      · have := h.1 y hy; simp only at this ⊢; omega
    · split
      · subst_vars
        rw [Sorted, List.pairwise_cons]; exact h
      · rw [Sorted, List.pairwise_cons]
        refine ⟨?_, ih h.2⟩
        intro y hy
        have hmem : y = (k, v) ∨ y ∈ t := by
          clear ih h
          induction t with
          | nil => simp [Map.set] at hy; exact Or.inl hy
          | cons z t' ih' =>
            obtain ⟨k₁, v₁⟩ := z
            simp only [Map.set] at hy
            split at hy
            · rcases List.mem_cons.1 hy with hy | hy
              · exact Or.inl hy
              · exact Or.inr hy
            · split at hy
              · rcases List.mem_cons.1 hy with hy | hy
                · exact Or.inl hy
                · exact Or.inr (List.mem_cons_of_mem _ hy)
              · rcases List.mem_cons.1 hy with hy | hy
                · exact Or.inr (by rw [hy]; exact List.mem_cons_self)
                · rcases ih' hy with h' | h'
                  · exact Or.inl h'
                  · exact Or.inr (List.mem_cons_of_mem _ h')
        rcases hmem with hy | hy
        · subst hy; simp only; omega
        · exact h.1 y hy

theorem del_sorted {m : Map α} (h : Sorted m) (k : Nat) : Sorted (m.del k) :=
  List.Pairwise.sublist List.filter_sublist h

theorem get_of_mem_sorted {m : Map α} (h : Sorted m) {k : Nat} {v : α} (hm : (k, v) ∈ m) :
    m.get k = some v := by
  induction m with
  | nil => simp at hm
  | cons x t ih =>
    obtain ⟨k₀, v₀⟩ := x
    rw [Sorted, List.pairwise_cons] at h
    simp only [Map.get]
    rcases List.mem_cons.1 hm with hm | hm
    · simp_all
    · have := h.1 _ hm
      simp only at this
      rw [if_neg (by omega)]
      exact ih h.2 hm

/-- popping the first item of a sorted map = deleting its key -/
theorem del_head_sorted {k : Nat} {v : α} {t : Map α} (h : Sorted ((k, v) :: t)) :
    Map.del ((k, v) :: t) k = t := by
  rw [Sorted, List.pairwise_cons] at h
  simp only [Map.del, List.filter, bne_self_eq_false]
  apply List.filter_eq_self.2
  intro y hy
  have := h.1 y hy
  simp only at this ⊢
  simp; omega

end Map

end Proofs.Conn
