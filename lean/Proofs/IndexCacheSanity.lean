/-
  C09 helper lemmas, part 3: on a file that begins with well-formed data, `_check_sanity` started at
  the end of that data never raises — whatever index it is given and whatever follows the data.
  Core Lean only.
-/
import Proofs.IndexCacheOpen
namespace Proofs.IndexCache
open ZodbModel ZodbModel.Format ZodbModel.Disk ZodbModel.IndexCache Proofs.Format Proofs.Disk

/-- the record loop over well-formed records never raises -/
theorem sanityRecs_no_error (file : Bytes) (index : Index) (tpos tend : Nat) (htp : tpos < 2 ^ 64) :
    ∀ (fuel : Nat) (rs : List FRec) (more : Bytes) (opos checked : Nat),
      (∀ r ∈ rs, RecWF tpos r) → file.drop opos = encodeRecs rs ++ more → tend = opos + recsLen rs →
      ∃ b, sanityRecs file index tpos tend fuel opos checked = .ok b := by
  intro fuel
  induction fuel with
  | zero => intro rs more opos checked _ _ _; exact ⟨true, rfl⟩
  | succ f ih =>
    intro rs more opos checked hrs hdrop htend
    simp only [sanityRecs]
    split
    · rename_i hlt
      cases rs with
      | nil => simp [recsLen] at htend; omega
      | cons r rs =>
        have hr := hrs r List.mem_cons_self
        have henc : encodeRecs (r :: rs) ++ more = encodeRec r ++ (encodeRecs rs ++ more) := by
          simp [encodeRecs]
        rw [hdrop, henc, parseRec_encode r _ tpos hr (by rw [hr.2.2.2.1]; exact htp)]
        simp only []
        split
        · exact ⟨false, rfl⟩
        · split
          · exact ⟨false, rfl⟩
          · refine ih rs more _ _ (fun x hx => hrs x (List.mem_cons_of_mem _ hx)) ?_ ?_
            · rw [← List.drop_drop, hdrop, henc]
              exact drop_append_eq (encodeRec_length r hr.2.2.2.2)
            · simp only [recsLen, List.map_cons, List.sum_cons] at htend ⊢; omega
    · exact ⟨true, rfl⟩

/-- one step of the backward walk at the end of a well-formed transaction: it returns without
    raising, or walks on to the start of that transaction -/
theorem sanityStep_wf (cs : List FTxn) (t : FTxn) (hw : FileWF (cs ++ [t])) (ext : Bytes)
    (ix : Index) (ltid : Option Nat) :
    (∃ r, sanityStep (encodeFile (cs ++ [t]) ++ ext) ix (encodeFile (cs ++ [t])).length ltid
        = .done (.ok r)) ∨
    (∃ l, sanityStep (encodeFile (cs ++ [t]) ++ ext) ix (encodeFile (cs ++ [t])).length ltid
        = .back (encodeFile cs).length l) := by
  obtain ⟨e1, e2, e3, e4⟩ := header_at_end cs t hw ext
  have ht := lastTxnWF cs t hw
  have hfp := filePos_eq cs (txnsWF_prefix cs [t] 4 hw)
  obtain ⟨h1, h2, h3, h4, h5, h6, h7, h8, h9⟩ := ht
  have hlenT : (encodeTxn t).length = t.tlen + 8 := encodeTxnSt_length _ _ (recWF_body h9)
  have hpos : (encodeFile (cs ++ [t])).length = (encodeFile cs).length + (t.tlen + 8) := by
    rw [encodeFile_append, List.length_append, hlenT]
  have h4' : 4 ≤ (encodeFile cs).length := by simp [encodeFile, magic]
  have htl : t.tlen = 23 + t.user.length + t.desc.length + t.ext.length + recsLen t.recs := by
    simp [FTxn.tlen, FTxn.hdrLen]
  unfold sanityStep
  split
  · exact .inl ⟨_, rfl⟩
  · simp only [e1, e2, e3]
    rw [if_neg (by omega), if_neg (by simp)]
    split
    · exact .inr ⟨_, rfl⟩
    · split
      · exact .inl ⟨_, rfl⟩
      · rw [if_neg (by omega)]
        split
        · exact .inr ⟨_, rfl⟩
        · obtain ⟨b, hb⟩ := sanityRecs_no_error (encodeFile (cs ++ [t]) ++ ext) ix
            (encodeFile cs).length ((encodeFile cs).length + t.tlen) (by rw [← hfp]; omega)
            (maxChecked + 1) t.recs (be 8 t.tlen ++ ext)
            ((encodeFile cs).length + (23 + t.user.length + t.desc.length + t.ext.length)) 0
            (by rw [← hfp]; exact h9) e4 (by omega)
          rw [hb]
          cases b <;> exact .inl ⟨_, rfl⟩

theorem sanityWalk_no_error (ix : Index) : ∀ (f : Nat) (cs : List FTxn) (ext : Bytes)
    (ltid : Option Nat), FileWF cs →
    ∃ r, sanityWalk (encodeFile cs ++ ext) ix f (encodeFile cs).length ltid = .ok r := by
  intro f
  induction f with
  | zero => intro cs ext ltid _; exact ⟨none, rfl⟩
  | succ f ih =>
    intro cs ext ltid hw
    rcases List.eq_nil_or_concat cs with rfl | ⟨cs', t, rfl⟩
    · refine ⟨none, ?_⟩
      simp [sanityWalk, sanityStep, encodeFile, magic, encodeTxns]
    · rw [List.concat_eq_append] at *
      simp only [sanityWalk]
      rcases sanityStep_wf cs' t hw ext ix ltid with ⟨r, hr⟩ | ⟨l, hl⟩
      · rw [hr]; exact ⟨r, rfl⟩
      · rw [hl]
        simp only []
        have := ih cs' (encodeTxn t ++ ext) (some l) (txnsWF_prefix cs' [t] 4 hw)
        rw [encodeFile_append, List.append_assoc]
        exact this

/-- `_check_sanity` never raises for an index position that is the end of well-formed data -/
theorem checkSanity_no_error (cs : List FTxn) (hw : FileWF cs) (ext : Bytes) (ix : Index) :
    ∃ r, checkSanity (encodeFile cs ++ ext) ix (encodeFile cs).length = .ok r := by
  unfold checkSanity
  split
  · exact ⟨none, rfl⟩
  · split
    · exact ⟨none, rfl⟩
    · exact sanityWalk_no_error ix _ cs ext none hw

/-- open with the index saved when `cs` was committed = open without an index: same outcome
    (state or exception), for every file that still begins with that data. -/
theorem openWith_saved_eq (ro : Bool) (cs : List FTxn) (hw : FileWF cs) (ext : Bytes) :
    (openWith ro (encodeFile cs ++ ext) (some (saveIndex cs))).map Opened.state
      = (openWith ro (encodeFile cs ++ ext) none).map Opened.state := by
  obtain ⟨v, hs⟩ := checkSanity_no_error cs hw ext (indexOf cs)
  unfold openWith restoreIndex
  simp only [saveIndex, hs]
  cases v with
  | none => rfl
  | some l' =>
    have hl := checkSanity_saved cs hw ext _ 0 l' hs
    subst hl
    simp only []
    rw [readIndex_from_saved cs hw ext 0]
    cases readIndex (encodeFile cs ++ ext) (encodeFile cs).length (indexOf cs) (lastTid 0 cs) with
    | error e => rfl
    | ok r => rfl

end Proofs.IndexCache
