/-
  Connection model, part 20 (C12): a savepoint and the rest of its transaction — the relation between
  the state right after `transaction.savepoint()` and any later state of the same transaction.
-/
import Proofs.ConnC12
namespace Proofs.Conn
open ZodbModel ZodbModel.Conn

/-! ### what the simple steps leave alone -/

/-- the savepoint list is unchanged up to `join` (which only touches `AbortSavepoint`s) -/
def StableSps (s s' : State) : Prop := s'.sps = s.sps ∨ s'.sps = s.sps.map markJoined

theorem StableSps.real {s s' : State} (h : StableSps s s') {n p : Nat} {idx : Map Nat} {cr : Map Bool}
    (hn : s.sps[n]? = some (SpEntry.real p idx cr)) : s'.sps[n]? = some (SpEntry.real p idx cr) := by
  rcases h with h | h
  · rw [h]; exact hn
  · rw [h, List.getElem?_map, hn]; rfl

theorem StableSps.invalid {s s' : State} (h : StableSps s s') {n : Nat}
    (hn : s.sps[n]? = some SpEntry.invalid) : s'.sps[n]? = some SpEntry.invalid := by
  rcases h with h | h
  · rw [h]; exact hn
  · rw [h, List.getElem?_map, hn]; rfl

theorem StableSps.real_back {s s' : State} (h : StableSps s s') {n p : Nat} {idx : Map Nat} {cr : Map Bool}
    (hn : s'.sps[n]? = some (SpEntry.real p idx cr)) : s.sps[n]? = some (SpEntry.real p idx cr) := by
  rcases h with h | h
  · rw [← h]; exact hn
  · rw [h, List.getElem?_map] at hn
    cases he : s.sps[n]? with
    | none => rw [he] at hn; cases hn
    | some e =>
      rw [he] at hn
      cases e <;> simp [markJoined] at hn
      obtain ⟨rfl, rfl, rfl⟩ := hn; rfl

theorem access_tv (s : State) (i) : (access s i).1.sp = s.sp ∧ (access s i).1.cache = s.cache ∧
    (access s i).1.sps = s.sps := by
  unfold access; dsimp only; repeat' split
  all_goals exact ⟨rfl, rfl, rfl⟩

theorem join_tv (s : State) : (join s).sp = s.sp ∧ (join s).cache = s.cache ∧ StableSps s (join s) := by
  unfold join; split
  · exact ⟨rfl, rfl, Or.inr rfl⟩
  · exact ⟨rfl, rfl, Or.inl rfl⟩

theorem markChanged_tv (s : State) (i) : (markChanged s i).sp = s.sp ∧ (markChanged s i).cache = s.cache ∧
    StableSps s (markChanged s i) := by
  unfold markChanged
  dsimp only
  repeat' split
  all_goals first
    | exact ⟨rfl, rfl, Or.inl rfl⟩
    | exact join_tv (setO s i { s.objs i with status := .changed })

theorem mutate_tv (s : State) (i f) : (mutate s i f).1.sp = s.sp ∧ (mutate s i f).1.cache = s.cache ∧
    StableSps s (mutate s i f).1 := by
  obtain ⟨a1, a2, a3⟩ := access_tv s i
  obtain ⟨m1, m2, m3⟩ := markChanged_tv (access s i).1 i
  unfold mutate
  dsimp only
  repeat' split
  all_goals first
    | exact ⟨rfl, rfl, Or.inl rfl⟩
    | exact ⟨a1, a2, Or.inl a3⟩
    | (refine ⟨by show (markChanged _ i).sp = _; rw [m1, a1], by show (markChanged _ i).cache = _; rw [m2, a2], ?_⟩
       unfold StableSps at m3 ⊢
       rw [a3] at m3
       exact m3)

theorem opAdd_tv (s : State) (i) : (opAdd s i).1.sp = s.sp ∧ (opAdd s i).1.cache = s.cache ∧
    StableSps s (opAdd s i).1 := by
  unfold opAdd
  dsimp only
  repeat' split
  all_goals first
    | exact ⟨rfl, rfl, Or.inl rfl⟩
    | exact join_tv (setO { s with nextOid := s.nextOid + 1 } i
        { s.objs i with oid := some s.nextOid, jar := true })

/-! ### a savepoint and the later states of its transaction -/

theorem pairwise_get {α} {R : α → α → Prop} : ∀ {l : List α} {i j : Nat} {a b : α}, l.Pairwise R →
    l[i]? = some a → l[j]? = some b → i < j → R a b := by
  intro l
  induction l with
  | nil => intro i j a b _ ha; simp at ha
  | cons x xs ih =>
    intro i j a b hp ha hb hij
    rw [List.pairwise_cons] at hp
    cases j with
    | zero => omega
    | succ j' =>
      simp only [List.getElem?_cons_succ] at hb
      cases i with
      | zero =>
        simp only [List.getElem?_cons_zero, Option.some.injEq] at ha
        rw [← ha]; exact hp.1 b (List.mem_of_getElem? hb)
      | succ i' =>
        simp only [List.getElem?_cons_succ] at ha
        exact ih hp.2 ha hb (by omega)

theorem getElem?_lt {α} {l : List α} {n : Nat} {a : α} (h : l[n]? = some a) : n < l.length := by
  cases hl : decide (n < l.length) with
  | true => simpa using hl
  | false =>
    have : l.length ≤ n := by simpa using hl
    rw [List.getElem?_eq_none_iff.2 this] at h; cases h

/-- `a`: the state right after savepoint number `n` was made (temporary store `ta`);
    `s`: a later state of the same transaction -/
structure SpRel (a : State) (ta : TmpStore) (n : Nat) (s : State) : Prop where
  committed : s.committed = a.committed
  alive : s.sps[n]? = some (SpEntry.real ta.position ta.index ta.creating) ∨ s.sps[n]? = some SpEntry.invalid
  facts : s.sps[n]? = some (SpEntry.real ta.position ta.index ta.creating) → ∃ t, s.sp = some t ∧
    (∀ q, q < ta.position → t.entries[q]? = ta.entries[q]?) ∧
    (∀ k i, a.cache.get k = some i → s.cache.get k = some i) ∧
    (∀ k, a.cache.get k ≠ none → t.creating.has k = true → ta.creating.has k = true)

theorem SpRel.start {a : State} {ta : TmpStore} {n : Nat} (hsp : a.sp = some ta)
    (hn : a.sps[n]? = some (SpEntry.real ta.position ta.index ta.creating)) : SpRel a ta n a :=
  ⟨rfl, Or.inl hn, fun _ => ⟨ta, hsp, fun _ _ => rfl, fun _ _ h => h, fun _ _ h => h⟩⟩

/-- steps that change neither the store nor the cache, and at most invalidate savepoints -/
theorem SpRel.frame {a : State} {ta : TmpStore} {n : Nat} {s s' : State} (h : SpRel a ta n s)
    (hsp : s'.sp = s.sp) (hc : s'.cache = s.cache) (hcm : s'.committed = s.committed)
    (h1 : ∀ e, s.sps[n]? = some e → (e = SpEntry.real ta.position ta.index ta.creating ∨ e = SpEntry.invalid) →
      s'.sps[n]? = some e ∨ s'.sps[n]? = some SpEntry.invalid) : SpRel a ta n s' := by
  refine ⟨by rw [hcm, h.committed], ?_, ?_⟩
  · rcases h.alive with h2 | h2
    · rcases h1 _ h2 (Or.inl rfl) with h3 | h3
      · exact Or.inl h3
      · exact Or.inr h3
    · rcases h1 _ h2 (Or.inr rfl) with h3 | h3
      · exact Or.inr h3
      · exact Or.inr h3
  · intro hn
    rcases h.alive with h2 | h2
    · rw [hsp, hc]; exact h.facts h2
    · rcases h1 _ h2 (Or.inr rfl) with h3 | h3
      · rw [h3] at hn; cases hn
      · rw [h3] at hn; cases hn

theorem SpRel.stable {a : State} {ta : TmpStore} {n : Nat} {s s' : State} (h : SpRel a ta n s)
    (hsp : s'.sp = s.sp) (hc : s'.cache = s.cache) (hcm : s'.committed = s.committed)
    (hst : StableSps s s') : SpRel a ta n s' := by
  refine h.frame hsp hc hcm ?_
  intro e he hcases
  left
  rcases hcases with rfl | rfl
  · exact hst.real he
  · exact hst.invalid he

theorem getElem?_append_some {α} {l : List α} {n : Nat} {a x : α} (h : l[n]? = some a) :
    (l ++ [x])[n]? = some a := by
  rw [List.getElem?_append_left (getElem?_lt h)]; exact h

theorem getElem?_invalidateAfter_some {l : List SpEntry} {n m : Nat} {e : SpEntry} (h : l[n]? = some e) :
    (invalidateAfter m l)[n]? = some e ∨ (invalidateAfter m l)[n]? = some SpEntry.invalid := by
  by_cases hnm : n ≤ m
  · left; rw [getElem?_invalidateAfter_le hnm]; exact h
  · right; exact getElem?_invalidateAfter_gt (by omega) (getElem?_lt h)

/-- a savepoint of the connection never lies before an `AbortSavepoint` -/
theorem Inv12.real_after_abortSp {s : State} (h : Inv12 s) {n m : Nat} {p : Nat} {idx : Map Nat}
    {cr : Map Bool} {j : Bool} (hn : s.sps[n]? = some (SpEntry.real p idx cr))
    (hm : s.sps[m]? = some (SpEntry.abortSp j)) : m < n := by
  have h1 : ¬ n < m := fun hlt => pairwise_get h.spsOrder hn hm hlt
  have h2 : n ≠ m := by
    intro he; subst he; rw [hn] at hm; cases hm
  omega

theorem RollbackFacts.keepCache {s : State} {t : TmpStore} {p : Nat} {idx : Map Nat} {cr : Map Bool}
    {R : State} (F : RollbackFacts s t p idx cr R) (hS : Str [] s) {k i : Nat}
    (hc : s.cache.get k = some i) (hnl : ¬ (t.creating.has k = true ∧ cr.has k = false)) :
    R.cache.get k = some i := by
  have hadd : s.added.get k = none := by
    cases ha : s.added.get k with
    | none => rfl
    | some j => have := (hS.addedS k j ha).2; rw [hc] at this; cases this
  have hoid := F.kept i k (hS.cacheS k i hc) hadd hnl
  have hkn := F.clean.1.known i k hoid
  simp only [List.not_mem_nil, or_false, F.addedNil, Map.get_nil] at hkn
  rcases hkn with h1 | h1
  · exact h1
  · cases h1

/-- **rollbacks keep the relation** (they may end the life of the savepoint) -/
theorem SpRel.rollback {a : State} {ta : TmpStore} {n : Nat} {s : State} (hr : SpRel a ta n s)
    (h : Inv12 s) (m : Nat) : SpRel a ta n (txnRollback s m).1 := by
  unfold txnRollback
  cases hm : s.sps[m]? with
  | none => exact hr
  | some e =>
    have hr0 : SpRel a ta n { s with sps := invalidateAfter m s.sps } :=
      hr.frame rfl rfl rfl (fun e he _ => getElem?_invalidateAfter_some he)
    cases e with
    | invalid => exact hr
    | abortSp j =>
      dsimp only
      cases j with
      | false => exact hr0
      | true =>
        simp only [if_true]
        have hinv : (invalidateAfter m s.sps)[n]? = some SpEntry.invalid := by
          rcases hr.alive with h2 | h2
          · exact getElem?_invalidateAfter_gt (h.real_after_abortSp h2 hm) (getElem?_lt h2)
          · rcases getElem?_invalidateAfter_some (m := m) h2 with h3 | h3 <;> exact h3
        have hsps := connAbort_sps { s with sps := invalidateAfter m s.sps }
        have hcm := shared_committed (connAbort_shared { s with sps := invalidateAfter m s.sps })
        refine ⟨by rw [hcm]; exact hr.committed, Or.inr (by rw [hsps]; exact hinv), ?_⟩
        intro hn
        rw [hsps] at hn
        have : (invalidateAfter m s.sps)[n]? = some (SpEntry.real ta.position ta.index ta.creating) := hn
        rw [hinv] at this; cases this
    | real p' idx' cr' =>
      dsimp only
      obtain ⟨t, hsp, hj, we, w⟩ := h.real_entry hm
      have hS' : Str [] { s with sps := invalidateAfter m s.sps } := h.str.congr rfl rfl rfl rfl
      have F := rollbackSavepoint_facts (s := { s with sps := invalidateAfter m s.sps }) hS' hsp
        h.regOid h.changedReg h.addedReg p' idx' cr'
      generalize rollbackSavepoint { s with sps := invalidateAfter m s.sps } p' idx' cr' = R at *
      have hsps : R.sps = invalidateAfter m s.sps := F.sps
      have hcm : R.committed = s.committed := shared_committed F.shared
      refine ⟨by rw [hcm]; exact hr.committed, ?_, ?_⟩
      · rw [hsps]; exact hr0.alive
      · intro hn
        rw [hsps] at hn
        -- the savepoint is still alive: it is not younger than the one rolled back to
        have hnm : n ≤ m := by
          apply Classical.byContradiction
          intro hgt
          rcases hr.alive with h2 | h2
          · have := getElem?_invalidateAfter_gt (l := s.sps) (n := m) (m := n) (by omega) (getElem?_lt h2)
            rw [this] at hn; cases hn
          · have := getElem?_invalidateAfter_gt (l := s.sps) (n := m) (m := n) (by omega) (getElem?_lt h2)
            rw [this] at hn; cases hn
        rw [getElem?_invalidateAfter_le hnm] at hn
        obtain ⟨t1, ht1, f1, f2, f3⟩ := hr.facts hn
        rw [hsp] at ht1; cases ht1
        -- the savepoint rolled back to extends it
        have hle : ta.position ≤ p' ∧ (∀ k, ta.creating.has k = true → cr'.has k = true) := by
          by_cases he : n = m
          · subst he
            rw [hn] at hm; cases hm
            exact ⟨Nat.le_refl _, fun _ hk => hk⟩
          · have := pairwise_get h.spsOrder hn hm (by omega)
            exact ⟨this.1, this.2.2⟩
        refine ⟨_, F.sp, ?_, ?_, ?_⟩
        · intro q hq
          show (t.entries.take p')[q]? = _
          rw [take_get t.entries (by omega)]
          exact f1 q hq
        · intro k i hc
          apply F.keepCache hS' (f2 k i hc)
          rintro ⟨h1, h2⟩
          have := hle.2 k (f3 k (by rw [hc]; simp) h1)
          rw [this] at h2; cases h2
        · intro k hk hc
          have hc' : cr'.has k = true := hc
          exact f3 k hk (we.crSub k hc')

/-- **later savepoints keep the relation** -/
theorem SpRel.savepoint {a : State} {ta : TmpStore} {n : Nat} {s : State} (hr : SpRel a ta n s)
    (h : Inv12 s) (bound : Nat) (hnf : (step bound s .savepoint).2.isFailed = false) :
    SpRel a ta n (stepH bound s .savepoint) := by
  rw [stepH_of_notFailed _ _ _ hnf]
  have hnf' : (txnSavepoint bound s).2.isFailed = false := hnf
  show SpRel a ta n (txnSavepoint bound s).1
  by_cases hn : s.needsToJoin = true
  · rw [txnSavepoint_unjoined hn]
    exact hr.frame rfl rfl rfl (fun e he _ => Or.inl (getElem?_append_some he))
  · have hj : s.needsToJoin = false := by simpa using hn
    cases hres : (connSavepoint bound s).2 with
    | some e =>
      rw [txnSavepoint_fail hj bound hres] at hnf'
      cases hnf'
    | none =>
      rw [txnSavepoint_ok hj bound hres]
      have ok := connSavepoint_spOk h hj bound hres
      generalize (connSavepoint bound s).1 = m at *
      refine ⟨?_, ?_, ?_⟩
      · show m.committed = a.committed
        rw [shared_committed ok.shared]; exact hr.committed
      · show (m.sps ++ [spState m])[n]? = _ ∨ (m.sps ++ [spState m])[n]? = _
        rw [ok.sps]
        rcases hr.alive with h2 | h2
        · exact Or.inl (getElem?_append_some h2)
        · exact Or.inr (getElem?_append_some h2)
      · intro hn'
        have hn2 : (m.sps ++ [spState m])[n]? = some (SpEntry.real ta.position ta.index ta.creating) := hn'
        rw [ok.sps] at hn2
        have hns : s.sps[n]? = some (SpEntry.real ta.position ta.index ta.creating) := by
          rcases hr.alive with h2 | h2
          · exact h2
          · rw [getElem?_append_some h2] at hn2; cases hn2
        obtain ⟨t, hsp, f1, f2, f3⟩ := hr.facts hns
        obtain ⟨t', ht', _, hcreated, hagainst⟩ := ok.tmp
        obtain ⟨g1, g2, g3⟩ := hagainst t hsp
        have hle := (h.spsReal t hsp _ _ _ (List.mem_of_getElem? hns)).le
        refine ⟨t', ht', ?_, ?_, ?_⟩
        · intro q hq
          rw [g2 q (by omega)]; exact f1 q hq
        · intro k i hc
          have hcs := f2 k i hc
          exact ok.owned i k (h.str.cacheS k i hcs)
        · intro k hk hc
          rcases hcreated k hc with ⟨t0, ht0, h1⟩ | h1
          · rw [hsp] at ht0; cases ht0
            exact f3 k hk h1
          · obtain ⟨i, hi⟩ := Option.ne_none_iff_exists'.1 hk
            rw [f2 k i hi] at h1; cases h1

/-! ### program segments that stay inside the transaction -/

/-- steps that neither end the transaction nor fail (a failed savepoint ends it) -/
def inTxn (bound : Nat) (s : State) : Op → Bool
  | .read _ | .modify _ _ | .link _ _ | .unlink _ _ | .add _ | .peek _ | .rollback _ => true
  | .savepoint => !(step bound s .savepoint).2.isFailed
  | _ => false

/-- run a program segment as long as it stays inside the transaction -/
def runTxn (bound : Nat) : State → List Op → Option State
  | s, [] => some s
  | s, op :: rest => if inTxn bound s op then runTxn bound (stepH bound s op) rest else none

theorem inTxn_c12 {bound : Nat} {s : State} {op : Op} (h : inTxn bound s op = true) : c12 op = true := by
  cases op <;> simp_all [inTxn, c12]

theorem SpRel.next {a : State} {ta : TmpStore} {n : Nat} {s : State} (hr : SpRel a ta n s)
    (hg : Good12 s) (bound : Nat) (op : Op) (hin : inTxn bound s op = true) :
    SpRel a ta n (stepH bound s op) := by
  have h := hg.1
  cases op with
  | read i =>
    have h1 : (step bound s (.read i)).2.isFailed = false := by
      simp only [step]; split <;> rfl
    have h2 : (step bound s (.read i)).1 = (access s i).1 := by
      simp only [step]; split <;> rfl
    rw [stepH_of_notFailed _ _ _ h1, h2]
    obtain ⟨a1, a2, a3⟩ := access_tv s i
    exact hr.stable a1 a2 (shared_committed (access_shared s i)) (Or.inl a3)
  | modify i v =>
    rw [stepH_of_notFailed bound s (.modify i v) (mutate_notFailed s i _)]
    obtain ⟨a1, a2, a3⟩ := mutate_tv s i (fun o => some (v, o.refs))
    exact hr.stable a1 a2 (shared_committed (mutate_shared s i _)) a3
  | link i j =>
    rw [stepH_of_notFailed bound s (.link i j) (mutate_notFailed s i _)]
    obtain ⟨a1, a2, a3⟩ := mutate_tv s i
      (fun o => if o.refs.contains j then none else some (o.val, o.refs ++ [j]))
    exact hr.stable a1 a2 (shared_committed (mutate_shared s i _)) a3
  | unlink i j =>
    rw [stepH_of_notFailed bound s (.unlink i j) (mutate_notFailed s i _)]
    obtain ⟨a1, a2, a3⟩ := mutate_tv s i
      (fun o => if o.refs.contains j then some (o.val, o.refs.filter (· != j)) else none)
    exact hr.stable a1 a2 (shared_committed (mutate_shared s i _)) a3
  | add i =>
    have hnf : (step bound s (.add i)).2.isFailed = false := by
      show (opAdd s i).2.isFailed = false
      unfold opAdd; dsimp only; repeat' split
      all_goals rfl
    rw [stepH_of_notFailed _ _ _ hnf]
    obtain ⟨a1, a2, a3⟩ := opAdd_tv s i
    exact hr.stable a1 a2 (shared_committed (opAdd_shared s i)) a3
  | commit f => simp [inTxn] at hin
  | abort => simp [inTxn] at hin
  | savepoint =>
    have hnf : (step bound s .savepoint).2.isFailed = false := by simpa [inTxn] using hin
    exact hr.savepoint h bound hnf
  | rollback m =>
    rw [stepH_of_notFailed bound s (.rollback m) (txnRollback_notFailed s m)]
    exact hr.rollback h m
  | close => simp [inTxn] at hin
  | open_ => simp [inTxn] at hin
  | ext i v => simp [inTxn] at hin
  | peek i =>
    rw [stepH_of_notFailed bound s (.peek i) (by simp only [step]; unfold opPeek; split <;> rfl)]
    exact hr

theorem runTxn_rel {a : State} {ta : TmpStore} {n : Nat} (bound : Nat) (ops : List Op) :
    ∀ s s', Good12 s → SpRel a ta n s → runTxn bound s ops = some s' → Good12 s' ∧ SpRel a ta n s' := by
  induction ops with
  | nil =>
    intro s s' hg hr hrun
    simp only [runTxn, Option.some.injEq] at hrun
    subst hrun; exact ⟨hg, hr⟩
  | cons op rest ih =>
    intro s s' hg hr hrun
    simp only [runTxn] at hrun
    split at hrun
    · rename_i hin
      exact ih _ _ (stepH_good12 bound s op (inTxn_c12 hin) hg) (hr.next hg bound op hin) hrun
    · cases hrun

/-- **Rolling back restores exactly what could be read right after the savepoint was made.**
    `a`: the state right after savepoint `n` (no object is marked changed there); `s`: any later state
    of the transaction in which the savepoint is still valid. -/
theorem rollback_exact_core {a : State} {ta : TmpStore} {n : Nat} (ha : Inv12 a) (hasp : a.sp = some ta)
    (hanc : ∀ j, (a.objs j).status ≠ .changed) {s : State} (hs : Inv12 s) (hr : SpRel a ta n s)
    (hn : s.sps[n]? = some (SpEntry.real ta.position ta.index ta.creating)) :
    (txnRollback s n).2 = .ok ∧
    ∀ i k, a.cache.get k = some i → reads (txnRollback s n).1 i = reads a i := by
  have heq : txnRollback s n = (rollbackSavepoint { s with sps := invalidateAfter n s.sps }
      ta.position ta.index ta.creating, .ok) := by
    unfold txnRollback; rw [hn]
  rw [heq]
  refine ⟨rfl, ?_⟩
  intro i k hc
  have hinv := rollbackReal_inv12 hs hn
  obtain ⟨t, hsp, hj, we, w⟩ := hs.real_entry hn
  have hS' : Str [] { s with sps := invalidateAfter n s.sps } := hs.str.congr rfl rfl rfl rfl
  have F := rollbackSavepoint_facts (s := { s with sps := invalidateAfter n s.sps }) hS' hsp
    hs.regOid hs.changedReg hs.addedReg ta.position ta.index ta.creating
  generalize rollbackSavepoint { s with sps := invalidateAfter n s.sps } ta.position ta.index ta.creating
    = R at *
  obtain ⟨t1, ht1, f1, f2, f3⟩ := hr.facts hn
  rw [hsp] at ht1; cases ht1
  have hcR : R.cache.get k = some i := by
    apply F.keepCache hS' (f2 k i hc)
    rintro ⟨h1, h2⟩
    rw [f3 k (by rw [hc]; simp) h1] at h2; cases h2
  obtain ⟨r, hlr, hrd⟩ := reads_clean hinv hcR (F.noChanged i)
  obtain ⟨r', hlr', hrd'⟩ := reads_clean ha hc (hanc i)
  rw [hrd, hrd']
  have hL : loadRec R k = match ta.index.get k with
      | some q => (t.reset ta.position ta.index ta.creating).loadAt k q
      | none => R.snap.get k := by
    unfold loadRec; rw [F.sp]; rfl
  have hA : loadRec a k = match ta.index.get k with
      | some q => ta.loadAt k q
      | none => a.snap.get k := by
    unfold loadRec; rw [hasp]; rfl
  have : loadRec R k = loadRec a k := by
    rw [hL, hA]
    cases hx : ta.index.get k with
    | none =>
      simp only
      have h1 : R.snap = s.snap := F.clean.2.snap
      rw [h1, hs.snapEq, hr.committed, ← ha.snapEq]
    | some q =>
      simp only
      have hq := (we.idxLt k q hx).1
      unfold TmpStore.loadAt
      have : (t.reset ta.position ta.index ta.creating).entries[q]? = ta.entries[q]? := by
        show (t.entries.take ta.position)[q]? = _
        rw [take_get t.entries hq]; exact f1 q hq
      rw [this]
  rw [this, hlr'] at hlr
  cases hlr; rfl

/-! ### the program-level statements -/

theorem runTxn_append (bound : Nat) (l1 l2 : List Op) : ∀ s,
    runTxn bound s (l1 ++ l2) = (runTxn bound s l1).bind (fun s' => runTxn bound s' l2) := by
  induction l1 with
  | nil => intro s; rfl
  | cons op rest ih =>
    intro s
    simp only [List.cons_append, runTxn]
    split
    · exact ih _
    · rfl

theorem runTxn_rollback (bound : Nat) (s : State) (n : Nat) :
    runTxn bound s [.rollback n] = some (txnRollback s n).1 := by
  simp only [runTxn, inTxn, if_true]
  rw [stepH_of_notFailed bound s (.rollback n) (txnRollback_notFailed s n)]
  rfl

/-- a successful savepoint of the joined connection: the state `a` right after it -/
theorem savepoint_start {s1 : State} (hg : Good12 s1) (hj : s1.needsToJoin = false) (bound : Nat)
    (hok : (step bound s1 .savepoint).2 = .ok) :
    ∃ ta, (stepH bound s1 .savepoint).sp = some ta ∧
      (stepH bound s1 .savepoint).sps[s1.sps.length]? = some (SpEntry.real ta.position ta.index ta.creating) ∧
      (∀ j, ((stepH bound s1 .savepoint).objs j).status ≠ .changed) ∧
      (stepH bound s1 .savepoint).added = [] ∧
      (∀ i k, (s1.objs i).oid = some k →
        reads (stepH bound s1 .savepoint) i = reads s1 i ∧
        (stepH bound s1 .savepoint).cache.get k = some i) := by
  have hok' : (txnSavepoint bound s1).2 = .ok := hok
  have hnf : (step bound s1 .savepoint).2.isFailed = false := by rw [hok]; rfl
  rw [stepH_of_notFailed _ _ _ hnf]
  have hstep : (step bound s1 .savepoint).1 = (txnSavepoint bound s1).1 := rfl
  rw [hstep]
  cases hres : (connSavepoint bound s1).2 with
  | some e => rw [txnSavepoint_fail hj bound hres] at hok'; cases hok'
  | none =>
    rw [txnSavepoint_ok hj bound hres]
    have ok := connSavepoint_spOk hg.1 hj bound hres
    generalize (connSavepoint bound s1).1 = m at *
    obtain ⟨t', ht', _⟩ := ok.tmp
    refine ⟨t', ht', ?_, ok.noChanged, ok.addedNil, ?_⟩
    · show (m.sps ++ [spState m])[s1.sps.length]? = _
      rw [spState_of ht', ← ok.sps]
      simp
    · intro i k hk
      refine ⟨?_, ok.owned i k hk⟩
      have h1 : reads { m with sps := m.sps ++ [spState m] } i = reads m i :=
        reads_congr rfl rfl (fun _ => rfl)
      exact h1.trans (ok.reads i k hk)

/-- **rollback_exact**, for programs: `a` is the state right after a successful savepoint; after any
    program segment that stays inside the transaction, a successful rollback to that savepoint makes
    every object of the connection read exactly as it did in `a`. -/
theorem rollback_exact_prog {s1 : State} (hg : Good12 s1) (hj : s1.needsToJoin = false) (bound : Nat)
    (hok : (step bound s1 .savepoint).2 = .ok) (ops : List Op) {s : State}
    (hrun : runTxn bound (stepH bound s1 .savepoint) ops = some s)
    (hrb : (step bound s (.rollback s1.sps.length)).2 = .ok) :
    ∀ i, ((stepH bound s1 .savepoint).objs i).jar = true →
      reads (stepH bound s (.rollback s1.sps.length)) i = reads (stepH bound s1 .savepoint) i := by
  obtain ⟨ta, hasp, hn, hanc, hadd, _⟩ := savepoint_start hg hj bound hok
  have hga := stepH_good12 bound s1 .savepoint rfl hg
  generalize stepH bound s1 .savepoint = a at *
  obtain ⟨hgs, hr⟩ := runTxn_rel bound ops a s hga (SpRel.start hasp hn) hrun
  have hns : s.sps[s1.sps.length]? = some (SpEntry.real ta.position ta.index ta.creating) := by
    rcases hr.alive with h2 | h2
    · exact h2
    · have : (txnRollback s s1.sps.length).2 = .ok := hrb
      unfold txnRollback at this
      rw [h2] at this; cases this
  obtain ⟨_, hcore⟩ := rollback_exact_core hga.1 hasp hanc hgs.1 hr hns
  intro i hjar
  rw [stepH_of_notFailed bound s (.rollback s1.sps.length) (txnRollback_notFailed s _)]
  rw [hga.1.str.jarOid] at hjar
  cases ho : (a.objs i).oid with
  | none => rw [ho] at hjar; cases hjar
  | some k =>
    have hkn := hga.1.str.known i k ho
    simp only [List.not_mem_nil, or_false, hadd, Map.get_nil] at hkn
    rcases hkn with h1 | h1
    · exact hcore i k h1
    · cases h1

theorem rollbackSavepoint_sps (s : State) (p idx cr) : (rollbackSavepoint s p idx cr).sps = s.sps := by
  unfold rollbackSavepoint
  dsimp only
  split
  · show (abortObjs s).sps = _; exact abortObjs_sps s
  · rw [invalidateAll_sps]
    show (invalidateCreating _ _).sps = _
    rw [invalidateCreating_sps]
    show (abortObjs s).sps = _; exact abortObjs_sps s

/-- after a rollback the savepoint itself stays valid, every later one is invalid -/
theorem rollback_invalidates_later {s : State} {n p : Nat} {idx : Map Nat} {cr : Map Bool}
    (hn : s.sps[n]? = some (SpEntry.real p idx cr)) :
    (txnRollback s n).1.sps[n]? = some (SpEntry.real p idx cr) ∧
    ∀ m, n < m → m < s.sps.length →
      txnRollback (txnRollback s n).1 m = ((txnRollback s n).1, .err .invalidSavepoint) := by
  have heq : (txnRollback s n).1 = rollbackSavepoint { s with sps := invalidateAfter n s.sps } p idx cr := by
    unfold txnRollback; rw [hn]
  have hsps : (txnRollback s n).1.sps = invalidateAfter n s.sps := by
    rw [heq, rollbackSavepoint_sps]
  constructor
  · rw [hsps, getElem?_invalidateAfter_le (Nat.le_refl n)]; exact hn
  · intro m hlt hm
    have : (txnRollback s n).1.sps[m]? = some SpEntry.invalid := by
      rw [hsps]; exact getElem?_invalidateAfter_gt hlt hm
    generalize (txnRollback s n).1 = R at *
    unfold txnRollback
    rw [this]

theorem stepH_shared_sp (bound : Nat) (s : State) (op : Op)
    (hop : op = .savepoint ∨ ∃ n, op = .rollback n) : shared (stepH bound s op) = shared s := by
  have h1 : shared (step bound s op).1 = shared s := by
    rcases hop with rfl | ⟨n, rfl⟩
    · exact txnSavepoint_shared bound s
    · exact txnRollback_shared s n
  unfold stepH
  dsimp only
  split
  · rw [txnAbortAfterFailure_shared]; exact h1
  · exact h1

theorem txnRollback_ok_sps {s : State} {n : Nat} (h : (txnRollback s n).2 = .ok) :
    (txnRollback s n).1.sps = invalidateAfter n s.sps ∧ n < s.sps.length := by
  unfold txnRollback at h ⊢
  cases hn : s.sps[n]? with
  | none => rw [hn] at h; cases h
  | some e =>
    have hlt := getElem?_lt hn
    cases e with
    | invalid => rw [hn] at h; cases h
    | real p idx cr => exact ⟨rollbackSavepoint_sps _ p idx cr, hlt⟩
    | abortSp j =>
      cases j with
      | false => exact ⟨rfl, hlt⟩
      | true => exact ⟨connAbort_sps _, hlt⟩

/-- after any successful rollback, every later savepoint is invalid (and trying to roll back to one
    changes nothing) -/
theorem rollback_later_invalid {s : State} {n : Nat} (h : (txnRollback s n).2 = .ok) (m : Nat)
    (hlt : n < m) (hm : m < s.sps.length) :
    txnRollback (txnRollback s n).1 m = ((txnRollback s n).1, .err .invalidSavepoint) := by
  obtain ⟨hsps, _⟩ := txnRollback_ok_sps h
  have : (txnRollback s n).1.sps[m]? = some SpEntry.invalid := by
    rw [hsps]; exact getElem?_invalidateAfter_gt hlt hm
  generalize (txnRollback s n).1 = R at *
  unfold txnRollback
  rw [this]

end Proofs.Conn
