/-
  Connection model, part 20 (C12): a savepoint and the rest of its transaction — the relation between
  the state right after `transaction.savepoint()` and any later state of the same transaction.
-/
import Proofs.ConnC12
namespace Proofs.Conn
open ZodbModel ZodbModel.Conn

/-! ### what the simple steps leave alone -/

/-- the savepoint list is unchanged up to `join` (which only touches `AbortSavepoint`s) -/
def StableSps (s s' : State) : Prop := s'.sps = s.sps ∨ s'.sps = s.sps.map markJoined

theorem StableSps.real {s s' : State} (h : StableSps s s') {n p : Nat} {idx : Map Nat} {cr : Map Bool}
    (hn : s.sps[n]? = some (SpEntry.real p idx cr)) : s'.sps[n]? = some (SpEntry.real p idx cr) := by
  rcases h with h | h
  · rw [h]; exact hn
  · rw [h, List.getElem?_map, hn]; rfl

theorem StableSps.invalid {s s' : State} (h : StableSps s s') {n : Nat}
    (hn : s.sps[n]? = some SpEntry.invalid) : s'.sps[n]? = some SpEntry.invalid := by
  rcases h with h | h
  · rw [h]; exact hn
  · rw [h, List.getElem?_map, hn]; rfl

theorem StableSps.real_back {s s' : State} (h : StableSps s s') {n p : Nat} {idx : Map Nat} {cr : Map Bool}
    (hn : s'.sps[n]? = some (SpEntry.real p idx cr)) : s.sps[n]? = some (SpEntry.real p idx cr) := by
  rcases h with h | h
  · rw [← h]; exact hn
  · rw [h, List.getElem?_map] at hn
    cases he : s.sps[n]? with
    | none => rw [he] at hn; cases hn
    | some e =>
      rw [he] at hn
      cases e <;> simp [markJoined] at hn
      obtain ⟨rfl, rfl, rfl⟩ := hn; rfl

theorem access_tv (s : State) (i) : (access s i).1.sp = s.sp ∧ (access s i).1.cache = s.cache ∧
    (access s i).1.sps = s.sps := by
  unfold access; dsimp only; repeat' split
  all_goals exact ⟨rfl, rfl, rfl⟩

theorem join_tv (s : State) : (join s).sp = s.sp ∧ (join s).cache = s.cache ∧ StableSps s (join s) := by
  unfold join; split
  · exact ⟨rfl, rfl, Or.inr rfl⟩
  · exact ⟨rfl, rfl, Or.inl rfl⟩

theorem markChanged_tv (s : State) (i) : (markChanged s i).sp = s.sp ∧ (markChanged s i).cache = s.cache ∧
    StableSps s (markChanged s i) := by
  unfold markChanged
  dsimp only
  repeat' split
  all_goals first
    | exact ⟨rfl, rfl, Or.inl rfl⟩
    | exact join_tv (setO s i { s.objs i with status := .changed })

theorem mutate_tv (s : State) (i f) : (mutate s i f).1.sp = s.sp ∧ (mutate s i f).1.cache = s.cache ∧
    StableSps s (mutate s i f).1 := by
  obtain ⟨a1, a2, a3⟩ := access_tv s i
  obtain ⟨m1, m2, m3⟩ := markChanged_tv (access s i).1 i
  unfold mutate
  dsimp only
  repeat' split
  all_goals first
    | exact ⟨rfl, rfl, Or.inl rfl⟩
    | exact ⟨a1, a2, Or.inl a3⟩
    | (refine ⟨by show (markChanged _ i).sp = _; rw [m1, a1], by show (markChanged _ i).cache = _; rw [m2, a2], ?_⟩
       unfold StableSps at m3 ⊢
       rw [a3] at m3
       exact m3)

theorem opAdd_tv (s : State) (i) : (opAdd s i).1.sp = s.sp ∧ (opAdd s i).1.cache = s.cache ∧
    StableSps s (opAdd s i).1 := by
  unfold opAdd
  dsimp only
  repeat' split
  all_goals first
    | exact ⟨rfl, rfl, Or.inl rfl⟩
    | exact join_tv (setO { s with nextOid := s.nextOid + 1 } i
        { s.objs i with oid := some s.nextOid, jar := true })

/-! ### a savepoint and the later states of its transaction -/

theorem pairwise_get {α} {R : α → α → Prop} : ∀ {l : List α} {i j : Nat} {a b : α}, l.Pairwise R →
    l[i]? = some a → l[j]? = some b → i < j → R a b := by
  intro l
  induction l with
  | nil => intro i j a b _ ha; simp at ha
  | cons x xs ih =>
    intro i j a b hp ha hb hij
    rw [List.pairwise_cons] at hp
    cases j with
    | zero => omega
    | succ j' =>
      simp only [List.getElem?_cons_succ] at hb
      cases i with
      | zero =>
        simp only [List.getElem?_cons_zero, Option.some.injEq] at ha
        rw [← ha]; exact hp.1 b (List.mem_of_getElem? hb)
      | succ i' =>
        simp only [List.getElem?_cons_succ] at ha
        exact ih hp.2 ha hb (by omega)

theorem getElem?_lt {α} {l : List α} {n : Nat} {a : α} (h : l[n]? = some a) : n < l.length := by
  cases hl : decide (n < l.length) with
  | true => simpa using hl
  | false =>
    have : l.length ≤ n := by simpa using hl
    rw [List.getElem?_eq_none_iff.2 this] at h; cases h

/-- `a`: the state right after savepoint number `n` was made (temporary store `ta`);
    `s`: a later state of the same transaction -/
structure SpRel (a : State) (ta : TmpStore) (n : Nat) (s : State) : Prop where
  committed : s.committed = a.committed
  alive : s.sps[n]? = some (SpEntry.real ta.position ta.index ta.creating) ∨ s.sps[n]? = some SpEntry.invalid
  facts : s.sps[n]? = some (SpEntry.real ta.position ta.index ta.creating) → ∃ t, s.sp = some t ∧
    (∀ q, q < ta.position → t.entries[q]? = ta.entries[q]?) ∧
    (∀ k i, a.cache.get k = some i → s.cache.get k = some i) ∧
    (∀ k, a.cache.get k ≠ none → t.creating.has k = true → ta.creating.has k = true)
  nextOid : a.nextOid ≤ s.nextOid
  fresh : ∀ i k, (a.objs i).oid = none → (s.objs i).oid = some k → a.nextOid ≤ k

theorem SpRel.oids {a : State} {ta : TmpStore} {n : Nat} {s s' : State} (h : SpRel a ta n s)
    (ho : OidStep s s') :
    a.nextOid ≤ s'.nextOid ∧ ∀ i k, (a.objs i).oid = none → (s'.objs i).oid = some k → a.nextOid ≤ k := by
  refine ⟨Nat.le_trans h.nextOid ho.2, ?_⟩
  intro i k h0 hk
  rcases ho.1 i k hk with h1 | h1
  · exact h.fresh i k h0 h1
  · have := h.nextOid; omega

theorem SpRel.start {a : State} {ta : TmpStore} {n : Nat} (hsp : a.sp = some ta)
    (hn : a.sps[n]? = some (SpEntry.real ta.position ta.index ta.creating)) : SpRel a ta n a :=
  ⟨rfl, Or.inl hn, fun _ => ⟨ta, hsp, fun _ _ => rfl, fun _ _ h => h, fun _ _ h => h⟩, Nat.le_refl _,
    fun i k h0 hk => by rw [h0] at hk; cases hk⟩

/-- steps that change neither the store nor the cache, and at most invalidate savepoints -/
theorem SpRel.frame {a : State} {ta : TmpStore} {n : Nat} {s s' : State} (h : SpRel a ta n s)
    (hsp : s'.sp = s.sp) (hc : s'.cache = s.cache) (hcm : s'.committed = s.committed) (ho : OidStep s s')
    (h1 : ∀ e, s.sps[n]? = some e → (e = SpEntry.real ta.position ta.index ta.creating ∨ e = SpEntry.invalid) →
      s'.sps[n]? = some e ∨ s'.sps[n]? = some SpEntry.invalid) : SpRel a ta n s' := by
  refine ⟨by rw [hcm, h.committed], ?_, ?_, (h.oids ho).1, (h.oids ho).2⟩
  · rcases h.alive with h2 | h2
    · rcases h1 _ h2 (Or.inl rfl) with h3 | h3
      · exact Or.inl h3
      · exact Or.inr h3
    · rcases h1 _ h2 (Or.inr rfl) with h3 | h3
      · exact Or.inr h3
      · exact Or.inr h3
  · intro hn
    rcases h.alive with h2 | h2
    · rw [hsp, hc]; exact h.facts h2
    · rcases h1 _ h2 (Or.inr rfl) with h3 | h3
      · rw [h3] at hn; cases hn
      · rw [h3] at hn; cases hn

theorem SpRel.stable {a : State} {ta : TmpStore} {n : Nat} {s s' : State} (h : SpRel a ta n s)
    (hsp : s'.sp = s.sp) (hc : s'.cache = s.cache) (hcm : s'.committed = s.committed) (ho : OidStep s s')
    (hst : StableSps s s') : SpRel a ta n s' := by
  refine h.frame hsp hc hcm ho ?_
  intro e he hcases
  left
  rcases hcases with rfl | rfl
  · exact hst.real he
  · exact hst.invalid he

theorem getElem?_append_some {α} {l : List α} {n : Nat} {a x : α} (h : l[n]? = some a) :
    (l ++ [x])[n]? = some a := by
  rw [List.getElem?_append_left (getElem?_lt h)]; exact h

theorem getElem?_invalidateAfter_some {l : List SpEntry} {n m : Nat} {e : SpEntry} (h : l[n]? = some e) :
    (invalidateAfter m l)[n]? = some e ∨ (invalidateAfter m l)[n]? = some SpEntry.invalid := by
  by_cases hnm : n ≤ m
  · left; rw [getElem?_invalidateAfter_le hnm]; exact h
  · right; exact getElem?_invalidateAfter_gt (by omega) (getElem?_lt h)

/-- a savepoint of the connection never lies before an `AbortSavepoint` -/
theorem Inv12.real_after_abortSp {s : State} (h : Inv12 s) {n m : Nat} {p : Nat} {idx : Map Nat}
    {cr : Map Bool} {j : Bool} (hn : s.sps[n]? = some (SpEntry.real p idx cr))
    (hm : s.sps[m]? = some (SpEntry.abortSp j)) : m < n := by
  have h1 : ¬ n < m := fun hlt => pairwise_get h.spsOrder hn hm hlt
  have h2 : n ≠ m := by
    intro he; subst he; rw [hn] at hm; cases hm
  omega

theorem RollbackFacts.keepCache {s : State} {t : TmpStore} {p : Nat} {idx : Map Nat} {cr : Map Bool}
    {R : State} (F : RollbackFacts s t p idx cr R) (hS : Str [] s) {k i : Nat}
    (hc : s.cache.get k = some i) (hnl : ¬ (t.creating.has k = true ∧ cr.has k = false)) :
    R.cache.get k = some i := by
  have hadd : s.added.get k = none := by
    cases ha : s.added.get k with
    | none => rfl
    | some j => have := (hS.addedS k j ha).2; rw [hc] at this; cases this
  have hoid := F.kept i k (hS.cacheS k i hc) hadd hnl
  have hkn := F.clean.1.known i k hoid
  simp only [List.not_mem_nil, or_false, F.addedNil, Map.get_nil] at hkn
  rcases hkn with h1 | h1
  · exact h1
  · cases h1

/-- **rollbacks keep the relation** (they may end the life of the savepoint) -/
theorem SpRel.rollback {a : State} {ta : TmpStore} {n : Nat} {s : State} (hr : SpRel a ta n s)
    (h : Inv12 s) (m : Nat) : SpRel a ta n (txnRollback s m).1 := by
  unfold txnRollback
  cases hm : s.sps[m]? with
  | none => exact hr
  | some e =>
    have hr0 : SpRel a ta n { s with sps := invalidateAfter m s.sps } :=
      hr.frame rfl rfl rfl (OidStep.refl _) (fun e he _ => getElem?_invalidateAfter_some he)
    cases e with
    | invalid => exact hr
    | abortSp j =>
      dsimp only
      cases j with
      | false => exact hr0
      | true =>
        simp only [if_true]
        have hinv : (invalidateAfter m s.sps)[n]? = some SpEntry.invalid := by
          rcases hr.alive with h2 | h2
          · exact getElem?_invalidateAfter_gt (h.real_after_abortSp h2 hm) (getElem?_lt h2)
          · rcases getElem?_invalidateAfter_some (m := m) h2 with h3 | h3 <;> exact h3
        have hsps := connAbort_sps { s with sps := invalidateAfter m s.sps }
        have hcm := shared_committed (connAbort_shared { s with sps := invalidateAfter m s.sps })
        have hos : OidStep s (connAbort { s with sps := invalidateAfter m s.sps }) :=
          OidStep.of_shrink (s := { s with sps := invalidateAfter m s.sps })
            (connAbort_clean (P := []) (s := { s with sps := invalidateAfter m s.sps })
              (h.str.congr rfl rfl rfl rfl)).2
        refine ⟨by rw [hcm]; exact hr.committed, Or.inr (by rw [hsps]; exact hinv), ?_,
          (hr.oids hos).1, (hr.oids hos).2⟩
        intro hn
        rw [hsps] at hn
        have : (invalidateAfter m s.sps)[n]? = some (SpEntry.real ta.position ta.index ta.creating) := hn
        rw [hinv] at this; cases this
    | real p' idx' cr' =>
      dsimp only
      obtain ⟨t, hsp, hj, we, w⟩ := h.real_entry hm
      have hS' : Str [] { s with sps := invalidateAfter m s.sps } := h.str.congr rfl rfl rfl rfl
      have F := rollbackSavepoint_facts (s := { s with sps := invalidateAfter m s.sps }) hS' hsp
        h.regOid h.changedReg h.addedReg h.creatingNil (fun k hk => (w.crIdx k hk).1) p' idx' cr'
      generalize rollbackSavepoint { s with sps := invalidateAfter m s.sps } p' idx' cr' = R at *
      have hsps : R.sps = invalidateAfter m s.sps := F.sps
      have hcm : R.committed = s.committed := shared_committed F.shared
      have hos : OidStep s R := OidStep.of_shrink (s := { s with sps := invalidateAfter m s.sps }) F.clean.2
      refine ⟨by rw [hcm]; exact hr.committed, ?_, ?_, (hr.oids hos).1, (hr.oids hos).2⟩
      · rw [hsps]; exact hr0.alive
      · intro hn
        rw [hsps] at hn
        -- the savepoint is still alive: it is not younger than the one rolled back to
        have hnm : n ≤ m := by
          apply Classical.byContradiction
          intro hgt
          rcases hr.alive with h2 | h2
          · have := getElem?_invalidateAfter_gt (l := s.sps) (n := m) (m := n) (by omega) (getElem?_lt h2)
            rw [this] at hn; cases hn
          · have := getElem?_invalidateAfter_gt (l := s.sps) (n := m) (m := n) (by omega) (getElem?_lt h2)
            rw [this] at hn; cases hn
        rw [getElem?_invalidateAfter_le hnm] at hn
        obtain ⟨t1, ht1, f1, f2, f3⟩ := hr.facts hn
        rw [hsp] at ht1; cases ht1
        -- the savepoint rolled back to extends it
        have hle : ta.position ≤ p' ∧ (∀ k, ta.creating.has k = true → cr'.has k = true) := by
          by_cases he : n = m
          · subst he
            rw [hn] at hm; cases hm
            exact ⟨Nat.le_refl _, fun _ hk => hk⟩
          · have := pairwise_get h.spsOrder hn hm (by omega)
            exact ⟨this.1, this.2.2⟩
        refine ⟨_, F.sp, ?_, ?_, ?_⟩
        · intro q hq
          show (t.entries.take p')[q]? = _
          rw [take_get t.entries (by omega)]
          exact f1 q hq
        · intro k i hc
          apply F.keepCache hS' (f2 k i hc)
          rintro ⟨h1, h2⟩
          have := hle.2 k (f3 k (by rw [hc]; simp) h1)
          rw [this] at h2; cases h2
        · intro k hk hc
          have hc' : cr'.has k = true := hc
          exact f3 k hk (we.crSub k hc')

/-- **later savepoints keep the relation** -/
theorem SpRel.savepoint {a : State} {ta : TmpStore} {n : Nat} {s : State} (hr : SpRel a ta n s)
    (h : Inv12 s) (bound : Nat) (hnf : (step bound s .savepoint).2.isFailed = false) :
    SpRel a ta n (stepH bound s .savepoint) := by
  rw [stepH_of_notFailed _ _ _ hnf]
  have hnf' : (txnSavepoint bound s).2.isFailed = false := hnf
  show SpRel a ta n (txnSavepoint bound s).1
  by_cases hn : s.needsToJoin = true
  · rw [txnSavepoint_unjoined hn]
    exact hr.frame rfl rfl rfl (OidStep.refl _) (fun e he _ => Or.inl (getElem?_append_some he))
  · have hj : s.needsToJoin = false := by simpa using hn
    cases hres : (connSavepoint bound s).2 with
    | some e =>
      rw [txnSavepoint_fail hj bound hres] at hnf'
      cases hnf'
    | none =>
      rw [txnSavepoint_ok hj bound hres]
      have ok := connSavepoint_spOk h hj bound hres
      generalize (connSavepoint bound s).1 = m at *
      refine ⟨?_, ?_, ?_, (hr.oids ok.oidStep).1, (hr.oids ok.oidStep).2⟩
      · show m.committed = a.committed
        rw [shared_committed ok.shared]; exact hr.committed
      · show (m.sps ++ [spState m])[n]? = _ ∨ (m.sps ++ [spState m])[n]? = _
        rw [ok.sps]
        rcases hr.alive with h2 | h2
        · exact Or.inl (getElem?_append_some h2)
        · exact Or.inr (getElem?_append_some h2)
      · intro hn'
        have hn2 : (m.sps ++ [spState m])[n]? = some (SpEntry.real ta.position ta.index ta.creating) := hn'
        rw [ok.sps] at hn2
        have hns : s.sps[n]? = some (SpEntry.real ta.position ta.index ta.creating) := by
          rcases hr.alive with h2 | h2
          · exact h2
          · rw [getElem?_append_some h2] at hn2; cases hn2
        obtain ⟨t, hsp, f1, f2, f3⟩ := hr.facts hns
        obtain ⟨t', ht', _, hcreated, hagainst⟩ := ok.tmp
        obtain ⟨g1, g2, g3⟩ := hagainst t hsp
        have hle := (h.spsReal t hsp _ _ _ (List.mem_of_getElem? hns)).le
        refine ⟨t', ht', ?_, ?_, ?_⟩
        · intro q hq
          rw [g2 q (by omega)]; exact f1 q hq
        · intro k i hc
          have hcs := f2 k i hc
          exact ok.owned i k (h.str.cacheS k i hcs)
        · intro k hk hc
          rcases hcreated k hc with ⟨t0, ht0, h1⟩ | h1
          · rw [hsp] at ht0; cases ht0
            exact f3 k hk h1
          · obtain ⟨i, hi⟩ := Option.ne_none_iff_exists'.1 hk
            rw [f2 k i hi] at h1; cases h1

/-! ### program segments that stay inside the transaction -/

/-- steps that neither end the transaction nor fail (a failed savepoint ends it) -/
def inTxn (bound : Nat) (s : State) : Op → Bool
  | .read _ | .modify _ _ | .link _ _ | .unlink _ _ | .add _ | .peek _ | .rollback _ => true
  | .savepoint => !(step bound s .savepoint).2.isFailed
  | _ => false

/-- run a program segment as long as it stays inside the transaction -/
def runTxn (bound : Nat) : State → List Op → Option State
  | s, [] => some s
  | s, op :: rest => if inTxn bound s op then runTxn bound (stepH bound s op) rest else none

theorem inTxn_c12 {bound : Nat} {s : State} {op : Op} (h : inTxn bound s op = true) : c12 op = true := by
  cases op <;> simp_all [inTxn, c12]

theorem SpRel.next {a : State} {ta : TmpStore} {n : Nat} {s : State} (hr : SpRel a ta n s)
    (hg : Good12 s) (bound : Nat) (op : Op) (hin : inTxn bound s op = true) :
    SpRel a ta n (stepH bound s op) := by
  have h := hg.1
  cases op with
  | read i =>
    have h1 : (step bound s (.read i)).2.isFailed = false := by
      simp only [step]; split <;> rfl
    have h2 : (step bound s (.read i)).1 = (access s i).1 := by
      simp only [step]; split <;> rfl
    rw [stepH_of_notFailed _ _ _ h1, h2]
    obtain ⟨a1, a2, a3⟩ := access_tv s i
    exact hr.stable a1 a2 (shared_committed (access_shared s i)) (access_oidStep s i) (Or.inl a3)
  | modify i v =>
    rw [stepH_of_notFailed bound s (.modify i v) (mutate_notFailed s i _)]
    obtain ⟨a1, a2, a3⟩ := mutate_tv s i (fun o => some (v, o.refs))
    exact hr.stable a1 a2 (shared_committed (mutate_shared s i _)) (mutate_oidStep s i _) a3
  | link i j =>
    rw [stepH_of_notFailed bound s (.link i j) (mutate_notFailed s i _)]
    obtain ⟨a1, a2, a3⟩ := mutate_tv s i
      (fun o => if o.refs.contains j then none else some (o.val, o.refs ++ [j]))
    exact hr.stable a1 a2 (shared_committed (mutate_shared s i _)) (mutate_oidStep s i _) a3
  | unlink i j =>
    rw [stepH_of_notFailed bound s (.unlink i j) (mutate_notFailed s i _)]
    obtain ⟨a1, a2, a3⟩ := mutate_tv s i
      (fun o => if o.refs.contains j then some (o.val, o.refs.filter (· != j)) else none)
    exact hr.stable a1 a2 (shared_committed (mutate_shared s i _)) (mutate_oidStep s i _) a3
  | add i =>
    have hnf : (step bound s (.add i)).2.isFailed = false := by
      show (opAdd s i).2.isFailed = false
      unfold opAdd; dsimp only; repeat' split
      all_goals rfl
    rw [stepH_of_notFailed _ _ _ hnf]
    obtain ⟨a1, a2, a3⟩ := opAdd_tv s i
    exact hr.stable a1 a2 (shared_committed (opAdd_shared s i)) (opAdd_oidStep s i) a3
  | commit f => simp [inTxn] at hin
  | abort => simp [inTxn] at hin
  | savepoint =>
    have hnf : (step bound s .savepoint).2.isFailed = false := by simpa [inTxn] using hin
    exact hr.savepoint h bound hnf
  | rollback m =>
    rw [stepH_of_notFailed bound s (.rollback m) (txnRollback_notFailed s m)]
    exact hr.rollback h m
  | close => simp [inTxn] at hin
  | open_ => simp [inTxn] at hin
  | ext i v => simp [inTxn] at hin
  | peek i =>
    rw [stepH_of_notFailed bound s (.peek i) (by simp only [step]; unfold opPeek; split <;> rfl)]
    exact hr

theorem runTxn_rel {a : State} {ta : TmpStore} {n : Nat} (bound : Nat) (ops : List Op) :
    ∀ s s', Good12 s → SpRel a ta n s → runTxn bound s ops = some s' → Good12 s' ∧ SpRel a ta n s' := by
  induction ops with
  | nil =>
    intro s s' hg hr hrun
    simp only [runTxn, Option.some.injEq] at hrun
    subst hrun; exact ⟨hg, hr⟩
  | cons op rest ih =>
    intro s s' hg hr hrun
    simp only [runTxn] at hrun
    split at hrun
    · rename_i hin
      exact ih _ _ (stepH_good12 bound s op (inTxn_c12 hin) hg) (hr.next hg bound op hin) hrun
    · cases hrun

/-- **Rolling back restores exactly what could be read right after the savepoint was made.**
    `a`: the state right after savepoint `n` (no object is marked changed there); `s`: any later state
    of the transaction in which the savepoint is still valid. -/
theorem rollback_exact_core {a : State} {ta : TmpStore} {n : Nat} (ha : Inv12 a) (hasp : a.sp = some ta)
    (hanc : ∀ j, (a.objs j).status ≠ .changed) {s : State} (hs : Inv12 s) (hr : SpRel a ta n s)
    (hn : s.sps[n]? = some (SpEntry.real ta.position ta.index ta.creating)) :
    (txnRollback s n).2 = .ok ∧
    (∀ i k, a.cache.get k = some i → reads (txnRollback s n).1 i = reads a i) ∧
    (∀ i, (a.objs i).oid = none → ((txnRollback s n).1.objs i).oid = none) := by
  have heq : txnRollback s n = (rollbackSavepoint { s with sps := invalidateAfter n s.sps }
      ta.position ta.index ta.creating, .ok) := by
    unfold txnRollback; rw [hn]
  rw [heq]
  refine ⟨rfl, ?_, ?_⟩
  rotate_left
  · -- objects that did not belong to the connection at the savepoint do not belong to it now
    intro i h0
    have hinv := rollbackReal_inv12 hs hn
    obtain ⟨t, hsp, hj, we, w⟩ := hs.real_entry hn
    have hS' : Str [] { s with sps := invalidateAfter n s.sps } := hs.str.congr rfl rfl rfl rfl
    have F := rollbackSavepoint_facts (s := { s with sps := invalidateAfter n s.sps }) hS' hsp
      hs.regOid hs.changedReg hs.addedReg hs.creatingNil (fun k hk => (w.crIdx k hk).1) ta.position ta.index ta.creating
    generalize rollbackSavepoint { s with sps := invalidateAfter n s.sps } ta.position ta.index ta.creating
      = R at *
    cases hk : (R.objs i).oid with
    | none => rfl
    | some k =>
      exfalso
      have hks : (s.objs i).oid = some k := by
        rcases F.clean.2.oid i with h1 | h1
        · rw [← hk, h1]
        · rw [h1.1] at hk; cases hk
      have hge := hr.fresh i k h0 hks
      have hkn := hinv.str.known i k hk
      simp only [List.not_mem_nil, or_false, F.addedNil, Map.get_nil] at hkn
      have hcR : R.cache.get k = some i := by
        rcases hkn with h1 | h1
        · exact h1
        · cases h1
      rcases hinv.owned k i hcR with h1 | ⟨t', ht', h1⟩
      · rw [shared_committed F.shared] at h1
        have h2 : s.committed.get k ≠ none := h1
        rw [hr.committed] at h2
        have := ha.commFresh k h2
        omega
      · rw [F.sp] at ht'; cases ht'
        have h2 : ta.creating.has k = true := h1
        obtain ⟨i', hi'⟩ := (ha.tmp ta hasp).idxCached k ((ha.tmp ta hasp).crIdx k h2).1
        have := ha.str.fresh i' k (ha.str.cacheS k i' hi')
        omega
  intro i k hc
  have hinv := rollbackReal_inv12 hs hn
  obtain ⟨t, hsp, hj, we, w⟩ := hs.real_entry hn
  have hS' : Str [] { s with sps := invalidateAfter n s.sps } := hs.str.congr rfl rfl rfl rfl
  have F := rollbackSavepoint_facts (s := { s with sps := invalidateAfter n s.sps }) hS' hsp
    hs.regOid hs.changedReg hs.addedReg hs.creatingNil (fun k hk => (w.crIdx k hk).1) ta.position ta.index ta.creating
  generalize rollbackSavepoint { s with sps := invalidateAfter n s.sps } ta.position ta.index ta.creating
    = R at *
  obtain ⟨t1, ht1, f1, f2, f3⟩ := hr.facts hn
  rw [hsp] at ht1; cases ht1
  have hcR : R.cache.get k = some i := by
    apply F.keepCache hS' (f2 k i hc)
    rintro ⟨h1, h2⟩
    rw [f3 k (by rw [hc]; simp) h1] at h2; cases h2
  obtain ⟨r, hlr, hrd⟩ := reads_clean hinv hcR (F.noChanged i)
  obtain ⟨r', hlr', hrd'⟩ := reads_clean ha hc (hanc i)
  rw [hrd, hrd']
  have hL : loadRec R k = match ta.index.get k with
      | some q => (t.reset ta.position ta.index ta.creating).loadAt k q
      | none => R.snap.get k := by
    unfold loadRec; rw [F.sp]; rfl
  have hA : loadRec a k = match ta.index.get k with
      | some q => ta.loadAt k q
      | none => a.snap.get k := by
    unfold loadRec; rw [hasp]; rfl
  have : loadRec R k = loadRec a k := by
    rw [hL, hA]
    cases hx : ta.index.get k with
    | none =>
      simp only
      have h1 : R.snap = s.snap := F.clean.2.snap
      rw [h1, hs.snapEq, hr.committed, ← ha.snapEq]
    | some q =>
      simp only
      have hq := (we.idxLt k q hx).1
      unfold TmpStore.loadAt
      have : (t.reset ta.position ta.index ta.creating).entries[q]? = ta.entries[q]? := by
        show (t.entries.take ta.position)[q]? = _
        rw [take_get t.entries hq]; exact f1 q hq
      rw [this]
  rw [this, hlr'] at hlr
  cases hlr; rfl

/-! ### the program-level statements -/

theorem runTxn_append (bound : Nat) (l1 l2 : List Op) : ∀ s,
    runTxn bound s (l1 ++ l2) = (runTxn bound s l1).bind (fun s' => runTxn bound s' l2) := by
  induction l1 with
  | nil => intro s; rfl
  | cons op rest ih =>
    intro s
    simp only [List.cons_append, runTxn]
    split
    · exact ih _
    · rfl

theorem runTxn_rollback (bound : Nat) (s : State) (n : Nat) :
    runTxn bound s [.rollback n] = some (txnRollback s n).1 := by
  simp only [runTxn, inTxn, if_true]
  rw [stepH_of_notFailed bound s (.rollback n) (txnRollback_notFailed s n)]
  rfl

/-- a successful savepoint of the joined connection: the state `a` right after it -/
theorem savepoint_start {s1 : State} (hg : Good12 s1) (hj : s1.needsToJoin = false) (bound : Nat)
    (hok : (step bound s1 .savepoint).2 = .ok) :
    ∃ ta, (stepH bound s1 .savepoint).sp = some ta ∧
      (stepH bound s1 .savepoint).sps[s1.sps.length]? = some (SpEntry.real ta.position ta.index ta.creating) ∧
      (∀ j, ((stepH bound s1 .savepoint).objs j).status ≠ .changed) ∧
      (stepH bound s1 .savepoint).added = [] ∧
      (∀ i k, (s1.objs i).oid = some k →
        reads (stepH bound s1 .savepoint) i = reads s1 i ∧
        (stepH bound s1 .savepoint).cache.get k = some i) := by
  have hok' : (txnSavepoint bound s1).2 = .ok := hok
  have hnf : (step bound s1 .savepoint).2.isFailed = false := by rw [hok]; rfl
  rw [stepH_of_notFailed _ _ _ hnf]
  have hstep : (step bound s1 .savepoint).1 = (txnSavepoint bound s1).1 := rfl
  rw [hstep]
  cases hres : (connSavepoint bound s1).2 with
  | some e => rw [txnSavepoint_fail hj bound hres] at hok'; cases hok'
  | none =>
    rw [txnSavepoint_ok hj bound hres]
    have ok := connSavepoint_spOk hg.1 hj bound hres
    generalize (connSavepoint bound s1).1 = m at *
    obtain ⟨t', ht', _⟩ := ok.tmp
    refine ⟨t', ht', ?_, ok.noChanged, ok.addedNil, ?_⟩
    · show (m.sps ++ [spState m])[s1.sps.length]? = _
      rw [spState_of ht', ← ok.sps]
      simp
    · intro i k hk
      refine ⟨?_, ok.owned i k hk⟩
      have h1 : reads { m with sps := m.sps ++ [spState m] } i = reads m i :=
        reads_congr rfl rfl (fun _ => rfl)
      exact h1.trans (ok.reads i k hk)

/-- **rollback_exact**, for programs: `a` is the state right after a successful savepoint; after any
    program segment that stays inside the transaction, a successful rollback to that savepoint makes
    every object of the connection read exactly as it did in `a`. -/
theorem rollback_exact_prog {s1 : State} (hg : Good12 s1) (hj : s1.needsToJoin = false) (bound : Nat)
    (hok : (step bound s1 .savepoint).2 = .ok) (ops : List Op) {s : State}
    (hrun : runTxn bound (stepH bound s1 .savepoint) ops = some s)
    (hrb : (step bound s (.rollback s1.sps.length)).2 = .ok) :
    (∀ i, ((stepH bound s1 .savepoint).objs i).jar = true →
      reads (stepH bound s (.rollback s1.sps.length)) i = reads (stepH bound s1 .savepoint) i) ∧
    (∀ i, ((stepH bound s1 .savepoint).objs i).jar = false →
      ((stepH bound s (.rollback s1.sps.length)).objs i).jar = false ∧
      ((stepH bound s (.rollback s1.sps.length)).objs i).oid = none) := by
  obtain ⟨ta, hasp, hn, hanc, hadd, _⟩ := savepoint_start hg hj bound hok
  have hga := stepH_good12 bound s1 .savepoint rfl hg
  generalize stepH bound s1 .savepoint = a at *
  obtain ⟨hgs, hr⟩ := runTxn_rel bound ops a s hga (SpRel.start hasp hn) hrun
  have hns : s.sps[s1.sps.length]? = some (SpEntry.real ta.position ta.index ta.creating) := by
    rcases hr.alive with h2 | h2
    · exact h2
    · have : (txnRollback s s1.sps.length).2 = .ok := hrb
      unfold txnRollback at this
      rw [h2] at this; cases this
  obtain ⟨_, hcore, hnew⟩ := rollback_exact_core hga.1 hasp hanc hgs.1 hr hns
  have hgR := stepH_good12 bound s (.rollback s1.sps.length) rfl hgs
  rw [stepH_of_notFailed bound s (.rollback s1.sps.length) (txnRollback_notFailed s _)] at hgR ⊢
  constructor
  · intro i hjar
    rw [hga.1.str.jarOid] at hjar
    cases ho : (a.objs i).oid with
    | none => rw [ho] at hjar; cases hjar
    | some k =>
      have hkn := hga.1.str.known i k ho
      simp only [List.not_mem_nil, or_false, hadd, Map.get_nil] at hkn
      rcases hkn with h1 | h1
      · exact hcore i k h1
      · cases h1
  · intro i hjar
    rw [hga.1.str.jarOid] at hjar
    have ho : (a.objs i).oid = none := by
      cases ho : (a.objs i).oid with
      | none => rfl
      | some k => rw [ho] at hjar; cases hjar
    have := hnew i ho
    have h2 : ((step bound s (.rollback s1.sps.length)).1.objs i).oid = none := this
    refine ⟨?_, h2⟩
    rw [hgR.1.str.jarOid, h2]; rfl

theorem rollbackSavepoint_sps (s : State) (p idx cr) : (rollbackSavepoint s p idx cr).sps = s.sps := by
  unfold rollbackSavepoint
  dsimp only
  split
  · show (abortObjs s).sps = _; exact abortObjs_sps s
  · rw [invalidateAll_sps]
    show (invalidateCreating _ _).sps = _
    rw [invalidateCreating_sps]
    show (abortObjs s).sps = _; exact abortObjs_sps s

/-- after a rollback the savepoint itself stays valid, every later one is invalid -/
theorem rollback_invalidates_later {s : State} {n p : Nat} {idx : Map Nat} {cr : Map Bool}
    (hn : s.sps[n]? = some (SpEntry.real p idx cr)) :
    (txnRollback s n).1.sps[n]? = some (SpEntry.real p idx cr) ∧
    ∀ m, n < m → m < s.sps.length →
      txnRollback (txnRollback s n).1 m = ((txnRollback s n).1, .err .invalidSavepoint) := by
  have heq : (txnRollback s n).1 = rollbackSavepoint { s with sps := invalidateAfter n s.sps } p idx cr := by
    unfold txnRollback; rw [hn]
  have hsps : (txnRollback s n).1.sps = invalidateAfter n s.sps := by
    rw [heq, rollbackSavepoint_sps]
  constructor
  · rw [hsps, getElem?_invalidateAfter_le (Nat.le_refl n)]; exact hn
  · intro m hlt hm
    have : (txnRollback s n).1.sps[m]? = some SpEntry.invalid := by
      rw [hsps]; exact getElem?_invalidateAfter_gt hlt hm
    generalize (txnRollback s n).1 = R at *
    unfold txnRollback
    rw [this]

theorem stepH_shared_sp (bound : Nat) (s : State) (op : Op)
    (hop : op = .savepoint ∨ ∃ n, op = .rollback n) : shared (stepH bound s op) = shared s := by
  have h1 : shared (step bound s op).1 = shared s := by
    rcases hop with rfl | ⟨n, rfl⟩
    · exact txnSavepoint_shared bound s
    · exact txnRollback_shared s n
  unfold stepH
  dsimp only
  split
  · rw [txnAbortAfterFailure_shared]; exact h1
  · exact h1

theorem txnRollback_ok_sps {s : State} {n : Nat} (h : (txnRollback s n).2 = .ok) :
    (txnRollback s n).1.sps = invalidateAfter n s.sps ∧ n < s.sps.length := by
  unfold txnRollback at h ⊢
  cases hn : s.sps[n]? with
  | none => rw [hn] at h; cases h
  | some e =>
    have hlt := getElem?_lt hn
    cases e with
    | invalid => rw [hn] at h; cases h
    | real p idx cr => exact ⟨rollbackSavepoint_sps _ p idx cr, hlt⟩
    | abortSp j =>
      cases j with
      | false => exact ⟨rfl, hlt⟩
      | true => exact ⟨connAbort_sps _, hlt⟩

/-- after any successful rollback, every later savepoint is invalid (and trying to roll back to one
    changes nothing) -/
theorem rollback_later_invalid {s : State} {n : Nat} (h : (txnRollback s n).2 = .ok) (m : Nat)
    (hlt : n < m) (hm : m < s.sps.length) :
    txnRollback (txnRollback s n).1 m = ((txnRollback s n).1, .err .invalidSavepoint) := by
  obtain ⟨hsps, _⟩ := txnRollback_ok_sps h
  have : (txnRollback s n).1.sps[m]? = some SpEntry.invalid := by
    rw [hsps]; exact getElem?_invalidateAfter_gt hlt hm
  generalize (txnRollback s n).1 = R at *
  unfold txnRollback
  rw [this]

/-! ### a savepoint made before the connection joined the transaction (`AbortSavepoint`) -/

/-- `a`: the (idle) state in which savepoint number `n` was made; `s`: a later state of the transaction -/
structure AbRel (a : State) (n : Nat) (s : State) : Prop where
  committed : s.committed = a.committed
  alive : (∃ j, s.sps[n]? = some (SpEntry.abortSp j)) ∨ s.sps[n]? = some SpEntry.invalid
  cache : (∃ j, s.sps[n]? = some (SpEntry.abortSp j)) →
    ∀ k i, a.cache.get k = some i → s.cache.get k = some i
  nextOid : a.nextOid ≤ s.nextOid
  fresh : ∀ i k, (a.objs i).oid = none → (s.objs i).oid = some k → a.nextOid ≤ k

theorem AbRel.oids {a : State} {n : Nat} {s s' : State} (h : AbRel a n s) (ho : OidStep s s') :
    a.nextOid ≤ s'.nextOid ∧ ∀ i k, (a.objs i).oid = none → (s'.objs i).oid = some k → a.nextOid ≤ k := by
  refine ⟨Nat.le_trans h.nextOid ho.2, ?_⟩
  intro i k h0 hk
  rcases ho.1 i k hk with h1 | h1
  · exact h.fresh i k h0 h1
  · have := h.nextOid; omega

/-- the general step: the cache keeps the entries of `a`, the entry stays an `AbortSavepoint` or
    becomes invalid -/
theorem AbRel.frame {a : State} {n : Nat} {s s' : State} (h : AbRel a n s)
    (hc : ∀ k i, a.cache.get k = some i → s.cache.get k = some i → s'.cache.get k = some i)
    (hcm : s'.committed = s.committed) (ho : OidStep s s')
    (hs : ∀ j, s.sps[n]? = some (SpEntry.abortSp j) →
      (∃ j', s'.sps[n]? = some (SpEntry.abortSp j')) ∨ s'.sps[n]? = some SpEntry.invalid)
    (hi : s.sps[n]? = some SpEntry.invalid → s'.sps[n]? = some SpEntry.invalid) : AbRel a n s' := by
  refine ⟨by rw [hcm, h.committed], ?_, ?_, (h.oids ho).1, (h.oids ho).2⟩
  · rcases h.alive with ⟨j, h2⟩ | h2
    · exact hs j h2
    · exact Or.inr (hi h2)
  · rintro ⟨j', hj'⟩ k i hc0
    rcases h.alive with h2 | h2
    · exact hc k i hc0 (h.cache h2 k i hc0)
    · rw [hi h2] at hj'; cases hj'

theorem StableSps.abortSp {s s' : State} (h : StableSps s s') {n : Nat} {j : Bool}
    (hn : s.sps[n]? = some (SpEntry.abortSp j)) : ∃ j', s'.sps[n]? = some (SpEntry.abortSp j') := by
  rcases h with h | h
  · exact ⟨j, by rw [h]; exact hn⟩
  · exact ⟨true, by rw [h, List.getElem?_map, hn]; rfl⟩

theorem AbRel.stable {a : State} {n : Nat} {s s' : State} (h : AbRel a n s)
    (hc : s'.cache = s.cache) (hcm : s'.committed = s.committed) (ho : OidStep s s')
    (hst : StableSps s s') : AbRel a n s' :=
  h.frame (fun k i _ hcs => by rw [hc]; exact hcs) hcm ho (fun _ hj => Or.inl (hst.abortSp hj))
    (fun hi => hst.invalid hi)

theorem getElem?_invalidateAfter_abortSp {l : List SpEntry} {n m : Nat} {j : Bool}
    (h : l[n]? = some (SpEntry.abortSp j)) :
    (∃ j', (invalidateAfter m l)[n]? = some (SpEntry.abortSp j')) ∨
    (invalidateAfter m l)[n]? = some SpEntry.invalid := by
  rcases getElem?_invalidateAfter_some (m := m) h with h1 | h1
  · exact Or.inl ⟨j, h1⟩
  · exact Or.inr h1

theorem getElem?_invalidateAfter_invalid {l : List SpEntry} {n m : Nat}
    (h : l[n]? = some SpEntry.invalid) : (invalidateAfter m l)[n]? = some SpEntry.invalid := by
  rcases getElem?_invalidateAfter_some (m := m) h with h1 | h1 <;> exact h1

theorem AbRel.rollback {a : State} {n : Nat} {s : State} (hr : AbRel a n s) (h : Inv12 s)
    (hac : ∀ k i, a.cache.get k = some i → a.committed.get k ≠ none) (m : Nat) :
    AbRel a n (txnRollback s m).1 := by
  unfold txnRollback
  cases hm : s.sps[m]? with
  | none => exact hr
  | some e =>
    have hr0 : AbRel a n { s with sps := invalidateAfter m s.sps } :=
      hr.frame (fun _ _ _ hcs => hcs) rfl (OidStep.refl _)
        (fun _ hj => getElem?_invalidateAfter_abortSp hj) (fun hi => getElem?_invalidateAfter_invalid hi)
    have hcomm : ∀ k i, a.cache.get k = some i → s.committed.get k ≠ none := by
      intro k i hc; rw [hr.committed]; exact hac k i hc
    cases e with
    | invalid => exact hr
    | abortSp j =>
      dsimp only
      cases j with
      | false => exact hr0
      | true =>
        simp only [if_true]
        have hi := h.invalidated m
        have hd := connAbort_done hi.abortReady
        have hsps := connAbort_sps { s with sps := invalidateAfter m s.sps }
        refine hr0.frame ?_ (shared_committed (connAbort_shared _)) (OidStep.of_shrink hd.clean.2)
          (fun j hj => Or.inl ⟨j, by rw [hsps]; exact hj⟩) (fun hi' => by rw [hsps]; exact hi')
        intro k i hc0 hcs
        have hoid := hd.kept i k (h.str.cacheS k i hcs) (hcomm k i hc0)
        have hkn := hd.clean.1.known i k hoid
        simp only [List.not_mem_nil, or_false, hd.addedNil, Map.get_nil] at hkn
        rcases hkn with h1 | h1
        · exact h1
        · cases h1
    | real p' idx' cr' =>
      dsimp only
      obtain ⟨t, hsp, hj, we, w⟩ := h.real_entry hm
      have hS' : Str [] { s with sps := invalidateAfter m s.sps } := h.str.congr rfl rfl rfl rfl
      have F := rollbackSavepoint_facts (s := { s with sps := invalidateAfter m s.sps }) hS' hsp
        h.regOid h.changedReg h.addedReg h.creatingNil (fun k hk => (w.crIdx k hk).1) p' idx' cr'
      generalize rollbackSavepoint { s with sps := invalidateAfter m s.sps } p' idx' cr' = R at *
      have hsps : R.sps = invalidateAfter m s.sps := F.sps
      refine hr0.frame ?_ (shared_committed F.shared) (OidStep.of_shrink F.clean.2)
        (fun j hj => Or.inl ⟨j, by rw [hsps]; exact hj⟩) (fun hi' => by rw [hsps]; exact hi')
      intro k i hc0 hcs
      apply F.keepCache hS' hcs
      rintro ⟨h1, _⟩
      exact hcomm k i hc0 (w.crIdx k h1).2

theorem AbRel.savepoint {a : State} {n : Nat} {s : State} (hr : AbRel a n s) (h : Inv12 s) (bound : Nat)
    (hnf : (step bound s .savepoint).2.isFailed = false) : AbRel a n (stepH bound s .savepoint) := by
  rw [stepH_of_notFailed _ _ _ hnf]
  have hnf' : (txnSavepoint bound s).2.isFailed = false := hnf
  show AbRel a n (txnSavepoint bound s).1
  by_cases hn : s.needsToJoin = true
  · rw [txnSavepoint_unjoined hn]
    exact hr.frame (fun _ _ _ hcs => hcs) rfl (OidStep.refl _)
      (fun j hj => Or.inl ⟨j, getElem?_append_some hj⟩) (fun hi => getElem?_append_some hi)
  · have hj : s.needsToJoin = false := by simpa using hn
    cases hres : (connSavepoint bound s).2 with
    | some e =>
      rw [txnSavepoint_fail hj bound hres] at hnf'
      cases hnf'
    | none =>
      rw [txnSavepoint_ok hj bound hres]
      have ok := connSavepoint_spOk h hj bound hres
      generalize (connSavepoint bound s).1 = m at *
      refine hr.frame ?_ (shared_committed ok.shared) ok.oidStep ?_ ?_
      · intro k i _ hcs
        exact ok.owned i k (h.str.cacheS k i hcs)
      · intro j hj'
        left; refine ⟨j, ?_⟩
        show (m.sps ++ [spState m])[n]? = _
        rw [ok.sps]; exact getElem?_append_some hj'
      · intro hi
        show (m.sps ++ [spState m])[n]? = _
        rw [ok.sps]; exact getElem?_append_some hi

theorem AbRel.next {a : State} {n : Nat} {s : State} (hr : AbRel a n s) (hg : Good12 s)
    (hac : ∀ k i, a.cache.get k = some i → a.committed.get k ≠ none) (bound : Nat) (op : Op)
    (hin : inTxn bound s op = true) : AbRel a n (stepH bound s op) := by
  have h := hg.1
  cases op with
  | read i =>
    have h1 : (ZodbModel.Conn.step bound s (.read i)).2.isFailed = false := by
      simp only [ZodbModel.Conn.step]; split <;> rfl
    have h2 : (ZodbModel.Conn.step bound s (.read i)).1 = (access s i).1 := by
      simp only [ZodbModel.Conn.step]; split <;> rfl
    rw [stepH_of_notFailed _ _ _ h1, h2]
    obtain ⟨_, a2, a3⟩ := access_tv s i
    exact hr.stable a2 (shared_committed (access_shared s i)) (access_oidStep s i) (Or.inl a3)
  | modify i v =>
    rw [stepH_of_notFailed bound s (.modify i v) (mutate_notFailed s i _)]
    obtain ⟨_, a2, a3⟩ := mutate_tv s i (fun o => some (v, o.refs))
    exact hr.stable a2 (shared_committed (mutate_shared s i _)) (mutate_oidStep s i _) a3
  | link i j =>
    rw [stepH_of_notFailed bound s (.link i j) (mutate_notFailed s i _)]
    obtain ⟨_, a2, a3⟩ := mutate_tv s i
      (fun o => if o.refs.contains j then none else some (o.val, o.refs ++ [j]))
    exact hr.stable a2 (shared_committed (mutate_shared s i _)) (mutate_oidStep s i _) a3
  | unlink i j =>
    rw [stepH_of_notFailed bound s (.unlink i j) (mutate_notFailed s i _)]
    obtain ⟨_, a2, a3⟩ := mutate_tv s i
      (fun o => if o.refs.contains j then some (o.val, o.refs.filter (· != j)) else none)
    exact hr.stable a2 (shared_committed (mutate_shared s i _)) (mutate_oidStep s i _) a3
  | add i =>
    have hnf : (ZodbModel.Conn.step bound s (.add i)).2.isFailed = false := by
      show (opAdd s i).2.isFailed = false
      unfold opAdd; dsimp only; repeat' split
      all_goals rfl
    rw [stepH_of_notFailed _ _ _ hnf]
    obtain ⟨_, a2, a3⟩ := opAdd_tv s i
    exact hr.stable a2 (shared_committed (opAdd_shared s i)) (opAdd_oidStep s i) a3
  | commit f => simp [inTxn] at hin
  | abort => simp [inTxn] at hin
  | savepoint =>
    have hnf : (ZodbModel.Conn.step bound s .savepoint).2.isFailed = false := by simpa [inTxn] using hin
    exact hr.savepoint h bound hnf
  | rollback m =>
    rw [stepH_of_notFailed bound s (.rollback m) (txnRollback_notFailed s m)]
    exact hr.rollback h hac m
  | close => simp [inTxn] at hin
  | open_ => simp [inTxn] at hin
  | ext i v => simp [inTxn] at hin
  | peek i =>
    rw [stepH_of_notFailed bound s (.peek i) (by simp only [ZodbModel.Conn.step]; unfold opPeek; split <;> rfl)]
    exact hr

theorem runTxn_abRel {a : State} {n : Nat} (hac : ∀ k i, a.cache.get k = some i → a.committed.get k ≠ none)
    (bound : Nat) (ops : List Op) :
    ∀ s s', Good12 s → AbRel a n s → runTxn bound s ops = some s' → Good12 s' ∧ AbRel a n s' := by
  induction ops with
  | nil =>
    intro s s' hg hr hrun
    simp only [runTxn, Option.some.injEq] at hrun
    subst hrun; exact ⟨hg, hr⟩
  | cons op rest ih =>
    intro s s' hg hr hrun
    simp only [runTxn] at hrun
    split at hrun
    · rename_i hin
      exact ih _ _ (stepH_good12 bound s op (inTxn_c12 hin) hg) (hr.next hg hac bound op hin) hrun
    · cases hrun

/-- **rollback_exact for a savepoint made before the connection joined**: rolling back to it — after
    any program segment inside the transaction — is `Connection.abort`; every object of the connection
    reads as it did when the savepoint was made (its committed state), everything else is disowned. -/
theorem rollback_exact_unjoined_prog {s1 : State} (hg : Good12 s1) (hn1 : s1.needsToJoin = true)
    (bound : Nat) (ops : List Op) {s : State}
    (hrun : runTxn bound (stepH bound s1 .savepoint) ops = some s)
    (hrb : (step bound s (.rollback s1.sps.length)).2 = .ok) :
    (∀ i, ((stepH bound s1 .savepoint).objs i).jar = true →
      reads (stepH bound s (.rollback s1.sps.length)) i = reads (stepH bound s1 .savepoint) i) ∧
    (∀ i, ((stepH bound s1 .savepoint).objs i).jar = false →
      ((stepH bound s (.rollback s1.sps.length)).objs i).jar = false ∧
      ((stepH bound s (.rollback s1.sps.length)).objs i).oid = none) := by
  have hga := stepH_good12 bound s1 .savepoint rfl hg
  have hae : stepH bound s1 .savepoint = { s1 with sps := s1.sps ++ [.abortSp false] } := by
    have hnf : (step bound s1 .savepoint).2.isFailed = false := by
      show (txnSavepoint bound s1).2.isFailed = false
      rw [txnSavepoint_unjoined hn1]; rfl
    rw [stepH_of_notFailed _ _ _ hnf]
    show (txnSavepoint bound s1).1 = _
    rw [txnSavepoint_unjoined hn1]
  have han : (stepH bound s1 .savepoint).sps[s1.sps.length]? = some (SpEntry.abortSp false) := by
    rw [hae]; simp
  have hantj : (stepH bound s1 .savepoint).needsToJoin = true := by rw [hae]; exact hn1
  generalize stepH bound s1 .savepoint = a at *
  obtain ⟨hareg, haadd, hasp⟩ := hga.1.idle hantj
  have hac : ∀ k i, a.cache.get k = some i → a.committed.get k ≠ none := by
    intro k i hc
    rcases hga.1.owned k i hc with h1 | ⟨t, ht, _⟩
    · exact h1
    · rw [hasp] at ht; cases ht
  have hr0 : AbRel a s1.sps.length a :=
    ⟨rfl, Or.inl ⟨false, han⟩, fun _ _ _ h => h, Nat.le_refl _, fun i k h0 hk => by rw [h0] at hk; cases hk⟩
  obtain ⟨hgs, hr⟩ := runTxn_abRel hac bound ops a s hga hr0 hrun
  have hrb' : (txnRollback s s1.sps.length).2 = .ok := hrb
  obtain ⟨j, hns⟩ : ∃ j, s.sps[s1.sps.length]? = some (SpEntry.abortSp j) := by
    rcases hr.alive with h2 | h2
    · exact h2
    · unfold txnRollback at hrb'
      rw [h2] at hrb'; cases hrb'
  have hgR := stepH_good12 bound s (.rollback s1.sps.length) rfl hgs
  rw [stepH_of_notFailed bound s (.rollback s1.sps.length) (txnRollback_notFailed s _)] at hgR ⊢
  have hrR : AbRel a s1.sps.length (txnRollback s s1.sps.length).1 := hr.rollback hgs.1 hac _
  have hspsR := (txnRollback_ok_sps hrb').1
  have hidle : (txnRollback s s1.sps.length).1.sp = none ∧ (txnRollback s s1.sps.length).1.registered = [] ∧
      (txnRollback s s1.sps.length).1.added = [] := by
    unfold txnRollback
    rw [hns]
    dsimp only
    cases j with
    | false =>
      have hsn : s.needsToJoin = true := by
        cases hh : s.needsToJoin with
        | true => rfl
        | false => exact absurd (List.mem_of_getElem? hns) (hgs.1.spsFlag hh)
      obtain ⟨i1, i2, i3⟩ := hgs.1.idle hsn
      exact ⟨i3, i1, i2⟩
    | true =>
      simp only [if_true]
      have hd := connAbort_done (hgs.1.invalidated s1.sps.length).abortReady
      exact ⟨hd.spNone, hd.regNil, hd.addedNil⟩
  have hRn : (txnRollback s s1.sps.length).1.sps[s1.sps.length]? = some (SpEntry.abortSp j) := by
    rw [hspsR, getElem?_invalidateAfter_le (Nat.le_refl _)]; exact hns
  show (∀ i, (a.objs i).jar = true → reads (step bound s (.rollback s1.sps.length)).1 i = reads a i) ∧ _
  have hstep : (step bound s (.rollback s1.sps.length)).1 = (txnRollback s s1.sps.length).1 := rfl
  rw [hstep] at hgR ⊢
  generalize (txnRollback s s1.sps.length).1 = R at *
  obtain ⟨hRsp, hRreg, hRadd⟩ := hidle
  have hload : ∀ (u : State), Inv12 u → u.sp = none → ∀ k, loadRec u k = u.committed.get k := by
    intro u hu husp k
    unfold loadRec; rw [husp]; simp only; rw [hu.snapEq]
  constructor
  · intro i hjar
    rw [hga.1.str.jarOid] at hjar
    cases ho : (a.objs i).oid with
    | none => rw [ho] at hjar; cases hjar
    | some k =>
      have hkn := hga.1.str.known i k ho
      simp only [List.not_mem_nil, or_false, haadd, Map.get_nil] at hkn
      have hca : a.cache.get k = some i := by
        rcases hkn with h1 | h1
        · exact h1
        · cases h1
      have hcR := hrR.cache ⟨j, hRn⟩ k i hca
      have hncR : (R.objs i).status ≠ .changed := by
        intro hch
        have := hgR.1.changedReg i hch
        rw [hRreg] at this; cases this
      have hnca : (a.objs i).status ≠ .changed := by
        intro hch
        have := hga.1.changedReg i hch
        rw [hareg] at this; cases this
      obtain ⟨r, hlr, hrd⟩ := reads_clean hgR.1 hcR hncR
      obtain ⟨r', hlr', hrd'⟩ := reads_clean hga.1 hca hnca
      rw [hload R hgR.1 hRsp, hrR.committed] at hlr
      rw [hload a hga.1 hasp, hlr] at hlr'
      cases hlr'
      rw [hrd, hrd']
  · intro i hjar
    rw [hga.1.str.jarOid] at hjar
    have ho : (a.objs i).oid = none := by
      cases ho : (a.objs i).oid with
      | none => rfl
      | some k => rw [ho] at hjar; cases hjar
    have h2 : (R.objs i).oid = none := by
      cases hk : (R.objs i).oid with
      | none => rfl
      | some k =>
        exfalso
        have hge := hrR.fresh i k ho hk
        have hkn := hgR.1.str.known i k hk
        simp only [List.not_mem_nil, or_false, hRadd, Map.get_nil] at hkn
        have hcR : R.cache.get k = some i := by
          rcases hkn with h1 | h1
          · exact h1
          · cases h1
        rcases hgR.1.owned k i hcR with h1 | ⟨t, ht, _⟩
        · rw [hrR.committed] at h1
          have := hga.1.commFresh k h1
          omega
        · rw [hRsp] at ht; cases ht
    refine ⟨?_, h2⟩
    rw [hgR.1.str.jarOid, h2]; rfl

end Proofs.Conn
