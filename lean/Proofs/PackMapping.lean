/-
  Helper lemmas for C07, part 5: `packMapping` (MappingStorage.pack).
-/
import Proofs.PackR
set_option linter.unusedSimpArgs false
namespace Proofs.Pack
open ZodbModel ZodbModel.Pack

/-! ### prune -/

theorem pruneTxn_entry (keep : Tid → Oid → Bool) (t : Txn) (o : Oid) :
    (pruneTxn keep t).bind (entry o) = (entry o t).filter (fun x => keep x.1 o) := by
  unfold pruneTxn entry
  simp only
  split
  · rename_i hlen
    have hall : ∀ r ∈ t.recs, keep t.tid r.oid = true := by
      have : (t.recs.filter (fun r => keep t.tid r.oid)).length = t.recs.length := by simpa using hlen
      have := List.length_filter_eq_length_iff.1 this
      exact this
    simp only [Option.bind_some]
    cases hr : t.recOf o with
    | none => simp
    | some r =>
      obtain ⟨hm, ho⟩ := recOf_mem hr
      have := hall r hm
      rw [ho] at this
      simp [Option.filter, this]
  · split
    · rename_i hemp
      cases hr : t.recOf o with
      | none => simp
      | some r =>
        obtain ⟨hm, ho⟩ := recOf_mem hr
        by_cases hk : keep t.tid o = true
        · exfalso
          have : r ∈ t.recs.filter (fun r => keep t.tid r.oid) := by
            rw [List.mem_filter]; exact ⟨hm, by rw [ho]; exact hk⟩
          rw [List.isEmpty_iff] at hemp
          rw [hemp] at this
          simp at this
        · have : keep t.tid o = false := by simpa using hk
          simp [Option.filter, this]
    · simp only [Option.bind_some, Txn.recOf]
      rw [dedupLast_filter_oid (keep t.tid), find?_filter_oid (keep t.tid)]
      by_cases hk : keep t.tid o = true
      · simp only [hk, if_true]
        cases hr : (dedupLast t.recs).find? (fun r => r.oid == o) with
        | none => simp [Txn.recOf, hr]
        | some r => simp [Txn.recOf, hr, Option.filter, hk]
      · have hk' : keep t.tid o = false := by simpa using hk
        simp only [hk', Bool.false_eq_true, if_false]
        cases hr : (dedupLast t.recs).find? (fun r => r.oid == o) with
        | none => simp [Txn.recOf, hr]
        | some r => simp [Txn.recOf, hr, Option.filter, hk']

theorem recsOf_prune (keep : Tid → Oid → Bool) (h : History) (o : Oid) :
    recsOf (prune keep h) o = (recsOf h o).filter (fun x => keep x.1 o) := by
  rw [recsOf_eq_filterMap, recsOf_eq_filterMap, prune, List.filterMap_filterMap]
  induction h with
  | nil => rfl
  | cons t rest ih =>
    simp only [List.filterMap_cons]
    rw [pruneTxn_entry]
    cases he : entry o t with
    | none => simpa using ih
    | some x =>
      by_cases hk : keep x.1 o = true
      · simp [Option.filter, hk, ih]
      · have hk' : keep x.1 o = false := by simpa using hk
        simp [Option.filter, hk', ih]

theorem hasRec_iff_recsOf {h : History} {t : Tid} {o : Oid} :
    hasRec h t o = true ↔ ∃ r, (t, r) ∈ recsOf h o := by
  rw [hasRec_iff]
  constructor
  · rintro ⟨t', ht', e, hs⟩
    obtain ⟨r, hr⟩ := Option.isSome_iff_exists.1 hs
    exact ⟨r, e ▸ mem_recsOf_of ht' hr⟩
  · rintro ⟨r, hr⟩
    obtain ⟨t', ht', e, hr'⟩ := mem_recsOf hr
    exact ⟨t', ht', e, by simp [hr']⟩

theorem writtenAfter_iff {h : History} {T : Tid} {o : Oid} :
    writtenAfter h T o = true ↔ ∃ x ∈ recsOf h o, T < x.1 := by
  simp only [writtenAfter, List.any_eq_true, Bool.and_eq_true, decide_eq_true_eq]
  constructor
  · rintro ⟨t', ht', hlt, hs⟩
    obtain ⟨r, hr⟩ := Option.isSome_iff_exists.1 hs
    exact ⟨(t'.tid, r), mem_recsOf_of ht' hr, hlt⟩
  · rintro ⟨x, hx, hlt⟩
    obtain ⟨t', ht', e, hr'⟩ := mem_recsOf hx
    exact ⟨t', ht', by omega, by simp [hr']⟩

/-! ### step 1 never touches what a bound above the pack time sees -/

theorem find?_and_of_first {α} (p q : α → Bool) (l : List α)
    (h : ∀ x, l.find? p = some x → q x = true) :
    l.find? (fun x => q x && p x) = l.find? p := by
  induction l with
  | nil => rfl
  | cons a t ih =>
    by_cases hp : p a = true
    · have hq : q a = true := h a (by simp [List.find?, hp])
      simp [List.find?, hp, hq]
    · have hp' : p a = false := by simpa using hp
      simp only [List.find?, hp', Bool.and_false]
      apply ih
      intro x hx
      apply h
      simp [List.find?, hp', hx]

theorem find?_filter' {α} (p q : α → Bool) (l : List α) :
    (l.filter q).find? p = l.find? (fun x => q x && p x) := by
  induction l with
  | nil => rfl
  | cons a t ih =>
    by_cases hq : q a = true
    · rw [List.filter_cons_of_pos hq]
      simp only [List.find?, hq, Bool.true_and, ih]
    · have hq' : q a = false := by simpa using hq
      rw [List.filter_cons_of_neg (by simpa using hq)]
      simp only [List.find?, hq', Bool.false_and, ih]

theorem lastBefore_max {h : History} (hs : Sorted h) {o : Oid} {b : Tid} {x : Tid × Rec}
    (hl : lastBefore h o b = some x) : ∀ y ∈ recsOf h o, y.1 < b → y.1 ≤ x.1 := by
  unfold lastBefore at hl
  obtain ⟨_, as, bs, e, hnot⟩ := List.find?_eq_some_iff_append.1 hl
  have hrev : recsOf h o = bs.reverse ++ ([x] ++ as.reverse) := by
    have := congrArg List.reverse e
    simpa using this
  have hp := recsOf_sorted hs o
  rw [hrev] at hp ⊢
  intro y hy hyb
  rcases List.mem_append.1 hy with hy | hy
  · have := (List.pairwise_append.1 hp).2.2 y hy x (by simp)
    omega
  · rcases List.mem_append.1 hy with hy | hy
    · simp at hy; subst hy; omega
    · have := hnot y (List.mem_reverse.1 hy)
      simp at this; omega

theorem not_superseded_of_lastBefore {h : History} (hs : Sorted h) {T b : Tid} (hb : T < b)
    {o : Oid} {x : Tid × Rec} (hl : lastBefore h o b = some x) : supersededAt h T x.1 o = false := by
  cases hsup : supersededAt h T x.1 o with
  | false => rfl
  | true =>
    exfalso
    obtain ⟨t', ht', h1, h2, h3⟩ := supersededAt_iff.1 hsup
    obtain ⟨r', hr'⟩ := Option.isSome_iff_exists.1 h3
    have := lastBefore_max hs hl _ (mem_recsOf_of ht' hr') (by simp only; omega)
    simp only at this; omega

def keep1 (h : History) (T : Tid) : Tid → Oid → Bool := fun t o => !supersededAt h T t o

theorem lastBefore_step1 {h : History} (hs : Sorted h) {T b : Tid} (hb : T < b) (o : Oid) :
    lastBefore (prune (keep1 h T) h) o b = lastBefore h o b := by
  unfold lastBefore
  rw [recsOf_prune, ← List.filter_reverse, find?_filter']
  apply find?_and_of_first
  intro x hx
  have := not_superseded_of_lastBefore hs hb (o := o) (x := x) hx
  simp [keep1, this]

theorem firstFrom_step1 {h : History} {T b : Tid} (hb : T < b) (o : Oid) :
    firstFrom (prune (keep1 h T) h) o b = firstFrom h o b := by
  unfold firstFrom
  rw [recsOf_prune, find?_filter']
  congr 1
  apply find?_and_of_first
  intro x hx
  have hx' : b ≤ x.1 := by simpa using List.find?_some hx
  cases hsup : supersededAt h T x.1 o with
  | false => simp [keep1, hsup]
  | true =>
    obtain ⟨t', _, h1, h2, _⟩ := supersededAt_iff.1 hsup
    omega

theorem isEmpty_step1 {h : History} (hs : Sorted h) (T : Tid) (o : Oid) :
    (recsOf (prune (keep1 h T) h) o).isEmpty = (recsOf h o).isEmpty := by
  rw [recsOf_prune]
  cases hl : (recsOf h o).getLast? with
  | none =>
    have : recsOf h o = [] := List.getLast?_eq_none_iff.1 hl
    simp [this]
  | some x =>
    have hx : x ∈ recsOf h o := List.mem_of_getLast? hl
    have hk : keep1 h T x.1 o = true := by
      cases hsup : supersededAt h T x.1 o with
      | false => simp [keep1, hsup]
      | true =>
        exfalso
        obtain ⟨t', ht', h1, _, h3⟩ := supersededAt_iff.1 hsup
        obtain ⟨r', hr'⟩ := Option.isSome_iff_exists.1 h3
        have := lastRec_max hs (o := o) (x := x) hl _ (mem_recsOf_of ht' hr')
        simp only at this; omega
    have h1 : x ∈ (recsOf h o).filter (fun x => keep1 h T x.1 o) := List.mem_filter.2 ⟨hx, hk⟩
    cases hf : (recsOf h o).filter (fun x => keep1 h T x.1 o) with
    | nil => rw [hf] at h1; simp at h1
    | cons a l =>
      cases hr : recsOf h o with
      | nil => rw [hr] at hx; simp at hx
      | cons a' l' => rfl

/-- step 1 (drop the revisions superseded at the pack time) changes no answer above the pack time -/
theorem loadBefore_step1 {h : History} (hs : Sorted h) {T b : Tid} (hb : T < b) (o : Oid) :
    loadBefore (prune (keep1 h T) h) o b = loadBefore h o b := by
  unfold loadBefore
  rw [isEmpty_step1 hs, lastBefore_step1 hs hb, firstFrom_step1 hb]

/-! ### step 2 -/

theorem recsOf_prune_of_keep {keep : Tid → Oid → Bool} {h : History} {o : Oid}
    (hk : ∀ t, keep t o = true) : recsOf (prune keep h) o = recsOf h o := by
  rw [recsOf_prune, List.filter_eq_self]
  intro x _; exact hk x.1

theorem loadBefore_prune_of_keep {keep : Tid → Oid → Bool} {h : History} {o : Oid}
    (hk : ∀ t, keep t o = true) (b : Tid) : loadBefore (prune keep h) o b = loadBefore h o b := by
  unfold loadBefore lastBefore firstFrom
  rw [recsOf_prune_of_keep hk]

theorem mappingSweep_inv {h1 h2 : History} {T : Tid} (hsw : mappingSweep h1 T = .ok h2) :
    ∃ S : List Oid, h2 = prune (fun _ o => S.contains o) h1 ∧ 0 ∈ S ∧
      (∀ o, writtenAfter h1 T o = true → o ∈ S) ∧
      (∀ o ∈ S, ∀ o' ∈ refsAll h1 o, o' ∈ S) := by
  unfold mappingSweep at hsw
  simp only at hsw
  split at hsw
  · cases hsw
  · rename_i S hS
    split at hsw
    · injection hsw with hsw
      obtain ⟨hroots, hclosed⟩ := Reach.closure_closed hS
      refine ⟨S, hsw.symm, hroots 0 (List.mem_cons_self ..), ?_, hclosed⟩
      intro o hw
      apply hroots
      refine List.mem_cons_of_mem _ (List.mem_filter.2 ⟨?_, hw⟩)
      obtain ⟨x, hx, _⟩ := writtenAfter_iff.1 hw
      obtain ⟨t', ht', _, hr'⟩ := mem_recsOf hx
      obtain ⟨hm, ho⟩ := recOf_mem hr'
      exact List.mem_flatMap.2 ⟨t', ht', List.mem_map.2 ⟨x.2, hm, ho⟩⟩
    · cases hsw

/-- everything reachable in a snapshot above the pack time is swept -/
theorem reach_in_sweep {h : History} (hs : Sorted h) {T b : Tid} (hb : T < b) {S : List Oid}
    (h0 : 0 ∈ S) (hclosed : ∀ o ∈ S, ∀ o' ∈ refsAll (prune (keep1 h T) h) o, o' ∈ S)
    {o : Oid} (hr : ReachableAt h b o) : o ∈ S := by
  induction hr with
  | root hm => simp at hm; subst hm; exact h0
  | @step o o' _ href ih =>
    unfold refsAt at href
    split at href
    · rename_i t r hlb
      split at href
      · apply hclosed o ih
        rw [← lastBefore_step1 hs hb] at hlb
        have := (lastBefore_mem hlb).1
        unfold refsAll
        exact List.mem_flatMap.2 ⟨(t, r), this, href⟩
      · simp at href
    · simp at href

/-! ### the state after `packMapping` -/

/-- the three possible results of `packMapping`, as far as the history is concerned -/
theorem packMapping_cases (s : MState) (T : Tid) (gc : Bool) :
    (packMapping s T gc).1 = s ∨
    ((packMapping s T gc).1.h = prune (keep1 s.h T) s.h ∧ (packMapping s T gc).1.lastPack = some T) ∨
    (∃ S : List Oid, (packMapping s T gc).1.h =
        prune (fun _ o => S.contains o) (prune (keep1 s.h T) s.h) ∧
      (packMapping s T gc).1.lastPack = some T ∧ 0 ∈ S ∧
      (∀ o, writtenAfter (prune (keep1 s.h T) s.h) T o = true → o ∈ S) ∧
      (∀ o ∈ S, ∀ o' ∈ refsAll (prune (keep1 s.h T) s.h) o, o' ∈ S)) := by
  unfold packMapping
  split
  · exact Or.inl rfl
  · split
    · exact Or.inl rfl
    · split
      · exact Or.inl rfl
      · simp only
        split
        · split
          · exact Or.inr (Or.inl ⟨rfl, rfl⟩)
          · rename_i h2 hsw
            obtain ⟨S, e, h0, hw, hc⟩ := mappingSweep_inv hsw
            exact Or.inr (Or.inr ⟨S, e, rfl, h0, hw, hc⟩)
        · exact Or.inr (Or.inl ⟨rfl, rfl⟩)

theorem packMapping_preserves_loads {s : MState} {T : Tid} {gc : Bool} (hs : Sorted s.h)
    {b : Tid} (hb : T < b) {o : Oid} (hr : ReachableAt s.h b o) :
    loadBefore (packMapping s T gc).1.h o b = loadBefore s.h o b := by
  rcases packMapping_cases s T gc with e | ⟨e, _⟩ | ⟨S, e, _, h0, _, hc⟩
  · rw [e]
  · rw [e]; exact loadBefore_step1 hs hb o
  · rw [e]
    have hoS : o ∈ S := reach_in_sweep hs hb h0 hc hr
    rw [loadBefore_prune_of_keep (fun _ => by simpa using hoS)]
    exact loadBefore_step1 hs hb o

/-! ### later transactions are untouched -/

theorem pruneTxn_tid {keep : Tid → Oid → Bool} {t t' : Txn} (h : pruneTxn keep t = some t') :
    t'.tid = t.tid := by
  unfold pruneTxn at h
  simp only at h
  split at h
  · injection h with h; rw [h]
  · split at h
    · cases h
    · injection h with h; rw [← h]

theorem pruneTxn_of_all {keep : Tid → Oid → Bool} {t : Txn} (h : ∀ r ∈ t.recs, keep t.tid r.oid = true) :
    pruneTxn keep t = some t := by
  unfold pruneTxn
  have : t.recs.filter (fun r => keep t.tid r.oid) = t.recs := List.filter_eq_self.2 h
  simp [this]

theorem prune_filter_gt {keep : Tid → Oid → Bool} {T : Tid} : ∀ {h : History},
    (∀ t ∈ h, T < t.tid → ∀ r ∈ t.recs, keep t.tid r.oid = true) →
    (prune keep h).filter (fun t => decide (T < t.tid)) = h.filter (fun t => decide (T < t.tid)) := by
  intro h
  induction h with
  | nil => intro _; rfl
  | cons t rest ih =>
    intro hk
    have ih' := ih (fun t' ht' => hk t' (List.mem_cons_of_mem _ ht'))
    unfold prune at ih' ⊢
    simp only [List.filterMap_cons]
    by_cases hgt : T < t.tid
    · rw [pruneTxn_of_all (hk t (List.mem_cons_self ..) hgt)]
      simp [List.filter_cons, hgt, ih']
    · cases hp : pruneTxn keep t with
      | none => simp [List.filter_cons, hgt, ih']
      | some t' =>
        have := pruneTxn_tid hp
        simp [List.filter_cons, hgt, this, ih']

theorem mem_prune {keep : Tid → Oid → Bool} {h : History} {t' : Txn} (ht' : t' ∈ prune keep h) :
    ∃ t ∈ h, t'.tid = t.tid ∧ ∀ r ∈ t'.recs, r ∈ t.recs := by
  unfold prune at ht'
  obtain ⟨t, ht, hp⟩ := List.mem_filterMap.1 ht'
  refine ⟨t, ht, pruneTxn_tid hp, ?_⟩
  unfold pruneTxn at hp
  simp only at hp
  split at hp
  · injection hp with hp; subst hp; exact fun r hr => hr
  · split at hp
    · cases hp
    · injection hp with hp; subst hp
      intro r hr
      exact (List.mem_filter.1 hr).1

theorem packMapping_keeps_later (s : MState) (T : Tid) (gc : Bool) :
    (packMapping s T gc).1.h.filter (fun t => decide (T < t.tid)) =
      s.h.filter (fun t => decide (T < t.tid)) := by
  have step1 : (prune (keep1 s.h T) s.h).filter (fun t => decide (T < t.tid)) =
      s.h.filter (fun t => decide (T < t.tid)) := by
    apply prune_filter_gt
    intro t _ hgt r _
    cases hsup : supersededAt s.h T t.tid r.oid with
    | false => simp [keep1, hsup]
    | true => obtain ⟨_, _, h1, h2, _⟩ := supersededAt_iff.1 hsup; omega
  rcases packMapping_cases s T gc with e | ⟨e, _⟩ | ⟨S, e, _, _, hw, _⟩
  · rw [e]
  · rw [e]; exact step1
  · rw [e, ← step1]
    apply prune_filter_gt
    intro t ht hgt r hr
    have : r.oid ∈ S := by
      apply hw
      rw [writtenAfter_iff]
      obtain ⟨r0, hr0⟩ := Option.isSome_iff_exists.1 (recOf_isSome_of_mem hr)
      exact ⟨(t.tid, r0), mem_recsOf_of ht hr0, hgt⟩
    simpa using this

/-! ### only R is removed (sentence 1 in full) -/

theorem packMapping_removes_only_R {s : MState} {T : Tid} {gc : Bool} (hs : Sorted s.h)
    {t : Txn} (ht : t ∈ s.h) {r : Rec} (hr : r ∈ t.recs)
    (hgone : hasRec (packMapping s T gc).1.h t.tid r.oid = false) :
    t.tid ≤ T ∧ (supersededAt s.h T t.tid r.oid = true ∨
      (¬ ReachableAtT s.h T r.oid ∧ writtenAfter s.h T r.oid = false)) := by
  obtain ⟨r0, hr0⟩ := Option.isSome_iff_exists.1 (recOf_isSome_of_mem hr)
  have hmem : (t.tid, r0) ∈ recsOf s.h r.oid := mem_recsOf_of ht hr0
  have hsup_le : supersededAt s.h T t.tid r.oid = true → t.tid ≤ T := by
    intro hsup
    obtain ⟨_, _, h1, h2, _⟩ := supersededAt_iff.1 hsup
    omega
  have hnot : ∀ h', hasRec h' t.tid r.oid = false → (t.tid, r0) ∉ recsOf h' r.oid := by
    intro h' hf hm
    have := hasRec_iff_recsOf.2 ⟨r0, hm⟩
    rw [this] at hf; cases hf
  by_cases hsup : supersededAt s.h T t.tid r.oid = true
  · exact ⟨hsup_le hsup, Or.inl hsup⟩
  have hk1 : keep1 s.h T t.tid r.oid = true := by
    have : supersededAt s.h T t.tid r.oid = false := by simpa using hsup
    simp [keep1, this]
  have hmem1 : (t.tid, r0) ∈ recsOf (prune (keep1 s.h T) s.h) r.oid := by
    rw [recsOf_prune]; exact List.mem_filter.2 ⟨hmem, hk1⟩
  rcases packMapping_cases s T gc with e | ⟨e, _⟩ | ⟨S, e, _, h0, hw, hc⟩
  · rw [e] at hgone; exact absurd hmem (hnot _ hgone)
  · rw [e] at hgone; exact absurd hmem1 (hnot _ hgone)
  · rw [e] at hgone
    have hnS : r.oid ∉ S := by
      intro hin
      apply hnot _ hgone
      rw [recsOf_prune_of_keep (fun _ => by simpa using hin)]
      exact hmem1
    have hnw1 : writtenAfter (prune (keep1 s.h T) s.h) T r.oid = false := by
      cases hx : writtenAfter (prune (keep1 s.h T) s.h) T r.oid with
      | false => rfl
      | true => exact absurd (hw _ hx) hnS
    have hle : t.tid ≤ T := by
      apply Nat.le_of_not_lt
      intro hgt
      have : writtenAfter (prune (keep1 s.h T) s.h) T r.oid = true :=
        writtenAfter_iff.2 ⟨_, hmem1, hgt⟩
      rw [this] at hnw1; cases hnw1
    refine ⟨hle, Or.inr ⟨?_, ?_⟩⟩
    · intro hreach
      exact hnS (reach_in_sweep hs (Nat.lt_succ_self T) h0 hc hreach)
    · cases hx : writtenAfter s.h T r.oid with
      | false => rfl
      | true =>
        exfalso
        obtain ⟨x, hx1, hx2⟩ := writtenAfter_iff.1 hx
        have hkx : keep1 s.h T x.1 r.oid = true := by
          cases hsx : supersededAt s.h T x.1 r.oid with
          | false => simp [keep1, hsx]
          | true => obtain ⟨_, _, h1, h2, _⟩ := supersededAt_iff.1 hsx; omega
        have : writtenAfter (prune (keep1 s.h T) s.h) T r.oid = true := by
          rw [writtenAfter_iff]
          exact ⟨x, by rw [recsOf_prune]; exact List.mem_filter.2 ⟨hx1, hkx⟩, hx2⟩
        rw [this] at hnw1; cases hnw1

/-! ### packing again -/

theorem packMapping_lastPack_cases (s : MState) (T : Tid) (gc : Bool) :
    (packMapping s T gc).1 = s ∨ (packMapping s T gc).1.lastPack = some T := by
  rcases packMapping_cases s T gc with e | ⟨_, e⟩ | ⟨_, _, e, _⟩
  · exact Or.inl e
  · exact Or.inr e
  · exact Or.inr e

theorem packMapping_of_lastPack_ge {s : MState} {T' : Tid} {gc : Bool} {lp : Tid}
    (hl : s.lastPack = some lp) (hle : T' ≤ lp) : (packMapping s T' gc).1 = s := by
  unfold packMapping
  split
  · rfl
  · split
    · rfl
    · split
      · rfl
      · rename_i h1 h2
        exfalso
        rw [hl] at h1 h2
        simp only [Option.any_some, beq_iff_eq, decide_eq_true_eq] at h1 h2
        omega

end Proofs.Pack
