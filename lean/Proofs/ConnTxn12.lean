/-
  Connection model, part 13 (C12): savepoint, rollback, commit and abort with savepoint storage.
-/
import Proofs.ConnInv12
namespace Proofs.Conn
open ZodbModel ZodbModel.Conn

/-! ### `Connection.savepoint` -/

theorem ensureTmp_inv12 {s : State} (h : Inv12 s) (hj : s.needsToJoin = false) : Inv12 (ensureTmp s) := by
  unfold ensureTmp
  split
  · rename_i hsp
    refine ⟨h.str.congr rfl rfl rfl rfl, rfl, h.opened, h.snapEq, h.regOid, h.regStatus,
      h.addedReg, h.changedReg, ?_, h.serial0, h.addedSerial, h.commFresh, h.addedUncommitted, h.tidB,
      ?_, ?_, ?_, ?_, ?_, h.spsOrder, h.spsFlag⟩
    · intro hn
      have : s.needsToJoin = true := hn
      rw [hj] at this; cases this
    · intro k i hc
      obtain ⟨r, hr, q⟩ := h.coh k i hc
      refine ⟨r, ?_, q⟩
      unfold loadRec at hr ⊢
      rw [hsp] at hr
      simpa using hr
    · intro k i hc
      rcases h.owned k i hc with h1 | ⟨t, ht, _⟩
      · exact Or.inl h1
      · rw [hsp] at ht; cases ht
    · intro t ht
      cases ht
      exact ⟨rfl, fun k p hp => by simp at hp, fun k hk => by simp at hk,
        fun k hk => by simp [Map.has] at hk, fun k p r hp => by simp at hp,
        fun k i hk => by simp [Map.has] at hk⟩
    · intro t _ p idx cr hm
      exact absurd hm (h.spsNone hsp p idx cr)
    · intro hn; cases hn
  · obtain ⟨f1, f2⟩ := h.frame (s' := { s with creating := [] }) rfl rfl rfl
      (fun t ht k i hk hi => (h.tmp t ht).crSerial k i hk hi)
    exact ⟨h.str.congr rfl rfl rfl rfl, rfl, h.opened, h.snapEq, h.regOid, h.regStatus,
      h.addedReg, h.changedReg, h.idle, h.serial0, h.addedSerial, h.commFresh, h.addedUncommitted, h.tidB,
      h.coh, f1, f2, h.spsReal, h.spsNone, h.spsOrder, h.spsFlag⟩

theorem ensureTmp_some (s : State) : ∃ t0, (ensureTmp s).sp = some t0 := by
  unfold ensureTmp
  cases s.sp with
  | some t => exact ⟨t, rfl⟩
  | none => exact ⟨{}, rfl⟩

theorem Inv12.newOK {s : State} (h : Inv12 s) : NewOK s := by
  refine ⟨h.serial0, ?_⟩
  intro cr hcr k hk
  unfold tmpCr at hcr
  cases hsp : s.sp with
  | none => rw [hsp] at hcr; cases hcr
  | some t =>
    rw [hsp] at hcr
    simp only [Option.map_some, Option.some.injEq] at hcr
    subst hcr
    have w := h.tmp t hsp
    have hhas : t.creating.has k = true := by rw [Map.has_iff]; exact hk
    obtain ⟨i, hi⟩ := w.idxCached k (w.crIdx k hhas).1
    exact h.str.fresh i k (h.str.cacheS k i hi)

theorem Inv12.addedIsNew {s : State} (h : Inv12 s) :
    ∀ k j, s.added.get k = some j → isNewObj s (s.objs j) k = true := by
  intro k j hj
  apply isNewObj_true (h.addedSerial k j hj)
  intro cr hcr
  unfold tmpCr at hcr
  cases hsp : s.sp with
  | none => rw [hsp] at hcr; cases hcr
  | some t =>
    rw [hsp] at hcr
    simp only [Option.map_some, Option.some.injEq] at hcr
    subst hcr
    cases hg : t.creating.get k with
    | none => rfl
    | some b =>
      exfalso
      have w := h.tmp t hsp
      have hhas : t.creating.has k = true := by rw [Map.has_iff, hg]; simp
      obtain ⟨i, hi⟩ := w.idxCached k (w.crIdx k hhas).1
      have := (h.str.addedS k j hj).2
      rw [hi] at this; cases this

/-- a new object that is a ghost cannot be loaded, with savepoint storage either -/
theorem Inv12.noRec {s0 : State} (h : Inv12 s0) {t0 : TmpStore} (hsp0 : s0.sp = some t0) :
    ∀ P s, Prog s0 P s → TmpJ t0 s0 s → NoRec s0 s := by
  intro P s hP hJ j k hk hnew hg
  obtain ⟨t, hsp, hR⟩ := hJ
  have w0 := h.tmp t0 hsp0
  have hctx := hP.ctx
  simp only [ctx, Prod.mk.injEq] at hctx
  have hnone : t.index.get k = none := by
    cases hi : t.index.get k with
    | none => rfl
    | some p =>
      exfalso
      rcases hR.idx k p hi with h1 | ⟨_, _, i, hc, _, hu, _⟩
      · obtain ⟨i0, hi0⟩ := w0.idxCached k (by rw [h1]; simp)
        have ho0 := h.str.cacheS k i0 hi0
        have := hP.str.inj i0 j k (hP.oidKeep i0 k ho0) hk
        subst this
        rcases hnew with h2 | ⟨k', h2⟩
        · rw [ho0] at h2; cases h2
        · have := h.str.addedS k' i0 h2
          rw [ho0] at this
          have hkk : k = k' := by have := this.1; cases this; rfl
          subst hkk
          rw [hi0] at this; cases this.2
      · have := hP.str.inj i j k (hP.str.cacheS k i hc) hk
        subst this
        rw [hg] at hu; cases hu
  unfold loadRec
  rw [hsp]
  simp only [hnone]
  rw [hctx.1, h.snapEq]
  cases hc : s0.committed.get k with
  | none => rfl
  | some c =>
    exfalso
    have hlt := h.commFresh k (by rw [hc]; simp)
    rcases hnew with h1 | ⟨k', h1⟩
    · have := (hP.newTracked j k h1 hk).1; omega
    · have hk' := hP.oidKeep j k' (h.str.addedS k' j h1).1
      rw [hk] at hk'; cases hk'
      rw [h.addedUncommitted k (by rw [h1]; simp)] at hc; cases hc

/-- a registered object that `_commit` skips is clean (under savepoint storage) -/
theorem tmpJ_skip {s0 : State} (h : Inv12 s0) {t0 : TmpStore} (hsp0 : s0.sp = some t0) :
    ∀ s, Prog s0 [] s → TmpJ t0 s0 s → ∀ i k, (s.objs i).oid = some k → s.added.has k = false →
      (s.creating.has k = true ∨ (s.objs i).status ≠ .changed) → cleanQ s k := by
  intro s hP hJ i k hk hna hcond
  obtain ⟨t, hsp, hR⟩ := hJ
  have hc : s.cache.get k = some i := by
    have := hP.str.known i k hk
    simp only [List.not_mem_nil, or_false] at this
    rcases this with h1 | h1
    · exact h1
    · rw [Map.has_eq_false] at hna; rw [hna] at h1; cases h1
  rcases hcond with hcr | hst
  · rcases hR.crNew k hcr with h1 | ⟨p, hp, hle⟩
    · rw [h.creatingNil] at h1; cases h1
    · rcases hR.idx k p hp with h2 | ⟨_, _, i', hc', _, hu, _⟩
      · exfalso
        have := ((h.tmp t0 hsp0).idx k p h2).1
        omega
      · rw [hc] at hc'; cases hc'
        exact ⟨i, hc, by rw [hu]; simp⟩
  · exact ⟨i, hc, hst⟩

/-- the `_commit` of `Connection.savepoint`, from a state satisfying the invariant -/
theorem savepoint_loop {e : State} (h : Inv12 e) {t0 : TmpStore} (hsp0 : e.sp = some t0) (bound : Nat) :
    ((connCommitPlain bound e).2 = none →
      Prog e [] (connCommitPlain bound e).1 ∧ TmpJ t0 e (connCommitPlain bound e).1 ∧
      (connCommitPlain bound e).1.added = [] ∧
      (∀ j, ((connCommitPlain bound e).1.objs j).status ≠ .changed) ∧
      (∀ i ∈ e.registered, ∀ k, (e.objs i).oid = some k →
        (e.added.get k = some i ∨ (e.objs i).status = .changed) → marked (connCommitPlain bound e).1 k)) ∧
    ((connCommitPlain bound e).2 ≠ none →
      Prog e [] (connCommitPlain bound e).1 ∧ TmpFail t0 e (connCommitPlain bound e).1) := by
  unfold connCommitPlain
  obtain ⟨g1, g2⟩ := commitLoop_prog h.newOK h.addedIsNew (tmpJ_step t0 e) (h.noRec hsp0)
    (tmpJ_stepQ t0 e) (tmpJ_skip h hsp0) (tmp_failInv t0 e) bound e.registered e (Prog.refl h.str)
    (TmpJ.refl hsp0 (h.tmp t0 hsp0).pos) h.regOid
  refine ⟨fun hr => ?_, g2⟩
  obtain ⟨hP, hJ, _, _, g4⟩ := g1 hr
  refine ⟨hP, hJ, ?_, ?_, fun i hi k hk hc => (g4 i hi k hk).2.2 hc⟩
  · apply Map.eq_nil_of_get_none
    intro k
    cases ha : (commitLoop (bound + 1) e e.registered).1.added.get k with
    | none => rfl
    | some j =>
      exfalso
      have h1 := hP.addedSub k j ha
      have h2 := (g4 j (h.addedReg k j h1) k (h.str.addedS k j h1).1).1
      rw [h2] at ha; cases ha
  · intro j hch
    have h0s := hP.noChange j hch
    have hreg := h.changedReg j h0s
    obtain ⟨k, hk0⟩ := Option.ne_none_iff_exists'.1 (h.regOid j hreg)
    obtain ⟨j', hc, hs⟩ := (g4 j hreg k hk0).2.1
    have := hP.str.inj j' j k (hP.str.cacheS k j' hc) (hP.oidKeep j k hk0)
    subst this
    exact hs hch

/-- `mergeCreating` when there is a temporary store -/
def merged (r : State) (t : TmpStore) : State :=
  { r with sp := some { t with creating := t.creating.update r.creating }, creating := [], registered := [] }

/-- the state after a successful `Connection.savepoint` satisfies the invariant again -/
theorem savepoint_merge {e : State} (h : Inv12 e) {t0 : TmpStore} (hsp0 : e.sp = some t0)
    (hj : e.needsToJoin = false) {r : State} (hP : Prog e [] r) (hJ : TmpJ t0 e r)
    (hadd : r.added = []) (hnc : ∀ j, (r.objs j).status ≠ .changed) :
    Inv12 (mergeCreating r) ∧ (mergeCreating r).registered = [] ∧ (mergeCreating r).added = [] ∧
    (mergeCreating r).sps = e.sps ∧ (mergeCreating r).needsToJoin = false ∧
    ∃ t', (mergeCreating r).sp = some t' ∧ EntryWF e.committed t' t'.position t'.index t'.creating := by
  obtain ⟨t, hsp, hR⟩ := hJ
  have w0 := h.tmp t0 hsp0
  have hS := hP.str
  have hctx := hP.ctx
  simp only [ctx, Prod.mk.injEq] at hctx
  obtain ⟨cx1, cx2, cx3, cx4, cx5, cx6, cx7, cx8, cx9, cx10, cx11⟩ := hctx
  have hm : mergeCreating r = merged r t := by
    unfold mergeCreating merged; rw [hsp]
  rw [hm]
  -- index entries: old ones below the old position, new ones describe clean cached objects
  have hidx : ∀ k p, t.index.get k = some p →
      (t0.index.get k = some p ∧ p < t0.position ∧ t.entries[p]? = t0.entries[p]?) ∨
      (t0.position ≤ p ∧ p < t.position ∧ ∃ i, r.cache.get k = some i ∧
        t.entries[p]? = some (k, ⟨(r.objs i).serial, (r.objs i).val, (r.objs i).refs⟩) ∧
        (r.objs i).status = .uptodate) := by
    intro k p hp
    rcases hR.idx k p hp with h1 | ⟨h1, h2, i, h3, h4, h5, _⟩
    · have := (w0.idx k p h1).1
      exact Or.inl ⟨h1, this, hR.pre p this⟩
    · exact Or.inr ⟨h1, h2, i, h3, h4, h5⟩
  -- a cached object was cached before, or was created by this savepoint
  have hcached : ∀ k j, r.cache.get k = some j → e.cache.get k = some j ∨ r.creating.has k = true := by
    intro k j hc
    have hoj := hS.cacheS k j hc
    cases ho0 : (e.objs j).oid with
    | none =>
      obtain ⟨_, hh⟩ := hP.newTracked j k ho0 hoj
      simp only [List.not_mem_nil, false_or] at hh
      exact Or.inr hh.1
    | some k0 =>
      have : k0 = k := by have := hP.oidKeep j k0 ho0; rw [hoj] at this; cases this; rfl
      subst this
      have hkn := h.str.known j k0 ho0
      simp only [List.not_mem_nil, or_false] at hkn
      rcases hkn with h1 | h1
      · exact Or.inl h1
      · rcases hP.addedTracked k0 j h1 with h' | h'
        · rw [hadd] at h'; simp at h'
        · exact Or.inr h'.1
  -- an object whose index entry was not rewritten is as it was
  have hsame : ∀ k j, e.cache.get k = some j → t.index.get k = t0.index.get k →
      (r.objs j).status = (e.objs j).status ∧
      ((e.objs j).status ≠ .ghost → (r.objs j).val = (e.objs j).val ∧ (r.objs j).refs = (e.objs j).refs ∧
        (r.objs j).serial = (e.objs j).serial) := by
    intro k j hc hi
    have hoj := hP.oidKeep j k (h.str.cacheS k j hc)
    refine ⟨?_, fun hg => hP.objVal j hg⟩
    by_cases hne : (r.objs j).status = (e.objs j).status
    · exact hne
    · exfalso
      obtain ⟨p, hp, hle⟩ := hR.statusNew j k hoj hne
      rw [hi] at hp
      have := (w0.idx k p hp).1
      omega
  -- the records the connection can load
  have hload : ∀ k, loadRec (merged r t) k =
      match t.index.get k with
      | some p => t.loadAt k p
      | none => e.snap.get k := by
    intro k
    unfold loadRec merged
    simp only [cx1]
    rfl
  have hloadOld : ∀ k, t.index.get k = t0.index.get k → loadRec (merged r t) k = loadRec e k := by
    intro k hi
    rw [hload]
    unfold loadRec
    rw [hsp0]
    simp only [hi]
    cases hp : t0.index.get k with
    | none => rfl
    | some p =>
      simp only
      have := (w0.idx k p hp).1
      unfold TmpStore.loadAt
      rw [hR.pre p this]
  have hcomm : ∀ k, r.creating.has k = true → e.committed.get k = none := by
    intro k hc
    rcases hP.creatingNew k hc with h1 | h1 | ⟨i, h1⟩ | ⟨i, h1, h2, h3⟩
    · rw [h.creatingNil] at h1; cases h1
    · cases hcm : e.committed.get k with
      | none => rfl
      | some c => have := h.commFresh k (by rw [hcm]; simp); omega
    · exact h.addedUncommitted k (by rw [h1]; simp)
    · cases hcm : e.committed.get k with
      | none => rfl
      | some c =>
        exfalso
        obtain ⟨r0, hr0, q1, _⟩ := h.coh k i h1
        have hs := q1 h3
        rw [h2] at hs
        have hpos : 1 ≤ r0.serial := by
          unfold loadRec at hr0
          rw [hsp0] at hr0
          cases hp : t0.index.get k with
          | some p =>
            simp only [hp] at hr0
            obtain ⟨_, rr, hrr⟩ := w0.idx k p hp
            rw [TmpStore.loadAt_of hrr] at hr0; cases hr0
            rw [(w0.recSerial k p _ hp hrr).1 c hcm]
            exact (h.tidB k c hcm).1
          | none =>
            simp only [hp] at hr0
            rw [h.snapEq, hcm] at hr0; cases hr0
            exact (h.tidB k c hcm).1
        omega
  have hcrNew : ∀ k, r.creating.has k = true → ∃ p, t.index.get k = some p ∧ t0.position ≤ p := by
    intro k hc
    rcases hR.crNew k hc with h1 | h1
    · rw [h.creatingNil] at h1; cases h1
    · exact h1
  have hupd : ∀ k, (t.creating.update r.creating).has k = true ↔
      (t0.creating.has k = true ∨ r.creating.has k = true) := by
    intro k
    rw [Map.has_iff, Map.get_update, hR.cr, ← Map.has_iff, ← Map.has_iff]
  have hinv : Inv12 (merged r t) := by
    refine ⟨hS.congr rfl rfl rfl rfl, rfl, by show r.opened = true; rw [cx5]; exact h.opened,
      by show r.snap = r.committed; rw [cx1, cx2]; exact h.snapEq,
      ?_, ?_, ?_, ?_, ?_, ?_, ?_, ?_, ?_, ?_, ?_, ?_,
      ?_, ?_, ?_, by show r.sps.Pairwise entryLe; rw [cx8]; exact h.spsOrder, ?_⟩
    · intro i hi; cases hi
    · intro i hi; cases hi
    · intro k i hi
      have : r.added.get k = some i := hi
      rw [hadd] at this; simp at this
    · intro i hi; exact absurd hi (hnc i)
    · intro hn
      have : r.needsToJoin = true := hn
      rw [cx6, hj] at this; cases this
    · intro i hi
      have hi' : (r.objs i).oid = none := hi
      show (r.objs i).serial = 0
      have h0o : (e.objs i).oid = none := by
        cases hh : (e.objs i).oid with
        | none => rfl
        | some k => have := hP.oidKeep i k hh; rw [hi'] at this; cases this
      rcases hP.fresh0 i h0o with h1 | h1 | h1
      · rw [h1]; exact h.serial0 i h0o
      · exact absurd h1.2 (by simp)
      · obtain ⟨k, hk, _⟩ := h1; rw [hi'] at hk; cases hk
    · intro k i hi
      have : r.added.get k = some i := hi
      rw [hadd] at this; simp at this
    · intro k hk
      have hk' : r.committed.get k ≠ none := hk
      show k < r.nextOid
      rw [cx2] at hk'
      have := h.commFresh k hk'
      have := hP.nextOid
      omega
    · intro k hk
      have : r.added.get k ≠ none := hk
      rw [hadd] at this; simp at this
    · show ∀ k c, r.committed.get k = some c → 1 ≤ c.serial ∧ c.serial ≤ r.lastTid
      rw [cx2, cx3]; exact h.tidB
    · -- coh
      intro k j hc
      have hc' : r.cache.get k = some j := hc
      show ∃ r', loadRec _ k = some r' ∧ ((r.objs j).status ≠ .ghost → (r.objs j).serial = r'.serial) ∧
        ((r.objs j).status = .uptodate → (r.objs j).val = r'.val ∧ (r.objs j).refs = r'.refs)
      cases hi : t.index.get k with
      | some p =>
        rcases hidx k p hi with ⟨h1, h2, h3⟩ | ⟨_, _, i, h3, h4, h5⟩
        · -- an old entry
          rw [hloadOld k (by rw [hi, h1])]
          obtain ⟨j0, hj0⟩ := w0.idxCached k (by rw [h1]; simp)
          have : j0 = j := by
            have := hP.cacheGrow k j0 hj0; rw [hc'] at this; cases this; rfl
          subst this
          obtain ⟨st, hv⟩ := hsame k j0 hj0 (by rw [hi, h1])
          obtain ⟨r0, hr0, q1, q2⟩ := h.coh k j0 hj0
          refine ⟨r0, hr0, ?_, ?_⟩
          · intro hg
            rw [st] at hg
            rw [(hv hg).2.2]; exact q1 hg
          · intro hu
            rw [st] at hu
            have hg : (e.objs j0).status ≠ .ghost := by rw [hu]; simp
            rw [(hv hg).1, (hv hg).2.1]; exact q2 hu
        · -- stored by this savepoint
          rw [h3] at hc'; cases hc'
          rw [hload]
          simp only [hi]
          rw [TmpStore.loadAt_of h4]
          exact ⟨_, rfl, fun _ => rfl, fun _ => ⟨rfl, rfl⟩⟩
      | none =>
        have h0n : t0.index.get k = none := by
          cases h0 : t0.index.get k with
          | none => rfl
          | some p => exact absurd hi (hR.idxKeep k (by rw [h0]; simp))
        rw [hloadOld k (by rw [hi, h0n])]
        rcases hcached k j hc' with h1 | h1
        · obtain ⟨st, hv⟩ := hsame k j h1 (by rw [hi, h0n])
          obtain ⟨r0, hr0, q1, q2⟩ := h.coh k j h1
          refine ⟨r0, hr0, ?_, ?_⟩
          · intro hg
            rw [st] at hg
            rw [(hv hg).2.2]; exact q1 hg
          · intro hu
            rw [st] at hu
            have hg : (e.objs j).status ≠ .ghost := by rw [hu]; simp
            rw [(hv hg).1, (hv hg).2.1]; exact q2 hu
        · obtain ⟨p, hp, _⟩ := hcrNew k h1
          rw [hi] at hp; cases hp
    · -- owned
      intro k j hc
      have hc' : r.cache.get k = some j := hc
      show r.committed.get k ≠ none ∨ ∃ t', some { t with creating := t.creating.update r.creating } = some t' ∧
        t'.creating.has k = true
      rcases hcached k j hc' with h1 | h1
      · rcases h.owned k j h1 with h2 | ⟨t1, ht1, h2⟩
        · left; rw [cx2]; exact h2
        · right
          rw [hsp0] at ht1; cases ht1
          exact ⟨_, rfl, (hupd k).2 (Or.inl h2)⟩
      · right; exact ⟨_, rfl, (hupd k).2 (Or.inr h1)⟩
    · -- tmp
      intro t' ht'
      have : some { t with creating := t.creating.update r.creating } = some t' := ht'
      cases this
      refine ⟨hR.pos, ?_, ?_, ?_, ?_, ?_⟩
      rotate_right
      · -- crSerial
        intro k i hk hi
        have hk' : (t.creating.update r.creating).has k = true := hk
        have hi' : r.cache.get k = some i := hi
        show (r.objs i).serial = 0
        have hfromE : ∀ i', e.cache.get k = some i' → (e.objs i').serial = 0 → (r.objs i).serial = 0 := by
          intro i' hi0 hs0
          have := hP.cacheGrow k i' hi0
          rw [hi'] at this; cases this
          by_cases hg : (e.objs i).status = .ghost
          · rw [hP.ghostSerial i hg]; exact hs0
          · rw [(hP.objVal i hg).2.2]; exact hs0
        rcases (hupd k).1 hk' with h1 | h1
        · obtain ⟨j0, hj0⟩ := w0.idxCached k (w0.crIdx k h1).1
          exact hfromE j0 hj0 (w0.crSerial k j0 h1 hj0)
        · have hoi := hS.cacheS k i hi'
          rcases hP.creatingNew k h1 with h7 | h7 | ⟨i', h7⟩ | ⟨i', h7, h8, _⟩
          · rw [h.creatingNil] at h7; cases h7
          · have h0o : (e.objs i).oid = none := by
              cases hh : (e.objs i).oid with
              | none => rfl
              | some k0 =>
                have := hP.oidKeep i k0 hh; rw [hoi] at this; cases this
                have := h.str.fresh i k hh; omega
            rw [hP.serialKept i (Or.inl h0o)]; exact h.serial0 i h0o
          · have : i' = i := hS.inj i' i k (hP.oidKeep i' k (h.str.addedS k i' h7).1) hoi
            subst this
            rw [hP.serialKept i' (Or.inr ⟨k, h7⟩)]; exact h.addedSerial k i' h7
          · exact hfromE i' h7 h8
      · intro k p hp
        rcases hidx k p hp with ⟨h1, h2, h3⟩ | ⟨_, h2, i, _, h4, _⟩
        · refine ⟨by have := hR.le; show p < t.position; omega, ?_⟩
          obtain ⟨_, rr, hrr⟩ := w0.idx k p h1
          exact ⟨rr, by show t.entries[p]? = _; rw [h3]; exact hrr⟩
        · exact ⟨h2, _, h4⟩
      · intro k hk
        have hk' : t.index.get k ≠ none := hk
        obtain ⟨p, hp⟩ := Option.ne_none_iff_exists'.1 hk'
        rcases hidx k p hp with ⟨h1, _, _⟩ | ⟨_, _, i, h3, _⟩
        · obtain ⟨j0, hj0⟩ := w0.idxCached k (by rw [h1]; simp)
          exact ⟨j0, hP.cacheGrow k j0 hj0⟩
        · exact ⟨i, h3⟩
      · intro k hk
        have hk' : (t.creating.update r.creating).has k = true := hk
        show t.index.get k ≠ none ∧ r.committed.get k = none
        rw [cx2]
        rcases (hupd k).1 hk' with h1 | h1
        · exact ⟨hR.idxKeep k (w0.crIdx k h1).1, (w0.crIdx k h1).2⟩
        · obtain ⟨p, hp, _⟩ := hcrNew k h1
          exact ⟨by rw [hp]; simp, hcomm k h1⟩
      · intro k p rr hp he
        have hp' : t.index.get k = some p := hp
        have he' : t.entries[p]? = some (k, rr) := he
        show (∀ c, r.committed.get k = some c → rr.serial = c.serial) ∧ (r.committed.get k = none → rr.serial = 0)
        rw [cx2]
        rcases hidx k p hp' with ⟨h1, _, h3⟩ | ⟨_, _, i, h3, h4, h5⟩
        · rw [h3] at he'
          exact w0.recSerial k p rr h1 he'
        · rw [h4] at he'; cases he'
          -- the record carries the serial of the object: committed serial, or 0 for a new object
          have hcachedE : ∀ i', e.cache.get k = some i' → i' = i := by
            intro i' hi'
            have := hP.cacheGrow k i' hi'; rw [h3] at this; cases this; rfl
          have key : e.cache.get k = some i →
              (∀ c, e.committed.get k = some c → (r.objs i).serial = c.serial) ∧
              (e.committed.get k = none → (r.objs i).serial = 0) := by
            intro h6
            have hg0 : (e.objs i).status ≠ .ghost := by
              intro hg
              have := hP.ghostStays i hg
              rw [h5] at this; cases this
            rw [(hP.objVal i hg0).2.2]
            obtain ⟨r0, hr0, q1, _⟩ := h.coh k i h6
            rw [q1 hg0]
            unfold loadRec at hr0
            rw [hsp0] at hr0
            cases hp0 : t0.index.get k with
            | some p0 =>
              simp only [hp0] at hr0
              obtain ⟨_, r1, hr1⟩ := w0.idx k p0 hp0
              rw [TmpStore.loadAt_of hr1] at hr0; cases hr0
              exact w0.recSerial k p0 _ hp0 hr1
            | none =>
              simp only [hp0] at hr0
              rw [h.snapEq] at hr0
              exact ⟨fun c hc => (by rw [hr0] at hc; cases hc; rfl), fun hn => (by rw [hr0] at hn; cases hn)⟩
          rcases hcached k i h3 with h6 | h6
          · exact key h6
          · have hcn := hcomm k h6
            refine ⟨fun c hc => (by rw [hcn] at hc; cases hc), fun _ => ?_⟩
            have hoi := hS.cacheS k i h3
            rcases hP.creatingNew k h6 with h7 | h7 | ⟨i', h7⟩ | ⟨i', h7, _, _⟩
            · rw [h.creatingNil] at h7; cases h7
            · have h0o : (e.objs i).oid = none := by
                cases hh : (e.objs i).oid with
                | none => rfl
                | some k0 =>
                  have := hP.oidKeep i k0 hh; rw [hoi] at this; cases this
                  have := h.str.fresh i k hh; omega
              rw [hP.serialKept i (Or.inl h0o)]; exact h.serial0 i h0o
            · have : i' = i := hS.inj i' i k (hP.oidKeep i' k (h.str.addedS k i' h7).1) hoi
              subst this
              rw [hP.serialKept i' (Or.inr ⟨k, h7⟩)]; exact h.addedSerial k i' h7
            · have := hcachedE i' h7
              subst this
              exact (key h7).2 hcn
    · -- spsReal
      intro t' ht' p idx cr hm
      have : some { t with creating := t.creating.update r.creating } = some t' := ht'
      cases this
      have hm' : SpEntry.real p idx cr ∈ e.sps := by rw [← cx8]; exact hm
      have we := h.spsReal t0 hsp0 p idx cr hm'
      refine ⟨by show p ≤ t.position; have := we.le; have := hR.le; omega, ?_, ?_, ?_, we.crIdx, ?_, ?_⟩
      · intro k q hq
        obtain ⟨h1, rr, hrr⟩ := we.idxLt k q hq
        exact ⟨h1, rr, by show t.entries[q]? = _; rw [hR.pre q (by have := we.le; omega)]; exact hrr⟩
      · intro k hk; exact hR.idxKeep k (we.idxSub k hk)
      · intro k hk; exact (hupd k).2 (Or.inl (we.crSub k hk))
      · intro k hk hc
        have hc' : (t.creating.update r.creating).has k = true := hc
        rcases (hupd k).1 hc' with h1 | h1
        · exact we.idxOwned k hk h1
        · obtain ⟨j, hj⟩ := w0.idxCached k (we.idxSub k hk)
          rcases h.owned k j hj with h2 | ⟨t1, ht1, h2⟩
          · exact absurd (hcomm k h1) h2
          · rw [hsp0] at ht1; cases ht1
            exact we.idxOwned k hk h2
      · intro k q rr hq he
        have he' : t.entries[q]? = some (k, rr) := he
        rw [hR.pre q (by have := (we.idxLt k q hq).1; have := we.le; omega)] at he'
        show (∀ c, r.committed.get k = some c → rr.serial = c.serial) ∧ (r.committed.get k = none → rr.serial = 0)
        rw [cx2]
        exact we.recSerial k q rr hq he'
    · intro hn; cases hn
    · intro hn hm
      have : r.needsToJoin = false := hn
      have hm' : SpEntry.abortSp false ∈ e.sps := by rw [← cx8]; exact hm
      exact h.spsFlag hj hm'
  refine ⟨hinv, rfl, hadd, cx8, by show r.needsToJoin = false; rw [cx6]; exact hj, _, rfl, ?_⟩
  · -- the new savepoint state is well formed
    have hidx' : ∀ k p, t.index.get k = some p → p < t.position ∧ ∃ rr, t.entries[p]? = some (k, rr) := by
      intro k p hp
      rcases hidx k p hp with ⟨h1, h2, h3⟩ | ⟨_, h2, i, _, h4, _⟩
      · refine ⟨by have := hR.le; omega, ?_⟩
        obtain ⟨_, rr, hrr⟩ := w0.idx k p h1
        exact ⟨rr, by rw [h3]; exact hrr⟩
      · exact ⟨h2, _, h4⟩
    refine ⟨Nat.le_refl _, hidx', fun _ hk => hk, fun _ hk => hk, ?_, fun _ _ hk => hk, ?_⟩
    · intro k hk
      have hk' : (t.creating.update r.creating).has k = true := hk
      show t.index.get k ≠ none
      rcases (hupd k).1 hk' with h1 | h1
      · exact hR.idxKeep k (w0.crIdx k h1).1
      · obtain ⟨p, hp, _⟩ := hcrNew k h1
        rw [hp]; simp
    · intro k q rr hq he
      have := (hinv.tmp _ rfl).recSerial k q rr hq he
      have hcm : (merged r t).committed = e.committed := cx2
      rw [hcm] at this
      exact this

end Proofs.Conn
