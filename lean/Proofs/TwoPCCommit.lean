/-
  C05, second half of `lock_free_after`: from an idle state an ordinary transaction (begin, stores,
  vote, finish — no fault, no conflict, quota respected, metadata within 16 bits) commits: every
  call answers `ok`, the transaction is the newest committed one, the index points at it.
-/
import Proofs.TwoPC
namespace Proofs.TwoPC
open ZodbModel ZodbModel.TwoPC

/-! ### association lists -/

theorem lookup_insert {α} (k k' : Nat) (v : α) (m : List (Nat × α)) :
    lookup k (insert k' v m) = if k = k' then some v else lookup k m := by
  induction m with
  | nil => simp [TwoPC.insert, lookup]
  | cons h t ih =>
    obtain ⟨k1, v1⟩ := h
    simp only [TwoPC.insert]
    by_cases h1 : k' = k1
    · subst h1
      by_cases h2 : k = k' <;> simp [lookup, h2]
    · simp only [h1, if_false, lookup, ih]
      by_cases h2 : k = k1
      · have : k ≠ k' := by omega
        simp [h2, this]; intro h3; omega
      · simp [h2]

theorem mem_insert {α} (k : Nat) (v : α) (m : List (Nat × α)) (x : Nat × α) :
    x ∈ insert k v m → x = (k, v) ∨ x ∈ m := by
  induction m with
  | nil => simp [TwoPC.insert]
  | cons h t ih =>
    obtain ⟨k1, v1⟩ := h
    simp only [TwoPC.insert]
    split
    · simp only [List.mem_cons]; intro h; rcases h with h | h
      · exact Or.inl h
      · exact Or.inr (Or.inr h)
    · simp only [List.mem_cons]; intro h; rcases h with h | h
      · exact Or.inr (Or.inl h)
      · rcases ih h with h | h
        · exact Or.inl h
        · exact Or.inr (Or.inr h)

theorem keys_insert {α} (k : Nat) (v : α) (m : List (Nat × α)) (j : Nat) :
    j ∈ (insert k v m).map (·.1) ↔ j = k ∨ j ∈ m.map (·.1) := by
  induction m with
  | nil => simp [TwoPC.insert]
  | cons h t ih =>
    obtain ⟨k1, v1⟩ := h
    simp only [TwoPC.insert]
    split
    · rename_i hk; subst hk; simp
    · simp only [List.map_cons, List.mem_cons, ih]
      constructor
      · rintro (h | h | h)
        · exact Or.inr (Or.inl h)
        · exact Or.inl h
        · exact Or.inr (Or.inr h)
      · rintro (h | h | h)
        · exact Or.inr (Or.inl h)
        · exact Or.inl h
        · exact Or.inr (Or.inr h)

theorem update_cons {α} (m : List (Nat × α)) (kv : Nat × α) (t : List (Nat × α)) :
    update m (kv :: t) = update (insert kv.1 kv.2 m) t := rfl

theorem lookup_update_not_key {α} (m t : List (Nat × α)) (k : Nat) (h : k ∉ t.map (·.1)) :
    lookup k (update m t) = lookup k m := by
  induction t generalizing m with
  | nil => rfl
  | cons kv t ih =>
    simp only [List.map_cons, List.mem_cons, not_or] at h
    rw [update_cons, ih _ h.2, lookup_insert]
    simp [h.1]

theorem lookup_update_key {α} (m t : List (Nat × α)) (k : Nat) (h : k ∈ t.map (·.1)) :
    ∃ v, lookup k (update m t) = some v ∧ (k, v) ∈ t := by
  induction t generalizing m with
  | nil => simp at h
  | cons kv t ih =>
    rw [update_cons]
    by_cases hk : k ∈ t.map (·.1)
    · obtain ⟨v, h1, h2⟩ := ih (insert kv.1 kv.2 m) hk
      exact ⟨v, h1, List.mem_cons_of_mem _ h2⟩
    · simp only [List.map_cons, List.mem_cons] at h
      have hk1 : k = kv.1 := by
        rcases h with h | h
        · exact h
        · exact absurd h hk
      refine ⟨kv.2, ?_, ?_⟩
      · rw [lookup_update_not_key _ _ _ hk, lookup_insert]; simp [hk1]
      · subst hk1; simp

theorem recsSize_append (a b : List Rec) : recsSize (a ++ b) = recsSize a + recsSize b := by
  induction a with
  | nil => simp [recsSize]
  | cons r t ih => simp [recsSize, ih]; omega

theorem run_append (s : State) (a b : List Op) : run s (a ++ b) = run (run s a) b := by
  simp [run, List.foldl_append]

theorem outs_append (s : State) (a b : List Op) : outs s (a ++ b) = outs s a ++ outs (run s a) b := by
  induction a generalizing s with
  | nil => rfl
  | cons o os ih => simp [outs, run_cons, ih]

/-! ### the clean transaction -/

/-- state in the middle of the clean transaction, after the stores `done` -/
structure Mid (s m : State) (t : TxnId) (tid st ul dl el : Nat) (done : List StoreArg) : Prop where
  closed : m.closed = false
  txn : m.txn = some t
  lock : m.commitLock = some t
  armed : m.armed = none
  coreE : core m = core s
  tfile : m.tfile = mkRecs s tid done
  thl : m.thl = transHdrLen + ul + dl + el
  tidE : m.tid = tid
  tstatus : m.tstatus = st
  ude : m.ude = (ul, dl, el)
  nextpos : m.nextpos = 0
  fileLen : m.fileLen = m.pos
  dirty : m.dirty = []
  tvals : ∀ k v, (k, v) ∈ m.tindex → v.1 = tid
  tkeys : ∀ k, k ∈ m.tindex.map (·.1) ↔ k ∈ done.map (·.oid)

theorem begin_mid (s : State) (t : TxnId) (tid st ul dl el : Nat) (hinv : Inv s)
    (hc : s.closed = false) (ht : s.txn = none) (ha : s.armed = none)
    (hul : ul ≤ 65535) (hdl : dl ≤ 65535) (hel : el ≤ 65535) :
    (step s (.begin t tid st ul dl el)).2.2 = .ok ∧
    Mid s (step s (.begin t tid st ul dl el)).1 t tid st ul dl el [] := by
  have hi := (hinv hc).1 ht
  have hl := hi.1
  have hb : doBegin s t tid st ul dl el =
      ({ s with commitLock := some t, txn := some t, tindex := [], tfile := [],
                ude := (ul, dl, el), tid := tid, tstatus := st, nextpos := 0,
                thl := transHdrLen + ul + dl + el }, [], .ok) := by
    unfold doBegin
    simp only [ht, hl]
    have h1 : ¬ ul > 65535 := by omega
    have h2 : ¬ dl > 65535 := by omega
    have h3 : ¬ el > 65535 := by omega
    simp [h1, h2, h3]
  have hs : step s (.begin t tid st ul dl el) =
      ({ (doBegin s t tid st ul dl el).1 with armed := none }, (doBegin s t tid st ul dl el).2) := by
    simp [step, hc]
  rw [hs, hb]
  refine ⟨rfl, ?_⟩
  constructor <;> first
    | rfl
    | exact hc
    | exact hi.2.2.2.2
    | exact hi.2.2.2.1
    | (intro k v h; simp at h)
    | (intro k; simp)

theorem store_mid (s m : State) (t : TxnId) (tid st ul dl el : Nat) (done : List StoreArg)
    (hm : Mid s m t tid st ul dl el done) (a : StoreArg)
    (hcf : ∀ c p, lookup a.oid s.index = some (c, p) → a.serial = c)
    (hq : ∀ q, s.quota = some q →
      s.pos + (transHdrLen + ul + dl + el) + recsSize (mkRecs s tid done) ≤ q) :
    (step m (.store t a.oid a.serial a.dlen a.tag)).2.2 = .ok ∧
    Mid s (step m (.store t a.oid a.serial a.dlen a.tag)).1 t tid st ul dl el (done ++ [a]) := by
  have hcore := hm.coreE
  simp only [core, Core.mk.injEq] at hcore
  obtain ⟨_, hpos, hidx, _, _, _, hquota⟩ := hcore
  have hnq : ∀ x : State, x.quota = m.quota →
      overQuota x (m.pos + recsSize m.tfile + m.thl) = false := by
    intro x hx
    unfold overQuota
    simp only [hx, hquota]
    cases hqq : s.quota with
    | none => rfl
    | some q =>
      have := hq q hqq
      rw [hm.tfile, hm.thl, hpos]
      simp; omega
  have hstage : stage { m with maxOid := max m.maxOid a.oid } a.oid false a.dlen a.tag false =
      ({ m with maxOid := max m.maxOid a.oid,
                tindex := TwoPC.insert a.oid (m.tid, m.pos + recsSize m.tfile + m.thl) m.tindex,
                tfile := m.tfile ++ [{ oid := a.oid, tid := m.tid,
                                       prev := prevPos m.index a.oid,
                                       del := false, dlen := a.dlen, tag := a.tag }] },
       [Ev.write .tmp (recsSize m.tfile) dataHdrLen,
        Ev.write .tmp (recsSize m.tfile + dataHdrLen) a.dlen], .ok) := by
    unfold stage
    simp only [hm.armed]
    simp [Rec.size, hnq]
  have hstore : doStore m t a.oid a.serial a.dlen a.tag false =
      stage { m with maxOid := max m.maxOid a.oid } a.oid false a.dlen a.tag false := by
    unfold doStore
    simp only [hm.txn, ne_eq, not_true_eq_false, ite_false]
    cases hl : lookup a.oid m.index with
    | none => rfl
    | some cp =>
      obtain ⟨c, p⟩ := cp
      have := hcf c p (by rw [← hidx]; exact hl)
      simp [this]
  have hs : step m (.store t a.oid a.serial a.dlen a.tag) =
      ({ (doStore m t a.oid a.serial a.dlen a.tag false).1 with armed := none },
       (doStore m t a.oid a.serial a.dlen a.tag false).2) := by
    simp [step, hm.closed]
  rw [hs, hstore, hstage]
  refine ⟨rfl, ?_⟩
  constructor
  · exact hm.closed
  · exact hm.txn
  · exact hm.lock
  · rfl
  · exact hm.coreE
  · show m.tfile ++ _ = mkRecs s tid (done ++ [a])
    rw [hm.tfile, hm.tidE, hidx]; simp [mkRecs]
  · exact hm.thl
  · exact hm.tidE
  · exact hm.tstatus
  · exact hm.ude
  · exact hm.nextpos
  · exact hm.fileLen
  · exact hm.dirty
  · intro k v h
    rcases mem_insert _ _ _ _ h with h | h
    · cases h; exact hm.tidE
    · exact hm.tvals k v h
  · intro k
    show k ∈ (TwoPC.insert _ _ m.tindex).map (·.1) ↔ _
    rw [keys_insert, hm.tkeys]
    simp only [List.map_append, List.mem_append, List.map_cons, List.map_nil, List.mem_singleton]
    exact Or.comm

def storeOp (t : TxnId) (a : StoreArg) : Op := .store t a.oid a.serial a.dlen a.tag

def allOk (l : List Out) : Prop := ∀ o ∈ l, o = .ok

theorem mkRecs_append (s : State) (tid : Tid) (a b : List StoreArg) :
    mkRecs s tid (a ++ b) = mkRecs s tid a ++ mkRecs s tid b := by
  simp [mkRecs]

theorem stores_mid (s : State) (t : TxnId) (tid st ul dl el : Nat) (rest : List StoreArg) :
    ∀ (done : List StoreArg) (m : State), Mid s m t tid st ul dl el done →
    (∀ a ∈ rest, ∀ c p, lookup a.oid s.index = some (c, p) → a.serial = c) →
    (∀ q, s.quota = some q →
      s.pos + (transHdrLen + ul + dl + el) + recsSize (mkRecs s tid (done ++ rest)) ≤ q) →
    allOk (outs m (rest.map (storeOp t))) ∧
    Mid s (run m (rest.map (storeOp t))) t tid st ul dl el (done ++ rest) := by
  induction rest with
  | nil =>
    intro done m hm _ _
    simp only [List.map_nil, List.append_nil]
    exact ⟨by intro o ho; simp [outs] at ho, hm⟩
  | cons a rest ih =>
    intro done m hm hcf hq
    have h1 := store_mid s m t tid st ul dl el done hm a (hcf a (by simp))
      (by
        intro q hqq
        have := hq q hqq
        rw [mkRecs_append, recsSize_append] at this
        omega)
    have h2 := ih (done ++ [a]) _ h1.2 (fun b hb => hcf b (by simp [hb]))
      (by simpa [List.append_assoc] using hq)
    simp only [List.map_cons, run_cons, outs]
    have e : done ++ a :: rest = done ++ [a] ++ rest := by simp
    rw [e]
    refine ⟨?_, h2.2⟩
    intro o ho
    simp only [List.mem_cons] at ho
    rcases ho with ho | ho
    · rw [ho]; exact h1.1
    · exact h2.1 o ho

/-- the transaction a clean run appends -/
def newTxn (s : State) (tid st ul dl el : Nat) (stores : List StoreArg) : FTxn :=
  { tid := tid, status := st, ul := ul, dl := dl, el := el, recs := mkRecs s tid stores }

theorem clean_commit (s : State) (t : TxnId) (tid st ul dl el : Nat) (stores : List StoreArg)
    (hinv : Inv s) (hc : s.closed = false) (ht : s.txn = none) (ha : s.armed = none)
    (hul : ul ≤ 65535) (hdl : dl ≤ 65535) (hel : el ≤ 65535)
    (hcf : ∀ a ∈ stores, ∀ c p, lookup a.oid s.index = some (c, p) → a.serial = c)
    (hq : ∀ q, s.quota = some q →
      s.pos + (transHdrLen + ul + dl + el) + recsSize (mkRecs s tid stores) ≤ q) :
    let s' := run s (cleanTxn t tid st ul dl el stores)
    allOk (outs s (cleanTxn t tid st ul dl el stores)) ∧
    s'.txns = newTxn s tid st ul dl el stores :: s.txns ∧
    s'.ltid = tid ∧
    s'.pos = s.pos + (transHdrLen + ul + dl + el) + recsSize (mkRecs s tid stores) + 8 ∧
    s'.fileLen = s'.pos ∧
    s'.txn = none ∧ s'.commitLock = none ∧ s'.closed = false ∧
    (∀ a ∈ stores, ∃ p, lookup a.oid s'.index = some (tid, p)) ∧
    (∀ oid, oid ∉ stores.map (·.oid) → lookup oid s'.index = lookup oid s.index) := by
  intro s'
  have hb := begin_mid s t tid st ul dl el hinv hc ht ha hul hdl hel
  have hs := stores_mid s t tid st ul dl el stores [] _ hb.2 hcf (by simpa using hq)
  simp only [List.nil_append] at hs
  obtain ⟨hso, hm⟩ := hs
  -- name the intermediate states
  have hs'def : s' = run (run (step s (.begin t tid st ul dl el)).1 (stores.map (storeOp t)))
      [.vote t, .finish t] := by
    show run s (cleanTxn t tid st ul dl el stores) = _
    unfold cleanTxn
    rw [run_cons, run_append]; rfl
  generalize hmdef : run (step s (.begin t tid st ul dl el)).1 (stores.map (storeOp t)) = m at *
  -- vote
  have hvstep : step m (.vote t) =
      ({ m with armed := none, nextpos := m.pos + (m.thl + recsSize m.tfile) + 8,
                fileLen := max m.fileLen (m.pos + (m.thl + recsSize m.tfile) + 8) },
       (if m.tfile = [] then [] else [Ev.write .tmp 0 (recsSize m.tfile)]) ++
         writesFrom m.pos (votePieces m), .ok) := by
    rw [step_vote_open m t hm.closed]
    unfold doVote
    simp [hm.txn, hm.armed]
  generalize hvdef : (step m (.vote t)).1 = v at *
  have hv : v = { m with armed := none, nextpos := m.pos + (m.thl + recsSize m.tfile) + 8,
                         fileLen := max m.fileLen (m.pos + (m.thl + recsSize m.tfile) + 8) } := by
    rw [← hvdef, hvstep]
  have hcm : commits v (.finish t) := by
    rw [hv]
    refine ⟨hm.closed, hm.txn, ?_, ?_, ?_⟩
    · show m.pos + (m.thl + recsSize m.tfile) + 8 ≠ 0; omega
    · show max m.fileLen (m.pos + (m.thl + recsSize m.tfile) + 8) = m.pos + (m.thl + recsSize m.tfile) + 8
      rw [hm.fileLen]; omega
    · show m.pos + (m.thl + recsSize m.tfile) + 8 = m.pos + m.thl + recsSize m.tfile + 8; omega
  have hva : v.armed ≠ some 1 := by rw [hv]; simp
  have hf := finish_ok v t hcm hva
  have hs'2 : s' = (step v (.finish t)).1 := by
    rw [hs'def]; simp only [run, List.foldl_cons, List.foldl_nil]; rw [hvdef]
  have hcore := hm.coreE
  simp only [core, Core.mk.injEq] at hcore
  obtain ⟨htx, hpos, hidx, _, _, _, _⟩ := hcore
  refine ⟨?_, ?_, ?_, ?_, ?_, ?_, ?_, ?_, ?_, ?_⟩
  · -- outputs
    show allOk (outs s (Op.begin t tid st ul dl el ::
      (stores.map (storeOp t) ++ [Op.vote t, Op.finish t])))
    intro o ho
    simp only [outs, List.mem_cons] at ho
    rcases ho with ho | ho
    · rw [ho]; exact hb.1
    · rw [outs_append] at ho
      simp only [List.mem_append] at ho
      rcases ho with ho | ho
      · exact hso o ho
      · rw [hmdef] at ho
        simp only [outs, List.mem_cons, List.not_mem_nil, or_false] at ho
        rcases ho with ho | ho
        · rw [ho, hvstep]
        · rw [ho, hvdef, hf]
  · rw [hs'2, hf, hv]
    show { tid := m.tid, status := m.tstatus, ul := m.ude.1, dl := m.ude.2.1, el := m.ude.2.2,
           recs := m.tfile : FTxn } :: m.txns = _
    rw [hm.tidE, hm.tstatus, hm.ude, hm.tfile, htx]; rfl
  · rw [hs'2, hf, hv]; exact hm.tidE
  · rw [hs'2, hf, hv]
    show m.pos + (m.thl + recsSize m.tfile) + 8 = _
    rw [hm.thl, hm.tfile, hpos]; omega
  · rw [hs'2, hf, hv]
    show max m.fileLen (m.pos + (m.thl + recsSize m.tfile) + 8) = m.pos + (m.thl + recsSize m.tfile) + 8
    rw [hm.fileLen]; omega
  · rw [hs'2, hf]
  · rw [hs'2, hf]
  · rw [hs'2, hf, hv]; exact hm.closed
  · intro a ha'
    have hk : a.oid ∈ m.tindex.map (·.1) := (hm.tkeys a.oid).2 (List.mem_map_of_mem ha')
    obtain ⟨vv, h1, h2⟩ := lookup_update_key m.index m.tindex a.oid hk
    have h3 := hm.tvals a.oid vv h2
    refine ⟨vv.2, ?_⟩
    rw [hs'2, hf, hv]
    show lookup a.oid (update m.index m.tindex) = _
    rw [h1, ← h3]
  · intro oid hoid
    have hk : oid ∉ m.tindex.map (·.1) := fun h => hoid ((hm.tkeys oid).1 h)
    rw [hs'2, hf, hv]
    show lookup oid (update m.index m.tindex) = _
    rw [lookup_update_not_key _ _ _ hk, hidx]

end Proofs.TwoPC
