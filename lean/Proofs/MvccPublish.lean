/-
  Invariant preservation for `publish` (the data becomes loadable) and `newInstance`.
-/
import Proofs.MvccFinish
namespace Proofs.Mvcc
open ZodbModel.Mvcc

theorem glob_publish {log next n} {f : Infl} (g : Glob log (some f) next n) :
    Glob (f.txn :: log) none next n := by
  obtain ⟨g0, g1, g2, _, _⟩ := g.infl_ok f rfl
  refine ⟨?_, ?_, g.next_pos, fun f' hf' => by cases hf'⟩
  · exact List.pairwise_cons.mpr ⟨fun T hT => g2 T hT, g.sorted⟩
  · intro T hT
    rcases List.mem_cons.mp hT with rfl | hT
    · exact g1
    · exact g.loglt T hT

/-- old cache entries stay revisions of the longer log -/
theorem b1_publish {log next n} {f : Infl} (g : Glob log (some f) next n) {oid ser : Nat} {d : Data}
    (h : stateAt log (ser + 1) oid = some (ser, d)) :
    stateAt (f.txn :: log) (ser + 1) oid = some (ser, d) := by
  obtain ⟨T, hT, ht, _⟩ := stateAt_mem h
  have := (g.infl_ok f rfl).2.2.1 T hT
  rw [stateAt_cons_ge oid (by show ser + 1 ≤ f.tid; omega)]; exact h

/-- an instance that is not the committer, when the finish section ends -/
theorem instInv_publish_other {log next n i} {f : Infl} {x : Inst}
    (g : Glob log (some f) next n) (v : InstInv log (some f) next i x)
    (hw : f.who ≠ some i) (hguard : x.regAt < f.tid → i ∈ f.delivered) :
    InstInv (f.txn :: log) none next i x := by
  obtain ⟨g0, g1, g2, _, _⟩ := g.infl_ok f rfl
  have hh : headTid log < f.tid := headTid_lt_infl g rfl
  have hstart : ∀ oid ser d, x.cache oid = some (ser, d) → oid ∈ oidsOf f.writes → x.start ≤ f.tid := by
    intro oid ser d hc hoid
    by_cases hd : i ∈ f.delivered
    · by_cases hlt : f.tid < x.start
      · rw [v.b3 f rfl hd hlt oid hoid] at hc; cases hc
      · omega
    · exact start_le_infl g v rfl hd
  exact { v with
    polled_le := fun L hL => by have := v.polled_le L hL; show L ≤ f.tid; omega
    c1 := fun T hT hr => by
      rcases List.mem_cons.mp hT with rfl | hT
      · exact Nat.le_of_eq ((v.c2 f rfl).1 (hguard hr)).symm
      · exact v.c1 T hT hr
    c2 := fun f' hf' => by cases hf'
    c3 := by
      left; show x.regAt ≤ f.tid
      rcases v.c3 with h | ⟨f0, hf0, _, hr⟩
      · omega
      · simp only [Option.some.injEq] at hf0; subst hf0; omega
    s1 := by have := v.s1; show x.start ≤ max f.tid x.ltid + 1; omega
    a1 := fun T hT hr hs hwT oid hoid => by
      rcases List.mem_cons.mp hT with rfl | hT
      · exact v.a2 f rfl (hguard hr) hs oid hoid
      · exact v.a1 T hT hr hs hwT oid hoid
    a2 := fun f' hf' => by cases hf'
    b1 := fun oid ser d hc => b1_publish g (v.b1 oid ser d hc)
    b2 := fun oid ser d hc T hT hlt hoid => by
      rcases List.mem_cons.mp hT with rfl | hT
      · exact ⟨hstart oid ser d hc hoid, hw⟩
      · exact v.b2 oid ser d hc T hT hlt hoid
    b3 := fun f' hf' => by cases hf'
    b6 := fun T hT hwT => by
      rcases List.mem_cons.mp hT with rfl | hT
      · exact absurd hwT hw
      · exact v.b6 T hT hwT }

theorem overlayCache_cases {c : Nat → Option (Nat × Data)} {t : Nat} {ws : List (Nat × Data)}
    {oid ser : Nat} {d : Data} (h : overlayCache c t ws oid = some (ser, d)) :
    (lookup oid ws = some d ∧ ser = t) ∨ (lookup oid ws = none ∧ c oid = some (ser, d)) := by
  unfold overlayCache at h
  split at h
  · next d' hd =>
    simp only [Option.some.injEq, Prod.mk.injEq] at h
    left; rw [hd, h.2]; exact ⟨rfl, h.1.symm⟩
  · next hd => right; exact ⟨hd, h⟩

/-- the committer itself: its own cache entries take the new serial, `_ltid := tid` -/
theorem instInv_publish_self {log next n i} {f : Infl} {x : Inst}
    (g : Glob log (some f) next n) (v : InstInv log (some f) next i x) (hw : f.who = some i) :
    InstInv (f.txn :: log) none next i
      { x with ltid := f.tid, pending := [], live := false,
               cache := overlayCache x.cache f.tid f.writes } := by
  obtain ⟨g0, g1, g2, _, g4⟩ := g.infl_ok f rfl
  have hh : headTid log < f.tid := headTid_lt_infl g rfl
  have hnd : i ∉ f.delivered := fun hd => (g4 i hd).2 hw
  have hlt : x.ltid < f.tid := (v.c2 f rfl).2 hnd
  have hreg : x.regAt ≤ f.tid := by
    rcases v.c3 with h | ⟨f0, hf0, _, hr⟩
    · omega
    · simp only [Option.some.injEq] at hf0; subst hf0; omega
  exact { v with
    ltid_lt := g1
    polled_le := fun L hL => by have := v.polled_le L hL; show L ≤ f.tid; omega
    c1 := fun T hT _ => by
      rcases List.mem_cons.mp hT with rfl | hT
      · exact Nat.le_refl _
      · exact Nat.le_of_lt (g2 T hT)
    c2 := fun f' hf' => by cases hf'
    c3 := Or.inl hreg
    s1 := by have := v.s1; show x.start ≤ max f.tid f.tid + 1; omega
    s2 := fun L hL => by have := v.s2 L hL; show x.start ≤ max L f.tid + 1; omega
    a1 := fun T hT hr hs hwT oid hoid => by
      rcases List.mem_cons.mp hT with rfl | hT
      · exact absurd hw hwT
      · exact v.a1 T hT hr hs hwT oid hoid
    a2 := fun f' hf' => by cases hf'
    b0 := fun oid ser d hc => by
      rcases overlayCache_cases hc with ⟨_, rfl⟩ | ⟨_, hc'⟩
      · exact Or.inr hreg
      · exact v.b0 oid ser d hc'
    b1 := fun oid ser d hc => by
      rcases overlayCache_cases hc with ⟨hl, rfl⟩ | ⟨_, hc'⟩
      · exact stateAt_cons_hit (t := f.txn) (by show f.tid < f.tid + 1; omega) hl
      · exact b1_publish g (v.b1 oid ser d hc')
    b2 := fun oid ser d hc T hT hlt' hoid => by
      rcases overlayCache_cases hc with ⟨_, rfl⟩ | ⟨hl, hc'⟩
      · exfalso
        rcases List.mem_cons.mp hT with rfl | hT
        · exact Nat.lt_irrefl _ hlt'
        · have := g2 T hT; omega
      · rcases List.mem_cons.mp hT with rfl | hT
        · exact absurd hoid (lookup_none_iff.mp hl)
        · exact v.b2 oid ser d hc' T hT hlt' hoid
    b3 := fun f' hf' => by cases hf'
    b4 := fun oid ser d hc => by
      rcases overlayCache_cases hc with ⟨_, rfl⟩ | ⟨_, hc'⟩
      · exact Or.inr ⟨rfl, Nat.le_refl _⟩
      · rcases v.b4 oid ser d hc' with h4 | h4
        · exact Or.inl h4
        · right; dsimp only; exact ⟨rfl, by omega⟩
    b5 := fun h => by cases h
    b6 := fun _ _ _ => Or.inr rfl }

theorem histInv_publish {log next y} {f : Infl} (v : HistInv log (some f) next y) :
    HistInv (f.txn :: log) none next y := by
  obtain ⟨ext, he, hx⟩ := v.h1
  exact { v with
    h1 := ⟨f.txn :: ext, by rw [he]; rfl, fun T hT => by
      rcases List.mem_cons.mp hT with rfl | hT
      · exact v.h2.2 f rfl
      · exact hx T hT⟩
    h2 := ⟨v.h2.1, fun f' hf' => by cases hf'⟩ }

theorem inv_publish {s s' : Sys} (hinv : Inv s) (h : step s .publish = .ok s') : Inv s' := by
  obtain ⟨f, hf, hp, hguard, rfl⟩ := publish_ok h
  have g := hinv.glob
  rw [hf] at g
  have hother : ∀ k, k < s.n → f.who ≠ some k →
      InstInv (f.txn :: s.log) none s.next k (s.insts k) := by
    intro k hk hw
    have v := hinv.inst k hk
    rw [hf] at v
    exact instInv_publish_other g v hw (hguard k hk hw)
  have hhist : ∀ hh, hh < s.nh → HistInv (f.txn :: s.log) none s.next (s.hists hh) := by
    intro hh hlt
    have v := hinv.hist hh hlt
    rw [hf] at v
    exact histInv_publish v
  cases hwho : f.who with
  | none =>
    dsimp only
    refine ⟨glob_publish g, ?_, hhist⟩
    intro k hk
    exact hother k hk (by rw [hwho]; exact fun h => by cases h)
  | some i =>
    dsimp only
    refine ⟨glob_publish g, ?_, hhist⟩
    intro k hk
    show InstInv (f.txn :: s.log) none s.next k (upd s.insts i _ k)
    by_cases hki : k = i
    · subst hki
      rw [upd_same]
      have v := hinv.inst k hk
      rw [hf] at v
      exact instInv_publish_self g v hwho
    · rw [upd_other _ _ _ _ hki]
      exact hother k hk (by rw [hwho]; exact fun h => hki (Option.some.inj h).symm)

theorem headTid_le_vlog (s : Sys) (g : Glob s.log s.infl s.next s.n) : headTid s.log ≤ headTid (vlog s) := by
  rcases vlog_cases s with ⟨f, hf, _, hv⟩ | ⟨_, hv⟩
  · rw [hv]; exact Nat.le_of_lt (headTid_lt_infl g hf)
  · rw [hv]; exact Nat.le_refl _

theorem inv_newInstance {s s' : Sys} (hinv : Inv s) (h : step s .newInstance = .ok s') : Inv s' := by
  have := newInstance_ok h; subst this
  have g := hinv.glob
  refine ⟨⟨g.sorted, g.loglt, g.next_pos, ?_⟩, ?_, hinv.hist⟩
  · intro f hf
    obtain ⟨g0, g1, g2, g3, g4⟩ := g.infl_ok f hf
    exact ⟨g0, g1, g2, g3, fun j hj => ⟨Nat.lt_succ_of_lt (g4 j hj).1, (g4 j hj).2⟩⟩
  · intro i hi
    show InstInv s.log s.infl s.next i (upd s.insts s.n _ i)
    by_cases hin : i = s.n
    · subst hin
      rw [upd_same]
      have hv := headTid_le_vlog s g
      have hle : ∀ T ∈ s.log, T.tid ≤ headTid (vlog s) := fun T hT =>
        Nat.le_trans (le_headTid g.sorted T hT) hv
      exact {
        ltid_lt := g.next_pos
        polled_le := fun L hL => by cases hL
        c1 := fun T hT hr => by have := hle T hT; dsimp only at hr; omega
        c2 := fun f hf => by
          obtain ⟨g0, _, _, _, g4⟩ := g.infl_ok f hf
          exact ⟨fun hd => absurd (g4 _ hd).1 (Nat.lt_irrefl _), fun _ => g0⟩
        c3 := by
          dsimp only
          rcases vlog_cases s with ⟨f, hf, hp, hv⟩ | ⟨_, hv⟩
          · rw [hv]; exact Or.inr ⟨f, hf, hp, rfl⟩
          · rw [hv]; exact Or.inl (Nat.le_refl _)
        c4 := fun L hL => by cases hL
        s1 := Nat.zero_le _
        s2 := fun L hL => by cases hL
        a1 := fun T hT hr => by have := hle T hT; dsimp only at hr; omega
        a2 := fun f hf hd => absurd ((g.infl_ok f hf).2.2.2.2 _ hd).1 (Nat.lt_irrefl _)
        b0 := fun oid ser d hc => by cases hc
        b1 := fun oid ser d hc => by cases hc
        b2 := fun oid ser d hc => by cases hc
        b3 := fun _ _ _ _ _ _ => rfl
        b4 := fun oid ser d hc => by cases hc
        b5 := fun h => by cases h
        b6 := fun _ _ _ => Or.inr rfl }
    · rw [upd_other _ _ _ _ hin]
      have hi' : i < s.n + 1 := hi
      exact hinv.inst i (by omega)

end Proofs.Mvcc
