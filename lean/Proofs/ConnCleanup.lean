/-
  Connection model, part 8: which objects a cleanup (`abort`, `tpc_abort`) may disown, and what is
  guaranteed to have happened afterwards (no savepoint storage).
-/
import Proofs.ConnClean
namespace Proofs.Conn
open ZodbModel ZodbModel.Conn

/-- objects whose oid satisfies `K` keep it -/
def Keeps (K : Nat → Prop) (s s' : State) : Prop :=
  ∀ j k, (s.objs j).oid = some k → K k → (s'.objs j).oid = some k

theorem Keeps.refl (K) (s : State) : Keeps K s s := fun _ _ h _ => h

theorem Keeps.trans {K} {a b c : State} (h1 : Keeps K a b) (h2 : Keeps K b c) : Keeps K a c :=
  fun j k hj hk => h2 j k (h1 j k hj hk) hk

theorem Keeps.of_objs {K} {s s' : State} (h : s'.objs = s.objs) : Keeps K s s' := by
  intro j k hj _; rw [h]; exact hj

theorem invalidate_oid (s : State) (k j) : ((invalidate s k).objs j).oid = (s.objs j).oid := by
  unfold invalidate
  split
  · simp only [setO]; split
    · subst_vars; rfl
    · rfl
  · rfl

theorem invalidate_keeps (K) (s : State) (k) : Keeps K s (invalidate s k) := by
  intro j k' hj _; rw [invalidate_oid]; exact hj

theorem abortOne_keeps (K : Nat → Prop) (s : State) (i) (hK : ∀ k, K k → s.added.get k = none) :
    Keeps K s (abortOne s i) := by
  intro j k hj hk
  unfold abortOne
  split
  · exact hj
  · rename_i k0 hk0
    split
    · rename_i hadd
      simp only [disown, setO]
      by_cases hji : j = i
      · exfalso
        rw [hji, hk0] at hj; cases hj
        rw [Map.has_iff, hK _ hk] at hadd
        exact hadd rfl
      · rw [if_neg hji]; exact hj
    · split
      · exact hj
      · rw [invalidate_oid]; exact hj

theorem uncreate_keeps {P} (K : Nat → Prop) {s : State} (h : Str P s) (k0) (hK : ¬ K k0) :
    Keeps K s (uncreate s k0) := by
  intro j k hj hk
  unfold uncreate
  split
  · rename_i i hi
    simp only [disown, setO]
    by_cases hji : j = i
    · exfalso
      have := h.cacheS k0 i hi
      rw [← hji, hj] at this; cases this
      exact hK hk
    · rw [if_neg hji]; exact hj
  · exact hj

theorem foldl_keeps {β : Type} {P} (K : Nat → Prop) (f : State → β → State)
    (hf : ∀ s x, Str P s → Clean P s (f s x)) (s0 : State)
    (hk : ∀ u x, Str P u → Shrink s0 u → Keeps K u (f u x)) :
    ∀ (l : List β) (s : State), Str P s → Shrink s0 s → Keeps K s (l.foldl f s) := by
  intro l
  induction l with
  | nil => intro s _ _; exact Keeps.refl K s
  | cons x t ih =>
    intro s hs h0
    exact (hk s x hs h0).trans (ih _ (hf s x hs).1 (h0.trans (hf s x hs).2))

theorem abortObjs_keeps {P} (K : Nat → Prop) {s : State} (h : Str P s)
    (hK : ∀ k, K k → s.added.get k = none) : Keeps K s (abortObjs s) :=
  foldl_keeps K abortOne (fun _ x h => abortOne_clean h x) s
    (fun u x _ hsh => abortOne_keeps K u x (fun k hk => by
      cases hu : u.added.get k with
      | none => rfl
      | some j => have := hsh.added k j hu; rw [hK k hk] at this; cases this))
    _ s h (Shrink.refl s)

theorem invalidateCreating_keeps {P} (K : Nat → Prop) {s : State} (h : Str P s) (ks : List Nat)
    (hK : ∀ k ∈ ks, ¬ K k) : Keeps K s (invalidateCreating s ks) := by
  unfold invalidateCreating
  suffices h' : ∀ (l : List Nat) (s : State), Str P s → (∀ k ∈ l, ¬ K k) →
      Keeps K s (l.foldl uncreate s) from h' ks s h hK
  intro l
  induction l with
  | nil => intro s _ _; exact Keeps.refl K s
  | cons x t ih =>
    intro s hs hl
    exact (uncreate_keeps K hs x (hl x List.mem_cons_self)).trans
      (ih _ (uncreate_str hs x) (fun k hk => hl k (List.mem_cons_of_mem _ hk)))

theorem invalidateAll_keeps (K : Nat → Prop) (s : State) (ks : List Nat) :
    Keeps K s (invalidateAll s ks) := by
  unfold invalidateAll
  induction ks generalizing s with
  | nil => exact Keeps.refl K s
  | cons x t ih => exact (invalidate_keeps K s x).trans (ih _)

theorem drainAdded_keeps {P} (K : Nat → Prop) {s : State} (h : Str P s)
    (hK : ∀ k, K k → s.added.get k = none) : Keeps K s (drainAdded s) := by
  unfold drainAdded
  dsimp only
  suffices h' : ∀ (l : Map ObjId) (t : State), Str P t → t.added = l → (∀ k, K k → l.get k = none) →
      Keeps K t (l.foldl (fun (s : State) (p : Oid × ObjId) =>
        disown { s with added := s.added.del p.1 } p.2) t) by
    have := h' s.added s h rfl hK
    intro j k hj hk
    exact this j k hj hk
  intro l
  induction l with
  | nil => intro t _ _ _; exact Keeps.refl K t
  | cons x rest ih =>
    obtain ⟨k, i⟩ := x
    intro t ht hl hKl
    simp only [List.foldl_cons]
    have hs := ht.addedSorted
    rw [hl] at hs
    have hget : t.added.get k = some i := by rw [hl]; simp [Map.get]
    have ⟨hoid, hc⟩ := ht.addedS k i hget
    have hrem := ht.remove i k hoid
    rw [Map.del_of_get_none t.cache k hc] at hrem
    have hnK : ¬ K k := by
      intro hk; have := hKl k hk; simp [Map.get] at this
    have hstep : Keeps K t (disown { t with added := t.added.del k } i) := by
      intro j k' hj hk'
      simp only [disown, setO]
      by_cases hji : j = i
      · exfalso; rw [hji, hoid] at hj; cases hj; exact hnK hk'
      · rw [if_neg hji]; exact hj
    refine hstep.trans (ih _ (hrem.congr rfl rfl rfl rfl) ?_ ?_)
    · show t.added.del k = rest
      rw [hl]; exact Map.del_head_sorted hs
    · intro k' hk'
      have := hKl k' hk'
      simp only [Map.get] at this
      split at this
      · cases this
      · exact this

/-! ### fields the cleanup steps never touch -/

/-- untouched by `invalidate`, `abortOne`, `uncreate`, `disown` -/
def fixed (s : State) :=
  (s.sp, s.sps, s.snap, s.committed, s.lastTid, s.log, s.begun, s.modified, s.creating,
    s.registered, s.needsToJoin)

@[simp] theorem invalidate_fixed (s : State) (k) : fixed (invalidate s k) = fixed s := by
  unfold invalidate; split <;> rfl

@[simp] theorem invalidateAll_fixed (s : State) (ks) : fixed (invalidateAll s ks) = fixed s :=
  foldl_frame fixed invalidate invalidate_fixed ks s

@[simp] theorem abortOne_fixed (s : State) (i) : fixed (abortOne s i) = fixed s := by
  unfold abortOne
  split
  · rfl
  · split
    · rfl
    · split
      · rfl
      · exact invalidate_fixed _ _

@[simp] theorem abortObjs_fixed (s : State) : fixed (abortObjs s) = fixed s :=
  foldl_frame fixed abortOne abortOne_fixed _ s

@[simp] theorem uncreate_fixed (s : State) (k) : fixed (uncreate s k) = fixed s := by
  unfold uncreate; split <;> rfl

@[simp] theorem invalidateCreating_fixed (s : State) (ks) : fixed (invalidateCreating s ks) = fixed s :=
  foldl_frame fixed uncreate uncreate_fixed ks s

@[simp] theorem drainAdded_fixed (s : State) : fixed (drainAdded s) = fixed s := by
  unfold drainAdded
  show fixed (List.foldl _ s s.added) = _
  exact foldl_frame fixed (fun (s : State) (p : Oid × ObjId) =>
    disown { s with added := s.added.del p.1 } p.2) (fun t k => rfl) _ s

theorem abortSavepoint_none {s : State} (h : s.sp = none) : abortSavepoint s = s := by
  unfold abortSavepoint; rw [h]

/-! ### `Connection.abort` without savepoint storage -/

structure AbortEffect (t Y : State) : Prop where
  clean : Clean [] t Y
  spNone : Y.sp = none
  creatingNil : Y.creating = []
  regNil : Y.registered = []
  ntj : Y.needsToJoin = true
  frame : Y.sps = t.sps ∧ Y.snap = t.snap ∧ Y.committed = t.committed ∧ Y.lastTid = t.lastTid ∧
    Y.log = t.log ∧ Y.begun = t.begun ∧ Y.modified = t.modified
  uncached : ∀ k, t.creating.has k = true → Y.cache.get k = none
  keeps : Keeps (fun k => t.added.get k = none ∧ t.creating.has k = false) t Y
  regs : ∀ i ∈ t.registered, ∀ k, (t.objs i).oid = some k →
    (t.added.get k = some i → (Y.objs i).oid = none) ∧
    (t.added.get k = none → t.creating.has k = false →
      (Y.objs i).status = .ghost ∨ (Y.objs i).oid = none)

theorem connAbort_effect {t : State} (hS : Str [] t) (hsp : t.sp = none) :
    AbortEffect t (connAbort t) := by
  have hA := abortObjs_clean hS
  have hAf := abortObjs_fixed t
  simp only [fixed, Prod.mk.injEq] at hAf
  have hAsp : (abortObjs t).sp = none := by rw [hAf.1]; exact hsp
  have hB := invalidateCreating_clean hA.1 (abortObjs t).creating.keys
  have hBf := invalidateCreating_fixed (abortObjs t) (abortObjs t).creating.keys
  simp only [fixed, Prod.mk.injEq] at hBf
  have hY : connAbort t = tpcCleanup (invalidateOwnCreating (abortObjs t)) := by
    unfold connAbort; rw [abortSavepoint_none hAsp]
  rw [hY]
  have hcl : Clean [] t (tpcCleanup (invalidateOwnCreating (abortObjs t))) :=
    (hA.step invalidateOwnCreating_clean).step tpcCleanup_clean
  refine ⟨hcl, ?_, rfl, rfl, rfl, ?_, ?_, ?_, ?_⟩
  · show (invalidateCreating (abortObjs t) (abortObjs t).creating.keys).sp = none
    rw [hBf.1]; exact hAsp
  · refine ⟨?_, ?_, ?_, ?_, ?_, ?_, ?_⟩
    · show (invalidateCreating (abortObjs t) (abortObjs t).creating.keys).sps = _
      rw [hBf.2.1, hAf.2.1]
    · show (invalidateCreating (abortObjs t) (abortObjs t).creating.keys).snap = _
      rw [hBf.2.2.1, hAf.2.2.1]
    · show (invalidateCreating (abortObjs t) (abortObjs t).creating.keys).committed = _
      rw [hBf.2.2.2.1, hAf.2.2.2.1]
    · show (invalidateCreating (abortObjs t) (abortObjs t).creating.keys).lastTid = _
      rw [hBf.2.2.2.2.1, hAf.2.2.2.2.1]
    · show (invalidateCreating (abortObjs t) (abortObjs t).creating.keys).log = _
      rw [hBf.2.2.2.2.2.1, hAf.2.2.2.2.2.1]
    · show (invalidateCreating (abortObjs t) (abortObjs t).creating.keys).begun = _
      rw [hBf.2.2.2.2.2.2.1, hAf.2.2.2.2.2.2.1]
    · show (invalidateCreating (abortObjs t) (abortObjs t).creating.keys).modified = _
      rw [hBf.2.2.2.2.2.2.2.1, hAf.2.2.2.2.2.2.2.1]
  · intro k hk
    show (invalidateCreating (abortObjs t) (abortObjs t).creating.keys).cache.get k = none
    apply invalidateCreating_cache hA.1
    rw [hAf.2.2.2.2.2.2.2.2.1, Map.mem_keys_iff]
    rw [Map.has_iff] at hk; exact hk
  · have k1 := abortObjs_keeps (fun k => t.added.get k = none ∧ t.creating.has k = false) hS
      (fun k hk => hk.1)
    have k2 := invalidateCreating_keeps (fun k => t.added.get k = none ∧ t.creating.has k = false)
      hA.1 (abortObjs t).creating.keys (by
        intro k hk hK
        rw [hAf.2.2.2.2.2.2.2.2.1, Map.mem_keys_iff] at hk
        have := hK.2
        rw [Map.has_eq_false] at this
        exact hk this)
    intro j k hj hk
    exact k2 j k (k1 j k hj hk) hk
  · intro i hi k hk
    obtain ⟨e1, e2⟩ := abortObjs_effect hS i hi k hk
    have hsh : Shrink (abortObjs t) (tpcCleanup (invalidateOwnCreating (abortObjs t))) :=
      ((Clean.refl hA.1).step invalidateOwnCreating_clean).step tpcCleanup_clean |>.2
    constructor
    · intro ha
      have := e1 ha
      rw [hsh.noneKept i this]; exact this
    · intro ha hncr
      rcases e2 ha hncr (by unfold tmpCreated; rw [hsp]) with h1 | h1
      · exact Or.inl (hsh.ghostKept i h1)
      · right; rw [hsh.noneKept i h1]; exact h1

/-! ### `Connection.tpc_abort` without savepoint storage -/

structure TpcAbortEffect (u Z : State) : Prop where
  clean : Clean [] u Z
  spNone : Z.sp = none
  creatingNil : Z.creating = []
  regNil : Z.registered = []
  ntj : Z.needsToJoin = true
  addedNil : Z.added = []
  frame : Z.sps = u.sps ∧ Z.snap = u.snap ∧ Z.committed = u.committed ∧ Z.lastTid = u.lastTid ∧
    Z.log = u.log
  uncached : ∀ k, u.creating.has k = true → Z.cache.get k = none
  keeps : Keeps (fun k => u.added.get k = none ∧ u.creating.has k = false) u Z
  modGhost : ∀ k ∈ u.modified, u.creating.has k = false →
    ∀ i, Z.cache.get k = some i → (Z.objs i).status = .ghost

theorem connTpcAbort_effect {u : State} (hS : Str [] u) (hsp : u.sp = none) (hb : u.begun = true) :
    TpcAbortEffect u (connTpcAbort u) := by
  have hZ : connTpcAbort u = tpcCleanup (drainAdded (invalidateOwnCreating
      (invalidateModified (storageAbort u)))) := by
    unfold connTpcAbort; rw [abortSavepoint_none hsp]; simp [hb]
  rw [hZ]
  -- the stages
  have c0 : Clean [] u (storageAbort u) := storageAbort_clean hS
  have c1 := invalidateAll_clean c0.1 ((storageAbort u).modified.filter fun k => !(storageAbort u).creating.has k)
  have f1 := invalidateAll_fixed (storageAbort u) ((storageAbort u).modified.filter fun k => !(storageAbort u).creating.has k)
  simp only [fixed, Prod.mk.injEq] at f1
  have c2 := invalidateCreating_clean c1.1 (invalidateModified (storageAbort u)).creating.keys
  have f2 := invalidateCreating_fixed (invalidateModified (storageAbort u))
    (invalidateModified (storageAbort u)).creating.keys
  simp only [fixed, Prod.mk.injEq] at f2
  have c2' : Clean [] (invalidateModified (storageAbort u))
      (invalidateOwnCreating (invalidateModified (storageAbort u))) := invalidateOwnCreating_clean c1.1
  have c3 := drainAdded_clean c2'.1
  have f3 := drainAdded_fixed (invalidateOwnCreating (invalidateModified (storageAbort u)))
  simp only [fixed, Prod.mk.injEq] at f3
  have hall : Clean [] u (tpcCleanup (drainAdded (invalidateOwnCreating
      (invalidateModified (storageAbort u))))) :=
    (((c0.step (fun h => invalidateAll_clean h _)).step invalidateOwnCreating_clean).step
      drainAdded_clean).step tpcCleanup_clean
  have hcr1 : (invalidateModified (storageAbort u)).creating = u.creating := f1.2.2.2.2.2.2.2.2.1
  refine ⟨hall, ?_, rfl, rfl, rfl, rfl, ?_, ?_, ?_, ?_⟩
  · show (drainAdded _).sp = none
    rw [f3.1]
    show (invalidateCreating _ _).sp = none
    rw [f2.1]
    show (invalidateAll _ _).sp = none
    rw [f1.1]; exact hsp
  · refine ⟨?_, ?_, ?_, ?_, ?_⟩
    · show (drainAdded _).sps = _
      rw [f3.2.1]; show (invalidateCreating _ _).sps = _; rw [f2.2.1]
      show (invalidateAll _ _).sps = _; rw [f1.2.1]; rfl
    · show (drainAdded _).snap = _
      rw [f3.2.2.1]; show (invalidateCreating _ _).snap = _; rw [f2.2.2.1]
      show (invalidateAll _ _).snap = _; rw [f1.2.2.1]; rfl
    · show (drainAdded _).committed = _
      rw [f3.2.2.2.1]; show (invalidateCreating _ _).committed = _; rw [f2.2.2.2.1]
      show (invalidateAll _ _).committed = _; rw [f1.2.2.2.1]; rfl
    · show (drainAdded _).lastTid = _
      rw [f3.2.2.2.2.1]; show (invalidateCreating _ _).lastTid = _; rw [f2.2.2.2.2.1]
      show (invalidateAll _ _).lastTid = _; rw [f1.2.2.2.2.1]; rfl
    · show (drainAdded _).log = _
      rw [f3.2.2.2.2.2.1]; show (invalidateCreating _ _).log = _; rw [f2.2.2.2.2.2.1]
      show (invalidateAll _ _).log = _; rw [f1.2.2.2.2.2.1]; rfl
  · -- uncached
    intro k hk
    have h1 : (invalidateCreating (invalidateModified (storageAbort u))
        (invalidateModified (storageAbort u)).creating.keys).cache.get k = none := by
      apply invalidateCreating_cache c1.1
      rw [hcr1, Map.mem_keys_iff]
      rw [Map.has_iff] at hk; exact hk
    have hsh : Shrink (invalidateOwnCreating (invalidateModified (storageAbort u)))
        (tpcCleanup (drainAdded (invalidateOwnCreating (invalidateModified (storageAbort u))))) :=
      (c3.step tpcCleanup_clean).2
    cases hc : (tpcCleanup (drainAdded (invalidateOwnCreating
        (invalidateModified (storageAbort u))))).cache.get k with
    | none => rfl
    | some i =>
      have := hsh.cache k i hc
      have h1' : (invalidateOwnCreating (invalidateModified (storageAbort u))).cache.get k = none := h1
      rw [h1'] at this; cases this
  · -- keeps
    have k1 : Keeps (fun k => u.added.get k = none ∧ u.creating.has k = false) u
        (invalidateModified (storageAbort u)) :=
      (Keeps.of_objs (s' := storageAbort u) rfl).trans
        (invalidateAll_keeps _ (storageAbort u) ((storageAbort u).modified.filter fun k => !(storageAbort u).creating.has k))
    have k2 := invalidateCreating_keeps (fun k => u.added.get k = none ∧ u.creating.has k = false)
      c1.1 (invalidateModified (storageAbort u)).creating.keys (by
        intro k hk hK
        rw [hcr1, Map.mem_keys_iff] at hk
        have := hK.2
        rw [Map.has_eq_false] at this
        exact hk this)
    have hadd : ∀ k, u.added.get k = none →
        (invalidateOwnCreating (invalidateModified (storageAbort u))).added.get k = none := by
      intro k hk
      have hsh : Shrink u (invalidateOwnCreating (invalidateModified (storageAbort u))) :=
        ((c0.step (fun h => invalidateAll_clean h _)).step invalidateOwnCreating_clean).2
      cases hc : (invalidateOwnCreating (invalidateModified (storageAbort u))).added.get k with
      | none => rfl
      | some j => have := hsh.added k j hc; rw [hk] at this; cases this
    have k3 := drainAdded_keeps (fun k => u.added.get k = none ∧ u.creating.has k = false) c2'.1
      (fun k hk => hadd k hk.1)
    intro j k hj hk
    exact k3 j k (k2 j k (k1 j k hj hk) hk) hk
  · -- modGhost
    intro k hk hncr i hi
    have hsh : Shrink (invalidateModified (storageAbort u))
        (tpcCleanup (drainAdded (invalidateOwnCreating (invalidateModified (storageAbort u))))) :=
      ((c2'.step drainAdded_clean).step tpcCleanup_clean).2
    have := invalidateAll_ghost c0.1 ((storageAbort u).modified.filter fun k => !(storageAbort u).creating.has k) k
      (List.mem_filter.2 ⟨hk, by show (!u.creating.has k) = true; rw [hncr]; rfl⟩) i (hsh.cache k i hi)
    exact hsh.ghostKept i this

/-! ### a new object that was stored keeps its state through the cleanup (no savepoint storage) -/

/-- object `j` is not a ghost -/
def NG (j : Nat) (s : State) : Prop := (s.objs j).status ≠ .ghost

theorem disown_ng (s : State) (i j : Nat) (h : NG j s) : NG j (disown s i) := by
  unfold NG at h ⊢
  simp only [disown, setO]
  by_cases hji : j = i
  · subst hji
    simp only [if_true]
    split
    · simp
    · exact h
  · rw [if_neg hji]; exact h

theorem uncreate_ng (s : State) (k j : Nat) (h : NG j s) : NG j (uncreate s k) := by
  unfold uncreate
  split
  · exact disown_ng _ _ j h
  · exact h

theorem invalidateCreating_ng (s : State) (ks : List Nat) (j : Nat) (h : NG j s) :
    NG j (invalidateCreating s ks) :=
  foldl_pres (NG j) uncreate (fun t k ht => uncreate_ng t k j ht) ks s h

theorem drainAdded_ng (s : State) (j : Nat) (h : NG j s) : NG j (drainAdded s) := by
  unfold drainAdded
  dsimp only
  show NG j (List.foldl _ s s.added)
  exact foldl_pres (NG j) (fun (s : State) (p : Oid × ObjId) => disown { s with added := s.added.del p.1 } p.2)
    (fun t p ht => disown_ng _ _ j ht) s.added s h

theorem invalidate_ng {s : State} (k' j : Nat) (hc : s.cache.get k' ≠ some j) (h : NG j s) :
    NG j (invalidate s k') := by
  unfold invalidate
  split
  · rename_i i hi
    unfold NG at h ⊢
    simp only [setO]
    by_cases hji : j = i
    · subst hji; exact absurd hi hc
    · rw [if_neg hji]; exact h
  · exact h

/-- where object `j` is while the cleanup runs: still under its oid `k`, or disowned already -/
def At (j k : Nat) (s : State) : Prop := (s.objs j).oid = some k ∨ (s.objs j).oid = none

theorem At.not_cached {P} {s : State} (hS : Str P s) {j k k' : Nat} (h : At j k s) (hne : k' ≠ k) :
    s.cache.get k' ≠ some j := by
  intro hc
  have := hS.cacheS k' j hc
  rcases h with h | h
  · rw [h] at this; cases this; exact hne rfl
  · rw [h] at this; cases this

theorem At.of_shrink {s s' : State} {j k : Nat} (h : At j k s) (sh : Shrink s s') : At j k s' := by
  rcases sh.oid j with h1 | h1
  · rcases h with h | h
    · exact Or.inl (by rw [h1]; exact h)
    · exact Or.inr (by rw [h1]; exact h)
  · exact Or.inr h1.1

theorem invalidateAll_ng {P} : ∀ (ks : List Nat) (s : State), Str P s → ∀ {j k : Nat}, At j k s → k ∉ ks →
    NG j s → NG j (invalidateAll s ks) := by
  intro ks
  induction ks with
  | nil => intro s _ j k _ _ h; exact h
  | cons k' rest ih =>
    intro s hS j k hat hk h
    simp only [invalidateAll, List.foldl_cons]
    have hne : k' ≠ k := fun he => hk (by rw [he]; exact List.mem_cons_self)
    have h1 := invalidate_ng k' j (hat.not_cached hS hne) h
    have hat1 : At j k (invalidate s k') := by
      unfold At; rw [invalidate_oid]; exact hat
    exact ih (invalidate s k') (invalidate_str hS k') hat1 (fun hm => hk (List.mem_cons_of_mem _ hm)) h1

theorem invalidateAll_ng_none {P} : ∀ (ks : List Nat) (s : State), Str P s → ∀ {j : Nat},
    (s.objs j).oid = none → NG j s → NG j (invalidateAll s ks) := by
  intro ks
  induction ks with
  | nil => intro s _ j _ h; exact h
  | cons k' rest ih =>
    intro s hS j hn h
    simp only [invalidateAll, List.foldl_cons]
    have hnc : s.cache.get k' ≠ some j := by
      intro hc; have := hS.cacheS k' j hc; rw [hn] at this; cases this
    exact ih (invalidate s k') (invalidate_str hS k') (by rw [invalidate_oid]; exact hn)
      (invalidate_ng k' j hnc h)

theorem abortOne_ng {s : State} (hS : Str [] s) (i : Nat) {j k : Nat} (hat : At j k s)
    (hcr : s.creating.has k = true) (h : NG j s) : NG j (abortOne s i) := by
  unfold abortOne
  split
  · exact h
  · rename_i ki hki
    split
    · exact disown_ng _ _ j h
    · split
      · exact h
      · rename_i hnc
        apply invalidate_ng ki j _ h
        apply hat.not_cached hS
        intro he
        rw [he, hcr] at hnc
        simp at hnc

theorem abortObjs_ng {s : State} (hS : Str [] s) {j k : Nat} (hat : At j k s)
    (hcr : s.creating.has k = true) (h : NG j s) : NG j (abortObjs s) ∧ At j k (abortObjs s) := by
  unfold abortObjs
  have := foldl_pres (fun u => Str [] u ∧ At j k u ∧ u.creating.has k = true ∧ NG j u) abortOne
    (fun u i ⟨h1, h2, h3, h4⟩ =>
      ⟨abortOne_str h1 i, h2.of_shrink (abortOne_clean h1 i).2, by rw [abortOne_creating]; exact h3,
        abortOne_ng h1 i h2 h3 h4⟩) s.registered s ⟨hS, hat, hcr, h⟩
  exact ⟨this.2.2.2, this.2.1⟩

/-- **`Connection.abort` keeps the state of a stored new object** (it is disowned, not invalidated) -/
theorem connAbort_ng {t : State} (hS : Str [] t) (hsp : t.sp = none) {j k : Nat}
    (hc : t.cache.get k = some j) (hcr : t.creating.has k = true) (h : NG j t) : NG j (connAbort t) := by
  have hat : At j k t := Or.inl (hS.cacheS k j hc)
  obtain ⟨h1, _⟩ := abortObjs_ng hS hat hcr h
  have hAsp : (abortObjs t).sp = none := by
    have := abortObjs_fixed t; simp only [fixed, Prod.mk.injEq] at this; rw [this.1]; exact hsp
  unfold connAbort
  rw [abortSavepoint_none hAsp]
  show NG j (invalidateCreating (abortObjs t) (abortObjs t).creating.keys)
  exact invalidateCreating_ng _ _ j h1

/-- **`Connection.tpc_abort` keeps the state** of an object that is cached under a `_creating` oid, and of
    one that is disowned already -/
theorem connTpcAbort_ng {u : State} (hS : Str [] u) (hsp : u.sp = none) {j k : Nat} (hat : At j k u)
    (hcr : u.creating.has k = true ∨ (u.objs j).oid = none) (h : NG j u) : NG j (connTpcAbort u) := by
  by_cases hb : u.begun = true
  · have hZ : connTpcAbort u = tpcCleanup (drainAdded (invalidateOwnCreating
        (invalidateModified (storageAbort u)))) := by
      unfold connTpcAbort; rw [abortSavepoint_none hsp]; simp [hb]
    rw [hZ]
    show NG j (drainAdded (invalidateOwnCreating (invalidateModified (storageAbort u))))
    apply drainAdded_ng
    show NG j (invalidateCreating (invalidateModified (storageAbort u)) _)
    apply invalidateCreating_ng
    have hS0 : Str [] (storageAbort u) := (storageAbort_clean hS).1
    rcases hcr with hcr | hcr
    · exact invalidateAll_ng _ (storageAbort u) hS0 (k := k) hat (by
        intro hm
        have := (List.mem_filter.1 hm).2
        have h2 : (!u.creating.has k) = true := this
        rw [hcr] at h2; cases h2) h
    · -- disowned already: under no oid at all
      exact invalidateAll_ng_none _ (storageAbort u) hS0 hcr h
  · have : connTpcAbort u = u := by unfold connTpcAbort; simp [hb]
    rw [this]; exact h

end Proofs.Conn
