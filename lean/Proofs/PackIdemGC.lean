/-
  Helper lemmas for C07, part 9: packing again to the same or an earlier time, gc on.

  Outline.  After a successful gc pack of a sorted history with consistent back pointers the later
  transactions are copied verbatim (every back pointer's target was kept: `copyRest_verbatim`), so
  the second GC scans the same crossing back pointers.  Every record of the packed prefix is either
  the target of such a back pointer (kept again by the scan, `run_crossing_kept`) or the record
  current at the pack time of an oid marked by the first GC; marked oids are marked again — those
  reachable from the root because the kept records carry the same references (`reach_again`), those
  reached from an extra root because the extra roots are extra roots again (`scan_sim`) and marking
  is closed under references (`markAll_spec`).  The second pack therefore frees nothing.
-/
import Proofs.PackScan
set_option linter.unusedSimpArgs false
namespace Proofs.Pack
open ZodbModel ZodbModel.Pack

/-! ### facts about one GC run -/

section Run
variable {pre post : History} {T : Tid} {U : List Oid} {g : GC}

theorem run_r1 (run : GCRun pre post T U g) :
    (∀ p ∈ run.r1, (∃ r, curAt pre p.1 = some (p.2, r)) ∧ Reach.Reachable (refsAtT pre) [0] p.1) ∧
    (∀ o, Reach.Reachable (refsAtT pre) [0] o → ∀ t r, curAt pre o = some (t, r) → (o, t) ∈ run.r1) := by
  obtain ⟨ext, e1, m1, m2⟩ := mark_spec' run.hmark
  simp only [List.nil_append] at e1
  rw [e1]
  constructor
  · intro p hp
    obtain ⟨_, h2, h3⟩ := m1 p hp
    exact ⟨h2, Reach.reachAvoid_nil_seen_iff.1 h3⟩
  · intro o hr t r hc
    exact m2 o (Reach.reachAvoid_nil_seen_iff.2 hr) (by simp) t r hc

theorem run_ext2 (run : GCRun pre post T U g) : ∀ c ∈ run.ext2, c ∈ crossing post T := by
  obtain ⟨⟨ext, e, h⟩, _, _⟩ := scan_spec (crossing post T) ⟨run.r1, []⟩
  simp only at e
  rw [run.hscanR] at e
  rw [List.append_cancel_left e]
  exact h

theorem run_ex_sub (run : GCRun pre post T U g) : ∀ c ∈ g.ex, c ∈ crossing post T := by
  obtain ⟨_, ⟨ex', e, h⟩, _⟩ := scan_spec (crossing post T) ⟨run.r1, []⟩
  simp only [List.nil_append] at e
  rw [run.hscanE] at e
  rw [e]; exact h

theorem run_phase3 (run : GCRun pre post T U g) :
    (∀ p ∈ run.ext3, p.1 ∉ keys (run.r1 ++ run.ext2) ∧ (∃ r, curAt pre p.1 = some (p.2, r)) ∧
      ∃ e ∈ g.ex, Reach.ReachAvoid (refsAtT pre) (keys (run.r1 ++ run.ext2)) (refsOfEx pre e) p.1) ∧
    (∀ y ∈ keys g.reach, y ∉ keys (run.r1 ++ run.ext2) → ∀ y' ∈ refsAtT pre y,
      (curAt pre y').isSome → y' ∈ keys g.reach) ∧
    (∀ e ∈ g.ex, ∀ y ∈ refsOfEx pre e, (curAt pre y).isSome → y ∈ keys g.reach) := by
  obtain ⟨ext, e, a, b, c⟩ := markAll_spec run.hall
  have : ext = run.ext3 := by
    have h1 := run.hreach
    rw [e] at h1
    exact List.append_cancel_left h1
  subst this
  exact ⟨a, b, c⟩

/-- every mark is the record current at the pack time or the target of a crossing back pointer -/
theorem run_entry_cases (run : GCRun pre post T U g) :
    ∀ p ∈ g.reach, (∃ r, curAt pre p.1 = some (p.2, r)) ∨ p ∈ crossing post T := by
  intro p hp
  rw [run.hreach] at hp
  rcases List.mem_append.1 hp with hp | hp
  · rcases List.mem_append.1 hp with hp | hp
    · exact Or.inl ((run_r1 run).1 p hp).1
    · exact Or.inr (run_ext2 run p hp)
  · exact Or.inl ((run_phase3 run).1 p hp).2.1

theorem run_crossing_kept (run : GCRun pre post T U g) :
    ∀ c ∈ crossing post T, g.isReachable c.2 c.1 = true := by
  intro c hc
  obtain ⟨_, _, h3⟩ := scan_spec (crossing post T) ⟨run.r1, []⟩
  obtain ⟨t', hl, ht'⟩ := h3 c hc
  rw [run.hscanR] at hl
  rw [run.hscanE] at ht'
  have hl' : g.reach.lookup c.1 = some t' := by
    rw [run.hreach]; exact lookup_append_of_some hl
  unfold GC.isReachable
  rw [hl']
  rcases ht' with rfl | hin
  · simp
  · simp only [Bool.or_eq_true, beq_iff_eq, List.contains_eq_mem, decide_eq_true_eq]
    exact Or.inr hin

theorem isReachable_cases (run : GCRun pre post T U g) {t : Tid} {o : Oid}
    (h : g.isReachable t o = true) :
    (o, t) ∈ crossing post T ∨ (∃ r, curAt pre o = some (t, r)) ∧ g.reach.lookup o = some t := by
  unfold GC.isReachable at h
  split at h
  · cases h
  · rename_i t' hl
    simp only [Bool.or_eq_true, beq_iff_eq] at h
    rcases h with rfl | hin
    · rcases run_entry_cases run _ (mem_of_lookup hl) with hc | hc
      · exact Or.inr ⟨hc, hl⟩
      · exact Or.inl hc
    · exact Or.inl (run_ex_sub run _ (by simpa using hin))

theorem refsAtT_ne_nil {pre : History} {y y' : Oid} (h : y' ∈ refsAtT pre y) : (curAt pre y).isSome := by
  unfold refsAtT at h
  split at h
  · rename_i hc; simp [hc]
  · simp at h

/-- everything reached from an extra root, avoiding only the oids marked before phase 3, is
    marked at the end (when it is in the index) -/
theorem run_reached_marked (run : GCRun pre post T U g) {e : Oid × Tid} (he : e ∈ g.ex) {y : Oid}
    (hra : Reach.ReachAvoid (refsAtT pre) (keys (run.r1 ++ run.ext2)) (refsOfEx pre e) y) :
    (curAt pre y).isSome → y ∈ keys g.reach := by
  obtain ⟨_, b, c⟩ := run_phase3 run
  induction hra with
  | root hm => exact fun hc => c e he _ hm hc
  | step _ hn hr ih =>
    intro hc
    exact b _ (ih (refsAtT_ne_nil hr)) hn _ hr hc

/-- a marked oid without a crossing back pointer carries the record current at the pack time -/
theorem run_marktype (run : GCRun pre post T U g) {y : Oid} (hy : y ∈ keys g.reach)
    (hnc : ∀ c ∈ crossing post T, c.1 ≠ y) :
    ∃ t r, curAt pre y = some (t, r) ∧ g.reach.lookup y = some t := by
  obtain ⟨t, hl⟩ := Option.isSome_iff_exists.1 (lookup_isSome_iff.2 hy)
  rcases run_entry_cases run _ (mem_of_lookup hl) with ⟨r, hc⟩ | hc
  · exact ⟨t, r, hc, hl⟩
  · exact absurd rfl (hnc _ hc)

theorem run_kscan (run : GCRun pre post T U g) {y : Oid} (hy : y ∈ keys (run.r1 ++ run.ext2)) :
    y ∈ keys run.r1 ∨ ∃ c ∈ crossing post T, c.1 = y := by
  rw [keys_append] at hy
  rcases List.mem_append.1 hy with hy | hy
  · exact Or.inl hy
  · obtain ⟨p, hp, e⟩ := List.mem_map.1 hy
    exact Or.inr ⟨p, run_ext2 run p hp, e⟩

end Run

/-! ### the later transactions are copied verbatim -/

def ResBt (out : History) (r : Rec) (bt : Tid) : Prop :=
  ∃ t'', out.find? (fun t' => t'.tid == bt) = some t'' ∧
    ∃ r'', t''.recOf r.oid = some r'' ∧ r''.data = r.data ∧ r''.dlen = r.dlen

theorem copyRec_of_res {out : History} {r : Rec} (h : ∀ bt, r.back = some bt → ResBt out r bt) :
    copyRec out r = .ok r := by
  unfold copyRec
  split
  · rfl
  · rename_i bt hb
    obtain ⟨t'', hf, r'', hr'', hd, hl⟩ := h bt hb
    rw [hf]
    simp only [hr'']
    split
    · rfl
    · have h1 : (r''.dlen != r.dlen) = false := by simp [hl]
      have h2 : (r''.data != r.data) = false := by simp [hd]
      simp [h1, h2]

theorem copyRecs_of_res {out : History} : ∀ {rs : List Rec},
    (∀ r ∈ rs, ∀ bt, r.back = some bt → ResBt out r bt) → copyRecs out rs = .ok rs := by
  intro rs
  induction rs with
  | nil => intro _; rfl
  | cons r rest ih =>
    intro h
    simp only [copyRecs]
    rw [copyRec_of_res (h r (List.mem_cons_self ..))]
    simp only
    rw [ih (fun r' hr' => h r' (List.mem_cons_of_mem _ hr'))]

theorem copyTxn_of_res {out : History} {t : Txn}
    (h : ∀ r ∈ t.recs, ∀ bt, r.back = some bt → ResBt out r bt) : copyTxn out t = .ok t := by
  unfold copyTxn
  rw [copyRecs_of_res h]

/-- what the copier needs: a back pointer resolves in the output so far, or points to a
    transaction still to be copied -/
def CopyHyp (out rest : History) : Prop :=
  rest.Pairwise (fun a b => a.tid < b.tid) ∧
  ∀ t ∈ rest, ∀ r ∈ t.recs, ∀ bt, r.back = some bt →
    ResBt out r bt ∨ ((∀ x ∈ out, x.tid ≠ bt) ∧ ∃ tb ∈ rest, tb.tid = bt ∧ bt < t.tid ∧
      ∃ rb, tb.recOf r.oid = some rb ∧ rb.data = r.data ∧ rb.dlen = r.dlen)

theorem copyRest_verbatim : ∀ {rest out : History}, CopyHyp out rest →
    copyRest out rest = .ok (out ++ rest) := by
  intro rest
  induction rest with
  | nil => intro out _; simp [copyRest]
  | cons t rest' ih =>
    intro out ⟨hpw, hres⟩
    have ⟨hlt, hpw'⟩ := List.pairwise_cons.1 hpw
    have hcopy : copyTxn out t = .ok t := by
      apply copyTxn_of_res
      intro r hr bt hb
      rcases hres t (List.mem_cons_self ..) r hr bt hb with h1 | ⟨_, tb, htb, e1, e2, _⟩
      · exact h1
      · exfalso
        rcases List.mem_cons.1 htb with heq | htb'
        · rw [heq] at e1; omega
        · have := hlt tb htb'; omega
    simp only [copyRest, hcopy]
    have : copyRest (out ++ [t]) rest' = .ok ((out ++ [t]) ++ rest') := by
      apply ih
      refine ⟨hpw', ?_⟩
      intro t2 ht2 r hr bt hb
      rcases hres t2 (List.mem_cons_of_mem _ ht2) r hr bt hb with
        ⟨t'', hf, hrest⟩ | ⟨hno, tb, htb, e1, e2, rb, hrb, hd, hl⟩
      · left
        exact ⟨t'', by rw [List.find?_append, hf]; rfl, hrest⟩
      · rcases List.mem_cons.1 htb with rfl | htb2
        · left
          refine ⟨tb, ?_, rb, hrb, hd, hl⟩
          rw [List.find?_append, find?_eq_none_of_all]
          · simp [List.find?, e1]
          · intro x hx
            have := hno x hx
            simpa using this
        · right
          refine ⟨?_, tb, htb2, e1, e2, rb, hrb, hd, hl⟩
          intro x hx
          rcases List.mem_append.1 hx with hx | hx
          · exact hno x hx
          · have hxt : x = t := by simpa using hx
            have := hlt tb htb2
            rw [hxt]; omega
    rw [this]
    simp

theorem mem_crossing {post : History} {T : Tid} {t : Txn} (ht : t ∈ post) {r : Rec} (hr : r ∈ t.recs)
    {bt : Tid} (hb : r.back = some bt) (hle : bt ≤ T) : (r.oid, bt) ∈ crossing post T := by
  unfold crossing
  refine List.mem_flatMap.2 ⟨t, ht, List.mem_filterMap.2 ⟨r, hr, ?_⟩⟩
  simp [hb, hle]

theorem mem_crossing_iff {post : History} {T : Tid} {c : Oid × Tid} :
    c ∈ crossing post T ↔ ∃ t ∈ post, ∃ r ∈ t.recs, r.back = some c.2 ∧ c.2 ≤ T ∧ r.oid = c.1 := by
  unfold crossing
  simp only [List.mem_flatMap, List.mem_filterMap]
  constructor
  · rintro ⟨t, ht, r, hr, he⟩
    split at he
    · rename_i bt hb
      split at he
      · rename_i hle
        injection he with he
        subst he
        exact ⟨t, ht, r, hr, hb, hle, rfl⟩
      · cases he
    · cases he
  · rintro ⟨t, ht, r, hr, hb, hle, ho⟩
    refine ⟨t, ht, r, hr, ?_⟩
    obtain ⟨o, bt⟩ := c
    simp only at hb hle ho
    simp [hb, hle, ho]

theorem sorted_copyPre {keep : Tid → Oid → Bool} {pre : History} (hs : Sorted pre) :
    Sorted (copyPre keep pre) := by
  unfold copyPre
  apply List.Pairwise.filterMap _ _ hs
  intro a a' hlt b hb b' hb'
  have h1 : b.tid = a.tid := by
    unfold copyPreTxn at hb; simp only at hb
    split at hb
    · cases hb
    · injection hb with hb; rw [← hb]
  have h2 : b'.tid = a'.tid := by
    unfold copyPreTxn at hb'; simp only at hb'
    split at hb'
    · cases hb'
    · injection hb' with hb'; rw [← hb']
  omega

/-- a kept record is found in the packed prefix, with its back pointer resolved -/
theorem kept_in_copyPre {keep : Tid → Oid → Bool} {pre : History} (hs : Sorted pre) {tb : Txn}
    (htb : tb ∈ pre) {o : Oid} {rb : Rec} (hrb : tb.recOf o = some rb) (hk : keep tb.tid o = true) :
    ∃ t'' ∈ copyPre keep pre, t''.tid = tb.tid ∧ t''.recOf o = some (packRec rb) ∧
      (copyPre keep pre).find? (fun t' => t'.tid == tb.tid) = some t'' := by
  have hmem : (tb.tid, packRec rb) ∈ recsOf (copyPre keep pre) o := by
    rw [recsOf_copyPre]
    exact List.mem_map.2 ⟨(tb.tid, rb), List.mem_filter.2 ⟨mem_recsOf_of htb hrb, hk⟩, rfl⟩
  obtain ⟨t0, ht0, e0, hr0⟩ := mem_recsOf hmem
  simp only at e0 hr0
  refine ⟨t0, ht0, e0, hr0, ?_⟩
  have hsome : ((copyPre keep pre).find? (fun t' => t'.tid == tb.tid)).isSome := by
    rw [List.find?_isSome]; exact ⟨t0, ht0, by simp [e0]⟩
  obtain ⟨t1, ht1⟩ := Option.isSome_iff_exists.1 hsome
  have h1 : t1 ∈ copyPre keep pre := List.mem_of_find?_eq_some ht1
  have h2 : t1.tid = tb.tid := by simpa using List.find?_some ht1
  have : t1 = t0 := sorted_tid_inj (sorted_copyPre hs) h1 ht0 (by omega)
  rw [ht1, this]

/-- after a successful gc pack of a sorted history with consistent back pointers, the
    transactions after the pack time are copied verbatim -/
theorem packFS_gc_post_verbatim {h h' : History} {T : Tid} (hs : Sorted h) (hb : BackOK h)
    (hp : packFS h T true = .ok h') :
    ∃ g, findReachable (preOf h T) (postOf h T) T true (allOids h) = .ok g ∧
      h' = copyPre g.isReachable (preOf h T) ++ postOf h T := by
  obtain ⟨g, hg, hc⟩ := packFS_ok_inv hp
  refine ⟨g, hg, ?_⟩
  obtain ⟨run⟩ := findReachable_run hg
  have : copyRest (copyPre g.isReachable (preOf h T)) (postOf h T) =
      .ok (copyPre g.isReachable (preOf h T) ++ postOf h T) := by
    apply copyRest_verbatim
    refine ⟨sorted_post T hs, ?_⟩
    intro t ht r hr bt hbk
    have hth : t ∈ h := by rw [← pre_append_post h T]; exact List.mem_append_right _ ht
    obtain ⟨hlt, tb, htb, etb, rb, hrb, hd, hl⟩ := hb t hth r hr bt hbk
    by_cases hle : bt ≤ T
    · left
      have hk := run_crossing_kept run _ (mem_crossing ht hr hbk hle)
      simp only at hk
      have htbp : tb ∈ preOf h T := mem_pre_of_le hs htb (by omega)
      rw [← etb] at hk
      obtain ⟨t'', _, _, hr'', hf⟩ := kept_in_copyPre (sorted_pre T hs) htbp hrb hk
      rw [etb] at hf
      exact ⟨t'', hf, packRec rb, hr'', hd, hl⟩
    · right
      refine ⟨?_, tb, mem_post_of_gt htb (by omega), etb, hlt, rb, hrb, hd, hl⟩
      intro x hx
      have := copyPre_le (keep := g.isReachable) (fun t ht => pre_le ht) x hx
      omega
  rw [this] at hc
  injection hc with hc
  exact hc.symm

/-! ### the second GC keeps what the first kept -/

theorem curAt_inIndex {pre : History} {o : Oid} {t : Tid} {r : Rec}
    (hc : curAt pre o = some (t, r)) : inIndex r = true := by
  have hl := curAt_lastRec hc
  unfold curAt at hc
  rw [hl] at hc
  simp only at hc
  split at hc
  · assumption
  · cases hc

/-- a kept record current at the pack time is current in the packed prefix -/
theorem kept_cur {h : History} {T : Tid} (hNB : NoBackToTombstone h T) {keep : Tid → Oid → Bool}
    {o : Oid} {t : Tid} {r : Rec} (hc : curAt (preOf h T) o = some (t, r)) (hk : keep t o = true) :
    curAt (copyPre keep (preOf h T)) o = some (t, packRec r) := by
  have hl := curAt_lastRec hc
  have hl' := lastRec_copyPre (keep := keep) (x := (t, r)) hl hk
  have hdata : r.data.isSome := by
    obtain ⟨tx, htx, etx, hro⟩ := mem_recsOf (lastRec_mem hl)
    simp only at etx hro
    have hin := curAt_inIndex hc
    unfold inIndex at hin
    cases hb : r.back.isSome with
    | true => exact hNB tx (List.takeWhile_subset _ htx) (pre_le htx) r (recOf_mem hro).1 hb
    | false => rw [hb] at hin; simpa using hin
  exact curAt_of_lastRec hl' (by simpa using hdata)

theorem refsAtT_kept {h : History} {T : Tid} (hNB : NoBackToTombstone h T) {keep : Tid → Oid → Bool}
    {o : Oid} {t : Tid} {r : Rec} (hc : curAt (preOf h T) o = some (t, r)) (hk : keep t o = true) :
    refsAtT (copyPre keep (preOf h T)) o = refsAtT (preOf h T) o := by
  unfold refsAtT
  rw [kept_cur hNB hc hk, hc]
  rfl

/-- what is reachable from the root at the pack time stays so in the packed prefix -/
theorem reach_again {h : History} {T : Tid} (hNB : NoBackToTombstone h T) {g1 : GC}
    (hg1 : findReachable (preOf h T) (postOf h T) T true (allOids h) = .ok g1) {o : Oid}
    (hr : Reach.Reachable (refsAtT (preOf h T)) [0] o) :
    Reach.Reachable (refsAtT (copyPre g1.isReachable (preOf h T))) [0] o := by
  induction hr with
  | root hm => exact .root hm
  | @step y y' hy hy' ih =>
    obtain ⟨x, hx⟩ := Option.isSome_iff_exists.1 (refsAtT_ne_nil hy')
    obtain ⟨t, r⟩ := x
    have hk := findReachable_gc_keeps hg1 hy hx
    refine .step ih ?_
    rw [refsAtT_kept hNB hx hk]; exact hy'

theorem find?_tid_of_mem {l : History} (hs : Sorted l) {t : Txn} (ht : t ∈ l) :
    l.find? (fun t' => t'.tid == t.tid) = some t := by
  have hsome : (l.find? (fun t' => t'.tid == t.tid)).isSome := by
    rw [List.find?_isSome]; exact ⟨t, ht, by simp⟩
  obtain ⟨t1, ht1⟩ := Option.isSome_iff_exists.1 hsome
  have h1 : t1 ∈ l := List.mem_of_find?_eq_some ht1
  have h2 : t1.tid = t.tid := by simpa using List.find?_some ht1
  rw [ht1, sorted_tid_inj hs h1 ht h2]

theorem flatMap_congr' {α β} {f g : α → List β} : ∀ {l : List α}, (∀ x ∈ l, f x = g x) →
    l.flatMap f = l.flatMap g := by
  intro l
  induction l with
  | nil => intro _; rfl
  | cons a rest ih =>
    intro h
    simp only [List.flatMap_cons]
    rw [h a (List.mem_cons_self ..), ih (fun x hx => h x (List.mem_cons_of_mem _ hx))]

theorem filterMap_congr' {α β} {f g : α → Option β} : ∀ {l : List α}, (∀ x ∈ l, f x = g x) →
    l.filterMap f = l.filterMap g := by
  intro l
  induction l with
  | nil => intro _; rfl
  | cons a rest ih =>
    intro h
    simp only [List.filterMap_cons]
    rw [h a (List.mem_cons_self ..), ih (fun x hx => h x (List.mem_cons_of_mem _ hx))]

theorem run_crossing_in_kscan {pre post : History} {T : Tid} {U : List Oid} {g : GC}
    (run : GCRun pre post T U g) {c : Oid × Tid} (hc : c ∈ crossing post T) :
    c.1 ∈ keys (run.r1 ++ run.ext2) := by
  obtain ⟨_, _, h3⟩ := scan_spec (crossing post T) ⟨run.r1, []⟩
  obtain ⟨t', hl, _⟩ := h3 c hc
  rw [run.hscanR] at hl
  exact lookup_isSome_iff.1 (by simp [hl])

/-- **gc on: packing again to the same or an earlier time changes nothing** -/
theorem packFS_repack_gc {h h' : History} {T T' : Tid} (hs : Sorted h) (hb : BackOK h)
    (hNB : NoBackToTombstone h T) (hp : packFS h T true = .ok h') (hle : T' ≤ T) :
    (packFS h' T' true).hist h' = h' := by
  obtain ⟨g1, hg1, e1⟩ := packFS_gc_post_verbatim hs hb hp
  obtain ⟨run1⟩ := findReachable_run hg1
  have hprefact : ∀ t ∈ copyPre g1.isReachable (preOf h T), t.tid ≤ T ∧ t.packed = true := by
    intro t ht
    exact ⟨copyPre_le (fun t ht => pre_le ht) t ht, (copyPre_shape ht).1⟩
  apply repack_unchanged
  rw [e1]
  rcases repack_split hle hprefact (post_gt hs) with ⟨ea, eb⟩ | hr
  case inr => left; exact hr
  right
  rw [ea, eb]
  intro g2 hg2
  obtain ⟨run2⟩ := findReachable_run hg2
  have hall' : ∀ t ∈ copyPre g1.isReachable (preOf h T), t.tid ≤ T' := by
    intro t ht
    have : t ∈ preOf (copyPre g1.isReachable (preOf h T) ++ postOf h T) T' := by rw [ea]; exact ht
    exact pre_le this
  -- target of a crossing back pointer: kept, found in the packed prefix
  have htarget : ∀ c ∈ crossing (postOf h T) T, ∃ tb ∈ preOf h T, tb.tid = c.2 ∧
      ∃ rb, tb.recOf c.1 = some rb ∧ g1.isReachable c.2 c.1 = true := by
    intro c hc
    obtain ⟨t, ht, r, hr, hbk, hleT, ho⟩ := mem_crossing_iff.1 hc
    have hth : t ∈ h := by rw [← pre_append_post h T]; exact List.mem_append_right _ ht
    obtain ⟨_, tb, htb, etb, rb, hrb, _, _⟩ := hb t hth r hr c.2 hbk
    rw [ho] at hrb
    exact ⟨tb, mem_pre_of_le hs htb (by omega), etb, rb, hrb, run_crossing_kept run1 c hc⟩
  -- the second scan sees the same crossing back pointers
  have hcs : crossing (postOf h T) T' = crossing (postOf h T) T := by
    unfold crossing
    apply flatMap_congr'
    intro t ht
    apply filterMap_congr'
    intro r hr
    cases hbk : r.back with
    | none => rfl
    | some bt =>
      simp only
      by_cases h1 : bt ≤ T
      · have hc := mem_crossing ht hr hbk h1
        obtain ⟨tb, htb, etb, rb, hrb, hk⟩ := htarget _ hc
        simp only at etb hrb hk
        rw [← etb] at hk
        obtain ⟨t'', ht'', e'', _, _⟩ := kept_in_copyPre (sorted_pre T hs) htb hrb hk
        have := hall' t'' ht''
        have h2 : bt ≤ T' := by omega
        simp [h1, h2]
      · have h2 : ¬ bt ≤ T' := by omega
        simp [h1, h2]
  have run2' := run2
  -- marks of the first phase
  have hkeys1 : ∀ o ∈ keys run1.r1, o ∈ keys run2.r1 := by
    intro o ho
    obtain ⟨p, hp, ep⟩ := List.mem_map.1 ho
    obtain ⟨⟨r, hc⟩, hre⟩ := (run_r1 run1).1 p hp
    rw [ep] at hc hre
    have hk := findReachable_gc_keeps hg1 hre hc
    have := (run_r1 run2).2 o (reach_again hNB hg1 hre) _ _ (kept_cur hNB hc hk)
    exact List.mem_map.2 ⟨_, this, rfl⟩
  -- extra roots of the first GC are extra roots of the second
  have hex : ∀ c ∈ g1.ex, c ∈ g2.ex := by
    have := (scan_sim (crossing (postOf h T) T) ⟨run1.r1, []⟩ ⟨run2.r1, []⟩ hkeys1 (by simp)).2
    rw [run1.hscanE] at this
    have h2 := run2.hscanE
    rw [hcs] at h2
    rw [h2] at this
    exact this
  have hrefs : ∀ e ∈ g1.ex, refsOfEx (copyPre g1.isReachable (preOf h T)) e = refsOfEx (preOf h T) e := by
    intro e he
    obtain ⟨tb, htb, etb, rb, hrb, hk⟩ := htarget e (run_ex_sub run1 e he)
    rw [← etb] at hk
    obtain ⟨t'', _, _, hr'', hf⟩ := kept_in_copyPre (sorted_pre T hs) htb hrb hk
    unfold refsOfEx recAt
    rw [← etb, hf, find?_tid_of_mem (sorted_pre T hs) htb]
    simp only [Option.bind_some, hr'', hrb, packRec_data, packRec_refs]
    rfl
  have hnoC : ∀ y, y ∉ keys (run1.r1 ++ run1.ext2) → ∀ c ∈ crossing (postOf h T) T, c.1 ≠ y := by
    intro y hy c hc e
    exact hy (e ▸ run_crossing_in_kscan run1 hc)
  -- an oid marked from an extra root in the first GC is kept, hence current in the packed prefix
  have hk12 : ∀ e ∈ g1.ex, ∀ y,
      Reach.ReachAvoid (refsAtT (preOf h T)) (keys (run1.r1 ++ run1.ext2)) (refsOfEx (preOf h T) e) y →
      y ∉ keys (run1.r1 ++ run1.ext2) → ∀ t r, curAt (preOf h T) y = some (t, r) →
      g1.isReachable t y = true := by
    intro e he y hra hny t r hc
    have hyk := run_reached_marked run1 he hra (by simp [hc])
    obtain ⟨t1, r1, hc1, hl1⟩ := run_marktype run1 hyk (hnoC y hny)
    rw [hc] at hc1; injection hc1 with hc1; injection hc1 with h1 _
    subst h1
    simp [GC.isReachable, hl1]
  -- claim W: such an oid is marked with its current record by the second GC as well
  have hW : ∀ e ∈ g1.ex, ∀ y,
      Reach.ReachAvoid (refsAtT (preOf h T)) (keys (run1.r1 ++ run1.ext2)) (refsOfEx (preOf h T) e) y →
      y ∉ keys (run1.r1 ++ run1.ext2) → (curAt (preOf h T) y).isSome →
      ∃ t2 r2, curAt (copyPre g1.isReachable (preOf h T)) y = some (t2, r2) ∧
        g2.reach.lookup y = some t2 := by
    intro e he y hra
    have hnoC2 : ∀ y, y ∉ keys (run1.r1 ++ run1.ext2) → ∀ c ∈ crossing (postOf h T) T', c.1 ≠ y := by
      intro y hy; rw [hcs]; exact hnoC y hy
    induction hra with
    | @root y hm =>
      intro hny hc
      obtain ⟨x, hx⟩ := Option.isSome_iff_exists.1 hc
      obtain ⟨t, r⟩ := x
      have hk := hk12 e he y (.root hm) hny t r hx
      have hc' := kept_cur hNB hx hk
      have hy2 : y ∈ keys g2.reach := by
        apply (run_phase3 run2).2.2 e (hex e he) y
        · rw [hrefs e he]; exact hm
        · simp [hc']
      exact run_marktype run2 hy2 (hnoC2 y hny)
    | @step y y' hray hny hy' ih =>
      intro hny' hc'
      have hcy := refsAtT_ne_nil hy'
      obtain ⟨t2, r2, hc2, hl2⟩ := ih hny hcy
      obtain ⟨x, hx⟩ := Option.isSome_iff_exists.1 hcy
      obtain ⟨t, r⟩ := x
      have hk := hk12 e he y hray hny t r hx
      have hrefs_y := refsAtT_kept hNB hx hk
      obtain ⟨x', hx'⟩ := Option.isSome_iff_exists.1 hc'
      obtain ⟨t', r'⟩ := x'
      have hk' := hk12 e he y' (.step hray hny hy') hny' t' r' hx'
      have hcy' := kept_cur hNB hx' hk'
      have hy'2 : y' ∈ refsAtT (copyPre g1.isReachable (preOf h T)) y := by rw [hrefs_y]; exact hy'
      have hyk2 : y ∈ keys g2.reach := lookup_isSome_iff.1 (by simp [hl2])
      have hy2 : y' ∈ keys g2.reach := by
        by_cases hks : y ∈ keys (run2.r1 ++ run2.ext2)
        · rcases run_kscan run2 hks with h1 | ⟨c, hc, ec⟩
          · obtain ⟨p, hp, ep⟩ := List.mem_map.1 h1
            have hre := ((run_r1 run2).1 p hp).2
            rw [ep] at hre
            have := (run_r1 run2).2 y' (.step hre hy'2) _ _ hcy'
            rw [run2.hreach, keys_append, keys_append]
            exact List.mem_append_left _ (List.mem_append_left _ (List.mem_map.2 ⟨_, this, rfl⟩))
          · exact absurd ec (hnoC2 y hny c hc)
        · exact (run_phase3 run2).2.1 y hyk2 hks y' hy'2 (by simp [hcy'])
      exact run_marktype run2 hy2 (hnoC2 y' hny')
  -- every kept record is kept again
  have keep_again : ∀ t o, g1.isReachable t o = true → g2.isReachable t o = true := by
    intro t o hk
    rcases isReachable_cases run1 hk with hcr | ⟨⟨r, hc⟩, hl⟩
    · have := run_crossing_kept run2 (o, t) (by rw [hcs]; exact hcr)
      exact this
    · by_cases hcr : (o, t) ∈ crossing (postOf h T) T
      · exact run_crossing_kept run2 (o, t) (by rw [hcs]; exact hcr)
      by_cases hL : Reach.Reachable (refsAtT (preOf h T)) [0] o
      · exact findReachable_gc_keeps hg2 (reach_again hNB hg1 hL) (kept_cur hNB hc hk)
      · -- marked from an extra root
        have hmem : (o, t) ∈ g1.reach := mem_of_lookup hl
        rw [run1.hreach] at hmem
        have h3 : (o, t) ∈ run1.ext3 := by
          rcases List.mem_append.1 hmem with hm | hm
          · rcases List.mem_append.1 hm with hm | hm
            · exact absurd ((run_r1 run1).1 _ hm).2 hL
            · exact absurd (run_ext2 run1 _ hm) hcr
          · exact hm
        obtain ⟨hnk, _, e, he, hra⟩ := (run_phase3 run1).1 _ h3
        obtain ⟨t2, r2, hc2, hl2⟩ := hW e he o hra hnk (by simp [hc])
        rw [kept_cur hNB hc hk] at hc2
        injection hc2 with hc2; injection hc2 with h1 _
        subst h1
        simp [GC.isReachable, hl2]
  apply copyPre_self
  intro t' ht'
  obtain ⟨hpk, hne, hnd, hbk, t, _, etid, hrecs⟩ := copyPre_shape ht'
  refine ⟨hpk, hne, hnd, ?_⟩
  intro r' hr'
  refine ⟨hbk r' hr', ?_⟩
  obtain ⟨r, _, er, hk⟩ := hrecs r' hr'
  rw [etid, er]
  exact keep_again _ _ hk

/-- packing again to the same or an earlier time with the same gc flag changes nothing -/
theorem packFS_repack_ok {h h' : History} {T T' : Tid} {gc : Bool} (hs : Sorted h) (hb : BackOK h)
    (hNB : NoBackToTombstone h T) (hp : packFS h T gc = .ok h') (hle : T' ≤ T) :
    (packFS h' T' gc).hist h' = h' := by
  cases gc with
  | false => exact packFS_repack_nogc hs hNB hp hle
  | true => exact packFS_repack_gc hs hb hNB hp hle

/-- … whatever the outcome of the first call when the time is the same -/
theorem packFS_idem {h : History} {T : Tid} {gc : Bool} (hs : Sorted h) (hb : BackOK h)
    (hNB : NoBackToTombstone h T) :
    (packFS ((packFS h T gc).hist h) T gc).hist ((packFS h T gc).hist h) = (packFS h T gc).hist h := by
  cases hp : packFS h T gc with
  | ok h' => exact packFS_repack_ok hs hb hNB hp (Nat.le_refl T)
  | noop => simp only [PackOut.hist, hp]
  | redundant => simp only [PackOut.hist, hp]
  | error e => simp only [PackOut.hist, hp]

end Proofs.Pack
