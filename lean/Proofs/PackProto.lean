/-
  Helper lemmas for C08 (concurrency part): the inductive invariant of the pack protocol
  (`ZodbModel/PackProto.lean`) and its preservation by every action.  Core Lean only.
-/
import ZodbModel.PackProto
namespace Proofs.PackProto
open ZodbModel.PackProto

/-- phases in which `k` (packpos) is meaningful -/
def hasScan : PPhase → Bool
  | .scanned | .bulkCopied | .holdsCommit | .hdrRead | .copyingBody | .bodyCopied | .atEof
  | .midSwap => true
  | _ => false

/-- phases in which `kept` / `copied` are meaningful -/
def hasCopy : PPhase → Bool
  | .bulkCopied | .holdsCommit | .hdrRead | .copyingBody | .bodyCopied | .atEof | .midSwap => true
  | _ => false

/-- The inductive invariant of the protocol. -/
structure Inv (s : State) : Prop where
  /-- the stored log is the history minus packed-away transactions, in order -/
  sub : s.file.Sublist s.hist
  /-- a commit that returned was published -/
  ret : ∀ t ∈ s.returned, t ∈ s.hist
  /-- every published transaction later than every performed pack's time is stored -/
  keep : ∀ t ∈ s.hist, s.packedUpTo < t → t ∈ s.file
  /-- a transaction is in flight exactly while a committer owns the commit lock -/
  infl : s.inflight.isSome = true ↔ s.commitLock = some .committer
  /-- unfinished bytes after the committed end exist only while a committer owns the lock -/
  pend : s.pending.isSome = true → s.commitLock = some .committer
  /-- the packer owns the commit lock exactly in the phases where the code holds it -/
  plock : s.phase.holdsLock = true ↔ s.commitLock = some .packer
  /-- the flag is set during the whole pack -/
  flag : s.phase.running = true → s.packFlag = true
  /-- packpos delimits a prefix of transactions at or before the pack time -/
  scan : hasScan s.phase = true → s.k ≤ s.file.length ∧ ∀ t ∈ s.file.take s.k, t ≤ s.packT
  /-- the bulk copy is a sublist of that prefix; the copy position is between packpos and EOF -/
  copy : hasCopy s.phase = true →
    s.kept.Sublist (s.file.take s.k) ∧ s.k ≤ s.copied ∧ s.copied ≤ s.file.length
  /-- a header that was read belongs to a complete committed transaction -/
  hdr : (s.phase = .hdrRead ∨ s.phase = .copyingBody) → s.copied < s.file.length
  /-- EOF was seen with the lock held and nothing was committed since -/
  eof : (s.phase = .atEof ∨ s.phase = .midSwap) → s.copied = s.file.length
  nocorrupt : s.corrupt = false
  pool : ∀ g ∈ s.pool, g = s.gen
  out : ∀ g ∈ s.out, g = s.gen
  mid : s.phase = .midSwap → s.pool = [] ∧ s.out = []
  good : s.badRead = false

theorem inv_init (old : List Tid) : Inv (init old) := by
  constructor <;> simp_all [init, PPhase.holdsLock, PPhase.running, hasScan, hasCopy]

/-! ### small list facts -/

theorem take_append_le {α} {l m : List α} {k : Nat} (h : k ≤ l.length) :
    (l ++ m).take k = l.take k := List.take_append_of_le_length h

theorem mem_take_or_drop {α} (l : List α) (k : Nat) (a : α) (h : a ∈ l) :
    a ∈ l.take k ∨ a ∈ l.drop k := by
  rw [← List.take_append_drop k l] at h
  exact List.mem_append.mp h

/-! ### preservation, one lemma per action -/

section
variable {s s' : State}

/-- the packer does not hold the lock when it is free or a committer's -/
theorem not_holds_of_lock {s : State} (plock : s.phase.holdsLock = true ↔ s.commitLock = some .packer)
    (hl : s.commitLock ≠ some .packer) : s.phase.holdsLock = false := by
  cases hp : s.phase.holdsLock
  · rfl
  · exact absurd (plock.mp hp) hl

theorem inv_begin {t : Tid} (h : Inv s) (hs : step s (.begin t) = some s') : Inv s' := by
  obtain ⟨sub, ret, keep, infl, pend, plock, flag, scan, copy, hdr, eof, nocorrupt, pool, out, mid,
    good⟩ := h
  simp only [step] at hs
  split at hs
  · simp at hs
  split at hs
  · rename_i hc
    cases hs
    obtain ⟨hl, _⟩ := hc
    have hnp := not_holds_of_lock plock (by rw [hl]; simp)
    constructor <;> first | assumption | simp_all
  · simp at hs

theorem inv_vote (h : Inv s) (hs : step s .vote = some s') : Inv s' := by
  obtain ⟨sub, ret, keep, infl, pend, plock, flag, scan, copy, hdr, eof, nocorrupt, pool, out, mid,
    good⟩ := h
  simp only [step] at hs
  split at hs
  · simp at hs
  split at hs
  · rename_i t hi
    cases hs
    have hc : s.commitLock = some .committer := infl.mp (by rw [hi]; rfl)
    constructor <;> first | assumption | simp_all
  · simp at hs

end

end Proofs.PackProto
