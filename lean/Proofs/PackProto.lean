/-
  Helper lemmas for C08 (concurrency part): the inductive invariant of the pack protocol
  (`ZodbModel/PackProto.lean`) and its preservation by every action.  Core Lean only.
-/
import ZodbModel.PackProto
namespace Proofs.PackProto
open ZodbModel.PackProto

/-- phases in which `k` (packpos) is meaningful -/
def hasScan : PPhase → Bool
  | .scanned | .bulkCopied | .holdsCommit | .hdrRead | .copyingBody | .bodyCopied | .atEof
  | .midSwap => true
  | _ => false

/-- phases in which `kept` / `copied` are meaningful -/
def hasCopy : PPhase → Bool
  | .bulkCopied | .holdsCommit | .hdrRead | .copyingBody | .bodyCopied | .atEof | .midSwap => true
  | _ => false

/-- The inductive invariant of the protocol. -/
structure Inv (s : State) : Prop where
  /-- the stored log is the history minus packed-away transactions, in order -/
  sub : s.file.Sublist s.hist
  /-- a commit that returned was published -/
  ret : ∀ t ∈ s.returned, t ∈ s.hist
  /-- every published transaction later than every performed pack's time is stored -/
  keep : ∀ t ∈ s.hist, s.packedUpTo < t → t ∈ s.file
  /-- a transaction is in flight exactly while a committer owns the commit lock -/
  infl : s.inflight.isSome = true ↔ s.commitLock = some .committer
  /-- unfinished bytes after the committed end exist only while a committer owns the lock -/
  pend : s.pending.isSome = true → s.commitLock = some .committer
  /-- the packer owns the commit lock exactly in the phases where the code holds it -/
  plock : s.phase.holdsLock = true ↔ s.commitLock = some .packer
  /-- the flag is set during the whole pack -/
  flag : s.phase.running = true → s.packFlag = true
  /-- packpos delimits a prefix of transactions at or before the pack time -/
  scan : hasScan s.phase = true → s.k ≤ s.file.length ∧ ∀ t ∈ s.file.take s.k, t ≤ s.packT
  /-- the bulk copy is a sublist of that prefix; the copy position is between packpos and EOF -/
  copy : hasCopy s.phase = true →
    s.kept.Sublist (s.file.take s.k) ∧ s.k ≤ s.copied ∧ s.copied ≤ s.file.length
  /-- a header that was read belongs to a complete committed transaction -/
  hdr : (s.phase = .hdrRead ∨ s.phase = .copyingBody) → s.copied < s.file.length
  /-- EOF was seen with the lock held and nothing was committed since -/
  eof : (s.phase = .atEof ∨ s.phase = .midSwap) → s.copied = s.file.length
  nocorrupt : s.corrupt = false
  pool : ∀ g ∈ s.pool, g = s.gen
  out : ∀ g ∈ s.out, g = s.gen
  mid : s.phase = .midSwap → s.pool = [] ∧ s.out = []
  good : s.badRead = false

theorem inv_init (old : List Tid) : Inv (init old) := by
  constructor <;> simp_all [init, PPhase.holdsLock, PPhase.running, hasScan, hasCopy]

/-! ### small list facts -/

theorem take_append_le {α} {l m : List α} {k : Nat} (h : k ≤ l.length) :
    (l ++ m).take k = l.take k := List.take_append_of_le_length h

theorem mem_take_or_drop {α} (l : List α) (k : Nat) (a : α) (h : a ∈ l) :
    a ∈ l.take k ∨ a ∈ l.drop k := by
  rw [← List.take_append_drop k l] at h
  exact List.mem_append.mp h

/-! ### preservation, one lemma per action -/

section
variable {s s' : State}

/-- the packer does not hold the lock when it is free or a committer's -/
theorem not_holds_of_lock {s : State} (plock : s.phase.holdsLock = true ↔ s.commitLock = some .packer)
    (hl : s.commitLock ≠ some .packer) : s.phase.holdsLock = false := by
  cases hp : s.phase.holdsLock
  · rfl
  · exact absurd (plock.mp hp) hl

theorem inv_begin {t : Tid} (h : Inv s) (hs : step s (.begin t) = some s') : Inv s' := by
  obtain ⟨sub, ret, keep, infl, pend, plock, flag, scan, copy, hdr, eof, nocorrupt, pool, out, mid,
    good⟩ := h
  simp only [step] at hs
  split at hs
  · rename_i hc
    cases hs
    obtain ⟨hl, _⟩ := hc
    have hnp := not_holds_of_lock plock (by rw [hl]; simp)
    constructor <;> first | assumption | simp_all
  · simp at hs

theorem inv_vote (h : Inv s) (hs : step s .vote = some s') : Inv s' := by
  obtain ⟨sub, ret, keep, infl, pend, plock, flag, scan, copy, hdr, eof, nocorrupt, pool, out, mid,
    good⟩ := h
  simp only [step] at hs
  split at hs
  · rename_i t hi
    cases hs
    have hc : s.commitLock = some .committer := infl.mp (by rw [hi]; rfl)
    constructor <;> first | assumption | simp_all
  · simp at hs

theorem hasScan_of_hasCopy {p : PPhase} (h : hasCopy p = true) : hasScan p = true := by
  cases p <;> simp_all [hasCopy, hasScan]

theorem inv_finish (h : Inv s) (hs : step s .finish = some s') : Inv s' := by
  obtain ⟨sub, ret, keep, infl, pend, plock, flag, scan, copy, hdr, eof, nocorrupt, pool, out, mid,
    good⟩ := h
  simp only [step] at hs
  split at hs
  · rename_i t hi
    cases hs
    have hc : s.commitLock = some .committer := infl.mp (by rw [hi]; rfl)
    have hnp := not_holds_of_lock plock (by rw [hc]; simp)
    constructor
    · exact List.Sublist.append sub (List.Sublist.refl _)
    · intro u hu; exact List.mem_append_left _ (ret u hu)
    · intro u hu hlt
      rcases List.mem_append.mp hu with hu | hu
      · exact List.mem_append_left _ (keep u hu hlt)
      · exact List.mem_append_right _ hu
    · simp
    · simp
    · simp [hnp]
    · exact flag
    · intro hp
      obtain ⟨h1, h2⟩ := scan hp
      refine ⟨by simp; omega, ?_⟩
      show ∀ u ∈ (s.file ++ [t]).take s.k, u ≤ s.packT
      rw [take_append_le h1]; exact h2
    · intro hp
      obtain ⟨h1, h2, h3⟩ := copy hp
      have hk := (scan (hasScan_of_hasCopy hp)).1
      refine ⟨?_, h2, by simp; omega⟩
      show s.kept.Sublist ((s.file ++ [t]).take s.k)
      rw [take_append_le hk]; exact h1
    · intro hp; have := hdr hp; simp; omega
    · intro hp
      rcases hp with hp | hp <;> (have hp' : s.phase = _ := hp; simp [hp', PPhase.holdsLock] at hnp)
    · exact nocorrupt
    · exact pool
    · exact out
    · exact mid
    · exact good
  · simp at hs

theorem inv_abort (h : Inv s) (hs : step s .abort = some s') : Inv s' := by
  obtain ⟨sub, ret, keep, infl, pend, plock, flag, scan, copy, hdr, eof, nocorrupt, pool, out, mid,
    good⟩ := h
  simp only [step] at hs
  split at hs
  · rename_i x hi
    cases hs
    have hc : s.commitLock = some .committer := infl.mp (by rw [hi]; rfl)
    have hnp := not_holds_of_lock plock (by rw [hc]; simp)
    constructor <;> first | assumption | simp_all
  · simp at hs

theorem inv_ret {t : Tid} (h : Inv s) (hs : step s (.ret t) = some s') : Inv s' := by
  obtain ⟨sub, ret, keep, infl, pend, plock, flag, scan, copy, hdr, eof, nocorrupt, pool, out, mid,
    good⟩ := h
  simp only [step] at hs
  split at hs
  · rename_i hc
    cases hs
    constructor <;> first | assumption | skip
    intro u hu
    rcases List.mem_append.mp hu with hu | hu
    · exact ret u hu
    · simp at hu; subst hu; exact hc.1
  · simp at hs

theorem inv_packStart {T : Tid} (h : Inv s) (hs : step s (.packStart T) = some s') : Inv s' := by
  obtain ⟨sub, ret, keep, infl, pend, plock, flag, scan, copy, hdr, eof, nocorrupt, pool, out, mid,
    good⟩ := h
  simp only [step] at hs
  split at hs
  · rename_i hc
    cases hs
    obtain ⟨hf, hr⟩ := hc
    have hph : s.phase = .idle ∨ s.phase = .done := by
      cases hp : s.phase <;> simp_all [PPhase.running]
    have hnl : s.commitLock ≠ some .packer := by
      intro hl
      have := plock.mpr hl
      rcases hph with hp | hp <;> simp [hp, PPhase.holdsLock] at this
    constructor <;> first | assumption | simp_all [PPhase.holdsLock, PPhase.running, hasScan, hasCopy]
  · simp at hs

theorem inv_packRefused (h : Inv s) (hs : step s .packRefused = some s') : Inv s' := by
  simp only [step] at hs
  split at hs
  · cases hs; exact h
  · simp at hs

theorem inv_scan {k : Nat} (h : Inv s) (hs : step s (.scan k) = some s') : Inv s' := by
  obtain ⟨sub, ret, keep, infl, pend, plock, flag, scan, copy, hdr, eof, nocorrupt, pool, out, mid,
    good⟩ := h
  simp only [step] at hs
  split at hs
  · rename_i hc
    cases hs
    obtain ⟨hp, hk, hT⟩ := hc
    constructor <;> first | assumption | simp_all [PPhase.holdsLock, PPhase.running, hasScan, hasCopy]
  · simp at hs

theorem inv_bulkCopy {kept : List Tid} (h : Inv s) (hs : step s (.bulkCopy kept) = some s') :
    Inv s' := by
  obtain ⟨sub, ret, keep, infl, pend, plock, flag, scan, copy, hdr, eof, nocorrupt, pool, out, mid,
    good⟩ := h
  simp only [step] at hs
  split at hs
  · rename_i hc
    cases hs
    obtain ⟨hp, hk⟩ := hc
    have hsc := scan (by rw [hp]; rfl)
    constructor <;> first | assumption | simp_all [PPhase.holdsLock, PPhase.running, hasScan, hasCopy]
  · simp at hs

theorem inv_packNoop (h : Inv s) (hs : step s .packNoop = some s') : Inv s' := by
  obtain ⟨sub, ret, keep, infl, pend, plock, flag, scan, copy, hdr, eof, nocorrupt, pool, out, mid,
    good⟩ := h
  simp only [step] at hs
  split at hs
  · rename_i hc
    cases hs
    rcases hc with hp | hp <;>
    (constructor <;> first | assumption | simp_all [PPhase.holdsLock, PPhase.running, hasScan, hasCopy])
  · simp at hs

theorem inv_acquireCommit (h : Inv s) (hs : step s .acquireCommit = some s') : Inv s' := by
  obtain ⟨sub, ret, keep, infl, pend, plock, flag, scan, copy, hdr, eof, nocorrupt, pool, out, mid,
    good⟩ := h
  simp only [step] at hs
  split at hs
  · rename_i hc
    cases hs
    obtain ⟨hp, hl⟩ := hc
    have hi : s.inflight.isSome = false := by
      cases hx : s.inflight.isSome
      · rfl
      · have := infl.mp hx; rw [hl] at this; cases this
    have hpe : s.pending.isSome = false := by
      cases hx : s.pending.isSome
      · rfl
      · have := pend hx; rw [hl] at this; cases this
    have hsc := scan (by rw [hp]; rfl)
    have hcp := copy (by rw [hp]; rfl)
    constructor <;> first | assumption | simp_all [PPhase.holdsLock, PPhase.running, hasScan, hasCopy]
  · simp at hs

theorem inv_reacquire (h : Inv s) (hs : step s .reacquire = some s') : Inv s' := by
  obtain ⟨sub, ret, keep, infl, pend, plock, flag, scan, copy, hdr, eof, nocorrupt, pool, out, mid,
    good⟩ := h
  simp only [step] at hs
  split at hs
  · rename_i hc
    cases hs
    obtain ⟨hp, hl⟩ := hc
    have hi : s.inflight.isSome = false := by
      cases hx : s.inflight.isSome
      · rfl
      · have := infl.mp hx; rw [hl] at this; cases this
    have hpe : s.pending.isSome = false := by
      cases hx : s.pending.isSome
      · rfl
      · have := pend hx; rw [hl] at this; cases this
    have hsc := scan (by rw [hp]; rfl)
    have hcp := copy (by rw [hp]; rfl)
    constructor <;> first | assumption | simp_all [PPhase.holdsLock, PPhase.running, hasScan, hasCopy]
  · simp at hs

/-- while the packer owns the commit lock, nothing is in flight and no unfinished bytes exist -/
theorem quiescent_of_packer_lock (h : Inv s) (hl : s.commitLock = some .packer) :
    s.inflight = none ∧ s.pending = none := by
  constructor
  · cases hx : s.inflight with
    | none => rfl
    | some x => have := h.infl.mp (by rw [hx]; rfl); rw [hl] at this; cases this
  · cases hx : s.pending with
    | none => rfl
    | some x => have := h.pend (by rw [hx]; rfl); rw [hl] at this; cases this

theorem inv_readHdr (h : Inv s) (hs : step s .readHdr = some s') : Inv s' := by
  have hq := fun hl => quiescent_of_packer_lock h hl
  obtain ⟨sub, ret, keep, infl, pend, plock, flag, scan, copy, hdr, eof, nocorrupt, pool, out, mid,
    good⟩ := h
  simp only [step] at hs
  split at hs
  · rename_i hp
    have hl : s.commitLock = some .packer := plock.mp (by rw [hp]; rfl)
    obtain ⟨hi, hpe⟩ := hq hl
    have hsc := scan (by rw [hp]; rfl)
    have hcp := copy (by rw [hp]; rfl)
    split at hs
    · cases hs
      constructor <;> first | assumption | simp_all [PPhase.holdsLock, PPhase.running, hasScan, hasCopy]
    · rw [hpe] at hs
      cases hs
      constructor <;> first | assumption | simp_all [PPhase.holdsLock, PPhase.running, hasScan, hasCopy]
      omega
  · simp at hs

theorem inv_releaseForBody (h : Inv s) (hs : step s .releaseForBody = some s') : Inv s' := by
  have hq := fun hl => quiescent_of_packer_lock h hl
  obtain ⟨sub, ret, keep, infl, pend, plock, flag, scan, copy, hdr, eof, nocorrupt, pool, out, mid,
    good⟩ := h
  simp only [step] at hs
  split at hs
  · rename_i hp
    cases hs
    have hl : s.commitLock = some .packer := plock.mp (by rw [hp]; rfl)
    obtain ⟨hi, hpe⟩ := hq hl
    have hsc := scan (by rw [hp]; rfl)
    have hcp := copy (by rw [hp]; rfl)
    have hh := hdr (Or.inl hp)
    constructor <;> first | assumption | simp_all [PPhase.holdsLock, PPhase.running, hasScan, hasCopy]
  · simp at hs

theorem inv_copyBody (h : Inv s) (hs : step s .copyBody = some s') : Inv s' := by
  obtain ⟨sub, ret, keep, infl, pend, plock, flag, scan, copy, hdr, eof, nocorrupt, pool, out, mid,
    good⟩ := h
  simp only [step] at hs
  split at hs
  · rename_i hp
    cases hs
    have hsc := scan (by rw [hp]; rfl)
    have hcp := copy (by rw [hp]; rfl)
    have hh := hdr (Or.inr hp)
    constructor <;> first | assumption | simp_all [PPhase.holdsLock, PPhase.running, hasScan, hasCopy]
    omega
  · simp at hs

theorem inv_swapBegin (h : Inv s) (hs : step s .swapBegin = some s') : Inv s' := by
  obtain ⟨sub, ret, keep, infl, pend, plock, flag, scan, copy, hdr, eof, nocorrupt, pool, out, mid,
    good⟩ := h
  simp only [step] at hs
  split at hs
  · rename_i hc
    cases hs
    obtain ⟨hp, ho⟩ := hc
    have hsc := scan (by rw [hp]; rfl)
    have hcp := copy (by rw [hp]; rfl)
    have he := eof (Or.inl hp)
    constructor <;> first | assumption | simp_all [PPhase.holdsLock, PPhase.running, hasScan, hasCopy]
  · simp at hs

theorem inv_swapEnd (h : Inv s) (hs : step s .swapEnd = some s') : Inv s' := by
  obtain ⟨sub, ret, keep, infl, pend, plock, flag, scan, copy, hdr, eof, nocorrupt, pool, out, mid,
    good⟩ := h
  simp only [step] at hs
  split at hs
  · rename_i hp
    cases hs
    obtain ⟨hk, hT⟩ := scan (by rw [hp]; rfl)
    obtain ⟨hkept, hkc, hcl⟩ := copy (by rw [hp]; rfl)
    have he := eof (Or.inr hp)
    obtain ⟨hpool, hout⟩ := mid hp
    have hl : s.commitLock = some .packer := plock.mp (by rw [hp]; rfl)
    have htake : s.file.take s.copied = s.file := List.take_of_length_le (by omega)
    have hsub : (s.kept ++ (s.file.take s.copied).drop s.k).Sublist s.file := by
      rw [htake]
      have := List.Sublist.append hkept (List.Sublist.refl (s.file.drop s.k))
      rwa [List.take_append_drop] at this
    constructor
    · exact hsub.trans sub
    · exact ret
    · intro t ht hlt
      have hlt' : s.packedUpTo < t ∧ s.packT < t := Nat.max_lt.mp hlt
      have hf := keep t ht hlt'.1
      show t ∈ s.kept ++ (s.file.take s.copied).drop s.k
      rw [htake]
      rcases mem_take_or_drop s.file s.k t hf with h1 | h1
      · exact absurd (Nat.lt_of_lt_of_le hlt'.2 (hT t h1)) (Nat.lt_irrefl _)
      · exact List.mem_append_right _ h1
    · exact infl
    · exact pend
    · simp [PPhase.holdsLock, hl]
    · exact fun _ => flag (by rw [hp]; rfl)
    · intro hx; simp [hasScan] at hx
    · intro hx; simp [hasCopy] at hx
    · intro hx; simp at hx
    · intro hx; simp at hx
    · exact nocorrupt
    · rw [hpool]; simp
    · rw [hout]; simp
    · intro hx; simp at hx
    · exact good
  · simp at hs

theorem inv_releaseCommit (h : Inv s) (hs : step s .releaseCommit = some s') : Inv s' := by
  have hq := fun hl => quiescent_of_packer_lock h hl
  obtain ⟨sub, ret, keep, infl, pend, plock, flag, scan, copy, hdr, eof, nocorrupt, pool, out, mid,
    good⟩ := h
  simp only [step] at hs
  split at hs
  · rename_i hp
    cases hs
    have hl : s.commitLock = some .packer := plock.mp (by rw [hp]; rfl)
    obtain ⟨hi, hpe⟩ := hq hl
    constructor <;> first | assumption | simp_all [PPhase.holdsLock, PPhase.running, hasScan, hasCopy]
  · simp at hs

theorem inv_clearFlag (h : Inv s) (hs : step s .clearFlag = some s') : Inv s' := by
  obtain ⟨sub, ret, keep, infl, pend, plock, flag, scan, copy, hdr, eof, nocorrupt, pool, out, mid,
    good⟩ := h
  simp only [step] at hs
  split at hs
  · rename_i hp
    cases hs
    constructor <;> first | assumption | simp_all [PPhase.holdsLock, PPhase.running, hasScan, hasCopy]
  · simp at hs

theorem inv_packFail (h : Inv s) (hs : step s .packFail = some s') : Inv s' := by
  have hq := fun hl => quiescent_of_packer_lock h hl
  obtain ⟨sub, ret, keep, infl, pend, plock, flag, scan, copy, hdr, eof, nocorrupt, pool, out, mid,
    good⟩ := h
  simp only [step] at hs
  split at hs
  · rename_i hp
    cases hs
    by_cases hl : s.commitLock = some .packer
    · obtain ⟨hi, hpe⟩ := hq hl
      constructor <;> first | assumption | simp_all [PPhase.holdsLock, PPhase.running, hasScan, hasCopy]
    · constructor <;> first | assumption | simp_all [PPhase.holdsLock, PPhase.running, hasScan, hasCopy]
  · simp at hs

theorem inv_readerGet (h : Inv s) (hs : step s .readerGet = some s') : Inv s' := by
  obtain ⟨sub, ret, keep, infl, pend, plock, flag, scan, copy, hdr, eof, nocorrupt, pool, out, mid,
    good⟩ := h
  simp only [step] at hs
  split at hs
  · simp at hs
  rename_i hp
  split at hs
  · rename_i g rest hpl
    cases hs
    have hg : g = s.gen := pool g (by rw [hpl]; simp)
    have hrest : ∀ x ∈ rest, x = s.gen := fun x hx => pool x (by rw [hpl]; simp [hx])
    constructor <;> first | assumption | simp_all
    exact out
  · rename_i hpl
    cases hs
    constructor <;> first | assumption | simp_all
    exact out

theorem inv_readerRead {g : Nat} (h : Inv s) (hs : step s (.readerRead g) = some s') : Inv s' := by
  obtain ⟨sub, ret, keep, infl, pend, plock, flag, scan, copy, hdr, eof, nocorrupt, pool, out, mid,
    good⟩ := h
  simp only [step] at hs
  split at hs
  · rename_i hg
    cases hs
    have := out g hg
    constructor <;> first | assumption | simp_all
  · simp at hs

theorem inv_readerPut {g : Nat} (h : Inv s) (hs : step s (.readerPut g) = some s') : Inv s' := by
  obtain ⟨sub, ret, keep, infl, pend, plock, flag, scan, copy, hdr, eof, nocorrupt, pool, out, mid,
    good⟩ := h
  simp only [step] at hs
  split at hs
  · rename_i hg
    cases hs
    have hgg := out g hg
    have hne : s.phase ≠ .midSwap := by
      intro hp; have := (mid hp).2; rw [this] at hg; simp at hg
    have hout' : ∀ x ∈ s.out.erase g, x = s.gen := fun x hx => out x (List.mem_of_mem_erase hx)
    constructor <;> first | assumption | simp_all
  · simp at hs

/-- every action preserves the invariant -/
theorem inv_step {a : Act} (h : Inv s) (hs : step s a = some s') : Inv s' := by
  cases a with
  | begin t => exact inv_begin h hs
  | vote => exact inv_vote h hs
  | finish => exact inv_finish h hs
  | abort => exact inv_abort h hs
  | ret t => exact inv_ret h hs
  | packStart T => exact inv_packStart h hs
  | packRefused => exact inv_packRefused h hs
  | scan k => exact inv_scan h hs
  | bulkCopy kept => exact inv_bulkCopy h hs
  | packNoop => exact inv_packNoop h hs
  | acquireCommit => exact inv_acquireCommit h hs
  | readHdr => exact inv_readHdr h hs
  | releaseForBody => exact inv_releaseForBody h hs
  | copyBody => exact inv_copyBody h hs
  | reacquire => exact inv_reacquire h hs
  | swapBegin => exact inv_swapBegin h hs
  | swapEnd => exact inv_swapEnd h hs
  | releaseCommit => exact inv_releaseCommit h hs
  | clearFlag => exact inv_clearFlag h hs
  | packFail => exact inv_packFail h hs
  | readerGet => exact inv_readerGet h hs
  | readerRead g => exact inv_readerRead h hs
  | readerPut g => exact inv_readerPut h hs

theorem inv_run {acts : List Act} (h : Inv s) (hr : run s acts = some s') : Inv s' := by
  induction acts generalizing s with
  | nil => simp [run] at hr; subst hr; exact h
  | cons a as ih =>
    simp only [run] at hr
    split at hr
    · rename_i s1 hs1
      exact ih (inv_step h hs1) hr
    · simp at hr

end

theorem reachable_inv {s : State} (h : Reachable s) : Inv s := by
  obtain ⟨old, acts, hr⟩ := h
  exact inv_run (inv_init old) hr

/-! ### consequences used by `Props/C08.lean` -/

/-- a refused second pack: while a pack runs `packStart` is not enabled, the refusal is, and it
    changes nothing -/
theorem second_refused {s : State} (h : Inv s) (hr : s.phase.running = true) (T : Tid) :
    step s (.packStart T) = none ∧ step s .packRefused = some s := by
  have hf := h.flag hr
  simp [step, hf]

/-- effect of a failing pack -/
theorem packFail_eq {s s' : State} (hs : step s .packFail = some s') :
    s.phase.canFail = true ∧
    s' = { s with phase := .idle, packFlag := false,
                  commitLock := if s.commitLock = some .packer then none else s.commitLock } := by
  simp only [step] at hs
  split at hs
  · rename_i hp
    cases hs
    exact ⟨hp, rfl⟩
  · simp at hs

/-- when nobody owns the commit lock a committer can begin -/
theorem begin_enabled {s : State} (hl : s.commitLock = none) {t : Tid} (ht : ∀ u ∈ s.hist, u < t) :
    ∃ s', step s (.begin t) = some s' := by
  simp only [step]
  rw [if_pos ⟨hl, ht⟩]
  exact ⟨_, rfl⟩

/-- `packedUpTo` moves only at a swap, to the maximum with that pack's time -/
theorem packedUpTo_step {s s' : State} {a : Act} (hs : step s a = some s') :
    (a ≠ .swapEnd → s'.packedUpTo = s.packedUpTo) ∧
    (a = .swapEnd → s'.packedUpTo = max s.packedUpTo s.packT) := by
  cases a <;> simp only [step] at hs <;>
    (try split at hs) <;> (try split at hs) <;> (try split at hs) <;>
    first
    | (cases hs; simp)
    | (simp at hs)

/-- exactly what the swap installs -/
theorem swapEnd_file {s s' : State} (h : Inv s) (hs : step s .swapEnd = some s') :
    s'.file = s.kept ++ s.file.drop s.k ∧ s.kept.Sublist (s.file.take s.k) ∧
    (∀ t ∈ s.file.take s.k, t ≤ s.packT) ∧ s'.hist = s.hist ∧ s'.returned = s.returned := by
  simp only [step] at hs
  split at hs
  · rename_i hp
    cases hs
    obtain ⟨hk, hT⟩ := h.scan (by rw [hp]; rfl)
    obtain ⟨hkept, hkc, hcl⟩ := h.copy (by rw [hp]; rfl)
    have he := h.eof (Or.inr hp)
    have htake : s.file.take s.copied = s.file := List.take_of_length_le (by omega)
    refine ⟨?_, hkept, hT, rfl, rfl⟩
    show s.kept ++ (s.file.take s.copied).drop s.k = _
    rw [htake]
  · simp at hs

theorem run_snoc {s s1 s' : State} {acts : List Act} {a : Act} (hr : run s acts = some s1)
    (hs : step s1 a = some s') : run s (acts ++ [a]) = some s' := by
  induction acts generalizing s with
  | nil => simp [run] at hr; subst hr; simp [run, hs]
  | cons b bs ih =>
    simp only [run, List.cons_append] at hr ⊢
    cases h2 : step s b with
    | none => rw [h2] at hr; simp at hr
    | some s2 => rw [h2] at hr; exact ih hr

/-- one more accepted action keeps a state reachable -/
theorem reachable_step {s s' : State} {a : Act} (h : Reachable s) (hs : step s a = some s') :
    Reachable s' := by
  obtain ⟨old, acts, hr⟩ := h
  exact ⟨old, acts ++ [a], run_snoc hr hs⟩

/-- any number of refused pack attempts in a row change nothing -/
theorem refused_repeat {s : State} (hf : s.packFlag = true) (n : Nat) :
    run s (List.replicate n .packRefused) = some s := by
  induction n with
  | zero => rfl
  | succ n ih =>
    have h1 : step s .packRefused = some s := by simp [step, hf]
    simp only [List.replicate_succ, run, h1]
    exact ih

end Proofs.PackProto
