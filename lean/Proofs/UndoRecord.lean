/-
  Helper lemmas for C06, part 2: `_transactionalUndoRecord` (model `undoRecord`) decides exactly as
  the property's per-object reading `specVerdict`, and `loadSerial`/`loadBefore` chase correctly
  through newer transactions.  Core Lean only.
-/
import Proofs.Undo
namespace Proofs.Undo
open ZodbModel ZodbModel.Undo

theorem recAt_mem {F : List Rec} {p : Nat} {c : Rec} (h : recAt F p = some c) : c ∈ F := by
  induction F with
  | nil => simp [recAt] at h
  | cons r F ih =>
    simp only [recAt] at h
    split at h
    · simp_all
    · exact List.mem_cons_of_mem _ (ih h)

theorem recAt_append_gt (N F : List Rec) (p : Nat) (h : F.length < p) :
    recAt (N ++ F) p = recAt N (p - F.length) := by
  induction N with
  | nil =>
    simp only [List.nil_append, recAt]
    cases hc : recAt F p with
    | none => rfl
    | some c => have := (recAt_le_length hc).2; omega
  | cons r N ih =>
    simp only [List.cons_append, recAt, List.length_append]
    by_cases hp : p = N.length + F.length + 1
    · rw [if_pos hp, if_pos (by omega)]
    · rw [if_neg hp, if_neg (by omega), ih]

theorem dataAt_none_of_recAt_none {F : List Rec} {p : Nat} (h : recAt F p = none) :
    dataAt F p = none := by
  induction F with
  | nil => rfl
  | cons r F ih =>
    simp only [recAt] at h
    split at h
    · simp at h
    · rename_i hp
      simp only [dataAt, loadBack, if_neg hp]; exact ih h

/-- back pointers of the view (staged records in front of the file) all point into the file -/
theorem view_back_le {S F : List Rec} (hS : ∀ s ∈ S, ∀ b, s.pl = .back b → b ≤ F.length)
    (hF : BackOK F) {p : Nat} {c : Rec} {b : Nat} (hc : recAt (S ++ F) p = some c)
    (hb : c.pl = .back b) : b ≤ F.length := by
  by_cases hp : p ≤ F.length
  · rw [recAt_append_le S F p hp] at hc
    have := BackOK_recAt hF hc hb; omega
  · rw [recAt_append_gt S F p (by omega)] at hc
    exact hS c (recAt_mem hc) b hb

/-- the current data of `oid` in the view, read the way `_undoDataInfo` + `_loadBack_impl` do -/
theorem dataOf_view {S F : List Rec} (hS : ∀ s ∈ S, ∀ b, s.pl = .back b → b ≤ F.length)
    (hF : BackOK F) (oid : Nat) {c : Rec} (hc : recAt (S ++ F) (lastPos oid (S ++ F)) = some c) :
    dataOf (S ++ F) oid = match c.pl with
                          | .data d => some d
                          | .back b => dataAt F b := by
  rw [dataOf_eq, dataAt_of_recAt (BackOK_append hS hF) hc]
  cases hpl : c.pl with
  | data d => rfl
  | back b =>
    simp only [dataAt]
    rw [loadBack_append_le S F b (view_back_le hS hF hc hpl)]

/-- first half of `_transactionalUndoRecord` in specification terms -/
theorem undoCheck_eq (S F : List Rec) (r : Rec) (pos : Nat)
    (hS : ∀ s ∈ S, ∀ b, s.pl = .back b → b ≤ F.length) (hF : BackOK F) :
    undoCheck S F r pos =
      if sameRev (S ++ F) r.oid pos then some none
      else
        match dataAt F pos, dataOf (S ++ F) r.oid with
        | some ud, some cd =>
          if ud = cd then some none else if r.prev = 0 then none else some (some cd)
        | _, _ => none := by
  by_cases h1 : lastPos r.oid (S ++ F) = pos
  · have hs : sameRev (S ++ F) r.oid pos = true := by simp [sameRev, h1]
    simp [undoCheck, tipos_eq, h1, hs]
  · cases hc : recAt (S ++ F) (lastPos r.oid (S ++ F)) with
    | none =>
      have hs : sameRev (S ++ F) r.oid pos = false := by simp [sameRev, h1, hc]
      have hd : dataOf (S ++ F) r.oid = none := by
        rw [dataOf_eq]; exact dataAt_none_of_recAt_none hc
      simp only [undoCheck, tipos_eq, if_neg h1, undoDataInfo, hc, hs, hd, Bool.false_eq_true, if_false]
      cases dataAt F pos <;> rfl
    | some c =>
      have hd := dataOf_view hS hF r.oid hc
      cases hpl : c.pl with
      | data d =>
        have hs : sameRev (S ++ F) r.oid pos = false := by simp [sameRev, h1, hc, hpl]
        rw [hpl] at hd
        simp only at hd
        simp only [undoCheck, tipos_eq, if_neg h1, undoDataInfo, hc, hpl, hs, hd, Bool.false_eq_true,
          if_false]
        cases hu : loadBack F pos with
        | none => simp [dataAt, hu]
        | some x => simp [dataAt, hu]
      | back b =>
        rw [hpl] at hd
        simp only at hd
        by_cases hb : b = pos
        · have hs : sameRev (S ++ F) r.oid pos = true := by simp [sameRev, hc, hpl, hb]
          simp [undoCheck, tipos_eq, h1, undoDataInfo, hc, hpl, hs, hb]
        · have hs : sameRev (S ++ F) r.oid pos = false := by simp [sameRev, h1, hc, hpl, hb]
          simp only [undoCheck, tipos_eq, if_neg h1, undoDataInfo, hc, hpl, hs, hd, if_neg hb,
            Bool.false_eq_true, if_false]
          cases hu : loadBack F pos with
          | none => simp [dataAt, hu]
          | some x =>
            cases hcur : loadBack F b with
            | none => simp [dataAt, hu, hcur]
            | some y => simp [dataAt, hu, hcur]

/-- `_transactionalUndoRecord` decides exactly as the property's per-object reading.  `hold`: the
    `old` state the resolver receives (`loadSerial(oid, undone tid)`) is the state the undone record
    holds — true for the newest record of an oid in its transaction (`loadSerial_undone` below). -/
theorem undoRecord_eq_spec (resolve : Resolver) (S F : List Rec) (r : Rec) (pos : Nat)
    (hS : ∀ s ∈ S, ∀ b, s.pl = .back b → b ≤ F.length) (hF : BackOK F)
    (hold : loadSerial F r.oid r.tid = dataAt F pos) :
    undoRecord resolve S F r pos =
      verdictPayload r (specVerdict resolve r.oid (sameRev (S ++ F) r.oid pos)
        (dataAt F pos) (dataOf (S ++ F) r.oid) (dataAt F r.prev)) := by
  unfold undoRecord specVerdict
  rw [undoCheck_eq S F r pos hS hF]
  by_cases hs : sameRev (S ++ F) r.oid pos = true
  · simp only [hs, if_true, verdictPayload]
    split <;> simp_all
  · simp only [hs, Bool.false_eq_true, if_false]
    cases hu : dataAt F pos with
    | none => simp [verdictPayload]
    | some ud =>
      cases hc : dataOf (S ++ F) r.oid with
      | none => simp [verdictPayload]
      | some cd =>
        simp only
        by_cases he : ud = cd
        · simp only [he, if_true, verdictPayload]
          split <;> simp_all
        · simp only [he, if_false]
          by_cases hp : r.prev = 0
          · simp [hp, dataAt, loadBack_zero, verdictPayload]
          · simp only [hp, if_false]
            cases hpre : loadBack F r.prev with
            | none => simp [dataAt, hpre, verdictPayload]
            | some x =>
              rw [hold, hu]
              simp only [dataAt, hpre, Option.map_some]
              cases hres : resolve r.oid ud cd x.1 with
              | none => simp [verdictPayload]
              | some m => simp only [verdictPayload]; split <;> rfl

/-! ### chasing `prev` through newer transactions -/

/-- `loadSerial` hits a record with the wanted tid -/
theorem chaseSerial_hit {s : Nat} {H : List Rec} {p : Nat} {c : Rec} (hc : recAt H p = some c)
    (ht : c.tid = s) : chaseSerial s H p = dataAt H p := by
  induction H with
  | nil => simp [recAt] at hc
  | cons r H ih =>
    simp only [recAt] at hc
    by_cases hp : p = H.length + 1
    · rw [if_pos hp] at hc
      simp only [Option.some.injEq] at hc; subst hc
      simp only [chaseSerial, dataAt, loadBack, if_pos hp, ht, if_true, recData]
      cases r.pl <;> simp
    · rw [if_neg hp] at hc
      simp only [chaseSerial, dataAt, loadBack, if_neg hp]
      exact ih hc

/-- records `N` of newer transactions (`tid > s`, `prev` = index entry below them) are walked through -/
theorem chaseSerial_newer (s oid : Nat) (N F : List Rec)
    (hN : ∀ n ∈ N, n.oid = oid → s < n.tid ∧ n.prev = lastPos oid F) :
    chaseSerial s (N ++ F) (lastPos oid (N ++ F)) = chaseSerial s F (lastPos oid F) := by
  induction N with
  | nil => rfl
  | cons n N ih =>
    have ih := ih (fun x hx => hN x (List.mem_cons_of_mem _ hx))
    simp only [List.cons_append, lastPos, chaseSerial]
    by_cases ho : n.oid = oid
    · obtain ⟨h1, h2⟩ := hN n List.mem_cons_self ho
      rw [if_pos ho, if_pos rfl, if_neg (by omega), if_neg (by omega), h2]
      exact chaseSerial_append_le s N F _ (lastPos_le oid F)
    · have := lastPos_le oid (N ++ F)
      rw [if_neg ho, if_neg (by omega), ih]

theorem chaseBefore_rev (b : Nat) (F : List Rec) (p : Nat) (e e' : Option Nat) :
    (chaseBefore b F p e).rev = (chaseBefore b F p e').rev := by
  induction F generalizing p e e' with
  | nil => rfl
  | cons r F ih =>
    simp only [chaseBefore]
    split
    · split
      · cases r.pl with
        | data d => rfl
        | back bp =>
          simp only
          cases loadBack F bp with
          | none => rfl
          | some x => rfl
      · rfl
    · exact ih p e e'

/-- `loadBefore` with a bound `b ≤ utid` walks through records `N` of a transaction `utid` -/
theorem chaseBefore_newer (b oid : Nat) (N F : List Rec) (e : Option Nat)
    (hN : ∀ n ∈ N, n.oid = oid → b ≤ n.tid ∧ n.prev = lastPos oid F) :
    (chaseBefore b (N ++ F) (lastPos oid (N ++ F)) e).rev
      = (chaseBefore b F (lastPos oid F) e).rev := by
  induction N with
  | nil => rfl
  | cons n N ih =>
    have ih := ih (fun x hx => hN x (List.mem_cons_of_mem _ hx))
    simp only [List.cons_append, lastPos, chaseBefore]
    by_cases ho : n.oid = oid
    · obtain ⟨h1, h2⟩ := hN n List.mem_cons_self ho
      rw [if_pos ho, if_pos rfl, if_neg (by omega), h2,
        chaseBefore_append_le b N F _ _ (lastPos_le oid F)]
      exact chaseBefore_rev b F _ _ _
    · have := lastPos_le oid (N ++ F)
      rw [if_neg ho, if_neg (by omega), ih]

end Proofs.Undo
