/-
  Invariant preservation for the actions that touch a single instance and nothing global:
  reopen, close, pollRead, pollApply, read, write, invalidateCache.
-/
import Proofs.MvccInv
namespace Proofs.Mvcc
open ZodbModel.Mvcc

theorem inv_setInst {s : Sys} {i : Nat} {x' : Inst} (hinv : Inv s)
    (hx : InstInv s.log s.infl s.next i x') : Inv (setInst s i x') := by
  refine ⟨hinv.glob, ?_, hinv.hist⟩
  intro j hj
  show InstInv s.log s.infl s.next j (upd s.insts i x' j)
  by_cases h : j = i
  · subst h; rw [upd_same]; exact hx
  · rw [upd_other _ _ _ _ h]; exact hinv.inst j hj

theorem inv_reopen {s s' : Sys} {i : Nat} (hinv : Inv s) (h : step s (.reopen i) = .ok s') : Inv s' := by
  obtain ⟨hi, _, rfl⟩ := reopen_ok h
  have v := hinv.inst i hi
  apply inv_setInst hinv
  exact { v with
    b4 := fun oid ser d hc => by
      rcases v.b4 oid ser d hc with h | h
      · exact Or.inl h
      · exact Or.inr ⟨rfl, h.2⟩
    b5 := fun h => by cases h
    b6 := fun T hT hw => Or.inr rfl }

theorem inv_close {s s' : Sys} {i : Nat} (hinv : Inv s) (h : step s (.close i) = .ok s') : Inv s' := by
  obtain ⟨hi, rfl⟩ := close_ok h
  have v := hinv.inst i hi
  apply inv_setInst hinv
  exact { v with
    b4 := fun oid ser d hc => by
      rcases v.b4 oid ser d hc with h | h
      · exact Or.inl h
      · exact Or.inr ⟨rfl, h.2⟩
    b5 := fun h => by cases h
    b6 := fun T hT hw => Or.inr rfl }

theorem inv_write {s s' : Sys} {i oid : Nat} {d : Data} (hinv : Inv s)
    (h : step s (.write i oid d) = .ok s') : Inv s' := by
  obtain ⟨hi, rfl⟩ := write_ok h
  have v := hinv.inst i hi
  apply inv_setInst hinv
  exact { v with }

theorem inv_invalidateCache {s s' : Sys} {i : Nat} (hinv : Inv s)
    (h : step s (.invalidateCache i) = .ok s') : Inv s' := by
  obtain ⟨hi, rfl⟩ := invalidateCache_ok h
  have v := hinv.inst i hi
  apply inv_setInst hinv
  exact { v with
    a1 := fun _ _ _ _ _ _ _ => trivial
    a2 := fun _ _ _ _ _ _ => trivial }

/-- inside a finish section nobody can read `lastTransaction()`; outside, `c3` bounds `regAt` -/
theorem regAt_le_head {s : Sys} {i : Nat} (v : InstInv s.log s.infl s.next i (s.insts i))
    (hf : isFinishing s = false) : (s.insts i).regAt ≤ headTid s.log := by
  rcases v.c3 with h | ⟨f, hf1, hf2, _⟩
  · exact h
  · simp [isFinishing, finishing, hf1, hf2] at hf

theorem inv_pollRead {s s' : Sys} {i : Nat} (hinv : Inv s) (h : step s (.pollRead i) = .ok s') :
    Inv s' := by
  obtain ⟨hi, _, hfin, rfl⟩ := pollRead_ok h
  have v := hinv.inst i hi
  apply inv_setInst hinv
  exact { v with
    polled_le := fun L hL => by
      simp only [Option.some.injEq] at hL; subst hL; exact Nat.le_refl _
    c4 := fun L hL => by
      simp only [Option.some.injEq] at hL; subst hL; exact regAt_le_head v hfin
    s2 := fun L hL => by
      simp only [Option.some.injEq] at hL; subst hL; exact v.s1 }

end Proofs.Mvcc
