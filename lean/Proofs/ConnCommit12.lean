/-
  Connection model, part 18 (C12): `transaction.commit()` after savepoints: the final savepoint, the
  replay of the temporary store into the storage, `tpc_finish`.
-/
import Proofs.ConnSp
namespace Proofs.Conn
open ZodbModel ZodbModel.Conn

/-- the record the temporary store holds for an oid -/
def tmpRec (src : TmpStore) (k : Nat) : Option Rec :=
  match src.index.get k with
  | some p => src.loadAt k p
  | none => none

/-- the replay loop of `_commit_savepoint` cannot fail when the store is well formed and no conflict
    is possible -/
theorem replay_ok (src : TmpStore) : ∀ (ks : List Nat) (s : State), s.fail = .none →
    (∀ k ∈ ks, ∃ r, tmpRec src k = some r ∧ ∀ c, s.committed.get k = some c → c.serial = r.serial) →
    ∃ (L : List (Nat × Rec)) (n' : Nat),
      replay src s ks = ({ s with nstores := n', staged := s.staged ++ L }, none) ∧
      L.map Prod.fst = ks ∧ ∀ p ∈ L, tmpRec src p.1 = some p.2 := by
  intro ks
  induction ks with
  | nil =>
    intro s _ _
    exact ⟨[], s.nstores, by simp [replay], rfl, by simp⟩
  | cons k rest ih =>
    intro s hf hall
    obtain ⟨r, hr, hser⟩ := hall k List.mem_cons_self
    unfold tmpRec at hr
    cases hp : src.index.get k with
    | none => rw [hp] at hr; cases hr
    | some p =>
      rw [hp] at hr
      simp only at hr
      have hst : storageStore s k r =
          ({ s with nstores := s.nstores + 1, staged := s.staged ++ [(k, r)] }, none) := by
        unfold storageStore
        simp only [hf]
        cases hc : s.committed.get k with
        | none => simp
        | some c => simp [hser c hc]
      obtain ⟨L', n', h1, h2, h3⟩ := ih { s with nstores := s.nstores + 1, staged := s.staged ++ [(k, r)] } hf
        (fun k' hk' => hall k' (List.mem_cons_of_mem _ hk'))
      refine ⟨(k, r) :: L', n', ?_, by simp [h2], ?_⟩
      · simp only [replay, hp, hr, hst, h1]
        simp
      · intro q hq
        rcases List.mem_cons.1 hq with h | h
        · rw [h]; unfold tmpRec; simp only [hp]; exact hr
        · exact h3 q h

/-- `tpc_finish`, field by field -/
theorem tpcFinish_facts (u : State) :
    (connTpcFinish u).cache = u.cache ∧ (connTpcFinish u).added = u.added ∧
    (connTpcFinish u).committed = commitFold (u.lastTid + 1) u.staged u.committed ∧
    (connTpcFinish u).snap = u.snap ∧ (connTpcFinish u).nextOid = u.nextOid ∧
    (connTpcFinish u).sp = u.sp ∧ (connTpcFinish u).sps = u.sps ∧
    (connTpcFinish u).lastTid = u.lastTid + 1 ∧ (connTpcFinish u).opened = u.opened ∧
    (connTpcFinish u).log = (u.lastTid + 1, u.staged.map Prod.fst) :: u.log ∧
    (connTpcFinish u).creating = [] ∧ (connTpcFinish u).registered = [] ∧
    (connTpcFinish u).needsToJoin = true ∧
    (∀ j, (connTpcFinish u).objs j = u.objs j ∨
      ((connTpcFinish u).objs j = { u.objs j with status := .uptodate, serial := u.lastTid + 1 } ∧
        (u.objs j).status ≠ .ghost ∧ ∃ k ∈ u.modified ++ u.creating.keys, u.cache.get k = some j)) := by
  unfold connTpcFinish
  dsimp only
  obtain ⟨f1, f2, _⟩ := finishFold (u.lastTid + 1) (u.modified ++ u.creating.keys)
    { u with committed := commitFold (u.lastTid + 1) u.staged u.committed,
             log := (u.lastTid + 1, u.staged.map Prod.fst) :: u.log,
             lastTid := u.lastTid + 1, staged := [] }
  obtain ⟨c1, c2, c3, c4, c5, c6, c7, c8, c9, c10⟩ := f1
  have hfold : List.foldl (fun (m : Map Rec) (p : Oid × Rec) => m.set p.1 { p.2 with serial := u.lastTid + 1 })
      u.committed u.staged = commitFold (u.lastTid + 1) u.staged u.committed := rfl
  rw [hfold]
  generalize List.foldl (finishOne (u.lastTid + 1))
    { u with committed := commitFold (u.lastTid + 1) u.staged u.committed,
             log := (u.lastTid + 1, u.staged.map Prod.fst) :: u.log,
             lastTid := u.lastTid + 1, staged := [] } (u.modified ++ u.creating.keys) = v at *
  dsimp only at c1 c2 c3 c4 c5 c6 c7 c8 c9 c10 f2
  exact ⟨c1, c2, c3, c4, c5, c6, c7, c8, c9, c10, rfl, rfl, rfl, f2⟩

/-- what `_commit_savepoint` + `tpc_finish` achieve, relative to the state `m` after the final
    `Connection.savepoint` of the commit (temporary store `t'`) -/
structure FinishOk (m : State) (t' : TmpStore) (f : State) : Prop where
  prePoll : PrePoll f
  opened : f.opened = m.opened
  tid : f.lastTid = m.lastTid + 1
  log : f.log = (m.lastTid + 1, t'.index.keys) :: m.log
  stored : ∀ k r, tmpRec t' k = some r → f.committed.get k = some ⟨m.lastTid + 1, r.val, r.refs⟩
  others : ∀ k, t'.index.get k = none → f.committed.get k = m.committed.get k
  cache : f.cache = m.cache
  objs : ∀ j, (f.objs j).oid = (m.objs j).oid ∧ (f.objs j).val = (m.objs j).val ∧
    (f.objs j).refs = (m.objs j).refs ∧ ((f.objs j).status = .ghost ↔ (m.objs j).status = .ghost)

theorem tmpRec_of_index {t' : TmpStore} {m : State} (w : TmpWF m t') {k p : Nat}
    (hp : t'.index.get k = some p) :
    ∃ r, tmpRec t' k = some r ∧ t'.loadAt k p = some r ∧
      (∀ c, m.committed.get k = some c → c.serial = r.serial) := by
  obtain ⟨_, r, hr⟩ := w.idx k p hp
  refine ⟨r, ?_, TmpStore.loadAt_of hr, ?_⟩
  · unfold tmpRec; rw [hp]; exact TmpStore.loadAt_of hr
  · intro c hc; exact ((w.recSerial k p r hp hr).1 c hc).symm

/-- the state in which the replay loop of `_commit_savepoint` starts, and the one in which it ends -/
def preReplay (m : State) (t' : TmpStore) : State :=
  { m with sp := none, modified := m.modified ++ t'.index.keys, creating := m.creating.update t'.creating }

def postReplay (m : State) (t' : TmpStore) (n' : Nat) (L : List (Nat × Rec)) : State :=
  { preReplay m t' with nstores := n', staged := m.staged ++ L }

theorem commitSp_finish {m : State} (h : Inv12 m) {t' : TmpStore} (hsp : m.sp = some t')
    (hf : m.fail = .none) (hst : m.staged = []) (hadd : m.added = [])
    (hnc : ∀ j, (m.objs j).status ≠ .changed) (hsps : m.sps = []) :
    ∃ u, commitSavepoint m = (u, none) ∧ u.fail = .none ∧ FinishOk m t' (connTpcFinish u) := by
  have w := h.tmp t' hsp
  have hkeys : ∀ k ∈ t'.index.keys, ∃ r, tmpRec t' k = some r ∧
      ∀ c, m.committed.get k = some c → c.serial = r.serial := by
    intro k hk
    rw [Map.mem_keys_iff] at hk
    obtain ⟨p, hp⟩ := Option.ne_none_iff_exists'.1 hk
    obtain ⟨r, h1, _, h3⟩ := tmpRec_of_index w hp
    exact ⟨r, h1, h3⟩
  obtain ⟨L, n', hrep, hLk, hLr⟩ := replay_ok t' t'.index.keys (preReplay m t') hf hkeys
  have hcs : commitSavepoint m = (postReplay m t' n' L, none) := by
    unfold commitSavepoint
    rw [hsp]
    exact hrep
  refine ⟨_, hcs, hf, ?_⟩
  obtain ⟨t1, t2, t3, t4, t5, t6, t7, t8, t9, t10, t11, t12, t13, t14⟩ :=
    tpcFinish_facts (postReplay m t' n' L)
  generalize connTpcFinish (postReplay m t' n' L) = f at *
  simp only [postReplay, preReplay] at t1 t2 t3 t4 t5 t6 t7 t8 t9 t10 t14
  rw [hst, List.nil_append] at t3 t10
  have hLmem : ∀ k, (∃ p ∈ L, p.1 = k) ↔ t'.index.get k ≠ none := by
    intro k
    rw [← Map.mem_keys_iff, ← hLk, List.mem_map]
  have hstored : ∀ k r, tmpRec t' k = some r →
      f.committed.get k = some ⟨m.lastTid + 1, r.val, r.refs⟩ := by
    intro k r hr
    rw [t3]
    apply commitFold_mem
    · apply (hLmem k).2
      unfold tmpRec at hr
      cases hi : t'.index.get k with
      | none => rw [hi] at hr; cases hr
      | some p => simp
    · intro p hp hpk
      have := hLr p hp
      rw [hpk, hr] at this
      cases this; exact ⟨rfl, rfl⟩
  have hothers : ∀ k, t'.index.get k = none → f.committed.get k = m.committed.get k := by
    intro k hk
    rw [t3]
    apply commitFold_other
    intro p hp hpk
    exact (hLmem k).1 ⟨p, hp, hpk⟩ hk
  have hobj : ∀ j, (f.objs j).oid = (m.objs j).oid ∧ (f.objs j).jar = (m.objs j).jar ∧
      (f.objs j).val = (m.objs j).val ∧ (f.objs j).refs = (m.objs j).refs ∧
      ((f.objs j).status = .ghost ↔ (m.objs j).status = .ghost) ∧
      ((f.objs j).status = .uptodate → (m.objs j).status = .uptodate) ∧
      ((f.objs j).oid = none → (f.objs j).serial = (m.objs j).serial) := by
    intro j
    rcases t14 j with h1 | ⟨h1, h2, k, _, hk⟩
    · rw [h1]
      exact ⟨rfl, rfl, rfl, rfl, Iff.rfl, fun hh => hh, fun _ => rfl⟩
    · rw [h1]
      refine ⟨rfl, rfl, rfl, rfl, ⟨fun hh => (by cases hh), fun hh => absurd hh h2⟩, ?_, ?_⟩
      · intro _
        cases hs : (m.objs j).status with
        | uptodate => rfl
        | ghost => exact absurd hs h2
        | changed => exact absurd hs (hnc j)
      · intro hn
        have := h.str.cacheS k j hk
        have hn' : (m.objs j).oid = none := hn
        rw [this] at hn'; cases hn'
  have hkeysC : ∀ c k, f.committed.get k = some c →
      m.committed.get k = some c ∨ (t'.index.get k ≠ none ∧ c.serial = m.lastTid + 1) := by
    intro c k hc
    rw [t3] at hc
    rcases commitFold_keys _ _ _ _ _ hc with h1 | ⟨h1, h2⟩
    · exact Or.inl h1
    · exact Or.inr ⟨(hLmem k).1 h1, h2⟩
  refine ⟨?_, t9, t8, by rw [t10, hLk], hstored, hothers, t1,
    fun j => ⟨(hobj j).1, (hobj j).2.2.1, (hobj j).2.2.2.1, (hobj j).2.2.2.2.1⟩⟩
  refine ⟨h.str.transfer (fun j => ⟨(hobj j).1, (hobj j).2.1⟩) t1 (by rw [t2]) (by rw [t5]; exact Nat.le_refl _),
    t6, by rw [t7]; exact hsps, t11, t12, by rw [t2]; exact hadd, t13, ?_, ?_, ?_, ?_, ?_⟩
  · intro j hch
    rcases t14 j with h1 | ⟨h1, _⟩
    · rw [h1] at hch; exact hnc j hch
    · rw [h1] at hch; cases hch
  · intro j hj
    rw [(hobj j).2.2.2.2.2.2 hj]
    exact h.serial0 j (by rw [← (hobj j).1]; exact hj)
  · intro k hk
    rw [t5]
    obtain ⟨c, hc⟩ := Option.ne_none_iff_exists'.1 hk
    rcases hkeysC c k hc with h1 | ⟨h1, _⟩
    · exact h.commFresh k (by rw [h1]; simp)
    · obtain ⟨i, hi⟩ := w.idxCached k h1
      exact h.str.fresh i k (h.str.cacheS k i hi)
  · intro k c hc
    rw [t8]
    rcases hkeysC c k hc with h1 | ⟨_, h1⟩
    · have := h.tidB k c h1; omega
    · omega
  · -- cached objects agree with the committed records
    intro k i hc
    rw [t1] at hc
    obtain ⟨r0, hr0, _, q2⟩ := h.coh k i hc
    cases hx : t'.index.get k with
    | some p =>
      obtain ⟨r, h1, h2, _⟩ := tmpRec_of_index w hx
      refine ⟨_, hstored k r h1, ?_⟩
      intro hu _
      have hr : r0 = r := by
        unfold loadRec at hr0
        rw [hsp] at hr0
        simp only [hx, h2] at hr0
        cases hr0; rfl
      subst hr
      rw [(hobj i).2.2.1, (hobj i).2.2.2.1]
      exact q2 ((hobj i).2.2.2.2.2.1 hu)
    | none =>
      have hcm : m.committed.get k ≠ none := by
        rcases h.owned k i hc with h1 | ⟨t1', ht1, h1⟩
        · exact h1
        · rw [hsp] at ht1; cases ht1
          exact absurd hx (w.crIdx k h1).1
      obtain ⟨c, hcc⟩ := Option.ne_none_iff_exists'.1 hcm
      refine ⟨c, by rw [hothers k hx]; exact hcc, ?_⟩
      intro hu _
      have hr : r0 = c := by
        unfold loadRec at hr0
        rw [hsp] at hr0
        simp only [hx, h.snapEq, hcc] at hr0
        cases hr0; rfl
      subst hr
      rw [(hobj i).2.2.1, (hobj i).2.2.2.1]
      exact q2 ((hobj i).2.2.2.2.2.1 hu)

/-! ### `transaction.commit()` without injected failure -/

/-- the state in which `_commitResources` starts -/
def commitStart12 (s : State) : State := { s with fail := .none, nstores := 0, sps := [] }

theorem txnCommit_none_unjoined {s : State} (hn : s.needsToJoin = true) (bound : Nat) :
    txnCommit bound s .none = (afterCompletion (commitStart12 s), .nothing) := by
  unfold txnCommit commitStart12
  simp [hn, Fail.isRm]

theorem txnCommit_none_joined {s : State} (hj : s.needsToJoin = false) (bound : Nat) :
    txnCommit bound s .none =
      (afterCompletion (commitJoined bound (commitStart12 s)).1, (commitJoined bound (commitStart12 s)).2) := by
  unfold txnCommit commitStart12
  simp [hj]

theorem commitJoined_fail {s1 : State} (hf : s1.fail = .none) (bound : Nat) {e : Err}
    (hr : (connCommit bound (connTpcBegin s1)).2 = some e) :
    commitJoined bound s1 = (cleanup false (connCommit bound (connTpcBegin s1)).1, .failed e) := by
  have h2 : (connTpcBegin s1).fail = .none := hf
  unfold commitJoined
  dsimp only
  rw [if_neg (by rw [hf]; simp), if_neg (by rw [h2]; simp), hr]

theorem commitJoined_ok {s1 : State} (hf : s1.fail = .none) (bound : Nat) {u : State}
    (hr : connCommit bound (connTpcBegin s1) = (u, none)) (hu : u.fail = .none) :
    commitJoined bound s1 = (connTpcFinish u, .committed (connTpcFinish u).lastTid
      (match (connTpcFinish u).log with | (_, oids) :: _ => oids | [] => [])) := by
  have h2 : (connTpcBegin s1).fail = .none := hf
  unfold commitJoined
  dsimp only
  rw [if_neg (by rw [hf]; simp), if_neg (by rw [h2]; simp), hr]
  dsimp only
  rw [if_neg (by rw [hu]; simp), if_neg (by rw [hu]; simp)]
  rfl

theorem connCommit_sp {s2 : State} {t : TmpStore} (hsp : s2.sp = some t) (bound : Nat) :
    connCommit bound s2 = match (connSavepoint bound s2).2 with
      | some e => ((connSavepoint bound s2).1, some e)
      | none => commitSavepoint (connSavepoint bound s2).1 := by
  unfold connCommit; rw [hsp]
  rfl

theorem Inv12.commitStart {s : State} (h : Inv12 s) : Inv12 (commitStart12 s) := by
  refine h.transfer rfl rfl rfl rfl rfl rfl rfl rfl rfl rfl rfl rfl ?_ ?_ List.Pairwise.nil ?_
  · intro t _ p idx cr hm; cases hm
  · intro _ p idx cr hm; cases hm
  · intro _ hm; cases hm

theorem Inv12.tpcBegin {s1 : State} (h : Inv12 s1) : Inv12 (connTpcBegin s1) :=
  h.same rfl rfl rfl rfl rfl (by show [] = s1.creating; rw [h.creatingNil]) rfl rfl rfl rfl rfl rfl rfl

/-- from a state that `_commitResources` left at a transaction boundary to the invariant -/
theorem afterCompletion_of_prePoll12 {f : State} (hp : PrePoll f) (hop : f.opened = true) :
    Inv12 (afterCompletion f) := by
  apply (afterCompletion_of_prePoll hp hop).toInv12
  · rw [afterCompletion_opened]; exact hop
  · obtain ⟨g, _⟩ := afterCompletion_facts f hop
    rw [g.2.2.1, g.2.1]

/-- the commit of a transaction with savepoint storage: either the final savepoint fails, or
    everything is replayed into the storage and finished -/
theorem commitJoined_sp {s : State} (h : Inv12 s) (hj : s.needsToJoin = false) {t : TmpStore}
    (hsp : s.sp = some t) (bound : Nat) :
    (∃ e X, commitJoined bound (commitStart12 s) = (X, .failed e) ∧
      ∃ t0, AbortReady t0 ∧ AbortDone t0 X ∧ X.opened = true) ∨
    (∃ m t' f, SpOk (connTpcBegin (commitStart12 s)) m ∧ m.sp = some t' ∧ FinishOk m t' f ∧
      commitJoined bound (commitStart12 s) =
        (f, .committed f.lastTid (match f.log with | (_, oids) :: _ => oids | [] => []))) := by
  have h2 := h.commitStart.tpcBegin
  have hsp2 : (connTpcBegin (commitStart12 s)).sp = some t := hsp
  have hj2 : (connTpcBegin (commitStart12 s)).needsToJoin = false := hj
  have hc := connCommit_sp hsp2 bound
  cases hr : (connSavepoint bound (connTpcBegin (commitStart12 s))).2 with
  | some e =>
    left
    rw [hr] at hc
    obtain ⟨hr1, hop⟩ := connSavepoint_fail h2 hj2 bound (by rw [hr]; simp)
    refine ⟨e, _, commitJoined_fail rfl bound (by rw [hc]), _, hr1, ?_, ?_⟩
    · rw [hc]; exact cleanup_done hr1
    · rw [hc, (cleanup_done hr1).clean.2.opened]; exact hop
  | none =>
    right
    rw [hr] at hc
    have ok := connSavepoint_spOk h2 hj2 bound hr
    obtain ⟨t', ht', _⟩ := ok.tmp
    obtain ⟨u, hu1, hu2, hfin⟩ := commitSp_finish ok.inv ht' (by rw [ok.fail]; rfl) (by rw [ok.staged]; rfl)
      ok.addedNil ok.noChanged (by rw [ok.sps]; rfl)
    refine ⟨_, t', _, ok, ht', hfin, ?_⟩
    exact commitJoined_ok rfl bound (by rw [hc]; exact hu1) hu2

/-- **`transaction.commit()` keeps the invariant** (whatever its outcome) -/
theorem txnCommit_inv12 {s : State} (h : Inv12 s) (hb : s.begun = false) (bound : Nat) :
    Inv12 (txnCommit bound s .none).1 := by
  by_cases hn : s.needsToJoin = true
  · rw [txnCommit_none_unjoined hn]
    exact afterCompletion_inv12 h.commitStart hn
  · have hj : s.needsToJoin = false := by simpa using hn
    cases hsp : s.sp with
    | none =>
      have h11 := h.toInv11 hsp
      have he : txnCommit bound { s with sps := [] } .none = txnCommit bound s .none := rfl
      have hi := txnCommit_inv11 h11 hb bound .none
      obtain ⟨_, hop⟩ := txnCommit_ntj h11 hb bound .none
      rw [he] at hi hop
      apply hi.toInv12
      · rw [hop]; exact h.opened
      · rw [txnCommit_none_joined hj]
        have h1 : Inv11 (commitStart12 s) := h.commitStart.toInv11 hsp
        obtain ⟨_, hop'⟩ := commitJoined_prePoll h1 hb bound
        obtain ⟨g, _⟩ := afterCompletion_facts (commitJoined bound (commitStart12 s)).1
          (by rw [hop']; exact h.opened)
        show (afterCompletion _).snap = (afterCompletion _).committed
        rw [g.2.2.1, g.2.1]
    | some t =>
      rw [txnCommit_none_joined hj]
      rcases commitJoined_sp h hj hsp bound with ⟨e, X, hX, t0, hr, hd, hop⟩ | ⟨m, t', f, ok, ht', hfin, hX⟩
      · rw [hX]
        exact abortDone_afterCompletion hr hd hop
      · rw [hX]
        apply afterCompletion_of_prePoll12 hfin.prePoll
        rw [hfin.opened, ok.inv.opened]

end Proofs.Conn
