/-
  Helper lemmas for C01/C09: the byte-level encoder and the `read_index` scanner of
  `ZodbModel/Format.lean` — lengths, header/record round trips, torn prefixes.  Core Lean only.
-/
import ZodbModel.Format
namespace Proofs.Format
open ZodbModel ZodbModel.Format

/-! ### list slicing -/

theorem take_append_eq {α} {a b : List α} {n : Nat} (h : a.length = n) : (a ++ b).take n = a := by
  subst h; simp

theorem drop_append_eq {α} {a b : List α} {n : Nat} (h : a.length = n) : (a ++ b).drop n = b := by
  subst h; simp

theorem take_take_le {α} (l : List α) {m n : Nat} (h : m ≤ n) : (l.take n).take m = l.take m := by
  rw [List.take_take, Nat.min_eq_left h]

/-! ### big-endian fields -/

theorem rd_be (n v : Nat) (rest : Bytes) (h : v < 256 ^ n) : rd n (be n v ++ rest) = (v, rest) := by
  simp only [rd, take_append_eq (be_length n v), drop_append_eq (be_length n v), beVal_be n v h]

theorem rd8 (v : Nat) (rest : Bytes) (h : v < 2 ^ 64) : rd 8 (be 8 v ++ rest) = (v, rest) :=
  rd_be 8 v rest (by simpa using h)

theorem rd2 (v : Nat) (rest : Bytes) (h : v < 2 ^ 16) : rd 2 (be 2 v ++ rest) = (v, rest) :=
  rd_be 2 v rest (by simpa using h)

theorem rd1 (v : Nat) (rest : Bytes) (h : v < 256) : rd 1 (be 1 v ++ rest) = (v, rest) :=
  rd_be 1 v rest (by simpa using h)

/-- reading a field never looks at its value range when only the remainder matters -/
theorem rd_snd (n v : Nat) (rest : Bytes) : (rd n (be n v ++ rest)).2 = rest := by
  simp only [rd, drop_append_eq (be_length n v)]

/-! ### lengths -/

@[simp] theorem encodeHdr_length (tid tl st ul dl el : Nat) :
    (encodeHdr tid tl st ul dl el).length = 23 := by
  simp [encodeHdr, be_length]

theorem body_bytes_length (b : Body) (h : BodyWF b) :
    b.bytes.length = (if b.plen = 0 then 8 else b.plen) := by
  cases b with
  | data d =>
    simp only [BodyWF] at h
    have hne : d.length ≠ 0 := by omega
    simp [Body.bytes, Body.plen, hne]
  | back p => simp [Body.bytes, Body.plen, be_length]

theorem encodeRec_length (r : FRec) (h : BodyWF r.body) : (encodeRec r).length = r.len := by
  simp only [encodeRec, FRec.len, List.length_append, be_length, body_bytes_length _ h]

theorem encodeRecs_length (rs : List FRec) (h : ∀ r ∈ rs, BodyWF r.body) :
    (encodeRecs rs).length = recsLen rs := by
  induction rs with
  | nil => simp [encodeRecs, recsLen]
  | cons r rs ih =>
    have h1 := encodeRec_length r (h r List.mem_cons_self)
    have h2 := ih (fun x hx => h x (List.mem_cons_of_mem _ hx))
    simp only [encodeRecs, recsLen, List.flatMap_cons, List.length_append, List.map_cons,
      List.sum_cons] at *
    omega

theorem encodeTxnSt_length (st : Nat) (t : FTxn) (h : ∀ r ∈ t.recs, BodyWF r.body) :
    (encodeTxnSt st t).length = t.tlen + 8 := by
  simp only [encodeTxnSt, List.length_append, encodeHdr_length, be_length, encodeRecs_length _ h,
    FTxn.tlen, FTxn.hdrLen]

theorem recWF_body {p : Nat} {t : FTxn} (h : ∀ r ∈ t.recs, RecWF p r) : ∀ r ∈ t.recs, BodyWF r.body :=
  fun r hr => (h r hr).2.2.2.2

theorem encodeTxn_length {pos : Nat} {t : FTxn} (h : TxnWF pos t) :
    (encodeTxn t).length = t.tlen + 8 :=
  encodeTxnSt_length _ _ (recWF_body h.2.2.2.2.2.2.2.2)

theorem rec_len_pos (r : FRec) : 0 < r.len := by
  simp only [FRec.len]; omega

theorem recs_length_le (rs : List FRec) : rs.length ≤ recsLen rs := by
  induction rs with
  | nil => simp [recsLen]
  | cons r rs ih =>
    have := rec_len_pos r
    simp only [recsLen, List.map_cons, List.sum_cons, List.length_cons] at *
    omega

/-! ### header round trip -/

theorem parseHdr_encode (tid tl st ul dl el : Nat) (more : Bytes)
    (h1 : tid < 2 ^ 64) (h2 : tl < 2 ^ 64) (h3 : st < 256) (h4 : ul < 2 ^ 16) (h5 : dl < 2 ^ 16)
    (h6 : el < 2 ^ 16) :
    parseHdr (encodeHdr tid tl st ul dl el ++ more) = ⟨tid, tl, st, ul, dl, el⟩ := by
  simp only [parseHdr, encodeHdr, List.append_assoc, rd8 _ _ h1, rd8 _ _ h2, rd1 _ _ h3,
    rd2 _ _ h4, rd2 _ _ h5, rd2 _ _ h6]

/-- the transaction length field is decoded correctly whatever the other fields hold -/
theorem parseHdr_tl (tid tl st ul dl el : Nat) (more : Bytes) (h2 : tl < 2 ^ 64) :
    (parseHdr (encodeHdr tid tl st ul dl el ++ more)).tl = tl := by
  simp only [parseHdr, encodeHdr, List.append_assoc, rd_snd, rd8 _ _ h2]

theorem parseHdr_st (tid tl st ul dl el : Nat) (more : Bytes) (h3 : st < 256) :
    (parseHdr (encodeHdr tid tl st ul dl el ++ more)).st = st := by
  simp only [parseHdr, encodeHdr, List.append_assoc, rd_snd, rd1 _ _ h3]

/-! ### record round trip -/

theorem parseRec_encode (r : FRec) (more : Bytes) (tloc : Nat) (h : RecWF tloc r)
    (htl : r.tloc < 2 ^ 64) :
    parseRec (encodeRec r ++ more) = .ok (r, r.len) := by
  obtain ⟨h1, h2, h3, _, hb⟩ := h
  have hlen : ((encodeRec r ++ more).take 42).length = 42 := by
    have := encodeRec_length r hb
    simp only [List.length_take, List.length_append]
    simp only [FRec.len] at this
    omega
  unfold parseRec
  rw [if_neg (by omega)]
  obtain ⟨oid, tid, prev, tl, body⟩ := r
  cases body with
  | data d =>
    simp only [BodyWF] at hb
    have hz : (0 : Nat) < 2 ^ 16 := by omega
    simp only [encodeRec, Body.plen, Body.bytes, List.append_assoc, rd8 _ _ h1, rd8 _ _ h2,
      rd8 _ _ h3, rd8 _ _ htl, rd2 _ _ hz, rd8 _ _ hb.2]
    rw [if_neg (by omega), if_neg (by omega)]
    have hne : d.length ≠ 0 := by omega
    simp [FRec.len, Body.plen, hne]
  | back p =>
    simp only [BodyWF] at hb
    have hz : (0 : Nat) < 2 ^ 16 := by omega
    have hz' : (0 : Nat) < 2 ^ 64 := by omega
    simp only [encodeRec, Body.plen, Body.bytes, List.append_assoc, rd8 _ _ h1, rd8 _ _ h2,
      rd8 _ _ h3, rd8 _ _ htl, rd2 _ _ hz, rd8 _ _ hz']
    simp [FRec.len, Body.plen, take_append_eq (be_length 8 p), be_length,
      beVal_be 8 p (by simpa using hb)]

end Proofs.Format
