/-
  Helper lemmas for C01/C09: the byte-level encoder and the `read_index` scanner of
  `ZodbModel/Format.lean` — lengths, header/record round trips, torn prefixes.  Core Lean only.
-/
import ZodbModel.Format
namespace Proofs.Format
open ZodbModel ZodbModel.Format

/-! ### list slicing -/

theorem take_append_eq {α} {a b : List α} {n : Nat} (h : a.length = n) : (a ++ b).take n = a := by
  subst h; simp

theorem drop_append_eq {α} {a b : List α} {n : Nat} (h : a.length = n) : (a ++ b).drop n = b := by
  subst h; simp

theorem take_take_le {α} (l : List α) {m n : Nat} (h : m ≤ n) : (l.take n).take m = l.take m := by
  rw [List.take_take, Nat.min_eq_left h]

/-! ### big-endian fields -/

theorem rd_be (n v : Nat) (rest : Bytes) (h : v < 256 ^ n) : rd n (be n v ++ rest) = (v, rest) := by
  simp only [rd, take_append_eq (be_length n v), drop_append_eq (be_length n v), beVal_be n v h]

theorem rd8 (v : Nat) (rest : Bytes) (h : v < 2 ^ 64) : rd 8 (be 8 v ++ rest) = (v, rest) :=
  rd_be 8 v rest (by simpa using h)

theorem rd2 (v : Nat) (rest : Bytes) (h : v < 2 ^ 16) : rd 2 (be 2 v ++ rest) = (v, rest) :=
  rd_be 2 v rest (by simpa using h)

theorem rd1 (v : Nat) (rest : Bytes) (h : v < 256) : rd 1 (be 1 v ++ rest) = (v, rest) :=
  rd_be 1 v rest (by simpa using h)

/-- reading a field never looks at its value range when only the remainder matters -/
theorem rd_snd (n v : Nat) (rest : Bytes) : (rd n (be n v ++ rest)).2 = rest := by
  simp only [rd, drop_append_eq (be_length n v)]

/-! ### lengths -/

@[simp] theorem encodeHdr_length (tid tl st ul dl el : Nat) :
    (encodeHdr tid tl st ul dl el).length = 23 := by
  simp [encodeHdr, be_length]

theorem body_bytes_length (b : Body) (h : BodyWF b) :
    b.bytes.length = (if b.plen = 0 then 8 else b.plen) := by
  cases b with
  | data d =>
    simp only [BodyWF] at h
    have hne : d.length ≠ 0 := by omega
    simp [Body.bytes, Body.plen, hne]
  | back p => simp [Body.bytes, Body.plen, be_length]

theorem encodeRec_length (r : FRec) (h : BodyWF r.body) : (encodeRec r).length = r.len := by
  simp only [encodeRec, FRec.len, List.length_append, be_length, body_bytes_length _ h]

theorem encodeRecs_length (rs : List FRec) (h : ∀ r ∈ rs, BodyWF r.body) :
    (encodeRecs rs).length = recsLen rs := by
  induction rs with
  | nil => simp [encodeRecs, recsLen]
  | cons r rs ih =>
    have h1 := encodeRec_length r (h r List.mem_cons_self)
    have h2 := ih (fun x hx => h x (List.mem_cons_of_mem _ hx))
    simp only [encodeRecs, recsLen, List.flatMap_cons, List.length_append, List.map_cons,
      List.sum_cons] at *
    omega

theorem encodeTxnSt_length (st : Nat) (t : FTxn) (h : ∀ r ∈ t.recs, BodyWF r.body) :
    (encodeTxnSt st t).length = t.tlen + 8 := by
  simp only [encodeTxnSt, List.length_append, encodeHdr_length, be_length, encodeRecs_length _ h,
    FTxn.tlen, FTxn.hdrLen]

theorem recWF_body {p : Nat} {t : FTxn} (h : ∀ r ∈ t.recs, RecWF p r) : ∀ r ∈ t.recs, BodyWF r.body :=
  fun r hr => (h r hr).2.2.2.2

theorem encodeTxn_length {pos : Nat} {t : FTxn} (h : TxnWF pos t) :
    (encodeTxn t).length = t.tlen + 8 :=
  encodeTxnSt_length _ _ (recWF_body h.2.2.2.2.2.2.2.2)

theorem rec_len_pos (r : FRec) : 0 < r.len := by
  simp only [FRec.len]; omega

theorem recs_length_le (rs : List FRec) : rs.length ≤ recsLen rs := by
  induction rs with
  | nil => simp [recsLen]
  | cons r rs ih =>
    have := rec_len_pos r
    simp only [recsLen, List.map_cons, List.sum_cons, List.length_cons] at *
    omega

/-! ### header round trip -/

theorem parseHdr_encode (tid tl st ul dl el : Nat) (more : Bytes)
    (h1 : tid < 2 ^ 64) (h2 : tl < 2 ^ 64) (h3 : st < 256) (h4 : ul < 2 ^ 16) (h5 : dl < 2 ^ 16)
    (h6 : el < 2 ^ 16) :
    parseHdr (encodeHdr tid tl st ul dl el ++ more) = ⟨tid, tl, st, ul, dl, el⟩ := by
  simp only [parseHdr, encodeHdr, List.append_assoc, rd8 _ _ h1, rd8 _ _ h2, rd1 _ _ h3,
    rd2 _ _ h4, rd2 _ _ h5, rd2 _ _ h6]

/-- the transaction length field is decoded correctly whatever the other fields hold -/
theorem parseHdr_tl (tid tl st ul dl el : Nat) (more : Bytes) (h2 : tl < 2 ^ 64) :
    (parseHdr (encodeHdr tid tl st ul dl el ++ more)).tl = tl := by
  simp only [parseHdr, encodeHdr, List.append_assoc, rd_snd, rd8 _ _ h2]

theorem parseHdr_st (tid tl st ul dl el : Nat) (more : Bytes) (h3 : st < 256) :
    (parseHdr (encodeHdr tid tl st ul dl el ++ more)).st = st := by
  simp only [parseHdr, encodeHdr, List.append_assoc, rd_snd, rd1 _ _ h3]

/-! ### record round trip -/

theorem parseRec_encode (r : FRec) (more : Bytes) (tloc : Nat) (h : RecWF tloc r)
    (htl : r.tloc < 2 ^ 64) :
    parseRec (encodeRec r ++ more) = .ok (r, r.len) := by
  obtain ⟨h1, h2, h3, _, hb⟩ := h
  have hlen : ((encodeRec r ++ more).take 42).length = 42 := by
    have := encodeRec_length r hb
    simp only [List.length_take, List.length_append]
    simp only [FRec.len] at this
    omega
  unfold parseRec
  rw [if_neg (by omega)]
  obtain ⟨oid, tid, prev, tl, body⟩ := r
  cases body with
  | data d =>
    simp only [BodyWF] at hb
    have hz : (0 : Nat) < 2 ^ 16 := by omega
    simp only [encodeRec, Body.plen, Body.bytes, List.append_assoc, rd8 _ _ h1, rd8 _ _ h2,
      rd8 _ _ h3, rd8 _ _ htl, rd2 _ _ hz, rd8 _ _ hb.2]
    rw [if_neg (by omega), if_neg (by omega)]
    have hne : d.length ≠ 0 := by omega
    simp [FRec.len, Body.plen, hne]
  | back p =>
    simp only [BodyWF] at hb
    have hz : (0 : Nat) < 2 ^ 16 := by omega
    have hz' : (0 : Nat) < 2 ^ 64 := by omega
    simp only [encodeRec, Body.plen, Body.bytes, List.append_assoc, rd8 _ _ h1, rd8 _ _ h2,
      rd8 _ _ h3, rd8 _ _ htl, rd2 _ _ hz, rd8 _ _ hz']
    simp [FRec.len, Body.plen, take_append_eq (be_length 8 p), be_length,
      beVal_be 8 p (by simpa using hb)]


/-! ### record walk round trip -/

theorem withPos_map_snd (p : Nat) (rs : List FRec) : (withPos p rs).map (·.2) = rs := by
  induction rs generalizing p with
  | nil => rfl
  | cons r rs ih => simp [withPos, ih]

theorem walkRecs_encode (recs : List FRec) (more : Bytes) (tpos : Nat) (htp : tpos < 2 ^ 64)
    (h : ∀ r ∈ recs, RecWF tpos r) :
    ∀ (fuel pos : Nat), recs.length < fuel →
      walkRecs fuel (encodeRecs recs ++ more) pos tpos (pos + recsLen recs)
        = .ok (withPos pos recs) := by
  induction recs with
  | nil =>
    intro fuel pos hf
    cases fuel with
    | zero => omega
    | succ f => simp [walkRecs, recsLen, withPos]
  | cons r rs ih =>
    intro fuel pos hf
    cases fuel with
    | zero => simp at hf
    | succ f =>
      have hr := h r List.mem_cons_self
      have hlen := rec_len_pos r
      have hrs : ∀ x ∈ rs, RecWF tpos x := fun x hx => h x (List.mem_cons_of_mem _ hx)
      have htl : r.tloc < 2 ^ 64 := by rw [hr.2.2.2.1]; exact htp
      have hsum : pos + recsLen (r :: rs) = pos + r.len + recsLen rs := by
        simp only [recsLen, List.map_cons, List.sum_cons]; omega
      have henc : encodeRecs (r :: rs) ++ more = encodeRec r ++ (encodeRecs rs ++ more) := by
        simp [encodeRecs]
      rw [hsum, henc]
      simp only [walkRecs]
      rw [if_pos (by omega), parseRec_encode r _ tpos hr htl]
      simp only []
      rw [if_neg (by simp only [hr.2.2.2.1]; omega),
        drop_append_eq (encodeRec_length r hr.2.2.2.2),
        ih hrs f (pos + r.len) (by simp at hf; omega)]
      simp [withPos]

/-! ### transaction round trip, torn transactions -/

theorem slice_mid {α} (a b c : List α) {n m : Nat} (ha : a.length = n) (hb : b.length = m) :
    ((a ++ (b ++ c)).drop n).take m = b := by
  rw [drop_append_eq ha, take_append_eq hb]

/-- the encoded transaction cut into header / metadata / records / trailer -/
theorem encodeTxnSt_parts (st : Nat) (t : FTxn) (more : Bytes) :
    encodeTxnSt st t ++ more =
      encodeHdr t.tid t.tlen st t.user.length t.desc.length t.ext.length ++
        (t.user ++ (t.desc ++ (t.ext ++ (encodeRecs t.recs ++ (be 8 t.tlen ++ more))))) := by
  simp [encodeTxnSt]

theorem parseTxn_encode (t : FTxn) (pos : Nat) (more : Bytes) (h : TxnWF pos t) :
    parseTxn (encodeTxn t ++ more) pos = .ok t (txnPrecs pos t) (t.tlen + 8) := by
  obtain ⟨h1, h2, h3, h4, h5, h6, h7, h8, h9⟩ := h
  have hb := recWF_body h9
  have hrl := encodeRecs_length _ hb
  have hlen : (encodeTxn t ++ more).length = t.tlen + 8 + more.length := by
    rw [List.length_append, encodeTxn, encodeTxnSt_length _ _ hb]
  have hparts := encodeTxnSt_parts t.status t more
  have hH := encodeHdr_length t.tid t.tlen t.status t.user.length t.desc.length t.ext.length
  have htl : t.tlen = 23 + t.user.length + t.desc.length + t.ext.length + recsLen t.recs := by
    simp [FTxn.tlen, FTxn.hdrLen]
  -- the 23 header bytes
  have hhead : (encodeTxn t ++ more).take 23 =
      encodeHdr t.tid t.tlen t.status t.user.length t.desc.length t.ext.length ++ [] := by
    rw [encodeTxn, hparts, take_append_eq hH, List.append_nil]
  have hhd : parseHdr ((encodeTxn t ++ more).take 23) =
      ⟨t.tid, t.tlen, t.status, t.user.length, t.desc.length, t.ext.length⟩ := by
    rw [hhead]; exact parseHdr_encode _ _ _ _ _ _ _ (by omega) (by omega) (by omega) h5 h6 h7
  -- metadata
  have huser : ((encodeTxn t ++ more).drop 23).take t.user.length = t.user := by
    rw [encodeTxn, hparts]; exact slice_mid _ _ _ hH rfl
  have hdesc : ((encodeTxn t ++ more).drop (23 + t.user.length)).take t.desc.length = t.desc := by
    rw [encodeTxn, hparts, ← List.append_assoc]
    exact slice_mid _ _ _ (by simp [hH]) rfl
  have hext : ((encodeTxn t ++ more).drop (23 + t.user.length + t.desc.length)).take t.ext.length
      = t.ext := by
    rw [encodeTxn, hparts, ← List.append_assoc, ← List.append_assoc]
    exact slice_mid _ _ _ (by simp [hH]; omega) rfl
  -- records and trailer
  have hrecs : (encodeTxn t ++ more).drop (23 + t.user.length + t.desc.length + t.ext.length)
      = encodeRecs t.recs ++ (be 8 t.tlen ++ more) := by
    rw [encodeTxn, hparts, ← List.append_assoc, ← List.append_assoc, ← List.append_assoc]
    exact drop_append_eq (by simp [hH]; omega)
  have htrail : ((encodeTxn t ++ more).drop t.tlen).take 8 = be 8 t.tlen := by
    rw [encodeTxn, hparts, ← List.append_assoc, ← List.append_assoc, ← List.append_assoc,
      ← List.append_assoc]
    exact slice_mid _ _ _ (by simp [hH, hrl]; omega) (be_length 8 _)
  have hwalk := walkRecs_encode t.recs (be 8 t.tlen ++ more) pos (by omega) h9 (t.tlen + 1)
    (pos + (23 + t.user.length + t.desc.length + t.ext.length))
    (by have := recs_length_le t.recs; omega)
  have hend : pos + (23 + t.user.length + t.desc.length + t.ext.length) + recsLen t.recs
      = pos + t.tlen := by omega
  rw [hend] at hwalk
  unfold parseTxn
  simp only [hhd, hlen, hrecs, htrail, huser, hdesc, hext, hwalk, List.length_take]
  rw [if_neg (by omega), if_neg (by omega), if_neg (by omega), if_neg (by simp [h3]), if_neg (by omega),
    if_neg (by simp only [stopDefault]; omega), if_neg h4,
    if_neg (by simp [beVal_be 8 t.tlen (by simpa using (by omega : t.tlen < 2 ^ 64))])]
  simp [withPos_map_snd, txnPrecs, FTxn.hdrLen, Nat.add_assoc]

/-- every strict byte-prefix of a transaction being written is rejected at its start: nothing left
    ⇒ clean end; fewer than 23 bytes ⇒ plain truncate; otherwise the length test fires -/
theorem parseTxn_torn (st : Nat) (t : FTxn) (pos n : Nat) (hb : ∀ r ∈ t.recs, BodyWF r.body)
    (htl : t.tlen < 2 ^ 64) (hn : n < t.tlen + 8) (hst : st < 128) :
    parseTxn ((encodeTxnSt st t).take n) pos
      = if n = 0 then .eof else .truncate (decide (23 ≤ n)) := by
  have hlen := encodeTxnSt_length st t hb
  have hparts := encodeTxnSt_parts st t []
  rw [List.append_nil] at hparts
  have hH := encodeHdr_length t.tid t.tlen st t.user.length t.desc.length t.ext.length
  unfold parseTxn
  by_cases h0 : n = 0
  · subst h0; simp
  · by_cases h23 : 23 ≤ n
    · have hhead : ((encodeTxnSt st t).take n).take 23
          = encodeHdr t.tid t.tlen st t.user.length t.desc.length t.ext.length ++ [] := by
        rw [take_take_le _ h23, hparts, take_append_eq hH, List.append_nil]
      have hl : ((encodeTxnSt st t).take n).length = n := by
        rw [List.length_take, hlen]; omega
      simp only [hhead, parseHdr_tl _ _ _ _ _ _ _ htl, parseHdr_st _ _ _ _ _ _ _ (by omega : st < 256), hl]
      rw [if_neg (by simp), if_neg (by simp), if_neg (by omega), if_pos (by left; omega)]
      simp [h0, h23]
    · have hl : (((encodeTxnSt st t).take n).take 23).length = n := by
        simp only [List.length_take, hlen]; omega
      have hne : n ≠ 23 := by omega
      simp [hl, h0, hne, h23]

/-- a complete transaction whose status byte is still 'c' is rejected at its start -/
theorem parseTxn_checkpoint (t : FTxn) (pos : Nat) (more : Bytes) (hb : ∀ r ∈ t.recs, BodyWF r.body) :
    parseTxn (encodeTxnSt stCheckpoint t ++ more) pos = .truncate true := by
  have hlen : (encodeTxnSt stCheckpoint t ++ more).length = t.tlen + 8 + more.length := by
    rw [List.length_append, encodeTxnSt_length _ _ hb]
  have hparts := encodeTxnSt_parts stCheckpoint t more
  have hH := encodeHdr_length t.tid t.tlen stCheckpoint t.user.length t.desc.length t.ext.length
  have hhead : (encodeTxnSt stCheckpoint t ++ more).take 23 =
      encodeHdr t.tid t.tlen stCheckpoint t.user.length t.desc.length t.ext.length ++ [] := by
    rw [hparts, take_append_eq hH, List.append_nil]
  unfold parseTxn
  simp only [hhead, parseHdr_st _ _ _ _ _ _ _ (by decide : stCheckpoint < 256)]
  simp [stCheckpoint]

/-! ### the scan loop over well-formed transactions -/

theorem encodeTxns_length_cons (pos : Nat) (t : FTxn) (ts : List FTxn) (h : TxnWF pos t) :
    (encodeTxns (t :: ts)).length = t.tlen + 8 + (encodeTxns ts).length := by
  simp [encodeTxns, encodeTxn_length h]

/-- scanning a run of well-formed transactions accepts all of them and continues behind them -/
theorem scan_encode (ts : List FTxn) :
    ∀ (pos : Nat) (st : ScanState) (f : Nat) (more : Bytes), TxnsWF pos ts →
      scan (ts.length + f) (encodeTxns ts ++ more) pos st
        = scan f more (pos + (encodeTxns ts).length)
            ⟨indexFrom st.index pos ts, lastTid st.ltid ts, st.txns ++ ts⟩ := by
  induction ts with
  | nil => intro pos st f more _; simp [encodeTxns, indexFrom, lastTid]
  | cons t ts ih =>
    intro pos st f more h
    obtain ⟨ht, hts⟩ := h
    have hf : (t :: ts).length + f = (ts.length + f) + 1 := by simp; omega
    have henc : encodeTxns (t :: ts) ++ more = encodeTxn t ++ (encodeTxns ts ++ more) := by
      simp [encodeTxns]
    rw [hf, henc]
    simp only [scan, parseTxn_encode t pos _ ht]
    rw [drop_append_eq (encodeTxn_length ht), ih _ _ _ _ hts,
      encodeTxns_length_cons pos t ts ht]
    simp [ScanState.accept, indexFrom, lastTid, Nat.add_assoc]

theorem encodeTxns_length_ge (ts : List FTxn) : ∀ pos, TxnsWF pos ts →
    ts.length ≤ (encodeTxns ts).length := by
  induction ts with
  | nil => intro _ _; simp
  | cons t ts ih =>
    intro pos h
    have := ih _ h.2
    rw [encodeTxns_length_cons pos t ts h.1]
    simp only [List.length_cons]
    omega

end Proofs.Format
