/-
  Helper lemmas for C16 (`Props/C16.lean`), part 1: the queries of DemoStorage on one oid —
  `demoLoadBefore`, `demoLoadSerial`, `demoGetTid`, `demoHistory` — equal the same queries on the
  concatenated revision list `rb ++ rc` (base first), under the hypotheses named below.
  Core Lean only.
-/
import ZodbModel.Demo
namespace Proofs.Demo
open ZodbModel ZodbModel.Demo

/-- `omega` does not look through the abbreviations `Tid`/`Oid` (= `Nat`) -/
macro "tomega" : tactic => `(tactic| ((try simp only [Tid, Oid] at *); omega))

/-- decidable equality of results, so that concrete runs of the model can be checked by `decide` -/
instance instDecidableEqExcept {ε α : Type} [DecidableEq ε] [DecidableEq α] :
    DecidableEq (Except ε α) := fun a b =>
  match a, b with
  | .ok x, .ok y =>
    if h : x = y then isTrue (by rw [h]) else isFalse (fun e => h (by injection e))
  | .error x, .error y =>
    if h : x = y then isTrue (by rw [h]) else isFalse (fun e => h (by injection e))
  | .ok _, .error _ => isFalse (fun e => by cases e)
  | .error _, .ok _ => isFalse (fun e => by cases e)

/-- what a reader sees: a revision or nothing (`None` and POSKeyError both mean "no revision
    visible") -/
def vis {α : Type} : Except Err (Option α) → Option α
  | .ok (some a) => some a
  | _ => none

/-- the changes' revisions of one oid: strictly increasing tids below `maxtid` -/
structure RevsWF (rc : List Rev) : Prop where
  sorted : rc.Pairwise (fun x y => x.1 < y.1)
  below : ∀ x ∈ rc, x.1 < maxtid

/-- every revision carries data (no un-creation record) -/
def AllData (r : List Rev) : Prop := ∀ x ∈ r, x.2 ≠ none

/-- every base tid is below every changes tid (per oid) -/
def Ordered (rb rc : List Rev) : Prop := ∀ x ∈ rb, ∀ y ∈ rc, x.1 < y.1

/-! ### `before` / `after` -/

theorem before_append (a b : List Rev) (t : Tid) : before (a ++ b) t = before a t ++ before b t := by
  simp [before]

theorem after_append (a b : List Rev) (t : Tid) : after (a ++ b) t = after a t ++ after b t := by
  simp [after]

theorem before_eq_self {r : List Rev} {t : Tid} (h : ∀ x ∈ r, x.1 < t) : before r t = r := by
  unfold before
  rw [List.filter_eq_self]
  intro a ha
  simpa using h a ha

theorem before_eq_nil {r : List Rev} {t : Tid} (h : ∀ x ∈ r, ¬ x.1 < t) : before r t = [] := by
  unfold before
  rw [List.filter_eq_nil_iff]
  intro a ha
  simpa using h a ha

theorem after_eq_self {r : List Rev} {t : Tid} (h : ∀ x ∈ r, ¬ x.1 < t) : after r t = r := by
  unfold after
  rw [List.filter_eq_self]
  intro a ha
  simpa using h a ha

theorem after_eq_nil {r : List Rev} {t : Tid} (h : ∀ x ∈ r, x.1 < t) : after r t = [] := by
  unfold after
  rw [List.filter_eq_nil_iff]
  intro a ha
  simpa using h a ha

theorem mem_before {r : List Rev} {t : Tid} {x : Rev} : x ∈ before r t ↔ x ∈ r ∧ x.1 < t := by
  simp [before, List.mem_filter]

theorem before_nil_iff {r : List Rev} {t : Tid} : before r t = [] ↔ ∀ x ∈ r, ¬ x.1 < t := by
  unfold before
  rw [List.filter_eq_nil_iff]
  constructor
  · intro h a ha; simpa using h a ha
  · intro h a ha; simpa using h a ha

/-! ### `loadBeforeR` on a concatenation -/

theorem loadBeforeR_nil (t : Tid) : loadBeforeR [] t = .error .keyError := by
  simp [loadBeforeR]

theorem loadBeforeR_of_before_nil {r : List Rev} {t : Tid} (hr : r ≠ []) (h : before r t = []) :
    loadBeforeR r t = .ok none := by
  unfold loadBeforeR
  have : r.isEmpty = false := by cases r <;> simp_all
  simp [this, h]

/-- shape of every answer of `loadBeforeR` -/
theorem loadBeforeR_cases (r : List Rev) (t : Tid) :
    (r = [] ∧ loadBeforeR r t = .error .keyError) ∨
    (r ≠ [] ∧ before r t = [] ∧ loadBeforeR r t = .ok none) ∨
    (∃ s, (before r t).getLast? = some (s, none) ∧ loadBeforeR r t = .error .keyError) ∨
    (∃ s d, (before r t).getLast? = some (s, some d) ∧
      loadBeforeR r t = .ok (some (d, s, ((after r t).head?).map (·.1)))) := by
  by_cases hr : r = []
  · left; exact ⟨hr, by rw [hr]; exact loadBeforeR_nil t⟩
  · right
    have he : r.isEmpty = false := by cases r <;> simp_all
    cases hl : (before r t).getLast? with
    | none =>
      left
      have := List.getLast?_eq_none_iff.1 hl
      exact ⟨hr, this, loadBeforeR_of_before_nil hr this⟩
    | some x =>
      right
      obtain ⟨s, d⟩ := x
      cases d with
      | none => left; exact ⟨s, rfl, by simp [loadBeforeR, he, hl]⟩
      | some d => right; exact ⟨s, d, rfl, by simp [loadBeforeR, he, hl]⟩

/-- a revision of the changes below `t` exists: the merged answer is the changes' answer -/
theorem loadBeforeR_append_upper {rb rc : List Rev} {t : Tid} (ho : Ordered rb rc)
    (hne : before rc t ≠ []) : loadBeforeR (rb ++ rc) t = loadBeforeR rc t := by
  obtain ⟨y, hy⟩ := List.exists_mem_of_ne_nil _ hne
  have hy' := mem_before.1 hy
  have hrb : ∀ x ∈ rb, x.1 < t := fun x hx => Nat.lt_trans (ho x hx y hy'.1) hy'.2
  have hrc : rc ≠ [] := by intro h; rw [h] at hy'; simp at hy'
  have h1 : (rb ++ rc).isEmpty = false := by cases rb <;> cases rc <;> simp_all
  have h2 : rc.isEmpty = false := by cases rc <;> simp_all
  have hlast : (before rb t ++ before rc t).getLast? = (before rc t).getLast? := by
    rw [List.getLast?_append]
    cases h : (before rc t).getLast? with
    | none => exact absurd (List.getLast?_eq_none_iff.1 h) hne
    | some a => rfl
  unfold loadBeforeR
  rw [h1, h2, before_append, after_append, hlast, after_eq_nil hrb]
  simp

/-- put the end tid `e` on an answer that has none -/
def extendEnd (x : Except Err (Option LB)) (e : Tid) : Except Err (Option LB) :=
  match x with
  | .ok (some (d, s, none)) => .ok (some (d, s, some e))
  | x => x

/-- no revision of the changes below `t`: the merged answer is the base's answer, its open end
    closed by the first revision of the changes (DESIGN 3.1 `loadBefore_append`) -/
theorem loadBeforeR_append_lower {rb rc : List Rev} {t : Tid} {y : Rev} {rest : List Rev}
    (hrc : rc = y :: rest) (hnil : before rc t = []) (hrb : rb ≠ []) :
    loadBeforeR (rb ++ rc) t = extendEnd (loadBeforeR rb t) y.1 := by
  have hge : ∀ x ∈ rc, ¬ x.1 < t := before_nil_iff.1 hnil
  have h1 : (rb ++ rc).isEmpty = false := by cases rb <;> simp_all
  have h2 : rb.isEmpty = false := by cases rb <;> simp_all
  unfold loadBeforeR
  rw [h1, h2, before_append, after_append, hnil, after_eq_self hge, List.append_nil]
  simp only [Bool.false_eq_true, if_false]
  cases hl : (before rb t).getLast? with
  | none => simp [extendEnd]
  | some x =>
    obtain ⟨s, d⟩ := x
    cases d with
    | none => simp [extendEnd]
    | some d =>
      simp only [List.head?_append]
      cases ha : (after rb t).head? with
      | none => simp [extendEnd, hrc]
      | some a => simp [extendEnd]

/-! ### the end-tid search -/

theorem before_before_length {rc : List Rev} {e s : Tid} {d : Option Data}
    (hm : (s, d) ∈ before rc e) : (before rc s).length < (before rc e).length := by
  have hs : s < e := (mem_before.1 hm).2
  have : before rc s = (before rc e).filter (fun x => x.1 < s) := by
    unfold before
    rw [List.filter_filter]
    congr 1
    funext x
    by_cases h : x.1 < s
    · have : x.1 < e := Nat.lt_trans h hs
      simp [h, this]
    · simp [h]
  rw [this]
  rw [List.length_filter_lt_length_iff_exists]
  exact ⟨(s, d), hm, by simp⟩

/-- The loop finds the smallest tid of the changes' revisions below `e` (or stays at `e`); the fuel
    `length + 1` is never exhausted. -/
theorem findEnd_spec {rc : List Rev} (hne : rc ≠ []) (hd : AllData rc) :
    ∀ (f : Nat) (e : Tid), (before rc e).length < f →
      ∃ m, findEnd rc f e = .ok m ∧ (∀ x ∈ rc, ¬ x.1 < m) ∧
        (before rc e = [] → m = e) ∧ (before rc e ≠ [] → (∃ x ∈ rc, x.1 = m) ∧ m < e) := by
  intro f
  induction f with
  | zero => intro e h; omega
  | succ f ih =>
    intro e hlen
    unfold findEnd
    rcases loadBeforeR_cases rc e with ⟨h, _⟩ | ⟨_, hb, hl⟩ | ⟨s, hg, _⟩ | ⟨s, d, hg, hl⟩
    · exact absurd h hne
    · rw [hl]
      exact ⟨e, rfl, before_nil_iff.1 hb, fun _ => rfl, fun h => absurd hb h⟩
    · have := List.mem_of_getLast? hg
      exact absurd rfl (hd _ (mem_before.1 this).1)
    · rw [hl]
      have hm := List.mem_of_getLast? hg
      have hm' := mem_before.1 hm
      have hlt := before_before_length hm
      obtain ⟨m, h1, h2, h3, h4⟩ := ih s (by omega)
      refine ⟨m, h1, h2, ?_, ?_⟩
      · intro hb; rw [hb] at hm; simp at hm
      · intro _
        by_cases hbs : before rc s = []
        · have := h3 hbs
          subst this
          exact ⟨⟨_, hm'.1, rfl⟩, hm'.2⟩
        · obtain ⟨hx, hlt'⟩ := h4 hbs
          exact ⟨hx, Nat.lt_trans hlt' hm'.2⟩

/-- on well-formed changes without un-creation records the search from `maxtid` returns the tid of
    the first revision -/
theorem findEnd_first {rc : List Rev} {y : Rev} {rest : List Rev} (hrc : rc = y :: rest)
    (hwf : RevsWF rc) (hd : AllData rc) : findEnd rc (rc.length + 1) maxtid = .ok y.1 := by
  have hne : rc ≠ [] := by rw [hrc]; simp
  have hlen : (before rc maxtid).length < rc.length + 1 :=
    Nat.lt_succ_of_le (List.length_filter_le _ _)
  obtain ⟨m, h1, h2, _, h4⟩ := findEnd_spec hne hd _ _ hlen
  have hb : before rc maxtid ≠ [] := by rw [before_eq_self hwf.below]; exact hne
  obtain ⟨⟨x, hx, hxm⟩, _⟩ := h4 hb
  have hy : y ∈ rc := by rw [hrc]; simp
  have h5 : ¬ y.1 < m := h2 y hy
  have h6 : y.1 ≤ x.1 := by
    rw [hrc] at hx
    rcases List.mem_cons.1 hx with h | h
    · rw [h]; exact Nat.le_refl _
    · have := hwf.sorted
      rw [hrc, List.pairwise_cons] at this
      exact Nat.le_of_lt (this.1 x h)
  have hmy : m = y.1 := Nat.le_antisymm (Nat.le_of_not_lt h5) (hxm ▸ h6)
  rw [h1, hmy]

/-! ### `DemoStorage.loadBefore` = `loadBefore` on the concatenated revisions -/

/-- what one demo level needs for one oid: changes well formed, above the base, and an un-creation
    record in the changes only when the base does not know the oid -/
structure LevelOK (rb rc : List Rev) : Prop where
  wf : RevsWF rc
  ordered : Ordered rb rc
  uncreate : ¬ AllData rc → rb = []

/-- the base's answer as `DemoStorage.loadBefore` passes it on when the changes have no earlier record -/
def fromBase (x : Except Err (Option LB)) (e : Tid) : Except Err (Option LB) :=
  match x with
  | .error _ => .ok none
  | .ok none => .ok none
  | .ok (some (d, s, some e')) => .ok (some (d, s, some e'))
  | .ok (some (d, s, none)) => .ok (some (d, s, some e))

def closeEnd (e : Tid) (r : LB) : LB := (r.1, r.2.1, some (r.2.2.getD e))

theorem vis_fromBase (x : Except Err (Option LB)) (e : Tid) :
    vis (fromBase x e) = (vis x).map (closeEnd e) := by
  unfold fromBase
  split <;> simp [vis, closeEnd]

theorem vis_extendEnd (x : Except Err (Option LB)) (e : Tid) :
    vis (extendEnd x e) = (vis x).map (closeEnd e) := by
  unfold extendEnd
  split
  · simp [vis, closeEnd]
  · rename_i h
    match x with
    | .error _ => simp [vis]
    | .ok none => simp [vis]
    | .ok (some (d, s, some e')) => simp [vis, closeEnd]
    | .ok (some (d, s, none)) => exact absurd rfl (h d s)

theorem fromBase_eq_extendEnd {x : Except Err (Option LB)} (e : Tid) (h : ∀ er, x ≠ .error er) :
    fromBase x e = extendEnd x e := by
  match x with
  | .error er => exact absurd rfl (h er)
  | .ok none => rfl
  | .ok (some (d, s, some e')) => rfl
  | .ok (some (d, s, none)) => rfl

theorem demoLoadBefore_lower {lb : Tid → Except Err (Option LB)} {rc : List Rev} {t : Tid} {y : Rev}
    {rest : List Rev} (hrc : rc = y :: rest) (hwf : RevsWF rc) (hd : AllData rc)
    (hnil : before rc t = []) : demoLoadBefore lb rc t = fromBase (lb t) y.1 := by
  have hne : rc ≠ [] := by rw [hrc]; simp
  have hy : y ∈ rc := by rw [hrc]; simp
  have hyt : ¬ y.1 < t := before_nil_iff.1 hnil y hy
  have hym : y.1 < maxtid := hwf.below y hy
  have htm : t ≠ maxtid := by intro h; rw [h] at hyt; exact hyt hym
  have hye : y.1 ≠ maxtid := Nat.ne_of_lt hym
  unfold demoLoadBefore
  rw [loadBeforeR_of_before_nil hne hnil]
  simp only
  match h : lb t with
  | .error _ => simp [fromBase]
  | .ok none => simp [fromBase]
  | .ok (some (d, s, some e')) => simp [fromBase]
  | .ok (some (d, s, none)) =>
    simp only [fromBase, if_neg htm, findEnd_first hrc hwf hd, if_neg hye]

theorem demoLoadBefore_lower_invisible {lb : Tid → Except Err (Option LB)} {rc : List Rev} {t : Tid}
    (hne : rc ≠ []) (hnil : before rc t = []) (hv : vis (lb t) = none) :
    demoLoadBefore lb rc t = .ok none := by
  unfold demoLoadBefore
  rw [loadBeforeR_of_before_nil hne hnil]
  simp only
  match h : lb t with
  | .error _ => rfl
  | .ok none => rfl
  | .ok (some r) => rw [h] at hv; simp [vis] at hv

theorem not_allData_of_getLast {rc : List Rev} {t s : Tid}
    (hg : (before rc t).getLast? = some (s, none)) : ¬ AllData rc := by
  intro hd
  exact hd _ (mem_before.1 (List.mem_of_getLast? hg)).1 rfl

/-- **the merge theorem for one oid, up to visibility** -/
theorem demoLoadBefore_vis {lb : Tid → Except Err (Option LB)} {rb rc : List Rev} (h : LevelOK rb rc)
    (t : Tid) (hb : vis (lb t) = vis (loadBeforeR rb t)) :
    vis (demoLoadBefore lb rc t) = vis (loadBeforeR (rb ++ rc) t) := by
  rcases loadBeforeR_cases rc t with ⟨hrc, hl⟩ | ⟨hne, hnil, hl⟩ | ⟨s, hg, hl⟩ | ⟨s, d, hg, hl⟩
  · -- the changes do not know the oid
    subst hrc
    simp only [demoLoadBefore, hl, List.append_nil]
    exact hb
  · -- known in the changes, no earlier record there
    by_cases hd : AllData rc
    · obtain ⟨y, rest, hrc⟩ := List.exists_cons_of_ne_nil hne
      rw [demoLoadBefore_lower hrc h.wf hd hnil, vis_fromBase]
      by_cases hrb : rb = []
      · subst hrb
        rw [List.nil_append, hl, hb, loadBeforeR_nil]
        simp [vis]
      · rw [loadBeforeR_append_lower hrc hnil hrb, vis_extendEnd, hb]
    · have hrb := h.uncreate hd
      subst hrb
      have hv : vis (lb t) = none := by rw [hb, loadBeforeR_nil]; rfl
      rw [demoLoadBefore_lower_invisible hne hnil hv, List.nil_append, hl]
  · -- the newest earlier record of the changes is an un-creation
    have hrb := h.uncreate (not_allData_of_getLast hg)
    subst hrb
    simp only [demoLoadBefore, hl, List.nil_append]
    rw [hb, loadBeforeR_nil]
  · -- answered by the changes
    have hne : before rc t ≠ [] := by intro hn; rw [hn] at hg; simp at hg
    rw [loadBeforeR_append_upper h.ordered hne]
    simp only [demoLoadBefore, hl]

/-- **the merge theorem for one oid, exact** (also `None` vs POSKeyError), when the base holds no
    un-creation record of the oid -/
theorem demoLoadBefore_exact {lb : Tid → Except Err (Option LB)} {rb rc : List Rev} (h : LevelOK rb rc)
    (hdb : AllData rb) (t : Tid) (hb : lb t = loadBeforeR rb t) :
    demoLoadBefore lb rc t = loadBeforeR (rb ++ rc) t := by
  rcases loadBeforeR_cases rc t with ⟨hrc, hl⟩ | ⟨hne, hnil, hl⟩ | ⟨s, hg, hl⟩ | ⟨s, d, hg, hl⟩
  · subst hrc
    simp only [demoLoadBefore, hl, List.append_nil]
    exact hb
  · by_cases hrb : rb = []
    · subst hrb
      have hv : vis (lb t) = none := by rw [hb, loadBeforeR_nil]; rfl
      rw [demoLoadBefore_lower_invisible hne hnil hv, List.nil_append, hl]
    · have hd : AllData rc := Classical.byContradiction fun hd => hrb (h.uncreate hd)
      obtain ⟨y, rest, hrc⟩ := List.exists_cons_of_ne_nil hne
      rw [demoLoadBefore_lower hrc h.wf hd hnil, loadBeforeR_append_lower hrc hnil hrb, hb]
      apply fromBase_eq_extendEnd
      intro er her
      rcases loadBeforeR_cases rb t with ⟨h0, _⟩ | ⟨_, _, h1⟩ | ⟨s, hg, _⟩ | ⟨s, d, _, h1⟩
      · exact hrb h0
      · rw [h1] at her; cases her
      · exact not_allData_of_getLast hg hdb
      · rw [h1] at her; cases her
  · have hrb := h.uncreate (not_allData_of_getLast hg)
    subst hrb
    simp only [demoLoadBefore, hl, List.nil_append]
    rw [hb, loadBeforeR_nil]
  · have hne : before rc t ≠ [] := by intro hn; rw [hn] at hg; simp at hg
    rw [loadBeforeR_append_upper h.ordered hne]
    simp only [demoLoadBefore, hl]

/-! ### loadSerial, getTid, history -/

theorem find_none_of_ordered {rb rc : List Rev} (ho : Ordered rb rc) {y : Rev} (hy : y ∈ rc) :
    rb.find? (fun x => x.1 = y.1) = none := by
  rw [List.find?_eq_none]
  intro x hx
  have := ho x hx y hy
  simp only [decide_eq_true_eq]
  intro h
  rw [h] at this
  exact Nat.lt_irrefl _ this

theorem demoLoadSerial_merge {ls : Except Err Data} {rb rc : List Rev} (ho : Ordered rb rc) (s : Tid)
    (hb : ls = loadSerialR rb s) : demoLoadSerial ls rc s = loadSerialR (rb ++ rc) s := by
  unfold demoLoadSerial
  cases hf : rc.find? (fun x => x.1 = s) with
  | none =>
    have h1 : loadSerialR rc s = .error .keyError := by simp [loadSerialR, hf]
    rw [h1]
    simp only
    rw [hb]
    simp [loadSerialR, List.find?_append, hf]
  | some y =>
    have hy := List.mem_of_find?_eq_some hf
    have hys : y.1 = s := by simpa using List.find?_some hf
    have hnone : rb.find? (fun x => x.1 = s) = none := hys ▸ find_none_of_ordered ho hy
    have h2 : loadSerialR (rb ++ rc) s = loadSerialR rc s := by
      simp [loadSerialR, List.find?_append, hnone]
    rw [h2]
    obtain ⟨s', d⟩ := y
    cases d with
    | some d => simp [loadSerialR, hf]
    | none =>
      have h1 : loadSerialR rc s = .error .keyError := by simp [loadSerialR, hf]
      rw [h1]
      simp only
      rw [hb]
      simp [loadSerialR, hnone]

theorem getTidR_nil : getTidR [] = .error .keyError := by simp [getTidR]

theorem demoGetTid_merge {gt : Except Err Tid} {rb rc : List Rev} (hu : ¬ AllData rc → rb = [])
    (hb : gt = getTidR rb) : demoGetTid gt rc = getTidR (rb ++ rc) := by
  unfold demoGetTid
  cases hl : rc.getLast? with
  | none =>
    have hrc := List.getLast?_eq_none_iff.1 hl
    subst hrc
    simp [getTidR_nil, hb]
  | some y =>
    have hm : (rb ++ rc).getLast? = some y := by simp [List.getLast?_append, hl]
    obtain ⟨s, d⟩ := y
    cases d with
    | some d => simp [getTidR, hl, hm]
    | none =>
      have hrb : rb = [] := hu (fun hd => hd _ (List.mem_of_getLast? hl) rfl)
      subst hrb
      simp [getTidR, hl, hb]

theorem historyR_nil (n : Nat) : historyR [] n = .error .keyError := by simp [historyR]

theorem historyR_of_ne {r : List Rev} (h : r ≠ []) (n : Nat) :
    historyR r n = .ok ((r.reverse.take n).map (·.1)) := by
  have : r.isEmpty = false := by cases r <;> simp_all
  simp [historyR, this]

/-- `DemoStorage.history(oid, n)` for `n ≥ 1` is the history of the concatenated revisions (no
    hypothesis on tids: it is a statement about order only) -/
theorem demoHistory_merge {hB : Nat → Except Err (List Tid)} {rb rc : List Rev} {n : Nat} (hn : 1 ≤ n)
    (hb : ∀ m, 1 ≤ m → hB m = historyR rb m) : demoHistory hB rc n = historyR (rb ++ rc) n := by
  unfold demoHistory
  by_cases hrc : rc = []
  · subst hrc
    simp only [historyR_nil, List.length_nil, Nat.sub_zero, List.append_nil]
    rw [if_neg (by omega), hb n hn]
    cases historyR rb n <;> simp
  · rw [historyR_of_ne hrc]
    simp only
    have hne : rb ++ rc ≠ [] := by simp [hrc]
    rw [historyR_of_ne hne, List.reverse_append, List.take_append, List.map_append]
    have hlen : ((rc.reverse.take n).map (·.1)).length = min n rc.length := by simp
    rw [hlen]
    by_cases hm : n - min n rc.length = 0
    · rw [if_pos hm]
      have : n - rc.reverse.length = 0 := by simp; omega
      rw [this]; simp
    · rw [if_neg hm, hb _ (by omega)]
      have hnl : n - rc.reverse.length = n - min n rc.length := by simp; omega
      rw [hnl]
      by_cases hrb : rb = []
      · subst hrb
        simp [historyR_nil]
        exact ⟨by omega, hrc⟩
      · rw [historyR_of_ne hrb]

end Proofs.Demo
