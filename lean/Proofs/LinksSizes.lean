/-
  LINK lemmas, sizes / offsets / index: the record-level FileStorage of C04
  (`ZodbModel/FileStore.lean`: sizes computed as 42 + len | 42 + 8, 23 + ulen + dlen + elen, + 8, 4)
  against the byte layout of C01/C09 (`ZodbModel/Format.lean`: lengths of actual encodings, the
  index `read_index` builds) and the open-time scan of `ZodbModel/Disk.lean`.

  The translation `logF` turns a `FileStore.Log` (newest first, records newest first, offsets as
  numbers) into the `Format.FTxn` list in file order, filling `tloc` with the transaction offset.
-/
import Proofs.FileStoreStep
import Proofs.Disk
namespace Proofs.Links
open ZodbModel

/-! ### the translation FileStore → Format -/

def fsBodyF : FileStore.Body → Format.Body
  | .data d => .data d
  | .back p => .back p

def drecF (tloc : Nat) (r : FileStore.DRec) : Format.FRec := ⟨r.oid, r.tid, r.prev, tloc, fsBodyF r.body⟩

/-- the transaction written on top of `older` (records put back into file order) -/
def ftxnF (older : FileStore.Log) (t : FileStore.FTxn) : Format.FTxn :=
  ⟨t.tid, t.status, t.user, t.desc, t.ext, t.recs.reverse.map (drecF (FileStore.logEnd older))⟩

def logF : FileStore.Log → List Format.FTxn
  | [] => []
  | t :: older => logF older ++ [ftxnF older t]

/-- no record carries an empty pickle (part of `FileStore.RecOk`, hence of `LogInv`) -/
def FsNoEmpty (log : FileStore.Log) : Prop := ∀ t ∈ log, ∀ r ∈ t.recs, r.body ≠ .data []

theorem logInv_noEmpty {log : FileStore.Log} (h : FileStore.LogInv log) : FsNoEmpty log := by
  induction log with
  | nil => intro t ht; cases ht
  | cons t older ih =>
    obtain ⟨_, hrec, _, hi⟩ := h
    intro t' ht' r hr hb
    rcases List.mem_cons.1 ht' with rfl | ht'
    · have := (hrec r hr).2.2
      rw [hb] at this
      exact this rfl
    · exact ih hi t' ht' r hr hb

/-! ### sizes -/

theorem drecF_len (tloc : Nat) (r : FileStore.DRec) (h : r.body ≠ .data []) :
    (drecF tloc r).len = r.size := by
  obtain ⟨oid, tid, prev, body⟩ := r
  cases body with
  | data d =>
    have h1 : d ≠ [] := fun e => h (by rw [e])
    have h2 : d.length ≠ 0 := fun e => h1 (List.length_eq_zero_iff.1 e)
    show 42 + (if d.length = 0 then 8 else d.length) = 42 + d.length
    simp [h2]
  | back p => rfl

theorem recsLen_append (a b : List Format.FRec) :
    Format.recsLen (a ++ b) = Format.recsLen a + Format.recsLen b := by
  simp [Format.recsLen]

theorem drecsF_len (tloc : Nat) (rs : List FileStore.DRec) (h : ∀ r ∈ rs, r.body ≠ .data []) :
    Format.recsLen (rs.reverse.map (drecF tloc)) = FileStore.recsSize rs := by
  induction rs with
  | nil => rfl
  | cons r rs ih =>
    have h1 := drecF_len tloc r (h r List.mem_cons_self)
    have h2 := ih (fun x hx => h x (List.mem_cons_of_mem _ hx))
    rw [List.reverse_cons, List.map_append, recsLen_append, h2]
    simp [Format.recsLen, FileStore.recsSize, h1]

theorem ftxnF_hdrLen (older : FileStore.Log) (t : FileStore.FTxn) : (ftxnF older t).hdrLen = t.hdrLen := rfl

theorem ftxnF_tlen (older : FileStore.Log) (t : FileStore.FTxn) (h : ∀ r ∈ t.recs, r.body ≠ .data []) :
    (ftxnF older t).tlen = t.tlen := by
  show (ftxnF older t).hdrLen + Format.recsLen (t.recs.reverse.map (drecF _)) = _
  rw [drecsF_len _ _ h]; rfl

theorem logF_filePos (log : FileStore.Log) (h : FsNoEmpty log) :
    Disk.filePos (logF log) = FileStore.logEnd log := by
  induction log with
  | nil => rfl
  | cons t older ih =>
    have h1 := ih (fun x hx => h x (List.mem_cons_of_mem _ hx))
    have h2 := ftxnF_tlen older t (h t List.mem_cons_self)
    simp only [Disk.filePos] at h1
    simp only [logF, Disk.filePos, List.map_append, List.sum_append, List.map_cons, List.map_nil,
      List.sum_cons, List.sum_nil, FileStore.logEnd, FileStore.FTxn.size, h2]
    omega

/-- the bytes of a record: 42 + len (pickle) or 42 + 8 (back pointer), no hypothesis needed -/
theorem encodeRec_drecF_length (tloc : Nat) (r : FileStore.DRec) :
    (Format.encodeRec (drecF tloc r)).length = r.size := by
  obtain ⟨oid, tid, prev, body⟩ := r
  cases body <;>
    simp [Format.encodeRec, drecF, fsBodyF, Format.Body.bytes, FileStore.DRec.size, be_length] <;> omega

theorem encodeRecs_length' (tloc : Nat) (rs : List FileStore.DRec) :
    (Format.encodeRecs (rs.reverse.map (drecF tloc))).length = FileStore.recsSize rs := by
  induction rs with
  | nil => rfl
  | cons r rs ih =>
    simp only [Format.encodeRecs] at ih
    simp only [Format.encodeRecs, List.reverse_cons, List.map_append, List.flatMap_append,
      List.length_append, ih, List.map_cons, List.map_nil, List.flatMap_cons, List.flatMap_nil,
      List.append_nil, encodeRec_drecF_length, FileStore.recsSize]

/-- length of the bytes of a transaction = the size C04 computes (no hypothesis) -/
theorem encodeTxn_ftxnF_length (older : FileStore.Log) (t : FileStore.FTxn) :
    (Format.encodeTxn (ftxnF older t)).length = t.size := by
  have := encodeRecs_length' (FileStore.logEnd older) t.recs
  simp only [Format.encodeTxn, Format.encodeTxnSt, Format.encodeHdr, List.length_append, be_length]
  show _ + (Format.encodeRecs (t.recs.reverse.map _)).length + 8 = _
  rw [this]
  simp only [FileStore.FTxn.size, FileStore.FTxn.tlen, FileStore.FTxn.hdrLen]
  show 8 + 8 + 1 + 2 + 2 + 2 + t.user.length + t.desc.length + t.ext.length + _ + 8 = _
  omega

/-- length of the whole image = `logEnd` = the storage's `_pos` (no hypothesis) -/
theorem encodeFile_logF_length (log : FileStore.Log) :
    (Format.encodeFile (logF log)).length = FileStore.logEnd log := by
  induction log with
  | nil => rfl
  | cons t older ih =>
    rw [logF, Proofs.Disk.encodeFile_append, List.length_append, ih, encodeTxn_ftxnF_length]; rfl

/-! ### the index `read_index` builds = the index C04 keeps -/

theorem fidxGet_idxSet (k k' v : Nat) (ix : Format.Index) :
    Format.idxGet k (Format.idxSet k' v ix) = if k = k' then some v else Format.idxGet k ix := by
  induction ix with
  | nil => simp [Format.idxSet, Format.idxGet]
  | cons kv t ih =>
    obtain ⟨a, b⟩ := kv
    simp only [Format.idxSet]
    by_cases h1 : k' < a
    · simp only [h1, if_true, Format.idxGet]
    · simp only [h1, if_false]
      by_cases h2 : k' = a
      · subst h2
        simp only [if_true, Format.idxGet]
        by_cases h3 : k = k' <;> simp [h3]
      · simp only [h2, if_false, Format.idxGet, ih]
        by_cases h3 : k = a
        · have : k ≠ k' := by omega
          simp [h3, this]; intro h; omega
        · simp [h3]

/-- a Format index and a FileStore index say the same: absent ⇔ 0 -/
def IdxAgree (fx : Format.Index) (ix : FileStore.Index) : Prop :=
  ∀ oid, Format.idxGet oid fx =
    (if FileStore.idxGet ix oid = 0 then none else some (FileStore.idxGet ix oid))

theorem fwithPos_append (p : Nat) (a b : List Format.FRec) :
    Format.withPos p (a ++ b) = Format.withPos p a ++ Format.withPos (p + Format.recsLen a) b := by
  induction a generalizing p with
  | nil => simp [Format.withPos, Format.recsLen]
  | cons r a ih =>
    simp only [List.cons_append, Format.withPos, ih, Format.recsLen, List.map_cons, List.sum_cons]
    simp [Nat.add_assoc]

theorem applyRecs_append (ix : Format.Index) (a b : List (Nat × Format.FRec)) :
    Format.applyRecs ix (a ++ b) = Format.applyRecs (Format.applyRecs ix a) b := by
  simp [Format.applyRecs, List.foldl_append]

/-- one transaction: `index.update(tindex)` of the scan against C04's prepended `tindex` -/
theorem applyRecs_agree (tloc base : Nat) (hb : 0 < base) (recs : List FileStore.DRec)
    (hne : ∀ r ∈ recs, r.body ≠ .data []) (fx : Format.Index) (ix : FileStore.Index)
    (h : IdxAgree fx ix) :
    IdxAgree (Format.applyRecs fx (Format.withPos base (recs.reverse.map (drecF tloc))))
      ((FileStore.withPos base recs).map (fun rp => (rp.1.oid, rp.2)) ++ ix) := by
  induction recs with
  | nil => simpa [Format.withPos, Format.applyRecs, FileStore.withPos] using h
  | cons r older ih =>
    have ih' := ih (fun x hx => hne x (List.mem_cons_of_mem _ hx))
    have hl := drecsF_len tloc older (fun x hx => hne x (List.mem_cons_of_mem _ hx))
    intro oid
    rw [List.reverse_cons, List.map_append, fwithPos_append, applyRecs_append, hl]
    simp only [List.map_cons, List.map_nil, Format.withPos, Format.applyRecs, List.foldl_cons,
      List.foldl_nil, FileStore.withPos, List.cons_append, FileStore.idxGet]
    rw [fidxGet_idxSet]
    show (if oid = r.oid then _ else _) = _
    by_cases ho : oid = r.oid
    · subst ho
      have : base + FileStore.recsSize older ≠ 0 := by omega
      simp [this]
      omega
    · have ho' : ¬ r.oid = oid := fun e => ho e.symm
      simp only [ho, ho', if_false]
      exact ih' oid

theorem indexFrom_append (ix : Format.Index) (pos : Nat) (a : List Format.FTxn) (t : Format.FTxn) :
    Format.indexFrom ix pos (a ++ [t]) =
      Format.applyRecs (Format.indexFrom ix pos a)
        (Format.txnPrecs (pos + (a.map fun t => t.tlen + 8).sum) t) := by
  induction a generalizing ix pos with
  | nil => simp [Format.indexFrom]
  | cons c a ih =>
    simp only [List.cons_append, Format.indexFrom, ih, List.map_cons, List.sum_cons]
    simp [Nat.add_assoc]

/-- the index the scanner builds over the image of a log is `FileStore.rebuild` of the log -/
theorem indexOf_logF (log : FileStore.Log) (h : FsNoEmpty log) :
    IdxAgree (Format.indexOf (logF log)) (Proofs.FileStoreStep.rebuild log) := by
  induction log with
  | nil => intro oid; rfl
  | cons t older ih =>
    have h1 := ih (fun x hx => h x (List.mem_cons_of_mem _ hx))
    have hp := logF_filePos older (fun x hx => h x (List.mem_cons_of_mem _ hx))
    simp only [Disk.filePos] at hp
    unfold Format.indexOf at h1 ⊢
    rw [logF, indexFrom_append, hp, Proofs.FileStoreStep.rebuild]
    have hge := Proofs.FileStoreBasic.logEnd_ge older
    exact applyRecs_agree (FileStore.logEnd older) (FileStore.logEnd older + t.hdrLen) (by omega) t.recs
      (h t List.mem_cons_self) _ _ h1

theorem lastTid_append (d : Nat) (a : List Format.FTxn) (t : Format.FTxn) :
    Format.lastTid d (a ++ [t]) = t.tid := by
  induction a generalizing d with
  | nil => rfl
  | cons c a ih => simp only [List.cons_append, Format.lastTid, ih]

theorem lastTid_logF (log : FileStore.Log) : Format.lastTid 0 (logF log) = FileStore.lastTid log := by
  cases log with
  | nil => rfl
  | cons t older => rw [logF, lastTid_append]; rfl

/-! ### well-formedness transfer: a bounded C04 log is a well-formed C01 file -/

/-- the field widths of the byte format (what `struct.pack` needs); everything else `TxnWF` wants
    follows from C04's invariant -/
def FsBounded (log : FileStore.Log) : Prop :=
  FileStore.logEnd log < 2 ^ 64 ∧
  ∀ t ∈ log, t.tid < 2 ^ 64 - 1 ∧ t.status < 128 ∧ t.user.length < 2 ^ 16 ∧ t.desc.length < 2 ^ 16 ∧
    t.ext.length < 2 ^ 16 ∧ ∀ r ∈ t.recs, r.oid < 2 ^ 64 ∧ r.tid < 2 ^ 64

theorem fsBounded_tail {t : FileStore.FTxn} {older : FileStore.Log} (h : FsBounded (t :: older)) :
    FsBounded older :=
  ⟨by have := h.1; simp only [FileStore.logEnd] at this; omega,
   fun x hx => h.2 x (List.mem_cons_of_mem _ hx)⟩

theorem size_le_recsSize {r : FileStore.DRec} {rs : List FileStore.DRec} (h : r ∈ rs) :
    r.size ≤ FileStore.recsSize rs := by
  induction rs with
  | nil => cases h
  | cons x xs ih =>
    simp only [FileStore.recsSize]
    rcases List.mem_cons.1 h with rfl | hx
    · omega
    · have := ih hx; omega

theorem ftxnF_wf {t : FileStore.FTxn} {older : FileStore.Log} (hi : FileStore.LogInv (t :: older))
    (hb : FsBounded (t :: older)) : Format.TxnWF (FileStore.logEnd older) (ftxnF older t) := by
  obtain ⟨h1, h2, h3, h4, h5, h6⟩ := hb.2 t List.mem_cons_self
  have hne := logInv_noEmpty hi t List.mem_cons_self
  have hsz := hb.1
  simp only [FileStore.logEnd, FileStore.FTxn.size] at hsz
  obtain ⟨_, hrec, hst, hio⟩ := hi
  refine ⟨h1, h2, fun e => hst.2 e, fun e => hst.1 e, h3, h4, h5,
    by rw [ftxnF_tlen older t hne]; omega, ?_⟩
  intro fr hfr
  obtain ⟨r, hr, rfl⟩ := List.mem_map.1 hfr
  have hr := List.mem_reverse.1 hr
  obtain ⟨ha, hb'⟩ := h6 r hr
  obtain ⟨_, hprev, hbody⟩ := hrec r hr
  have hlp := Proofs.FileStoreBasic.lastPos_lt r.oid older
  refine ⟨ha, hb', by show r.prev < _; omega, rfl, ?_⟩
  show Format.BodyWF (fsBodyF r.body)
  cases hbd : r.body with
  | data d =>
    rw [hbd] at hbody
    have hlen : 0 < d.length := List.length_pos_iff.2 hbody
    have : r.size = 42 + d.length := by simp [FileStore.DRec.size, hbd]
    have hle : r.size ≤ FileStore.recsSize t.recs := size_le_recsSize hr
    simp only [fsBodyF, Format.BodyWF]
    simp only [FileStore.FTxn.tlen] at hsz
    omega
  | back q =>
    rw [hbd] at hbody
    simp only [fsBodyF, Format.BodyWF]
    rcases hbody with rfl | ⟨th, h1, _⟩
    · omega
    · have := (Proofs.FileStoreBasic.recAt_some h1).1; omega

theorem logF_fileWF (log : FileStore.Log) (hi : FileStore.LogInv log) (hb : FsBounded log) :
    Format.FileWF (logF log) := by
  induction log with
  | nil => trivial
  | cons t older ih =>
    have h1 := ih hi.2.2.2 (fsBounded_tail hb)
    refine Proofs.Disk.fileWF_append _ _ h1 ?_
    rw [logF_filePos older (logInv_noEmpty hi.2.2.2)]
    exact ftxnF_wf hi hb

end Proofs.Links
