/-
  LINK lemmas: the position arithmetic of the two-phase-commit machine of C05
  (`ZodbModel/TwoPC.lean`: payloads are (length, tag) pairs, sizes are computed) against the
  record-level FileStorage of C04 (`ZodbModel/FileStore.lean`) and hence (Proofs/LinksSizes.lean)
  against the encoded lengths of C01.  Core Lean only.
-/
import ZodbModel.TwoPC
import ZodbModel.FileStore
namespace Proofs.Links
open ZodbModel

/-- a C05 record as a C04 record: the payload `(dlen, tag)` becomes `dlen` bytes `tag` -/
def twoRec (r : TwoPC.Rec) : FileStore.DRec :=
  ⟨r.oid, r.tid, r.prev, if r.del then .back 0 else .data (List.replicate r.dlen r.tag)⟩

/-- a C05 transaction (records in file order, metadata lengths only) as a C04 transaction -/
def twoTxn (t : TwoPC.FTxn) : FileStore.FTxn :=
  ⟨t.tid, t.status, List.replicate t.ul 0, List.replicate t.dl 0, List.replicate t.el 0,
    (t.recs.map twoRec).reverse⟩

theorem twoRec_size (r : TwoPC.Rec) : (twoRec r).size = r.size := by
  unfold twoRec FileStore.DRec.size TwoPC.Rec.size TwoPC.dataHdrLen
  cases r.del <;> simp

theorem fs_recsSize_append (a b : List FileStore.DRec) :
    FileStore.recsSize (a ++ b) = FileStore.recsSize a + FileStore.recsSize b := by
  induction a with
  | nil => simp [FileStore.recsSize]
  | cons r a ih => simp only [List.cons_append, FileStore.recsSize, ih]; omega

theorem twoRecs_size (rs : List TwoPC.Rec) :
    FileStore.recsSize ((rs.map twoRec).reverse) = TwoPC.recsSize rs := by
  induction rs with
  | nil => rfl
  | cons r rs ih =>
    rw [List.map_cons, List.reverse_cons, fs_recsSize_append, ih]
    simp only [FileStore.recsSize, twoRec_size, TwoPC.recsSize]
    omega

theorem twoTxn_size (t : TwoPC.FTxn) :
    (twoTxn t).size = TwoPC.transHdrLen + t.ul + t.dl + t.el + TwoPC.recsSize t.recs + 8 := by
  show (23 + (List.replicate t.ul 0).length + (List.replicate t.dl 0).length +
    (List.replicate t.el 0).length) + FileStore.recsSize ((t.recs.map twoRec).reverse) + 8 = _
  rw [twoRecs_size]
  simp [TwoPC.transHdrLen]


/-! ### reachable states of C05: `_pos` is the computed size of the committed transactions -/

def txnSize2 (t : TwoPC.FTxn) : Nat :=
  TwoPC.transHdrLen + t.ul + t.dl + t.el + TwoPC.recsSize t.recs + 8

def logSize2 (l : List TwoPC.FTxn) : Nat := 4 + (l.map txnSize2).sum

structure PosInv (s : TwoPC.State) : Prop where
  pos : s.pos = logSize2 s.txns
  thl : s.txn ≠ none → s.thl = TwoPC.transHdrLen + s.ude.1 + s.ude.2.1 + s.ude.2.2

/-- the part of the state `PosInv` reads -/
def pv (s : TwoPC.State) : List TwoPC.FTxn × Nat × Nat × (Nat × Nat × Nat) × Option TwoPC.TxnId :=
  (s.txns, s.pos, s.thl, s.ude, s.txn)

theorem posInv_of_pv {s s' : TwoPC.State} (h : pv s' = pv s) (hi : PosInv s) : PosInv s' := by
  simp only [pv, Prod.mk.injEq] at h
  obtain ⟨h1, h2, h3, h4, h5⟩ := h
  exact ⟨by rw [h1, h2]; exact hi.pos, by rw [h3, h4, h5]; exact hi.thl⟩

theorem posInv_init : PosInv {} := ⟨rfl, fun h => absurd rfl h⟩

theorem stage_pv (s : TwoPC.State) (oid del dlen tag blob) :
    pv (TwoPC.stage s oid del dlen tag blob).1 = pv s := by
  unfold TwoPC.stage; simp only []
  repeat' split
  all_goals rfl

theorem doStore_pv (s : TwoPC.State) (t oid ser dlen tag blob) :
    pv (TwoPC.doStore s t oid ser dlen tag blob).1 = pv s := by
  unfold TwoPC.doStore; simp only []
  repeat' split
  all_goals first
    | rfl
    | exact stage_pv _ _ _ _ _ _

theorem doDelete_pv (s : TwoPC.State) (t oid ser) : pv (TwoPC.doDelete s t oid ser).1 = pv s := by
  unfold TwoPC.doDelete
  repeat' split
  all_goals first
    | rfl
    | exact stage_pv _ _ _ _ _ _

theorem doVote_pv (s : TwoPC.State) (t) : pv (TwoPC.doVote s t).1 = pv s := by
  unfold TwoPC.doVote; simp only []
  repeat' split
  all_goals rfl

theorem doBegin_posInv (s : TwoPC.State) (t tid st ul dl el) (h : PosInv s) :
    PosInv (TwoPC.doBegin s t tid st ul dl el).1 := by
  unfold TwoPC.doBegin; simp only []
  repeat' split
  all_goals first
    | exact h
    | exact ⟨h.pos, fun _ => rfl⟩

theorem doAbort_posInv (s : TwoPC.State) (t) (h : PosInv s) : PosInv (TwoPC.doAbort s t).1 := by
  unfold TwoPC.doAbort; simp only []
  split
  · exact h
  · exact ⟨h.pos, fun hn => absurd rfl hn⟩

theorem doFinish_posInv (s : TwoPC.State) (t) (h : PosInv s) : PosInv (TwoPC.doFinish s t).1 := by
  unfold TwoPC.doFinish; simp only []
  split
  · exact h
  · rename_i ht
    split
    · exact h
    · rename_i hv
      have hv' : TwoPC.voted s := Classical.not_not.1 hv
      split
      · exact ⟨h.pos, fun hn => absurd rfl hn⟩
      · refine ⟨?_, fun hn => absurd rfl hn⟩
        have ht' : s.txn ≠ none := by
          intro e; rw [e] at ht; exact ht (by simp)
        have h1 := h.thl ht'
        have h2 := hv'.2.2
        have h3 := h.pos
        show s.nextpos = logSize2 (_ :: s.txns)
        simp only [logSize2, List.map_cons, List.sum_cons, txnSize2] at h3 ⊢
        omega

theorem posInv_armed (s : TwoPC.State) (a) (h : PosInv s) : PosInv { s with armed := a } := ⟨h.pos, h.thl⟩

theorem step_posInv (s : TwoPC.State) (op : TwoPC.Op) (h : PosInv s) : PosInv (TwoPC.step s op).1 := by
  unfold TwoPC.step
  split
  · exact h
  · cases op with
    | fault k => exact posInv_armed _ _ h
    | «begin» t tid st ul dl el => exact posInv_armed _ _ (doBegin_posInv s t tid st ul dl el h)
    | store t oid ser dlen tag => exact posInv_armed _ _ (posInv_of_pv (doStore_pv s t oid ser dlen tag false) h)
    | storeBlob t oid ser dlen tag => exact posInv_armed _ _ (posInv_of_pv (doStore_pv s t oid ser dlen tag true) h)
    | delete t oid ser => exact posInv_armed _ _ (posInv_of_pv (doDelete_pv s t oid ser) h)
    | vote t => exact posInv_armed _ _ (posInv_of_pv (doVote_pv s t) h)
    | finish t => exact posInv_armed _ _ (doFinish_posInv s t h)
    | abort t => exact posInv_armed _ _ (doAbort_posInv s t h)

theorem run_posInv (s : TwoPC.State) (ops : List TwoPC.Op) (h : PosInv s) : PosInv (TwoPC.run s ops) := by
  induction ops generalizing s with
  | nil => exact h
  | cons o os ih => exact ih _ (step_posInv s o h)

/-- the computed size of C05's committed transactions is C04's `logEnd` of the translated log -/
theorem logSize2_eq_logEnd (l : List TwoPC.FTxn) : logSize2 l = FileStore.logEnd (l.map twoTxn) := by
  induction l with
  | nil => rfl
  | cons t l ih =>
    simp only [logSize2, List.map_cons, List.sum_cons, FileStore.logEnd, twoTxn_size] at ih ⊢
    rw [← ih]; simp only [txnSize2]; omega

end Proofs.Links
