/-
  LINK lemmas: the position arithmetic of the two-phase-commit machine of C05
  (`ZodbModel/TwoPC.lean`: payloads are (length, tag) pairs, sizes are computed) against the
  record-level FileStorage of C04 (`ZodbModel/FileStore.lean`) and hence (Proofs/LinksSizes.lean)
  against the encoded lengths of C01.  Core Lean only.
-/
import ZodbModel.TwoPC
import ZodbModel.FileStore
namespace Proofs.Links
open ZodbModel

/-- a C05 record as a C04 record: the payload `(dlen, tag)` becomes `dlen` bytes `tag` -/
def twoRec (r : TwoPC.Rec) : FileStore.DRec :=
  ⟨r.oid, r.tid, r.prev, if r.del then .back 0 else .data (List.replicate r.dlen r.tag)⟩

/-- a C05 transaction (records in file order, metadata lengths only) as a C04 transaction -/
def twoTxn (t : TwoPC.FTxn) : FileStore.FTxn :=
  ⟨t.tid, t.status, List.replicate t.ul 0, List.replicate t.dl 0, List.replicate t.el 0,
    (t.recs.map twoRec).reverse⟩

theorem twoRec_size (r : TwoPC.Rec) : (twoRec r).size = r.size := by
  unfold twoRec FileStore.DRec.size TwoPC.Rec.size TwoPC.dataHdrLen
  cases r.del <;> simp

theorem fs_recsSize_append (a b : List FileStore.DRec) :
    FileStore.recsSize (a ++ b) = FileStore.recsSize a + FileStore.recsSize b := by
  induction a with
  | nil => simp [FileStore.recsSize]
  | cons r a ih => simp only [List.cons_append, FileStore.recsSize, ih]; omega

theorem twoRecs_size (rs : List TwoPC.Rec) :
    FileStore.recsSize ((rs.map twoRec).reverse) = TwoPC.recsSize rs := by
  induction rs with
  | nil => rfl
  | cons r rs ih =>
    rw [List.map_cons, List.reverse_cons, fs_recsSize_append, ih]
    simp only [FileStore.recsSize, twoRec_size, TwoPC.recsSize]
    omega

theorem twoTxn_size (t : TwoPC.FTxn) :
    (twoTxn t).size = TwoPC.transHdrLen + t.ul + t.dl + t.el + TwoPC.recsSize t.recs + 8 := by
  show (23 + (List.replicate t.ul 0).length + (List.replicate t.dl 0).length +
    (List.replicate t.el 0).length) + FileStore.recsSize ((t.recs.map twoRec).reverse) + 8 = _
  rw [twoRecs_size]
  simp [TwoPC.transHdrLen]

end Proofs.Links
