/-
  Helper lemmas for C04 (6): consequences that combine the refinement and the step lemmas —
  well-formedness of the abstract history, the effect of every step on it, reachable states, reopen.
-/
import Proofs.FileStoreRefine2
import Proofs.FileStoreStep
namespace Proofs.FileStoreTop
open ZodbModel ZodbModel.FileStore
open Proofs.FileStoreBasic Proofs.FileStoreRefine Proofs.FileStoreRefine2 Proofs.FileStoreStep

/-- transaction ids strictly increase in commit order -/
theorem abs_wf {s : FS} (h : FileStore.Inv s) : History.WF (abs s) := by
  unfold History.WF abs
  rw [absLog_eq_map h.log, List.pairwise_reverse, List.pairwise_map]
  exact logInv_descT h.log

theorem abs_of_log {s s' : FS} (h : s'.log = s.log) : abs s' = abs s := by
  unfold abs; rw [h]

/-- only a successful `finish` changes the abstract history: it appends the staged transaction
    (back pointers resolved in the committed log) -/
theorem step_abs (s : FS) (op : Op) :
    abs (step s op).1 = abs s ∨
    ∃ st, op = .finish ∧ s.txn = some st ∧ st.voted = true ∧
      abs (step s op).1 = abs s ++ [absTxn s.log st.toTxn] := by
  rcases step_log s op with h | ⟨st, h1, h2, h3, h4⟩
  · exact Or.inl (abs_of_log h)
  · refine Or.inr ⟨st, h1, h2, h3, ?_⟩
    unfold abs
    rw [h4]
    simp [absLog]

/-- sequences of API calls whose arguments keep the caller's side of the contract -/
def RunOk : FS → List Op → Prop
  | _, [] => True
  | s, op :: rest => OpOk s op ∧ RunOk (step s op).1 rest

theorem run_inv {s : FS} (h : FileStore.Inv s) (ops : List Op) (hok : RunOk s ops) :
    FileStore.Inv (run s ops) := by
  induction ops generalizing s with
  | nil => exact h
  | cons op rest ih =>
    obtain ⟨h1, h2⟩ := hok
    simp only [run, List.foldl_cons]
    exact ih (step_inv h op h1) h2

/-- reopening: the scan reproduces `_pos`, `_ltid` and (as a function) the index -/
theorem reopen_state {s : FS} (h : FileStore.Inv s) :
    (reopen s).log = s.log ∧ (reopen s).pos = s.pos ∧ (reopen s).ltid = s.ltid ∧
    (∀ oid, idxGet (reopen s).index oid = idxGet s.index oid) ∧ (reopen s).txn = none ∧
    (reopen s).ts = s.ltid := by
  unfold reopen
  rw [readIndex_eq]
  exact ⟨rfl, h.pos.symm, h.ltid.symm, fun oid => (idxGet_rebuild s.log oid).trans (h.index oid).symm, rfl,
    h.ltid.symm⟩

theorem reopen_abs (s : FS) : abs (reopen s) = abs s := abs_of_log rfl

theorem descT_unique {l : List FTxn} (hs : DescT l) :
    ∀ a ∈ l, ∀ b ∈ l, a.tid = b.tid → a = b := by
  induction l with
  | nil => intro a ha; cases ha
  | cons r l ih =>
    obtain ⟨h1, h2⟩ := List.pairwise_cons.1 hs
    intro a ha b hb hab
    rcases List.mem_cons.1 ha with ha | ha
    · rcases List.mem_cons.1 hb with hb | hb
      · rw [ha, hb]
      · have := h1 b hb; rw [ha] at hab; omega
    · rcases List.mem_cons.1 hb with hb | hb
      · have := h1 a ha; rw [hb] at hab; omega
      · exact ih h2 a ha b hb hab

/-- `_txn_find` finds every committed transaction (since the repair: also a short first one) -/
theorem txnFind_total {s : FS} (h : FileStore.Inv s) {t : FTxn} (ht : t ∈ s.log) :
    ∃ older, txnFind t.tid s.log = some (t, older) := by
  have hsome := txnFind_complete ht rfl
  cases hf : txnFind t.tid s.log with
  | none => simp [hf] at hsome
  | some to =>
    obtain ⟨t', older⟩ := to
    obtain ⟨newer, hlog, htid⟩ := txnFind_some hf
    have ht' : t' ∈ s.log := by rw [hlog]; simp
    have := descT_unique (logInv_descT h.log) t' ht' t ht htid
    subst this
    exact ⟨older, rfl⟩

end Proofs.FileStoreTop
