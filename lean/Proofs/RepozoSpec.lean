/-
  Helper lemmas for C18, part 5: reachable states, the readable form of the invariant, damages.
-/
import Proofs.RepozoRecover
namespace Proofs.Repozo
open ZodbModel ZodbModel.Repozo

/-- every state the system can reach: the source evolves arbitrarily (commits append complete
    transactions, a pack replaces the file, a transaction in progress adds or drops a tail),
    backups run at strictly increasing dates; a `--quick` backup is only covered under
    `QuickDetectable` (always true when the source was only appended to, see
    `quickDetectable_of_prefix`). -/
inductive Reachable : St → Prop
  | init (src : Src) : Reachable (St.init src)
  | evolve {s : St} (src' : Src) : Reachable s → Reachable { s with src := src' }
  | backup {s : St} (o : BOpts) (now : Nat) : Reachable s → s.last < now →
      (o.quick = true → o.full = false → QuickDetectable s.repo s.src now) →
      Reachable (backupStep s o now)

theorem reachable_sinv {s : St} (h : Reachable s) : SInv s := by
  induction h with
  | init src => exact sinv_init src
  | evolve src' _ ih => exact sinv_evolve ih src'
  | backup o now _ hnow hq ih => exact sinv_backup ih hnow hq

/-- the ghost history is newest first -/
theorem hist_sorted {s : St} (h : Reachable s) : s.hist.Pairwise (fun a b => b.1 < a.1) := by
  induction h with
  | init src => simp [St.init]
  | evolve src' _ ih => exact ih
  | @backup s o now hs hnow _ ih =>
    have hle := (reachable_sinv hs).histLe
    unfold backupStep
    cases doBackup s.repo s.src o now with
    | mk r' out =>
      simp only
      split
      · refine List.pairwise_cons.2 ⟨?_, ih⟩
        intro e he
        have := hle e he
        simp only; omega
      · exact ih

/-! ### the `.dat` of a chain, in chronological form -/

/-- the lines for chronologically ordered chunks starting at offset `off` -/
def datOf : List DFile → Nat → List DatLine
  | [], _ => []
  | f :: t, off => ⟨f.name, off, off + f.content.length, f.content⟩ :: datOf t (off + f.content.length)

theorem datOf_append (a b : List DFile) (off : Nat) :
    datOf (a ++ b) off = datOf a off ++ datOf b (off + (concat a).length) := by
  induction a generalizing off with
  | nil => simp [datOf, concat]
  | cons f t ih =>
    simp only [List.cons_append, datOf, ih, concat, List.length_append, List.cons.injEq, true_and]
    rw [Nat.add_assoc]

theorem chainLines_eq_datOf (l : List DFile) : chainLines l = datOf (upToFull l).reverse 0 := by
  induction l with
  | nil => rfl
  | cons f t ih =>
    simp only [chainLines, upToFull]
    split
    · simp [datOf]
    · simp only [List.reverse_cons, datOf_append, ih, concat_reverse_upToFull, datOf, Nat.zero_add]

/-! ### what the invariant says about "now" -/

theorem inv_now {r : Repo} {H : List (Nat × Bytes)} {now : Nat} (hi : Inv r H)
    (hle : ∀ f ∈ r.files, f.name.date ≤ now) :
    match H.head? with
    | none => findFiles r now = []
    | some e => concat (findFiles r now) = e.2 ∧
        ∃ f0 rest, findFiles r now = f0 :: rest ∧ f0.name.full = true ∧
          getK f0.name.date r.dats = some (datOf (findFiles r now) 0) := by
  rw [findFiles_now hi hle]
  have hg := hi.good
  cases hfl : r.files with
  | nil =>
    rw [hfl] at hg
    cases H with
    | nil => rfl
    | cons e hs => simp [Good] at hg
  | cons f t =>
    rw [hfl] at hg
    cases H with
    | nil => simp [Good] at hg
    | cons e hs =>
      obtain ⟨_, h2, _, h4, _, _⟩ := hg
      obtain ⟨D, hD, hdat⟩ := h4 rfl
      obtain ⟨f0, rest, h1, hf0, hfull⟩ := head_reverse_upToFull hD
      refine ⟨by rw [concat_reverse_upToFull]; exact h2, f0, rest, h1, hfull, ?_⟩
      rw [hf0, hdat, chainLines_eq_datOf]

/-- the quick comparison is sound whenever the last backed-up state is still a prefix of the file -/
theorem quickDetectable_of_prefix {r : Repo} {H : List (Nat × Bytes)} {src : Src} {now : Nat}
    (hi : Inv r H) (hle : ∀ f ∈ r.files, f.name.date ≤ now)
    (hp : ∀ e, H.head? = some e → e.2 <+: src.raw) : QuickDetectable r src now := by
  unfold QuickDetectable
  by_cases hne : r.files = []
  · have : findFiles r now = [] := by rw [findFiles_now hi hle, hne]; rfl
    simp [this, scandat]
  · obtain ⟨l, _, _, _, _, _, _, _, hsc, hlen, _, hcc⟩ := scandat_now hi hle hne
    rw [hsc]
    simp only
    right; right
    cases hfl : r.files with
    | nil => exact absurd hfl hne
    | cons f t =>
      have hg := hi.good
      rw [hfl] at hg
      obtain ⟨e, hs, hH, _, hb⟩ := good_head hg
      have := hp e (by rw [hH]; rfl)
      rw [hcc, hlen, hfl, hb]
      exact (List.prefix_iff_eq_take.1 this).symm

theorem find_filter {α} (p q : α → Bool) (l : List α) :
    (l.filter p).find? q = (l.filter (fun e => p e && q e)).head? := by
  induction l with
  | nil => rfl
  | cons a t ih =>
    by_cases hp : p a = true <;> by_cases hq : q a = true <;>
      simp [hp, hq, ih]

/-! ### single-file damages -/

theorem distinct_of_dec {l : List DFile} (h : DecDates l) : DistinctDates l :=
  List.Pairwise.imp (fun hab => by omega) h

theorem damaged_refl {r : Repo} {H : List (Nat × Bytes)} (hi : Inv r H) : Damaged r r :=
  ⟨rfl, distinct_of_dec hi.dec, fun f hf => ⟨f, hf, rfl⟩⟩

theorem damaged_delFile {r : Repo} {H : List (Nat × Bytes)} (hi : Inv r H) (nm : Name) :
    Damaged r (delFile nm r) :=
  ⟨rfl, List.Pairwise.sublist List.filter_sublist (distinct_of_dec hi.dec),
   fun f hf => ⟨f, (List.mem_filter.1 hf).1, rfl⟩⟩

theorem damaged_setContent {r : Repo} {H : List (Nat × Bytes)} (hi : Inv r H) (nm : Name) (c : Bytes) :
    Damaged r (setContent nm c r) := by
  refine ⟨rfl, ?_, ?_⟩
  · simp only [setContent]
    rw [DistinctDates, List.pairwise_map]
    refine List.Pairwise.imp ?_ (distinct_of_dec hi.dec)
    intro a b hab
    split <;> split <;> exact hab
  · intro f hf
    simp only [setContent, List.mem_map] at hf
    obtain ⟨g, hg, hfg⟩ := hf
    refine ⟨g, hg, ?_⟩
    rw [← hfg]; split <;> rfl

theorem not_mem_delFile {r : Repo} {x f : DFile} (hf : f ∈ (delFile x.name r).files) :
    f.name ≠ x.name := by
  simp only [delFile, List.mem_filter] at hf
  simpa using hf.2

theorem mem_setContent {r : Repo} {nm : Name} {c : Bytes} {f : DFile}
    (hf : f ∈ (setContent nm c r).files) : f.name = nm → f.content = c := by
  simp only [setContent, List.mem_map] at hf
  obtain ⟨g, _, hfg⟩ := hf
  intro hn
  rw [← hfg] at hn ⊢
  split
  · rfl
  · rename_i hne
    split at hn
    · exact absurd hn (by rename_i h; exact fun _ => hne h)
    · exact absurd hn hne

end Proofs.Repozo
