/-
  Connection model, part 6: the relation between the state in which `_commit` starts and the states
  it goes through (who got an oid, who moved from `_added` to `_creating`, what is pending on the
  writer's stack).
-/
import Proofs.ConnStore
namespace Proofs.Conn
open ZodbModel ZodbModel.Conn

/-- the oid was recorded in `_modified` or `_creating` -/
def marked (s : State) (k : Oid) : Prop := k ∈ s.modified ∨ s.creating.has k = true

/-- `s` is reached inside `_commit` started in `s0`; `P` = the objects on the writer's stack -/
structure Prog (s0 : State) (P : List ObjId) (s : State) : Prop where
  base : Str [] s0
  str : Str P s
  ctx : ctx s = ctx s0
  spSome : s.sp.isSome = s0.sp.isSome
  nextOid : s0.nextOid ≤ s.nextOid
  d1 : s.d1 = s0.d1
  oidKeep : ∀ i k, (s0.objs i).oid = some k → (s.objs i).oid = some k
  objVal : ∀ i, (s0.objs i).status ≠ .ghost → (s.objs i).val = (s0.objs i).val ∧
    (s.objs i).refs = (s0.objs i).refs ∧ (s.objs i).serial = (s0.objs i).serial
  noChange : ∀ i, (s.objs i).status = .changed → (s0.objs i).status = .changed
  noGhost : ∀ i, (s.objs i).status = .ghost → (s0.objs i).status = .ghost
  newTracked : ∀ i k, (s0.objs i).oid = none → (s.objs i).oid = some k →
    s0.nextOid ≤ k ∧ (i ∈ P ∨ (s.creating.has k = true ∧ s.cache.get k = some i))
  addedSub : ∀ k i, s.added.get k = some i → s0.added.get k = some i
  addedTracked : ∀ k i, s0.added.get k = some i →
    s.added.get k = some i ∨ (s.creating.has k = true ∧ s.cache.get k = some i)
  cacheGrow : ∀ k i, s0.cache.get k = some i → s.cache.get k = some i
  creatingNew : ∀ k, s.creating.has k = true → s0.creating.has k = true ∨
    ∃ i, (s.objs i).oid = some k ∧ ((s0.objs i).oid = none ∨ s0.added.get k = some i ∨
      (s0.cache.get k = some i ∧ ((s0.objs i).serial = 0 ∨ (s0.objs i).status = .ghost)))
  tmpCr : tmpCr s = tmpCr s0
  fresh0 : ∀ j, (s0.objs j).oid = none → s.objs j = s0.objs j ∨
    ((∃ k, s.objs j = { s0.objs j with oid := some k, jar := true }) ∧ j ∈ P) ∨
    (∃ k, (s.objs j).oid = some k ∧ s.creating.has k = true ∧ s.cache.get k = some j)
  addedSame : ∀ k j, s.added.get k = some j → s.objs j = s0.objs j
  statusKept : ∀ j, (s.objs j).status = (s0.objs j).status ∨ ∃ k, (s.objs j).oid = some k ∧ marked s k

theorem Prog.refl {s : State} (h : Str [] s) : Prog s [] s := by
  refine ⟨h, h, rfl, rfl, Nat.le_refl _, rfl, fun _ _ h => h, fun _ _ => ⟨rfl, rfl, rfl⟩, fun _ h => h,
    fun _ h => h, ?_, fun _ _ h => h, fun _ _ h => Or.inl h, fun _ _ h => h, fun _ h => Or.inl h, rfl,
    fun _ _ => Or.inl rfl, fun _ _ _ => rfl, fun _ => Or.inl rfl⟩
  intro i k h1 h2; rw [h1] at h2; cases h2

theorem Prog.mono {s0 P Q s} (h : Prog s0 P s) (hPQ : ∀ i ∈ P, i ∈ Q) : Prog s0 Q s :=
  { h with
    str := h.str.mono hPQ
    newTracked := fun i k h1 h2 => by
      obtain ⟨h3, h4⟩ := h.newTracked i k h1 h2
      exact ⟨h3, h4.elim (fun h5 => Or.inl (hPQ i h5)) Or.inr⟩
    fresh0 := fun j hj => by
      rcases h.fresh0 j hj with h1 | h1 | h1
      · exact Or.inl h1
      · exact Or.inr (Or.inl ⟨h1.1, hPQ j h1.2⟩)
      · exact Or.inr (Or.inr h1) }


theorem classify_added (s : State) (i k k') :
    (classify s i k).added.get k' = if isNewObj s (s.objs i) k = true ∧ k' = k then none else s.added.get k' := by
  unfold classify
  split
  · rename_i h; simp only [Map.get_del, h, true_and]
  · rename_i h; simp [h]

theorem classify_creating (s : State) (i k k') :
    (classify s i k).creating.has k' =
      if isNewObj s (s.objs i) k = true ∧ k' = k then true else s.creating.has k' := by
  unfold classify
  split
  · rename_i h
    simp only [Map.has, Map.get_set, h, true_and]
    split <;> simp
  · rename_i h; simp [h]

/-- field-by-field description of one successful iteration of `_store_objects` for the object `i`
    (oid `k`): `s3` is the state after it, `pushed` what the pickler put on the stack -/
structure StoreSpec (s : State) (i k : Nat) (rest : List Nat) (s3 : State) (pushed : List Nat) : Prop where
  str : Str (pushed.reverse ++ rest) s3
  nodup : pushed.Nodup
  obj : ∀ j, (s3.objs j = s.objs j) ∨
    (j = i ∧ (s3.objs j).oid = (s.objs j).oid ∧ (s3.objs j).jar = (s.objs j).jar ∧
      (s3.objs j).status = .uptodate ∧
      ((s.objs j).status ≠ .ghost → (s3.objs j).val = (s.objs j).val ∧
        (s3.objs j).refs = (s.objs j).refs ∧ (s3.objs j).serial = (s.objs j).serial)) ∨
    (j ≠ i ∧ j ∈ pushed ∧ (s.objs j).oid = none ∧
      s3.objs j = { s.objs j with oid := (s3.objs j).oid, jar := true } ∧
      ∃ k', (s3.objs j).oid = some k' ∧ s.nextOid ≤ k' ∧ k' < s3.nextOid)
  pushedNew : ∀ j ∈ pushed, j ≠ i ∧ (s.objs j).oid = none ∧ (s3.objs j).oid ≠ none
  cache : ∀ k', s3.cache.get k' = if k' = k then some i else s.cache.get k'
  added : ∀ k', s3.added.get k' =
    if isNewObj s (s.objs i) k = true ∧ k' = k then none else s.added.get k'
  creating : ∀ k', s3.creating.has k' =
    if isNewObj s (s.objs i) k = true ∧ k' = k then true else s.creating.has k'
  modified : s3.modified = if isNewObj s (s.objs i) k = true then s.modified else s.modified ++ [k]
  nextOid : s.nextOid ≤ s3.nextOid
  ctx : ctx s3 = ctx s
  spSome : s3.sp.isSome = s.sp.isSome
  tmpCr : tmpCr s3 = tmpCr s
  d1 : s3.d1 = s.d1
  refsOid : ∀ x ∈ (s3.objs i).refs, (s3.objs x).oid ≠ none
  notGhost : (s3.objs i).status ≠ .ghost
  stagedNone : s.sp = none → s3.sp = none ∧ s3.nstores = s.nstores + 1 ∧
    s3.staged = s.staged ++ [(k, ⟨(s3.objs i).serial, (s3.objs i).val, (s3.objs i).refs⟩)]
  stagedTmp : ∀ t, s.sp = some t →
    s3.sp = some (t.store k ⟨(s3.objs i).serial, (s3.objs i).val, (s3.objs i).refs⟩) ∧
    s3.staged = s.staged ∧ (s3.objs i).status = .uptodate

theorem StoreSpec.marked_mono {s i k rest s3 pushed} (sp : StoreSpec s i k rest s3 pushed) (k' : Nat)
    (h : marked s k') : marked s3 k' := by
  unfold marked at h ⊢
  rw [sp.modified, sp.creating]
  rcases h with h | h
  · left; split
    · exact h
    · exact List.mem_append_left _ h
  · right; split
    · rfl
    · exact h

theorem StoreSpec.marked_self {s i k rest s3 pushed} (sp : StoreSpec s i k rest s3 pushed) :
    marked s3 k := by
  unfold marked
  rw [sp.modified, sp.creating]
  by_cases h : isNewObj s (s.objs i) k = true
  · right; simp [h]
  · left; simp [h]

theorem storeOne_spec {s : State} {i k : Nat} {rest : List Nat}
    (hS : Str (i :: rest) s) (hk : (s.objs i).oid = some k)
    (hnew : s.added.get k ≠ none → isNewObj s (s.objs i) k = true)
    (hok : (storeOne s i).1.2 = none) :
    StoreSpec s i k rest (storeOne s i).1.1 (storeOne s i).2 := by
  unfold storeOne at hok ⊢
  simp only [hk] at hok ⊢
  have hobj1 := access_objs (classify s i k) i
  have hbooks1 := access_books (classify s i k) i
  have hstores1 := access_stores (classify s i k) i
  have hctx1 := access_ctx (classify s i k) i
  have hnext1 := access_nextOid (classify s i k) i
  have htc1 := access_tmpCr (classify s i k) i
  have hstr1 := access_str (classify_str hS i k (List.mem_cons_self) hk) i
  have hng1 := access_ok_nonghost (classify s i k) i
  generalize access (classify s i k) i = a at *
  obtain ⟨a1, a2⟩ := a
  cases a2 with
  | some e => simp at hok
  | none =>
    simp only at hok ⊢ hobj1 hbooks1 hstores1 hctx1 hnext1 hstr1 htc1 hng1
    have hng1 := hng1 trivial
    rw [classify_tmpCr] at htc1
    simp only [classify_objs] at hobj1
    rw [classify_nextOid] at hnext1
    -- the pickler
    have ser := serialize_ok a1 (a1.objs i).refs
    have hrefs := serialize_refs_oid a1 (a1.objs i).refs
    have hstr2 := serialize_str hstr1 (a1.objs i).refs
    have hbooks2 := serialize_books a1 (a1.objs i).refs
    have hstores2 := serialize_stores a1 (a1.objs i).refs
    have hctx2 := serialize_ctx a1 (a1.objs i).refs
    have htc2 := serialize_tmpCr a1 (a1.objs i).refs
    generalize serialize a1 (a1.objs i).refs = sr at *
    obtain ⟨s2, pushed⟩ := sr
    simp only at hok ⊢ ser hstr2 hbooks2 hstores2 hctx2 htc2 hrefs
    -- the store
    have hnone3 := storeRec_none s2 i k ⟨(a1.objs i).serial, (a1.objs i).val, (a1.objs i).refs⟩
    have htmp3 := storeRec_tmp s2 i k ⟨(a1.objs i).serial, (a1.objs i).val, (a1.objs i).refs⟩
    have hobj3 := storeRec_objs s2 i k ⟨(a1.objs i).serial, (a1.objs i).val, (a1.objs i).refs⟩
    have hcache3 := storeRec_cache s2 i k ⟨(a1.objs i).serial, (a1.objs i).val, (a1.objs i).refs⟩ hok
    have hbooks3 := storeRec_books s2 i k ⟨(a1.objs i).serial, (a1.objs i).val, (a1.objs i).refs⟩
    have hctx3 := storeRec_ctx s2 i k ⟨(a1.objs i).serial, (a1.objs i).val, (a1.objs i).refs⟩
    have hnext3 := storeRec_nextOid s2 i k ⟨(a1.objs i).serial, (a1.objs i).val, (a1.objs i).refs⟩
    have hsp3 := storeRec_spSome s2 i k ⟨(a1.objs i).serial, (a1.objs i).val, (a1.objs i).refs⟩
    have htc3 := storeRec_tmpCr s2 i k ⟨(a1.objs i).serial, (a1.objs i).val, (a1.objs i).refs⟩
    have hadd2 : s2.added.get k = none := by
      simp only [books, Prod.mk.injEq] at hbooks1 hbooks2
      rw [hbooks2.1, hbooks1.1, classify_added]
      split
      · rfl
      · rename_i hn
        cases hc : s.added.get k with
        | none => rfl
        | some j => exact absurd ⟨hnew (by rw [hc]; simp), rfl⟩ hn
    have hoid1 : (a1.objs i).oid = some k := by
      rcases hobj1 i with h | h
      · rw [h]; exact hk
      · rw [h.2.2.2.1]; exact hk
    have hoid2 : (s2.objs i).oid = some k := by
      rw [ser.keep i (by rw [hoid1]; simp)]; exact hoid1
    have hstr3 := storeRec_str (Q := pushed.reverse ++ rest) hstr2 i k
      ⟨(a1.objs i).serial, (a1.objs i).val, (a1.objs i).refs⟩ hoid2 hadd2 (by
        intro j hj
        simp only [List.mem_append, List.mem_cons, List.mem_reverse] at hj ⊢
        rcases hj with (hj | hj) | hj
        · exact Or.inl hj
        · exact Or.inr (Or.inr hj)
        · exact Or.inr (Or.inl hj)) hok
    generalize storeRec s2 i k ⟨(a1.objs i).serial, (a1.objs i).val, (a1.objs i).refs⟩ = r at *
    obtain ⟨s3, e3⟩ := r
    simp only at hok hobj3 hcache3 hbooks3 hctx3 hnext3 hsp3 hstr3 htc3 hnone3 htmp3 ⊢
    simp only [books, stores, Prod.mk.injEq, classify_cache, classify_sp, classify_staged, classify_d1] at hbooks1 hbooks2 hbooks3 hstores1 hstores2
    have hfr := ser.frame
    simp only at hfr
    -- each object: what happened between `s` and `s3`
    have hobj : ∀ j, (s3.objs j = s.objs j) ∨
        (j = i ∧ (s3.objs j).oid = (s.objs j).oid ∧ (s3.objs j).jar = (s.objs j).jar ∧
          (s3.objs j).status = .uptodate ∧
          ((s.objs j).status ≠ .ghost → (s3.objs j).val = (s.objs j).val ∧
            (s3.objs j).refs = (s.objs j).refs ∧ (s3.objs j).serial = (s.objs j).serial)) ∨
        (j ≠ i ∧ j ∈ pushed ∧ (s.objs j).oid = none ∧
          s3.objs j = { s.objs j with oid := (s3.objs j).oid, jar := true } ∧
          ∃ k', (s3.objs j).oid = some k' ∧ s.nextOid ≤ k' ∧ k' < s3.nextOid) := by
      intro j
      by_cases hji : j = i
      · subst hji
        have h2 : s2.objs j = a1.objs j := ser.keep j (by rw [hoid1]; simp)
        rcases hobj3 j with h3 | h3
        · rcases hobj1 j with h1 | h1
          · left; rw [h3, h2, h1]
          · right; left
            rw [h3, h2]
            refine ⟨rfl, h1.2.2.2.1, h1.2.2.2.2, h1.2.2.1, fun hg => absurd h1.2.1 hg⟩
        · right; left
          rw [h3.2.1, h2]
          rcases hobj1 j with h1 | h1
          · rw [h1]; simp
          · refine ⟨rfl, h1.2.2.2.1, h1.2.2.2.2, rfl, fun hg => absurd h1.2.1 hg⟩
      · have h3 : s3.objs j = s2.objs j := by
          rcases hobj3 j with h3 | h3
          · exact h3
          · exact absurd h3.1 hji
        have h1 : a1.objs j = s.objs j := by
          rcases hobj1 j with h1 | h1
          · exact h1
          · exact absurd h1.1 hji
        by_cases hp : j ∈ pushed
        · right; right
          obtain ⟨hn, k', hk', hge, hlt⟩ := ser.pushedNew j hp
          simp only at hk' hlt
          rw [h1] at hn
          refine ⟨hji, hp, hn, ?_, k', by rw [h3]; exact hk', by omega, by rw [hnext3]; exact hlt⟩
          rw [h3, ser.pushedObj j hp, h1]
        · left
          rw [h3]
          by_cases hn : (a1.objs j).oid = none
          · rw [ser.other j hn hp, h1]
          · rw [ser.keep j hn, h1]
    have hnext : s.nextOid ≤ s3.nextOid := by have := ser.mono; simp only at this; omega
    have hcache : ∀ k', s3.cache.get k' = if k' = k then some i else s.cache.get k' := by
      intro k'; rw [hcache3, hstores2.1, hstores1.1, Map.get_set]
    have hadded : ∀ k', s3.added.get k' =
        if isNewObj s (s.objs i) k = true ∧ k' = k then none else s.added.get k' := by
      intro k'; rw [hbooks3.1, hbooks2.1, hbooks1.1, classify_added]
    have hcreating : ∀ k', s3.creating.has k' =
        if isNewObj s (s.objs i) k = true ∧ k' = k then true else s.creating.has k' := by
      intro k'; rw [hbooks3.2.1, hbooks2.2.1, hbooks1.2.1, classify_creating]
    have hi2 : s2.objs i = a1.objs i := ser.keep i (by rw [hoid1]; simp)
    have hi3 : (s3.objs i).serial = (a1.objs i).serial ∧ (s3.objs i).val = (a1.objs i).val ∧
        (s3.objs i).refs = (a1.objs i).refs ∧ (s3.objs i).status ≠ .ghost := by
      rcases hobj3 i with h | h
      · rw [h, hi2]; exact ⟨rfl, rfl, rfl, hng1⟩
      · rw [h.2.1, hi2]; simp
    have hoid3 : ∀ x, (s2.objs x).oid ≠ none → (s3.objs x).oid ≠ none := by
      intro x hx
      rcases hobj3 x with h | h
      · rw [h]; exact hx
      · rw [h.2.1]; rw [h.1] at hx; exact hx
    constructor
    · exact hstr3
    · exact ser.nodup
    · exact hobj
    · intro j hj
      obtain ⟨hn, k', hk', _⟩ := ser.pushedNew j hj
      simp only at hk'
      have hji : j ≠ i := by intro he; subst he; rw [hoid1] at hn; cases hn
      refine ⟨hji, ?_, hoid3 j (by rw [hk']; simp)⟩
      rcases hobj1 j with h | h
      · rw [← h]; exact hn
      · exact absurd h.1 hji
    · exact hcache
    · exact hadded
    · exact hcreating
    · rw [hbooks3.2.2.1, hbooks2.2.2.1, hbooks1.2.2.1, classify_modified]
    · exact hnext
    · rw [hctx3, hctx2, hctx1, classify_ctx]
    · rw [hsp3, hstores2.2.1, hstores1.2.1]
    · rw [htc3, htc2, htc1]
    · rw [hbooks3.2.2.2, hbooks2.2.2.2, hbooks1.2.2.2]
    · intro x hx
      rw [hi3.2.2.1] at hx
      exact hoid3 x (hrefs x hx)
    · exact hi3.2.2.2
    · intro hsp
      have hsp2 : s2.sp = none := by rw [hstores2.2.1, hstores1.2.1]; exact hsp
      obtain ⟨h1, h2, h3⟩ := hnone3 hsp2 hok
      refine ⟨h1, by rw [h2, hstores2.2.2.2, hstores1.2.2.2]; unfold classify; split <;> rfl, ?_⟩
      rw [h3, hstores2.2.2.1, hstores1.2.2.1, hi3.1, hi3.2.1, hi3.2.2.1]
    · intro t hsp
      have hsp2 : s2.sp = some t := by rw [hstores2.2.1, hstores1.2.1]; exact hsp
      obtain ⟨h1, h2, h3⟩ := htmp3 t hsp2
      refine ⟨by rw [h1, hi3.1, hi3.2.1, hi3.2.2.1], by rw [h2, hstores2.2.2.1, hstores1.2.2.1], h3⟩


/-- what one successful iteration of `_store_objects` guarantees -/
structure StepOK (s0 s : State) (i : ObjId) (rest : List ObjId) (s3 : State) (pushed : List ObjId) : Prop where
  prog : Prog s0 (pushed.reverse ++ rest) s3
  pushedFresh : ∀ j ∈ pushed, (s.objs j).oid = none ∧ (s0.objs j).oid = none ∧
    ∃ k', s3.objs j = { s0.objs j with oid := some k', jar := true } ∧ s0.nextOid ≤ k'

/-- one successful iteration of `_store_objects` -/
theorem storeOne_prog {s0 s : State} {i k : Nat} {rest : List Nat} {s3 : State} {pushed : List Nat}
    (hP : Prog s0 (i :: rest) s) (hk : (s.objs i).oid = some k)
    (hnew : s.added.get k ≠ none → isNewObj s (s.objs i) k = true)
    (hknown : s.cache.get k = some i ∨ s.added.get k = some i ∨ (s0.objs i).oid = none)
    (hnew0 : (s0.objs i).oid = none → isNewObj s (s.objs i) k = true)
    (sp : StoreSpec s i k rest s3 pushed) :
    StepOK s0 s i rest s3 pushed := by
  have hobj := sp.obj
  have hcache := sp.cache
  have hadded := sp.added
  have hcreating := sp.creating
  have hnext := sp.nextOid
  have hisnew : s.added.get k = some i → isNewObj s (s.objs i) k = true :=
    fun h => hnew (by rw [h]; simp)
  refine ⟨?_, ?_⟩
  rotate_left
  · -- pushedFresh
    intro j hj
    obtain ⟨hji, hsn, hsome⟩ := sp.pushedNew j hj
    have h0n : (s0.objs j).oid = none := by
      cases h0 : (s0.objs j).oid with
      | none => rfl
      | some k0 => have := hP.oidKeep j k0 h0; rw [hsn] at this; cases this
    refine ⟨hsn, h0n, ?_⟩
    have hs0 : s.objs j = s0.objs j := by
      rcases hP.fresh0 j h0n with h | h | h
      · exact h
      · obtain ⟨⟨k2, hk2⟩, _⟩ := h; rw [hk2] at hsn; cases hsn
      · obtain ⟨k2, hk2, _⟩ := h; rw [hk2] at hsn; cases hsn
    rcases hobj j with h | h | h
    · rw [h, hsn] at hsome; exact absurd rfl hsome
    · exact absurd h.1 hji
    · obtain ⟨k2, hk2, hge, _⟩ := h.2.2.2.2
      refine ⟨k2, ?_, by have := hP.nextOid; omega⟩
      rw [h.2.2.2.1, hk2, hs0]
  constructor
  · exact hP.base
  · exact sp.str
  · rw [sp.ctx]; exact hP.ctx
  · rw [sp.spSome]; exact hP.spSome
  · have := hP.nextOid; omega
  · rw [sp.d1]; exact hP.d1
  · intro j k' hj
    have := hP.oidKeep j k' hj
    rcases hobj j with h | h | h
    · rw [h]; exact this
    · rw [h.2.1]; exact this
    · rw [h.2.2.1] at this; cases this
  · intro j hg
    have h0 := hP.objVal j hg
    rcases hobj j with h | h | h
    · rw [h]; exact h0
    · by_cases hsg : (s.objs j).status = .ghost
      · exact absurd (hP.noGhost j hsg) hg
      · have := h.2.2.2.2 hsg; rw [this.1, this.2.1, this.2.2]; exact h0
    · rw [h.2.2.2.1]; exact h0
  · intro j hc
    apply hP.noChange
    rcases hobj j with h | h | h
    · rw [← h]; exact hc
    · rw [h.2.2.2.1] at hc; cases hc
    · rw [h.2.2.2.1] at hc; exact hc
  · intro j hc
    apply hP.noGhost
    rcases hobj j with h | h | h
    · rw [← h]; exact hc
    · rw [h.2.2.2.1] at hc; cases hc
    · rw [h.2.2.2.1] at hc; exact hc
  · -- newTracked
    intro j k' h0 hj
    have hstr := hP.str
    have hoidj : (s.objs j).oid = some k' ∨ (j ≠ i ∧ j ∈ pushed ∧ s.nextOid ≤ k') := by
      rcases hobj j with h | h | h
      · left; rw [← h]; exact hj
      · left; rw [← h.2.1]; exact hj
      · right; obtain ⟨k2, hk2, hge, _⟩ := h.2.2.2.2
        rw [hk2] at hj; cases hj; exact ⟨h.1, h.2.1, hge⟩
    rcases hoidj with hoidj | hoidj
    · obtain ⟨hge, htr⟩ := hP.newTracked j k' h0 hoidj
      refine ⟨hge, ?_⟩
      by_cases hji : j = i
      · subst hji
        rw [hk] at hoidj; cases hoidj
        right
        rw [hcreating, hcache]
        simp [hnew0 h0]
      · rcases htr with htr | htr
        · left
          simp only [List.mem_cons] at htr
          simp only [List.mem_append, List.mem_reverse]
          rcases htr with htr | htr
          · exact absurd htr hji
          · exact Or.inr htr
        · right
          rw [hcreating, hcache]
          have hne : k' ≠ k := by
            intro he; subst he
            exact hji (hstr.inj j i k' hoidj hk)
          simp [hne, htr.1, htr.2]
    · refine ⟨by have := hP.nextOid; omega, Or.inl ?_⟩
      simp only [List.mem_append, List.mem_reverse]
      exact Or.inl hoidj.2.1
  · -- addedSub
    intro k' j hj
    rw [hadded] at hj
    split at hj
    · cases hj
    · exact hP.addedSub k' j hj
  · -- addedTracked
    intro k' j hj
    have hstr := hP.str
    rcases hP.addedTracked k' j hj with h | h
    · by_cases hkk : k' = k
      · subst hkk
        have hji : j = i := hstr.inj j i k' (hstr.addedS k' j h).1 hk
        subst hji
        right
        rw [hcreating, hcache]
        simp [hisnew h]
      · left; rw [hadded]; simp [hkk, h]
    · right
      rw [hcreating, hcache]
      by_cases hkk : k' = k
      · subst hkk
        have hji : j = i := hstr.inj j i k' (hstr.cacheS k' j h.2) hk
        subst hji
        simp [h.1]
      · simp [hkk, h.1, h.2]
  · -- cacheGrow
    intro k' j hj
    have hstr := hP.str
    have h := hP.cacheGrow k' j hj
    rw [hcache]
    by_cases hkk : k' = k
    · subst hkk
      have hji : j = i := hstr.inj j i k' (hstr.cacheS k' j h) hk
      simp [hji]
    · simp [hkk, h]
  · -- creatingNew
    intro k' hc
    rw [hcreating] at hc
    have hkeep : ∀ j k2, (s.objs j).oid = some k2 → (s3.objs j).oid = some k2 := by
      intro j k2 hj
      rcases hobj j with h | h | h
      · rw [h]; exact hj
      · rw [h.2.1]; exact hj
      · rw [h.2.2.1] at hj; cases hj
    by_cases hcond : isNewObj s (s.objs i) k = true ∧ k' = k
    · obtain ⟨hisn, hkk⟩ := hcond
      subst hkk
      right
      refine ⟨i, hkeep i k' hk, ?_⟩
      rcases hknown with h | h | h
      · by_cases h0 : (s0.objs i).oid = none
        · exact Or.inl h0
        · right
          obtain ⟨k0, hk0⟩ := Option.ne_none_iff_exists'.1 h0
          have hkk : k0 = k' := by
            have := hP.oidKeep i k0 hk0; rw [hk] at this; cases this; rfl
          subst hkk
          have hser : (s.objs i).serial = 0 := by
            unfold isNewObj at hisn
            simp only [Bool.and_eq_true, beq_iff_eq] at hisn
            exact hisn.1
          have hser0 : (s0.objs i).serial = 0 ∨ (s0.objs i).status = .ghost := by
            by_cases hg : (s0.objs i).status = .ghost
            · exact Or.inr hg
            · left; rw [← (hP.objVal i hg).2.2]; exact hser
          have hkn := hP.base.known i k0 hk0
          simp only [List.not_mem_nil, or_false] at hkn
          rcases hkn with hkn | hkn
          · exact Or.inr ⟨hkn, hser0⟩
          · exact Or.inl hkn
      · exact Or.inr (Or.inl (hP.addedSub k' i h))
      · exact Or.inl h
    · rw [if_neg hcond] at hc
      rcases hP.creatingNew k' hc with h | ⟨j, hj, h⟩
      · exact Or.inl h
      · exact Or.inr ⟨j, hkeep j k' hj, h⟩
  · -- tmpCr
    rw [sp.tmpCr]; exact hP.tmpCr
  · -- fresh0
    intro j h0
    have hstr := hP.str
    rcases hP.fresh0 j h0 with h | h | h
    · have hnone : (s.objs j).oid = none := by rw [h]; exact h0
      rcases hobj j with h' | h' | h'
      · left; rw [h', h]
      · rw [h'.1, hk] at hnone; cases hnone
      · right; left
        refine ⟨?_, ?_⟩
        · obtain ⟨k2, hk2, _⟩ := h'.2.2.2.2
          refine ⟨k2, ?_⟩
          rw [h'.2.2.2.1, hk2, h]
        · simp only [List.mem_append, List.mem_reverse]; exact Or.inl h'.2.1
    · obtain ⟨⟨k2, hk2⟩, hmem⟩ := h
      have hoidj : (s.objs j).oid = some k2 := by rw [hk2]
      by_cases hji : j = i
      · subst hji
        rw [hk] at hoidj; cases hoidj
        right; right
        refine ⟨k, ?_, ?_, ?_⟩
        · rcases hobj j with h' | h' | h'
          · rw [h']; exact hk
          · rw [h'.2.1]; exact hk
          · exact absurd rfl h'.1
        · rw [hcreating]; simp [hnew0 h0]
        · rw [hcache]; simp
      · right; left
        have hsame : s3.objs j = s.objs j := by
          rcases hobj j with h' | h' | h'
          · exact h'
          · exact absurd h'.1 hji
          · rw [h'.2.2.1] at hoidj; cases hoidj
        refine ⟨⟨k2, by rw [hsame, hk2]⟩, ?_⟩
        simp only [List.mem_cons] at hmem
        simp only [List.mem_append, List.mem_reverse]
        rcases hmem with hmem | hmem
        · exact absurd hmem hji
        · exact Or.inr hmem
    · obtain ⟨k2, hk2, hcr, hca⟩ := h
      right; right
      refine ⟨k2, ?_, ?_, ?_⟩
      · rcases hobj j with h' | h' | h'
        · rw [h']; exact hk2
        · rw [h'.2.1]; exact hk2
        · rw [h'.2.2.1] at hk2; cases hk2
      · rw [hcreating]; split
        · rfl
        · exact hcr
      · rw [hcache]
        by_cases hkk : k2 = k
        · subst hkk
          have := hstr.inj j i k2 hk2 hk
          simp [this]
        · simp [hkk, hca]
  · -- addedSame
    intro k' j hj
    have hstr := hP.str
    rw [hadded] at hj
    split at hj
    · cases hj
    · rename_i hcond
      rw [← hP.addedSame k' j hj]
      have hoidj := (hstr.addedS k' j hj).1
      rcases hobj j with h' | h' | h'
      · exact h'
      · exfalso
        have hji := h'.1
        subst hji
        rw [hk] at hoidj; cases hoidj
        exact hcond ⟨hisnew hj, rfl⟩
      · rw [h'.2.2.1] at hoidj; cases hoidj


  · -- statusKept
    intro j
    rcases hobj j with h | h | h
    · rcases hP.statusKept j with h' | ⟨k', hk', hm⟩
      · left; rw [h]; exact h'
      · right; exact ⟨k', by rw [h]; exact hk', sp.marked_mono k' hm⟩
    · right
      refine ⟨k, ?_, sp.marked_self⟩
      rw [h.2.1, h.1]; exact hk
    · rcases hP.statusKept j with h' | ⟨k', hk', hm⟩
      · left; rw [h.2.2.2.1]; exact h'
      · rw [h.2.2.1] at hk'; cases hk'

/-- a failed iteration of `_store_objects` that is *not* the defect situation D1: the object is not
    new and nothing is pending -/
theorem storeOne_fail_prog {s0 s : State} {i k : Nat}
    (hP : Prog s0 [i] s) (hk : (s.objs i).oid = some k)
    (hnn : isNewObj s (s.objs i) k = false) (hadd : s.added.get k = none)
    (h0 : (s0.objs i).oid ≠ none) (hc : s.cache.get k = some i)
    (hpush : (storeOne s i).2 = []) (hfail : (storeOne s i).1.2 ≠ none) :
    Prog s0 [] (storeOne s i).1.1 := by
  -- what the failed iteration did to the state
  have key : let s' := (storeOne s i).1.1
      (∀ j, j ≠ i → s'.objs j = s.objs j) ∧
      (s'.objs i = s.objs i ∨ ((s.objs i).status = .ghost ∧ (s'.objs i).status = .uptodate ∧
        (s'.objs i).oid = some k ∧ (s'.objs i).jar = (s.objs i).jar)) ∧
      s'.cache = s.cache ∧ s'.added = s.added ∧ s'.creating = s.creating ∧
      s'.d1 = s.d1 ∧ s.nextOid ≤ s'.nextOid ∧ ctx s' = ctx s ∧ s'.sp.isSome = s.sp.isSome ∧
      tmpCr s' = tmpCr s ∧ s'.modified = s.modified ++ [k] := by
    unfold storeOne at hpush hfail ⊢
    simp only [hk] at hpush hfail ⊢
    have hcl : classify s i k = { s with modified := s.modified ++ [k] } := by
      unfold classify; simp [hnn]
    have hobj1 := access_objs (classify s i k) i
    have hbooks1 := access_books (classify s i k) i
    have hstores1 := access_stores (classify s i k) i
    have hctx1 := access_ctx (classify s i k) i
    have hnext1 := access_nextOid (classify s i k) i
    have htc1 := access_tmpCr (classify s i k) i
    generalize access (classify s i k) i = a at *
    obtain ⟨a1, a2⟩ := a
    simp only [classify_objs, classify_nextOid, classify_tmpCr, classify_ctx] at hobj1 hnext1 htc1 hctx1
    simp only [books, stores, Prod.mk.injEq, classify_cache, classify_sp, classify_staged, classify_d1]
      at hbooks1 hstores1
    have hadd1 : a1.added = s.added := by rw [hbooks1.1, hcl]
    have hcr1 : a1.creating = s.creating := by rw [hbooks1.2.1, hcl]
    have hmod1 : a1.modified = s.modified ++ [k] := by rw [hbooks1.2.2.1, hcl]
    have hobjA : (∀ j, j ≠ i → a1.objs j = s.objs j) ∧
        (a1.objs i = s.objs i ∨ ((s.objs i).status = .ghost ∧ (a1.objs i).status = .uptodate ∧
          (a1.objs i).oid = some k ∧ (a1.objs i).jar = (s.objs i).jar)) := by
      refine ⟨?_, ?_⟩
      · intro j hj
        rcases hobj1 j with h | h
        · exact h
        · exact absurd h.1 hj
      · rcases hobj1 i with h | h
        · exact Or.inl h
        · right; rw [← hk]; exact h.2
    cases a2 with
    | some e =>
      simp only
      exact ⟨hobjA.1, hobjA.2, hstores1.1, hadd1, hcr1, hbooks1.2.2.2, by omega, hctx1,
        by rw [hstores1.2.1], htc1, hmod1⟩
    | none =>
      simp only at hpush hfail ⊢
      have ser := serialize_ok a1 (a1.objs i).refs
      have hbooks2 := serialize_books a1 (a1.objs i).refs
      have hstores2 := serialize_stores a1 (a1.objs i).refs
      have hctx2 := serialize_ctx a1 (a1.objs i).refs
      have htc2 := serialize_tmpCr a1 (a1.objs i).refs
      generalize serialize a1 (a1.objs i).refs = sr at *
      obtain ⟨s2, pushed⟩ := sr
      simp only at hpush hfail ser hbooks2 hstores2 hctx2 htc2 ⊢
      subst hpush
      have hobj2 := ser.objs_of_nil rfl
      simp only at hobj2
      have hmono := ser.mono
      simp only at hmono
      simp only [books, stores, Prod.mk.injEq] at hbooks2 hstores2
      have hf3 := storeRec_fail_objs s2 i k ⟨(a1.objs i).serial, (a1.objs i).val, (a1.objs i).refs⟩ hfail
      have hbooks3 := storeRec_books s2 i k ⟨(a1.objs i).serial, (a1.objs i).val, (a1.objs i).refs⟩
      have hctx3 := storeRec_ctx s2 i k ⟨(a1.objs i).serial, (a1.objs i).val, (a1.objs i).refs⟩
      have hnext3 := storeRec_nextOid s2 i k ⟨(a1.objs i).serial, (a1.objs i).val, (a1.objs i).refs⟩
      have hsp3 := storeRec_spSome s2 i k ⟨(a1.objs i).serial, (a1.objs i).val, (a1.objs i).refs⟩
      have htc3 := storeRec_tmpCr s2 i k ⟨(a1.objs i).serial, (a1.objs i).val, (a1.objs i).refs⟩
      generalize storeRec s2 i k ⟨(a1.objs i).serial, (a1.objs i).val, (a1.objs i).refs⟩ = r at *
      obtain ⟨s3, e3⟩ := r
      simp only [books, Prod.mk.injEq] at hf3 hbooks3 hctx3 hnext3 hsp3 htc3 ⊢
      refine ⟨?_, ?_, by rw [hf3.2, hstores2.1, hstores1.1], by rw [hbooks3.1, hbooks2.1, hadd1],
        by rw [hbooks3.2.1, hbooks2.2.1, hcr1],
        by rw [hbooks3.2.2.2, hbooks2.2.2.2, hbooks1.2.2.2], by omega, by rw [hctx3, hctx2, hctx1],
        by rw [hsp3, hstores2.2.1, hstores1.2.1], by rw [htc3, htc2, htc1],
        by rw [hbooks3.2.2.1, hbooks2.2.2.1, hmod1]⟩
      · intro j hj
        rw [hf3.1, hobj2]; exact hobjA.1 j hj
      · rw [hf3.1, hobj2]; exact hobjA.2
  generalize (storeOne s i).1.1 = s' at key ⊢
  obtain ⟨hoth, hi, hcache, hadded, hcreating, hd1, hnext, hctx, hsp, htc, hmod⟩ := key
  have hmk : ∀ k', marked s k' → marked s' k' := by
    intro k' h
    unfold marked at h ⊢
    rw [hmod, hcreating]
    rcases h with h | h
    · exact Or.inl (List.mem_append_left _ h)
    · exact Or.inr h
  have hoj : ∀ j, (s'.objs j).oid = (s.objs j).oid ∧ (s'.objs j).jar = (s.objs j).jar := by
    intro j
    by_cases hj : j = i
    · subst hj
      rcases hi with h | h
      · rw [h]; exact ⟨rfl, rfl⟩
      · exact ⟨by rw [h.2.2.1, hk], h.2.2.2⟩
    · rw [hoth j hj]; exact ⟨rfl, rfl⟩
  have hstr : Str [] s' := (hP.str.transfer hoj hcache hadded hnext).drop (by rw [(hoj i).1]; exact hk)
    (Or.inl (by rw [hcache]; exact hc))
  have hne0 : ∀ j, (s0.objs j).oid = none → j ≠ i := by
    intro j hj he; subst he; exact h0 hj
  constructor
  · exact hP.base
  · exact hstr
  · rw [hctx]; exact hP.ctx
  · rw [hsp]; exact hP.spSome
  · have := hP.nextOid; omega
  · rw [hd1]; exact hP.d1
  · intro j k' hj; rw [(hoj j).1]; exact hP.oidKeep j k' hj
  · intro j hg
    by_cases hj : j = i
    · subst hj
      rcases hi with h | h
      · rw [h]; exact hP.objVal j hg
      · exact absurd (hP.noGhost j h.1) hg
    · rw [hoth j hj]; exact hP.objVal j hg
  · intro j hch
    by_cases hj : j = i
    · subst hj
      rcases hi with h | h
      · rw [h] at hch; exact hP.noChange j hch
      · rw [h.2.1] at hch; cases hch
    · rw [hoth j hj] at hch; exact hP.noChange j hch
  · intro j hch
    by_cases hj : j = i
    · subst hj
      rcases hi with h | h
      · rw [h] at hch; exact hP.noGhost j hch
      · rw [h.2.1] at hch; cases hch
    · rw [hoth j hj] at hch; exact hP.noGhost j hch
  · intro j k' hj0 hj
    rw [(hoj j).1] at hj
    obtain ⟨h1, h2⟩ := hP.newTracked j k' hj0 hj
    refine ⟨h1, ?_⟩
    rcases h2 with h2 | h2
    · simp only [List.mem_singleton] at h2; exact absurd h2 (hne0 j hj0)
    · right; rw [hcreating, hcache]; exact h2
  · intro k' j hj; rw [hadded] at hj; exact hP.addedSub k' j hj
  · intro k' j hj; rw [hadded, hcreating, hcache]; exact hP.addedTracked k' j hj
  · intro k' j hj; rw [hcache]; exact hP.cacheGrow k' j hj
  · intro k' hk'
    rw [hcreating] at hk'
    rcases hP.creatingNew k' hk' with h | ⟨j, hj, h⟩
    · exact Or.inl h
    · exact Or.inr ⟨j, by rw [(hoj j).1]; exact hj, h⟩
  · rw [htc]; exact hP.tmpCr
  · intro j hj0
    rw [hoth j (hne0 j hj0)]
    rcases hP.fresh0 j hj0 with h | h | h
    · exact Or.inl h
    · simp only [List.mem_singleton] at h; exact absurd h.2 (hne0 j hj0)
    · right; right
      obtain ⟨k2, h1, h2, h3⟩ := h
      exact ⟨k2, h1, by rw [hcreating]; exact h2, by rw [hcache]; exact h3⟩
  · intro k' j hj
    rw [hadded] at hj
    have hji : j ≠ i := by
      intro he; subst he
      have := (hP.str.addedS k' j hj).1
      rw [hk] at this; cases this
      rw [hadd] at hj; cases hj
    rw [hoth j hji]; exact hP.addedSame k' j hj


  · intro j
    by_cases hj : j = i
    · subst hj
      rcases hi with h | h
      · rcases hP.statusKept j with h' | ⟨k', hk', hm⟩
        · left; rw [h]; exact h'
        · right; exact ⟨k', by rw [h]; exact hk', hmk k' hm⟩
      · right
        refine ⟨k, h.2.2.1, ?_⟩
        unfold marked; rw [hmod]; left; simp
    · rcases hP.statusKept j with h' | ⟨k', hk', hm⟩
      · left; rw [hoth j hj]; exact h'
      · right; exact ⟨k', by rw [hoth j hj]; exact hk', hmk k' hm⟩

/-! ### the whole loop of `_store_objects` -/

/-- what `_commit` needs to know about the state it starts in, in order to classify objects -/
structure NewOK (s0 : State) : Prop where
  serial0 : ∀ j, (s0.objs j).oid = none → (s0.objs j).serial = 0
  tmpFresh : ∀ cr, tmpCr s0 = some cr → ∀ k, cr.get k ≠ none → k < s0.nextOid

theorem isNewObj_true {s : State} {o : Obj} {k : Nat} (h1 : o.serial = 0)
    (h2 : ∀ cr, tmpCr s = some cr → cr.get k = none) : isNewObj s o k = true := by
  unfold isNewObj
  simp only [h1, beq_self_eq_true, Bool.true_and]
  unfold tmpCr at h2
  cases hs : s.sp with
  | none => rfl
  | some t =>
    simp only [hs, Option.map_some, Option.some.injEq, forall_eq'] at h2
    simp [h2]

/-- requirements on an object waiting on the writer's stack -/
def StackOK (s0 s : State) (j : ObjId) : Prop :=
  ∃ k, (s.objs j).oid = some k ∧
    (s.added.get k ≠ none → isNewObj s (s.objs j) k = true) ∧
    (s.cache.get k = some j ∨ s.added.get k = some j ∨ (s0.objs j).oid = none) ∧
    ((s0.objs j).oid = none → isNewObj s (s.objs j) k = true)

/-- an extra invariant carried through the successful iterations -/
def StepInv (J : State → Prop) : Prop :=
  ∀ s i k rest s3 pushed, J s → Str (i :: rest) s → (s.objs i).oid = some k →
    StoreSpec s i k rest s3 pushed → J s3

theorem storeObjects_prog {s0 : State} (hN : NewOK s0) {J : State → Prop} (hJ : StepInv J) :
    ∀ (fuel : Nat) (s : State) (stack : List ObjId), Prog s0 stack s → J s → stack.Nodup →
      (∀ j ∈ stack, StackOK s0 s j) →
      ((storeObjects fuel s stack).2 = none →
        Prog s0 [] (storeObjects fuel s stack).1 ∧ J (storeObjects fuel s stack).1 ∧
        (∀ k, marked s k → marked (storeObjects fuel s stack).1 k) ∧
        (∀ j ∈ stack, ∀ k, (s.objs j).oid = some k → marked (storeObjects fuel s stack).1 k)) ∧
      ((storeObjects fuel s stack).2 ≠ none → (storeObjects fuel s stack).1.d1 = false →
        Prog s0 [] (storeObjects fuel s stack).1) := by
  intro fuel
  induction fuel with
  | zero =>
    intro s stack hP hj _ _
    cases stack with
    | nil => exact ⟨fun _ => ⟨hP, hj, fun _ h => h, by simp⟩, fun h => absurd rfl h⟩
    | cons i rest =>
      refine ⟨fun h => by simp [storeObjects] at h, fun _ h => ?_⟩
      simp [storeObjects] at h
  | succ n ih =>
    intro s stack hP hj hnd hst
    cases stack with
    | nil => exact ⟨fun _ => ⟨hP, hj, fun _ h => h, by simp⟩, fun h => absurd rfl h⟩
    | cons i rest =>
      obtain ⟨k, hk, hnew, hknown, hnew0⟩ := hst i List.mem_cons_self
      simp only [storeObjects, hk]
      cases hres : (storeOne s i).1.2 with
      | none =>
        simp only
        have sp := storeOne_spec hP.str hk hnew hres
        have step := storeOne_prog hP hk hnew hknown hnew0 sp
        have hj3 := hJ s i k rest _ _ hj hP.str hk sp
        have hnd' : ((storeOne s i).2.reverse ++ rest).Nodup := by
          rw [List.nodup_append]
          refine ⟨nodup_reverse sp.nodup, (List.nodup_cons.1 hnd).2, ?_⟩
          intro a ha b hb hab
          subst hab
          have := (sp.pushedNew a (List.mem_reverse.1 ha)).2.1
          obtain ⟨ka, hka, _⟩ := hst a (List.mem_cons_of_mem _ hb)
          rw [this] at hka; cases hka
        have hst' : ∀ j ∈ (storeOne s i).2.reverse ++ rest, StackOK s0 (storeOne s i).1.1 j := by
          intro j hjm
          rcases List.mem_append.1 hjm with hjp | hjr
          · obtain ⟨_, h0n, k', hobj, hge⟩ := step.pushedFresh j (List.mem_reverse.1 hjp)
            have hisn : isNewObj (storeOne s i).1.1 ((storeOne s i).1.1.objs j) k' = true := by
              apply isNewObj_true
              · rw [hobj]; exact hN.serial0 j h0n
              · intro cr hcr
                rw [step.prog.tmpCr] at hcr
                cases hg : cr.get k' with
                | none => rfl
                | some b => have := hN.tmpFresh cr hcr k' (by rw [hg]; simp); omega
            exact ⟨k', by rw [hobj], fun _ => hisn, Or.inr (Or.inr h0n), fun _ => hisn⟩
          · obtain ⟨kj, hkj, hnewj, hknownj, hnew0j⟩ := hst j (List.mem_cons_of_mem _ hjr)
            have hji : j ≠ i := by
              intro he; rw [he] at hjr; exact (List.nodup_cons.1 hnd).1 hjr
            have hsame : (storeOne s i).1.1.objs j = s.objs j := by
              rcases sp.obj j with h | h | h
              · exact h
              · exact absurd h.1 hji
              · rw [h.2.2.1] at hkj; cases hkj
            have hkne : kj ≠ k := by
              intro he; subst he; exact hji (hP.str.inj j i kj hkj hk)
            have hisn : isNewObj (storeOne s i).1.1 ((storeOne s i).1.1.objs j) kj =
                isNewObj s (s.objs j) kj := isNewObj_congr kj sp.tmpCr (by rw [hsame])
            refine ⟨kj, by rw [hsame]; exact hkj, ?_, ?_, ?_⟩
            · intro ha
              rw [hisn]; apply hnewj
              rw [sp.added] at ha
              simpa [hkne] using ha
            · rcases hknownj with h | h | h
              · left; rw [sp.cache]; simp [hkne, h]
              · right; left; rw [sp.added]; simp [hkne, h]
              · exact Or.inr (Or.inr h)
            · intro h; rw [hisn]; exact hnew0j h
        obtain ⟨ih1, ih2⟩ := ih (storeOne s i).1.1 _ step.prog hj3 hnd' hst'
        refine ⟨fun h => ?_, ih2⟩
        obtain ⟨h1, h2, h3, h4⟩ := ih1 h
        refine ⟨h1, h2, fun k' hk' => h3 k' (sp.marked_mono k' hk'), ?_⟩
        intro j hjm kj hkj
        rcases List.mem_cons.1 hjm with hje | hjr
        · subst hje
          rw [hk] at hkj; cases hkj
          exact h3 _ sp.marked_self
        · have hji : j ≠ i := by
            intro he; rw [he] at hjr; exact (List.nodup_cons.1 hnd).1 hjr
          have hsame : (storeOne s i).1.1.objs j = s.objs j := by
            rcases sp.obj j with h | h | h
            · exact h
            · exact absurd h.1 hji
            · rw [h.2.2.1] at hkj; cases hkj
          exact h4 j (List.mem_append_right _ hjr) kj (by rw [hsame]; exact hkj)
      | some e =>
        simp only
        refine ⟨fun h => by simp at h, fun _ hd => ?_⟩
        simp only [Bool.or_eq_false_iff, Bool.not_eq_false', List.isEmpty_iff,
          List.append_eq_nil_iff] at hd
        obtain ⟨⟨hd1, hnn⟩, hpush, hrest⟩ := hd
        subst hrest
        have h0 : (s0.objs i).oid ≠ none := by
          intro h; rw [hnew0 h] at hnn; cases hnn
        have hadd : s.added.get k = none := by
          cases ha : s.added.get k with
          | none => rfl
          | some j => rw [hnew (by rw [ha]; simp)] at hnn; cases hnn
        have hc : s.cache.get k = some i := by
          rcases hknown with h | h | h
          · exact h
          · rw [hadd] at h; cases h
          · exact absurd h h0
        have hfp := storeOne_fail_prog hP hk hnn hadd h0 hc hpush (by rw [hres]; simp)
        have hst : ∀ x : State, x.d1 = false → ({ x with d1 := false } : State) = x := by
          intro x h; cases x; simp_all
        have : ({ (storeOne s i).1.1 with d1 := ((storeOne s i).1.1.d1 || isNewObj s (s.objs i) k ||
            !((storeOne s i).2 ++ []).isEmpty) } : State) = (storeOne s i).1.1 := by
          simp only [hd1, hnn, hpush, List.append_nil, List.isEmpty_nil, Bool.not_true, Bool.or_self]
          exact hst _ hd1
        rw [this]
        exact hfp


/-! ### the loop of `_commit` over the registered objects -/

theorem commitLoop_prog {s0 : State} (hN : NewOK s0)
    (hA : ∀ k j, s0.added.get k = some j → isNewObj s0 (s0.objs j) k = true)
    {J : State → Prop} (hJ : StepInv J) (fuel : Nat) :
    ∀ (regs : List ObjId) (s : State), Prog s0 [] s → J s → (∀ i ∈ regs, (s0.objs i).oid ≠ none) →
      ((commitLoop fuel s regs).2 = none →
        Prog s0 [] (commitLoop fuel s regs).1 ∧ J (commitLoop fuel s regs).1 ∧
        (∀ k, marked s k → marked (commitLoop fuel s regs).1 k) ∧
        (∀ i ∈ regs, ∀ k, (s0.objs i).oid = some k →
          (s0.added.get k = some i ∨ (s0.objs i).status = .changed) →
          marked (commitLoop fuel s regs).1 k)) ∧
      ((commitLoop fuel s regs).2 ≠ none → (commitLoop fuel s regs).1.d1 = false →
        Prog s0 [] (commitLoop fuel s regs).1) := by
  intro regs
  induction regs with
  | nil =>
    intro s hP hj _
    exact ⟨fun _ => ⟨hP, hj, fun _ h => h, by simp⟩, fun h => absurd rfl h⟩
  | cons i rest ih =>
    intro s hP hj hreg
    obtain ⟨k, hk0⟩ := Option.ne_none_iff_exists'.1 (hreg i List.mem_cons_self)
    have hk := hP.oidKeep i k hk0
    have hrest : ∀ j ∈ rest, (s0.objs j).oid ≠ none := fun j hj => hreg j (List.mem_cons_of_mem _ hj)
    simp only [commitLoop, hk]
    -- the registered object, as an element of the writer's stack
    have hst : ∀ j ∈ [i], StackOK s0 s j := by
      intro j hj
      simp only [List.mem_singleton] at hj
      subst hj
      refine ⟨k, hk, ?_, ?_, fun h => by rw [hk0] at h; cases h⟩
      · intro ha
        obtain ⟨j', hj'⟩ := Option.ne_none_iff_exists'.1 ha
        have hjj : j' = j := hP.str.inj j' j k (hP.str.addedS k j' hj').1 hk
        subst hjj
        have h0 := hP.addedSub k j' hj'
        have hobj := hP.addedSame k j' hj'
        rw [isNewObj_congr k hP.tmpCr (by rw [hobj])]
        exact hA k j' h0
      · have := hP.str.known j k hk
        simp only [List.not_mem_nil, or_false] at this
        rcases this with h | h
        · exact Or.inl h
        · exact Or.inr (Or.inl h)
    split
    · -- the object is stored
      have hso := storeObjects_prog hN hJ fuel s [i] (hP.mono (by simp)) hj (by simp) hst
      cases hres : (storeObjects fuel s [i]).2 with
      | none =>
        simp only
        obtain ⟨h1, h2, h3, h4⟩ := hso.1 hres
        obtain ⟨ih1, ih2⟩ := ih (storeObjects fuel s [i]).1 h1 h2 hrest
        refine ⟨fun h => ?_, ih2⟩
        obtain ⟨g1, g2, g3, g4⟩ := ih1 h
        refine ⟨g1, g2, fun k' hk' => g3 k' (h3 k' hk'), ?_⟩
        intro j hjm kj hkj hch
        rcases List.mem_cons.1 hjm with hje | hjr
        · subst hje
          rw [hk0] at hkj; cases hkj
          exact g3 _ (h4 j (by simp) _ hk)
        · exact g4 j hjr kj hkj hch
      | some e =>
        simp only
        exact ⟨fun h => by simp at h, fun _ hd => hso.2 (by rw [hres]; simp) hd⟩
    · -- nothing to do for this object
      rename_i hcond
      obtain ⟨ih1, ih2⟩ := ih s hP hj hrest
      refine ⟨fun h => ?_, ih2⟩
      obtain ⟨g1, g2, g3, g4⟩ := ih1 h
      refine ⟨g1, g2, g3, ?_⟩
      intro j hjm kj hkj hch
      rcases List.mem_cons.1 hjm with hje | hjr
      · subst hje
        rw [hk0] at hkj; cases hkj
        apply g3
        simp only [Bool.or_eq_true, Bool.not_eq_true', Bool.or_eq_false_iff, not_or,
          Bool.not_eq_true, bne_eq_false_iff_eq, not_and] at hcond
        obtain ⟨hnadd, hcr⟩ := hcond
        rcases hch with hch | hch
        · rcases hP.addedTracked k j hch with h | h
          · rw [Map.has_eq_false] at hnadd; rw [hnadd] at h; cases h
          · exact Or.inr h.1
        · rcases hP.statusKept j with h | ⟨k', hk', hm⟩
          · by_cases hc : s.creating.has k = true
            · exact Or.inr hc
            · exfalso
              have := hcr (by simpa using hc)
              rw [h, hch] at this
              simp at this
          · rw [hk] at hk'; cases hk'; exact hm
      · exact g4 j hjr kj hkj hch

end Proofs.Conn
