/-
  Connection model, part 6: the relation between the state in which `_commit` starts and the states
  it goes through (who got an oid, who moved from `_added` to `_creating`, what is pending on the
  writer's stack).
-/
import Proofs.ConnStore
namespace Proofs.Conn
open ZodbModel ZodbModel.Conn

/-- the oid was recorded in `_modified` or `_creating` -/
def marked (s : State) (k : Oid) : Prop := k ∈ s.modified ∨ s.creating.has k = true

/-- `s` is reached inside `_commit` started in `s0`; `P` = the objects on the writer's stack -/
structure Prog (s0 : State) (P : List ObjId) (s : State) : Prop where
  base : Str [] s0
  str : Str P s
  ctx : ctx s = ctx s0
  spSome : s.sp.isSome = s0.sp.isSome
  nextOid : s0.nextOid ≤ s.nextOid
  oidKeep : ∀ i k, (s0.objs i).oid = some k → (s.objs i).oid = some k
  objVal : ∀ i, (s0.objs i).status ≠ .ghost → (s.objs i).val = (s0.objs i).val ∧
    (s.objs i).refs = (s0.objs i).refs ∧ (s.objs i).serial = (s0.objs i).serial
  noChange : ∀ i, (s.objs i).status = .changed → (s0.objs i).status = .changed
  noGhost : ∀ i, (s.objs i).status = .ghost → (s0.objs i).status = .ghost
  newTracked : ∀ i k, (s0.objs i).oid = none → (s.objs i).oid = some k →
    s0.nextOid ≤ k ∧ (i ∈ P ∨ (s.creating.has k = true ∧ s.cache.get k = some i))
  addedSub : ∀ k i, s.added.get k = some i → s0.added.get k = some i
  addedTracked : ∀ k i, s0.added.get k = some i →
    s.added.get k = some i ∨ (s.creating.has k = true ∧ s.cache.get k = some i)
  cacheGrow : ∀ k i, s0.cache.get k = some i → s.cache.get k = some i
  creatingNew : ∀ k, s.creating.has k = true → s0.creating.has k = true ∨ s0.nextOid ≤ k ∨
    (∃ i, s0.added.get k = some i) ∨
    (∃ i, s0.cache.get k = some i ∧ (s0.objs i).serial = 0 ∧ (s0.objs i).status ≠ .ghost)
  tmpCr : tmpCr s = tmpCr s0
  fresh0 : ∀ j, (s0.objs j).oid = none → s.objs j = s0.objs j ∨
    ((∃ k, s.objs j = { s0.objs j with oid := some k, jar := true }) ∧ j ∈ P) ∨
    (∃ k, (s.objs j).oid = some k ∧ s.creating.has k = true ∧ s.cache.get k = some j)
  addedSame : ∀ k j, s.added.get k = some j → s.objs j = s0.objs j
  statusKept : ∀ j, (s.objs j).status = (s0.objs j).status ∨ ∃ k, (s.objs j).oid = some k ∧ marked s k
  pendFresh : ∀ j ∈ P, (s0.objs j).oid = none → ∀ k, (s.objs j).oid = some k →
    s.cache.get k = none ∧ s.added.get k = none

theorem Prog.refl {s : State} (h : Str [] s) : Prog s [] s := by
  refine ⟨h, h, rfl, rfl, Nat.le_refl _, fun _ _ h => h, fun _ _ => ⟨rfl, rfl, rfl⟩, fun _ h => h,
    fun _ h => h, ?_, fun _ _ h => h, fun _ _ h => Or.inl h, fun _ _ h => h, fun _ h => Or.inl h, rfl,
    fun _ _ => Or.inl rfl, fun _ _ _ => rfl, fun _ => Or.inl rfl, ?_⟩
  · intro i k h1 h2; rw [h1] at h2; cases h2
  · intro j hj; cases hj

theorem classify_added (s : State) (i k k') :
    (classify s i k).added.get k' = if isNewObj s (s.objs i) k = true ∧ k' = k then none else s.added.get k' := by
  unfold classify
  split
  · rename_i h; simp only [Map.get_del, h, true_and]
  · rename_i h; simp [h]

theorem classify_creating (s : State) (i k k') :
    (classify s i k).creating.has k' =
      if isNewObj s (s.objs i) k = true ∧ k' = k then true else s.creating.has k' := by
  unfold classify
  split
  · rename_i h
    simp only [Map.has, Map.get_set, h, true_and]
    split <;> simp
  · rename_i h; simp [h]

/-- field-by-field description of one iteration of `_store_objects` for the object `i` (oid `k`),
    successful or not: `s3` is the state after it, `pushed` what the pickler put on the stack -/
structure StepSpec (s : State) (i k : Nat) (rest : List Nat) (s3 : State) (pushed : List Nat) : Prop where
  str : Str (pushed.reverse ++ rest) s3
  nodup : pushed.Nodup
  obj : ∀ j, (s3.objs j = s.objs j) ∨
    (j = i ∧ (s3.objs j).oid = (s.objs j).oid ∧ (s3.objs j).jar = (s.objs j).jar ∧
      (s3.objs j).status = .uptodate ∧
      ((s.objs j).status ≠ .ghost → (s3.objs j).val = (s.objs j).val ∧
        (s3.objs j).refs = (s.objs j).refs ∧ (s3.objs j).serial = (s.objs j).serial)) ∨
    (j ≠ i ∧ j ∈ pushed ∧ (s.objs j).oid = none ∧
      s3.objs j = { s.objs j with oid := (s3.objs j).oid, jar := true } ∧
      ∃ k', (s3.objs j).oid = some k' ∧ s.nextOid ≤ k' ∧ k' < s3.nextOid)
  pushedNew : ∀ j ∈ pushed, j ≠ i ∧ (s.objs j).oid = none ∧ (s3.objs j).oid ≠ none
  cache : ∀ k', s3.cache.get k' = if k' = k then some i else s.cache.get k'
  added : ∀ k', s3.added.get k' =
    if isNewObj s (s.objs i) k = true ∧ k' = k then none else s.added.get k'
  creating : ∀ k', s3.creating.has k' =
    if isNewObj s (s.objs i) k = true ∧ k' = k then true else s.creating.has k'
  modified : s3.modified = if isNewObj s (s.objs i) k = true then s.modified else s.modified ++ [k]
  nextOid : s.nextOid ≤ s3.nextOid
  ctx : ctx s3 = ctx s
  spSome : s3.sp.isSome = s.sp.isSome
  tmpCr : tmpCr s3 = tmpCr s

/-- what a successful iteration guarantees in addition -/
structure StoredSpec (s : State) (i k : Nat) (s3 : State) : Prop where
  refsOid : ∀ x ∈ (s3.objs i).refs, (s3.objs x).oid ≠ none
  notGhost : (s3.objs i).status ≠ .ghost
  stagedNone : s.sp = none → s3.sp = none ∧ s3.nstores = s.nstores + 1 ∧
    s3.staged = s.staged ++ [(k, ⟨(s3.objs i).serial, (s3.objs i).val, (s3.objs i).refs⟩)]
  stagedTmp : ∀ t, s.sp = some t →
    s3.sp = some (t.store k ⟨(s3.objs i).serial, (s3.objs i).val, (s3.objs i).refs⟩) ∧
    s3.staged = s.staged ∧ (s3.objs i).status = .uptodate

theorem StepSpec.marked_mono {s i k rest s3 pushed} (sp : StepSpec s i k rest s3 pushed) (k' : Nat)
    (h : marked s k') : marked s3 k' := by
  unfold marked at h ⊢
  rw [sp.modified, sp.creating]
  rcases h with h | h
  · left; split
    · exact h
    · exact List.mem_append_left _ h
  · right; split
    · rfl
    · exact h

theorem StepSpec.marked_self {s i k rest s3 pushed} (sp : StepSpec s i k rest s3 pushed) :
    marked s3 k := by
  unfold marked
  rw [sp.modified, sp.creating]
  by_cases h : isNewObj s (s.objs i) k = true
  · right; simp [h]
  · left; simp [h]


end Proofs.Conn
