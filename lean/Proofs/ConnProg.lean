/-
  Connection model, part 6: the relation between the state in which `_commit` starts and the states
  it goes through (who got an oid, who moved from `_added` to `_creating`, what is pending on the
  writer's stack).
-/
import Proofs.ConnStore
namespace Proofs.Conn
open ZodbModel ZodbModel.Conn

/-- the oid was recorded in `_modified` or `_creating` -/
def marked (s : State) (k : Oid) : Prop := k ∈ s.modified ∨ s.creating.has k = true

/-- `s` is reached inside `_commit` started in `s0`; `P` = the objects on the writer's stack -/
structure Prog (s0 : State) (P : List ObjId) (s : State) : Prop where
  base : Str [] s0
  str : Str P s
  ctx : ctx s = ctx s0
  spSome : s.sp.isSome = s0.sp.isSome
  nextOid : s0.nextOid ≤ s.nextOid
  oidKeep : ∀ i k, (s0.objs i).oid = some k → (s.objs i).oid = some k
  objVal : ∀ i, (s0.objs i).status ≠ .ghost → (s.objs i).val = (s0.objs i).val ∧
    (s.objs i).refs = (s0.objs i).refs ∧ (s.objs i).serial = (s0.objs i).serial
  noChange : ∀ i, (s.objs i).status = .changed → (s0.objs i).status = .changed
  noGhost : ∀ i, (s.objs i).status = .ghost → (s0.objs i).status = .ghost
  newTracked : ∀ i k, (s0.objs i).oid = none → (s.objs i).oid = some k →
    s0.nextOid ≤ k ∧ (i ∈ P ∨ (s.creating.has k = true ∧ s.cache.get k = some i))
  addedSub : ∀ k i, s.added.get k = some i → s0.added.get k = some i
  addedTracked : ∀ k i, s0.added.get k = some i →
    s.added.get k = some i ∨ (s.creating.has k = true ∧ s.cache.get k = some i)
  cacheGrow : ∀ k i, s0.cache.get k = some i → s.cache.get k = some i
  creatingNew : ∀ k, s.creating.has k = true → s0.creating.has k = true ∨ s0.nextOid ≤ k ∨
    (∃ i, s0.added.get k = some i) ∨
    (∃ i, s0.cache.get k = some i ∧ (s0.objs i).serial = 0 ∧ (s0.objs i).status ≠ .ghost)
  tmpCr : tmpCr s = tmpCr s0
  fresh0 : ∀ j, (s0.objs j).oid = none → s.objs j = s0.objs j ∨
    ((∃ k, s.objs j = { s0.objs j with oid := some k, jar := true }) ∧ j ∈ P) ∨
    (∃ k, (s.objs j).oid = some k ∧ s.creating.has k = true ∧ s.cache.get k = some j)
  addedSame : ∀ k j, s.added.get k = some j → s.objs j = s0.objs j
  statusKept : ∀ j, (s.objs j).status = (s0.objs j).status ∨ ∃ k, (s.objs j).oid = some k ∧ marked s k
  pendFresh : ∀ j ∈ P, (s0.objs j).oid = none → ∀ k, (s.objs j).oid = some k →
    s.cache.get k = none ∧ s.added.get k = none
  serialKept : ∀ j, ((s0.objs j).oid = none ∨ ∃ k, s0.added.get k = some j) →
    (s.objs j).serial = (s0.objs j).serial
  statusNone : s0.sp = none → ∀ j, (s0.objs j).status ≠ .ghost → (s.objs j).status = (s0.objs j).status
  markedCached : ∀ k j, marked s k → s0.cache.get k = some j →
    marked s0 k ∨ (s0.objs j).status ≠ .ghost
  ghostStays : ∀ j, (s0.objs j).status = .ghost → (s.objs j).status = .ghost
  ghostSerial : ∀ j, (s0.objs j).status = .ghost → (s.objs j).serial = (s0.objs j).serial

theorem Prog.refl {s : State} (h : Str [] s) : Prog s [] s := by
  refine ⟨h, h, rfl, rfl, Nat.le_refl _, fun _ _ h => h, fun _ _ => ⟨rfl, rfl, rfl⟩, fun _ h => h,
    fun _ h => h, ?_, fun _ _ h => h, fun _ _ h => Or.inl h, fun _ _ h => h, fun _ h => Or.inl h, rfl,
    fun _ _ => Or.inl rfl, fun _ _ _ => rfl, fun _ => Or.inl rfl, ?_, fun _ _ => rfl,
    fun _ _ _ => rfl, fun _ _ h _ => Or.inl h, fun _ h => h, fun _ _ => rfl⟩
  · intro i k h1 h2; rw [h1] at h2; cases h2
  · intro j hj; cases hj

/-- the order of the stack does not matter for the relation -/
theorem Prog.perm {s0 P Q s} (h : Prog s0 P s) (hPQ : ∀ i, i ∈ P ↔ i ∈ Q) : Prog s0 Q s :=
  { h with
    str := h.str.mono (fun i hi => (hPQ i).1 hi)
    newTracked := fun i k h1 h2 => by
      obtain ⟨h3, h4⟩ := h.newTracked i k h1 h2
      exact ⟨h3, h4.elim (fun h5 => Or.inl ((hPQ i).1 h5)) Or.inr⟩
    fresh0 := fun j hj => by
      rcases h.fresh0 j hj with h1 | h1 | h1
      · exact Or.inl h1
      · exact Or.inr (Or.inl ⟨h1.1, (hPQ j).1 h1.2⟩)
      · exact Or.inr (Or.inr h1)
    pendFresh := fun j hj => h.pendFresh j ((hPQ j).2 hj) }

theorem classify_added (s : State) (i k k') :
    (classify s i k).added.get k' = if isNewObj s (s.objs i) k = true ∧ k' = k then none else s.added.get k' := by
  unfold classify
  split
  · rename_i h; simp only [Map.get_del, h, true_and]
  · rename_i h; simp [h]

theorem classify_creating (s : State) (i k k') :
    (classify s i k).creating.has k' =
      if isNewObj s (s.objs i) k = true ∧ k' = k then true else s.creating.has k' := by
  unfold classify
  split
  · rename_i h
    simp only [Map.has, Map.get_set, h, true_and]
    split <;> simp
  · rename_i h; simp [h]

/-- field-by-field description of one iteration of `_store_objects` for the object `i` (oid `k`),
    successful or not: `s3` is the state after it, `pushed` what the pickler put on the stack -/
structure StepSpec (s : State) (i k : Nat) (rest : List Nat) (s3 : State) (pushed : List Nat) : Prop where
  str : Str (pushed.reverse ++ rest) s3
  nodup : pushed.Nodup
  obj : ∀ j, (s3.objs j = s.objs j) ∨
    (j = i ∧ (s3.objs j).oid = (s.objs j).oid ∧ (s3.objs j).jar = (s.objs j).jar ∧
      (s3.objs j).status = .uptodate ∧
      ((s.objs j).status ≠ .ghost → (s3.objs j).val = (s.objs j).val ∧
        (s3.objs j).refs = (s.objs j).refs ∧ (s3.objs j).serial = (s.objs j).serial) ∧
      ((s.objs j).status = .ghost → loadRec s k ≠ none) ∧
      ((s.objs j).status = .ghost ∨ s.sp.isSome = true)) ∨
    (j ≠ i ∧ j ∈ pushed ∧ (s.objs j).oid = none ∧
      s3.objs j = { s.objs j with oid := (s3.objs j).oid, jar := true } ∧
      ∃ k', (s3.objs j).oid = some k' ∧ s.nextOid ≤ k' ∧ k' < s3.nextOid)
  pushedNew : ∀ j ∈ pushed, j ≠ i ∧ (s.objs j).oid = none ∧ (s3.objs j).oid ≠ none
  cache : ∀ k', s3.cache.get k' = if k' = k then some i else s.cache.get k'
  added : ∀ k', s3.added.get k' =
    if isNewObj s (s.objs i) k = true ∧ k' = k then none else s.added.get k'
  creating : ∀ k', s3.creating.has k' =
    if isNewObj s (s.objs i) k = true ∧ k' = k then true else s.creating.has k'
  modified : s3.modified = if isNewObj s (s.objs i) k = true then s.modified else s.modified ++ [k]
  nextOid : s.nextOid ≤ s3.nextOid
  ctx : ctx s3 = ctx s
  spSome : s3.sp.isSome = s.sp.isSome
  tmpCr : tmpCr s3 = tmpCr s

/-- what a successful iteration guarantees in addition -/
structure StoredSpec (s : State) (i k : Nat) (s3 : State) : Prop where
  refsOid : ∀ x ∈ (s3.objs i).refs, (s3.objs x).oid ≠ none
  notGhost : (s3.objs i).status ≠ .ghost
  stagedNone : s.sp = none → s3.sp = none ∧ s3.nstores = s.nstores + 1 ∧
    s3.staged = s.staged ++ [(k, ⟨(s3.objs i).serial, (s3.objs i).val, (s3.objs i).refs⟩)]
  stagedTmp : ∀ t, s.sp = some t →
    s3.sp = some (t.store k ⟨(s3.objs i).serial, (s3.objs i).val, (s3.objs i).refs⟩) ∧
    s3.staged = s.staged ∧ (s3.objs i).status = .uptodate

theorem StepSpec.marked_mono {s i k rest s3 pushed} (sp : StepSpec s i k rest s3 pushed) (k' : Nat)
    (h : marked s k') : marked s3 k' := by
  unfold marked at h ⊢
  rw [sp.modified, sp.creating]
  rcases h with h | h
  · left; split
    · exact h
    · exact List.mem_append_left _ h
  · right; split
    · rfl
    · exact h

theorem StepSpec.marked_self {s i k rest s3 pushed} (sp : StepSpec s i k rest s3 pushed) :
    marked s3 k := by
  unfold marked
  rw [sp.modified, sp.creating]
  by_cases h : isNewObj s (s.objs i) k = true
  · right; simp [h]
  · left; simp [h]


@[simp] theorem classify_loadRec (s : State) (i k k') : loadRec (classify s i k) k' = loadRec s k' := by
  unfold loadRec
  rw [classify_sp]
  have : (classify s i k).snap = s.snap := by unfold classify; split <;> rfl
  rw [this]

/-- one iteration of `_store_objects`, whatever its outcome -/
theorem storeOne_step {s : State} {i k : Nat} {rest : List Nat}
    (hS : Str (i :: rest) s) (hk : (s.objs i).oid = some k)
    (hnew : s.added.get k ≠ none → isNewObj s (s.objs i) k = true)
    (hc : isNewObj s (s.objs i) k = false → s.cache.get k = some i) :
    StepSpec s i k rest (storeOne s i).1.1 (storeOne s i).2 ∧
    ((storeOne s i).1.2 = none → StoredSpec s i k (storeOne s i).1.1) ∧
    ((storeOne s i).1.2 ≠ none → s.sp.isSome = true →
      (storeOne s i).1.1.sp = s.sp ∧ (storeOne s i).1.1.objs = s.objs ∧
      (storeOne s i).1.1.staged = s.staged) := by
  -- after the bookkeeping the object is in the cache and not in `_added`
  have hcC : ∀ k', (classify s i k).cache.get k' = if k' = k then some i else s.cache.get k' := by
    intro k'
    rw [classify_cache]
    by_cases hn : isNewObj s (s.objs i) k = true
    · simp [hn]
    · have hn' : isNewObj s (s.objs i) k = false := by simpa using hn
      simp only [hn', Bool.false_eq_true, false_and, if_false]
      by_cases hkk : k' = k
      · subst hkk; simp [hc hn']
      · simp [hkk]
  have haddC : (classify s i k).added.get k = none := by
    rw [classify_added]
    split
    · rfl
    · rename_i hn
      cases ha : s.added.get k with
      | none => rfl
      | some j => exact absurd ⟨hnew (by rw [ha]; simp), rfl⟩ hn
  have hstrC : Str rest (classify s i k) :=
    (classify_str hS i k List.mem_cons_self hk).drop (by rw [classify_objs]; exact hk)
      (Or.inl (by rw [hcC]; simp))
  unfold storeOne
  simp only [hk]
  have hobj1 := pickleAccess_objs (classify s i k) i
  have hbooks1 := pickleAccess_books (classify s i k) i
  have hstores1 := pickleAccess_stores (classify s i k) i
  have hctx1 := pickleAccess_ctx (classify s i k) i
  have hnext1 := pickleAccess_nextOid (classify s i k) i
  have htc1 := pickleAccess_tmpCr (classify s i k) i
  have hcache1 := pickleAccess_cache (classify s i k) i
  have hstr1 := pickleAccess_str hstrC i
  have hng1 := pickleAccess_ok_nonghost (classify s i k) i
  have herr1 := pickleAccess_err_state (classify s i k) i
  generalize pickleAccess (classify s i k) i = a at *
  obtain ⟨a1, a2⟩ := a
  simp only [classify_objs, classify_nextOid, classify_tmpCr, classify_ctx, classify_loadRec]
    at hobj1 hnext1 htc1 hctx1
  simp only [books, stores, Prod.mk.injEq, classify_sp, classify_staged] at hbooks1 hstores1
  cases a2 with
  | some e =>
    simp only at herr1 ⊢
    have herr1 := herr1 (by simp)
    subst herr1
    refine ⟨?_, fun h => by simp at h,
      fun _ _ => ⟨classify_sp s i k, classify_objs s i k, classify_staged s i k⟩⟩
    constructor
    · simpa using hstrC
    · simp
    · intro j; left; rw [classify_objs]
    · intro j hj; cases hj
    · exact hcC
    · exact classify_added s i k
    · exact classify_creating s i k
    · exact classify_modified s i k
    · rw [classify_nextOid]; exact Nat.le_refl _
    · exact classify_ctx s i k
    · rw [classify_sp]
    · exact classify_tmpCr s i k
  | none =>
    simp only at hng1 ⊢
    have hng1 := hng1 trivial
    -- the pickler
    have ser := serialize_ok a1 (a1.objs i).refs
    have hrefs := serialize_refs_oid a1 (a1.objs i).refs
    have hstr2 := serialize_str hstr1 (a1.objs i).refs
    have hbooks2 := serialize_books a1 (a1.objs i).refs
    have hstores2 := serialize_stores a1 (a1.objs i).refs
    have hctx2 := serialize_ctx a1 (a1.objs i).refs
    have htc2 := serialize_tmpCr a1 (a1.objs i).refs
    have hcache2 := serialize_cache a1 (a1.objs i).refs
    generalize serialize a1 (a1.objs i).refs = sr at *
    obtain ⟨s2, pushed⟩ := sr
    simp only at ser hstr2 hbooks2 hstores2 hctx2 htc2 hrefs hcache2 ⊢
    simp only [books, stores, Prod.mk.injEq] at hbooks2 hstores2
    have hoid1 : (a1.objs i).oid = some k := by
      rcases hobj1 i with h | h
      · rw [h]; exact hk
      · rw [h.2.2.2.1]; exact hk
    have hi2 : s2.objs i = a1.objs i := ser.keep i (by rw [hoid1]; simp)
    have hoid2 : (s2.objs i).oid = some k := by rw [hi2]; exact hoid1
    have hc2 : ∀ k', s2.cache.get k' = if k' = k then some i else s.cache.get k' := by
      intro k'; rw [hcache2, hcache1]; exact hcC k'
    have hadd2 : s2.added.get k = none := by rw [hbooks2.1, hbooks1.1]; exact haddC
    -- the store
    have hnone3 := storeRec_none s2 i k ⟨(a1.objs i).serial, (a1.objs i).val, (a1.objs i).refs⟩
    have htmp3 := storeRec_tmp s2 i k ⟨(a1.objs i).serial, (a1.objs i).val, (a1.objs i).refs⟩
    have hobj3 := storeRec_objs s2 i k ⟨(a1.objs i).serial, (a1.objs i).val, (a1.objs i).refs⟩
    have hcache3 := storeRec_cache' s2 i k ⟨(a1.objs i).serial, (a1.objs i).val, (a1.objs i).refs⟩
    have hbooks3 := storeRec_books s2 i k ⟨(a1.objs i).serial, (a1.objs i).val, (a1.objs i).refs⟩
    have hctx3 := storeRec_ctx s2 i k ⟨(a1.objs i).serial, (a1.objs i).val, (a1.objs i).refs⟩
    have hnext3 := storeRec_nextOid s2 i k ⟨(a1.objs i).serial, (a1.objs i).val, (a1.objs i).refs⟩
    have hsp3 := storeRec_spSome s2 i k ⟨(a1.objs i).serial, (a1.objs i).val, (a1.objs i).refs⟩
    have htc3 := storeRec_tmpCr s2 i k ⟨(a1.objs i).serial, (a1.objs i).val, (a1.objs i).refs⟩
    have hoktmp := storeRec_tmp_ok s2 i k ⟨(a1.objs i).serial, (a1.objs i).val, (a1.objs i).refs⟩
    generalize storeRec s2 i k ⟨(a1.objs i).serial, (a1.objs i).val, (a1.objs i).refs⟩ = r at *
    obtain ⟨s3, e3⟩ := r
    simp only [books, Prod.mk.injEq] at hobj3 hcache3 hbooks3 hctx3 hnext3 hsp3 htc3 hnone3 htmp3 hoktmp ⊢
    have hcache : ∀ k', s3.cache.get k' = if k' = k then some i else s.cache.get k' := by
      intro k'
      rcases hcache3 with h | h
      · rw [h]; exact hc2 k'
      · rw [h, Map.get_set, hc2]
        split <;> rfl
    -- each object: what happened between `s` and `s3`
    have hobj : ∀ j, (s3.objs j = s.objs j) ∨
        (j = i ∧ (s3.objs j).oid = (s.objs j).oid ∧ (s3.objs j).jar = (s.objs j).jar ∧
          (s3.objs j).status = .uptodate ∧
          ((s.objs j).status ≠ .ghost → (s3.objs j).val = (s.objs j).val ∧
            (s3.objs j).refs = (s.objs j).refs ∧ (s3.objs j).serial = (s.objs j).serial) ∧
          ((s.objs j).status = .ghost → loadRec s k ≠ none) ∧
          ((s.objs j).status = .ghost ∨ s.sp.isSome = true)) ∨
        (j ≠ i ∧ j ∈ pushed ∧ (s.objs j).oid = none ∧
          s3.objs j = { s.objs j with oid := (s3.objs j).oid, jar := true } ∧
          ∃ k', (s3.objs j).oid = some k' ∧ s.nextOid ≤ k' ∧ k' < s3.nextOid) := by
      intro j
      by_cases hji : j = i
      · subst hji
        rcases hobj3 j with h3 | h3
        · rcases hobj1 j with h1 | h1
          · left; rw [h3, hi2, h1]
          · right; left
            rw [h3, hi2]
            refine ⟨rfl, h1.2.2.2.1, h1.2.2.2.2.1, h1.2.2.1, fun hg => absurd h1.2.1 hg, fun _ => ?_,
              Or.inl h1.2.1⟩
            obtain ⟨k2, hk2, hl⟩ := h1.2.2.2.2.2
            rw [hk] at hk2; cases hk2; exact hl
        · right; left
          rw [h3.2.1, hi2]
          rcases hobj1 j with h1 | h1
          · have hsp2 : s.sp.isSome = true := by
              rw [← h3.2.2, hstores2.1, hstores1.1]
            rw [h1]; simp
            exact ⟨fun hg => absurd hg (by rw [← h1]; exact hng1), Or.inr hsp2⟩
          · refine ⟨rfl, h1.2.2.2.1, h1.2.2.2.2.1, rfl, fun hg => absurd h1.2.1 hg, fun _ => ?_,
              Or.inl h1.2.1⟩
            obtain ⟨k2, hk2, hl⟩ := h1.2.2.2.2.2
            rw [hk] at hk2; cases hk2; exact hl
      · have h3 : s3.objs j = s2.objs j := by
          rcases hobj3 j with h3 | h3
          · exact h3
          · exact absurd h3.1 hji
        have h1 : a1.objs j = s.objs j := by
          rcases hobj1 j with h1 | h1
          · exact h1
          · exact absurd h1.1 hji
        by_cases hp : j ∈ pushed
        · right; right
          obtain ⟨hn, k', hk', hge, hlt⟩ := ser.pushedNew j hp
          simp only at hk' hlt
          rw [h1] at hn
          refine ⟨hji, hp, hn, ?_, k', by rw [h3]; exact hk', by omega, by rw [hnext3]; exact hlt⟩
          rw [h3, ser.pushedObj j hp, h1]
        · left
          rw [h3]
          by_cases hn : (a1.objs j).oid = none
          · rw [ser.other j hn hp, h1]
          · rw [ser.keep j hn, h1]
    have hnext : s.nextOid ≤ s3.nextOid := by have := ser.mono; simp only at this; omega
    have hoid3 : ∀ x, (s2.objs x).oid ≠ none → (s3.objs x).oid ≠ none := by
      intro x hx
      rcases hobj3 x with h | h
      · rw [h]; exact hx
      · rw [h.2.1]; rw [h.1] at hx; exact hx
    have hi3 : (s3.objs i).serial = (a1.objs i).serial ∧ (s3.objs i).val = (a1.objs i).val ∧
        (s3.objs i).refs = (a1.objs i).refs ∧ (s3.objs i).status ≠ .ghost := by
      rcases hobj3 i with h | h
      · rw [h, hi2]; exact ⟨rfl, rfl, rfl, hng1⟩
      · rw [h.2.1, hi2]; simp
    -- `Str`: the stored object left the pending list, the pushed ones entered it
    have hstr3 : Str (pushed.reverse ++ rest) s3 := by
      have h1 : Str (rest ++ pushed) s3 := by
        constructor
        · intro k' j hj
          rw [hcache, ← hc2] at hj
          have := hstr2.cacheS k' j hj
          rcases hobj3 j with h | h
          · rw [h]; exact this
          · rw [h.2.1]; rw [h.1] at this; exact this
        · intro k' j hj
          rw [hbooks3.1] at hj
          have := hstr2.addedS k' j hj
          rw [hcache, ← hc2]
          refine ⟨?_, this.2⟩
          rcases hobj3 j with h | h
          · rw [h]; exact this.1
          · rw [h.2.1]; have h' := this.1; rw [h.1] at h'; exact h'
        · intro j
          rcases hobj3 j with h | h
          · rw [h]; exact hstr2.jarOid j
          · rw [h.2.1]; have := hstr2.jarOid j; rw [h.1] at this; exact this
        · intro j k' hj
          have hj2 : (s2.objs j).oid = some k' := by
            rcases hobj3 j with h | h
            · rw [← h]; exact hj
            · rw [h.2.1] at hj; rw [h.1]; exact hj
          rw [hcache, ← hc2, hbooks3.1]
          exact hstr2.known j k' hj2
        · intro j k' hj
          have hj2 : (s2.objs j).oid = some k' := by
            rcases hobj3 j with h | h
            · rw [← h]; exact hj
            · rw [h.2.1] at hj; rw [h.1]; exact hj
          rw [hnext3]; exact hstr2.fresh j k' hj2
        · intro j j' k' hj hj'
          have t : ∀ x, (s3.objs x).oid = some k' → (s2.objs x).oid = some k' := by
            intro x hx
            rcases hobj3 x with h | h
            · rw [← h]; exact hx
            · rw [h.2.1] at hx; rw [h.1]; exact hx
          exact hstr2.inj j j' k' (t j hj) (t j' hj')
        · rw [hbooks3.1]; exact hstr2.addedSorted
      exact h1.mono (by
        intro j hj
        simp only [List.mem_append, List.mem_reverse] at hj ⊢
        exact hj.symm)
    refine ⟨?_, ?_, ?_⟩
    rotate_right
    · intro hfail hspS
      exfalso
      apply hfail
      have hsp2 : s2.sp.isSome = true := by rw [hstores2.1, hstores1.1]; exact hspS
      exact hoktmp hsp2
    · constructor
      · exact hstr3
      · exact ser.nodup
      · exact hobj
      · intro j hj
        obtain ⟨hn, k', hk', _⟩ := ser.pushedNew j hj
        simp only at hk'
        have hji : j ≠ i := by intro he; subst he; rw [hoid1] at hn; cases hn
        refine ⟨hji, ?_, hoid3 j (by rw [hk']; simp)⟩
        rcases hobj1 j with h | h
        · rw [← h]; exact hn
        · exact absurd h.1 hji
      · exact hcache
      · intro k'; rw [hbooks3.1, hbooks2.1, hbooks1.1, classify_added]
      · intro k'; rw [hbooks3.2.1, hbooks2.2.1, hbooks1.2.1, classify_creating]
      · rw [hbooks3.2.2, hbooks2.2.2, hbooks1.2.2, classify_modified]
      · exact hnext
      · rw [hctx3, hctx2, hctx1]
      · rw [hsp3, hstores2.1, hstores1.1]
      · rw [htc3, htc2, htc1]
    · intro hok
      constructor
      · intro x hx
        rw [hi3.2.2.1] at hx
        exact hoid3 x (hrefs x hx)
      · exact hi3.2.2.2
      · intro hsp
        have hsp2 : s2.sp = none := by rw [hstores2.1, hstores1.1]; exact hsp
        obtain ⟨h1, h2, h3⟩ := hnone3 hsp2 hok
        refine ⟨h1, by rw [h2, hstores2.2.2, hstores1.2.2]; unfold classify; split <;> rfl, ?_⟩
        rw [h3, hstores2.2.1, hstores1.2.1, hi3.1, hi3.2.1, hi3.2.2.1]
      · intro t hsp
        have hsp2 : s2.sp = some t := by rw [hstores2.1, hstores1.1]; exact hsp
        obtain ⟨h1, h2, h3⟩ := htmp3 t hsp2
        refine ⟨by rw [h1, hi3.1, hi3.2.1, hi3.2.2.1], by rw [h2, hstores2.2.1, hstores1.2.1], h3⟩

/-- what one iteration of `_store_objects` guarantees (whatever its outcome) -/
structure StepOK (s0 s : State) (i : ObjId) (rest : List ObjId) (s3 : State) (pushed : List ObjId) : Prop where
  prog : Prog s0 (pushed.reverse ++ rest) s3
  pushedFresh : ∀ j ∈ pushed, (s.objs j).oid = none ∧ (s0.objs j).oid = none ∧
    ∃ k', s3.objs j = { s0.objs j with oid := some k', jar := true } ∧ s0.nextOid ≤ k'

/-- one iteration of `_store_objects` keeps the progress relation -/
theorem storeOne_prog {s0 s : State} {i k : Nat} {rest : List Nat} {s3 : State} {pushed : List Nat}
    (hP : Prog s0 (i :: rest) s) (hk : (s.objs i).oid = some k)
    (hnew : s.added.get k ≠ none → isNewObj s (s.objs i) k = true)
    (hknown : (s.cache.get k = some i ∧ (s0.objs i).status ≠ .ghost) ∨ s.added.get k = some i ∨
      (s0.objs i).oid = none)
    (hnew0 : (s0.objs i).oid = none → isNewObj s (s.objs i) k = true)
    (hni : i ∉ rest) (hrest : ∀ j ∈ rest, (s.objs j).oid ≠ none)
    (hnorec : ((s0.objs i).oid = none ∨ ∃ k', s0.added.get k' = some i) →
      (s.objs i).status = .ghost → loadRec s k = none)
    (sp : StepSpec s i k rest s3 pushed) :
    StepOK s0 s i rest s3 pushed := by
  have hobj := sp.obj
  have hcache := sp.cache
  have hadded := sp.added
  have hcreating := sp.creating
  have hnext := sp.nextOid
  have hisnew : s.added.get k = some i → isNewObj s (s.objs i) k = true :=
    fun h => hnew (by rw [h]; simp)
  refine ⟨?_, ?_⟩
  rotate_left
  · -- pushedFresh
    intro j hj
    obtain ⟨hji, hsn, hsome⟩ := sp.pushedNew j hj
    have h0n : (s0.objs j).oid = none := by
      cases h0 : (s0.objs j).oid with
      | none => rfl
      | some k0 => have := hP.oidKeep j k0 h0; rw [hsn] at this; cases this
    refine ⟨hsn, h0n, ?_⟩
    have hs0 : s.objs j = s0.objs j := by
      rcases hP.fresh0 j h0n with h | h | h
      · exact h
      · obtain ⟨⟨k2, hk2⟩, _⟩ := h; rw [hk2] at hsn; cases hsn
      · obtain ⟨k2, hk2, _⟩ := h; rw [hk2] at hsn; cases hsn
    rcases hobj j with h | h | h
    · rw [h, hsn] at hsome; exact absurd rfl hsome
    · exact absurd h.1 hji
    · obtain ⟨k2, hk2, hge, _⟩ := h.2.2.2.2
      refine ⟨k2, ?_, by have := hP.nextOid; omega⟩
      rw [h.2.2.2.1, hk2, hs0]
  constructor
  · exact hP.base
  · exact sp.str
  · rw [sp.ctx]; exact hP.ctx
  · rw [sp.spSome]; exact hP.spSome
  · have := hP.nextOid; omega
  · intro j k' hj
    have := hP.oidKeep j k' hj
    rcases hobj j with h | h | h
    · rw [h]; exact this
    · rw [h.2.1]; exact this
    · rw [h.2.2.1] at this; cases this
  · intro j hg
    have h0 := hP.objVal j hg
    rcases hobj j with h | h | h
    · rw [h]; exact h0
    · by_cases hsg : (s.objs j).status = .ghost
      · exact absurd (hP.noGhost j hsg) hg
      · have := h.2.2.2.2.1 hsg; rw [this.1, this.2.1, this.2.2]; exact h0
    · rw [h.2.2.2.1]; exact h0
  · intro j hc
    apply hP.noChange
    rcases hobj j with h | h | h
    · rw [← h]; exact hc
    · rw [h.2.2.2.1] at hc; cases hc
    · rw [h.2.2.2.1] at hc; exact hc
  · intro j hc
    apply hP.noGhost
    rcases hobj j with h | h | h
    · rw [← h]; exact hc
    · rw [h.2.2.2.1] at hc; cases hc
    · rw [h.2.2.2.1] at hc; exact hc
  · -- newTracked
    intro j k' h0 hj
    have hstr := hP.str
    have hoidj : (s.objs j).oid = some k' ∨ (j ≠ i ∧ j ∈ pushed ∧ s.nextOid ≤ k') := by
      rcases hobj j with h | h | h
      · left; rw [← h]; exact hj
      · left; rw [← h.2.1]; exact hj
      · right; obtain ⟨k2, hk2, hge, _⟩ := h.2.2.2.2
        rw [hk2] at hj; cases hj; exact ⟨h.1, h.2.1, hge⟩
    rcases hoidj with hoidj | hoidj
    · obtain ⟨hge, htr⟩ := hP.newTracked j k' h0 hoidj
      refine ⟨hge, ?_⟩
      by_cases hji : j = i
      · subst hji
        rw [hk] at hoidj; cases hoidj
        right
        rw [hcreating, hcache]
        simp [hnew0 h0]
      · rcases htr with htr | htr
        · left
          simp only [List.mem_cons] at htr
          simp only [List.mem_append, List.mem_reverse]
          rcases htr with htr | htr
          · exact absurd htr hji
          · exact Or.inr htr
        · right
          rw [hcreating, hcache]
          have hne : k' ≠ k := by
            intro he; subst he
            exact hji (hstr.inj j i k' hoidj hk)
          simp [hne, htr.1, htr.2]
    · refine ⟨by have := hP.nextOid; omega, Or.inl ?_⟩
      simp only [List.mem_append, List.mem_reverse]
      exact Or.inl hoidj.2.1
  · -- addedSub
    intro k' j hj
    rw [hadded] at hj
    split at hj
    · cases hj
    · exact hP.addedSub k' j hj
  · -- addedTracked
    intro k' j hj
    have hstr := hP.str
    rcases hP.addedTracked k' j hj with h | h
    · by_cases hkk : k' = k
      · subst hkk
        have hji : j = i := hstr.inj j i k' (hstr.addedS k' j h).1 hk
        subst hji
        right
        rw [hcreating, hcache]
        simp [hisnew h]
      · left; rw [hadded]; simp [hkk, h]
    · right
      rw [hcreating, hcache]
      by_cases hkk : k' = k
      · subst hkk
        have hji : j = i := hstr.inj j i k' (hstr.cacheS k' j h.2) hk
        subst hji
        simp [h.1]
      · simp [hkk, h.1, h.2]
  · -- cacheGrow
    intro k' j hj
    have hstr := hP.str
    have h := hP.cacheGrow k' j hj
    rw [hcache]
    by_cases hkk : k' = k
    · subst hkk
      have hji : j = i := hstr.inj j i k' (hstr.cacheS k' j h) hk
      simp [hji]
    · simp [hkk, h]
  · -- creatingNew
    intro k' hc
    rw [hcreating] at hc
    by_cases hcond : isNewObj s (s.objs i) k = true ∧ k' = k
    · obtain ⟨hisn, hkk⟩ := hcond
      subst hkk
      right
      rcases hknown with h | h | h
      · by_cases h0 : (s0.objs i).oid = none
        · exact Or.inl (hP.newTracked i k' h0 hk).1
        · right
          obtain ⟨k0, hk0⟩ := Option.ne_none_iff_exists'.1 h0
          have hkk : k0 = k' := by
            have := hP.oidKeep i k0 hk0; rw [hk] at this; cases this; rfl
          subst hkk
          have hser : (s.objs i).serial = 0 := by
            unfold isNewObj at hisn
            simp only [Bool.and_eq_true, beq_iff_eq] at hisn
            exact hisn.1
          have hser0 : (s0.objs i).serial = 0 := by
            rw [← (hP.objVal i h.2).2.2]; exact hser
          have hkn := hP.base.known i k0 hk0
          simp only [List.not_mem_nil, or_false] at hkn
          rcases hkn with hkn | hkn
          · exact Or.inr ⟨i, hkn, hser0, h.2⟩
          · exact Or.inl ⟨i, hkn⟩
      · exact Or.inr (Or.inl ⟨i, hP.addedSub k' i h⟩)
      · exact Or.inl (hP.newTracked i k' h hk).1
    · rw [if_neg hcond] at hc
      exact hP.creatingNew k' hc
  · -- tmpCr
    rw [sp.tmpCr]; exact hP.tmpCr
  · -- fresh0
    intro j h0
    have hstr := hP.str
    rcases hP.fresh0 j h0 with h | h | h
    · have hnone : (s.objs j).oid = none := by rw [h]; exact h0
      rcases hobj j with h' | h' | h'
      · left; rw [h', h]
      · rw [h'.1, hk] at hnone; cases hnone
      · right; left
        refine ⟨?_, ?_⟩
        · obtain ⟨k2, hk2, _⟩ := h'.2.2.2.2
          refine ⟨k2, ?_⟩
          rw [h'.2.2.2.1, hk2, h]
        · simp only [List.mem_append, List.mem_reverse]; exact Or.inl h'.2.1
    · obtain ⟨⟨k2, hk2⟩, hmem⟩ := h
      have hoidj : (s.objs j).oid = some k2 := by rw [hk2]
      by_cases hji : j = i
      · subst hji
        rw [hk] at hoidj; cases hoidj
        right; right
        refine ⟨k, ?_, ?_, ?_⟩
        · rcases hobj j with h' | h' | h'
          · rw [h']; exact hk
          · rw [h'.2.1]; exact hk
          · exact absurd rfl h'.1
        · rw [hcreating]; simp [hnew0 h0]
        · rw [hcache]; simp
      · right; left
        have hsame : s3.objs j = s.objs j := by
          rcases hobj j with h' | h' | h'
          · exact h'
          · exact absurd h'.1 hji
          · rw [h'.2.2.1] at hoidj; cases hoidj
        refine ⟨⟨k2, by rw [hsame, hk2]⟩, ?_⟩
        simp only [List.mem_cons] at hmem
        simp only [List.mem_append, List.mem_reverse]
        rcases hmem with hmem | hmem
        · exact absurd hmem hji
        · exact Or.inr hmem
    · obtain ⟨k2, hk2, hcr, hca⟩ := h
      right; right
      refine ⟨k2, ?_, ?_, ?_⟩
      · rcases hobj j with h' | h' | h'
        · rw [h']; exact hk2
        · rw [h'.2.1]; exact hk2
        · rw [h'.2.2.1] at hk2; cases hk2
      · rw [hcreating]; split
        · rfl
        · exact hcr
      · rw [hcache]
        by_cases hkk : k2 = k
        · subst hkk
          have := hstr.inj j i k2 hk2 hk
          simp [this]
        · simp [hkk, hca]
  · -- addedSame
    intro k' j hj
    have hstr := hP.str
    rw [hadded] at hj
    split at hj
    · cases hj
    · rename_i hcond
      rw [← hP.addedSame k' j hj]
      have hoidj := (hstr.addedS k' j hj).1
      rcases hobj j with h' | h' | h'
      · exact h'
      · exfalso
        have hji := h'.1
        subst hji
        rw [hk] at hoidj; cases hoidj
        exact hcond ⟨hisnew hj, rfl⟩
      · rw [h'.2.2.1] at hoidj; cases hoidj


  · -- statusKept
    intro j
    rcases hobj j with h | h | h
    · rcases hP.statusKept j with h' | ⟨k', hk', hm⟩
      · left; rw [h]; exact h'
      · right; exact ⟨k', by rw [h]; exact hk', sp.marked_mono k' hm⟩
    · right
      refine ⟨k, ?_, sp.marked_self⟩
      rw [h.2.1, h.1]; exact hk
    · rcases hP.statusKept j with h' | ⟨k', hk', hm⟩
      · left; rw [h.2.2.2.1]; exact h'
      · rw [h.2.2.1] at hk'; cases hk'
  · -- pendFresh
    intro j hjm h0 kj hkj
    simp only [List.mem_append, List.mem_reverse] at hjm
    rcases hjm with hjp | hjr
    · obtain ⟨hji, hsn, _⟩ := sp.pushedNew j hjp
      have hge : s.nextOid ≤ kj := by
        rcases hobj j with h | h | h
        · rw [h, hsn] at hkj; cases hkj
        · exact absurd h.1 hji
        · obtain ⟨k2, hk2, hge, _⟩ := h.2.2.2.2
          rw [hk2] at hkj; cases hkj; exact hge
      have hkne : kj ≠ k := by
        intro he; subst he; have := hP.str.fresh i kj hk; omega
      rw [hcache, hadded]
      simp only [hkne, if_false, and_false]
      constructor
      · cases hcg : s.cache.get kj with
        | none => rfl
        | some j' => have := hP.str.fresh j' kj (hP.str.cacheS kj j' hcg); omega
      · cases hcg : s.added.get kj with
        | none => rfl
        | some j' => have := hP.str.fresh j' kj (hP.str.addedS kj j' hcg).1; omega
    · have hji : j ≠ i := by intro he; rw [he] at hjr; exact hni hjr
      have hkjs : (s.objs j).oid = some kj := by
        rcases hobj j with h | h | h
        · rw [← h]; exact hkj
        · exact absurd h.1 hji
        · exact absurd h.2.2.1 (hrest j hjr)
      have hkne : kj ≠ k := by
        intro he; subst he; exact hji (hP.str.inj j i kj hkjs hk)
      obtain ⟨h1, h2⟩ := hP.pendFresh j (List.mem_cons_of_mem _ hjr) h0 kj hkjs
      rw [hcache, hadded]
      simp [hkne, h1, h2]


  · -- serialKept
    intro j hj
    rw [← hP.serialKept j hj]
    rcases hobj j with h | h | h
    · rw [h]
    · by_cases hsg : (s.objs j).status = .ghost
      · exfalso
        have hji := h.1
        subst hji
        exact h.2.2.2.2.2.1 hsg (hnorec hj hsg)
      · exact (h.2.2.2.2.1 hsg).2.2
    · rw [h.2.2.2.1]

  · -- statusNone
    intro hsp0 j hg
    rw [← hP.statusNone hsp0 j hg]
    rcases hobj j with h | h | h
    · rw [h]
    · exfalso
      rcases h.2.2.2.2.2.2 with h' | h'
      · exact hg (hP.noGhost j h')
      · have := hP.spSome; rw [hsp0] at this; rw [this] at h'; cases h'
    · rw [h.2.2.2.1]
  · -- markedCached
    intro k' j hm hc
    by_cases hmk : marked s k'
    · exact hP.markedCached k' j hmk hc
    · -- the mark is the new one
      have hkk : k' = k := by
        unfold marked at hm hmk
        rw [sp.modified, sp.creating] at hm
        by_cases hkk : k' = k
        · exact hkk
        · exfalso
          apply hmk
          rcases hm with hm | hm
          · left
            split at hm
            · exact hm
            · rcases List.mem_append.1 hm with h | h
              · exact h
              · simp only [List.mem_singleton] at h; exact absurd h hkk
          · right
            split at hm
            · rename_i hcnd; exact absurd hcnd.2 hkk
            · exact hm
      subst hkk
      right
      have hji : j = i := hP.str.inj j i k' (hP.str.cacheS k' j (hP.cacheGrow k' j hc)) hk
      subst hji
      rcases hknown with h | h | h
      · exact h.2
      · have := (hP.base.addedS k' j (hP.addedSub k' j h)).2
        rw [hc] at this; cases this
      · have := hP.base.cacheS k' j hc
        rw [h] at this; cases this

  · -- ghostStays
    intro j hg0
    have hgs := hP.ghostStays j hg0
    rcases hobj j with h | h | h
    · rw [h]; exact hgs
    · exfalso
      have hji := h.1
      subst hji
      have hl := h.2.2.2.2.2.1 hgs
      rcases hknown with h1 | h1 | h1
      · exact h1.2 hg0
      · exact hl (hnorec (Or.inr ⟨k, hP.addedSub k j h1⟩) hgs)
      · exact hl (hnorec (Or.inl h1) hgs)
    · rw [h.2.2.2.1]; exact hgs
  · -- ghostSerial
    intro j hg0
    have hgs := hP.ghostStays j hg0
    rw [← hP.ghostSerial j hg0]
    rcases hobj j with h | h | h
    · rw [h]
    · exfalso
      have hji := h.1
      subst hji
      have hl := h.2.2.2.2.2.1 hgs
      rcases hknown with h1 | h1 | h1
      · exact h1.2 hg0
      · exact hl (hnorec (Or.inr ⟨k, hP.addedSub k j h1⟩) hgs)
      · exact hl (hnorec (Or.inl h1) hgs)
    · rw [h.2.2.2.1]

/-! ### the `finally` clause: what is left on the stack after an error is disowned -/

theorem disownPending_prog {s0 s : State} {j : Nat} {P : List Nat}
    (hP : Prog s0 (j :: P) s) (h0 : (s0.objs j).oid = none) (hjP : j ∉ P) :
    Prog s0 P (disownPending s j) := by
  have hjar0 : (s0.objs j).jar = false := by
    have := hP.base.jarOid j; rw [h0] at this; simpa using this
  -- the object is in neither table
  have hnc : ∀ k', s.cache.get k' ≠ some j := by
    intro k' hk'
    have := hP.str.cacheS k' j hk'
    have := (hP.pendFresh j List.mem_cons_self h0 k' this).1
    rw [this] at hk'; cases hk'
  have hna : ∀ k', s.added.get k' ≠ some j := by
    intro k' hk'
    have := (hP.str.addedS k' j hk').1
    have := (hP.pendFresh j List.mem_cons_self h0 k' this).2
    rw [this] at hk'; cases hk'
  have hobj : ∀ x, x ≠ j → (disownPending s j).objs x = s.objs x := by
    intro x hx; simp [disownPending, setO, hx]
  have hj : (disownPending s j).objs j = s0.objs j := by
    simp only [disownPending, setO, if_true]
    rcases hP.fresh0 j h0 with h | h | h
    · rw [h]
      cases hs : s0.objs j
      simp_all
    · obtain ⟨⟨k2, hk2⟩, _⟩ := h
      rw [hk2]
      cases hs : s0.objs j
      simp_all
    · obtain ⟨k2, hk2, _, hca⟩ := h
      exact absurd hca (hnc k2)
  constructor
  · exact hP.base
  · -- Str
    constructor
    · intro k' x hx
      have hxj : x ≠ j := by intro he; subst he; exact hnc k' hx
      rw [hobj x hxj]; exact hP.str.cacheS k' x hx
    · intro k' x hx
      have hxj : x ≠ j := by intro he; subst he; exact hna k' hx
      rw [hobj x hxj]; exact hP.str.addedS k' x hx
    · intro x
      by_cases hx : x = j
      · subst hx; rw [hj, h0, hjar0]; rfl
      · rw [hobj x hx]; exact hP.str.jarOid x
    · intro x k' hx
      by_cases hxj : x = j
      · subst hxj; rw [hj, h0] at hx; cases hx
      · rw [hobj x hxj] at hx
        rcases hP.str.known x k' hx with h | h | h
        · exact Or.inl h
        · exact Or.inr (Or.inl h)
        · rcases List.mem_cons.1 h with h | h
          · exact absurd h hxj
          · exact Or.inr (Or.inr h)
    · intro x k' hx
      by_cases hxj : x = j
      · subst hxj; rw [hj, h0] at hx; cases hx
      · rw [hobj x hxj] at hx; exact hP.str.fresh x k' hx
    · intro x x' k' hx hx'
      by_cases hxj : x = j
      · subst hxj; rw [hj, h0] at hx; cases hx
      · by_cases hxj' : x' = j
        · subst hxj'; rw [hj, h0] at hx'; cases hx'
        · rw [hobj x hxj] at hx; rw [hobj x' hxj'] at hx'; exact hP.str.inj x x' k' hx hx'
    · exact hP.str.addedSorted
  · exact hP.ctx
  · exact hP.spSome
  · exact hP.nextOid
  · intro x k' hx
    have hxj : x ≠ j := by intro he; subst he; rw [h0] at hx; cases hx
    rw [hobj x hxj]; exact hP.oidKeep x k' hx
  · intro x hg
    by_cases hxj : x = j
    · subst hxj; rw [hj]; exact ⟨rfl, rfl, rfl⟩
    · rw [hobj x hxj]; exact hP.objVal x hg
  · intro x hc
    by_cases hxj : x = j
    · subst hxj; rw [hj] at hc; exact hc
    · rw [hobj x hxj] at hc; exact hP.noChange x hc
  · intro x hc
    by_cases hxj : x = j
    · subst hxj; rw [hj] at hc; exact hc
    · rw [hobj x hxj] at hc; exact hP.noGhost x hc
  · intro x k' hx0 hx
    by_cases hxj : x = j
    · subst hxj; rw [hj, h0] at hx; cases hx
    · rw [hobj x hxj] at hx
      obtain ⟨h1, h2⟩ := hP.newTracked x k' hx0 hx
      refine ⟨h1, ?_⟩
      rcases h2 with h2 | h2
      · rcases List.mem_cons.1 h2 with h2 | h2
        · exact absurd h2 hxj
        · exact Or.inl h2
      · exact Or.inr h2
  · exact hP.addedSub
  · exact hP.addedTracked
  · exact hP.cacheGrow
  · exact hP.creatingNew
  · exact hP.tmpCr
  · intro x hx0
    by_cases hxj : x = j
    · subst hxj; left; exact hj
    · rw [hobj x hxj]
      rcases hP.fresh0 x hx0 with h | h | h
      · exact Or.inl h
      · right; left
        refine ⟨h.1, ?_⟩
        rcases List.mem_cons.1 h.2 with h2 | h2
        · exact absurd h2 hxj
        · exact h2
      · exact Or.inr (Or.inr h)
  · intro k' x hx
    have hxj : x ≠ j := by intro he; subst he; exact hna k' hx
    rw [hobj x hxj]; exact hP.addedSame k' x hx
  · intro x
    by_cases hxj : x = j
    · subst hxj; left; rw [hj]
    · rw [hobj x hxj]; exact hP.statusKept x
  · intro x hxP hx0 k' hx
    have hxj : x ≠ j := by intro he; subst he; exact hjP hxP
    rw [hobj x hxj] at hx
    exact hP.pendFresh x (List.mem_cons_of_mem _ hxP) hx0 k' hx
  · intro x hx
    by_cases hxj : x = j
    · subst hxj; rw [hj]
    · rw [hobj x hxj]; exact hP.serialKept x hx
  · intro hsp0 x hg
    by_cases hxj : x = j
    · subst hxj; rw [hj]
    · rw [hobj x hxj]; exact hP.statusNone hsp0 x hg
  · exact hP.markedCached
  · intro x hg
    by_cases hxj : x = j
    · subst hxj; rw [hj]; exact hg
    · rw [hobj x hxj]; exact hP.ghostStays x hg
  · intro x hg
    by_cases hxj : x = j
    · subst hxj; rw [hj]
    · rw [hobj x hxj]; exact hP.ghostSerial x hg

theorem dropStack_prog {s0 : State} : ∀ (P : List Nat) (s : State), Prog s0 P s →
    (∀ j ∈ P, (s0.objs j).oid = none) → P.Nodup → Prog s0 [] (dropStack s P) := by
  intro P
  induction P with
  | nil => intro s h _ _; exact h
  | cons j rest ih =>
    intro s h h0 hnd
    simp only [dropStack, List.foldl_cons]
    exact ih _ (disownPending_prog h (h0 j List.mem_cons_self) (List.nodup_cons.1 hnd).1)
      (fun x hx => h0 x (List.mem_cons_of_mem _ hx)) (List.nodup_cons.1 hnd).2

/-! ### the whole loop of `_store_objects` -/

/-- what `_commit` needs to know about the state it starts in, in order to classify objects -/
structure NewOK (s0 : State) : Prop where
  serial0 : ∀ j, (s0.objs j).oid = none → (s0.objs j).serial = 0
  tmpFresh : ∀ cr, tmpCr s0 = some cr → ∀ k, cr.get k ≠ none → k < s0.nextOid

theorem isNewObj_true {s : State} {o : Obj} {k : Nat} (h1 : o.serial = 0)
    (h2 : ∀ cr, tmpCr s = some cr → cr.get k = none) : isNewObj s o k = true := by
  unfold isNewObj
  simp only [h1, beq_self_eq_true, Bool.true_and]
  unfold tmpCr at h2
  cases hs : s.sp with
  | none => rfl
  | some t =>
    simp only [hs, Option.map_some, Option.some.injEq, forall_eq'] at h2
    simp [h2]

/-- requirements on an object waiting on the writer's stack -/
def StackOK (s0 s : State) (j : ObjId) : Prop :=
  ∃ k, (s.objs j).oid = some k ∧
    (s.added.get k ≠ none → isNewObj s (s.objs j) k = true) ∧
    ((s.cache.get k = some j ∧ (s0.objs j).status ≠ .ghost) ∨ s.added.get k = some j ∨
      (s0.objs j).oid = none) ∧
    ((s0.objs j).oid = none → isNewObj s (s.objs j) k = true)

/-- an extra invariant carried through the successful iterations -/
def StepInv (J : State → Prop) : Prop :=
  ∀ s i k rest s3 pushed, J s → Str (i :: rest) s → (s.objs i).oid = some k →
    StepSpec s i k rest s3 pushed → StoredSpec s i k s3 → J s3

/-- a new object that is a ghost has no record it could be loaded from -/
def NoRec (s0 s : State) : Prop :=
  ∀ j k, (s.objs j).oid = some k → ((s0.objs j).oid = none ∨ ∃ k', s0.added.get k' = some j) →
    (s.objs j).status = .ghost → loadRec s k = none

/-- one iteration, packaged for the loops -/
theorem storeOne_loop {s0 s : State} (hN : NewOK s0) {i : Nat} {rest : List Nat}
    (hP : Prog s0 (i :: rest) s) (hnr : NoRec s0 s) (hnd : (i :: rest).Nodup)
    (hst : ∀ j ∈ i :: rest, StackOK s0 s j) (hpend : ∀ j ∈ rest, (s0.objs j).oid = none) :
    ∃ k, (s.objs i).oid = some k ∧ StepSpec s i k rest (storeOne s i).1.1 (storeOne s i).2 ∧
      (((storeOne s i).1.2 = none → StoredSpec s i k (storeOne s i).1.1) ∧
        ((storeOne s i).1.2 ≠ none → s.sp.isSome = true →
          (storeOne s i).1.1.sp = s.sp ∧ (storeOne s i).1.1.objs = s.objs ∧
          (storeOne s i).1.1.staged = s.staged)) ∧
      Prog s0 ((storeOne s i).2.reverse ++ rest) (storeOne s i).1.1 ∧
      ((storeOne s i).2.reverse ++ rest).Nodup ∧
      (∀ j ∈ (storeOne s i).2.reverse ++ rest, StackOK s0 (storeOne s i).1.1 j) ∧
      (∀ j ∈ (storeOne s i).2.reverse ++ rest, (s0.objs j).oid = none) := by
  obtain ⟨k, hk, hnew, hknown, hnew0⟩ := hst i List.mem_cons_self
  have hc : isNewObj s (s.objs i) k = false → s.cache.get k = some i := by
    intro hn
    rcases hknown with h | h | h
    · exact h.1
    · rw [hnew (by rw [h]; simp)] at hn; cases hn
    · rw [hnew0 h] at hn; cases hn
  obtain ⟨sp, hstored⟩ := storeOne_step hP.str hk hnew hc
  have hrest : ∀ j ∈ rest, (s.objs j).oid ≠ none := by
    intro j hj
    obtain ⟨kj, hkj, _⟩ := hst j (List.mem_cons_of_mem _ hj)
    rw [hkj]; simp
  have step := storeOne_prog hP hk hnew hknown hnew0 (List.nodup_cons.1 hnd).1 hrest
    (fun h1 h2 => hnr i k hk h1 h2) sp
  refine ⟨k, hk, sp, hstored, step.prog, ?_, ?_, ?_⟩
  · rw [List.nodup_append]
    refine ⟨nodup_reverse sp.nodup, (List.nodup_cons.1 hnd).2, ?_⟩
    intro a ha b hb hab
    subst hab
    have := (sp.pushedNew a (List.mem_reverse.1 ha)).2.1
    exact hrest a hb this
  · intro j hjm
    rcases List.mem_append.1 hjm with hjp | hjr
    · obtain ⟨_, h0n, k', hobj, hge⟩ := step.pushedFresh j (List.mem_reverse.1 hjp)
      have hisn : isNewObj (storeOne s i).1.1 ((storeOne s i).1.1.objs j) k' = true := by
        apply isNewObj_true
        · rw [hobj]; exact hN.serial0 j h0n
        · intro cr hcr
          rw [step.prog.tmpCr] at hcr
          cases hg : cr.get k' with
          | none => rfl
          | some b => have := hN.tmpFresh cr hcr k' (by rw [hg]; simp); omega
      exact ⟨k', by rw [hobj], fun _ => hisn, Or.inr (Or.inr h0n), fun _ => hisn⟩
    · obtain ⟨kj, hkj, hnewj, hknownj, hnew0j⟩ := hst j (List.mem_cons_of_mem _ hjr)
      have hji : j ≠ i := by
        intro he; rw [he] at hjr; exact (List.nodup_cons.1 hnd).1 hjr
      have hsame : (storeOne s i).1.1.objs j = s.objs j := by
        rcases sp.obj j with h | h | h
        · exact h
        · exact absurd h.1 hji
        · rw [h.2.2.1] at hkj; cases hkj
      have hkne : kj ≠ k := by
        intro he; subst he; exact hji (hP.str.inj j i kj hkj hk)
      have hisn : isNewObj (storeOne s i).1.1 ((storeOne s i).1.1.objs j) kj =
          isNewObj s (s.objs j) kj := isNewObj_congr kj sp.tmpCr (by rw [hsame])
      refine ⟨kj, by rw [hsame]; exact hkj, ?_, ?_, ?_⟩
      · intro ha
        rw [hisn]; apply hnewj
        rw [sp.added] at ha
        simpa [hkne] using ha
      · rcases hknownj with h | h | h
        · left; rw [sp.cache]; simp [hkne, h.1, h.2]
        · right; left; rw [sp.added]; simp [hkne, h]
        · exact Or.inr (Or.inr h)
      · intro h; rw [hisn]; exact hnew0j h
  · intro j hjm
    rcases List.mem_append.1 hjm with hjp | hjr
    · exact (step.pushedFresh j (List.mem_reverse.1 hjp)).2.1
    · exact hpend j hjr

/-- after an error every object that was on the stack, or was pushed by the failing iteration, is
    disowned and the progress relation holds with nothing pending -/
theorem storeOne_fail_drop {s0 s : State} (hN : NewOK s0) {i : Nat} {rest : List Nat}
    (hP : Prog s0 (i :: rest) s) (hnr : NoRec s0 s) (hnd : (i :: rest).Nodup)
    (hst : ∀ j ∈ i :: rest, StackOK s0 s j) (hpend : ∀ j ∈ rest, (s0.objs j).oid = none) :
    Prog s0 [] (dropStack (storeOne s i).1.1 ((storeOne s i).2 ++ rest)) := by
  obtain ⟨k, hk, sp, _, hprog, hnd', _, hp0⟩ := storeOne_loop hN hP hnr hnd hst hpend
  apply dropStack_prog
  · exact hprog.perm (by
      intro j; simp only [List.mem_append, List.mem_reverse])
  · intro j hj
    exact hp0 j (by simp only [List.mem_append, List.mem_reverse] at hj ⊢; exact hj)
  · rw [List.nodup_append] at hnd' ⊢
    refine ⟨sp.nodup, hnd'.2.1, ?_⟩
    intro a ha b hb
    exact hnd'.2.2 a (List.mem_reverse.2 ha) b hb

/-- `_modified`/`_creating` only grow and `_added` only shrinks -/
def Mono (s r : State) : Prop :=
  (∀ k, marked s k → marked r k) ∧ (∀ k j, r.added.get k = some j → s.added.get k = some j)

theorem Mono.refl (s : State) : Mono s s := ⟨fun _ h => h, fun _ _ h => h⟩

theorem Mono.trans {a b c : State} (h1 : Mono a b) (h2 : Mono b c) : Mono a c :=
  ⟨fun k h => h2.1 k (h1.1 k h), fun k j h => h1.2 k j (h2.2 k j h)⟩

theorem StepSpec.mono {s i k rest s3 pushed} (sp : StepSpec s i k rest s3 pushed) : Mono s s3 := by
  refine ⟨sp.marked_mono, ?_⟩
  intro k' j hj
  rw [sp.added] at hj
  split at hj
  · cases hj
  · exact hj

theorem StepSpec.added_self {s i k rest s3 pushed} (sp : StepSpec s i k rest s3 pushed)
    (hnew : s.added.get k ≠ none → isNewObj s (s.objs i) k = true) : s3.added.get k = none := by
  rw [sp.added]
  split
  · rfl
  · rename_i hn
    cases ha : s.added.get k with
    | none => rfl
    | some j => exact absurd ⟨hnew (by rw [ha]; simp), rfl⟩ hn

/-- a second property carried through the successful iterations: it is established for the stored
    object and kept for all others ("the object with this oid is clean", under a TmpStore) -/
def StepQ (J : State → Prop) (Q : State → Nat → Prop) : Prop :=
  ∀ s i k rest s3 pushed, J s → Str (i :: rest) s → (s.objs i).oid = some k →
    StepSpec s i k rest s3 pushed → StoredSpec s i k s3 → Q s3 k ∧ ∀ k', Q s k' → Q s3 k'

theorem stepQ_true (J : State → Prop) : StepQ J (fun _ _ => True) :=
  fun _ _ _ _ _ _ _ _ _ _ _ => ⟨trivial, fun _ _ => trivial⟩

/-- an invariant that survives a failed iteration and the `finally` clause: it follows from `J`, is kept
    by a failed iteration (described by `StepSpec` and, under a TmpStore, by the fact that neither the
    store nor the objects changed), and by disowning a pending object -/
structure FailInv (J F : State → Prop) : Prop where
  ofJ : ∀ s, J s → F s
  fail : ∀ s i k rest s3 pushed, J s → Str (i :: rest) s → (s.objs i).oid = some k →
    StepSpec s i k rest s3 pushed →
    (s.sp.isSome = true → s3.sp = s.sp ∧ s3.objs = s.objs ∧ s3.staged = s.staged) → F s3
  drop : ∀ s j, F s → F (disownPending s j)

theorem failInv_true (J : State → Prop) : FailInv J (fun _ => True) :=
  ⟨fun _ _ => trivial, fun _ _ _ _ _ _ _ _ _ _ _ => trivial, fun _ _ _ => trivial⟩

theorem FailInv.dropStack {J F : State → Prop} (hF : FailInv J F) :
    ∀ (stack : List Nat) (s : State), F s → F (dropStack s stack) := by
  intro stack
  induction stack with
  | nil => intro s h; exact h
  | cons j rest ih =>
    intro s h
    simp only [ZodbModel.Conn.dropStack, List.foldl_cons]
    exact ih _ (hF.drop s j h)

/-- the loop, started with only new objects pending -/
theorem storeObjects_pending {s0 : State} (hN : NewOK s0) {J : State → Prop} (hJ : StepInv J)
    (hJN : ∀ P s, Prog s0 P s → J s → NoRec s0 s) {Q : State → Nat → Prop} (hQ : StepQ J Q)
    {F : State → Prop} (hF : FailInv J F) :
    ∀ (fuel : Nat) (s : State) (stack : List ObjId), Prog s0 stack s → J s → stack.Nodup →
      (∀ j ∈ stack, StackOK s0 s j) → (∀ j ∈ stack, (s0.objs j).oid = none) →
      ((storeObjects fuel s stack).2 = none →
        Prog s0 [] (storeObjects fuel s stack).1 ∧ J (storeObjects fuel s stack).1 ∧
        Mono s (storeObjects fuel s stack).1 ∧ ∀ k', Q s k' → Q (storeObjects fuel s stack).1 k') ∧
      ((storeObjects fuel s stack).2 ≠ none →
        Prog s0 [] (storeObjects fuel s stack).1 ∧ F (storeObjects fuel s stack).1) := by
  intro fuel
  induction fuel with
  | zero =>
    intro s stack hP hj hnd _ h0
    cases stack with
    | nil => exact ⟨fun _ => ⟨hP, hj, Mono.refl s, fun _ h => h⟩, fun h => absurd rfl h⟩
    | cons i rest =>
      simp only [storeObjects]
      exact ⟨fun h => by simp at h,
        fun _ => ⟨dropStack_prog _ _ hP h0 hnd, hF.dropStack _ _ (hF.ofJ s hj)⟩⟩
  | succ n ih =>
    intro s stack hP hj hnd hst h0
    cases stack with
    | nil => exact ⟨fun _ => ⟨hP, hj, Mono.refl s, fun _ h => h⟩, fun h => absurd rfl h⟩
    | cons i rest =>
      have hpend : ∀ j ∈ rest, (s0.objs j).oid = none := fun j hj => h0 j (List.mem_cons_of_mem _ hj)
      obtain ⟨k, hk, sp, hstored, hprog, hnd', hst', hp0⟩ := storeOne_loop hN hP (hJN _ s hP hj) hnd hst hpend
      simp only [storeObjects]
      cases hres : (storeOne s i).1.2 with
      | none =>
        simp only
        have hj3 := hJ s i k rest _ _ hj hP.str hk sp (hstored.1 hres)
        obtain ⟨ih1, ih2⟩ := ih (storeOne s i).1.1 _ hprog hj3 hnd' hst' hp0
        refine ⟨fun h => ?_, ih2⟩
        obtain ⟨h1, h2, h3, h4⟩ := ih1 h
        exact ⟨h1, h2, sp.mono.trans h3,
          fun k' hk' => h4 k' ((hQ s i k rest _ _ hj hP.str hk sp (hstored.1 hres)).2 k' hk')⟩
      | some e =>
        simp only
        refine ⟨fun h => by simp at h,
          fun _ => ⟨storeOne_fail_drop hN hP (hJN _ s hP hj) hnd hst hpend, ?_⟩⟩
        apply hF.dropStack
        exact hF.fail s i k rest _ _ hj hP.str hk sp (hstored.2 (by rw [hres]; simp))

/-- `_store_objects(ObjectWriter(obj))` for a registered object -/
theorem storeObjects_top {s0 : State} (hN : NewOK s0) {J : State → Prop} (hJ : StepInv J)
    (hJN : ∀ P s, Prog s0 P s → J s → NoRec s0 s) {Q : State → Nat → Prop} (hQ : StepQ J Q)
    {F : State → Prop} (hF : FailInv J F)
    (n : Nat) (s : State) (i : ObjId) (hP : Prog s0 [] s) (hj : J s) (hst : StackOK s0 s i)
    (hi0 : (s0.objs i).oid ≠ none) :
    ((storeObjects (n + 1) s [i]).2 = none →
      Prog s0 [] (storeObjects (n + 1) s [i]).1 ∧ J (storeObjects (n + 1) s [i]).1 ∧
      Mono s (storeObjects (n + 1) s [i]).1 ∧
      (∀ k', Q s k' → Q (storeObjects (n + 1) s [i]).1 k') ∧
      (∀ k, (s.objs i).oid = some k → marked (storeObjects (n + 1) s [i]).1 k ∧
        (storeObjects (n + 1) s [i]).1.added.get k = none ∧ Q (storeObjects (n + 1) s [i]).1 k)) ∧
    ((storeObjects (n + 1) s [i]).2 ≠ none →
      Prog s0 [] (storeObjects (n + 1) s [i]).1 ∧ F (storeObjects (n + 1) s [i]).1) := by
  have hP1 : Prog s0 [i] s := by
    refine { hP with str := hP.str.mono (by simp), newTracked := ?_, fresh0 := ?_, pendFresh := ?_ }
    · intro x k h1 h2
      obtain ⟨h3, h4⟩ := hP.newTracked x k h1 h2
      exact ⟨h3, h4.elim (fun h => by cases h) Or.inr⟩
    · intro x hx
      rcases hP.fresh0 x hx with h | h | h
      · exact Or.inl h
      · exact absurd h.2 (by simp)
      · exact Or.inr (Or.inr h)
    · intro x hx h0 k hk
      simp only [List.mem_singleton] at hx
      subst hx
      exact absurd h0 hi0
  have hnd : [i].Nodup := by simp
  have hst1 : ∀ j ∈ [i], StackOK s0 s j := by
    intro j hj; simp only [List.mem_singleton] at hj; subst hj; exact hst
  have hpend : ∀ j ∈ ([] : List Nat), (s0.objs j).oid = none := by intro j hj; cases hj
  obtain ⟨k, hk, sp, hstored, hprog, hnd', hst', hp0⟩ := storeOne_loop hN hP1 (hJN _ s hP1 hj) hnd hst1 hpend
  simp only [storeObjects]
  cases hres : (storeOne s i).1.2 with
  | none =>
    simp only
    have hj3 := hJ s i k [] _ _ hj hP1.str hk sp (hstored.1 hres)
    obtain ⟨ih1, ih2⟩ := storeObjects_pending hN hJ hJN hQ hF n (storeOne s i).1.1 _ hprog hj3 hnd' hst' hp0
    refine ⟨fun h => ?_, ih2⟩
    obtain ⟨h1, h2, h3, h4⟩ := ih1 h
    have hq := hQ s i k [] _ _ hj hP1.str hk sp (hstored.1 hres)
    refine ⟨h1, h2, sp.mono.trans h3, fun k' hk' => h4 k' (hq.2 k' hk'), ?_⟩
    intro k' hk'
    rw [hk] at hk'; cases hk'
    refine ⟨h3.1 _ sp.marked_self, ?_, h4 _ hq.1⟩
    obtain ⟨k2, hk2, hnew2, _⟩ := hst
    rw [hk] at hk2; cases hk2
    have := sp.added_self hnew2
    cases hc : (storeObjects n (storeOne s i).1.1 ((storeOne s i).2.reverse ++ [])).1.added.get k with
    | none => rfl
    | some j => have := h3.2 k j hc; simp_all
  | some e =>
    simp only
    refine ⟨fun h => by simp at h,
      fun _ => ⟨storeOne_fail_drop hN hP1 (hJN _ s hP1 hj) hnd hst1 hpend, ?_⟩⟩
    apply hF.dropStack
    exact hF.fail s i k [] _ _ hj hP1.str hk sp (hstored.2 (by rw [hres]; simp))

/-! ### the loop of `_commit` over the registered objects -/

theorem commitLoop_prog {s0 : State} (hN : NewOK s0)
    (hA : ∀ k j, s0.added.get k = some j → isNewObj s0 (s0.objs j) k = true)
    {J : State → Prop} (hJ : StepInv J) (hJN : ∀ P s, Prog s0 P s → J s → NoRec s0 s)
    {Q : State → Nat → Prop} (hQ : StepQ J Q)
    (hQskip : ∀ s, Prog s0 [] s → J s → ∀ i k, (s.objs i).oid = some k → s.added.has k = false →
      (s.creating.has k = true ∨ (s.objs i).status ≠ .changed) → Q s k)
    {F : State → Prop} (hF : FailInv J F) (n : Nat) :
    ∀ (regs : List ObjId) (s : State), Prog s0 [] s → J s → (∀ i ∈ regs, (s0.objs i).oid ≠ none) →
      ((commitLoop (n + 1) s regs).2 = none →
        Prog s0 [] (commitLoop (n + 1) s regs).1 ∧ J (commitLoop (n + 1) s regs).1 ∧
        Mono s (commitLoop (n + 1) s regs).1 ∧
        (∀ k', Q s k' → Q (commitLoop (n + 1) s regs).1 k') ∧
        (∀ i ∈ regs, ∀ k, (s0.objs i).oid = some k →
          (commitLoop (n + 1) s regs).1.added.get k = none ∧ Q (commitLoop (n + 1) s regs).1 k ∧
          ((s0.added.get k = some i ∨ (s0.objs i).status = .changed) →
            marked (commitLoop (n + 1) s regs).1 k))) ∧
      ((commitLoop (n + 1) s regs).2 ≠ none →
        Prog s0 [] (commitLoop (n + 1) s regs).1 ∧ F (commitLoop (n + 1) s regs).1) := by
  intro regs
  induction regs with
  | nil =>
    intro s hP hj _
    exact ⟨fun _ => ⟨hP, hj, Mono.refl s, fun _ h => h, by simp⟩, fun h => absurd rfl h⟩
  | cons i rest ih =>
    intro s hP hj hreg
    have hi0 := hreg i List.mem_cons_self
    obtain ⟨k, hk0⟩ := Option.ne_none_iff_exists'.1 hi0
    have hk := hP.oidKeep i k hk0
    have hrest : ∀ j ∈ rest, (s0.objs j).oid ≠ none := fun j hj => hreg j (List.mem_cons_of_mem _ hj)
    simp only [commitLoop, hk]
    split
    · -- the object is stored
      rename_i hcond
      have hst : StackOK s0 s i := by
        refine ⟨k, hk, ?_, ?_, fun h => by rw [hk0] at h; cases h⟩
        · intro ha
          obtain ⟨j', hj'⟩ := Option.ne_none_iff_exists'.1 ha
          have hjj : j' = i := hP.str.inj j' i k (hP.str.addedS k j' hj').1 hk
          subst hjj
          have h0 := hP.addedSub k j' hj'
          have hobj := hP.addedSame k j' hj'
          rw [isNewObj_congr k hP.tmpCr (by rw [hobj])]
          exact hA k j' h0
        · have := hP.str.known i k hk
          simp only [List.not_mem_nil, or_false] at this
          rcases this with h | h
          · by_cases ha : s.added.has k = true
            · rw [Map.has_iff] at ha
              obtain ⟨j', hj'⟩ := Option.ne_none_iff_exists'.1 ha
              have := (hP.str.addedS k j' hj').2
              rw [h] at this; cases this
            · left
              refine ⟨h, ?_⟩
              simp only [ha, Bool.false_or, Bool.not_eq_true', Bool.or_eq_false_iff,
                bne_eq_false_iff_eq] at hcond
              intro hg
              have := hP.noChange i hcond.2
              rw [hg] at this; cases this
          · exact Or.inr (Or.inl h)
      have hso := storeObjects_top hN hJ hJN hQ hF n s i hP hj hst hi0
      cases hres : (storeObjects (n + 1) s [i]).2 with
      | none =>
        simp only
        obtain ⟨h1, h2, h3, h3q, h4⟩ := hso.1 hres
        obtain ⟨ih1, ih2⟩ := ih (storeObjects (n + 1) s [i]).1 h1 h2 hrest
        refine ⟨fun h => ?_, ih2⟩
        obtain ⟨g1, g2, g3, g3q, g4⟩ := ih1 h
        refine ⟨g1, g2, h3.trans g3, fun k' hk' => g3q k' (h3q k' hk'), ?_⟩
        intro j hjm kj hkj
        rcases List.mem_cons.1 hjm with hje | hjr
        · subst hje
          rw [hk0] at hkj; cases hkj
          obtain ⟨m1, m2, m3⟩ := h4 _ hk
          refine ⟨?_, g3q _ m3, fun _ => g3.1 _ m1⟩
          cases hc : (commitLoop (n + 1) (storeObjects (n + 1) s [j]).1 rest).1.added.get k with
          | none => rfl
          | some j' => have := g3.2 k j' hc; rw [m2] at this; cases this
        · exact g4 j hjr kj hkj
      | some e =>
        simp only
        exact ⟨fun h => by simp at h, fun _ => hso.2 (by rw [hres]; simp)⟩
    · -- nothing to do for this object
      rename_i hcond
      obtain ⟨ih1, ih2⟩ := ih s hP hj hrest
      refine ⟨fun h => ?_, ih2⟩
      obtain ⟨g1, g2, g3, g3q, g4⟩ := ih1 h
      refine ⟨g1, g2, g3, g3q, ?_⟩
      intro j hjm kj hkj
      rcases List.mem_cons.1 hjm with hje | hjr
      · subst hje
        rw [hk0] at hkj; cases hkj
        simp only [Bool.or_eq_true, Bool.not_eq_true', Bool.or_eq_false_iff, not_or,
          Bool.not_eq_true, bne_eq_false_iff_eq, not_and] at hcond
        obtain ⟨hnadd, hcr⟩ := hcond
        have hqs : Q s k := by
          apply hQskip s hP hj j k hk hnadd
          by_cases hc : s.creating.has k = true
          · exact Or.inl hc
          · right
            intro hch
            have := hcr (by simpa using hc)
            rw [hch] at this; simp at this
        refine ⟨?_, g3q _ hqs, ?_⟩
        · cases hc : (commitLoop (n + 1) s rest).1.added.get k with
          | none => rfl
          | some j' =>
            have := g3.2 k j' hc
            rw [Map.has_eq_false] at hnadd; rw [hnadd] at this; cases this
        intro hch
        apply g3.1
        rcases hch with hch | hch
        · rcases hP.addedTracked k j hch with h | h
          · rw [Map.has_eq_false] at hnadd; rw [hnadd] at h; cases h
          · exact Or.inr h.1
        · rcases hP.statusKept j with h | ⟨k', hk', hm⟩
          · by_cases hc : s.creating.has k = true
            · exact Or.inr hc
            · exfalso
              have := hcr (by simpa using hc)
              rw [h, hch] at this
              simp at this
          · rw [hk] at hk'; cases hk'; exact hm
      · exact g4 j hjr kj hkj

/-! ### what ends up in the storage transaction (commit without savepoints) -/

/-- the records staged in the storage describe stored objects of the connection, and every oid
    recorded in `_modified`/`_creating` has a staged record -/
structure Stg (s0 s : State) : Prop where
  spNone : s.sp = none
  recs : ∀ k r, (k, r) ∈ s.staged → (k, r) ∈ s0.staged ∨
    ∃ j, s.cache.get k = some j ∧ r = ⟨(s.objs j).serial, (s.objs j).val, (s.objs j).refs⟩ ∧
      (s.objs j).status ≠ .ghost ∧ marked s k ∧ ∀ x ∈ (s.objs j).refs, (s.objs x).oid ≠ none
  marks : ∀ k, marked s k → marked s0 k ∨ ∃ r, (k, r) ∈ s.staged

theorem Stg.refl {s : State} (h : s.sp = none) : Stg s s :=
  ⟨h, fun _ _ h => Or.inl h, fun _ h => Or.inl h⟩

theorem stg_step (s0 : State) : StepInv (Stg s0) := by
  intro s i k rest s3 pushed hJ hS hk sp st
  have hkeep : ∀ j k2, (s.objs j).oid = some k2 → (s3.objs j).oid = some k2 := by
    intro j k2 hj
    rcases sp.obj j with h | h | h
    · rw [h]; exact hj
    · rw [h.2.1]; exact hj
    · rw [h.2.2.1] at hj; cases hj
  obtain ⟨hsp3, _, hst3⟩ := st.stagedNone hJ.spNone
  refine ⟨hsp3, ?_, ?_⟩
  · intro k' r hr
    rw [hst3, List.mem_append, List.mem_singleton] at hr
    rcases hr with hr | hr
    · rcases hJ.recs k' r hr with h | ⟨j, hc, hrec, hng, hm, hrefs⟩
      · exact Or.inl h
      · right
        have hoj := hS.cacheS k' j hc
        have hcache3 : s3.cache.get k' = some j := by
          rw [sp.cache]
          by_cases hkk : k' = k
          · subst hkk; rw [hS.inj j i k' hoj hk]; simp
          · simp [hkk, hc]
        have hsame : (s3.objs j).serial = (s.objs j).serial ∧ (s3.objs j).val = (s.objs j).val ∧
            (s3.objs j).refs = (s.objs j).refs ∧ (s3.objs j).status ≠ .ghost := by
          rcases sp.obj j with h | h | h
          · rw [h]; exact ⟨rfl, rfl, rfl, hng⟩
          · have := h.2.2.2.2.1 hng
            exact ⟨this.2.2, this.1, this.2.1, by rw [h.2.2.2.1]; simp⟩
          · rw [h.2.2.1] at hoj; cases hoj
        refine ⟨j, hcache3, by rw [hsame.1, hsame.2.1, hsame.2.2.1]; exact hrec, hsame.2.2.2,
          sp.marked_mono k' hm, ?_⟩
        intro x hx
        rw [hsame.2.2.1] at hx
        obtain ⟨kx, hkx⟩ := Option.ne_none_iff_exists'.1 (hrefs x hx)
        rw [hkeep x kx hkx]; simp
    · cases hr
      right
      exact ⟨i, by rw [sp.cache]; simp, rfl, st.notGhost, sp.marked_self, st.refsOid⟩
  · intro k' hm
    by_cases hkk : k' = k
    · subst hkk
      right
      exact ⟨⟨(s3.objs i).serial, (s3.objs i).val, (s3.objs i).refs⟩, by rw [hst3]; simp⟩
    · have hm' : marked s k' := by
        unfold marked at hm ⊢
        rw [sp.modified, sp.creating] at hm
        rcases hm with hm | hm
        · left
          split at hm
          · exact hm
          · rcases List.mem_append.1 hm with h | h
            · exact h
            · simp only [List.mem_singleton] at h; exact absurd h hkk
        · right
          split at hm
          · rename_i hc; exact absurd hc.2 hkk
          · exact hm
      rcases hJ.marks k' hm' with h | ⟨r, hr⟩
      · exact Or.inl h
      · right; exact ⟨r, by rw [hst3]; exact List.mem_append_left _ hr⟩

theorem Prog.cachedOrigin {e r : State} (hP : Prog e [] r) {k j : Nat} (hc : r.cache.get k = some j) :
    e.cache.get k = some j ∨ r.creating.has k = true := by
  have hoj := hP.str.cacheS k j hc
  cases ho0 : (e.objs j).oid with
  | none =>
    obtain ⟨_, hh⟩ := hP.newTracked j k ho0 hoj
    simp only [List.not_mem_nil, false_or] at hh
    exact Or.inr hh.1
  | some k0 =>
    have : k0 = k := by have := hP.oidKeep j k0 ho0; rw [hoj] at this; cases this; rfl
    subst this
    have hkn := hP.base.known j k0 ho0
    simp only [List.not_mem_nil, or_false] at hkn
    rcases hkn with h1 | h1
    · exact Or.inl h1
    · rcases hP.addedTracked k0 j h1 with h' | h'
      · have := (hP.str.addedS k0 j h').2; rw [hc] at this; cases this
      · exact Or.inr h'.1


end Proofs.Conn
