/-
  More lemmas on the `read_index` scanner for ARBITRARY bytes (C09): every accepted step consumes
  between 8 bytes and what is left, so the fuel of `scan` is never exhausted; the list of accepted
  transactions is only an output.  Core Lean only.
-/
import Proofs.Format
namespace Proofs.Format
open ZodbModel ZodbModel.Format

theorem parseTxn_ok_len {rest : Bytes} {pos : Nat} {t : FTxn} {precs : List (Nat × FRec)} {len : Nat}
    (h : parseTxn rest pos = .ok t precs len) : 8 ≤ len ∧ len ≤ rest.length := by
  unfold parseTxn at h
  simp only [] at h
  repeat' (split at h <;> try (simp at h))
  trace_state
  sorry

end Proofs.Format
