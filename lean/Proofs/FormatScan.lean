/-
  More lemmas on the `read_index` scanner for ARBITRARY bytes (C09): every accepted step consumes
  between 8 bytes and what is left, so the fuel of `scan` is never exhausted; the list of accepted
  transactions is only an output.  Core Lean only.
-/
import Proofs.Format
namespace Proofs.Format
open ZodbModel ZodbModel.Format

theorem parseTxn_ok_len {rest : Bytes} {pos : Nat} {t : FTxn} {precs : List (Nat × FRec)} {len : Nat}
    (h : parseTxn rest pos = .ok t precs len) : 31 ≤ len ∧ len ≤ rest.length := by
  unfold parseTxn at h
  simp only [] at h
  repeat' (split at h <;> try (simp at h))
  obtain ⟨_, _, h3⟩ := h
  subst h3
  constructor <;> omega

theorem parseTxn_skip_len {rest : Bytes} {pos tid len : Nat}
    (h : parseTxn rest pos = .skip tid len) : 31 ≤ len ∧ len ≤ rest.length := by
  unfold parseTxn at h
  simp only [] at h
  repeat' (split at h <;> try (simp at h))
  obtain ⟨_, h3⟩ := h
  subst h3
  constructor <;> omega

/-- with more fuel than bytes left the scan never runs out of fuel -/
theorem scan_fuel : ∀ (f f' : Nat) (rest : Bytes) (pos : Nat) (st : ScanState),
    rest.length < f → rest.length < f' → scan f rest pos st = scan f' rest pos st := by
  intro f
  induction f with
  | zero => intro f' rest pos st h; omega
  | succ f ih =>
    intro f' rest pos st h h'
    cases f' with
    | zero => omega
    | succ f' =>
      simp only [scan]
      split <;> try rfl
      · rename_i tid len heq
        have := parseTxn_skip_len heq
        exact ih f' _ _ _ (by simp; omega) (by simp; omega)
      · rename_i t precs len heq
        have := parseTxn_ok_len heq
        exact ih f' _ _ _ (by simp; omega) (by simp; omega)

/-- the accepted-transaction list is an accumulator only -/
def ScanResult.withTxns (a : List FTxn) (r : ScanResult) : ScanResult := { r with txns := a ++ r.txns }

theorem scan_txns : ∀ (f : Nat) (rest : Bytes) (pos : Nat) (ix : Index) (l : Nat) (a x : List FTxn),
    scan f rest pos ⟨ix, l, a ++ x⟩ = (scan f rest pos ⟨ix, l, x⟩).map (ScanResult.withTxns a) := by
  intro f
  induction f with
  | zero => intro rest pos ix l a x; simp [scan, Except.map, ScanResult.withTxns]
  | succ f ih =>
    intro rest pos ix l a x
    simp only [scan]
    split <;> try (simp [Except.map, ScanResult.withTxns])
    · exact ih _ _ _ _ _ _
    · simp only [ScanState.accept, List.append_assoc]
      exact ih _ _ _ _ _ _

end Proofs.Format
