/-
  C06, part 6: the main results about `undoTxn` in their final form (restated in `Props/C06.lean`).
  Core Lean only.
-/
import Proofs.UndoTxn
namespace Proofs.Undo
open ZodbModel ZodbModel.Undo

theorem mem_flat {L : Log} {t : Txn} {r : Rec} (ht : t ∈ L) (hr : r ∈ t.recs) : r ∈ flat L := by
  induction L with
  | nil => simp at ht
  | cons x L ih =>
    simp only [flat, List.mem_append]
    rcases List.mem_cons.1 ht with h | h
    · subst h; exact Or.inl hr
    · exact Or.inr (ih h)

theorem find_of_mem_oids {N : List Rec} {oid : Nat} (h : oid ∈ N.map (·.oid)) :
    ∃ x, N.find? (fun r => r.oid = oid) = some x ∧ x ∈ N := by
  cases hf : N.find? (fun r => r.oid = oid) with
  | some x => exact ⟨x, rfl, List.mem_of_find?_eq_some hf⟩
  | none =>
    exfalso
    obtain ⟨r, hr, ho⟩ := List.mem_map.1 h
    have := List.find?_eq_none.1 hf r hr
    simp [ho] at this

/-- the two possible outcomes of an undo transaction -/
theorem undoTxn_cases (resolve : Resolver) (L : Log) (utid : Nat) (ids : List Nat) :
    (∃ e, undoTxn resolve L utid ids = (L, some e)) ∨
    (∃ S, undoTxn resolve L utid ids = ({ tid := utid, packed := false, recs := S } :: L, none)) := by
  unfold undoTxn
  cases undoAll resolve L utid ids [] with
  | error e => exact Or.inl ⟨e, rfl⟩
  | ok S => exact Or.inr ⟨S, rfl⟩

/-- destructuring a successful single undo -/
theorem undoTxn_single_ok (resolve : Resolver) {newer : Log} {T : Txn} {older : Log}
    (hInv : Inv (newer ++ T :: older)) {utid : Nat} {U : Txn}
    (h : undoTxn resolve (newer ++ T :: older) utid [T.tid] = (U :: (newer ++ T :: older), none)) :
    let F := flat (newer ++ T :: older)
    U = { tid := utid, packed := false, recs := (undoLoop resolve [] F utid (flat older).length T.recs).1 } ∧
    StagedOK utid F U.recs ∧ T.packed = false ∧
    (∀ oid, oid ∈ U.oids ↔ oid ∈ T.oids) ∧
    (∀ oid ∈ T.oids, verdictFor resolve F T older oid ≠ .refuse) := by
  intro F
  rw [undoTxn_single] at h
  cases hc : undoCall resolve (newer ++ T :: older) [] utid T.tid with
  | error e => rw [hc] at h; simp at h
  | ok x =>
    obtain ⟨S', oids⟩ := x
    rw [hc] at h
    simp only [Prod.mk.injEq, List.cons.injEq, and_true] at h
    obtain ⟨N, h1, h2, h3, h4, h5, h6, h7⟩ := undoCall_ok resolve hInv (stagedOK_nil utid _) hc
    rw [List.append_nil] at h1
    subst h1
    refine ⟨?_, ?_, h4, ?_, ?_⟩
    · rw [← h, h5]
    · rw [← h]; exact h3
    · intro oid; rw [← h6 oid, h2, ← h]; rfl
    · intro oid ho; have := h7 oid ho; rwa [List.nil_append] at this

/-- M1 -/
theorem undo_restores_or_unchanged (resolve : Resolver) (newer : Log) (T : Txn) (older : Log)
    (hInv : Inv (newer ++ T :: older)) (utid : Nat) :
    (∃ e, undoTxn resolve (newer ++ T :: older) utid [T.tid] = (newer ++ T :: older, some e)) ∨
    (∃ U, undoTxn resolve (newer ++ T :: older) utid [T.tid] = (U :: (newer ++ T :: older), none) ∧
      U.tid = utid ∧ U.packed = false ∧ (∀ oid, oid ∈ U.oids ↔ oid ∈ T.oids) ∧
      ∀ oid ∈ T.oids,
        (∀ d s, load (flat (U :: (newer ++ T :: older))) oid = some (d, s) → s = utid) ∧
        match verdictFor resolve (flat (newer ++ T :: older)) T older oid with
        | .restore => dataOf (flat (U :: (newer ++ T :: older))) oid = dataOf (flat older) oid
        | .merge m => m ≠ [] → dataOf (flat (U :: (newer ++ T :: older))) oid = some m
        | .refuse => False) := by
  rcases undoTxn_cases resolve (newer ++ T :: older) utid [T.tid] with h | ⟨S, h⟩
  · exact Or.inl h
  · right
    obtain ⟨hU, hS, hp, hoids, hnoref⟩ := undoTxn_single_ok resolve hInv h
    refine ⟨_, h, rfl, rfl, hoids, ?_⟩
    intro oid ho
    have hSN : S = (undoLoop resolve [] (flat (newer ++ T :: older)) utid (flat older).length T.recs).1 := by
      have := congrArg Txn.recs hU; exact this
    refine ⟨?_, ?_⟩
    · intro d s hl
      obtain ⟨x, hx, hxm⟩ := find_of_mem_oids ((hoids oid).2 ho)
      have := load_find (F := flat (newer ++ T :: older)) hx
      rw [flat_cons] at hl
      simp only at hl
      rw [hl] at this
      simp only [Option.map_some, Option.some.injEq] at this
      rw [this]; exact (hS x hxm).1
    · have hd := undoLoop_data resolve hInv hp (stagedOK_nil utid _) ho
      simp only [List.nil_append, List.append_nil] at hd
      rw [flat_cons]
      simp only
      rw [hSN]
      cases hv : verdictFor resolve (flat (newer ++ T :: older)) T older oid with
      | refuse => exact absurd hv (hnoref oid ho)
      | restore => rw [hv] at hd; exact hd
      | merge m => rw [hv] at hd; exact hd

/-- M2 -/
theorem undo_succeeds_iff (resolve : Resolver) (newer : Log) (T : Txn) (older : Log)
    (hInv : Inv (newer ++ T :: older)) (hp : T.packed = false) (utid : Nat) :
    (undoTxn resolve (newer ++ T :: older) utid [T.tid]).2 = none ↔
      ∀ oid ∈ T.oids, verdictFor resolve (flat (newer ++ T :: older)) T older oid ≠ .refuse := by
  have hiff := undoCall_ok_iff resolve hInv hp (stagedOK_nil utid (flat (newer ++ T :: older)))
  rw [List.nil_append] at hiff
  rw [← hiff, undoTxn_single]
  cases undoCall resolve (newer ++ T :: older) [] utid T.tid with
  | error e => simp
  | ok x => simp

/-- M3 -/
theorem undo_other_untouched (resolve : Resolver) (newer : Log) (T : Txn) (older : Log)
    (hInv : Inv (newer ++ T :: older)) (utid : Nat) (U : Txn)
    (h : undoTxn resolve (newer ++ T :: older) utid [T.tid] = (U :: (newer ++ T :: older), none)) :
    (∀ oid, oid ∉ T.oids →
      load (flat (U :: (newer ++ T :: older))) oid = load (flat (newer ++ T :: older)) oid ∧
      (∀ b, loadBefore (flat (U :: (newer ++ T :: older))) oid b
              = loadBefore (flat (newer ++ T :: older)) oid b) ∧
      (∀ s, loadSerial (flat (U :: (newer ++ T :: older))) oid s
              = loadSerial (flat (newer ++ T :: older)) oid s)) ∧
    (∀ oid b, b ≤ utid →
      (loadBefore (flat (U :: (newer ++ T :: older))) oid b).rev
        = (loadBefore (flat (newer ++ T :: older)) oid b).rev) ∧
    (∀ oid s, s < utid →
      loadSerial (flat (U :: (newer ++ T :: older))) oid s
        = loadSerial (flat (newer ++ T :: older)) oid s) := by
  obtain ⟨_, hS, _, hoids, _⟩ := undoTxn_single_ok resolve hInv h
  have hnot : ∀ oid, oid ∉ T.oids → ∀ n ∈ U.recs, n.oid ≠ oid := by
    intro oid ho n hn hno
    exact ho ((hoids oid).1 (List.mem_map.2 ⟨n, hn, hno⟩))
  refine ⟨?_, ?_, ?_⟩
  · intro oid ho
    rw [flat_cons]
    exact ⟨load_append_of_not_mem oid _ _ (hnot oid ho),
      fun b => loadBefore_append_of_not_mem oid b _ _ (hnot oid ho),
      fun s => loadSerial_append_of_not_mem oid s _ _ (hnot oid ho)⟩
  · intro oid b hb
    rw [flat_cons]
    apply loadBefore_staged hS oid b hb
    by_cases ho : oid ∈ T.oids
    · left
      obtain ⟨r, hr, hro⟩ := List.mem_map.1 ho
      intro hz
      exact (lastPos_eq_zero_iff oid _).1 hz r (mem_flat (by simp) hr) hro
    · exact Or.inr (hnot oid ho)
  · intro oid s hs
    rw [flat_cons]
    exact loadSerial_staged hS oid s hs

/-- M4 -/
theorem undo_fails_atomically (resolve : Resolver) (L : Log) (utid : Nat) (ids : List Nat)
    (L' : Log) (e : UErr) (h : undoTxn resolve L utid ids = (L', some e)) : L' = L := by
  rcases undoTxn_cases resolve L utid ids with ⟨e', h'⟩ | ⟨S, h'⟩
  · rw [h'] at h; simp only [Prod.mk.injEq] at h; exact h.1.symm
  · rw [h'] at h; simp at h

/-- M5: undoing the newest transaction always succeeds and restores every object -/
theorem undo_newest_restores (resolve : Resolver) (T : Txn) (older : Log) (hInv : Inv (T :: older))
    (hp : T.packed = false) (utid : Nat) :
    ∃ U, undoTxn resolve (T :: older) utid [T.tid] = (U :: T :: older, none) ∧
      ∀ oid, dataOf (flat (U :: T :: older)) oid = dataOf (flat older) oid := by
  have hInv' : Inv ([] ++ T :: older) := hInv
  have hsame : ∀ oid, verdictFor resolve (flat (T :: older)) T older oid = .restore := by
    intro oid
    unfold verdictFor
    rw [sameRev_self, specVerdict_same]
  have hok := (undo_succeeds_iff resolve [] T older hInv' hp utid).2
    (fun oid _ hv => by rw [List.nil_append, hsame oid] at hv; cases hv)
  rcases undo_restores_or_unchanged resolve [] T older hInv' utid with ⟨e, he⟩ | ⟨U, hU, _, _, hoids, hd⟩
  · rw [he] at hok; simp at hok
  · refine ⟨U, hU, ?_⟩
    intro oid
    by_cases ho : oid ∈ T.oids
    · have := (hd oid ho).2
      rw [List.nil_append, hsame oid] at this
      exact this
    · have h1 : ∀ n ∈ U.recs, n.oid ≠ oid := by
        intro n hn hno
        exact ho ((hoids oid).1 (List.mem_map.2 ⟨n, hn, hno⟩))
      have h2 : ∀ n ∈ T.recs, n.oid ≠ oid := by
        intro n hn hno
        exact ho (List.mem_map.2 ⟨n, hn, hno⟩)
      rw [flat_cons, flat_cons, dataOf_append_of_not_mem oid _ _ h1,
        dataOf_append_of_not_mem oid _ _ h2]

/-- M5': undo of an undo (nothing committed in between) restores the state before the first undo -/
theorem undo_undo (resolve : Resolver) (L : Log) (hInv : Inv L) (utid : Nat)
    (hu : ∀ t ∈ L, t.tid < utid) (ids : List Nat) (U : Txn)
    (h : undoTxn resolve L utid ids = (U :: L, none)) (utid' : Nat) :
    ∃ UU, undoTxn resolve (U :: L) utid' [utid] = (UU :: U :: L, none) ∧
      ∀ oid, dataOf (flat (UU :: U :: L)) oid = dataOf (flat L) oid := by
  obtain ⟨U', hU', ht, hp, hI⟩ := undoTxn_inv resolve hInv utid hu ids h
  simp only [List.cons.injEq, and_true] at hU'
  subst hU'
  have := undo_newest_restores resolve U L hI hp utid'
  rw [ht] at this
  exact this

/-- M6: the records of the undo transaction -/
theorem undo_records (resolve : Resolver) (newer : Log) (T : Txn) (older : Log)
    (hInv : Inv (newer ++ T :: older)) (utid : Nat) (U : Txn)
    (h : undoTxn resolve (newer ++ T :: older) utid [T.tid] = (U :: (newer ++ T :: older), none)) :
    ∀ oid ∈ T.oids, ∃ x, U.recs.find? (fun r => r.oid = oid) = some x ∧
      x.oid = oid ∧ x.tid = utid ∧ x.prev = lastPos oid (flat (newer ++ T :: older)) ∧
      match verdictFor resolve (flat (newer ++ T :: older)) T older oid with
      | .restore => x.pl = .back (lastPos oid (flat older)) ∧
          dataTxn (flat (newer ++ T :: older)) x
            = ((flat older).find? (fun r => r.oid = oid)).map (·.tid)
      | .merge m => m ≠ [] → x.pl = .data m
      | .refuse => False := by
  intro oid ho
  obtain ⟨hU, _, hp, _, hnoref⟩ := undoTxn_single_ok resolve hInv h
  obtain ⟨r, k, hn⟩ := newestFor_isSome_of_mem ho
  have hctx := newest_ctx hInv hp hn
  have hrec := undoRecord_ctx resolve hInv hp (stagedOK_nil utid _) hn
  rw [List.nil_append] at hrec
  have hfind := (undoLoop_spec resolve [] (flat (newer ++ T :: older)) utid (flat older).length oid
    T.recs r k hn).2
  have hv := hnoref oid ho
  cases hpl : verdictPayload r (verdictFor resolve (flat (newer ++ T :: older)) T older oid) with
  | none => exact absurd (verdictPayload_eq_none.1 hpl) hv
  | some pl =>
    have hf := hfind pl (by rw [hrec]; exact hpl)
    refine ⟨_, by rw [hU]; exact hf, rfl, rfl, rfl, ?_⟩
    cases hvv : verdictFor resolve (flat (newer ++ T :: older)) T older oid with
    | refuse => exact absurd hvv hv
    | restore =>
      rw [hvv] at hpl
      simp only [verdictPayload, Option.some.injEq] at hpl
      subst hpl
      simp only
      refine ⟨by rw [hctx.2.2.2.1], ?_⟩
      simp only [dataTxn, hctx.2.2.2.1]
      by_cases hz : lastPos oid (flat older) = 0
      · rw [if_pos hz]
        have := recAt_lastPos oid (flat older)
        rw [hz, recAt_zero] at this
        rw [← this]; rfl
      · rw [if_neg hz]
        have : flat (newer ++ T :: older) = (flat newer ++ T.recs) ++ flat older := by
          rw [flat_split, List.append_assoc]
        rw [this, recAt_append_le _ _ _ (lastPos_le oid (flat older)), recAt_lastPos]
    | merge m =>
      rw [hvv] at hpl
      intro hm
      simp only [verdictPayload, hm, if_false, Option.some.injEq] at hpl
      simp only [← hpl]

/-- M7 -/
theorem packed_not_undoable (resolve : Resolver) (newer : Log) (T : Txn) (older : Log)
    (hInv : Inv (newer ++ T :: older)) (hp : T.packed = true) (utid : Nat) :
    undoTxn resolve (newer ++ T :: older) utid [T.tid] = (newer ++ T :: older, some .nonUndoable) := by
  rw [undoTxn_single, undoCall_eq resolve hInv, if_pos hp]

theorem unknown_tid_refused (resolve : Resolver) (L : Log) (utid tid : Nat)
    (h : ∀ t ∈ L, t.tid ≠ tid) : undoTxn resolve L utid [tid] = (L, some .invalidTid) := by
  rw [undoTxn_single]
  unfold undoCall
  rw [txnFind_none h]

/-- M8: the oids an undo call reports for invalidation are exactly those the undone transaction wrote -/
theorem undo_reports_written (resolve : Resolver) (newer : Log) (T : Txn) (older : Log)
    (hInv : Inv (newer ++ T :: older)) (utid : Nat) (fs : FS) (hfs : fs.log = newer ++ T :: older)
    (hst : fs.txn = some { tid := utid }) (oids : List Nat)
    (h : (fs.undo resolve T.tid).2 = .ok oids) : ∀ oid, oid ∈ oids ↔ oid ∈ T.oids := by
  unfold FS.undo at h
  rw [hst, hfs] at h
  simp only at h
  cases hc : undoCall resolve (newer ++ T :: older) [] utid T.tid with
  | error e => rw [hc] at h; simp at h
  | ok x =>
    obtain ⟨S', oids'⟩ := x
    rw [hc] at h
    simp only [Except.ok.injEq] at h
    subst h
    obtain ⟨_, _, _, _, _, _, h6, _⟩ := undoCall_ok resolve hInv (stagedOK_nil utid _) hc
    exact h6

/-- step level: a failed undo call followed by the caller's tpc_abort leaves the storage as it was,
    and the model refuses to finish such a transaction -/
theorem failed_undo_abort (resolve : Resolver) (fs : FS) (hfs : fs.txn = none) (utid tid : Nat)
    (e : UErr) (h : ((fs.tpcBegin utid).undo resolve tid).2 = .error e) :
    ((fs.tpcBegin utid).undo resolve tid).1.abort = fs ∧
    ((fs.tpcBegin utid).undo resolve tid).1.finish.log = fs.log := by
  unfold FS.undo FS.tpcBegin at *
  simp only at *
  cases hc : undoCall resolve fs.log [] utid tid with
  | error e' =>
    simp only [FS.abort, FS.finish]
    cases fs
    simp_all
  | ok x =>
    rw [hc] at h; simp at h

end Proofs.Undo
