/-
  Helper lemmas for C17, recovery part: a DAMAGED image.  Under the explicit hypothesis that no
  offset behind the intact prefix passes `read_txn_header`'s plausibility checks unless it is the
  start of an intact transaction of the original file (`NoFalseResync`; the format has no checksum,
  so this cannot be dropped), the output contains only whole transactions of the input, unchanged
  and in order.  Core Lean only.
-/
import Proofs.RecoverMain
namespace Proofs.Recover
open ZodbModel ZodbModel.Copy ZodbModel.Recover Proofs.Copy

/-- the transaction `t` (whose older transactions are `older`) is intact in the image: its bytes
    are where the original file had them, and every back pointer of its records leads — over
    however many hops — only through records that are still in the image, unchanged -/
def IntactAt (F : Bytes) (older : Store) (t : Txn) : Prop :=
  At F (storeSize older) (encTxn older t) ∧ ∀ r ∈ t.recs, RecAtOK F older r

/-- behind offset `p0`, `read_txn_header` accepts a header (as a transaction to copy or an undone
    transaction to skip) only at the start of an intact transaction of the original store `S` -/
def NoFalseResync (F : Bytes) (S : Store) (p0 : Nat) : Prop :=
  ∀ p ltid, p0 ≤ p → readTxnHeader F p ltid ≠ .bad → readTxnHeader F p ltid ≠ .eof →
    ∃ newer t older, S = newer ++ t :: older ∧ p = storeSize older ∧ IntactAt F older t

/-! ### auxiliary facts about stores -/

theorem storeOK_tids {a b : Store} (h : StoreOK (a ++ b)) : ∀ x ∈ a, ∀ y ∈ b, y.tid < x.tid := by
  induction a with
  | nil => intro x hx; simp at hx
  | cons n a ih =>
    intro x hx y hy
    rcases List.mem_cons.1 hx with hx | hx
    · subst hx
      exact h.2.1 y (List.mem_append_right _ hy)
    · exact ih h.1 x hx y hy

theorem storeSize_append_le (m X : Store) : storeSize X ≤ storeSize (m ++ X) := by
  induction m with
  | nil => simp
  | cons n m ih => simp only [List.cons_append, storeSize]; omega

theorem storeSize_append_lt {m : Store} (X : Store) (hm : m ≠ []) : storeSize X < storeSize (m ++ X) := by
  cases m with
  | nil => exact absurd rfl hm
  | cons n m =>
    have := storeSize_append_le m X
    simp only [List.cons_append, storeSize]; omega

theorem simS_unique : ∀ (S : Store) (a b : List ITxn), SimS S a → SimS S b → a = b := by
  intro S
  induction S with
  | nil => intro a b ha hb; cases a <;> cases b <;> simp_all [SimS]
  | cons x S ihS =>
    intro a b ha hb
    cases a with
    | nil => simp [SimS] at ha
    | cons a0 a =>
      cases b with
      | nil => simp [SimS] at hb
      | cons b0 b =>
        have h1 := ihS a b ha.1 hb.1
        have h2 : some a0 = some b0 := ha.2.symm.trans hb.2
        simp only [Option.some.injEq] at h2
        rw [h1, h2]

theorem simS_append_split {m X : Store} {rs : List ITxn} (h : SimS (m ++ X) rs) :
    ∃ rm rx, rs = rm ++ rx ∧ SimS X rx := by
  induction m generalizing rs with
  | nil => exact ⟨[], rs, rfl, h⟩
  | cons n m ih =>
    cases rs with
    | nil => simp [SimS] at h
    | cons r rs =>
      obtain ⟨rm, rx, h1, h2⟩ := ih h.1
      exact ⟨r :: rm, rx, by simp [h1], h2⟩

/-- two ways of splitting `S`: the one with the smaller image is a suffix of the other -/
theorem split_compare {newerJ olderJ newer older : Store} {t : Txn}
    (h : newerJ ++ olderJ = newer ++ t :: older) (hsz : storeSize olderJ ≤ storeSize older) :
    ∃ mid, older = mid ++ olderJ ∧ newerJ = newer ++ t :: mid := by
  rcases List.append_eq_append_iff.1 h with ⟨as, h1, h2⟩ | ⟨bs, h1, h2⟩
  · -- newer = newerJ ++ as, olderJ = as ++ t :: older : olderJ is longer — impossible
    exfalso
    have := storeSize_append_lt older (m := as ++ [t]) (by simp)
    rw [h2] at hsz
    simp only [List.append_assoc, List.singleton_append] at this
    omega
  · -- newerJ = newer ++ bs, t :: older = bs ++ olderJ
    cases bs with
    | nil =>
      exfalso
      simp only [List.nil_append] at h2
      have := storeSize_append_lt older (m := [t]) (by simp)
      rw [← h2] at hsz
      simp only [List.singleton_append] at this
      omega
    | cons b bs =>
      simp only [List.cons_append, List.cons.injEq] at h2
      obtain ⟨rfl, h2⟩ := h2
      exact ⟨bs, h2, h1⟩

/-! ### the loop invariant on a damaged image -/

theorem loop_inv {F : Bytes} {S : Store} (hS : WFStore S) {p0 : Nat} (hnfr : NoFalseResync F S p0) :
    ∀ (fuel pos : Nat) (ltid ts : Option Nat) (D D' newerJ olderJ : Store) (rsJ rpre : List ITxn),
      S = newerJ ++ olderJ → SimS olderJ rsJ → rpre.Sublist rsJ → Sim D rpre →
      p0 ≤ storeSize olderJ → (pos = 0 ∨ storeSize olderJ ≤ pos) →
      (∀ l, ltid = some l → ∀ t ∈ newerJ, l < t.tid) →
      (∀ s, ts = some s → ∀ t ∈ newerJ, s < t.tid) →
      recoverLoop F fuel pos ltid ts D = .done D' →
      ∃ rfinal rnew newerK olderK rsK, Sim D' rfinal ∧ rfinal = rnew ++ rpre ∧
        S = newerK ++ olderK ∧ SimS olderK rsK ∧ rfinal.Sublist rsK := by
  intro fuel
  induction fuel with
  | zero => intro pos ltid ts D D' _ _ _ _ _ _ _ _ _ _ _ _ h; simp [recoverLoop] at h
  | succ f ih =>
    intro pos ltid ts D D' newerJ olderJ rsJ rpre hJ hsimJ hsub hsimD hp0 hpos hlt hts hrun
    have hstay : D' = D → ∃ rfinal rnew newerK olderK rsK, Sim D' rfinal ∧ rfinal = rnew ++ rpre ∧
        S = newerK ++ olderK ∧ SimS olderK rsK ∧ rfinal.Sublist rsK := by
      intro hD
      exact ⟨rpre, [], newerJ, olderJ, rsJ, hD ▸ hsimD, rfl, hJ, hsimJ, hsub⟩
    by_cases hz : pos = 0
    · simp only [recoverLoop, if_pos hz, Outcome.done.injEq] at hrun
      exact hstay hrun.symm
    have hpos' : storeSize olderJ ≤ pos := by omega
    by_cases hbad : readTxnHeader F pos ltid = .bad
    · simp only [recoverLoop, if_neg hz, hbad] at hrun
      obtain ⟨p', hsc, hp'⟩ := scan_spec F (F.length + 1) pos (by omega)
      rw [hsc] at hrun
      exact ih p' ltid ts D D' newerJ olderJ rsJ rpre hJ hsimJ hsub hsimD hp0 (by omega) hlt hts hrun
    by_cases heof : readTxnHeader F pos ltid = .eof
    · simp only [recoverLoop, if_neg hz, heof, Outcome.done.injEq] at hrun
      exact hstay hrun.symm
    -- a header is accepted: it is the header of an intact transaction of the input
    obtain ⟨newer, t, older, hsplit, hposeq, hat, hrecs⟩ := hnfr pos ltid (by omega) hbad heof
    obtain ⟨mid, hmid, hnewerJ⟩ := split_compare (hJ ▸ hsplit) (hposeq ▸ hpos')
    have hwf1 : WFStore (t :: older) := wfStore_suffix (hsplit ▸ hS)
    obtain ⟨rs1, hsim1, hstr1, -⟩ := storeOK_iter hwf1.1
    cases rs1 with
    | nil => simp [SimS] at hsim1
    | cons it rsO =>
      obtain ⟨hsimO, hit⟩ := hsim1
      obtain ⟨rm, rx, hrsO, hsimx⟩ := simS_append_split (hmid ▸ hsimO)
      have hrx : rx = rsJ := simS_unique olderJ rx rsJ hsimx hsimJ
      subst hrx
      have hsubO : rpre.Sublist rsO := hrsO ▸ List.sublist_append_of_sublist_right hsub
      have htmem : t ∈ newerJ := by rw [hnewerJ]; simp
      obtain ⟨xs, hxs, irs, hirs, habs⟩ := restoreRecs_sim hsimD (rs := it.recs)
        (fun r hr => hintOK_mono (fun x hx => hsubO.subset hx) (hintStrong_ok (hstr1.2 r hr)))
      have hstep := loop_step (F := F) (fuel := f) (p := pos) (ltid := ltid) (ts := ts) (D := D)
        (hposeq ▸ hat) hposeq (hwf1.2.2 t List.mem_cons_self) hwf1.2.1 hrecs
        (fun l hl => Nat.le_of_lt (hlt l hl t htmem)) (fun s hs => hts s hs t htmem) hit
      rw [hxs] at hstep
      simp only at hstep
      rw [hstep] at hrun
      have hsimD1 : Sim (⟨t.tid, t.status, t.user, t.desc, t.ext, xs⟩ :: D) (it :: rpre) := by
        refine ⟨hsimD, ⟨t.tid, t.status, t.user, t.desc, t.ext, irs⟩, by simp [iterTxn, hirs], ?_⟩
        obtain ⟨-, h1, h2, h3, h4, h5⟩ := iterTxn_recs hit
        simp [absTxn, habs, h1, h2, h3, h4, h5]
      have htids := storeOK_tids (a := newer) (b := t :: older) (hsplit ▸ hS.1)
      obtain ⟨rfinal, rnew, newerK, olderK, rsK, g1, g2, g3, g4, g5⟩ :=
        ih (pos + tlen t + 8) (some t.tid) (some t.tid) _ D' newer (t :: older) (it :: rsO) (it :: rpre)
          hsplit ⟨hsimO, hit⟩ (hsubO.cons_cons it) hsimD1
          (by have := storeSize_append_le mid olderJ; simp only [storeSize]; rw [hmid]; omega)
          (.inr (by simp only [storeSize]; omega))
          (fun l hl x hx => by
            simp only [Option.some.injEq] at hl; subst hl
            exact htids x hx t List.mem_cons_self)
          (fun l hl x hx => by
            simp only [Option.some.injEq] at hl; subst hl
            exact htids x hx t List.mem_cons_self)
          hrun
      exact ⟨rfinal, rnew ++ [it], newerK, olderK, rsK, g1, by rw [g2]; simp, g3, g4, g5⟩

/-- `recover_only_input_txns`: the image is the image of the oldest part `pre` of a well-formed
    store `S = post ++ pre` followed by ARBITRARY bytes `g` (the damaged region and whatever
    follows it).  Under `NoFalseResync` the run ends and the output storage's history is: first
    the whole history of `pre`, then only transactions of `S` — unchanged (tid, status, metadata,
    records with resolved data), in order. -/
theorem recover_only_input_txns {S pre post : Store} {g : Bytes} (hS : WFStore S)
    (hsplit : S = post ++ pre) (hnfr : NoFalseResync (encStore pre ++ g) S (storeSize pre)) :
    ∃ D' its src srcpre, recover (encStore pre ++ g) = .done D' ∧ iterate D' = some its ∧
      iterate S = some src ∧ iterate pre = some srcpre ∧
      (absH its).Sublist (absH src) ∧ absH srcpre <+: absH its := by
  have hpre : WFStore pre := wfStore_suffix (hsplit ▸ hS)
  obtain ⟨D0, rs0, fuel, hrec, hs1, hs2, -⟩ := recover_reaches hpre g
  obtain ⟨rs, hsimS, hstrS, -⟩ := storeOK_iter hS.1
  cases hout : recover (encStore pre ++ g) with
  | fuel => exact absurd hout (recover_ne_fuel _)
  | notFS =>
    rw [hrec] at hout
    exact absurd hout (recoverLoop_ne_notFS _ _ _ _ _ _)
  | done D' =>
    rw [hrec] at hout
    have hlt : ∀ l, lastTid pre = some l → ∀ t ∈ post, l < t.tid := by
      intro l hl t ht
      cases pre with
      | nil => simp [lastTid] at hl
      | cons o pre' =>
        simp only [lastTid, Option.some.injEq] at hl
        subst hl
        exact storeOK_tids (hsplit ▸ hS.1) t ht o List.mem_cons_self
    obtain ⟨rfinal, rnew, newerK, olderK, rsK, g1, g2, g3, g4, g5⟩ :=
      loop_inv hS hnfr fuel (storeSize pre) (lastTid pre) (lastTid pre) D0 D' post pre rs0 rs0
        hsplit hs1 (List.Sublist.refl _) (simS_sim hs2) (Nat.le_refl _) (.inr (Nat.le_refl _))
        hlt hlt hout
    obtain ⟨its, hits, habs⟩ := sim_iterate g1
    obtain ⟨rm, rx, hrs, hsimx⟩ := simS_append_split (g3 ▸ hsimS)
    have hrx : rx = rsK := simS_unique olderK rx rsK hsimx g4
    subst hrx
    refine ⟨D', its, rs.reverse, rs0.reverse, rfl, hits, simS_iterate hsimS, simS_iterate hs1, ?_, ?_⟩
    · rw [habs]
      have : rfinal.Sublist rs := hrs ▸ List.sublist_append_of_sublist_right g5
      exact (this.reverse).map absTxn
    · rw [habs, g2]
      simp only [absH, List.reverse_append, List.map_append]
      exact List.prefix_append _ _

/-! ### a decidable sufficient condition for `NoFalseResync` (used for concrete images) -/

/-- the last tid only matters through the "time-stamp reduction" error -/
theorem readTxnHeader_ltid (F : Bytes) (p : Nat) (ltid : Option Nat) :
    readTxnHeader F p ltid = readTxnHeader F p none ∨ readTxnHeader F p ltid = .bad := by
  cases ltid with
  | none => exact .inl rfl
  | some l =>
    unfold readTxnHeader
    split
    · exact .inl rfl
    · simp only
      split
      · exact .inl rfl
      · split
        · exact .inl rfl
        · split
          · exact .inl rfl
          · by_cases h : num F p 8 < l
            · right; simp [h]
            · left; simp [h]

/-- `NoFalseResync` follows from a finite check of every offset of the image with `ltid = None`
    (the weakest tid check) against a list of intact transactions -/
theorem noFalseResync_of_check {F : Bytes} {S : Store} {p0 : Nat}
    (intact : List (Store × Txn × Store))
    (hint : ∀ e ∈ intact, S = e.1 ++ e.2.1 :: e.2.2 ∧ IntactAt F e.2.2 e.2.1)
    (hchk : ∀ p, p < F.length → p0 ≤ p →
      readTxnHeader F p none = .bad ∨ readTxnHeader F p none = .eof ∨
        ∃ e ∈ intact, p = storeSize e.2.2) :
    NoFalseResync F S p0 := by
  intro p ltid hp hbad heof
  have hlen : p < F.length := by
    by_cases h : p < F.length
    · exact h
    · exfalso
      apply heof
      unfold readTxnHeader
      rw [if_pos (by omega)]
  have hnone : readTxnHeader F p ltid = readTxnHeader F p none := by
    rcases readTxnHeader_ltid F p ltid with h | h
    · exact h
    · exact absurd h hbad
  rcases hchk p hlen hp with h | h | ⟨e, he, hpe⟩
  · exact absurd (hnone.trans h) hbad
  · exact absurd (hnone.trans h) heof
  · obtain ⟨h1, h2⟩ := hint e he
    exact ⟨e.1, e.2.1, e.2.2, h1, hpe, h2⟩

end Proofs.Recover
