/-
  Inversion lemmas for the MVCC transition function: what an accepted action tells about its guard
  and the exact successor state.  Core Lean only.
-/
import Proofs.MvccBasic
namespace Proofs.Mvcc
open ZodbModel.Mvcc

theorem res_ok_inj {a b : Sys} (h : Res.ok a = Res.ok b) : a = b := by injection h

theorem newInstance_ok {s s' : Sys} (h : step s .newInstance = .ok s') :
    s' = { s with n := s.n + 1, insts := upd s.insts s.n { regAt := headTid (vlog s) } } := by
  simp only [step] at h; exact (res_ok_inj h).symm

theorem reopen_ok {s s' : Sys} {i : Nat} (h : step s (.reopen i) = .ok s') :
    i < s.n ∧ (s.insts i).opened = false ∧
    s' = setInst s i { s.insts i with opened := true, live := false } := by
  simp only [step] at h
  split at h
  · next hg => exact ⟨hg.1, hg.2, (res_ok_inj h).symm⟩
  · cases h

theorem close_ok {s s' : Sys} {i : Nat} (h : step s (.close i) = .ok s') :
    i < s.n ∧ s' = setInst s i { s.insts i with opened := false, live := false } := by
  simp only [step] at h
  split at h
  · next hg => exact ⟨hg.1, (res_ok_inj h).symm⟩
  · cases h

theorem pollRead_ok {s s' : Sys} {i : Nat} (h : step s (.pollRead i) = .ok s') :
    i < s.n ∧ committing s i = false ∧ isFinishing s = false ∧
    s' = setInst s i { s.insts i with polled := some (headTid s.log) } := by
  simp only [step] at h
  split at h
  · next hg => exact ⟨hg.1, hg.2.2.1, hg.2.2.2, (res_ok_inj h).symm⟩
  · cases h

/-- the cache after applying drained invalidations -/
def polledCache (x : Inst) : Nat → Option (Nat × Data) := applyInval x.inval x.cache

theorem pollApply_ok {s s' : Sys} {i : Nat} (h : step s (.pollApply i) = .ok s') :
    ∃ L, i < s.n ∧ committing s i = false ∧ (s.insts i).polled = some L ∧
    s' = setInst s i { s.insts i with
          start := max L (s.insts i).ltid + 1, polled := none, inval := some [], live := true,
          cache := polledCache (s.insts i) } := by
  simp only [step] at h
  split at h
  · next hg =>
    split at h
    · next L hL => exact ⟨L, hg.1, hg.2, hL, (res_ok_inj h).symm⟩
    · cases h
  · cases h

theorem read_ok {s s' : Sys} {i oid : Nat} (h : step s (.read i oid) = .ok s') :
    readEnabled s i oid = true ∧
    (s' = s ∨
     (∃ ser v, lookup oid (s.insts i).pending = none ∧ (s.insts i).cache oid = none ∧
        isFinishing s = false ∧
        stateAt s.log (s.insts i).start oid = some (ser, some v) ∧
        s' = setInst s i { s.insts i with cache := upd (s.insts i).cache oid (some (ser, some v)) })) := by
  simp only [step] at h
  split at h
  · next hen =>
    refine ⟨hen, ?_⟩
    split at h
    · exact Or.inl (res_ok_inj h).symm
    · next hp =>
      split at h
      · exact Or.inl (res_ok_inj h).symm
      · next hc =>
        split at h
        · next ser v hst =>
          refine Or.inr ⟨ser, v, hp, hc, ?_, hst, (res_ok_inj h).symm⟩
          simp only [readEnabled, hp, hc, Option.isSome_none, Bool.false_or, Bool.and_eq_true,
            Bool.not_eq_true'] at hen
          exact hen.2
        · cases h
  · cases h

theorem write_ok {s s' : Sys} {i oid : Nat} {d : Data} (h : step s (.write i oid d) = .ok s') :
    i < s.n ∧ s' = setInst s i { s.insts i with pending := (oid, d) :: (s.insts i).pending } := by
  simp only [step] at h
  split at h
  · next hg => exact ⟨hg.1, (res_ok_inj h).symm⟩
  · cases h

theorem abort_ok {s s' : Sys} {i : Nat} (h : step s (.abort i) = .ok s') :
    i < s.n ∧ inFinishBy s i = false ∧
    s' = (let x := s.insts i
          let s1 := setInst s i { x with pending := [], cache := dropOids x.cache (oidsOf x.pending) }
          if committing s i then dropInfl s1 else s1) := by
  simp only [step] at h
  split at h
  · next hg => exact ⟨hg.1, hg.2, (res_ok_inj h).symm⟩
  · cases h

theorem begin_ok {s s' : Sys} {c : Option Nat} {t : Nat} (h : step s (.begin c t) = .ok s') :
    s.infl = none ∧ s.next ≤ t ∧
    s' = { s with infl := some ⟨t, c, [], .begun, []⟩, next := t + 1 } := by
  simp only [step] at h
  split at h
  · next hg => exact ⟨hg.1, hg.2.1, (res_ok_inj h).symm⟩
  · cases h

theorem store_ok {s s' : Sys} {ws : List (Nat × Data)} (h : step s (.store ws) = .ok s') :
    ∃ f ws', s.infl = some f ∧ f.phase = .begun ∧
    s' = { s with infl := some { f with phase := .stored, writes := ws' } } := by
  simp only [step] at h
  split at h
  · next f hf =>
    split at h
    · next hp => exact ⟨f, _, hf, hp, (res_ok_inj h).symm⟩
    · cases h
  · cases h

theorem vote_ok {s s' : Sys} (h : step s .vote = .ok s') :
    ∃ f, s.infl = some f ∧ f.phase = .stored ∧
    s' = { s with infl := some { f with phase := .voted } } := by
  simp only [step] at h
  split at h
  · next f hf =>
    split at h
    · next hp => exact ⟨f, hf, hp, (res_ok_inj h).symm⟩
    · cases h
  · cases h

theorem extAbort_ok {s s' : Sys} (h : step s .extAbort = .ok s') :
    ∃ f, s.infl = some f ∧ f.phase ≠ .finishing ∧ s' = { s with infl := none, next := f.tid } := by
  simp only [step] at h
  split at h
  · next f hf =>
    split at h
    · next hp =>
      refine ⟨f, hf, hp.2, ?_⟩
      rw [← res_ok_inj h]; simp only [dropInfl, hf]
    · cases h
  · cases h

theorem finishEnter_ok {s s' : Sys} (h : step s .finishEnter = .ok s') :
    ∃ f, s.infl = some f ∧ f.phase = .voted ∧
    s' = { s with infl := some { f with phase := .finishing } } := by
  simp only [step] at h
  split at h
  · next f hf =>
    split at h
    · next hp => exact ⟨f, hf, hp, (res_ok_inj h).symm⟩
    · cases h
  · cases h

theorem deliver_ok {s s' : Sys} {j : Nat} (h : step s (.deliver j) = .ok s') :
    ∃ f, s.infl = some f ∧ f.phase = .finishing ∧ j < s.n ∧ f.who ≠ some j ∧ j ∉ f.delivered ∧
    s' = { s with infl := some { f with delivered := j :: f.delivered },
                  insts := upd s.insts j { s.insts j with
                    ltid := f.tid, inval := (s.insts j).inval.map (oidsOf f.writes ++ ·) } } := by
  simp only [step] at h
  split at h
  · next f hf =>
    split at h
    · next hg => exact ⟨f, hf, hg.1, hg.2.1, hg.2.2.1, hg.2.2.2, (res_ok_inj h).symm⟩
    · cases h
  · cases h

theorem publish_ok {s s' : Sys} (h : step s .publish = .ok s') :
    ∃ f, s.infl = some f ∧ f.phase = .finishing ∧
    (∀ j, j < s.n → f.who ≠ some j → (s.insts j).regAt < f.tid → j ∈ f.delivered) ∧
    s' = (match f.who with
          | some i => setInst { s with log := f.txn :: s.log, infl := none } i
                        { s.insts i with ltid := f.tid, pending := [], live := false,
                                         cache := overlayCache (s.insts i).cache f.tid f.writes }
          | none => { s with log := f.txn :: s.log, infl := none }) := by
  simp only [step] at h
  split at h
  · next f hf =>
    split at h
    · next hg =>
      refine ⟨f, hf, hg.1, hg.2, ?_⟩
      split at h
      · next i hi => simp only [hi]; exact (res_ok_inj h).symm
      · next hi => simp only [hi]; exact (res_ok_inj h).symm
    · cases h
  · cases h

theorem invalidateCache_ok {s s' : Sys} {i : Nat} (h : step s (.invalidateCache i) = .ok s') :
    i < s.n ∧ s' = setInst s i { s.insts i with inval := none } := by
  simp only [step] at h
  split at h
  · next hg => exact ⟨hg, (res_ok_inj h).symm⟩
  · cases h

theorem openHist_ok {s s' : Sys} {a b : Option Nat} (h : step s (.openHist a b) = .ok s') :
    ∃ bf, isFinishing s = false ∧ getTID a b = .ok (some bf) ∧ refused (headTid s.log) bf = false ∧
    s' = { s with nh := s.nh + 1, hists := upd s.hists s.nh { before := bf, log0 := s.log } } := by
  simp only [step] at h
  split at h
  · cases h
  · next hf =>
    split at h
    · cases h
    · cases h
    · next bf hg =>
      split at h
      · cases h
      · next hr =>
        exact ⟨bf, by simpa using hf, hg, by simpa using hr, (res_ok_inj h).symm⟩

theorem hread_ok {s s' : Sys} {hh oid : Nat} (h : step s (.hread hh oid) = .ok s') :
    hh < s.nh ∧
    (s' = s ∨
     (∃ ser v, (s.hists hh).cache oid = none ∧
        stateAt s.log (s.hists hh).before oid = some (ser, some v) ∧
        s' = { s with hists := upd s.hists hh { s.hists hh with
                  cache := upd (s.hists hh).cache oid (some (ser, some v)) } })) := by
  simp only [step] at h
  split at h
  · next hlt =>
    refine ⟨hlt, ?_⟩
    split at h
    · exact Or.inl (res_ok_inj h).symm
    · next hc =>
      split at h
      · cases h
      · split at h
        · next ser v hst => exact Or.inr ⟨ser, v, hc, hst, (res_ok_inj h).symm⟩
        · cases h
  · cases h

theorem hpoll_ok {s s' : Sys} {hh : Nat} (h : step s (.hpoll hh) = .ok s') : s' = s := by
  simp only [step] at h
  split at h
  · exact (res_ok_inj h).symm
  · cases h

theorem hcommit_not_ok {s s' : Sys} {hh : Nat} : step s (.hcommit hh) ≠ .ok s' := by
  simp [step]
theorem hstore_not_ok {s s' : Sys} {hh : Nat} : step s (.hstore hh) ≠ .ok s' := by
  simp [step]
theorem hnewOid_not_ok {s s' : Sys} {hh : Nat} : step s (.hnewOid hh) ≠ .ok s' := by
  simp [step]

end Proofs.Mvcc
