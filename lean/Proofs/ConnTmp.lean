/-
  Connection model, part 11 (C12): what `Connection.savepoint` puts into the temporary store.
-/
import Proofs.ConnProg
namespace Proofs.Conn
open ZodbModel ZodbModel.Conn

/-- the object with this oid is cached and not marked changed -/
def cleanQ (s : State) (k : Nat) : Prop := ∃ j, s.cache.get k = some j ∧ (s.objs j).status ≠ .changed

/-- inside the `_commit` of `Connection.savepoint`: the temporary store `t` of the current state `s`,
    relative to the store `t0` of the state `s0` in which `_commit` started -/
structure TmpRel (t0 : TmpStore) (s0 s : State) (t : TmpStore) : Prop where
  cr : t.creating = t0.creating
  pos : t.position = t.entries.length
  le : t0.position ≤ t.position
  pre : ∀ p, p < t0.position → t.entries[p]? = t0.entries[p]?
  idx : ∀ k p, t.index.get k = some p → t0.index.get k = some p ∨
    (t0.position ≤ p ∧ p < t.position ∧ ∃ i, s.cache.get k = some i ∧
      t.entries[p]? = some (k, ⟨(s.objs i).serial, (s.objs i).val, (s.objs i).refs⟩) ∧
      (s.objs i).status = .uptodate ∧ marked s k ∧ ∀ x ∈ (s.objs i).refs, (s.objs x).oid ≠ none)
  idxKeep : ∀ k, t0.index.get k ≠ none → t.index.get k ≠ none
  marks : ∀ k, marked s k → marked s0 k ∨ ∃ p, t.index.get k = some p ∧ t0.position ≤ p
  staged : s.staged = s0.staged
  crNew : ∀ k, s.creating.has k = true → s0.creating.has k = true ∨
    ∃ p, t.index.get k = some p ∧ t0.position ≤ p
  statusNew : ∀ j k, (s.objs j).oid = some k → (s.objs j).status ≠ (s0.objs j).status →
    ∃ p, t.index.get k = some p ∧ t0.position ≤ p
  noOidSame : ∀ j, (s.objs j).oid = none → (s.objs j).status = (s0.objs j).status

def TmpJ (t0 : TmpStore) (s0 s : State) : Prop := ∃ t, s.sp = some t ∧ TmpRel t0 s0 s t

theorem TmpJ.refl {t0 : TmpStore} {s : State} (h : s.sp = some t0) (hp : t0.position = t0.entries.length) :
    TmpJ t0 s s :=
  ⟨t0, h, rfl, hp, Nat.le_refl _, fun _ _ => rfl, fun _ _ h => Or.inl h, fun _ h => h,
    fun _ h => Or.inl h, rfl, fun _ h => Or.inl h, fun _ _ _ h => absurd rfl h, fun _ _ => rfl⟩

theorem tmpJ_step (t0 : TmpStore) (s0 : State) : StepInv (TmpJ t0 s0) := by
  intro s i k rest s3 pushed hJ hS hk sp st
  obtain ⟨t, hsp, hR⟩ := hJ
  obtain ⟨hsp3, hst3, hup3⟩ := st.stagedTmp t hsp
  have hkeep : ∀ j k2, (s.objs j).oid = some k2 → (s3.objs j).oid = some k2 := by
    intro j k2 hj
    rcases sp.obj j with h | h | h
    · rw [h]; exact hj
    · rw [h.2.1]; exact hj
    · rw [h.2.2.1] at hj; cases hj
  refine ⟨_, hsp3, ?_⟩
  constructor
  · show t.creating = t0.creating
    exact hR.cr
  · show t.position + 1 = (t.entries ++ [_]).length
    rw [List.length_append, hR.pos]; rfl
  · show t0.position ≤ t.position + 1
    have := hR.le; omega
  · intro p hp
    show (t.entries ++ [_])[p]? = _
    rw [List.getElem?_append_left (by have := hR.le; have := hR.pos; omega)]
    exact hR.pre p hp
  · intro k' p hp
    have hp' : (t.index.set k t.position).get k' = some p := hp
    rw [Map.get_set] at hp'
    by_cases hkk : k' = k
    · subst hkk
      simp only [if_true] at hp'
      cases hp'
      right
      refine ⟨hR.le, by show t.position < t.position + 1; omega, i, by rw [sp.cache]; simp, ?_, hup3,
        sp.marked_self, st.refsOid⟩
      show (t.entries ++ [_])[t.position]? = _
      rw [hR.pos, List.getElem?_append_right (Nat.le_refl _)]
      simp
    · rw [if_neg hkk] at hp'
      rcases hR.idx k' p hp' with h | ⟨h1, h2, i', hc, he, hu, hm, hrefs⟩
      · exact Or.inl h
      · right
        have hoi := hS.cacheS k' i' hc
        have hne : i' ≠ i := by
          intro he'; subst he'; rw [hk] at hoi; cases hoi; exact hkk rfl
        have hsame : s3.objs i' = s.objs i' := by
          rcases sp.obj i' with h | h | h
          · exact h
          · exact absurd h.1 hne
          · rw [h.2.2.1] at hoi; cases hoi
        refine ⟨h1, by show p < t.position + 1; omega, i', by rw [sp.cache]; simp [hkk, hc], ?_,
          by rw [hsame]; exact hu, sp.marked_mono k' hm, ?_⟩
        · show (t.entries ++ [_])[p]? = _
          rw [List.getElem?_append_left (by have := hR.pos; omega), hsame]
          exact he
        · intro x hx
          rw [hsame] at hx
          obtain ⟨kx, hkx⟩ := Option.ne_none_iff_exists'.1 (hrefs x hx)
          rw [hkeep x kx hkx]; simp
  · intro k' hk'
    show (t.index.set k t.position).get k' ≠ none
    rw [Map.get_set]
    split
    · simp
    · exact hR.idxKeep k' hk'
  · intro k' hm
    show marked s0 k' ∨ ∃ p, (t.index.set k t.position).get k' = some p ∧ t0.position ≤ p
    by_cases hkk : k' = k
    · subst hkk
      right
      exact ⟨t.position, by rw [Map.get_set]; simp, hR.le⟩
    · have hm' : marked s k' := by
        unfold marked at hm ⊢
        rw [sp.modified, sp.creating] at hm
        rcases hm with hm | hm
        · left
          split at hm
          · exact hm
          · rcases List.mem_append.1 hm with h | h
            · exact h
            · simp only [List.mem_singleton] at h; exact absurd h hkk
        · right
          split at hm
          · rename_i hc; exact absurd hc.2 hkk
          · exact hm
      rcases hR.marks k' hm' with h | ⟨p, hp, hle⟩
      · exact Or.inl h
      · right
        exact ⟨p, by rw [Map.get_set, if_neg hkk]; exact hp, hle⟩
  · rw [hst3]; exact hR.staged
  · -- crNew
    intro k' hc
    show s0.creating.has k' = true ∨ ∃ p, (t.index.set k t.position).get k' = some p ∧ t0.position ≤ p
    by_cases hkk : k' = k
    · subst hkk
      right; exact ⟨t.position, by rw [Map.get_set]; simp, hR.le⟩
    · rw [sp.creating] at hc
      split at hc
      · rename_i hcnd; exact absurd hcnd.2 hkk
      · rcases hR.crNew k' hc with h | ⟨p, hp, hle⟩
        · exact Or.inl h
        · right; exact ⟨p, by rw [Map.get_set, if_neg hkk]; exact hp, hle⟩
  · -- statusNew
    intro j k' hj hne
    show ∃ p, (t.index.set k t.position).get k' = some p ∧ t0.position ≤ p
    by_cases hkk : k' = k
    · subst hkk
      exact ⟨t.position, by rw [Map.get_set]; simp, hR.le⟩
    · rcases sp.obj j with h | h | h
      · rw [h] at hj hne
        obtain ⟨p, hp, hle⟩ := hR.statusNew j k' hj hne
        exact ⟨p, by rw [Map.get_set, if_neg hkk]; exact hp, hle⟩
      · exfalso
        rw [h.2.1, h.1, hk] at hj; cases hj; exact hkk rfl
      · exfalso
        rw [h.2.2.2.1] at hne
        exact hne (hR.noOidSame j h.2.2.1)
  · -- noOidSame
    intro j hj
    rcases sp.obj j with h | h | h
    · rw [h] at hj ⊢; exact hR.noOidSame j hj
    · rw [h.2.1, h.1, hk] at hj; cases hj
    · obtain ⟨k', hk', _⟩ := h.2.2.2.2; rw [hk'] at hj; cases hj

/-- under a TmpStore a stored object is up to date, and stays so -/
theorem tmpJ_stepQ (t0 : TmpStore) (s0 : State) : StepQ (TmpJ t0 s0) cleanQ := by
  intro s i k rest s3 pushed hJ hS hk sp st
  obtain ⟨t, hsp, _⟩ := hJ
  obtain ⟨_, _, hup3⟩ := st.stagedTmp t hsp
  refine ⟨⟨i, by rw [sp.cache]; simp, by rw [hup3]; simp⟩, ?_⟩
  intro k' ⟨j, hc, hs⟩
  by_cases hkk : k' = k
  · subst hkk
    have := hS.inj j i k' (hS.cacheS k' j hc) hk
    subst this
    exact ⟨j, by rw [sp.cache]; simp, by rw [hup3]; simp⟩
  · refine ⟨j, by rw [sp.cache]; simp [hkk, hc], ?_⟩
    rcases sp.obj j with h | h | h
    · rw [h]; exact hs
    · rw [h.2.2.2.1]; simp
    · have := hS.cacheS k' j hc; rw [h.2.2.1] at this; cases this

/-! ### what is still known about the temporary store when the `_commit` of a savepoint fails -/

structure TmpFailRel (t0 : TmpStore) (s0 s : State) (t : TmpStore) : Prop where
  cr : t.creating = t0.creating
  idxKeep : ∀ k, t0.index.get k ≠ none → t.index.get k ≠ none
  statusNew : ∀ j k, (s.objs j).oid = some k → (s.objs j).status ≠ (s0.objs j).status →
    t.index.get k ≠ none
  idxCached : ∀ k, t.index.get k ≠ none → t0.index.get k ≠ none ∨ ∃ i, s.cache.get k = some i

def TmpFail (t0 : TmpStore) (s0 s : State) : Prop := ∃ t, s.sp = some t ∧ TmpFailRel t0 s0 s t

theorem tmp_failInv (t0 : TmpStore) (s0 : State) : FailInv (TmpJ t0 s0) (TmpFail t0 s0) := by
  refine ⟨?_, ?_, ?_⟩
  · intro s ⟨t, hsp, hR⟩
    refine ⟨t, hsp, hR.cr, hR.idxKeep, ?_, ?_⟩
    · intro j k hj hne
      obtain ⟨p, hp, _⟩ := hR.statusNew j k hj hne
      rw [hp]; simp
    · intro k hk
      obtain ⟨p, hp⟩ := Option.ne_none_iff_exists'.1 hk
      rcases hR.idx k p hp with h | ⟨_, _, i, hi, _⟩
      · left; rw [h]; simp
      · exact Or.inr ⟨i, hi⟩
  · intro s i k rest s3 pushed ⟨t, hsp, hR⟩ hS hk sp hfail
    obtain ⟨h1, h2, _⟩ := hfail (by rw [hsp]; rfl)
    refine ⟨t, by rw [h1]; exact hsp, hR.cr, hR.idxKeep, ?_, ?_⟩
    · intro j k' hj hne
      rw [h2] at hj hne
      obtain ⟨p, hp, _⟩ := hR.statusNew j k' hj hne
      rw [hp]; simp
    · intro k' hk'
      obtain ⟨p, hp⟩ := Option.ne_none_iff_exists'.1 hk'
      rcases hR.idx k' p hp with h | ⟨_, _, i', hi', _⟩
      · left; rw [h]; simp
      · right
        rw [sp.cache]
        by_cases hkk : k' = k
        · exact ⟨i, by simp [hkk]⟩
        · exact ⟨i', by simp [hkk, hi']⟩
  · intro s j ⟨t, hsp, hR⟩
    refine ⟨t, hsp, hR.cr, hR.idxKeep, ?_, hR.idxCached⟩
    intro j' k hj' hne
    simp only [disownPending, setO] at hj' hne
    by_cases hjj : j' = j
    · subst hjj; simp at hj'
    · rw [if_neg hjj] at hj' hne
      exact hR.statusNew j' k hj' hne

end Proofs.Conn
