/-
  Weakened variants of the pack protocol (`ZodbModel/PackProto.lean`), used ONLY by the necessity
  examples at the end of `Props/C08.lean`: each variant changes one action the way a plausible code
  change would, and a concrete schedule then reaches a state that the corresponding theorem about
  the real protocol excludes.  So the theorems are not true "for free": they hold because of the
  lock discipline the model copies from the code.  Core Lean only.
-/
import ZodbModel.PackProto
namespace Proofs.PackProtoMutants
open ZodbModel.PackProto

inductive Mutant where
  /-- the commit lock is released before the swap instead of after it -/
  | releaseBeforeSwap
  /-- the next header is read after the body copy WITHOUT re-acquiring the commit lock -/
  | headerWithoutLock
  /-- the swap does not empty the pool of read handles -/
  | poolNotEmptied
  /-- the end of the copy loop is the file_end snapshot taken at the scan, not a fresh EOF read -/
  | eofNotReread
deriving DecidableEq, Repr

def stepM (m : Mutant) (s : State) (a : Act) : Option State :=
  match m, a with
  | .releaseBeforeSwap, .swapBegin =>
    if s.phase = .atEof ∧ s.out = [] then
      some { s with phase := .midSwap, pool := [], commitLock := none }
    else none
  | .headerWithoutLock, .readHdr =>
    if s.phase = .bodyCopied ∨ s.phase = .holdsCommit then
      if s.copied < s.file.length then some { s with phase := .hdrRead }
      else match s.pending with
        | none => some { s with phase := .atEof }
        | some _ => some { s with phase := .hdrRead, corrupt := true }
    else none
  | .poolNotEmptied, .swapBegin =>
    if s.phase = .atEof ∧ s.out = [] then some { s with phase := .midSwap } else none
  | .eofNotReread, .readHdr =>
    if s.phase = .holdsCommit then
      if s.copied < s.eof0 then some { s with phase := .hdrRead }
      else some { s with phase := .atEof }
    else none
  | _, a => step s a

def runM (m : Mutant) (s : State) : List Act → Option State
  | [] => some s
  | a :: as => match stepM m s a with
    | some s' => runM m s' as
    | none => none

end Proofs.PackProtoMutants
