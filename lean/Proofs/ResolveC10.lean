/-
  Proofs of the longer property theorems of `Props/C10.lean` (same statements; the property file only
  applies them).  Core Lean only.
-/
import Proofs.StoreRulesThm
namespace Proofs.C10Props
open ZodbModel ZodbModel.Resolve ZodbModel.StoreRules Proofs.Resolve

theorem store_stores_resolver_output (E : Env) (k : Kind) (base : Hist) (hb : Sorted base) (s : Sys)
    (h : Reachable E k base s) (t : TxnId) (oid : Oid) (serial : Tid) (data : Record)
    (ho : (step E s (.store t oid serial data)).out = .resolvedStore) :
    ∃ ct old committed m,
      currentTid s.view oid = some ct ∧ serial ≠ ct ∧
      loadSerialK k s.hist base oid serial = some old ∧
      loadSerialK k s.hist base oid ct = some committed ∧
      E.resolver data.hdr.cls (loadState E.ci old.state) (loadState E.ci committed.state)
        (loadState E.ci data.state) = .ok m ∧
      step E s (.store t oid serial data) =
        { sys := { s with staged := { oid := oid, base := serial,
                                      data := { hdr := data.hdr, state := dumpState m },
                                      wanted := data, resolved := true } :: s.staged,
                          resolved := oid :: s.resolved },
          out := .resolvedStore,
          calls := [{ cls := data.hdr.cls, old := loadState E.ci old.state,
                      committed := loadState E.ci committed.state,
                      new := loadState E.ci data.state }] } := by
  have hi := Proofs.StoreRules.reachable_inv E k base hb s h
  by_cases hl : s.lock = some t
  · rw [Proofs.StoreRules.step_store_eq E k base s hi t hl] at ho ⊢
    obtain ⟨ct, old, committed, m, hc, hne, hk, hinv, hres⟩ :=
      Proofs.StoreRules.storeSpec_resolvedStore E s oid serial data ho
    refine ⟨ct, old, committed, m, hc, hne, ?_, ?_, hres,
      Proofs.StoreRules.storeSpec_resolved E s oid serial ct data hc hne hk old committed m hinv hres⟩
    · have := hinv.oldLoaded
      rw [hi.kind, hi.base] at this
      exact this
    · have := hinv.committedLoaded
      rw [hi.kind, hi.base] at this
      simpa [committedOf] using this
  · have : (step E s (.store t oid serial data)).out = .txnError := by simp [step, hl]
    rw [this] at ho
    cases ho

theorem committed_resolved_is_merge (E : Env) (k : Kind) (base : Hist) (hb : Sorted base) (s : Sys)
    (h : Reachable E k base s) (newer : Hist) (t : Txn) (older : Hist)
    (hs : s.hist = newer ++ t :: older) (r : Rev) (hr : r ∈ t.recs) (hres : r.resolved = true) :
    ∃ ct, currentTid (viewOf k older base) r.oid = some ct ∧ r.base ≠ ct ∧
      Merged E (loadSerialK k older base) ct r := by
  have hi := Proofs.StoreRules.reachable_inv E k base hb s h
  have hn := hi.nlu
  rw [hi.kind, hi.base] at hn
  have hok := Proofs.StoreRules.nlu_split E k base s.hist hn newer t older hs r hr
  unfold RevOK at hok
  cases hc : currentTid (viewOf k older base) r.oid with
  | none => rw [hc] at hok; rw [hok.2] at hres; cases hres
  | some ct =>
    rw [hc] at hok
    rcases hok with ⟨_, _, h3⟩ | ⟨h1, _, h3⟩
    · rw [h3] at hres; cases hres
    · exact ⟨ct, rfl, h1, h3⟩

theorem committed_unresolved_is_wanted (E : Env) (k : Kind) (base : Hist) (hb : Sorted base) (s : Sys)
    (h : Reachable E k base s) (newer : Hist) (t : Txn) (older : Hist)
    (hs : s.hist = newer ++ t :: older) (r : Rev) (hr : r ∈ t.recs) (hres : r.resolved = false) :
    r.data = r.wanted := by
  have hi := Proofs.StoreRules.reachable_inv E k base hb s h
  have hn := hi.nlu
  rw [hi.kind, hi.base] at hn
  have hok := Proofs.StoreRules.nlu_split E k base s.hist hn newer t older hs r hr
  unfold RevOK at hok
  cases hc : currentTid (viewOf k older base) r.oid with
  | none => rw [hc] at hok; exact hok.1
  | some ct =>
    rw [hc] at hok
    rcases hok with ⟨_, h2, _⟩ | ⟨_, h2, _⟩
    · exact h2
    · rw [h2] at hres; cases hres

theorem resolvable_conflict_resolves (E : Env) (k : Kind) (base : Hist) (hb : Sorted base) (s : Sys)
    (h : Reachable E k base s) (t : TxnId) (hl : s.lock = some t) (oid : Oid) (serial ct : Tid)
    (data old committed : Record) (m : LState)
    (hc : currentTid s.view oid = some ct) (hne : serial ≠ ct) (hk : k.resolves = true)
    (himp : (E.ci data.hdr.cls).importable = true) (hres : (E.ci data.hdr.cls).hasResolver = true)
    (hold : loadSerialK k s.hist base oid serial = some old)
    (hcom : loadSerialK k s.hist base oid ct = some committed)
    (hm : E.resolver data.hdr.cls (loadState E.ci old.state) (loadState E.ci committed.state)
            (loadState E.ci data.state) = .ok m) :
    (step E s (.store t oid serial data)).out = .resolvedStore ∧
    (step E s (.store t oid serial data)).sys.staged =
      { oid := oid, base := serial, data := { hdr := data.hdr, state := dumpState m },
        wanted := data, resolved := true } :: s.staged := by
  have hi := Proofs.StoreRules.reachable_inv E k base hb s h
  rw [Proofs.StoreRules.step_store_eq E k base s hi t hl]
  have hinv : Invoked E (loadSerialK s.kind s.hist s.base) s.cache oid ct serial data none old committed := by
    rw [hi.kind, hi.base]
    refine ⟨himp, ?_, hres, hold, by simpa [committedOf] using hcom⟩
    intro hmem
    have := hi.cache _ hmem
    rw [this] at hres
    cases hres
  rw [Proofs.StoreRules.storeSpec_resolved E s oid serial ct data hc hne (by rw [hi.kind]; exact hk)
    old committed m hinv hm]
  exact ⟨rfl, rfl⟩

theorem unresolvable_conflict_stores_nothing (E : Env) (k : Kind) (base : Hist) (hb : Sorted base)
    (s : Sys) (h : Reachable E k base s) (t : TxnId) (hl : s.lock = some t) (oid : Oid)
    (serial ct : Tid) (data : Record)
    (hc : currentTid s.view oid = some ct) (hne : serial ≠ ct)
    (hbad : k.resolves = false ∨ (E.ci data.hdr.cls).importable = false ∨
      (E.ci data.hdr.cls).hasResolver = false ∨
      ∀ old committed, loadSerialK k s.hist base oid serial = some old →
        loadSerialK k s.hist base oid ct = some committed →
        ∃ e, E.resolver data.hdr.cls (loadState E.ci old.state) (loadState E.ci committed.state)
          (loadState E.ci data.state) = .error e) :
    (step E s (.store t oid serial data)).out = .conflict ∧
    (step E s (.store t oid serial data)).sys =
      { s with cache := (step E s (.store t oid serial data)).sys.cache } := by
  have hi := Proofs.StoreRules.reachable_inv E k base hb s h
  rw [Proofs.StoreRules.step_store_eq E k base s hi t hl]
  apply Proofs.StoreRules.storeSpec_unresolvable E s oid serial ct data hc hne
  rw [hi.kind, hi.base]
  rcases hbad with hb | hb | hb | hb
  · left; exact hb
  · right; exact tryToResolve_fails _ _ _ _ _ _ _ _ (Or.inl hb)
  · right; exact tryToResolve_fails _ _ _ _ _ _ _ _ (Or.inr (Or.inl hb))
  · right
    apply tryToResolve_fails
    right; right; right; right; right
    intro old committed h1 h2
    exact hb old committed h1 (by simpa [committedOf] using h2)

theorem writer_reads_stored_state (E : Env) (k : Kind) (base : Hist) (hb : Sorted base) (s : Sys)
    (h : Reachable E k base s) :
    ∀ r ∈ s.staged, connRead (some r.data) (afterCommit s.resolved r.oid r.wanted s.tid) = some r.data := by
  have hi := Proofs.StoreRules.reachable_inv E k base hb s h
  intro r hr
  unfold afterCommit
  by_cases hm : r.oid ∈ s.resolved
  · simp [hm, connRead]
  · simp only [hm, if_false, connRead]
    have hnr : r.resolved = false := by
      cases hres : r.resolved with
      | false => rfl
      | true => exact absurd ((hi.resolvedIff r.oid).2 ⟨r, hr, rfl, hres⟩) hm
    have hok := hi.staged r hr
    unfold RevOK at hok
    cases hc : currentTid (viewOf s.kind s.hist s.base) r.oid with
    | none => rw [hc] at hok; rw [hok.1]
    | some ct =>
      rw [hc] at hok
      rcases hok with ⟨_, h2, _⟩ | ⟨_, h2, _⟩
      · rw [h2]
      · rw [h2] at hnr; cases hnr

theorem undo_uses_same_resolver (E : Env) (ls : Oid → Tid → Option Record) (cache : List ClassId)
    (oid : Oid) (ctid undoneTid : Tid) (preData currentData d : Record) :
    ((undoResolve E ls cache oid ctid undoneTid preData currentData).out = .ok d ↔
      ∃ undone m,
        (E.ci preData.hdr.cls).importable = true ∧ preData.hdr.cls ∉ cache ∧
        (E.ci preData.hdr.cls).hasResolver = true ∧ ls oid undoneTid = some undone ∧
        E.resolver preData.hdr.cls (loadState E.ci undone.state) (loadState E.ci currentData.state)
          (loadState E.ci preData.state) = .ok m ∧
        d = { hdr := preData.hdr, state := dumpState m }) ∧
    (∀ e, (undoResolve E ls cache oid ctid undoneTid preData currentData).out = .error e →
      e = .undoError) := by
  constructor
  · rw [undoResolve_ok_iff, tryToResolve_ok_iff]
    constructor
    · rintro ⟨old, committed, m, ⟨h1, h2, h3, h4, h5⟩, hr, hd⟩
      simp only [committedOf] at h5
      injection h5 with h5
      subst h5
      exact ⟨old, m, h1, h2, h3, h4, hr, hd⟩
    · rintro ⟨undone, m, h1, h2, h3, h4, hr, hd⟩
      exact ⟨undone, currentData, m, ⟨h1, h2, h3, h4, rfl⟩, hr, hd⟩
  · intro e _
    cases e
    rfl

/-- the undo record of `_transactionalUndoRecord`: when it is a merge, it is the resolver's output on
    (state written by the undone transaction, CURRENT state, state before the undone transaction);
    when it is a copy, the resolver was not involved -/
theorem undo_record_merged (E : Env) (k : Kind) (hist base : Hist) (cache : List ClassId) (oid : Oid)
    (undone : Tid) (d : Record)
    (h : (undoRecord E k hist base cache oid undone).out = .merged d) :
    ∃ ct preData curData old m,
      currentTid (viewOf k hist base) oid = some ct ∧ ct ≠ undone ∧
      prevRecord (viewOf k hist base) oid undone = some preData ∧
      loadSerialMapping (viewOf k hist base) oid ct = some curData ∧
      loadSerialK k hist base oid undone = some old ∧
      E.resolver preData.hdr.cls (loadState E.ci old.state) (loadState E.ci curData.state)
        (loadState E.ci preData.state) = .ok m ∧
      d = { hdr := preData.hdr, state := dumpState m } := by
  unfold undoRecord at h
  simp only at h
  cases hc : currentTid (viewOf k hist base) oid with
  | none => rw [hc] at h; simp at h
  | some ct =>
    cases hu : loadSerialMapping (viewOf k hist base) oid undone with
    | none => rw [hc, hu] at h; simp at h
    | some undoneData =>
      rw [hc, hu] at h
      simp only at h
      split at h
      · split at h <;> simp at h
      · rename_i hne
        cases hp : prevRecord (viewOf k hist base) oid undone with
        | none => rw [hp] at h; simp at h
        | some preData =>
          cases hcur : loadSerialMapping (viewOf k hist base) oid ct with
          | none => rw [hp, hcur] at h; simp at h
          | some curData =>
            rw [hp, hcur] at h
            simp only at h
            cases hr : (undoResolve E (loadSerialK k hist base) cache oid ct undone preData curData).out with
            | error e => rw [hr] at h; simp at h
            | ok d' =>
              rw [hr] at h
              simp only at h
              injection h with h
              subst h
              obtain ⟨old, m, _, _, _, h4, h5, h6⟩ :=
                ((undo_uses_same_resolver E (loadSerialK k hist base) cache oid ct undone preData curData d').1).1 hr
              refine ⟨ct, preData, curData, old, m, rfl, ?_, rfl, hcur, h4, h5, h6⟩
              intro he
              exact hne (Or.inl he)

theorem undo_record_copy (E : Env) (k : Kind) (hist base : Hist) (cache : List ClassId) (oid : Oid)
    (undone : Tid) (d : Record)
    (h : (undoRecord E k hist base cache oid undone).out = .copy d) :
    prevRecord (viewOf k hist base) oid undone = some d ∧
    (undoRecord E k hist base cache oid undone).call = none := by
  unfold undoRecord at h ⊢
  simp only at h ⊢
  cases hc : currentTid (viewOf k hist base) oid with
  | none => rw [hc] at h; simp at h
  | some ct =>
    cases hu : loadSerialMapping (viewOf k hist base) oid undone with
    | none => rw [hc, hu] at h; simp at h
    | some undoneData =>
      rw [hc, hu] at h
      simp only at h ⊢
      split at h
      · rename_i hcond
        simp only [hcond, if_true]
        cases hp : prevRecord (viewOf k hist base) oid undone with
        | none => rw [hp] at h; simp at h
        | some preData =>
          rw [hp] at h
          simp only at h ⊢
          injection h with h
          exact ⟨by rw [h], trivial⟩
      · cases hp : prevRecord (viewOf k hist base) oid undone with
        | none => rw [hp] at h; simp at h
        | some preData =>
          cases hcur : loadSerialMapping (viewOf k hist base) oid ct with
          | none => rw [hp, hcur] at h; simp at h
          | some curData =>
            rw [hp, hcur] at h
            simp only at h
            cases hr : (undoResolve E (loadSerialK k hist base) cache oid ct undone preData curData).out with
            | error e => rw [hr] at h; simp at h
            | ok d' => rw [hr] at h; simp at h

end Proofs.C10Props
