/-
  Helper lemmas for C07, part 3: `packFS` preserves every load above the pack time for every object
  reachable in that snapshot; transactions after the pack time are kept; only R is removed (partial).
-/
import Proofs.PackFS
set_option linter.unusedSimpArgs false
namespace Proofs.Pack
open ZodbModel ZodbModel.Pack

/-! ### unfolding `packFS` -/

theorem packFS_ok_inv {h h' : History} {T : Tid} {gc : Bool} (hp : packFS h T gc = .ok h') :
    ∃ g, findReachable (preOf h T) (postOf h T) T gc (allOids h) = .ok g ∧
      copyRest (copyPre g.isReachable (preOf h T)) (postOf h T) = .ok h' := by
  unfold packFS at hp
  simp only at hp
  split at hp
  · cases hp
  · split at hp
    · cases hp
    · split at hp
      · cases hp
      · rename_i g hg
        split at hp
        · cases hp
        · split at hp
          · cases hp
          · rename_i h'' hc
            injection hp with hp; subst hp
            exact ⟨g, hg, hc⟩

/-- shape of a successful pack: packed prefix ++ the later transactions up to back pointers -/
theorem packFS_ok_shape {h h' : History} {T : Tid} {gc : Bool} (hp : packFS h T gc = .ok h') :
    ∃ g post', findReachable (preOf h T) (postOf h T) T gc (allOids h) = .ok g ∧
      h' = copyPre g.isReachable (preOf h T) ++ post' ∧
      post'.map Txn.core = (postOf h T).map Txn.core := by
  obtain ⟨g, hg, hc⟩ := packFS_ok_inv hp
  obtain ⟨post', e1, e2⟩ := copyRest_core hc
  exact ⟨g, post', hg, e1, e2⟩

theorem packFS_ok_core {h h' : History} {T : Tid} {gc : Bool} (hp : packFS h T gc = .ok h') :
    ∃ g, findReachable (preOf h T) (postOf h T) T gc (allOids h) = .ok g ∧
      h'.map Txn.core = (copyPre g.isReachable (preOf h T) ++ postOf h T).map Txn.core := by
  obtain ⟨g, post', hg, e1, e2⟩ := packFS_ok_shape hp
  refine ⟨g, hg, ?_⟩
  rw [e1, List.map_append, List.map_append, e2]

/-! ### loads -/

theorem loadBefore_some_iff {h : History} {o : Oid} {b : Tid} {d : Bytes} {s : Tid} {e : Option Tid} :
    loadBefore h o b = .some d s e ↔
      ∃ r, lastBefore h o b = some (s, r) ∧ r.data = some d ∧ firstFrom h o b = e := by
  unfold loadBefore
  constructor
  · intro hl
    split at hl
    · cases hl
    · split at hl
      · cases hl
      · rename_i t r hlb
        split at hl
        · cases hl
        · rename_i d' hd
          injection hl with h1 h2 h3
          subst h1; subst h2
          exact ⟨r, hlb, hd, h3⟩
  · rintro ⟨r, hlb, hd, he⟩
    have hne : (recsOf h o).isEmpty = false := by
      have := (lastBefore_mem hlb).1
      cases hr : recsOf h o with
      | nil => rw [hr] at this; simp at this
      | cons a l => rfl
    simp [hne, hlb, hd, he]

/-- the core step: if the record answering `(o, b)` is after the pack time, or is the record
    current at the pack time and kept, the packed history answers identically -/
theorem load_preserved_of_keep {pre post : History} {T b : Tid} (keep : Tid → Oid → Bool)
    (hpre : ∀ t ∈ pre, t.tid ≤ T) (hb : T < b) {o : Oid} {d : Bytes} {s : Tid} {e : Option Tid}
    (hl : loadBefore (pre ++ post) o b = .some d s e)
    (hk : (lastBefore post o b).isSome ∨
      ∀ t r, lastRec pre o = some (t, r) → r.data.isSome → keep t o = true) :
    loadBefore (copyPre keep pre ++ post) o b = .some d s e := by
  rw [loadBefore_some_iff] at hl ⊢
  obtain ⟨r, hlb, hd, he⟩ := hl
  rw [lastBefore_append hb hpre] at hlb
  rw [firstFrom_append hb hpre] at he
  rw [lastBefore_append hb (copyPre_le hpre), firstFrom_append hb (copyPre_le hpre)]
  cases hp : lastBefore post o b with
  | some x =>
    rw [hp] at hlb
    simp only [Option.or] at hlb ⊢
    exact ⟨r, hlb, hd, he⟩
  | none =>
    rw [hp] at hlb
    simp only [Option.or] at hlb ⊢
    have hkeep : keep s o = true := by
      rcases hk with hk | hk
      · rw [hp] at hk; cases hk
      · exact hk s r hlb (by simp [hd])
    refine ⟨packRec r, ?_, hd, he⟩
    exact lastRec_copyPre (x := (s, r)) hlb hkeep

/-! ### reachability at the pack time, spec level = model level -/

theorem refsAtT_eq_refsAt {h : History} (hs : Sorted h) (T : Tid) (o : Oid) :
    refsAtT (preOf h T) o = refsAt h (T + 1) o := by
  have hlb : lastBefore h o (T + 1) = lastRec (preOf h T) o := by
    conv => lhs; rw [← pre_append_post h T]
    exact lastBefore_at_T (fun t ht => pre_le ht) (post_gt hs) o
  unfold refsAtT curAt refsAt
  rw [hlb]
  cases hl : lastRec (preOf h T) o with
  | none => rfl
  | some x =>
    obtain ⟨t, r⟩ := x
    simp only
    by_cases hi : inIndex r = true
    · simp [hi]
    · have hi' : inIndex r = false := by simpa using hi
      have hd : r.data.isSome = false := by
        unfold inIndex at hi'
        simp only [Bool.or_eq_false_iff] at hi'
        exact hi'.2
      simp [hi', hd]

theorem reachableAtT_iff {h : History} (hs : Sorted h) (T : Tid) (o : Oid) :
    ReachableAtT h T o ↔ Reach.Reachable (refsAtT (preOf h T)) [0] o := by
  have : refsAtT (preOf h T) = refsAt h (T + 1) := funext (refsAtT_eq_refsAt hs T)
  unfold ReachableAtT ReachableAt
  rw [this]

theorem mem_post_of_gt {h : History} {T : Tid} {t : Txn} (ht : t ∈ h) (hgt : T < t.tid) :
    t ∈ postOf h T := by
  rw [← pre_append_post h T] at ht
  rcases List.mem_append.1 ht with h1 | h1
  · have := pre_le h1; omega
  · exact h1

theorem mem_pre_of_le {h : History} (hs : Sorted h) {T : Tid} {t : Txn} (ht : t ∈ h)
    (hle : t.tid ≤ T) : t ∈ preOf h T := by
  rw [← pre_append_post h T] at ht
  rcases List.mem_append.1 ht with h1 | h1
  · exact h1
  · have := post_gt hs t h1; omega

/-- invariant along a reachability path of a snapshot above the pack time: the object has a record
    after the pack time (and before the bound), or it is reachable at the pack time -/
theorem reach_inv {h : History} {T : Tid} (hs : Sorted h) (hNR : NoResurrection h T) {b : Tid}
    (hb : T < b) {o : Oid} (hr : ReachableAt h b o) :
    (lastBefore (postOf h T) o b).isSome ∨ Reach.Reachable (refsAtT (preOf h T)) [0] o := by
  induction hr with
  | root hm => exact Or.inr (.root hm)
  | @step o o' _ href ih =>
    by_cases hp' : (lastBefore (postOf h T) o' b).isSome
    · exact Or.inl hp'
    right
    unfold refsAt at href
    split at href
    · rename_i t r hlb
      split at href
      · rename_i hd
        have hlb' : (lastBefore (postOf h T) o b).or (lastRec (preOf h T) o) = some (t, r) := by
          rw [← lastBefore_append hb (fun t ht => pre_le ht), pre_append_post]; exact hlb
        cases hp : lastBefore (postOf h T) o b with
        | some x =>
          rw [hp] at hlb'
          simp only [Option.or, Option.some.injEq] at hlb'
          subst hlb'
          obtain ⟨hx, hlt⟩ := lastBefore_mem hp
          obtain ⟨tx, htx, etid, hro⟩ := mem_recsOf hx
          simp only at etid hro hlt
          have hgt : T < tx.tid := post_gt hs tx htx
          have htxh : tx ∈ h := by
            rw [← pre_append_post h T]; exact List.mem_append_right _ htx
          rcases hNR tx htxh hgt r (recOf_mem hro).1 hd o' href with hre | ⟨t', ht', h1, h2, h3⟩
          · exact (reachableAtT_iff hs T o').1 hre
          · exfalso
            apply hp'
            obtain ⟨r', hr'⟩ := Option.isSome_iff_exists.1 h3
            have hmem := mem_recsOf_of (mem_post_of_gt ht' h1) hr'
            exact lastBefore_isSome_of hmem (by simp only; omega)
        | none =>
          rw [hp] at hlb'
          simp only [Option.or] at hlb'
          have hro : Reach.Reachable (refsAtT (preOf h T)) [0] o := by
            rcases ih with ih | ih
            · rw [hp] at ih; cases ih
            · exact ih
          have hc := curAt_of_lastRec hlb' hd
          refine .step hro ?_
          simp [refsAtT, hc, hd, href]
      · simp at href
    · simp at href

/-- `packFS` preserves the answer for every reachable object of every snapshot above the pack time -/
theorem packFS_preserves_loads {h : History} {T : Tid} {gc : Bool} (hs : Sorted h)
    (hNR : gc = true → NoResurrection h T) {b : Tid} (hb : T < b) {o : Oid}
    (hr : ReachableAt h b o) {d : Bytes} {s : Tid} {e : Option Tid}
    (hl : loadBefore h o b = .some d s e) :
    loadBefore ((packFS h T gc).hist h) o b = .some d s e := by
  cases hp : packFS h T gc with
  | noop => exact hl
  | redundant => exact hl
  | error _ => exact hl
  | ok h' =>
    simp only [PackOut.hist]
    obtain ⟨g, hg, hcore⟩ := packFS_ok_core hp
    rw [loadBefore_congr_core hcore]
    have hl' : loadBefore (preOf h T ++ postOf h T) o b = .some d s e := by
      rw [pre_append_post]; exact hl
    apply load_preserved_of_keep g.isReachable (fun t ht => pre_le ht) hb hl'
    cases gc with
    | false =>
      right
      intro t r hlr hd
      exact findReachable_nogc_keeps hg (curAt_of_lastRec hlr hd)
    | true =>
      rcases reach_inv hs (hNR rfl) hb hr with hi | hi
      · exact Or.inl hi
      · right
        intro t r hlr hd
        exact findReachable_gc_keeps hg hi (curAt_of_lastRec hlr hd)

/-! ### transactions after the pack time -/

theorem filter_gt_pre {h : History} (T : Tid) :
    (preOf h T).filter (fun t => decide (T < t.tid)) = [] := by
  rw [List.filter_eq_nil_iff]
  intro t ht
  have := pre_le ht
  simp; omega

theorem filter_gt_of_all_gt {l : History} {T : Tid} (hall : ∀ t ∈ l, T < t.tid) :
    l.filter (fun t => decide (T < t.tid)) = l := by
  rw [List.filter_eq_self]
  intro t ht
  simpa using hall t ht

theorem filter_gt_of_all_le {l : History} {T : Tid} (hall : ∀ t ∈ l, t.tid ≤ T) :
    l.filter (fun t => decide (T < t.tid)) = [] := by
  rw [List.filter_eq_nil_iff]
  intro t ht
  have := hall t ht
  simp; omega

theorem core_tids_eq {a b : History} (e : a.map Txn.core = b.map Txn.core) :
    a.map (·.tid) = b.map (·.tid) := by
  have := congrArg (List.map (·.tid)) e
  simpa [List.map_map, Function.comp_def] using this

theorem all_gt_of_core_eq {a b : History} {T : Tid} (e : a.map Txn.core = b.map Txn.core)
    (hb : ∀ t ∈ b, T < t.tid) : ∀ t ∈ a, T < t.tid := by
  intro t ht
  have h1 : t.tid ∈ a.map (·.tid) := List.mem_map.2 ⟨t, ht, rfl⟩
  rw [core_tids_eq e] at h1
  obtain ⟨t', ht', e'⟩ := List.mem_map.1 h1
  have := hb t' ht'
  omega

/-- every transaction after the pack time is kept, in order, with identical status, metadata and
    records (oid, data, length, references) — only the representation of back pointers may change -/
theorem packFS_keeps_later {h : History} {T : Tid} {gc : Bool} (hs : Sorted h) :
    (((packFS h T gc).hist h).filter (fun t => decide (T < t.tid))).map Txn.core =
      (h.filter (fun t => decide (T < t.tid))).map Txn.core := by
  cases hp : packFS h T gc with
  | noop => rfl
  | redundant => rfl
  | error _ => rfl
  | ok h' =>
    simp only [PackOut.hist]
    obtain ⟨g, post', _, e1, e2⟩ := packFS_ok_shape hp
    have hpostgt := post_gt (T := T) hs
    have hpost'gt := all_gt_of_core_eq e2 hpostgt
    rw [e1, List.filter_append,
      filter_gt_of_all_le (copyPre_le (keep := g.isReachable) (fun t ht => pre_le ht)),
      filter_gt_of_all_gt hpost'gt, List.nil_append, e2]
    conv => rhs; rw [← pre_append_post h T]
    rw [List.filter_append, filter_gt_pre, filter_gt_of_all_gt hpostgt, List.nil_append]

end Proofs.Pack
