/-
  Helper lemmas for C16, part 4: the invariant `Inv` of every stack reachable through the API when
  explicit tids are above `lastTransaction()` (hypothesis on the caller) and all other tids come from
  the clock (`tpc_begin` without tid: the repaired DemoStorage hands `newTid(self.lastTransaction())`
  to the changes).  `Inv` implies `Sorted`, `TidOrdered`, `lastTransaction()` dominating every tid, and
  a tid-sorted iterator.
-/
import Proofs.DemoMachine
namespace Proofs.Demo
open ZodbModel ZodbModel.Demo

/-- a layer on top of something whose last transaction is `last` (0 for a bottom storage) -/
def LayerInv (last : Tid) (c : Layer) : Prop :=
  c.txns.Pairwise (fun a b => a.tid < b.tid) ∧
  (∀ t ∈ c.txns, last < t.tid ∧ t.tid ≤ c.ltid) ∧
  (c.ltid = 0 ∨ last < c.ltid) ∧
  (∀ st, c.staged = some st → (if c.ltid = 0 then last else c.ltid) < st.1)

def Inv : Store → Prop
  | .leaf l => LayerInv 0 l
  | .demo b c _ => Inv b ∧ LayerInv b.lastTransaction c

/-- what the caller must respect: an explicit tid is above the storage's last transaction -/
def OpOK (s : Store) : Op → Prop
  | .begin _ (some t) _ => s.lastTransaction < t
  | _ => True

theorem laterThan_gt (now old : Tid) : old < laterThan now old := by
  unfold laterThan; split <;> tomega

/-- same committed part, same tid of the transaction in progress -/
def SameButRecs (c c' : Layer) : Prop :=
  c'.txns = c.txns ∧ c'.ltid = c.ltid ∧
  ∀ st', c'.staged = some st' → ∃ st, c.staged = some st ∧ st.1 = st'.1

theorem layerInv_same {last : Tid} {c c' : Layer} (h : LayerInv last c) (hs : SameButRecs c c') :
    LayerInv last c' := by
  obtain ⟨h1, h2, h3, h4⟩ := h
  obtain ⟨e1, e2, e3⟩ := hs
  refine ⟨by rw [e1]; exact h1, by rw [e1, e2]; exact h2, by rw [e2]; exact h3, ?_⟩
  intro st' hst'
  obtain ⟨st, hst, he⟩ := e3 st' hst'
  rw [e2, ← he]
  exact h4 st hst

theorem store_same {c c' : Layer} {o : Oid} {ser : Tid} {d : Data} (h : c.store o ser d = .ok c') :
    SameButRecs c c' := by
  unfold Layer.store at h
  split at h
  · cases h
  · rename_i tid recs hst
    split at h
    · cases h
      exact ⟨rfl, rfl, fun st' h' => ⟨(tid, recs), hst, by cases h'; rfl⟩⟩
    · cases h

theorem delete_same {c c' : Layer} {o : Oid} {ser : Tid} (h : c.delete o ser = .ok c') :
    SameButRecs c c' := by
  unfold Layer.delete at h
  split at h
  · cases h
  · split at h
    · cases h
    · rename_i tid recs hst
      split at h
      · cases h
      · split at h
        · cases h
          exact ⟨rfl, rfl, fun st' h' => ⟨(tid, recs), hst, by cases h'; rfl⟩⟩
        · cases h

theorem undo_same {c c' : Layer} {u : Tid} (h : c.undo u = .ok c') : SameButRecs c c' := by
  unfold Layer.undo at h
  split at h
  · cases h
  · split at h
    · cases h
    · rename_i tid recs hst
      split at h
      · cases h
      · split at h
        · cases h
        · split at h
          · cases h
          · cases h
            exact ⟨rfl, rfl, fun st' h' => ⟨(tid, recs), hst, by cases h'; rfl⟩⟩

theorem layerInv_begin {last : Tid} {c : Layer} {tid : Tid} (h : LayerInv last c)
    (ht : (if c.ltid = 0 then last else c.ltid) < tid) : LayerInv last (c.begin tid) := by
  obtain ⟨h1, h2, h3, _⟩ := h
  refine ⟨h1, h2, h3, ?_⟩
  intro st hst
  simp only [Layer.begin, Option.some.injEq] at hst
  subst hst
  exact ht

theorem layerInv_abort {last : Tid} {c : Layer} (h : LayerInv last c) : LayerInv last c.abort := by
  obtain ⟨h1, h2, h3, _⟩ := h
  exact ⟨h1, h2, h3, fun st hst => by simp [Layer.abort] at hst⟩

theorem layerInv_finish {last : Tid} {c : Layer} (h : LayerInv last c) : LayerInv last c.finish := by
  obtain ⟨h1, h2, h3, h4⟩ := h
  unfold Layer.finish
  split
  · exact ⟨h1, h2, h3, h4⟩
  · rename_i tid recs hst
    have ht := h4 (tid, recs) hst
    simp only at ht
    have hold : ∀ t ∈ c.txns, t.tid < tid := by
      intro t hm
      have := h2 t hm
      by_cases h0 : c.ltid = 0
      · rw [h0] at this; tomega
      · rw [if_neg h0] at ht; tomega
    have hlast : last < tid := by
      by_cases h0 : c.ltid = 0
      · rw [if_pos h0] at ht; exact ht
      · rw [if_neg h0] at ht
        rcases h3 with h3 | h3
        · exact absurd h3 h0
        · tomega
    refine ⟨?_, ?_, Or.inr hlast, fun st hst' => by simp at hst'⟩
    · rw [List.pairwise_append]
      refine ⟨h1, by simp, ?_⟩
      intro a ha b hb
      simp only [List.mem_singleton] at hb
      subst hb
      exact hold a ha
    · intro t hm
      rcases List.mem_append.1 hm with hm | hm
      · exact ⟨(h2 t hm).1, Nat.le_of_lt (hold t hm)⟩
      · simp only [List.mem_singleton] at hm
        subst hm
        exact ⟨hlast, Nat.le_refl _⟩

theorem mem_packTxns {txns : List Txn} {P : Tid} {t : Txn} (h : t ∈ packTxns txns P) :
    ∃ t' ∈ txns, t'.tid = t.tid := by
  unfold packTxns at h
  rw [List.mem_filterMap] at h
  obtain ⟨t', ht', he⟩ := h
  refine ⟨t', ht', ?_⟩
  split at he
  · cases he; rfl
  · dsimp only at he
    split at he
    · cases he
    · cases he; rfl

theorem packTxns_sorted {txns : List Txn} (h : txns.Pairwise (fun a b => a.tid < b.tid)) (P : Tid) :
    (packTxns txns P).Pairwise (fun a b => a.tid < b.tid) := by
  unfold packTxns
  refine List.Pairwise.filterMap _ ?_ h
  intro a a' haa b hb b' hb'
  have e1 : b.tid = a.tid := by
    split at hb
    · cases hb; rfl
    · dsimp only at hb
      split at hb
      · cases hb
      · cases hb; rfl
  have e2 : b'.tid = a'.tid := by
    split at hb'
    · cases hb'; rfl
    · dsimp only at hb'
      split at hb'
      · cases hb'
      · cases hb'; rfl
  rw [e1, e2]; exact haa

theorem layerInv_pack {last : Tid} {c : Layer} (h : LayerInv last c) (P : Tid) :
    LayerInv last (c.pack P) := by
  obtain ⟨h1, h2, h3, h4⟩ := h
  unfold Layer.pack
  simp only
  split
  · exact ⟨h1, h2, h3, h4⟩
  · refine ⟨packTxns_sorted h1 P, ?_, h3, h4⟩
    intro t ht
    obtain ⟨t', ht', he⟩ := mem_packTxns ht
    rw [← he]; exact h2 t' ht'

theorem layerInv_empty (last : Tid) (cu : Bool) : LayerInv last (Layer.empty cu) :=
  ⟨by simp [Layer.empty], by simp [Layer.empty], Or.inl rfl, by simp [Layer.empty]⟩

theorem beginTid_gt {last : Tid} {tid : Option Tid} {now : Tid}
    (h : ∀ t, tid = some t → last < t) : last < beginTid last tid now := by
  unfold beginTid
  cases tid with
  | none => exact laterThan_gt now last
  | some t => exact h t rfl

theorem lastTransaction_leaf (l : Layer) :
    (if l.ltid = 0 then 0 else l.ltid) = (Store.leaf l).lastTransaction := by
  simp only [Store.lastTransaction]; split <;> simp_all

/-- **every API call preserves the invariant** -/
theorem step_inv (s : Store) (op : Op) (h : Inv s) (hop : OpOK s op) : Inv (step s op).1 := by
  cases s with
  | leaf l =>
    have hl : LayerInv 0 l := h
    cases op with
    | begin x tid now =>
      simp only [step]
      refine layerInv_begin hl ?_
      rw [lastTransaction_leaf]
      apply beginTid_gt
      intro t ht; subst ht; exact hop
    | store x o ser d =>
      simp only [step]
      split
      · rename_i l' hs; exact layerInv_same hl (store_same hs)
      · exact hl
    | delete x o ser =>
      simp only [step]
      split
      · rename_i l' hs; exact layerInv_same hl (delete_same hs)
      · exact hl
    | vote x => exact hl
    | finish x => exact layerInv_finish hl
    | abort x => exact layerInv_abort hl
    | undo x u =>
      simp only [step]
      split
      · rename_i l' hs; exact layerInv_same hl (undo_same hs)
      · exact hl
    | checkCurrent x o ser => exact hl
    | pack P gc => exact layerInv_pack hl P
    | newOid draws => exact hl
    | push d => exact ⟨hl, layerInv_empty _ _⟩
    | pushWith cu d => exact ⟨hl, layerInv_empty _ _⟩
    | pop => exact hl
  | demo b c ds =>
    obtain ⟨hb, hc⟩ := h
    cases op with
    | begin x tid now =>
      simp only [step]
      split
      · exact ⟨hb, hc⟩
      · split
        · exact ⟨hb, hc⟩
        · refine ⟨hb, layerInv_begin hc ?_⟩
          apply beginTid_gt
          intro t ht; subst ht; exact hop
    | store x o ser d =>
      simp only [step]
      repeat' split
      all_goals first
        | exact ⟨hb, hc⟩
        | (rename_i c' hs; exact ⟨hb, layerInv_same hc (store_same hs)⟩)
    | delete x o ser => exact ⟨hb, hc⟩
    | vote x => exact ⟨hb, hc⟩
    | finish x =>
      simp only [step]
      split
      · exact ⟨hb, hc⟩
      · exact ⟨hb, layerInv_finish hc⟩
    | abort x =>
      simp only [step]
      split
      · exact ⟨hb, hc⟩
      · exact ⟨hb, layerInv_abort hc⟩
    | undo x u =>
      simp only [step]
      split
      · exact ⟨hb, hc⟩
      · split
        · exact ⟨hb, hc⟩
        · split
          · rename_i c' hs; exact ⟨hb, layerInv_same hc (undo_same hs)⟩
          · exact ⟨hb, hc⟩
    | checkCurrent x o ser => exact ⟨hb, hc⟩
    | pack P gc =>
      simp only [step]
      split
      · exact ⟨hb, hc⟩
      · split
        · exact ⟨hb, hc⟩
        · exact ⟨hb, layerInv_pack hc P⟩
    | newOid draws =>
      simp only [step]
      split <;> exact ⟨hb, hc⟩
    | push d => exact ⟨⟨hb, hc⟩, layerInv_empty _ _⟩
    | pushWith cu d => exact ⟨⟨hb, hc⟩, layerInv_empty _ _⟩
    | pop => exact hb

/-! ### consequences of the invariant -/

theorem inv_dominates {s : Store} (h : Inv s) : ∀ t ∈ s.iterator, t.tid ≤ s.lastTransaction := by
  induction s with
  | leaf l => intro t ht; exact (h.2.1 t ht).2
  | demo b c ds ih =>
    obtain ⟨hb, _, h2, h3, _⟩ := h
    intro t ht
    simp only [Store.iterator, List.mem_append] at ht
    simp only [Store.lastTransaction]
    rcases ht with ht | ht
    · have := ih hb t ht
      split
      · exact this
      · rename_i h0
        rcases h3 with h3 | h3
        · exact absurd h3 h0
        · tomega
    · have := h2 t ht
      split
      · rename_i h0; rw [h0] at this; tomega
      · exact this.2

theorem inv_sorted {s : Store} (h : Inv s) : Sorted s := by
  induction s with
  | leaf l => exact h.1
  | demo b c ds ih => exact ⟨ih h.1, h.2.1⟩

theorem inv_tidOrdered {s : Store} (h : Inv s) : TidOrdered s := by
  induction s with
  | leaf l => trivial
  | demo b c ds ih =>
    refine ⟨ih h.1, ?_⟩
    intro x hx y hy
    have h1 := inv_dominates h.1 x hx
    have h2 := (h.2.2.1 y hy).1
    tomega

/-- the iterator of a stack (base first, then the changes) is in strictly increasing tid order -/
theorem iterator_sorted {s : Store} (hs : Sorted s) (ho : TidOrdered s) :
    s.iterator.Pairwise (fun a b => a.tid < b.tid) := by
  induction s with
  | leaf l => exact hs
  | demo b c ds ih =>
    simp only [Store.iterator]
    rw [List.pairwise_append]
    exact ⟨ih hs.1 ho.1, hs.2, ho.2⟩

theorem iteratorRange_eq (s : Store) (a z : Tid) :
    s.iteratorRange a z = s.iterator.filter (fun t => a ≤ t.tid ∧ t.tid ≤ z) := by
  induction s with
  | leaf l => rfl
  | demo b c ds ih => simp [Store.iteratorRange, Store.iterator, ih]

/-- `loadBeforeR` only looks at the revisions below and at-or-above the bound -/
theorem loadBeforeR_congr {r : List Rev} {t t' : Tid} (hb : before r t = before r t')
    (ha : after r t = after r t') : loadBeforeR r t = loadBeforeR r t' := by
  unfold loadBeforeR; rw [hb, ha]

/-- the newest snapshot (`lastTransaction() + 1`) shows every object as `load` does — what failed
    when a demo commit could get a tid below the base's -/
theorem snapshot_current {s : Store} (hi : Inv s) (hm : BelowMax s) (hu : UncreateOverNothing s)
    (o : Oid) : vis (s.loadBefore o (s.lastTransaction + 1)) = vis (s.loadBefore o maxtid) := by
  have hok := oidOK_of (inv_sorted hi) (inv_tidOrdered hi) hm hu o
  rw [store_loadBefore_vis s o hok, store_loadBefore_vis s o hok]
  have h1 : ∀ x ∈ s.revs o, x.1 < s.lastTransaction + 1 := by
    intro x hx
    obtain ⟨t, ht, he, _⟩ := mem_revsOf hx
    have := inv_dominates hi t ht
    tomega
  have h2 : ∀ x ∈ s.revs o, x.1 < maxtid := by
    intro x hx
    obtain ⟨t, ht, he, _⟩ := mem_revsOf hx
    rw [← he]; exact hm t ht
  rw [loadBeforeR_congr (t := s.lastTransaction + 1) (t' := maxtid)]
  · rw [before_eq_self h1, before_eq_self h2]
  · rw [after_eq_nil h1, after_eq_nil h2]

/-- every reachable stack satisfies the invariant -/
theorem run_inv (s : Store) (ops : List Op) (h : Inv s)
    (hops : ∀ (pre : List Op) (op : Op) (post : List Op), ops = pre ++ op :: post → OpOK (run s pre) op) :
    Inv (run s ops) := by
  induction ops generalizing s with
  | nil => exact h
  | cons op ops ih =>
    simp only [run, List.foldl_cons]
    apply ih _ (step_inv s op h (hops [] op ops rfl))
    intro pre op' post he
    have := hops (op :: pre) op' post (by rw [he]; rfl)
    simpa [run] using this

end Proofs.Demo
