/-
  C06, part 7: several transactions undone in ONE undo transaction (`DB.undoMultiple`).
  * `undoCall_step`: the general step — one `undo(tid)` call on top of the records `S` staged by the
    earlier calls, in specification terms relative to the view `S ++ file`.
  * `undo_multi_newest_first`: undoing the k newest transactions, given newest first, always succeeds
    and restores the state before the oldest of them.
  Core Lean only.
-/
import Proofs.UndoMain
namespace Proofs.Undo
open ZodbModel ZodbModel.Undo

/-- the general step of a multi-undo -/
theorem undoCall_step (resolve : Resolver) (newer : Log) (T : Txn) (older : Log)
    (hInv : Inv (newer ++ T :: older)) (utid : Nat) (S : List Rec)
    (hS : StagedOK utid (flat (newer ++ T :: older)) S) (S' : List Rec) (oids : List Nat)
    (h : undoCall resolve (newer ++ T :: older) S utid T.tid = .ok (S', oids)) :
    StagedOK utid (flat (newer ++ T :: older)) S' ∧ (∀ oid, oid ∈ oids ↔ oid ∈ T.oids) ∧
    (∀ oid ∈ T.oids,
      match verdictFor resolve (S ++ flat (newer ++ T :: older)) T older oid with
      | .restore => dataOf (S' ++ flat (newer ++ T :: older)) oid = dataOf (flat older) oid
      | .merge m => m ≠ [] → dataOf (S' ++ flat (newer ++ T :: older)) oid = some m
      | .refuse => False) ∧
    (∀ oid, oid ∉ T.oids →
      dataOf (S' ++ flat (newer ++ T :: older)) oid = dataOf (S ++ flat (newer ++ T :: older)) oid) := by
  obtain ⟨N, h1, h2, h3, h4, h5, h6, h7⟩ := undoCall_ok resolve hInv hS h
  refine ⟨h3, h6, ?_, ?_⟩
  · intro oid ho
    have hd := undoLoop_data resolve hInv h4 hS ho
    simp only at hd
    rw [h1, h5]
    cases hv : verdictFor resolve (S ++ flat (newer ++ T :: older)) T older oid with
    | refuse => exact absurd hv (h7 oid ho)
    | restore => rw [hv] at hd; exact hd
    | merge m => rw [hv] at hd; exact hd
  · intro oid ho
    have hnot : ∀ n ∈ N, n.oid ≠ oid := by
      intro n hn hno
      exact ho ((h6 oid).1 (by rw [h2]; exact List.mem_map.2 ⟨n, hn, hno⟩))
    rw [h1, List.append_assoc]
    exact dataOf_append_of_not_mem oid N _ hnot

/-- invariant of the staged records while the newest transactions are undone newest first:
    `done` are the transactions already processed, `rest` the flat file below them -/
def MultiInv (utid : Nat) (F : List Rec) (done : Log) (rest S : List Rec) : Prop :=
  StagedOK utid F S ∧
  ∀ oid,
    (oid ∈ (flat done).map (·.oid) →
      ∃ x, S.find? (fun r => r.oid = oid) = some x ∧ x.pl = .back (lastPos oid rest)) ∧
    (oid ∉ (flat done).map (·.oid) → ∀ s ∈ S, s.oid ≠ oid)

theorem mem_flat_oids_append (A B : Log) (oid : Nat) :
    oid ∈ (flat (A ++ B)).map (·.oid) ↔ oid ∈ (flat A).map (·.oid) ∨ oid ∈ (flat B).map (·.oid) := by
  rw [flat_append, List.map_append, List.mem_append]

theorem flat_singleton (T : Txn) : flat [T] = T.recs := by simp [flat]

theorem undoAll_newest_first (resolve : Resolver) (older : Log) (utid : Nat) :
    ∀ (todo done : Log) (S : List Rec),
      Inv (done ++ (todo ++ older)) → (∀ t ∈ todo, t.packed = false) →
      MultiInv utid (flat (done ++ (todo ++ older))) done (flat (todo ++ older)) S →
      ∃ S', undoAll resolve (done ++ (todo ++ older)) utid (todo.map (·.tid)) S = .ok S' ∧
        MultiInv utid (flat (done ++ (todo ++ older))) (done ++ todo) (flat older) S' := by
  intro todo
  induction todo with
  | nil =>
    intro done S _ _ hM
    refine ⟨S, rfl, ?_⟩
    simpa using hM
  | cons T todo ih =>
    intro done S hInv hp hM
    have hInv' : Inv (done ++ T :: (todo ++ older)) := hInv
    obtain ⟨hS, hM⟩ := hM
    -- every object of T is restored by copying a pointer
    have hsame : ∀ oid, verdictFor resolve (S ++ flat (done ++ T :: (todo ++ older))) T
        (todo ++ older) oid = .restore := by
      intro oid
      unfold verdictFor
      have : sameRev (S ++ flat (done ++ T :: (todo ++ older))) oid
          (lastPos oid (flat (T :: (todo ++ older)))) = true := by
        by_cases hd : oid ∈ (flat done).map (·.oid)
        · obtain ⟨x, hx, hxp⟩ := (hM oid).1 hd
          have hc : recAt (S ++ flat (done ++ T :: (todo ++ older)))
              (lastPos oid (S ++ flat (done ++ T :: (todo ++ older)))) = some x := by
            rw [recAt_lastPos, List.find?_append, hx]; rfl
          unfold sameRev
          rw [hc]
          simp only [hxp]
          simp
        · have h1 := (hM oid).2 hd
          have h2 : ∀ r ∈ flat done, r.oid ≠ oid := by
            intro r hr hro
            exact hd (List.mem_map.2 ⟨r, hr, hro⟩)
          unfold sameRev
          rw [lastPos_append_of_not_mem oid S _ h1, flat_append,
            lastPos_append_of_not_mem oid (flat done) _ h2]
          simp
      rw [this, specVerdict_same]
    have hok := (undoCall_ok_iff resolve hInv' (hp T List.mem_cons_self) hS).2
      (fun oid _ hv => by rw [hsame oid] at hv; cases hv)
    obtain ⟨x, hx⟩ := hok
    obtain ⟨S1, oids⟩ := x
    obtain ⟨N, h1, h2, h3, _, h5, h6, _⟩ := undoCall_ok resolve hInv' hS hx
    have hL : (done ++ [T]) ++ (todo ++ older) = done ++ (T :: todo ++ older) := by simp
    -- the invariant after this call
    have hM1 : MultiInv utid (flat ((done ++ [T]) ++ (todo ++ older))) (done ++ [T])
        (flat (todo ++ older)) S1 := by
      rw [hL]
      refine ⟨h3, ?_⟩
      intro oid
      by_cases hT : oid ∈ T.oids
      · refine ⟨fun _ => ?_, fun hn => ?_⟩
        · obtain ⟨r, k, hn⟩ := newestFor_isSome_of_mem hT
          have hctx := newest_ctx hInv' (hp T List.mem_cons_self) hn
          have hrec := undoRecord_ctx resolve hInv' (hp T List.mem_cons_self) hS hn
          rw [hsame oid] at hrec
          have hf := (undoLoop_spec resolve S (flat (done ++ T :: (todo ++ older))) utid
            (flat (todo ++ older)).length oid T.recs r k hn).2 _ hrec
          refine ⟨{ oid := oid, tid := utid, prev := lastPos oid (flat (done ++ T :: (todo ++ older))),
                    pl := Payload.back r.prev }, ?_, ?_⟩
          · rw [h1, List.find?_append, h5, hf]; rfl
          · simp only; rw [hctx.2.2.2.1]
        · exfalso; apply hn
          rw [mem_flat_oids_append]; right
          rw [flat_singleton]; exact hT
      · have hnotN : ∀ n ∈ N, n.oid ≠ oid := by
          intro n hn hno
          exact hT ((h6 oid).1 (by rw [h2]; exact List.mem_map.2 ⟨n, hn, hno⟩))
        have hnotT : ∀ r ∈ T.recs, r.oid ≠ oid := by
          intro r hr hro
          exact hT (List.mem_map.2 ⟨r, hr, hro⟩)
        refine ⟨fun hd => ?_, fun hn => ?_⟩
        · rw [mem_flat_oids_append, flat_singleton] at hd
          rcases hd with hd | hd
          · obtain ⟨x, hx, hxp⟩ := (hM oid).1 hd
            refine ⟨x, ?_, ?_⟩
            · rw [h1, List.find?_append]
              have : N.find? (fun r => r.oid = oid) = none := by
                rw [List.find?_eq_none]
                intro n hn
                simpa using hnotN n hn
              rw [this, hx]; rfl
            · rw [hxp]
              show Payload.back (lastPos oid (flat (T :: (todo ++ older)))) = _
              rw [flat_cons, lastPos_append_of_not_mem oid _ _ hnotT]
          · exact absurd hd hT
        · rw [mem_flat_oids_append, not_or] at hn
          intro s hs
          rw [h1] at hs
          rcases List.mem_append.1 hs with hs | hs
          · exact hnotN s hs
          · exact (hM oid).2 hn.1 s hs
    have hInv1 : Inv ((done ++ [T]) ++ (todo ++ older)) := by rw [hL]; exact hInv
    obtain ⟨S', hS', hM'⟩ := ih (done ++ [T]) S1 hInv1
      (fun t ht => hp t (List.mem_cons_of_mem _ ht)) hM1
    rw [hL] at hS' hM'
    refine ⟨S', ?_, ?_⟩
    · show undoAll resolve (done ++ T :: (todo ++ older)) utid (T.tid :: todo.map (·.tid)) S = _
      simp only [undoAll]
      rw [hx]
      exact hS'
    · have : done ++ [T] ++ todo = done ++ T :: todo := by simp
      rw [this] at hM'
      exact hM'

/-- undoing the k newest transactions in one undo transaction, newest first, always succeeds and
    gives every object the state it had before the oldest of them -/
theorem undo_multi_newest_first (resolve : Resolver) (Ts older : Log) (hInv : Inv (Ts ++ older))
    (hp : ∀ t ∈ Ts, t.packed = false) (utid : Nat) :
    ∃ U, undoTxn resolve (Ts ++ older) utid (Ts.map (·.tid)) = (U :: (Ts ++ older), none) ∧
      ∀ oid, dataOf (flat (U :: (Ts ++ older))) oid = dataOf (flat older) oid := by
  have hM0 : MultiInv utid (flat ([] ++ (Ts ++ older))) [] (flat (Ts ++ older)) [] := by
    refine ⟨stagedOK_nil _ _, fun oid => ⟨fun h => ?_, fun _ s hs => ?_⟩⟩
    · simp [flat] at h
    · simp at hs
  obtain ⟨S', hS', hSt, hM⟩ := undoAll_newest_first resolve older utid Ts [] [] hInv hp hM0
  simp only [List.nil_append] at hS' hSt hM
  refine ⟨{ tid := utid, packed := false, recs := S' }, ?_, ?_⟩
  · unfold undoTxn; rw [hS']
  · intro oid
    rw [flat_cons]
    simp only
    by_cases ho : oid ∈ (flat Ts).map (·.oid)
    · obtain ⟨x, hx, hxp⟩ := (hM oid).1 ho
      rw [dataOf_find (staged_back_le hSt) (Inv_BackOK hInv) hx, hxp]
      simp only
      rw [flat_append, dataAt, loadBack_append_le _ _ _ (lastPos_le oid (flat older)), dataOf_eq]
    · have h1 := (hM oid).2 ho
      have h2 : ∀ r ∈ flat Ts, r.oid ≠ oid := by
        intro r hr hro
        exact ho (List.mem_map.2 ⟨r, hr, hro⟩)
      rw [dataOf_append_of_not_mem oid _ _ h1, flat_append, dataOf_append_of_not_mem oid _ _ h2]

end Proofs.Undo
