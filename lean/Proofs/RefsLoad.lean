/-
  C14 helper lemmas, part 4: the reading side (`ObjectReader._persistent_load`, `Connection.get`,
  `Connection.setstate` with the per-connection caches) of `ZodbModel/Refs.lean`.
  Core Lean only.
-/
import Proofs.RefsWriter
namespace Proofs.Refs
open ZodbModel ZodbModel.Refs ZodbModel.Refs.Tree

/-! ### invariants of a loading session -/

/-- the caches and the in-memory objects agree: a cache entry leads to an object with that database
    and oid, and every object is the cache entry of its (database, oid) -/
def CacheInv (ls : LState) : Prop :=
  (∀ k h, lookup k ls.cache = some h → ∃ x : LObj, ls.heap[h]? = some x ∧ (x.db, x.oid) = k) ∧
  (∀ (h : Nat) (x : LObj), ls.heap[h]? = some x → lookup (x.db, x.oid) ls.cache = some h)

/-- objects stay what they are (only their state is ever set) -/
def LExt (ls ls' : LState) : Prop :=
  ∀ (h : Nat) (x : LObj), ls.heap[h]? = some x →
    ∃ x' : LObj, ls'.heap[h]? = some x' ∧ x'.db = x.db ∧ x'.oid = x.oid ∧ x'.cls = x.cls ∧
      x'.broken = x.broken

/-- `lf` is what reference `tk`, met by the reader of database `db`'s connection, has to become:
    the in-memory object with the (normalised) oid of the reference in the right database, or a
    weak reference carrying that oid -/
def LeafFor (db : Db) (ls : LState) (tk : Tok) (lf : LLeaf) : Prop :=
  match tk with
  | .tup o _ => ∃ (b : Oid) (h : Nat) (x : LObj), o.norm = .ok b ∧ lf = .obj h ∧ ls.heap[h]? = some x ∧ x.db = db ∧ x.oid = b
  | .oid o => ∃ (b : Oid) (h : Nat) (x : LObj), o.norm = .ok b ∧ lf = .obj h ∧ ls.heap[h]? = some x ∧ x.db = db ∧ x.oid = b
  | .multi d o _ => ∃ (b : Oid) (h : Nat) (x : LObj), o.norm = .ok b ∧ lf = .obj h ∧ ls.heap[h]? = some x ∧ x.db = d ∧ x.oid = b
  | .multiOid d o => ∃ (b : Oid) (h : Nat) (x : LObj), o.norm = .ok b ∧ lf = .obj h ∧ ls.heap[h]? = some x ∧ x.db = d ∧ x.oid = b
  | .weak o d => ∃ b, o.norm = .ok b ∧ lf = .wref d b
  | .legacyWeak o => ∃ b, o.norm = .ok b ∧ lf = .wref none b

/-- every activated object carries the state of its record, reference by reference -/
def StateInv (lenv : LEnv) (ls : LState) : Prop :=
  ∀ (h : Nat) (x : LObj) (t : Tree LLeaf), ls.heap[h]? = some x → x.state = some t →
    ∃ r, lookup (x.db, x.oid) lenv.store = some r ∧ Tree.Rel (LeafFor x.db ls) r.state t

/-- the class cached in a reference is the class of the record it refers to (what a database whose
    objects never change class satisfies; `Proofs.Refs.commit_cls` shows a commit writes such
    records) -/
def ClsOK (store : Store) : Prop :=
  ∀ k r, lookup k store = some r → ∀ tk ∈ r.state.leaves,
    (∀ o c b r', tk = .tup o c → o.norm = .ok b → lookup (k.1, b) store = some r' → r'.cls = c) ∧
    (∀ d o c b r', tk = .multi d o c → o.norm = .ok b → lookup (d, b) store = some r' → r'.cls = c)

/-- every in-memory object has the class of its record (a placeholder iff that class is missing) -/
def ClsInv (lenv : LEnv) (ls : LState) : Prop :=
  ∀ (h : Nat) (x : LObj) (r : Record), ls.heap[h]? = some x → lookup (x.db, x.oid) lenv.store = some r →
    x.cls = r.cls ∧ x.broken = lenv.missing.contains r.cls

/-! ### basic facts -/

/-- old objects are untouched -/
def Keep (ls ls' : LState) : Prop := ∀ (h : Nat) (x : LObj), ls.heap[h]? = some x → ls'.heap[h]? = some x

/-- objects that did not exist before are ghosts -/
def NewGhosts (ls ls' : LState) : Prop :=
  ∀ (h : Nat) (x : LObj), ls'.heap[h]? = some x → ls.heap[h]? = none → x.state = none

theorem keep_refl (ls : LState) : Keep ls ls := fun _ _ h => h
theorem keep_trans {a b c : LState} (h1 : Keep a b) (h2 : Keep b c) : Keep a c :=
  fun h x e => h2 h x (h1 h x e)
theorem newGhosts_refl (ls : LState) : NewGhosts ls ls := fun h x e e' => by rw [e] at e'; cases e'
theorem newGhosts_trans {a b c : LState} (k2 : Keep b c) (n1 : NewGhosts a b) (n2 : NewGhosts b c) :
    NewGhosts a c := by
  intro h x e e'
  cases hb : b.heap[h]? with
  | none => exact n2 h x e hb
  | some y =>
    have := k2 h y hb
    rw [e] at this; cases this
    exact n1 h x hb e'

theorem lext_of_keep {ls ls' : LState} (h : Keep ls ls') : LExt ls ls' :=
  fun i x e => ⟨x, h i x e, rfl, rfl, rfl, rfl⟩

theorem lext_refl (ls : LState) : LExt ls ls := lext_of_keep (keep_refl ls)

theorem lext_trans {a b c : LState} (h1 : LExt a b) (h2 : LExt b c) : LExt a c := by
  intro h x e
  obtain ⟨x1, e1, a1, a2, a3, a4⟩ := h1 h x e
  obtain ⟨x2, e2, b1, b2, b3, b4⟩ := h2 h x1 e1
  exact ⟨x2, e2, b1.trans a1, b2.trans a2, b3.trans a3, b4.trans a4⟩

theorem leafFor_mono {db : Db} {ls ls' : LState} {tk : Tok} {lf : LLeaf} (he : LExt ls ls')
    (h : LeafFor db ls tk lf) : LeafFor db ls' tk lf := by
  cases tk with
  | tup o c =>
    obtain ⟨b, h', x, h1, h2, h3, h4, h5⟩ := h
    obtain ⟨x', e', a1, a2, _, _⟩ := he h' x h3
    exact ⟨b, h', x', h1, h2, e', a1.trans h4, a2.trans h5⟩
  | oid o =>
    obtain ⟨b, h', x, h1, h2, h3, h4, h5⟩ := h
    obtain ⟨x', e', a1, a2, _, _⟩ := he h' x h3
    exact ⟨b, h', x', h1, h2, e', a1.trans h4, a2.trans h5⟩
  | multi d o c =>
    obtain ⟨b, h', x, h1, h2, h3, h4, h5⟩ := h
    obtain ⟨x', e', a1, a2, _, _⟩ := he h' x h3
    exact ⟨b, h', x', h1, h2, e', a1.trans h4, a2.trans h5⟩
  | multiOid d o =>
    obtain ⟨b, h', x, h1, h2, h3, h4, h5⟩ := h
    obtain ⟨x', e', a1, a2, _, _⟩ := he h' x h3
    exact ⟨b, h', x', h1, h2, e', a1.trans h4, a2.trans h5⟩
  | weak o d => exact h
  | legacyWeak o => exact h

theorem cacheInv_init : CacheInv LState.init :=
  ⟨by intro k h e; simp [LState.init, lookup] at e, by intro h x e; simp [LState.init] at e⟩

theorem stateInv_init (lenv : LEnv) : StateInv lenv LState.init := by
  intro h x t e; simp [LState.init] at e

theorem clsInv_init (lenv : LEnv) : ClsInv lenv LState.init := by
  intro h x r e; simp [LState.init] at e

/-- one in-memory object per (database, oid) -/
theorem one_object_per_oid {ls : LState} (hi : CacheInv ls) {h1 h2 : Nat} {x1 x2 : LObj}
    (e1 : ls.heap[h1]? = some x1) (e2 : ls.heap[h2]? = some x2) (hd : x1.db = x2.db)
    (ho : x1.oid = x2.oid) : h1 = h2 := by
  have a := hi.2 h1 x1 e1
  have b := hi.2 h2 x2 e2
  rw [hd, ho, b] at a
  exact (Option.some.inj a).symm

theorem stateInv_of_keep {lenv : LEnv} {ls ls' : LState} (hs : StateInv lenv ls) (hk : Keep ls ls')
    (hn : NewGhosts ls ls') : StateInv lenv ls' := by
  intro h x t e est
  cases hb : ls.heap[h]? with
  | none => rw [hn h x e hb] at est; cases est
  | some y =>
    have := hk h y hb
    rw [e] at this; cases this
    obtain ⟨r, hr, rel⟩ := hs h x t hb est
    exact ⟨r, hr, Rel.imp (fun _ _ => leafFor_mono (lext_of_keep hk)) rel⟩

/-! ### making a ghost -/

/-- the ghost `newGhost` appends -/
def ghostOf (db : Db) (oid : Oid) (c : Cls) (lenv : LEnv) : LObj :=
  { db := db, oid := oid, cls := c, broken := lenv.missing.contains c, state := none }

theorem newGhost_heap (ls : LState) (db : Db) (oid : Oid) (c : Cls) (lenv : LEnv) :
    (newGhost ls db oid c lenv).2.heap = ls.heap ++ [ghostOf db oid c lenv] := rfl

theorem newGhost_cache (ls : LState) (db : Db) (oid : Oid) (c : Cls) (lenv : LEnv) :
    (newGhost ls db oid c lenv).2.cache = ((db, oid), ls.heap.length) :: ls.cache := rfl

theorem newGhost_fst (ls : LState) (db : Db) (oid : Oid) (c : Cls) (lenv : LEnv) :
    (newGhost ls db oid c lenv).1 = ls.heap.length := rfl

theorem newGhost_spec {ls : LState} {db : Db} {oid : Oid} {c : Cls} {lenv : LEnv} (hi : CacheInv ls)
    (hm : lookup (db, oid) ls.cache = none) :
    CacheInv (newGhost ls db oid c lenv).2 ∧ Keep ls (newGhost ls db oid c lenv).2 ∧
    NewGhosts ls (newGhost ls db oid c lenv).2 ∧
    (newGhost ls db oid c lenv).2.heap[(newGhost ls db oid c lenv).1]? = some (ghostOf db oid c lenv) ∧
    ∀ (h : Nat) (y : LObj), (newGhost ls db oid c lenv).2.heap[h]? = some y → ls.heap[h]? = none →
      y = ghostOf db oid c lenv := by
  have hkeep : Keep ls (newGhost ls db oid c lenv).2 := by
    intro h x e
    obtain ⟨hlt, _⟩ := List.getElem?_eq_some_iff.1 e
    rw [newGhost_heap, List.getElem?_append_left hlt]; exact e
  have hnew : ∀ (h : Nat) (y : LObj), (newGhost ls db oid c lenv).2.heap[h]? = some y →
      ls.heap[h]? = none → h = ls.heap.length ∧ y = ghostOf db oid c lenv := by
    intro h y e e'
    have hge := List.getElem?_eq_none_iff.1 e'
    rw [newGhost_heap, List.getElem?_append_right hge] at e
    cases hk : h - ls.heap.length with
    | zero =>
      rw [hk] at e
      simp only [List.getElem?_cons_zero, Option.some.injEq] at e
      exact ⟨by omega, e.symm⟩
    | succ k => rw [hk] at e; simp at e
  have hself : (newGhost ls db oid c lenv).2.heap[ls.heap.length]? = some (ghostOf db oid c lenv) := by
    rw [newGhost_heap]; exact List.getElem?_concat_length
  refine ⟨⟨?_, ?_⟩, hkeep, ?_, ?_, ?_⟩
  · intro k h e
    rw [newGhost_cache, lookup_cons] at e
    split at e
    · rename_i hk
      cases e
      exact ⟨_, hself, hk.symm⟩
    · obtain ⟨x, ex, hx⟩ := hi.1 k h e
      exact ⟨x, hkeep h x ex, hx⟩
  · intro h x e
    rw [newGhost_cache, lookup_cons]
    cases hb : ls.heap[h]? with
    | none =>
      obtain ⟨rfl, rfl⟩ := hnew h x e hb
      simp [ghostOf]
    | some y =>
      have := hkeep h y hb
      rw [e] at this; cases this
      have hc := hi.2 h x hb
      split
      · rename_i hk
        rw [hk, hm] at hc; cases hc
      · exact hc
  · intro h x e e'
    rw [(hnew h x e e').2]; rfl
  · rw [newGhost_fst]; exact hself
  · intro h y e e'
    exact (hnew h y e e').2

/-! ### `Connection.get`, `load_persistent`, `load_oid`, `_persistent_load` -/

/-- what every object-yielding loader guarantees -/
def Loaded (ls ls' : LState) (db : Db) (oid : Oid) (h : Nat) : Prop :=
  CacheInv ls' ∧ Keep ls ls' ∧ NewGhosts ls ls' ∧
  ∃ x : LObj, ls'.heap[h]? = some x ∧ x.db = db ∧ x.oid = oid

theorem connGet_spec {lenv : LEnv} {ls ls' : LState} {db : Db} {oid : Oid} {h : Nat}
    (hi : CacheInv ls) (hg : connGet lenv ls db oid = .ok (h, ls')) : Loaded ls ls' db oid h := by
  unfold connGet at hg
  cases hc : lookup (db, oid) ls.cache with
  | some h' =>
    simp only [hc, Except.ok.injEq, Prod.mk.injEq] at hg
    obtain ⟨rfl, rfl⟩ := hg
    obtain ⟨x, ex, hx⟩ := hi.1 _ _ hc
    simp only [Prod.mk.injEq] at hx
    exact ⟨hi, keep_refl _, newGhosts_refl _, x, ex, hx.1, hx.2⟩
  | none =>
    simp only [hc] at hg
    cases hs : lookup (db, oid) lenv.store with
    | none => simp [hs] at hg
    | some r =>
      simp only [hs, Except.ok.injEq] at hg
      obtain ⟨a, b, c, ex, _⟩ := newGhost_spec (c := r.cls) (lenv := lenv) hi hc
      rw [hg] at a b c ex
      exact ⟨a, b, c, _, ex, rfl, rfl⟩

theorem loadPersistent_spec {lenv : LEnv} {ls ls' : LState} {db : Db} {o : OidTok} {c : Cls} {h : Nat}
    (hi : CacheInv ls) (hg : loadPersistent lenv ls db o c = .ok (h, ls')) :
    ∃ b, o.norm = .ok b ∧ Loaded ls ls' db b h := by
  unfold loadPersistent at hg
  cases hn : o.norm with
  | error e => simp [hn] at hg
  | ok b =>
    refine ⟨b, rfl, ?_⟩
    simp only [hn] at hg
    cases hc : lookup (db, b) ls.cache with
    | some h' =>
      simp only [hc, Except.ok.injEq, Prod.mk.injEq] at hg
      obtain ⟨rfl, rfl⟩ := hg
      obtain ⟨x, ex, hx⟩ := hi.1 _ _ hc
      simp only [Prod.mk.injEq] at hx
      exact ⟨hi, keep_refl _, newGhosts_refl _, x, ex, hx.1, hx.2⟩
    | none =>
      simp only [hc, Except.ok.injEq] at hg
      obtain ⟨a, b', c', ex, _⟩ := newGhost_spec (c := c) (lenv := lenv) hi hc
      rw [hg] at a b' c' ex
      exact ⟨a, b', c', _, ex, rfl, rfl⟩

theorem loadOid_spec {lenv : LEnv} {ls ls' : LState} {db : Db} {o : OidTok} {h : Nat}
    (hi : CacheInv ls) (hg : loadOid lenv ls db o = .ok (h, ls')) :
    ∃ b, o.norm = .ok b ∧ Loaded ls ls' db b h := by
  unfold loadOid at hg
  cases hn : o.norm with
  | error e => simp [hn] at hg
  | ok b =>
    simp only [hn] at hg
    exact ⟨b, rfl, connGet_spec hi hg⟩

theorem persistentLoad_spec {lenv : LEnv} {db : Db} {ls ls' : LState} {tk : Tok} {lf : LLeaf}
    (hi : CacheInv ls) (hp : persistentLoad lenv db ls tk = .ok (lf, ls')) :
    CacheInv ls' ∧ Keep ls ls' ∧ NewGhosts ls ls' ∧ LeafFor db ls' tk lf := by
  cases tk with
  | tup o c =>
    simp only [persistentLoad] at hp
    cases hl : loadPersistent lenv ls db o c with
    | error e => simp [hl] at hp
    | ok q =>
      obtain ⟨h, ls1⟩ := q
      simp only [hl, Except.ok.injEq, Prod.mk.injEq] at hp
      obtain ⟨rfl, rfl⟩ := hp
      obtain ⟨b, hb, a1, a2, a3, x, ex, h1, h2⟩ := loadPersistent_spec hi hl
      exact ⟨a1, a2, a3, b, h, x, hb, rfl, ex, h1, h2⟩
  | oid o =>
    simp only [persistentLoad] at hp
    cases hl : loadOid lenv ls db o with
    | error e => simp [hl] at hp
    | ok q =>
      obtain ⟨h, ls1⟩ := q
      simp only [hl, Except.ok.injEq, Prod.mk.injEq] at hp
      obtain ⟨rfl, rfl⟩ := hp
      obtain ⟨b, hb, a1, a2, a3, x, ex, h1, h2⟩ := loadOid_spec hi hl
      exact ⟨a1, a2, a3, b, h, x, hb, rfl, ex, h1, h2⟩
  | weak o d =>
    simp only [persistentLoad] at hp
    cases hn : o.norm with
    | error e => simp [hn] at hp
    | ok b =>
      simp only [hn, Except.ok.injEq, Prod.mk.injEq] at hp
      obtain ⟨rfl, rfl⟩ := hp
      exact ⟨hi, keep_refl _, newGhosts_refl _, b, hn, rfl⟩
  | legacyWeak o =>
    simp only [persistentLoad] at hp
    cases hn : o.norm with
    | error e => simp [hn] at hp
    | ok b =>
      simp only [hn, Except.ok.injEq, Prod.mk.injEq] at hp
      obtain ⟨rfl, rfl⟩ := hp
      exact ⟨hi, keep_refl _, newGhosts_refl _, b, hn, rfl⟩
  | multi d o c =>
    simp only [persistentLoad] at hp
    split at hp
    · simp at hp
    · cases hl : loadPersistent lenv ls d o c with
      | error e => simp [hl] at hp
      | ok q =>
        obtain ⟨h, ls1⟩ := q
        simp only [hl, Except.ok.injEq, Prod.mk.injEq] at hp
        obtain ⟨rfl, rfl⟩ := hp
        obtain ⟨b, hb, a1, a2, a3, x, ex, h1, h2⟩ := loadPersistent_spec hi hl
        exact ⟨a1, a2, a3, b, h, x, hb, rfl, ex, h1, h2⟩
  | multiOid d o =>
    simp only [persistentLoad] at hp
    split at hp
    · simp at hp
    · cases hl : loadOid lenv ls d o with
      | error e => simp [hl] at hp
      | ok q =>
        obtain ⟨h, ls1⟩ := q
        simp only [hl, Except.ok.injEq, Prod.mk.injEq] at hp
        obtain ⟨rfl, rfl⟩ := hp
        obtain ⟨b, hb, a1, a2, a3, x, ex, h1, h2⟩ := loadOid_spec hi hl
        exact ⟨a1, a2, a3, b, h, x, hb, rfl, ex, h1, h2⟩

/-! ### `Connection.setstate` -/

theorem setState_get (ls : LState) (h : Nat) (t : Tree LLeaf) (j : Nat) :
    (setState ls h t).heap[j]? =
      (ls.heap[j]?).map (fun a => if h = j then { a with state := some t } else a) := by
  simp only [setState, List.getElem?_modify]
  rfl

theorem setState_lext (ls : LState) (h : Nat) (t : Tree LLeaf) : LExt ls (setState ls h t) := by
  intro j x e
  rw [setState_get, e]
  by_cases hj : h = j
  · exact ⟨{ x with state := some t }, by simp [hj], rfl, rfl, rfl, rfl⟩
  · exact ⟨x, by simp [hj], rfl, rfl, rfl, rfl⟩

theorem setState_cacheInv {ls : LState} (hi : CacheInv ls) (h : Nat) (t : Tree LLeaf) :
    CacheInv (setState ls h t) := by
  refine ⟨?_, ?_⟩
  · intro k j e
    have e' : lookup k ls.cache = some j := e
    obtain ⟨x, ex, hx⟩ := hi.1 k j e'
    obtain ⟨x', ex', a1, a2, _, _⟩ := setState_lext ls h t j x ex
    exact ⟨x', ex', by rw [a1, a2]; exact hx⟩
  · intro j x e
    rw [setState_get] at e
    cases hb : ls.heap[j]? with
    | none => rw [hb] at e; simp at e
    | some y =>
      rw [hb] at e
      simp only [Option.map_some, Option.some.injEq] at e
      have hc := hi.2 j y hb
      show lookup (x.db, x.oid) ls.cache = some j
      by_cases hj : h = j
      · simp only [hj, if_true] at e; rw [← e]; exact hc
      · simp only [hj, if_false] at e; rw [← e]; exact hc

/-- the traversal of one state pickle -/
theorem traverse_persistentLoad {lenv : LEnv} {db : Db} {ls ls' : LState} {t : Tree Tok}
    {t' : Tree LLeaf} (hi : CacheInv ls) (hs : StateInv lenv ls)
    (ht : traverse (persistentLoad lenv db) ls t = .ok (t', ls')) :
    (CacheInv ls' ∧ StateInv lenv ls') ∧ LExt ls ls' ∧ Tree.Rel (LeafFor db ls') t t' := by
  refine traverse_rel (f := persistentLoad lenv db) (fun s => CacheInv s ∧ StateInv lenv s) LExt
    (fun s tk lf => LeafFor db s tk lf) lext_refl (fun _ _ _ => lext_trans)
    (fun _ _ _ _ he h => leafFor_mono he h) ?_ ⟨hi, hs⟩ ht
  intro s tk lf s' ⟨hi', hs'⟩ hp
  obtain ⟨a1, a2, a3, a4⟩ := persistentLoad_spec hi' hp
  exact ⟨⟨a1, stateInv_of_keep hs' a2 a3⟩, lext_of_keep a2, a4⟩

theorem connSetstate_spec {lenv : LEnv} {ls ls' : LState} {h : Nat} (hi : CacheInv ls)
    (hs : StateInv lenv ls) (hc : connSetstate lenv ls h = .ok ls') :
    CacheInv ls' ∧ StateInv lenv ls' ∧ LExt ls ls' := by
  unfold connSetstate at hc
  cases hx : ls.heap[h]? with
  | none => simp [hx] at hc
  | some x =>
    simp only [hx] at hc
    cases hr : lookup (x.db, x.oid) lenv.store with
    | none => simp [hr] at hc
    | some r =>
      simp only [hr] at hc
      cases ht : traverse (persistentLoad lenv x.db) ls r.state with
      | error e => simp [ht] at hc
      | ok q =>
        obtain ⟨t, ls1⟩ := q
        simp only [ht, Except.ok.injEq] at hc
        subst hc
        obtain ⟨⟨i1, s1⟩, e1, rel⟩ := traverse_persistentLoad hi hs ht
        have e2 := setState_lext ls1 h t
        refine ⟨setState_cacheInv i1 h t, ?_, lext_trans e1 e2⟩
        intro j y u ey eu
        rw [setState_get] at ey
        cases hb : ls1.heap[j]? with
        | none => rw [hb] at ey; simp at ey
        | some z =>
          rw [hb] at ey
          simp only [Option.map_some, Option.some.injEq] at ey
          by_cases hj : h = j
          · simp only [hj, if_true] at ey
            subst ey
            simp only at eu
            cases eu
            subst hj
            obtain ⟨x1, ex1, a1, a2, _, _⟩ := e1 h x hx
            rw [hb] at ex1; cases ex1
            refine ⟨r, by simp only; rw [a1, a2]; exact hr, ?_⟩
            simp only
            rw [a1]
            exact Rel.imp (fun _ _ => leafFor_mono e2) rel
          · simp only [hj, if_false] at ey
            subst ey
            obtain ⟨r', hr', rel'⟩ := s1 j z u hb eu
            exact ⟨r', hr', Rel.imp (fun _ _ => leafFor_mono e2) rel'⟩

/-! ### whole sessions -/

theorem lstep_inv {lenv : LEnv} {ls : LState} {op : LOp} (hi : CacheInv ls) (hs : StateInv lenv ls) :
    CacheInv (lstep lenv ls op) ∧ StateInv lenv (lstep lenv ls op) ∧ LExt ls (lstep lenv ls op) := by
  cases op with
  | get db oid =>
    simp only [lstep]
    cases hg : connGet lenv ls db oid with
    | error e => exact ⟨hi, hs, lext_refl _⟩
    | ok q =>
      obtain ⟨h, ls'⟩ := q
      obtain ⟨a1, a2, a3, _⟩ := connGet_spec hi hg
      exact ⟨a1, stateInv_of_keep hs a2 a3, lext_of_keep a2⟩
  | activate h =>
    simp only [lstep]
    cases hg : connSetstate lenv ls h with
    | error e => exact ⟨hi, hs, lext_refl _⟩
    | ok ls' => exact connSetstate_spec hi hs hg

theorem lfold_inv {lenv : LEnv} (ops : List LOp) {ls : LState} (hi : CacheInv ls)
    (hs : StateInv lenv ls) :
    CacheInv (ops.foldl (lstep lenv) ls) ∧ StateInv lenv (ops.foldl (lstep lenv) ls) := by
  induction ops generalizing ls with
  | nil => exact ⟨hi, hs⟩
  | cons op ops ih =>
    obtain ⟨a, b, _⟩ := lstep_inv (op := op) hi hs
    exact ih a b

theorem lrun_inv (lenv : LEnv) (ops : List LOp) :
    CacheInv (lrun lenv ops) ∧ StateInv lenv (lrun lenv ops) :=
  lfold_inv ops cacheInv_init (stateInv_init lenv)

/-! ### classes -/

/-- what `ClsOK` says about one token met by the reader of database `db` -/
def TokCls (lenv : LEnv) (db : Db) : Tok → Prop
  | .tup o c => ∀ b r', o.norm = .ok b → lookup (db, b) lenv.store = some r' → r'.cls = c
  | .multi d o c => ∀ b r', o.norm = .ok b → lookup (d, b) lenv.store = some r' → r'.cls = c
  | _ => True

theorem tokCls_of_clsOK {lenv : LEnv} (hc : ClsOK lenv.store) {k : Db × Oid} {r : Record}
    (hr : lookup k lenv.store = some r) {tk : Tok} (hm : tk ∈ r.state.leaves) : TokCls lenv k.1 tk := by
  obtain ⟨h1, h2⟩ := hc k r hr tk hm
  cases tk with
  | tup o c => exact fun b r' hb hl => h1 o c b r' rfl hb hl
  | multi d o c => exact fun b r' hb hl => h2 d o c b r' rfl hb hl
  | oid o => trivial
  | weak o d => trivial
  | multiOid d o => trivial
  | legacyWeak o => trivial

theorem newGhost_cls {lenv : LEnv} {ls : LState} {db : Db} {oid : Oid} {c : Cls} (hi : CacheInv ls)
    (hc : ClsInv lenv ls) (hm : lookup (db, oid) ls.cache = none)
    (hcls : ∀ r, lookup (db, oid) lenv.store = some r → r.cls = c) :
    ClsInv lenv (newGhost ls db oid c lenv).2 := by
  obtain ⟨_, hk, _, _, hnew⟩ := newGhost_spec (c := c) (lenv := lenv) hi hm
  intro h x r e hr
  cases hb : ls.heap[h]? with
  | some y =>
    have := hk h y hb
    rw [e] at this; cases this
    exact hc h x r hb hr
  | none =>
    have := hnew h x e hb
    subst this
    have := hcls r hr
    exact ⟨this.symm, by simp [ghostOf, this]⟩

theorem connGet_cls {lenv : LEnv} {ls ls' : LState} {db : Db} {oid : Oid} {h : Nat}
    (hi : CacheInv ls) (hc : ClsInv lenv ls) (hg : connGet lenv ls db oid = .ok (h, ls')) :
    ClsInv lenv ls' := by
  unfold connGet at hg
  cases hl : lookup (db, oid) ls.cache with
  | some h' =>
    simp only [hl, Except.ok.injEq, Prod.mk.injEq] at hg
    rw [← hg.2]; exact hc
  | none =>
    simp only [hl] at hg
    cases hs : lookup (db, oid) lenv.store with
    | none => simp [hs] at hg
    | some r =>
      simp only [hs, Except.ok.injEq] at hg
      have := newGhost_cls (c := r.cls) hi hc hl (fun r' hr' => by rw [hs] at hr'; cases hr'; rfl)
      rw [hg] at this
      exact this

theorem loadPersistent_cls {lenv : LEnv} {ls ls' : LState} {db : Db} {o : OidTok} {c : Cls} {h : Nat}
    (hi : CacheInv ls) (hc : ClsInv lenv ls)
    (hcls : ∀ b r', o.norm = .ok b → lookup (db, b) lenv.store = some r' → r'.cls = c)
    (hg : loadPersistent lenv ls db o c = .ok (h, ls')) : ClsInv lenv ls' := by
  unfold loadPersistent at hg
  cases hn : o.norm with
  | error e => simp [hn] at hg
  | ok b =>
    simp only [hn] at hg
    cases hl : lookup (db, b) ls.cache with
    | some h' =>
      simp only [hl, Except.ok.injEq, Prod.mk.injEq] at hg
      rw [← hg.2]; exact hc
    | none =>
      simp only [hl, Except.ok.injEq] at hg
      have := newGhost_cls (c := c) hi hc hl (fun r' hr' => hcls b r' hn hr')
      rw [hg] at this
      exact this

theorem persistentLoad_cls {lenv : LEnv} {db : Db} {ls ls' : LState} {tk : Tok} {lf : LLeaf}
    (hi : CacheInv ls) (hc : ClsInv lenv ls) (ht : TokCls lenv db tk)
    (hp : persistentLoad lenv db ls tk = .ok (lf, ls')) : ClsInv lenv ls' := by
  cases tk with
  | tup o c =>
    simp only [persistentLoad] at hp
    cases hl : loadPersistent lenv ls db o c with
    | error e => simp [hl] at hp
    | ok q =>
      obtain ⟨h, ls1⟩ := q
      simp only [hl, Except.ok.injEq, Prod.mk.injEq] at hp
      rw [← hp.2]
      exact loadPersistent_cls hi hc ht hl
  | oid o =>
    simp only [persistentLoad, loadOid] at hp
    cases hn : o.norm with
    | error e => simp [hn] at hp
    | ok b =>
      simp only [hn] at hp
      cases hl : connGet lenv ls db b with
      | error e => simp [hl] at hp
      | ok q =>
        obtain ⟨h, ls1⟩ := q
        simp only [hl, Except.ok.injEq, Prod.mk.injEq] at hp
        rw [← hp.2]
        exact connGet_cls hi hc hl
  | weak o d =>
    simp only [persistentLoad] at hp
    cases hn : o.norm with
    | error e => simp [hn] at hp
    | ok b =>
      simp only [hn, Except.ok.injEq, Prod.mk.injEq] at hp
      rw [← hp.2]; exact hc
  | legacyWeak o =>
    simp only [persistentLoad] at hp
    cases hn : o.norm with
    | error e => simp [hn] at hp
    | ok b =>
      simp only [hn, Except.ok.injEq, Prod.mk.injEq] at hp
      rw [← hp.2]; exact hc
  | multi d o c =>
    simp only [persistentLoad] at hp
    split at hp
    · simp at hp
    · cases hl : loadPersistent lenv ls d o c with
      | error e => simp [hl] at hp
      | ok q =>
        obtain ⟨h, ls1⟩ := q
        simp only [hl, Except.ok.injEq, Prod.mk.injEq] at hp
        rw [← hp.2]
        exact loadPersistent_cls hi hc ht hl
  | multiOid d o =>
    simp only [persistentLoad, loadOid] at hp
    split at hp
    · simp at hp
    · cases hn : o.norm with
      | error e => simp [hn] at hp
      | ok b =>
        simp only [hn] at hp
        cases hl : connGet lenv ls d b with
        | error e => simp [hl] at hp
        | ok q =>
          obtain ⟨h, ls1⟩ := q
          simp only [hl, Except.ok.injEq, Prod.mk.injEq] at hp
          rw [← hp.2]
          exact connGet_cls hi hc hl

theorem setState_clsInv {lenv : LEnv} {ls : LState} (hc : ClsInv lenv ls) (h : Nat) (t : Tree LLeaf) :
    ClsInv lenv (setState ls h t) := by
  intro j x r e hr
  rw [setState_get] at e
  cases hb : ls.heap[j]? with
  | none => rw [hb] at e; simp at e
  | some y =>
    rw [hb] at e
    simp only [Option.map_some, Option.some.injEq] at e
    by_cases hj : h = j
    · simp only [hj, if_true] at e
      subst e
      exact hc j y r hb hr
    · simp only [hj, if_false] at e
      subst e
      exact hc j y r hb hr

theorem connSetstate_cls {lenv : LEnv} {ls ls' : LState} {h : Nat} (hok : ClsOK lenv.store)
    (hi : CacheInv ls) (hc : ClsInv lenv ls) (hs : connSetstate lenv ls h = .ok ls') :
    ClsInv lenv ls' := by
  unfold connSetstate at hs
  cases hx : ls.heap[h]? with
  | none => simp [hx] at hs
  | some x =>
    simp only [hx] at hs
    cases hr : lookup (x.db, x.oid) lenv.store with
    | none => simp [hr] at hs
    | some r =>
      simp only [hr] at hs
      cases ht : traverse (persistentLoad lenv x.db) ls r.state with
      | error e => simp [ht] at hs
      | ok q =>
        obtain ⟨t, ls1⟩ := q
        simp only [ht, Except.ok.injEq] at hs
        subst hs
        have hm := traverse_leaves _ _ _ _ _ ht
        have := mapS_rel_mem (f := persistentLoad lenv x.db)
          (fun s => CacheInv s ∧ ClsInv lenv s) (fun _ _ => True) (fun _ _ _ => True)
          (TokCls lenv x.db) (fun _ => trivial) (fun _ _ _ _ _ => trivial)
          (fun _ _ _ _ _ _ => trivial)
          (fun s tk lf s' hq ⟨i, c⟩ hp =>
            ⟨⟨(persistentLoad_spec i hp).1, persistentLoad_cls i c hq hp⟩, trivial, trivial⟩)
          (fun tk htk => tokCls_of_clsOK hok (k := (x.db, x.oid)) hr htk) ⟨hi, hc⟩ hm
        exact setState_clsInv this.1.2 h t

theorem lfold_cls {lenv : LEnv} (hok : ClsOK lenv.store) (ops : List LOp) {ls : LState}
    (hi : CacheInv ls) (hs : StateInv lenv ls) (hc : ClsInv lenv ls) :
    ClsInv lenv (ops.foldl (lstep lenv) ls) := by
  induction ops generalizing ls with
  | nil => exact hc
  | cons op ops ih =>
    obtain ⟨a, b, _⟩ := lstep_inv (op := op) hi hs
    refine ih a b ?_
    cases op with
    | get db oid =>
      simp only [lstep]
      cases hg : connGet lenv ls db oid with
      | error e => exact hc
      | ok q => obtain ⟨h, ls'⟩ := q; exact connGet_cls hi hc hg
    | activate h =>
      simp only [lstep]
      cases hg : connSetstate lenv ls h with
      | error e => exact hc
      | ok ls' => exact connSetstate_cls hok hi hc hg

/-- in a database whose references cache the right classes, every in-memory object has the class
    of its record (and is a placeholder iff that class is missing) -/
theorem lrun_cls (lenv : LEnv) (hok : ClsOK lenv.store) (ops : List LOp) :
    ClsInv lenv (lrun lenv ops) :=
  lfold_cls hok ops cacheInv_init (stateInv_init lenv) (clsInv_init lenv)

end Proofs.Refs
