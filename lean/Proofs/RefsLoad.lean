/-
  C14 helper lemmas, part 4: the reading side (`ObjectReader._persistent_load`, `Connection.get`,
  `Connection.setstate` with the per-connection caches) of `ZodbModel/Refs.lean`.
  Core Lean only.
-/
import Proofs.RefsTree
namespace Proofs.Refs
open ZodbModel ZodbModel.Refs ZodbModel.Refs.Tree

/-! ### invariants of a loading session -/

/-- the caches and the in-memory objects agree: a cache entry leads to an object with that database
    and oid, and every object is the cache entry of its (database, oid) -/
def CacheInv (ls : LState) : Prop :=
  (∀ k h, lookup k ls.cache = some h → ∃ x : LObj, ls.heap[h]? = some x ∧ (x.db, x.oid) = k) ∧
  (∀ (h : Nat) (x : LObj), ls.heap[h]? = some x → lookup (x.db, x.oid) ls.cache = some h)

/-- objects stay what they are (only their state is ever set) -/
def LExt (ls ls' : LState) : Prop :=
  ∀ (h : Nat) (x : LObj), ls.heap[h]? = some x →
    ∃ x' : LObj, ls'.heap[h]? = some x' ∧ x'.db = x.db ∧ x'.oid = x.oid ∧ x'.cls = x.cls ∧
      x'.broken = x.broken

/-- `lf` is what reference `tk`, met by the reader of database `db`'s connection, has to become:
    the in-memory object with the (normalised) oid of the reference in the right database, or a
    weak reference carrying that oid -/
def LeafFor (db : Db) (ls : LState) (tk : Tok) (lf : LLeaf) : Prop :=
  match tk with
  | .tup o _ => ∃ (b : Oid) (h : Nat) (x : LObj), o.norm = .ok b ∧ lf = .obj h ∧ ls.heap[h]? = some x ∧ x.db = db ∧ x.oid = b
  | .oid o => ∃ (b : Oid) (h : Nat) (x : LObj), o.norm = .ok b ∧ lf = .obj h ∧ ls.heap[h]? = some x ∧ x.db = db ∧ x.oid = b
  | .multi d o _ => ∃ (b : Oid) (h : Nat) (x : LObj), o.norm = .ok b ∧ lf = .obj h ∧ ls.heap[h]? = some x ∧ x.db = d ∧ x.oid = b
  | .multiOid d o => ∃ (b : Oid) (h : Nat) (x : LObj), o.norm = .ok b ∧ lf = .obj h ∧ ls.heap[h]? = some x ∧ x.db = d ∧ x.oid = b
  | .weak o d => ∃ b, o.norm = .ok b ∧ lf = .wref d b
  | .legacyWeak o => ∃ b, o.norm = .ok b ∧ lf = .wref none b

/-- every activated object carries the state of its record, reference by reference -/
def StateInv (lenv : LEnv) (ls : LState) : Prop :=
  ∀ (h : Nat) (x : LObj) (t : Tree LLeaf), ls.heap[h]? = some x → x.state = some t →
    ∃ r, lookup (x.db, x.oid) lenv.store = some r ∧ Tree.Rel (LeafFor x.db ls) r.state t

/-- the class cached in a reference is the class of the record it refers to (what a database whose
    objects never change class satisfies; `Proofs.Refs.commit_cls` shows a commit writes such
    records) -/
def ClsOK (store : Store) : Prop :=
  ∀ k r, lookup k store = some r → ∀ tk ∈ r.state.leaves,
    (∀ o c b r', tk = .tup o c → o.norm = .ok b → lookup (k.1, b) store = some r' → r'.cls = c) ∧
    (∀ d o c b r', tk = .multi d o c → o.norm = .ok b → lookup (d, b) store = some r' → r'.cls = c)

/-- every in-memory object has the class of its record (a placeholder iff that class is missing) -/
def ClsInv (lenv : LEnv) (ls : LState) : Prop :=
  ∀ (h : Nat) (x : LObj) (r : Record), ls.heap[h]? = some x → lookup (x.db, x.oid) lenv.store = some r →
    x.cls = r.cls ∧ x.broken = lenv.missing.contains r.cls

end Proofs.Refs
