/-
  Connection model, part 17 (C12): what a program can read, and what a successful
  `Connection.savepoint` does: nothing that a read could notice.
-/
import Proofs.ConnRollback
namespace Proofs.Conn
open ZodbModel ZodbModel.Conn

/-- the result of reading object `i` (its payload and references, or the error) -/
def reads (s : State) (i : ObjId) : Out :=
  match (access s i).2 with
  | some e => .err e
  | none => .value ((access s i).1.objs i).val ((access s i).1.objs i).refs

theorem step_read (b : Nat) (s : State) (i : ObjId) : (step b s (.read i)).2 = reads s i := by
  simp only [step, reads]
  cases h : (access s i).2 <;> rfl

theorem reads_nonghost {s : State} {i : Nat} (h : (s.objs i).status ≠ .ghost) :
    reads s i = .value (s.objs i).val (s.objs i).refs := by
  unfold reads; rw [access_nonghost s i h]

theorem reads_ghost {s : State} {i k : Nat} {r : Rec} (hg : (s.objs i).status = .ghost)
    (hjar : (s.objs i).jar = true) (hop : s.opened = true) (hk : (s.objs i).oid = some k)
    (hr : loadRec s k = some r) : reads s i = .value r.val r.refs := by
  unfold reads access
  simp [hg, hjar, hop, hk, hr, setO]

theorem reads_ghost_none {s : State} {i k : Nat} (hg : (s.objs i).status = .ghost)
    (hjar : (s.objs i).jar = true) (hop : s.opened = true) (hk : (s.objs i).oid = some k)
    (hr : loadRec s k = none) : reads s i = .err .posKey := by
  unfold reads access
  simp [hg, hjar, hop, hk, hr]

/-- a clean cached object reads as the record the connection would load for it -/
theorem reads_clean {s : State} (h : Inv12 s) {k i : Nat} (hc : s.cache.get k = some i)
    (hnc : (s.objs i).status ≠ .changed) :
    ∃ r, loadRec s k = some r ∧ reads s i = .value r.val r.refs := by
  obtain ⟨r, hr, _, q2⟩ := h.coh k i hc
  refine ⟨r, hr, ?_⟩
  have hoid := h.str.cacheS k i hc
  cases hs : (s.objs i).status with
  | changed => exact absurd hs hnc
  | uptodate =>
    rw [reads_nonghost (by rw [hs]; simp), (q2 hs).1, (q2 hs).2]
  | ghost =>
    have hjar : (s.objs i).jar = true := by rw [h.str.jarOid, hoid]; rfl
    exact reads_ghost hs hjar h.opened hoid hr

/-! ### how oids change -/

/-- from `s` to `s'` objects keep their oid, lose it, or get a fresh one -/
def OidStep (s s' : State) : Prop :=
  (∀ i k, (s'.objs i).oid = some k → (s.objs i).oid = some k ∨ s.nextOid ≤ k) ∧ s.nextOid ≤ s'.nextOid

theorem OidStep.refl (s : State) : OidStep s s := ⟨fun _ _ h => Or.inl h, Nat.le_refl _⟩

theorem OidStep.of_eq {s s' : State} (ho : ∀ j, (s'.objs j).oid = (s.objs j).oid) (hn : s'.nextOid = s.nextOid) :
    OidStep s s' := ⟨fun i k h => Or.inl (by rw [← ho i]; exact h), by rw [hn]; exact Nat.le_refl _⟩

theorem OidStep.of_shrink {s s' : State} (h : Shrink s s') : OidStep s s' := by
  refine ⟨?_, by rw [h.nextOid]; exact Nat.le_refl _⟩
  intro i k hk
  rcases h.oid i with h1 | h1
  · left; rw [← h1]; exact hk
  · rw [h1.1] at hk; cases hk

theorem access_oidStep (s : State) (i) : OidStep s (access s i).1 := by
  apply OidStep.of_eq _ (access_nextOid s i)
  intro j
  rcases access_objs s i j with h | h
  · rw [h]
  · obtain ⟨rfl, _, _, h4, _⟩ := h; exact h4

theorem markChanged_oid (s : State) (i j) : ((markChanged s i).objs j).oid = (s.objs j).oid ∧
    (markChanged s i).nextOid = s.nextOid := by
  unfold markChanged
  dsimp only
  have hj := join_fields (setO s i { s.objs i with status := .changed })
  repeat' split
  all_goals first
    | exact ⟨rfl, rfl⟩
    | (constructor
       · first
           | (show ((join _).objs j).oid = _; rw [hj.1]; simp only [setO]; split <;> simp_all)
           | (simp only [setO]; split <;> simp_all)
       · first | (show (join _).nextOid = _; rw [hj.2.2.2.1]; rfl) | rfl)

theorem mutate_oidStep (s : State) (i f) : OidStep s (mutate s i f).1 := by
  have ha := access_oidStep s i
  have hm := fun j => markChanged_oid (access s i).1 i j
  have hstep : OidStep (access s i).1 (mutate s i f).1 ∨ (mutate s i f).1 = s := by
    unfold mutate
    dsimp only
    repeat' split
    all_goals first
      | (right; rfl)
      | (left; exact OidStep.refl _)
      | (left
         apply OidStep.of_eq
         · intro j
           simp only [setO]
           split
           · subst_vars; exact (hm _).1
           · exact (hm j).1
         · exact (hm i).2)
  rcases hstep with h | h
  · exact ⟨fun j k hk => by
      rcases h.1 j k hk with h1 | h1
      · exact ha.1 j k h1
      · right; have := ha.2; omega, Nat.le_trans ha.2 h.2⟩
  · rw [h]; exact OidStep.refl s

theorem opAdd_oidStep (s : State) (i) : OidStep s (opAdd s i).1 := by
  unfold opAdd
  dsimp only
  have hj := join_fields (setO { s with nextOid := s.nextOid + 1 } i
    { s.objs i with oid := some s.nextOid, jar := true })
  repeat' split
  all_goals first
    | exact OidStep.refl s
    | (refine ⟨?_, ?_⟩
       · intro j k hk
         have hk' : ((join (setO { s with nextOid := s.nextOid + 1 } i
           { s.objs i with oid := some s.nextOid, jar := true })).objs j).oid = some k := hk
         rw [hj.1] at hk'
         simp only [setO] at hk'
         split at hk'
         · right; simp at hk'; omega
         · exact Or.inl hk'
       · show s.nextOid ≤ (join _).nextOid
         rw [hj.2.2.2.1]
         show s.nextOid ≤ s.nextOid + 1
         omega)

/-! ### a successful `Connection.savepoint` -/

structure SpOk (s m : State) : Prop where
  inv : Inv12 m
  regNil : m.registered = []
  addedNil : m.added = []
  noChanged : ∀ j, (m.objs j).status ≠ .changed
  sps : m.sps = s.sps
  ntj : m.needsToJoin = false
  shared : shared m = shared s
  begun : m.begun = s.begun
  fail : m.fail = s.fail
  staged : m.staged = s.staged
  owned : ∀ i k, (s.objs i).oid = some k → m.cache.get k = some i
  reads : ∀ i k, (s.objs i).oid = some k → reads m i = reads s i
  tmp : ∃ t', m.sp = some t' ∧ EntryWF s.committed t' t'.position t'.index t'.creating ∧
    (∀ k, t'.creating.has k = true →
      (∃ t0, s.sp = some t0 ∧ t0.creating.has k = true) ∨ s.cache.get k = none) ∧
    (∀ t0, s.sp = some t0 → t0.position ≤ t'.position ∧
      (∀ q, q < t0.position → t'.entries[q]? = t0.entries[q]?) ∧
      (∀ k, t0.creating.has k = true → t'.creating.has k = true))
  oidStep : OidStep s m

theorem ensureTmp_rel (s : State) :
    (ensureTmp s).objs = s.objs ∧ (ensureTmp s).cache = s.cache ∧ (ensureTmp s).added = s.added ∧
    (ensureTmp s).snap = s.snap ∧ (ensureTmp s).committed = s.committed ∧
    (ensureTmp s).staged = s.staged ∧ (ensureTmp s).begun = s.begun ∧ (ensureTmp s).fail = s.fail ∧
    (ensureTmp s).sps = s.sps ∧ (ensureTmp s).opened = s.opened ∧ (ensureTmp s).nextOid = s.nextOid ∧
    (ensureTmp s).lastTid = s.lastTid ∧ (ensureTmp s).log = s.log ∧
    (ensureTmp s).registered = s.registered ∧ (ensureTmp s).modified = s.modified ∧
    (∀ t0, (ensureTmp s).sp = some t0 → s.sp = some t0 ∨ (s.sp = none ∧ t0 = {})) := by
  unfold ensureTmp
  split
  · rename_i hsp
    refine ⟨rfl, rfl, rfl, rfl, rfl, rfl, rfl, rfl, rfl, rfl, rfl, rfl, rfl, rfl, rfl, ?_⟩
    intro t0 ht0
    right; exact ⟨hsp, (Option.some.inj ht0).symm⟩
  · rename_i t hsp
    refine ⟨rfl, rfl, rfl, rfl, rfl, rfl, rfl, rfl, rfl, rfl, rfl, rfl, rfl, rfl, rfl, ?_⟩
    intro t0 ht0
    left; exact ht0

theorem ensureTmp_loadRec (s : State) (k : Nat) : loadRec (ensureTmp s) k = loadRec s k := by
  unfold ensureTmp
  split
  · rename_i hsp
    unfold loadRec; rw [hsp]; rfl
  · rename_i t hsp
    unfold loadRec; rw [hsp]

theorem access_congr {s s' : State} {i : Nat} (ho : s'.objs = s.objs) (hop : s'.opened = s.opened)
    (hl : ∀ k, loadRec s' k = loadRec s k) :
    (access s' i).2 = (access s i).2 ∧ (access s' i).1.objs = (access s i).1.objs := by
  unfold access
  dsimp only
  rw [ho, hop]
  by_cases h1 : (s.objs i).status ≠ .ghost
  · rw [if_pos h1, if_pos h1]; exact ⟨rfl, ho⟩
  · rw [if_neg h1, if_neg h1]
    by_cases h2 : (!(s.objs i).jar) = true
    · rw [if_pos h2, if_pos h2]; exact ⟨rfl, ho⟩
    · rw [if_neg h2, if_neg h2]
      by_cases h3 : (!s.opened) = true
      · rw [if_pos h3, if_pos h3]; exact ⟨rfl, ho⟩
      · rw [if_neg h3, if_neg h3]
        cases h4 : (s.objs i).oid with
        | none => exact ⟨rfl, ho⟩
        | some k =>
          simp only [hl]
          cases h5 : loadRec s k with
          | none => exact ⟨rfl, ho⟩
          | some r => exact ⟨rfl, by simp only [setO, ho]⟩

theorem reads_congr {s s' : State} {i : Nat} (ho : s'.objs = s.objs) (hop : s'.opened = s.opened)
    (hl : ∀ k, loadRec s' k = loadRec s k) : reads s' i = reads s i := by
  obtain ⟨h1, h2⟩ := access_congr (i := i) ho hop hl
  unfold reads
  rw [h1, h2]

/-- **A successful `Connection.savepoint`**: the invariant, the new savepoint state, and no read can
    tell the difference. -/
theorem connSavepoint_spOk {s : State} (h : Inv12 s) (hj : s.needsToJoin = false) (bound : Nat)
    (hok : (connSavepoint bound s).2 = none) : SpOk s (connSavepoint bound s).1 := by
  have he := ensureTmp_inv12 h hj
  obtain ⟨t0, hsp0⟩ := ensureTmp_some s
  obtain ⟨g1, _⟩ := savepoint_loop he hsp0 bound
  obtain ⟨e1, e2, e3, e4, e5, e6, e7, e8, e9, e10, e11, e12, e13, e14, e15, e16⟩ := ensureTmp_rel s
  have hload := ensureTmp_loadRec s
  have hst0 := e16 t0 hsp0
  have hm : (connSavepoint bound s).1 = mergeCreating (connCommitPlain bound (ensureTmp s)).1 := by
    unfold connSavepoint at hok ⊢
    dsimp only at hok ⊢
    cases hr : (connCommitPlain bound (ensureTmp s)).2 with
    | some e => rw [hr] at hok; cases hok
    | none => rfl
  have hr : (connCommitPlain bound (ensureTmp s)).2 = none := by
    unfold connSavepoint at hok
    dsimp only at hok
    cases hr : (connCommitPlain bound (ensureTmp s)).2 with
    | some e => rw [hr] at hok; cases hok
    | none => rfl
  rw [hm]
  obtain ⟨hP, hJ, hadd, hnc, hmk⟩ := g1 hr
  have hmerge := savepoint_merge he hsp0 (by rw [(ensureTmp_fields s).2.2.1]; exact hj) hP hJ hadd hnc
  generalize (connCommitPlain bound (ensureTmp s)).1 = r at *
  generalize ensureTmp s = e at *
  obtain ⟨t, hsp, hR⟩ := hJ
  have w0 := he.tmp t0 hsp0
  have hS := hP.str
  have hctx := hP.ctx
  simp only [ctx, Prod.mk.injEq] at hctx
  obtain ⟨cx1, cx2, cx3, cx4, cx5, cx6, cx7, cx8, cx9, cx10, cx11⟩ := hctx
  have hmd : mergeCreating r = merged r t := by
    unfold mergeCreating merged; rw [hsp]
  obtain ⟨hinv, hreg, haddm, hspsm, hntjm, t', ht', hw⟩ := hmerge
  rw [hmd] at hinv hreg haddm hspsm hntjm ht' ⊢
  have ht'eq : t' = { t with creating := t.creating.update r.creating } := by
    have : some { t with creating := t.creating.update r.creating } = some t' := ht'
    exact (Option.some.inj this).symm
  have hupd : ∀ k, (t.creating.update r.creating).has k = true ↔
      (t0.creating.has k = true ∨ r.creating.has k = true) := by
    intro k
    rw [Map.has_iff, Map.get_update, hR.cr, ← Map.has_iff, ← Map.has_iff]
  -- the index after the savepoint
  have hidx : ∀ k p, t.index.get k = some p →
      (t0.index.get k = some p ∧ p < t0.position ∧ t.entries[p]? = t0.entries[p]?) ∨
      (t0.position ≤ p ∧ p < t.position ∧ ∃ i, r.cache.get k = some i ∧
        t.entries[p]? = some (k, ⟨(r.objs i).serial, (r.objs i).val, (r.objs i).refs⟩) ∧
        (r.objs i).status = .uptodate) := by
    intro k p hp
    rcases hR.idx k p hp with h1 | ⟨h1, h2, i, h3, h4, h5, _⟩
    · have := (w0.idx k p h1).1
      exact Or.inl ⟨h1, this, hR.pre p this⟩
    · exact Or.inr ⟨h1, h2, i, h3, h4, h5⟩
  have hloadM : ∀ k, loadRec (merged r t) k =
      match t.index.get k with
      | some p => t.loadAt k p
      | none => e.snap.get k := by
    intro k
    unfold loadRec merged
    simp only [cx1]
    rfl
  -- an object that is a ghost afterwards reads from the same record as before
  have hloadGhost : ∀ k i, r.cache.get k = some i → (r.objs i).status = .ghost →
      loadRec (merged r t) k = loadRec e k := by
    intro k i hc hg
    have hi : t.index.get k = t0.index.get k := by
      cases hp : t.index.get k with
      | none =>
        cases hp0 : t0.index.get k with
        | none => rfl
        | some p0 => exact absurd hp (hR.idxKeep k (by rw [hp0]; simp))
      | some p =>
        rcases hidx k p hp with ⟨h1, _, _⟩ | ⟨_, _, i', h3, _, h5⟩
        · exact h1.symm
        · rw [hc] at h3; cases h3; rw [hg] at h5; cases h5
    rw [hloadM]
    unfold loadRec
    rw [hsp0]
    simp only [hi]
    cases hp : t0.index.get k with
    | none => rfl
    | some p =>
      simp only
      have := (w0.idx k p hp).1
      unfold TmpStore.loadAt
      rw [hR.pre p this]
  -- every object of the connection is in the cache afterwards
  have howned : ∀ i k, (e.objs i).oid = some k → r.cache.get k = some i := by
    intro i k hk
    have hkn := he.str.known i k hk
    simp only [List.not_mem_nil, or_false] at hkn
    rcases hkn with h1 | h1
    · exact hP.cacheGrow k i h1
    · rcases hP.addedTracked k i h1 with h2 | h2
      · rw [hadd] at h2; cases h2
      · exact h2.2
  have hshared : shared (merged r t) = shared s := by
    simp only [shared, merged, cx2, cx3, cx4, e5, e12, e13]
  refine ⟨hinv, hreg, haddm, hnc, by rw [hspsm, e9], hntjm, hshared,
    by show r.begun = s.begun; rw [cx9, e7], by show r.fail = s.fail; rw [cx10, e8],
    by show r.staged = s.staged; rw [hR.staged, e6], ?_, ?_, ⟨t', ht', by rw [← e5]; exact hw, ?_, ?_⟩, ?_⟩
  · intro i k hk
    rw [← e1] at hk
    exact howned i k hk
  · -- reads
    intro i k hk
    rw [← e1] at hk
    have hcm : (merged r t).cache.get k = some i := howned i k hk
    have hrs : reads s i = reads e i := (reads_congr e1 e10 hload).symm
    rw [hrs]
    by_cases hg : (e.objs i).status = .ghost
    · have hgr := hP.ghostStays i hg
      obtain ⟨rr, hrr, hrd⟩ := reads_clean hinv hcm (hnc i)
      rw [hrd]
      have hle := hloadGhost k i (howned i k hk) hgr
      rw [hle] at hrr
      have hjar : (e.objs i).jar = true := by rw [he.str.jarOid, hk]; rfl
      rw [reads_ghost hg hjar he.opened hk hrr]
    · have hgr : (r.objs i).status ≠ .ghost := fun hh => hg (hP.noGhost i hh)
      have hrm : reads (merged r t) i = .value (r.objs i).val (r.objs i).refs := reads_nonghost hgr
      rw [hrm, reads_nonghost hg, (hP.objVal i hg).1, (hP.objVal i hg).2.1]
  · -- created
    intro k hk
    rw [ht'eq] at hk
    have hk' : (t.creating.update r.creating).has k = true := hk
    have hold : t0.creating.has k = true → (∃ t1, s.sp = some t1 ∧ t1.creating.has k = true) := by
      intro h1
      rcases hst0 with h2 | ⟨_, h2⟩
      · exact ⟨t0, h2, h1⟩
      · rw [h2] at h1; simp [Map.has, Map.get] at h1
    rcases (hupd k).1 hk' with h1 | h1
    · exact Or.inl (hold h1)
    · cases hc : s.cache.get k with
      | none => exact Or.inr rfl
      | some j =>
        left
        rw [← e2] at hc
        rcases hP.creatingNew k h1 with h7 | h7 | ⟨i', h7⟩ | ⟨i', h7, _, _⟩
        · rw [he.creatingNil] at h7; cases h7
        · have := he.str.fresh j k (he.str.cacheS k j hc); omega
        · have := (he.str.addedS k i' h7).2; rw [hc] at this; cases this
        · have hcn := hP.createdUncommitted he h1
          rcases he.owned k j hc with h8 | ⟨t1, ht1, h8⟩
          · exact absurd hcn h8
          · rw [hsp0] at ht1; cases ht1
            exact hold h8
  · -- against the store before
    intro t1 ht1
    have : t1 = t0 := by
      rcases hst0 with h2 | ⟨h2, _⟩
      · rw [ht1] at h2; exact Option.some.inj h2
      · rw [ht1] at h2; cases h2
    subst this
    rw [ht'eq]
    refine ⟨hR.le, hR.pre, ?_⟩
    intro k hk
    exact (hupd k).2 (Or.inl hk)
  · -- oids
    refine ⟨?_, by show s.nextOid ≤ r.nextOid; rw [← e11]; exact hP.nextOid⟩
    intro i k hk
    have hk' : (r.objs i).oid = some k := hk
    rw [← e1, ← e11]
    cases ho : (e.objs i).oid with
    | none => exact Or.inr (hP.newTracked i k ho hk').1
    | some k0 =>
      left
      have := hP.oidKeep i k0 ho
      rw [hk'] at this; exact this.symm

end Proofs.Conn
