/-
  LINK lemmas: the record-level log of the undo model (C06, `ZodbModel/Undo.lean`: positions are
  ordinals in the flattened newest-first record list) against the abstract `History` of C04.
  `absU` resolves every record's data through its back pointer, as the storage iterator does; the
  state `Undo.dataOf` answers — the notion C06's specification `verdictFor` is written in — is then
  the data `History.load` answers.  No invariant needed.  Core Lean only.
-/
import ZodbModel.Undo
import ZodbModel.History
namespace Proofs.Links
open ZodbModel

/-- records of one transaction (newest first) on top of the records `below`, pointers resolved -/
def absRecsU (below : List Undo.Rec) : List Undo.Rec → List History.Rec
  | [] => []
  | r :: rs => ⟨r.oid, Undo.recData (rs ++ below) r, Undo.dataTxn (rs ++ below) r⟩ :: absRecsU below rs

def absTxnU (older : Undo.Log) (t : Undo.Txn) : History.Txn :=
  ⟨t.tid, if t.packed then History.stPacked else History.stNormal, [], [], [],
    (absRecsU (Undo.flat older) t.recs).reverse⟩

/-- the history an undo-model log stands for, in commit order -/
def absU : Undo.Log → History.History
  | [] => []
  | t :: older => absU older ++ [absTxnU older t]

/-- the newest record of `oid` in a newest-first record list, with the records older than it -/
def firstRec (oid : Nat) : List Undo.Rec → Option (Undo.Rec × List Undo.Rec)
  | [] => none
  | r :: older => if r.oid = oid then some (r, older) else firstRec oid older

theorem lastPos_le (oid : Nat) (F : List Undo.Rec) : Undo.lastPos oid F ≤ F.length := by
  induction F with
  | nil => simp [Undo.lastPos]
  | cons r older ih =>
    simp only [Undo.lastPos, List.length_cons]
    split <;> omega

theorem load_eq_firstRec (oid : Nat) (F : List Undo.Rec) :
    Undo.load F oid = (firstRec oid F).bind (fun ro => (Undo.recData ro.2 ro.1).map fun d => (d, ro.1.tid)) := by
  unfold Undo.load
  induction F with
  | nil => rfl
  | cons r older ih =>
    simp only [Undo.lastPos, firstRec]
    by_cases h : r.oid = oid
    · simp [h, Undo.loadAt]
    · simp only [h, if_false]
      have := lastPos_le oid older
      simp only [Undo.loadAt]
      rw [if_neg (by omega)]
      exact ih

theorem firstRec_append (oid : Nat) (a b : List Undo.Rec) :
    firstRec oid (a ++ b) =
      match firstRec oid a with
      | some ro => some (ro.1, ro.2 ++ b)
      | none => firstRec oid b := by
  induction a with
  | nil => rfl
  | cons r a ih =>
    simp only [List.cons_append, firstRec]
    by_cases h : r.oid = oid
    · simp [h]
    · simp only [h, if_false]; exact ih

theorem recOf_absTxnU (older : Undo.Log) (t : Undo.Txn) (oid : Nat) :
    (absTxnU older t).recOf oid =
      (firstRec oid t.recs).map (fun ro =>
        ⟨ro.1.oid, Undo.recData (ro.2 ++ Undo.flat older) ro.1, Undo.dataTxn (ro.2 ++ Undo.flat older) ro.1⟩) := by
  unfold History.Txn.recOf absTxnU
  simp only
  rw [List.getLast?_filter, List.reverse_reverse]
  generalize Undo.flat older = below
  induction t.recs with
  | nil => rfl
  | cons r rs ih =>
    simp only [absRecsU, List.find?_cons, firstRec]
    by_cases h : r.oid = oid
    · simp [h]
    · have : (r.oid == oid) = false := by simp [h]
      simp only [this, h, if_false]
      exact ih

theorem revs_append (a b : History.History) (oid : Nat) :
    History.revs (a ++ b) oid = History.revs a oid ++ History.revs b oid := by
  simp [History.revs, List.filterMap_append]

/-- data of the newest revision, as `History.load` answers it -/
def histData (h : History.History) (oid : Nat) : Option Bytes :=
  match History.load h oid with
  | .ok (d, _) => some d
  | .error _ => none

theorem histData_eq (h : History.History) (oid : Nat) :
    histData h oid = ((History.revs h oid).getLast?).bind (·.record.data) := by
  unfold histData History.load
  cases (History.revs h oid).getLast? with
  | none => rfl
  | some r =>
    simp only [Option.bind_some]
    cases r.record.data <;> rfl

theorem dataOf_absU (L : Undo.Log) (oid : Nat) :
    Undo.dataOf (Undo.flat L) oid = histData (absU L) oid := by
  rw [histData_eq]
  unfold Undo.dataOf
  rw [load_eq_firstRec]
  induction L with
  | nil => rfl
  | cons t older ih =>
    simp only [Undo.flat, absU, revs_append, firstRec_append]
    have hr := recOf_absTxnU older t oid
    have hrev : History.revs [absTxnU older t] oid =
        ((absTxnU older t).recOf oid).toList.map (fun r => ⟨t.tid, [], [], [], r⟩) := by
      simp only [History.revs, List.filterMap_cons, List.filterMap_nil]
      cases (absTxnU older t).recOf oid <;> rfl
    rw [hrev, hr]
    cases h1 : firstRec oid t.recs with
    | some ro =>
      simp only [Option.map_some, Option.toList_some, List.map_cons, List.map_nil,
        List.getLast?_append, List.getLast?_singleton, Option.bind_some, Option.or_some,
        Option.some_or]
      cases Undo.recData (ro.2 ++ Undo.flat older) ro.1 <;> rfl
    | none =>
      simp only [Option.map_none, Option.toList_none, List.map_nil, List.append_nil]
      exact ih

end Proofs.Links
