/-
  LINK lemmas: the record-level log of the undo model (C06, `ZodbModel/Undo.lean`: positions are
  ordinals in the flattened newest-first record list) against the abstract `History` of C04.
  `absU` resolves every record's data through its back pointer, as the storage iterator does; the
  state `Undo.dataOf` answers — the notion C06's specification `verdictFor` is written in — is then
  the data `History.load` answers.  No invariant needed.  Core Lean only.
-/
import ZodbModel.Undo
import ZodbModel.History
import Proofs.Undo
import Proofs.FileStoreHistory
namespace Proofs.Links
open ZodbModel

/-- records of one transaction (newest first) on top of the records `below`, pointers resolved -/
def absRecsU (below : List Undo.Rec) : List Undo.Rec → List History.Rec
  | [] => []
  | r :: rs => ⟨r.oid, Undo.recData (rs ++ below) r, Undo.dataTxn (rs ++ below) r⟩ :: absRecsU below rs

def absTxnU (older : Undo.Log) (t : Undo.Txn) : History.Txn :=
  ⟨t.tid, if t.packed then History.stPacked else History.stNormal, [], [], [],
    (absRecsU (Undo.flat older) t.recs).reverse⟩

/-- the history an undo-model log stands for, in commit order -/
def absU : Undo.Log → History.History
  | [] => []
  | t :: older => absU older ++ [absTxnU older t]

/-- the newest record of `oid` in a newest-first record list, with the records older than it -/
def firstRec (oid : Nat) : List Undo.Rec → Option (Undo.Rec × List Undo.Rec)
  | [] => none
  | r :: older => if r.oid = oid then some (r, older) else firstRec oid older

theorem lastPos_le' (oid : Nat) (F : List Undo.Rec) : Undo.lastPos oid F ≤ F.length := by
  induction F with
  | nil => simp [Undo.lastPos]
  | cons r older ih =>
    simp only [Undo.lastPos, List.length_cons]
    split <;> omega

theorem load_eq_firstRec (oid : Nat) (F : List Undo.Rec) :
    Undo.load F oid = (firstRec oid F).bind (fun ro => (Undo.recData ro.2 ro.1).map fun d => (d, ro.1.tid)) := by
  unfold Undo.load
  induction F with
  | nil => rfl
  | cons r older ih =>
    simp only [Undo.lastPos, firstRec]
    by_cases h : r.oid = oid
    · simp [h, Undo.loadAt]
    · simp only [h, if_false]
      have := lastPos_le' oid older
      simp only [Undo.loadAt]
      rw [if_neg (by omega)]
      exact ih

theorem firstRec_append (oid : Nat) (a b : List Undo.Rec) :
    firstRec oid (a ++ b) =
      match firstRec oid a with
      | some ro => some (ro.1, ro.2 ++ b)
      | none => firstRec oid b := by
  induction a with
  | nil => rfl
  | cons r a ih =>
    simp only [List.cons_append, firstRec]
    by_cases h : r.oid = oid
    · simp [h]
    · simp only [h, if_false]; exact ih

theorem recOf_absTxnU (older : Undo.Log) (t : Undo.Txn) (oid : Nat) :
    (absTxnU older t).recOf oid =
      (firstRec oid t.recs).map (fun ro =>
        ⟨ro.1.oid, Undo.recData (ro.2 ++ Undo.flat older) ro.1, Undo.dataTxn (ro.2 ++ Undo.flat older) ro.1⟩) := by
  unfold History.Txn.recOf absTxnU
  simp only
  rw [List.getLast?_filter, List.reverse_reverse]
  generalize Undo.flat older = below
  induction t.recs with
  | nil => rfl
  | cons r rs ih =>
    simp only [absRecsU, List.find?_cons, firstRec]
    by_cases h : r.oid = oid
    · simp [h]
    · have : (r.oid == oid) = false := by simp [h]
      simp only [this, h, if_false]
      exact ih

theorem revs_append (a b : History.History) (oid : Nat) :
    History.revs (a ++ b) oid = History.revs a oid ++ History.revs b oid := by
  simp [History.revs, List.filterMap_append]

/-- data of the newest revision, as `History.load` answers it -/
def histData (h : History.History) (oid : Nat) : Option Bytes :=
  match History.load h oid with
  | .ok (d, _) => some d
  | .error _ => none

theorem histData_eq (h : History.History) (oid : Nat) :
    histData h oid = ((History.revs h oid).getLast?).bind (·.record.data) := by
  unfold histData History.load
  cases (History.revs h oid).getLast? with
  | none => rfl
  | some r =>
    simp only [Option.bind_some]
    cases r.record.data <;> rfl

theorem dataOf_absU (L : Undo.Log) (oid : Nat) :
    Undo.dataOf (Undo.flat L) oid = histData (absU L) oid := by
  rw [histData_eq]
  unfold Undo.dataOf
  rw [load_eq_firstRec]
  induction L with
  | nil => rfl
  | cons t older ih =>
    simp only [Undo.flat, absU, revs_append, firstRec_append]
    have hr := recOf_absTxnU older t oid
    have hrev : History.revs [absTxnU older t] oid =
        ((absTxnU older t).recOf oid).toList.map (fun r => ⟨t.tid, [], [], [], r⟩) := by
      simp only [History.revs, List.filterMap_cons, List.filterMap_nil]
      cases (absTxnU older t).recOf oid <;> rfl
    rw [hrev, hr]
    cases h1 : firstRec oid t.recs with
    | some ro =>
      simp only [Option.map_some, Option.toList_some, List.map_cons, List.map_nil,
        List.getLast?_append, List.getLast?_singleton, Option.bind_some, Option.or_some,
        Option.some_or]
      cases Undo.recData (ro.2 ++ Undo.flat older) ro.1 <;> rfl
    | none =>
      simp only [Option.map_none, Option.toList_none, List.map_nil, List.append_nil]
      exact ih


/-! ### the `prev` chain: `loadBefore` and `loadSerial` of the undo model are the `History` queries -/

/-- what the walks need of a log: a record carries its transaction's tid, `prev` is the index
    entry at the time of writing, tids grow.  (`Undo.Inv` minus the payload conditions, with the
    `prev` condition for EVERY transaction: pack writes `prev = 0` into the records it copies.) -/
def ChainInv : Undo.Log → Prop
  | [] => True
  | t :: older =>
    (∀ r ∈ t.recs, r.tid = t.tid ∧ r.prev = Undo.lastPos r.oid (Undo.flat older)) ∧
    (∀ t' ∈ older, t'.tid < t.tid) ∧ ChainInv older

theorem chainInv_of_inv {L : Undo.Log} (h : Undo.Inv L) (hp : ∀ t ∈ L, t.packed = false) : ChainInv L := by
  induction L with
  | nil => trivial
  | cons t older ih =>
    obtain ⟨h1, h2, _, h4⟩ := h
    refine ⟨fun r hr => ?_, h2, ih h4 (fun x hx => hp x (List.mem_cons_of_mem _ hx))⟩
    obtain ⟨a, b, _⟩ := h1 r hr
    exact ⟨a, b (hp t List.mem_cons_self)⟩

/-- revisions of `oid`, newest first: per transaction its newest record of `oid`, with all records below it -/
def revU (oid : Nat) : Undo.Log → List (Undo.Rec × List Undo.Rec)
  | [] => []
  | t :: older =>
    match firstRec oid t.recs with
    | some ro => (ro.1, ro.2 ++ Undo.flat older) :: revU oid older
    | none => revU oid older

def toRevU (rb : Undo.Rec × List Undo.Rec) : History.Rev :=
  ⟨rb.1.tid, [], [], [], ⟨rb.1.oid, Undo.recData rb.2 rb.1, Undo.dataTxn rb.2 rb.1⟩⟩

theorem firstRec_some {oid : Nat} {rs : List Undo.Rec} {r : Undo.Rec} {o : List Undo.Rec}
    (h : firstRec oid rs = some (r, o)) :
    ∃ N, rs = N ++ r :: o ∧ (∀ x ∈ N, x.oid ≠ oid) ∧ r.oid = oid := by
  induction rs with
  | nil => simp [firstRec] at h
  | cons a rs ih =>
    simp only [firstRec] at h
    by_cases ha : a.oid = oid
    · simp only [ha, if_true, Option.some.injEq, Prod.mk.injEq] at h
      obtain ⟨rfl, rfl⟩ := h
      exact ⟨[], rfl, fun x hx => absurd hx (List.not_mem_nil), ha⟩
    · simp only [ha, if_false] at h
      obtain ⟨N, h1, h2, h3⟩ := ih h
      refine ⟨a :: N, by rw [h1]; rfl, ?_, h3⟩
      intro x hx
      rcases List.mem_cons.1 hx with rfl | hx
      · exact ha
      · exact h2 x hx

theorem firstRec_none {oid : Nat} {rs : List Undo.Rec} (h : firstRec oid rs = none) :
    ∀ x ∈ rs, x.oid ≠ oid := by
  induction rs with
  | nil => intro x hx; cases hx
  | cons a rs ih =>
    simp only [firstRec] at h
    by_cases ha : a.oid = oid
    · simp [ha] at h
    · simp only [ha, if_false] at h
      intro x hx
      rcases List.mem_cons.1 hx with rfl | hx
      · exact ha
      · exact ih h x hx

theorem revU_tid {oid : Nat} {L : Undo.Log} (h : ChainInv L) :
    ∀ rb ∈ revU oid L, ∃ t ∈ L, rb.1.tid = t.tid := by
  induction L with
  | nil => intro rb hrb; cases hrb
  | cons t older ih =>
    intro rb hrb
    simp only [revU] at hrb
    cases h1 : firstRec oid t.recs with
    | none =>
      rw [h1] at hrb
      obtain ⟨t', ht', e⟩ := ih h.2.2 rb hrb
      exact ⟨t', List.mem_cons_of_mem _ ht', e⟩
    | some ro =>
      rw [h1] at hrb
      rcases List.mem_cons.1 hrb with rfl | hrb
      · obtain ⟨r, o⟩ := ro
        obtain ⟨N, hN, _, _⟩ := firstRec_some h1
        have : r ∈ t.recs := by rw [hN]; simp
        exact ⟨t, List.mem_cons_self, (h.1 r this).1⟩
      · obtain ⟨t', ht', e⟩ := ih h.2.2 rb hrb
        exact ⟨t', List.mem_cons_of_mem _ ht', e⟩

theorem revU_desc {oid : Nat} {L : Undo.Log} (h : ChainInv L) :
    Proofs.FileStoreHistory.Desc ((revU oid L).map toRevU) := by
  induction L with
  | nil => exact List.Pairwise.nil
  | cons t older ih =>
    simp only [revU]
    cases h1 : firstRec oid t.recs with
    | none => exact ih h.2.2
    | some ro =>
      simp only [List.map_cons]
      refine List.pairwise_cons.2 ⟨?_, ih h.2.2⟩
      intro x hx
      obtain ⟨rb, hrb, rfl⟩ := List.mem_map.1 hx
      obtain ⟨t', ht', e⟩ := revU_tid h.2.2 rb hrb
      obtain ⟨r, o⟩ := ro
      obtain ⟨N, hN, _, _⟩ := firstRec_some h1
      have hr : r ∈ t.recs := by rw [hN]; simp
      have := h.2.1 t' ht'
      show rb.1.tid < r.tid
      rw [e, (h.1 r hr).1]; exact this

theorem revs_absU {oid : Nat} {L : Undo.Log} (h : ChainInv L) :
    History.revs (absU L) oid = ((revU oid L).map toRevU).reverse := by
  induction L with
  | nil => rfl
  | cons t older ih =>
    simp only [absU, revs_append, ih h.2.2, revU]
    have hr := recOf_absTxnU older t oid
    have hrev : History.revs [absTxnU older t] oid =
        ((absTxnU older t).recOf oid).toList.map (fun r => ⟨t.tid, [], [], [], r⟩) := by
      simp only [History.revs, List.filterMap_cons, List.filterMap_nil]
      cases (absTxnU older t).recOf oid <;> rfl
    rw [hrev, hr]
    cases h1 : firstRec oid t.recs with
    | none => simp
    | some ro =>
      obtain ⟨r, o⟩ := ro
      obtain ⟨N, hN, _, _⟩ := firstRec_some h1
      have hmem : r ∈ t.recs := by rw [hN]; simp
      simp only [Option.map_some, Option.toList_some, List.map_cons, List.map_nil, List.reverse_cons,
        toRevU, (h.1 r hmem).1]

theorem revU_nil_iff (oid : Nat) (L : Undo.Log) :
    revU oid L = [] ↔ Undo.lastPos oid (Undo.flat L) = 0 := by
  induction L with
  | nil => simp [revU, Undo.flat, Undo.lastPos]
  | cons t older ih =>
    simp only [revU, Undo.flat]
    cases h1 : firstRec oid t.recs with
    | none =>
      rw [Proofs.Undo.lastPos_append_of_not_mem oid _ _ (firstRec_none h1)]
      exact ih
    | some ro =>
      obtain ⟨r, o⟩ := ro
      obtain ⟨N, hN, _, hro⟩ := firstRec_some h1
      simp only [List.cons_ne_nil, false_iff]
      intro hz
      have := (Proofs.Undo.lastPos_eq_zero_iff oid _).1 hz r (by rw [hN]; simp)
      exact this hro

/-- the answer of `chaseBefore`, computed from the walk over the revisions -/
def lbOfWalk : Option ((Undo.Rec × List Undo.Rec) × Option Nat) → Undo.LB
  | none => .noRev
  | some (rb, e) =>
    match Undo.recData rb.2 rb.1 with
    | some d => .found d rb.1.tid e
    | none => .keyError

theorem chaseBefore_walk {oid : Nat} {L : Undo.Log} (h : ChainInv L) (b : Nat) (e : Option Nat) :
    Undo.chaseBefore b (Undo.flat L) (Undo.lastPos oid (Undo.flat L)) e =
      lbOfWalk (FileStore.loadBeforeGo (fun rb : Undo.Rec × List Undo.Rec => rb.1.tid) b e (revU oid L)) := by
  induction L generalizing e with
  | nil => rfl
  | cons t older ih =>
    simp only [Undo.flat, revU]
    cases h1 : firstRec oid t.recs with
    | none =>
      rw [Proofs.Undo.lastPos_append_of_not_mem oid _ _ (firstRec_none h1),
        Proofs.Undo.chaseBefore_append_le _ _ _ _ _ (Proofs.Undo.lastPos_le _ _)]
      exact ih h.2.2 e
    | some ro =>
      obtain ⟨r, o⟩ := ro
      obtain ⟨N, hN, hNo, hro⟩ := firstRec_some h1
      have hmem : r ∈ t.recs := by rw [hN]; simp
      have hprev := (h.1 r hmem).2
      rw [hro] at hprev
      have hflat : t.recs ++ Undo.flat older = N ++ (r :: (o ++ Undo.flat older)) := by
        rw [hN]; simp
      have hlp : Undo.lastPos oid (N ++ (r :: (o ++ Undo.flat older))) = (o ++ Undo.flat older).length + 1 := by
        rw [Proofs.Undo.lastPos_append_of_not_mem oid _ _ hNo]
        simp [Undo.lastPos, hro]
      rw [hflat, hlp, Proofs.Undo.chaseBefore_append_le _ _ _ _ _ (by simp)]
      simp only [Undo.chaseBefore, if_true, FileStore.loadBeforeGo]
      by_cases hb : r.tid < b
      · simp only [hb, if_true, lbOfWalk, Undo.recData]
        cases r.pl with
        | data d => rfl
        | back bp =>
          simp only
          cases Undo.loadBack (o ++ Undo.flat older) bp with
          | none => rfl
          | some dt => rfl
      · simp only [hb, if_false]
        rw [hprev, Proofs.Undo.chaseBefore_append_le _ _ _ _ _ (Proofs.Undo.lastPos_le _ _)]
        exact ih h.2.2 _

def lbU : Undo.LB → Except History.Err (Option (Bytes × Nat × Option Nat))
  | .keyError => .error .keyError
  | .noRev => .ok none
  | .found d t e => .ok (some (d, t, e))

theorem loadBefore_absU {L : Undo.Log} (h : ChainInv L) (oid b : Nat) :
    History.loadBefore (absU L) oid b = lbU (Undo.loadBefore (Undo.flat L) oid b) := by
  rw [Proofs.FileStoreHistory.loadBefore_walk (revs_absU h) (revU_desc h) b]
  unfold Undo.loadBefore
  by_cases hz : Undo.lastPos oid (Undo.flat L) = 0
  · have := (revU_nil_iff oid L).2 hz
    simp [hz, this, lbU]
  · have hne : revU oid L ≠ [] := fun e => hz ((revU_nil_iff oid L).1 e)
    have hE : ((revU oid L).map toRevU).isEmpty = false := by
      cases hh : revU oid L with
      | nil => exact absurd hh hne
      | cons a l => rfl
    rw [if_neg hz, chaseBefore_walk h b none, hE]
    simp only [Bool.false_eq_true, if_false]
    rw [Proofs.FileStoreHistory.loadBeforeGo_map toRevU (fun rb => rb.1.tid) History.Rev.tid (fun _ => rfl)]
    cases FileStore.loadBeforeGo (fun rb : Undo.Rec × List Undo.Rec => rb.1.tid) b none (revU oid L) with
    | none => rfl
    | some ae =>
      obtain ⟨rb, e⟩ := ae
      simp only [Option.map_some, lbOfWalk, toRevU]
      cases Undo.recData rb.2 rb.1 <;> rfl

theorem chaseSerial_walk {oid : Nat} {L : Undo.Log} (h : ChainInv L) (s : Nat) :
    Undo.chaseSerial s (Undo.flat L) (Undo.lastPos oid (Undo.flat L)) =
      (FileStore.loadSerialGo (fun rb : Undo.Rec × List Undo.Rec => rb.1.tid) s (revU oid L)).bind
        (fun rb => Undo.recData rb.2 rb.1) := by
  induction L with
  | nil => rfl
  | cons t older ih =>
    simp only [Undo.flat, revU]
    cases h1 : firstRec oid t.recs with
    | none =>
      rw [Proofs.Undo.lastPos_append_of_not_mem oid _ _ (firstRec_none h1),
        Proofs.Undo.chaseSerial_append_le _ _ _ _ (Proofs.Undo.lastPos_le _ _)]
      exact ih h.2.2
    | some ro =>
      obtain ⟨r, o⟩ := ro
      obtain ⟨N, hN, hNo, hro⟩ := firstRec_some h1
      have hmem : r ∈ t.recs := by rw [hN]; simp
      have hprev := (h.1 r hmem).2
      rw [hro] at hprev
      have hflat : t.recs ++ Undo.flat older = N ++ (r :: (o ++ Undo.flat older)) := by
        rw [hN]; simp
      have hlp : Undo.lastPos oid (N ++ (r :: (o ++ Undo.flat older))) = (o ++ Undo.flat older).length + 1 := by
        rw [Proofs.Undo.lastPos_append_of_not_mem oid _ _ hNo]
        simp [Undo.lastPos, hro]
      rw [hflat, hlp, Proofs.Undo.chaseSerial_append_le _ _ _ _ (by simp)]
      simp only [Undo.chaseSerial, if_true, FileStore.loadSerialGo]
      by_cases hs : r.tid = s
      · simp [hs]
      · simp only [hs, if_false]
        by_cases hlt : r.tid < s
        · simp [hlt]
        · simp only [hlt, if_false]
          rw [hprev, Proofs.Undo.chaseSerial_append_le _ _ _ _ (Proofs.Undo.lastPos_le _ _)]
          exact ih h.2.2

theorem loadSerial_absU {L : Undo.Log} (h : ChainInv L) (oid s : Nat) :
    History.loadSerial (absU L) oid s =
      (match Undo.loadSerial (Undo.flat L) oid s with
       | some d => .ok d
       | none => .error .keyError) := by
  rw [Proofs.FileStoreHistory.loadSerial_walk (revs_absU h) (revU_desc h) s]
  unfold Undo.loadSerial
  rw [chaseSerial_walk h s,
    Proofs.FileStoreHistory.loadSerialGo_map toRevU (fun rb => rb.1.tid) History.Rev.tid (fun _ => rfl)]
  cases FileStore.loadSerialGo (fun rb : Undo.Rec × List Undo.Rec => rb.1.tid) s (revU oid L) with
  | none => rfl
  | some rb =>
    simp only [Option.map_some, Option.bind_some, toRevU]
    cases Undo.recData rb.2 rb.1 <;> rfl

end Proofs.Links
