/-
  Helper lemmas for C07, part 4: what `packFS` removes, and well-formedness of back pointers in the
  packed history.
-/
import Proofs.PackLoads
set_option linter.unusedSimpArgs false
namespace Proofs.Pack
open ZodbModel ZodbModel.Pack

/-- `o` exists (has a pickle) in the snapshot "before b" -/
def LiveAt (h : History) (b : Tid) (o : Oid) : Prop :=
  ∃ t r, lastBefore h o b = some (t, r) ∧ r.data.isSome

theorem hasRec_iff {h : History} {t : Tid} {o : Oid} :
    hasRec h t o = true ↔ ∃ t' ∈ h, t'.tid = t ∧ (t'.recOf o).isSome := by
  simp [hasRec, List.any_eq_true]

theorem supersededAt_iff {h : History} {T t : Tid} {o : Oid} :
    supersededAt h T t o = true ↔ ∃ t' ∈ h, t < t'.tid ∧ t'.tid ≤ T ∧ (t'.recOf o).isSome := by
  simp [supersededAt, List.any_eq_true, and_assoc]

theorem recsOf_sorted {h : History} (hs : Sorted h) (o : Oid) :
    (recsOf h o).Pairwise (fun a b => a.1 < b.1) := by
  unfold recsOf
  apply List.Pairwise.filterMap _ _ hs
  intro a a' hlt b hb b' hb'
  simp only [Option.map_eq_some_iff] at hb hb'
  obtain ⟨_, _, rfl⟩ := hb
  obtain ⟨_, _, rfl⟩ := hb'
  exact hlt

theorem lastRec_max {h : History} (hs : Sorted h) {o : Oid} {x : Tid × Rec}
    (hl : lastRec h o = some x) : ∀ y ∈ recsOf h o, y.1 ≤ x.1 := by
  unfold lastRec at hl
  obtain ⟨ys, e⟩ := List.getLast?_eq_some_iff.1 hl
  have hp := recsOf_sorted hs o
  rw [e] at hp ⊢
  have := (List.pairwise_append.1 hp).2.2
  intro y hy
  rcases List.mem_append.1 hy with hy | hy
  · have := this y hy x (by simp); omega
  · simp at hy; subst hy; omega

theorem mem_of_map_eq {α β} {f : α → β} {a b : List α} (e : a.map f = b.map f) {x : α}
    (hx : x ∈ b) : ∃ y ∈ a, f y = f x := by
  have : f x ∈ a.map f := by rw [e]; exact List.mem_map.2 ⟨x, hx, rfl⟩
  obtain ⟨y, hy, e'⟩ := List.mem_map.1 this
  exact ⟨y, hy, e'⟩

/-- a kept record current at the pack time is present in the packed history -/
theorem hasRec_of_keep {keep : Tid → Oid → Bool} {pre : History} {o : Oid} {t : Tid} {r : Rec}
    (hl : lastRec pre o = some (t, r)) (hk : keep t o = true) (rest : History) :
    hasRec (copyPre keep pre ++ rest) t o = true := by
  have := lastRec_mem (lastRec_copyPre (x := (t, r)) hl hk)
  obtain ⟨t', ht', e1, e2⟩ := mem_recsOf this
  rw [hasRec_iff]
  exact ⟨t', List.mem_append_left _ ht', e1, by simp [e2]⟩

/-- **what a FileStorage pack removes** (partial form of sentence 1, see Props/C07.lean): a record
    that is gone was written at or before the pack time and either was superseded at the pack time
    or belongs to an object that is not (reachable and live) at the pack time -/
theorem packFS_removes_only {h : History} {T : Tid} {gc : Bool} (hs : Sorted h)
    {t : Txn} (ht : t ∈ h) {r : Rec} (hr : r ∈ t.recs)
    (hgone : hasRec ((packFS h T gc).hist h) t.tid r.oid = false) :
    t.tid ≤ T ∧ (supersededAt h T t.tid r.oid = true ∨
      ¬ (ReachableAtT h T r.oid ∧ LiveAt h (T + 1) r.oid)) := by
  have hpresent : hasRec h t.tid r.oid = true :=
    hasRec_iff.2 ⟨t, ht, rfl, recOf_isSome_of_mem hr⟩
  cases hp : packFS h T gc with
  | noop => rw [hp] at hgone; simp only [PackOut.hist] at hgone; rw [hpresent] at hgone; cases hgone
  | redundant => rw [hp] at hgone; simp only [PackOut.hist] at hgone; rw [hpresent] at hgone; cases hgone
  | error _ => rw [hp] at hgone; simp only [PackOut.hist] at hgone; rw [hpresent] at hgone; cases hgone
  | ok h' =>
    rw [hp] at hgone; simp only [PackOut.hist] at hgone
    obtain ⟨g, post', hg, e1, e2⟩ := packFS_ok_shape hp
    have hle : t.tid ≤ T := by
      apply Nat.le_of_not_lt
      intro hgt
      obtain ⟨t', ht', ec⟩ := mem_of_map_eq e2 (mem_post_of_gt ht hgt)
      have h1 : hasRec h' t.tid r.oid = true := by
        rw [hasRec_iff]
        refine ⟨t', by rw [e1]; exact List.mem_append_right _ ht', ?_, ?_⟩
        · have := congrArg Txn.tid ec; simpa using this
        · have h2 := recOf_core t' r.oid
          rw [ec, recOf_core] at h2
          have h3 := recOf_isSome_of_mem hr
          cases hx : t'.recOf r.oid with
          | some _ => rfl
          | none =>
            rw [hx] at h2
            obtain ⟨r0, hr0⟩ := Option.isSome_iff_exists.1 h3
            rw [hr0] at h2; simp at h2
      rw [h1] at hgone; cases hgone
    refine ⟨hle, ?_⟩
    by_cases hsup : supersededAt h T t.tid r.oid = true
    · exact Or.inl hsup
    right
    rintro ⟨hreach, t1, r1, hlb, hd⟩
    have hlb' : lastRec (preOf h T) r.oid = some (t1, r1) := by
      rw [← hlb]; symm
      conv => lhs; rw [← pre_append_post h T]
      exact lastBefore_at_T (fun t ht => pre_le ht) (post_gt hs) r.oid
    -- the last record of the object up to T is in transaction `t` itself
    have htpre : t ∈ preOf h T := mem_pre_of_le hs ht hle
    obtain ⟨r0, hr0⟩ := Option.isSome_iff_exists.1 (recOf_isSome_of_mem hr)
    have hmem0 := mem_recsOf_of htpre hr0
    have hmax : t.tid ≤ t1 := lastRec_max (sorted_pre T hs) hlb' _ hmem0
    obtain ⟨tx, htx, etx, hrx⟩ := mem_recsOf (lastRec_mem hlb')
    simp only at etx hrx
    have ht1 : t1 = t.tid := by
      apply Nat.le_antisymm _ hmax
      apply Nat.le_of_not_lt
      intro hlt
      apply hsup
      rw [supersededAt_iff]
      refine ⟨tx, ?_, by omega, ?_, by simp [hrx]⟩
      · rw [← pre_append_post h T]; exact List.mem_append_left _ htx
      · have := pre_le htx; omega
    have hkeep : g.isReachable t1 r.oid = true := by
      have hc := curAt_of_lastRec hlb' hd
      cases gc with
      | false => exact findReachable_nogc_keeps hg hc
      | true => exact findReachable_gc_keeps hg ((reachableAtT_iff hs T _).1 hreach) hc
    have := hasRec_of_keep hlb' hkeep post'
    rw [← e1, ht1] at this
    rw [this] at hgone; cases hgone

/-! ### back pointers of the packed history -/

theorem copyRec_back {out : History} {r r' : Rec} {bt : Tid} (h : copyRec out r = .ok r')
    (hb : r'.back = some bt) : r' = r ∧ ∃ t'' ∈ out, t''.tid = bt ∧ (t''.recOf r.oid).isSome := by
  unfold copyRec at h
  split at h
  · rename_i hnone
    injection h with h; subst h
    rw [hnone] at hb; cases hb
  · rename_i bt' hb'
    split at h
    · injection h with h; subst h; simp at hb
    · rename_i t'' hfind
      have hmem := List.mem_of_find?_eq_some hfind
      have htid : t''.tid = bt' := by simpa using List.find?_some hfind
      split at h
      · injection h with h; subst h; simp at hb
      · rename_i r'' hro
        have key : r' = r → r' = r ∧ ∃ t'' ∈ out, t''.tid = bt ∧ (t''.recOf r.oid).isSome := by
          intro e
          subst e
          rw [hb'] at hb; injection hb with hb; subst hb
          exact ⟨rfl, t'', hmem, htid, by simp [hro]⟩
        split at h
        · injection h with h; exact key h.symm
        · split at h
          · injection h with h; subst h; simp at hb
          · split at h
            · injection h with h; subst h; simp at hb
            · injection h with h; exact key h.symm

theorem copyRecs_mem {out : History} : ∀ {rs rs' : List Rec}, copyRecs out rs = .ok rs' →
    ∀ r' ∈ rs', ∃ r ∈ rs, copyRec out r = .ok r' := by
  intro rs
  induction rs with
  | nil => intro rs' h; simp only [copyRecs] at h; injection h with h; subst h; simp
  | cons r rest ih =>
    intro rs' h
    simp only [copyRecs] at h
    split at h
    · cases h
    · rename_i r1 hr1
      split at h
      · cases h
      · rename_i rest' hrest
        injection h with h; subst h
        intro r' hr'
        rcases List.mem_cons.1 hr' with rfl | hr'
        · exact ⟨r, List.mem_cons_self .., hr1⟩
        · obtain ⟨r0, h0, h1⟩ := ih hrest r' hr'
          exact ⟨r0, List.mem_cons_of_mem _ h0, h1⟩

theorem copyTxn_mem {out : History} {t t' : Txn} (h : copyTxn out t = .ok t') :
    t'.tid = t.tid ∧ ∀ r' ∈ t'.recs, ∃ r ∈ t.recs, copyRec out r = .ok r' := by
  unfold copyTxn at h
  split at h
  · cases h
  · rename_i rs hrs
    injection h with h; subst h
    exact ⟨rfl, copyRecs_mem hrs⟩

/-- every transaction appended by copyRest was copied from a transaction of `post` against an
    output that is part of the final history -/
theorem copyRest_mem : ∀ {post out h' : History}, copyRest out post = .ok h' →
    (∀ x ∈ out, x ∈ h') ∧
    ∀ t' ∈ h', t' ∈ out ∨ ∃ t ∈ post, ∃ out', (∀ x ∈ out', x ∈ h') ∧ copyTxn out' t = .ok t' := by
  intro post
  induction post with
  | nil =>
    intro out h' h
    simp only [copyRest] at h; injection h with h; subst h
    exact ⟨fun x hx => hx, fun t' ht' => Or.inl ht'⟩
  | cons t rest ih =>
    intro out h' h
    simp only [copyRest] at h
    split at h
    · cases h
    · rename_i t1 ht1
      obtain ⟨i1, i2⟩ := ih h
      have hsub : ∀ x ∈ out, x ∈ h' := fun x hx => i1 x (List.mem_append_left _ hx)
      refine ⟨hsub, ?_⟩
      intro t' ht'
      rcases i2 t' ht' with hin | ⟨t0, ht0, out', ho', hc⟩
      · rcases List.mem_append.1 hin with hin | hin
        · exact Or.inl hin
        · simp at hin; subst hin
          exact Or.inr ⟨t, List.mem_cons_self .., out, hsub, ht1⟩
      · exact Or.inr ⟨t0, List.mem_cons_of_mem _ ht0, out', ho', hc⟩

/-- every record of the packed history is a copy (up to its back pointer) of the record with the
    same (tid, oid) of the original history -/
theorem packFS_origin {h h' : History} {T : Tid} {gc : Bool} (hp : packFS h T gc = .ok h')
    {t' : Txn} (ht' : t' ∈ h') {o : Oid} {r' : Rec} (hr' : t'.recOf o = some r') :
    ∃ t ∈ h, t.tid = t'.tid ∧ ∃ r, t.recOf o = some r ∧ packRec r = packRec r' := by
  obtain ⟨g, post', hg, e1, e2⟩ := packFS_ok_shape hp
  rw [e1] at ht'
  rcases List.mem_append.1 ht' with hin | hin
  · obtain ⟨t, ht, hct⟩ := copyPre_mem hin
    refine ⟨t, ?_, (copyPreTxn_some hct).1.symm, ?_⟩
    · rw [← pre_append_post h T]; exact List.mem_append_left _ ht
    · rw [copyPreTxn_recOf hct] at hr'
      split at hr'
      · cases hx : t.recOf o with
        | none => rw [hx] at hr'; simp at hr'
        | some r =>
          rw [hx] at hr'
          simp only [Option.map_some, Option.some.injEq] at hr'
          exact ⟨r, rfl, by rw [← hr']; rfl⟩
      · cases hr'
  · obtain ⟨t, ht, ec⟩ := mem_of_map_eq e2.symm hin
    refine ⟨t, ?_, ?_, ?_⟩
    · rw [← pre_append_post h T]; exact List.mem_append_right _ ht
    · have := congrArg Txn.tid ec; simpa using this
    · have h2 := recOf_core t o
      rw [ec, recOf_core, hr'] at h2
      cases hx : t.recOf o with
      | none => rw [hx] at h2; simp at h2
      | some r =>
        rw [hx] at h2
        simp only [Option.map_some, Option.some.injEq] at h2
        exact ⟨r, rfl, h2.symm⟩

/-- the packed history has consistent back pointers again -/
theorem packFS_backOK {h : History} {T : Tid} {gc : Bool} (hs : Sorted h) (hb : BackOK h) :
    BackOK ((packFS h T gc).hist h) := by
  cases hp : packFS h T gc with
  | noop => exact hb
  | redundant => exact hb
  | error _ => exact hb
  | ok h' =>
    simp only [PackOut.hist]
    obtain ⟨g, hg, hc⟩ := packFS_ok_inv hp
    obtain ⟨hsub, hmem⟩ := copyRest_mem hc
    intro t' ht' r' hr' bt hbk
    rcases hmem t' ht' with hin | ⟨t, ht, out', hout', hct⟩
    · -- a packed record has no back pointer
      obtain ⟨_, _, _, _, erecs⟩ := copyPre_tid hin
      rw [erecs] at hr'
      obtain ⟨r0, _, e⟩ := List.mem_map.1 hr'
      rw [← e] at hbk; simp at hbk
    · obtain ⟨etid, hrecs⟩ := copyTxn_mem hct
      obtain ⟨r, hr, hcr⟩ := hrecs r' hr'
      obtain ⟨er, t'', ht'', etid'', hsome⟩ := copyRec_back hcr hbk
      subst er
      have hth : t ∈ h := by
        rw [← pre_append_post h T]; exact List.mem_append_right _ ht
      obtain ⟨hlt, tb, htb, etb, rb, hrb, hd, hl⟩ := hb t hth r' hr bt hbk
      refine ⟨by rw [etid]; exact hlt, t'', hout' t'' ht'', etid'', ?_⟩
      obtain ⟨r'', hr''⟩ := Option.isSome_iff_exists.1 hsome
      obtain ⟨t0, ht0, e0, r0, hr0, epk⟩ := packFS_origin hp (hout' t'' ht'') hr''
      have : t0 = tb := sorted_tid_inj hs ht0 htb (by omega)
      subst this
      rw [hrb] at hr0; injection hr0 with hr0; subst hr0
      refine ⟨r'', hr'', ?_, ?_⟩
      · have := congrArg Rec.data epk; simp only [packRec_data] at this; rw [← this]; exact hd
      · have := congrArg Rec.dlen epk; simp only [packRec_dlen] at this; rw [← this]; exact hl

end Proofs.Pack
