/-
  Helper lemmas for C07, part 8: exact description of the GC marks (gc on): the scan of the
  transactions after the pack time (`findReachableFromFuture`) and the marking from the extra roots.
-/
import Proofs.PackIdem
set_option linter.unusedSimpArgs false
namespace Proofs.Pack
open ZodbModel ZodbModel.Pack

/-! ### keys of an association list -/

abbrev keys (l : List (Nat × Nat)) : List Nat := l.map (·.1)

theorem lookup_isSome_iff {l : List (Nat × Nat)} {o : Nat} : (l.lookup o).isSome ↔ o ∈ keys l := by
  induction l with
  | nil => simp [keys]
  | cons a rest ih =>
    obtain ⟨k, v⟩ := a
    simp only [List.lookup, keys, List.map_cons, List.mem_cons]
    by_cases hk : o = k
    · subst hk; simp
    · have : (o == k) = false := by simpa using hk
      simp only [this, hk, false_or]
      exact ih

theorem mem_of_lookup {l : List (Nat × Nat)} {o t : Nat} (h : l.lookup o = some t) : (o, t) ∈ l := by
  induction l with
  | nil => simp at h
  | cons a rest ih =>
    obtain ⟨k, v⟩ := a
    simp only [List.lookup] at h
    by_cases hk : o = k
    · subst hk
      simp at h; subst h; exact List.mem_cons_self ..
    · have : (o == k) = false := by simpa using hk
      simp only [this] at h
      exact List.mem_cons_of_mem _ (ih h)

theorem lookup_append_of_not_key {l l' : List (Nat × Nat)} {o : Nat} (h : o ∉ keys l) :
    (l ++ l').lookup o = l'.lookup o := by
  rw [List.lookup_append]
  have : l.lookup o = none := by
    cases hl : l.lookup o with
    | none => rfl
    | some t => exact absurd (lookup_isSome_iff.1 (by simp [hl])) h
  rw [this]; rfl

theorem keys_append (l l' : List (Nat × Nat)) : keys (l ++ l') = keys l ++ keys l' := by
  simp [keys]

/-! ### the scan -/

theorem scanStep_cases (g : GC) (c : Oid × Tid) :
    (c.1 ∈ keys g.reach ∧ (scanStep g c).reach = g.reach ∧
        ((c ∈ g.ex ∧ (scanStep g c).ex = g.ex) ∨ (c ∉ g.ex ∧ (scanStep g c).ex = g.ex ++ [c]))) ∨
    (c.1 ∉ keys g.reach ∧ (scanStep g c).reach = g.reach ++ [c] ∧ (scanStep g c).ex = g.ex) := by
  unfold scanStep
  by_cases hk : (g.reach.lookup c.1).isSome = true
  · left
    rw [if_pos hk]
    refine ⟨lookup_isSome_iff.1 hk, ?_⟩
    by_cases hc : g.ex.contains c = true
    · rw [if_pos hc]
      exact ⟨rfl, Or.inl ⟨by simpa using hc, rfl⟩⟩
    · rw [if_neg hc]
      exact ⟨rfl, Or.inr ⟨by simpa using hc, rfl⟩⟩
  · right
    rw [if_neg hk]
    exact ⟨fun h => hk (lookup_isSome_iff.2 h), rfl, rfl⟩

theorem scan_spec (cs : List (Oid × Tid)) : ∀ (g : GC),
    (∃ ext, (scan g cs).reach = g.reach ++ ext ∧ ∀ c ∈ ext, c ∈ cs) ∧
    (∃ ex', (scan g cs).ex = g.ex ++ ex' ∧ ∀ c ∈ ex', c ∈ cs) ∧
    (∀ c ∈ cs, ∃ t', (scan g cs).reach.lookup c.1 = some t' ∧ (t' = c.2 ∨ c ∈ (scan g cs).ex)) := by
  induction cs with
  | nil =>
    intro g
    exact ⟨⟨[], by simp [scan], by simp⟩, ⟨[], by simp [scan], by simp⟩, by simp⟩
  | cons c rest ih =>
    intro g
    have hsc : scan g (c :: rest) = scan (scanStep g c) rest := by simp [scan]
    rw [hsc]
    obtain ⟨⟨ext, e1, h1⟩, ⟨ex', e2, h2⟩, h3⟩ := ih (scanStep g c)
    rcases scanStep_cases g c with ⟨hk, er, hex⟩ | ⟨hk, er, eex⟩
    · refine ⟨⟨ext, by rw [e1, er], fun x hx => List.mem_cons_of_mem _ (h1 x hx)⟩, ?_, ?_⟩
      · rcases hex with ⟨_, eex⟩ | ⟨_, eex⟩
        · exact ⟨ex', by rw [e2, eex], fun x hx => List.mem_cons_of_mem _ (h2 x hx)⟩
        · refine ⟨[c] ++ ex', by rw [e2, eex, List.append_assoc], ?_⟩
          intro x hx
          rcases List.mem_append.1 hx with hx | hx
          · simp at hx; subst hx; exact List.mem_cons_self ..
          · exact List.mem_cons_of_mem _ (h2 x hx)
      · intro x hx
        rcases List.mem_cons.1 hx with rfl | hx
        · obtain ⟨t', ht'⟩ := Option.isSome_iff_exists.1 (lookup_isSome_iff.2 hk)
          refine ⟨t', ?_, Or.inr ?_⟩
          · rw [e1, er]; exact lookup_append_of_some ht'
          · rw [e2]
            rcases hex with ⟨hin, eex⟩ | ⟨_, eex⟩
            · rw [eex]; exact List.mem_append_left _ hin
            · rw [eex]; exact List.mem_append_left _ (by simp)
        · exact h3 x hx
    · refine ⟨⟨[c] ++ ext, by rw [e1, er, List.append_assoc], ?_⟩,
        ⟨ex', by rw [e2, eex], fun x hx => List.mem_cons_of_mem _ (h2 x hx)⟩, ?_⟩
      · intro x hx
        rcases List.mem_append.1 hx with hx | hx
        · simp at hx; subst hx; exact List.mem_cons_self ..
        · exact List.mem_cons_of_mem _ (h1 x hx)
      · intro x hx
        rcases List.mem_cons.1 hx with rfl | hx
        · refine ⟨x.2, ?_, Or.inl rfl⟩
          rw [e1, er]
          apply lookup_append_of_some
          rw [lookup_append_of_not_key hk]
          simp [List.lookup]
        · exact h3 x hx

/-- one-directional simulation: more keys and more extra roots before ⇒ more after -/
theorem scan_sim (cs : List (Oid × Tid)) : ∀ (g1 g2 : GC),
    (∀ o ∈ keys g1.reach, o ∈ keys g2.reach) → (∀ c ∈ g1.ex, c ∈ g2.ex) →
    (∀ o ∈ keys (scan g1 cs).reach, o ∈ keys (scan g2 cs).reach) ∧
      (∀ c ∈ (scan g1 cs).ex, c ∈ (scan g2 cs).ex) := by
  induction cs with
  | nil => intro g1 g2 hk he; exact ⟨by simpa [scan] using hk, by simpa [scan] using he⟩
  | cons c rest ih =>
    intro g1 g2 hk he
    have hsc : ∀ g, scan g (c :: rest) = scan (scanStep g c) rest := by intro g; simp [scan]
    rw [hsc, hsc]
    apply ih
    · intro o ho
      rcases scanStep_cases g1 c with ⟨_, er, _⟩ | ⟨_, er, _⟩
      · rw [er] at ho
        have := hk o ho
        rcases scanStep_cases g2 c with ⟨_, er2, _⟩ | ⟨_, er2, _⟩
        · rw [er2]; exact this
        · rw [er2, keys_append]; exact List.mem_append_left _ this
      · rw [er, keys_append] at ho
        rcases List.mem_append.1 ho with ho | ho
        · have := hk o ho
          rcases scanStep_cases g2 c with ⟨_, er2, _⟩ | ⟨_, er2, _⟩
          · rw [er2]; exact this
          · rw [er2, keys_append]; exact List.mem_append_left _ this
        · simp [keys] at ho
          subst ho
          rcases scanStep_cases g2 c with ⟨hk2, er2, _⟩ | ⟨_, er2, _⟩
          · rw [er2]; exact hk2
          · rw [er2, keys_append]; exact List.mem_append_right _ (by simp [keys])
    · intro x hx
      have hmono : ∀ y ∈ g2.ex, y ∈ (scanStep g2 c).ex := by
        intro y hy
        rcases scanStep_cases g2 c with ⟨_, _, ⟨_, e⟩ | ⟨_, e⟩⟩ | ⟨_, _, e⟩
        · rw [e]; exact hy
        · rw [e]; exact List.mem_append_left _ hy
        · rw [e]; exact hy
      rcases scanStep_cases g1 c with ⟨hk1, _, ⟨_, e⟩ | ⟨_, e⟩⟩ | ⟨_, _, e⟩
      · rw [e] at hx; exact hmono x (he x hx)
      · rw [e] at hx
        rcases List.mem_append.1 hx with hx | hx
        · exact hmono x (he x hx)
        · simp at hx; subst hx
          have hk2 := hk _ hk1
          rcases scanStep_cases g2 x with ⟨_, _, ⟨hin, e2⟩ | ⟨_, e2⟩⟩ | ⟨hnk, _, _⟩
          · rw [e2]; exact hin
          · rw [e2]; exact List.mem_append_right _ (by simp)
          · exact absurd hk2 hnk
      · rw [e] at hx; exact hmono x (he x hx)

/-! ### marking, with provenance -/

theorem reachAvoid_anti_seen {f : Nat → List Nat} {s1 s2 roots : List Nat} {o : Nat}
    (hsub : ∀ x ∈ s2, x ∈ s1) (h : Reach.ReachAvoid f s1 roots o) : Reach.ReachAvoid f s2 roots o := by
  induction h with
  | root hm => exact .root hm
  | step _ hn hr ih => exact .step ih (fun hc => hn (hsub _ hc)) hr

theorem mark_spec' {pre : History} {U : List Oid} {reach reach' : List (Oid × Tid)} {roots : List Oid}
    (h : mark pre U reach roots = .ok reach') :
    ∃ ext, reach' = reach ++ ext ∧
      (∀ p ∈ ext, p.1 ∉ keys reach ∧ (∃ r, curAt pre p.1 = some (p.2, r)) ∧
        Reach.ReachAvoid (refsAtT pre) (keys reach) roots p.1) ∧
      (∀ o, Reach.ReachAvoid (refsAtT pre) (keys reach) roots o → o ∉ keys reach →
        ∀ t r, curAt pre o = some (t, r) → (o, t) ∈ ext) := by
  unfold mark at h
  simp only at h
  split at h
  · cases h
  · rename_i S hS
    obtain ⟨ext, e1, e2, e3⟩ := addMarks_spec h
    have hmem : ∀ o, o ∈ (S.filter (fun o => !(reach.map (·.1)).contains o)).reverse ↔
        (o ∈ S ∧ o ∉ reach.map (·.1)) := by
      intro o; simp [List.mem_filter]
    refine ⟨ext, e1, ?_, ?_⟩
    · intro p hp
      obtain ⟨hS', hnk⟩ := (hmem p.1).1 (e2 p hp).1
      refine ⟨hnk, (e2 p hp).2, ?_⟩
      rcases (Reach.closure_spec _ _ _ _ _ hS p.1).1 hS' with hin | hra
      · exact absurd hin hnk
      · exact hra
    · intro o hra hnk t r hc
      apply e3 o _ t r hc
      rw [hmem]
      exact ⟨(Reach.closure_spec _ _ _ _ _ hS o).2 (Or.inr hra), hnk⟩

/-- `findrefs(pos)` of an extra root -/
def refsOfEx (pre : History) (e : Oid × Tid) : List Oid :=
  match recAt pre e.2 e.1 with
  | some r => if r.data.isSome then r.refs else []
  | none => []

theorem markAll_spec {pre : History} {U : List Oid} : ∀ {exs : List (Oid × Tid)}
    {reach reach' : List (Oid × Tid)}, markAll pre U reach exs = .ok reach' →
    ∃ ext, reach' = reach ++ ext ∧
      (∀ p ∈ ext, p.1 ∉ keys reach ∧ (∃ r, curAt pre p.1 = some (p.2, r)) ∧
        ∃ e ∈ exs, Reach.ReachAvoid (refsAtT pre) (keys reach) (refsOfEx pre e) p.1) ∧
      (∀ y ∈ keys reach', y ∉ keys reach → ∀ y' ∈ refsAtT pre y, (curAt pre y').isSome →
        y' ∈ keys reach') ∧
      (∀ e ∈ exs, ∀ y ∈ refsOfEx pre e, (curAt pre y).isSome → y ∈ keys reach') := by
  intro exs
  induction exs with
  | nil =>
    intro reach reach' h
    simp only [markAll] at h; injection h with h; subst h
    exact ⟨[], by simp, by simp, fun y hy hn => absurd hy hn, by simp⟩
  | cons c rest ih =>
    intro reach reach' h
    obtain ⟨o, bt⟩ := c
    simp only [markAll] at h
    split at h
    · cases h
    · rename_i r1 hm
      have hm' : mark pre U reach (refsOfEx pre (o, bt)) = .ok r1 := hm
      obtain ⟨ext1, e1, m1, m2⟩ := mark_spec' hm'
      obtain ⟨ext2, e2, a2, b2, c2⟩ := ih h
      have hk1 : ∀ x ∈ keys reach, x ∈ keys r1 := by
        intro x hx; rw [e1, keys_append]; exact List.mem_append_left _ hx
      have hk2 : ∀ x ∈ keys r1, x ∈ keys reach' := by
        intro x hx; rw [e2, keys_append]; exact List.mem_append_left _ hx
      -- everything reached by this call is marked afterwards (when it is in the index)
      have hreached : ∀ y, Reach.ReachAvoid (refsAtT pre) (keys reach) (refsOfEx pre (o, bt)) y →
          (curAt pre y).isSome → y ∈ keys r1 := by
        intro y hra hc
        by_cases hin : y ∈ keys reach
        · exact hk1 y hin
        · obtain ⟨x, hx⟩ := Option.isSome_iff_exists.1 hc
          obtain ⟨t, r⟩ := x
          have := m2 y hra hin t r hx
          rw [e1, keys_append]
          exact List.mem_append_right _ (List.mem_map.2 ⟨(y, t), this, rfl⟩)
      refine ⟨ext1 ++ ext2, by rw [e2, e1, List.append_assoc], ?_, ?_, ?_⟩
      · intro p hp
        rcases List.mem_append.1 hp with hp | hp
        · obtain ⟨h1, h2, h3⟩ := m1 p hp
          exact ⟨h1, h2, (o, bt), List.mem_cons_self .., h3⟩
        · obtain ⟨h1, h2, e, he, h3⟩ := a2 p hp
          exact ⟨fun hc => h1 (hk1 _ hc), h2, e, List.mem_cons_of_mem _ he,
            reachAvoid_anti_seen hk1 h3⟩
      · intro y hy hny y' hy' hc'
        by_cases hy1 : y ∈ keys r1
        · -- marked by this call: its references were pushed
          have hyext : ∃ p ∈ ext1, p.1 = y := by
            rw [e1, keys_append] at hy1
            rcases List.mem_append.1 hy1 with h1 | h1
            · exact absurd h1 hny
            · obtain ⟨p, hp, e⟩ := List.mem_map.1 h1; exact ⟨p, hp, e⟩
          obtain ⟨p, hp, ep⟩ := hyext
          obtain ⟨_, _, hra⟩ := m1 p hp
          rw [ep] at hra
          exact hk2 _ (hreached y' (.step hra hny hy') hc')
        · exact b2 y hy hy1 y' hy' hc'
      · intro e he y hy hc
        rcases List.mem_cons.1 he with rfl | he
        · exact hk2 _ (hreached y (.root hy) hc)
        · exact c2 e he y hy hc

/-! ### decomposition of `findReachable` (gc on) -/

structure GCRun (pre post : History) (T : Tid) (U : List Oid) (g : GC) where
  r1 : List (Oid × Tid)
  ext2 : List (Oid × Tid)
  ext3 : List (Oid × Tid)
  hmark : mark pre U [] [0] = .ok r1
  hscanR : (scan ⟨r1, []⟩ (crossing post T)).reach = r1 ++ ext2
  hscanE : (scan ⟨r1, []⟩ (crossing post T)).ex = g.ex
  hall : markAll pre U (r1 ++ ext2) g.ex = .ok g.reach
  hreach : g.reach = r1 ++ ext2 ++ ext3

theorem findReachable_run {pre post : History} {T : Tid} {U : List Oid} {g : GC}
    (h : findReachable pre post T true U = .ok g) : Nonempty (GCRun pre post T U g) := by
  unfold findReachable at h
  simp only [if_true] at h
  split at h
  · cases h
  · rename_i r1 hm1
    split at h
    · cases h
    · rename_i r3 hm3
      injection h with h
      obtain ⟨⟨ext2, e2, _⟩, _, _⟩ := scan_spec (crossing post T) ⟨r1, []⟩
      simp only at e2
      obtain ⟨ext3, e3⟩ := markAll_append hm3
      subst h
      exact ⟨⟨r1, ext2, ext3, hm1, e2, rfl, by rw [← e2]; exact hm3, by simp only; rw [e3, e2]⟩⟩

end Proofs.Pack
