/-
  C14 helper lemmas, part 3: the writer stack loop (`Connection._store_objects`) and the loop over
  `_registered_objects` (`Connection._commit`): every stored record is the object with references
  in place of persistent leaves; the fuel always suffices; the objects stored are exactly the
  registered added/changed ones plus the oid-less objects reachable from stored ones.
  Core Lean only.
-/
import Proofs.RefsWriter
namespace Proofs.Refs
open ZodbModel ZodbModel.Refs ZodbModel.Refs.Tree

/-- handles that `persistent_id` gave an oid to -/
def AH (s : WState) : List H := s.assigned.map (·.1)

theorem lookup_none_iff {β : Type} (h : H) (l : List (H × β)) :
    lookup h l = none ↔ h ∉ l.map (·.1) := by
  induction l with
  | nil => simp [lookup]
  | cons x t ih =>
    obtain ⟨k, v⟩ := x
    rw [lookup_cons]
    by_cases hk : h = k
    · simp [hk]
    · simp [hk, ih]

theorem curOid_none {o : Obj} {s : WState} {h : H} (hc : curOid o s h = none) :
    h ∉ AH s ∧ o.oid = none := by
  unfold curOid at hc
  cases hl : lookup h s.assigned with
  | some x => simp [hl] at hc
  | none => rw [hl] at hc; exact ⟨(lookup_none_iff h _).1 hl, hc⟩

theorem curOid_some {o : Obj} {s : WState} {h : H} (hc : curOid o s h ≠ none) :
    h ∈ AH s ∨ o.oid ≠ none := by
  unfold curOid at hc
  cases hl : lookup h s.assigned with
  | some x =>
    left
    have : ¬ (h ∉ AH s) := fun hn => by rw [(lookup_none_iff h _).2 hn] at hl; cases hl
    exact Classical.not_not.1 this
  | none => rw [hl] at hc; exact .inr hc

/-! ### what one record's worth of `persistent_id` calls does to the stack -/

theorem persistentId_push {env : Env} {objs : List Obj} {s s' : WState} {l : PLeaf} {tk : Tok}
    (h : persistentId env objs s l = .ok (tk, s')) :
    ∃ o, objs[l.target]? = some o ∧
      ((curOid o s l.target ≠ none ∧ s' = s) ∨
       (curOid o s l.target = none ∧ s' = (assign env s l.target).2)) := by
  cases l with
  | weak t =>
    simp only [persistentId] at h
    cases ho : objs[t]? with
    | none => simp [ho] at h
    | some o =>
      refine ⟨o, ho, ?_⟩
      simp only [ho] at h
      cases hc : curOid o s t with
      | none =>
        simp only [hc, Except.ok.injEq, Prod.mk.injEq] at h
        exact .inr ⟨hc, h.2.symm⟩
      | some oid =>
        left
        simp only [hc] at h
        cases hj : curJar env o s t with
        | none => simp [hj] at h
        | conn d c =>
          simp only [hj] at h
          split at h <;> simp only [Except.ok.injEq, Prod.mk.injEq] at h <;>
            exact ⟨by simp [PLeaf.target, hc], h.2.symm⟩
  | strong t =>
    simp only [persistentId] at h
    cases ho : objs[t]? with
    | none => simp [ho] at h
    | some o =>
      refine ⟨o, ho, ?_⟩
      simp only [ho] at h
      cases hc : curOid o s t with
      | none =>
        simp only [hc, Except.ok.injEq, Prod.mk.injEq] at h
        exact .inr ⟨hc, h.2.symm⟩
      | some oid =>
        left
        simp only [hc] at h
        split at h
        · simp only [Except.ok.injEq, Prod.mk.injEq] at h
          exact ⟨by simp [PLeaf.target, hc], h.2.symm⟩
        · cases hx : crossCheck env (curJar env o s t) oid with
          | error e => simp [hx] at h
          | ok d =>
            simp only [hx, Except.ok.injEq, Prod.mk.injEq] at h
            exact ⟨by simp [PLeaf.target, hc], h.2.symm⟩

/-- the objects discovered while pickling the leaves `ls`: pushed and assigned in order, each an
    oid-less object met for the first time; and afterwards every oid-less target is assigned -/
theorem mapS_disc {env : Env} {objs : List Obj} {ls : List PLeaf} {s s' : WState} {toks : List Tok}
    (h : mapS (persistentId env objs) s ls = .ok (toks, s')) :
    ∃ new : List H,
      s'.stack = new.reverse ++ s.stack ∧ AH s' = new.reverse ++ AH s ∧ new.Nodup ∧
      (∀ n ∈ new, (∃ l ∈ ls, l.target = n) ∧ (∃ o, objs[n]? = some o ∧ o.oid = none) ∧ n ∉ AH s) ∧
      (∀ l ∈ ls, ∃ o, objs[l.target]? = some o ∧ (o.oid = none → l.target ∈ AH s')) := by
  induction ls generalizing s toks with
  | nil =>
    simp [mapS] at h; obtain ⟨rfl, rfl⟩ := h
    exact ⟨[], by simp, by simp, by simp, by simp, by simp⟩
  | cons l ls ih =>
    obtain ⟨tk, s1, toks', hf, hr, rfl⟩ := mapS_cons_ok h
    obtain ⟨new, h1, h2, h3, h4, h5⟩ := ih hr
    obtain ⟨o, ho, hcase⟩ := persistentId_push hf
    rcases hcase with ⟨hc, rfl⟩ | ⟨hc, rfl⟩
    · refine ⟨new, h1, h2, h3, ?_, ?_⟩
      · intro n hn
        obtain ⟨⟨l', hl', ht⟩, b, c⟩ := h4 n hn
        exact ⟨⟨l', List.mem_cons_of_mem _ hl', ht⟩, b, c⟩
      · intro l' hl'
        rcases List.mem_cons.1 hl' with rfl | hl'
        · refine ⟨o, ho, fun hn => ?_⟩
          rcases curOid_some hc with hm | hm
          · rw [h2]; exact List.mem_append_right _ hm
          · exact absurd hn hm
        · exact h5 l' hl'
    · obtain ⟨hnot, hnone⟩ := curOid_none hc
      have hA : AH (assign env s l.target).2 = l.target :: AH s := by simp [AH, assign]
      have hS : (assign env s l.target).2.stack = l.target :: s.stack := by simp [assign]
      refine ⟨l.target :: new, ?_, ?_, ?_, ?_, ?_⟩
      · rw [h1, hS]; simp
      · rw [h2, hA]; simp
      · refine List.nodup_cons.2 ⟨fun hm => ?_, h3⟩
        have := (h4 _ hm).2.2
        rw [hA] at this
        exact this (by simp)
      · intro n hn
        rcases List.mem_cons.1 hn with rfl | hn
        · exact ⟨⟨l, by simp, rfl⟩, ⟨o, ho, hnone⟩, hnot⟩
        · obtain ⟨⟨l', hl', ht⟩, b, c⟩ := h4 n hn
          refine ⟨⟨l', List.mem_cons_of_mem _ hl', ht⟩, b, fun hm => c ?_⟩
          rw [hA]; exact List.mem_cons_of_mem _ hm
      · intro l' hl'
        rcases List.mem_cons.1 hl' with rfl | hl'
        · refine ⟨o, ho, fun _ => ?_⟩
          rw [h2, hA]; simp
        · exact h5 l' hl'

theorem serialize_disc {env : Env} {objs : List Obj} {s s' : WState} {x : H} {r : Record}
    (hs : serialize env objs s x = .ok (r, s')) :
    ∃ o, objs[x]? = some o ∧ Ext objs s s' ∧ RecFor env objs s' o r ∧
    ∃ new : List H,
      s'.stack = new.reverse ++ s.stack ∧ AH s' = new.reverse ++ AH s ∧ new.Nodup ∧
      (∀ n ∈ new, (∃ l ∈ o.leaves, l.target = n) ∧ (∃ o', objs[n]? = some o' ∧ o'.oid = none) ∧ n ∉ AH s) ∧
      (∀ l ∈ o.leaves, ∃ o', objs[l.target]? = some o' ∧ (o'.oid = none → l.target ∈ AH s')) := by
  obtain ⟨o, ho, he, hr, hm⟩ := serialize_spec hs
  exact ⟨o, ho, he, hr, mapS_disc hm⟩

theorem nodup_reverse' {l : List Nat} (h : l.Nodup) : l.reverse.Nodup := by
  unfold List.Nodup at *
  rw [List.pairwise_reverse]
  exact h.imp (fun h => h.symm)

/-! ### a list without repetitions of numbers below `n` has at most `n` elements -/

theorem nodup_bound : ∀ (n : Nat) (l : List Nat), l.Nodup → (∀ x ∈ l, x < n) → l.length ≤ n
  | 0, l, _, hb => by
    cases l with
    | nil => simp
    | cons a t => exact absurd (hb a (by simp)) (by omega)
  | n + 1, l, hn, hb => by
    have h1 : (l.erase n).Nodup := hn.erase n
    have h2 : ∀ x ∈ l.erase n, x < n := by
      intro x hx
      have hx' := (List.Nodup.mem_erase_iff hn).1 hx
      have := hb x hx'.2
      omega
    have h3 := nodup_bound n (l.erase n) h1 h2
    have h4 : l.length ≤ (l.erase n).length + 1 := by
      rw [List.length_erase]; split <;> omega
    omega

/-! ### the fuel of `storeLoop` always suffices -/

theorem crossCheck_ne_outOfFuel (env : Env) (j : Jar) (oid : Oid) :
    crossCheck env j oid ≠ .error .outOfFuel := by
  unfold crossCheck
  split
  · simp
  · split
    · simp
    · split
      · simp
      · split
        · simp
        · split <;> simp

theorem persistentId_ne_outOfFuel (env : Env) (objs : List Obj) (s : WState) (l : PLeaf) :
    persistentId env objs s l ≠ .error .outOfFuel := by
  cases l with
  | weak t =>
    simp only [persistentId]
    cases objs[t]? with
    | none => simp
    | some o =>
      simp only
      cases curOid o s t with
      | none => simp
      | some oid =>
        simp only
        cases curJar env o s t with
        | none => simp
        | conn d c => simp only; split <;> simp
  | strong t =>
    simp only [persistentId]
    cases objs[t]? with
    | none => simp
    | some o =>
      simp only
      cases curOid o s t with
      | none => simp
      | some oid =>
        simp only
        split
        · simp
        · cases hx : crossCheck env (curJar env o s t) oid with
          | error e =>
            intro hc; simp only [Except.error.injEq] at hc; subst hc
            exact crossCheck_ne_outOfFuel _ _ _ hx
          | ok d => simp

theorem serialize_ne_outOfFuel (env : Env) (objs : List Obj) (s : WState) (x : H) :
    serialize env objs s x ≠ .error .outOfFuel := by
  have hp := persistentId_ne_outOfFuel env objs
  unfold serialize
  split
  · simp
  · rename_i o _
    split
    · cases h : traverse (persistentId env objs) s o.state with
      | error e =>
        intro hc; simp only [Except.error.injEq] at hc; subst hc
        exact traverse_error _ _ hp _ _ h
      | ok p => simp
    · rename_i a _
      cases h1 : traverse (persistentId env objs) s a with
      | error e =>
        intro hc; simp only [Except.error.injEq] at hc; subst hc
        exact traverse_error _ _ hp _ _ h1
      | ok p1 =>
        obtain ⟨a', s1⟩ := p1
        simp only
        cases h : traverse (persistentId env objs) s1 o.state with
        | error e =>
          intro hc; simp only [Except.error.injEq] at hc; subst hc
          exact traverse_error _ _ hp _ _ h
        | ok p => simp

/-- the assigned handles are distinct objects of the heap -/
def AInv (objs : List Obj) (s : WState) : Prop :=
  (AH s).Nodup ∧ ∀ n ∈ AH s, n < objs.length

theorem ainv_card {objs : List Obj} {s : WState} (h : AInv objs s) : (AH s).length ≤ objs.length :=
  nodup_bound _ _ h.1 h.2

theorem ainv_serialize {env : Env} {objs : List Obj} {s s' : WState} {x : H} {r : Record}
    (ha : AInv objs s) (hs : serialize env objs s x = .ok (r, s')) :
    AInv objs s' ∧ s'.stack.length + (AH s).length = s.stack.length + (AH s').length := by
  obtain ⟨o, _, _, _, new, h1, h2, h3, h4, _⟩ := serialize_disc hs
  refine ⟨⟨?_, ?_⟩, ?_⟩
  · rw [h2]
    refine List.nodup_append.2 ⟨nodup_reverse' h3, ha.1, ?_⟩
    intro a ha' b hb hab
    subst hab
    exact (h4 a (List.mem_reverse.1 ha')).2.2 hb
  · intro n hn
    rw [h2] at hn
    rcases List.mem_append.1 hn with hn | hn
    · obtain ⟨o', ho', _⟩ := (h4 n (List.mem_reverse.1 hn)).2.1
      obtain ⟨hlt, _⟩ := List.getElem?_eq_some_iff.1 ho'
      exact hlt
    · exact ha.2 n hn
  · rw [h1, h2]; simp; omega

theorem storeLoop_fuel {env : Env} {objs : List Obj} :
    ∀ (fuel : Nat) (s : WState), AInv objs s →
      s.stack.length + (objs.length - (AH s).length) ≤ fuel →
      storeLoop env objs fuel s ≠ .error .outOfFuel ∧
      ∀ out s', storeLoop env objs fuel s = .ok (out, s') → AInv objs s'
  | 0, s, ha, hf => by
    have : s.stack = [] := by
      cases hst : s.stack with
      | nil => rfl
      | cons a t => rw [hst] at hf; simp at hf
    simp only [storeLoop, this, List.isEmpty_nil, if_true]
    refine ⟨by simp, fun out s' h => ?_⟩
    simp only [Except.ok.injEq, Prod.mk.injEq] at h
    rw [← h.2]; exact ha
  | fuel + 1, s, ha, hf => by
    simp only [storeLoop]
    cases hst : s.stack with
    | nil =>
      refine ⟨by simp, fun out s' h => ?_⟩
      simp only [Except.ok.injEq, Prod.mk.injEq] at h
      rw [← h.2]; exact ha
    | cons x rest =>
      simp only
      cases hs : serialize env objs { s with stack := rest } x with
      | error e =>
        refine ⟨?_, fun out s' h => by simp at h⟩
        -- serialize never reports outOfFuel
        intro hcontra
        simp only [Except.error.injEq] at hcontra
        subst hcontra
        exact serialize_ne_outOfFuel _ _ _ _ hs
      | ok p =>
        obtain ⟨r, s1⟩ := p
        have ha0 : AInv objs { s with stack := rest } := ha
        obtain ⟨ha1, hlen⟩ := ainv_serialize ha0 hs
        have hc1 := ainv_card ha1
        have hc0 := ainv_card ha
        have hlen' : s1.stack.length + (AH s).length = rest.length + (AH s1).length := hlen
        rw [hst] at hf
        simp only [List.length_cons] at hf
        have hf1 : s1.stack.length + (objs.length - (AH s1).length) ≤ fuel := by omega
        obtain ⟨hne, hok⟩ := storeLoop_fuel fuel s1 ha1 hf1
        simp only
        cases hr : storeLoop env objs fuel s1 with
        | error e =>
          refine ⟨?_, fun out s' h => by simp at h⟩
          intro hcontra
          simp only [Except.error.injEq] at hcontra
          subst hcontra
          exact hne hr
        | ok q =>
          obtain ⟨out, s2⟩ := q
          refine ⟨by simp, fun out' s' h => ?_⟩
          simp only [Except.ok.injEq, Prod.mk.injEq] at h
          rw [← h.2]
          exact hok out s2 hr
/-! ### taking the loops apart -/

theorem storeLoop_zero_ok {env : Env} {objs : List Obj} {s s' : WState} {out : List (H × Record)}
    (h : storeLoop env objs 0 s = .ok (out, s')) : s.stack = [] ∧ out = [] ∧ s' = s := by
  simp only [storeLoop] at h
  split at h
  · rename_i he
    simp only [Except.ok.injEq, Prod.mk.injEq] at h
    exact ⟨List.isEmpty_iff.1 he, h.1.symm, h.2.symm⟩
  · simp at h

theorem storeLoop_succ_ok {env : Env} {objs : List Obj} {fuel : Nat} {s s' : WState}
    {out : List (H × Record)} (h : storeLoop env objs (fuel + 1) s = .ok (out, s')) :
    (s.stack = [] ∧ out = [] ∧ s' = s) ∨
    ∃ x rest r s1 out', s.stack = x :: rest ∧
      serialize env objs { s with stack := rest } x = .ok (r, s1) ∧
      storeLoop env objs fuel s1 = .ok (out', s') ∧ out = (x, r) :: out' := by
  simp only [storeLoop] at h
  cases hst : s.stack with
  | nil =>
    simp only [hst, Except.ok.injEq, Prod.mk.injEq] at h
    exact .inl ⟨rfl, h.1.symm, h.2.symm⟩
  | cons x rest =>
    right
    simp only [hst] at h
    cases hs : serialize env objs { s with stack := rest } x with
    | error e => simp [hs] at h
    | ok p =>
      obtain ⟨r, s1⟩ := p
      simp only [hs] at h
      cases hr : storeLoop env objs fuel s1 with
      | error e => simp [hr] at h
      | ok q =>
        obtain ⟨out', s2⟩ := q
        simp only [hr, Except.ok.injEq, Prod.mk.injEq] at h
        exact ⟨x, rest, r, s1, out', rfl, hs, by rw [hr, h.2], h.1.symm⟩

theorem commitLoop_cons_ok {env : Env} {objs : List Obj} {p : Pending} {fuel : Nat} {h : H}
    {rest : List H} {s s' : WState} {done : List H} {out : List (H × Record)}
    (hc : commitLoop env objs p fuel (h :: rest) s done = .ok (out, s')) :
    ∃ o, objs[h]? = some o ∧ curOid o s h ≠ none ∧ curJar env o s h = env.own ∧
      ((mustStore objs p done h = true ∧ ∃ out1 s1 out2,
          storeLoop env objs fuel { s with stack := [h] } = .ok (out1, s1) ∧
          commitLoop env objs p fuel rest s1 (done ++ out1.map (·.1)) = .ok (out2, s') ∧
          out = out1 ++ out2) ∨
       (mustStore objs p done h = false ∧ commitLoop env objs p fuel rest s done = .ok (out, s'))) := by
  simp only [commitLoop] at hc
  cases ho : objs[h]? with
  | none => simp [ho] at hc
  | some o =>
    refine ⟨o, rfl, ?_⟩
    simp only [ho] at hc
    cases hco : curOid o s h with
    | none => simp [hco] at hc
    | some oid =>
      simp only [hco] at hc
      by_cases hj : curJar env o s h = env.own
      · refine ⟨by simp, hj, ?_⟩
        simp only [hj, ne_eq, not_true_eq_false, if_false] at hc
        cases hm : mustStore objs p done h with
        | false =>
          simp only [hm] at hc
          exact .inr ⟨rfl, by simpa using hc⟩
        | true =>
          simp only [hm, if_true] at hc
          left
          refine ⟨rfl, ?_⟩
          cases hs : storeLoop env objs fuel { s with stack := [h] } with
          | error e => simp [hs] at hc
          | ok q =>
            obtain ⟨out1, s1⟩ := q
            simp only [hs] at hc
            cases hr : commitLoop env objs p fuel rest s1 (done ++ out1.map (·.1)) with
            | error e => simp [hr] at hc
            | ok q2 =>
              obtain ⟨out2, s2⟩ := q2
              simp only [hr, Except.ok.injEq, Prod.mk.injEq] at hc
              exact ⟨out1, s1, out2, rfl, by rw [hr, hc.2], hc.1.symm⟩
      · simp [hj] at hc

/-! ### every stored record is its object with references in place of persistent leaves -/

theorem storeLoop_records {env : Env} {objs : List Obj} :
    ∀ (fuel : Nat) (s s' : WState) (out : List (H × Record)),
      storeLoop env objs fuel s = .ok (out, s') →
      Ext objs s s' ∧ ∀ hr ∈ out, ∃ o, objs[hr.1]? = some o ∧ RecFor env objs s' o hr.2
  | 0, s, s', out, h => by
    obtain ⟨_, rfl, rfl⟩ := storeLoop_zero_ok h
    exact ⟨ext_refl _ _, by simp⟩
  | fuel + 1, s, s', out, h => by
    rcases storeLoop_succ_ok h with ⟨_, rfl, rfl⟩ | ⟨x, rest, r, s1, out', _, hs, hr, rfl⟩
    · exact ⟨ext_refl _ _, by simp⟩
    · obtain ⟨o, ho, he, hrec, _⟩ := serialize_spec hs
      obtain ⟨he2, hrecs⟩ := storeLoop_records fuel s1 s' out' hr
      refine ⟨ext_trans (ext_of_stack rest he) he2, ?_⟩
      intro hr' hmem
      rcases List.mem_cons.1 hmem with rfl | hmem
      · exact ⟨o, ho, recFor_mono he2 hrec⟩
      · exact hrecs hr' hmem

theorem commitLoop_records {env : Env} {objs : List Obj} {p : Pending} {fuel : Nat} :
    ∀ (reg : List H) (s s' : WState) (done : List H) (out : List (H × Record)),
      commitLoop env objs p fuel reg s done = .ok (out, s') →
      Ext objs s s' ∧ ∀ hr ∈ out, ∃ o, objs[hr.1]? = some o ∧ RecFor env objs s' o hr.2
  | [], s, s', done, out, h => by
    simp only [commitLoop, Except.ok.injEq, Prod.mk.injEq] at h
    obtain ⟨rfl, rfl⟩ := h
    exact ⟨ext_refl _ _, by simp⟩
  | x :: rest, s, s', done, out, h => by
    obtain ⟨o, _, _, _, hcase⟩ := commitLoop_cons_ok h
    rcases hcase with ⟨_, out1, s1, out2, hs, hr, rfl⟩ | ⟨_, hr⟩
    · obtain ⟨e1, r1⟩ := storeLoop_records fuel _ s1 out1 hs
      obtain ⟨e2, r2⟩ := commitLoop_records rest s1 s' _ out2 hr
      refine ⟨ext_trans (ext_of_stack [x] e1) e2, ?_⟩
      intro hr' hmem
      rcases List.mem_append.1 hmem with hmem | hmem
      · obtain ⟨o', ho', hrec⟩ := r1 hr' hmem
        exact ⟨o', ho', recFor_mono e2 hrec⟩
      · exact r2 hr' hmem
    · exact commitLoop_records rest s s' done out hr

/-! ### the worklist invariant: what is stored is exactly what has to be stored -/

/-- invariant of the two loops; `outH` = handles stored so far, `rs` = registered objects already
    taken up -/
structure GInv (objs : List Obj) (p : Pending) (rs : List H) (s : WState) (outH : List H) : Prop where
  /-- an object that was given an oid is stored or waits on the stack -/
  g1 : ∀ h ∈ AH s, h ∈ outH ∨ h ∈ s.stack
  /-- nothing is stored or queued without need -/
  g2 : ∀ h, h ∈ outH ∨ h ∈ s.stack → Stored objs p h
  /-- every oid-less object a stored object refers to has been discovered -/
  g3 : ∀ x ∈ outH, ∀ o, objs[x]? = some o → ∀ l ∈ o.leaves, ∀ oy,
        objs[l.target]? = some oy → oy.oid = none → l.target ∈ AH s
  /-- nothing is stored twice -/
  g4 : (outH ++ s.stack).Nodup
  g5 : ∀ h, h ∈ outH ∨ h ∈ s.stack → h ∈ AH s ∨ ∃ o, objs[h]? = some o ∧ o.oid ≠ none
  g6 : ∀ h, h ∈ outH ∨ h ∈ s.stack → h ∈ rs ∨ ∃ o, objs[h]? = some o ∧ o.oid = none

theorem nodup_insert_mid {a b c : List H} {x : H} (h : (a ++ x :: c).Nodup) (hb : b.Nodup)
    (hd : ∀ n ∈ b, n ∉ a ∧ n ≠ x ∧ n ∉ c) : ((a ++ [x]) ++ (b ++ c)).Nodup := by
  rw [List.nodup_append] at h ⊢
  obtain ⟨ha, hxc, hac⟩ := h
  rw [List.nodup_cons] at hxc
  refine ⟨?_, ?_, ?_⟩
  · rw [List.nodup_append]
    refine ⟨ha, by simp, ?_⟩
    intro u hu v hv
    simp only [List.mem_singleton] at hv
    subst hv
    exact hac u hu v (by simp)
  · rw [List.nodup_append]
    refine ⟨hb, hxc.2, ?_⟩
    intro u hu v hv huv
    subst huv
    exact (hd u hu).2.2 hv
  · intro u hu v hv huv
    subst huv
    rcases List.mem_append.1 hu with hu | hu
    · rcases List.mem_append.1 hv with hv | hv
      · exact (hd u hv).1 hu
      · exact hac u hu u (List.mem_cons_of_mem _ hv) rfl
    · simp only [List.mem_singleton] at hu
      subst hu
      rcases List.mem_append.1 hv with hv | hv
      · exact (hd u hv).2.1 rfl
      · exact hxc.1 hv

theorem ginv_step {env : Env} {objs : List Obj} {p : Pending} {rs : List H} {s s1 : WState}
    {outH : List H} {x : H} {rest : List H} {r : Record} (hg : GInv objs p rs s outH)
    (hst : s.stack = x :: rest) (hs : serialize env objs { s with stack := rest } x = .ok (r, s1)) :
    GInv objs p rs s1 (outH ++ [x]) := by
  obtain ⟨o, ho, _, _, new, h1, h2, h3, h4, h5⟩ := serialize_disc hs
  have h1' : s1.stack = new.reverse ++ rest := h1
  have h2' : AH s1 = new.reverse ++ AH s := h2
  have h4' : ∀ n ∈ new, (∃ l ∈ o.leaves, l.target = n) ∧ (∃ o', objs[n]? = some o' ∧ o'.oid = none) ∧
      n ∉ AH s := h4
  have hxs : x ∈ s.stack := by rw [hst]; simp
  have hrs : ∀ h, h ∈ rest → h ∈ s.stack := fun h hh => by rw [hst]; exact List.mem_cons_of_mem _ hh
  refine ⟨?_, ?_, ?_, ?_, ?_, ?_⟩
  · intro h hh
    rw [h2'] at hh
    rcases List.mem_append.1 hh with hh | hh
    · right; rw [h1']; exact List.mem_append_left _ hh
    · rcases hg.g1 h hh with hh | hh
      · left; exact List.mem_append_left _ hh
      · rw [hst] at hh
        rcases List.mem_cons.1 hh with rfl | hh
        · left; simp
        · right; rw [h1']; exact List.mem_append_right _ hh
  · intro h hh
    rcases hh with hh | hh
    · rcases List.mem_append.1 hh with hh | hh
      · exact hg.g2 h (.inl hh)
      · simp only [List.mem_singleton] at hh; subst hh; exact hg.g2 h (.inr hxs)
    · rw [h1'] at hh
      rcases List.mem_append.1 hh with hh | hh
      · obtain ⟨hl, ⟨o', ho', hn⟩, _⟩ := h4' h (List.mem_reverse.1 hh)
        exact Stored.step (hg.g2 x (.inr hxs)) ho hl ho' hn
      · exact hg.g2 h (.inr (hrs h hh))
  · intro x' hx' o' ho' l hl oy hoy hn
    rcases List.mem_append.1 hx' with hx' | hx'
    · rw [h2']; exact List.mem_append_right _ (hg.g3 x' hx' o' ho' l hl oy hoy hn)
    · simp only [List.mem_singleton] at hx'; subst hx'
      rw [ho] at ho'; cases ho'
      obtain ⟨o'', ho'', himp⟩ := h5 l hl
      rw [hoy] at ho''; cases ho''
      exact himp hn
  · rw [h1']
    have hnd : (outH ++ x :: rest).Nodup := by rw [← hst]; exact hg.g4
    refine nodup_insert_mid hnd (nodup_reverse' h3) ?_
    intro n hn
    obtain ⟨_, ⟨o', ho', hnone⟩, hnot⟩ := h4' n (List.mem_reverse.1 hn)
    have key : ∀ h, h ∈ outH ∨ h ∈ s.stack → n ≠ h := by
      intro h hh hnh
      subst hnh
      rcases hg.g5 n hh with hh | ⟨o'', ho'', hne⟩
      · exact hnot hh
      · rw [ho'] at ho''; cases ho''; exact hne hnone
    refine ⟨fun hm => key n (.inl hm) rfl, key x (.inr hxs), fun hm => key n (.inr (hrs n hm)) rfl⟩
  · intro h hh
    have old : h ∈ outH ∨ h ∈ s.stack → h ∈ AH s1 ∨ ∃ o, objs[h]? = some o ∧ o.oid ≠ none := by
      intro hh
      rcases hg.g5 h hh with hh | hh
      · left; rw [h2']; exact List.mem_append_right _ hh
      · exact .inr hh
    rcases hh with hh | hh
    · rcases List.mem_append.1 hh with hh | hh
      · exact old (.inl hh)
      · simp only [List.mem_singleton] at hh; subst hh; exact old (.inr hxs)
    · rw [h1'] at hh
      rcases List.mem_append.1 hh with hh | hh
      · left; rw [h2']; exact List.mem_append_left _ hh
      · exact old (.inr (hrs h hh))
  · intro h hh
    rcases hh with hh | hh
    · rcases List.mem_append.1 hh with hh | hh
      · exact hg.g6 h (.inl hh)
      · simp only [List.mem_singleton] at hh; subst hh; exact hg.g6 h (.inr hxs)
    · rw [h1'] at hh
      rcases List.mem_append.1 hh with hh | hh
      · exact .inr (h4' h (List.mem_reverse.1 hh)).2.1
      · exact hg.g6 h (.inr (hrs h hh))

theorem storeLoop_ginv {env : Env} {objs : List Obj} {p : Pending} {rs : List H} :
    ∀ (fuel : Nat) (s s' : WState) (outH : List H) (out : List (H × Record)),
      GInv objs p rs s outH → storeLoop env objs fuel s = .ok (out, s') →
      GInv objs p rs s' (outH ++ out.map (·.1)) ∧ s'.stack = []
  | 0, s, s', outH, out, hg, h => by
    obtain ⟨hst, rfl, rfl⟩ := storeLoop_zero_ok h
    exact ⟨by simpa using hg, hst⟩
  | fuel + 1, s, s', outH, out, hg, h => by
    rcases storeLoop_succ_ok h with ⟨hst, rfl, rfl⟩ | ⟨x, rest, r, s1, out', hst, hs, hr, rfl⟩
    · exact ⟨by simpa using hg, hst⟩
    · have := storeLoop_ginv fuel s1 s' (outH ++ [x]) out' (ginv_step hg hst hs) hr
      simpa using this

theorem storeLoop_head {env : Env} {objs : List Obj} {fuel : Nat} {s s' : WState} {x : H}
    {rest : List H} {out : List (H × Record)} (hst : s.stack = x :: rest)
    (h : storeLoop env objs fuel s = .ok (out, s')) : x ∈ out.map (·.1) := by
  cases fuel with
  | zero => obtain ⟨h0, _, _⟩ := storeLoop_zero_ok h; rw [hst] at h0; cases h0
  | succ fuel =>
    rcases storeLoop_succ_ok h with ⟨h0, _, _⟩ | ⟨x', rest', r, s1, out', hst', _, _, rfl⟩
    · rw [hst] at h0; cases h0
    · rw [hst] at hst'; cases hst'; simp

theorem ginv_rs_mono {objs : List Obj} {p : Pending} {rs rs' : List H} {s : WState} {outH : List H}
    (hsub : ∀ h ∈ rs, h ∈ rs') (hg : GInv objs p rs s outH) : GInv objs p rs' s outH :=
  ⟨hg.g1, hg.g2, hg.g3, hg.g4, hg.g5, fun h hh => (hg.g6 h hh).imp (hsub h) id⟩

theorem mustStore_true {objs : List Obj} {p : Pending} {done : List H} {h : H}
    (hm : mustStore objs p done h = true) : h ∈ p.added ∨ h ∈ p.changed := by
  simp only [mustStore, Bool.or_eq_true, Bool.and_eq_true, Bool.not_eq_eq_eq_not,
    Bool.not_true, Bool.or_eq_false_iff, Bool.and_eq_false_imp, List.contains_iff_mem] at hm
  rcases hm with hm | hm
  · exact .inl (by simpa using hm.1)
  · exact .inr (by simpa using hm.2)

theorem mustStore_done_new {objs : List Obj} {p : Pending} {done : List H} {h : H}
    (hd : h ∈ done) (hn : isNew objs p h = true) : mustStore objs p done h = false := by
  simp [mustStore, hn]
  exact ⟨fun _ => hd, fun hnd => absurd hd hnd⟩

theorem mustStore_false {objs : List Obj} {p : Pending} {done : List H} {h : H}
    (hm : mustStore objs p done h = false) (hac : h ∈ p.added ∨ h ∈ p.changed) : h ∈ done := by
  simp [mustStore] at hm
  by_cases hd : h ∈ done
  · exact hd
  · rcases hac with ha | hc
    · exact hm.1 ha
    · exact absurd hc (hm.2 (.inl hd))

theorem commitLoop_ginv {env : Env} {objs : List Obj} {p : Pending} {fuel : Nat}
    (hnd : p.registered.Nodup) :
    ∀ (reg pre : List H) (s s' : WState) (outH : List H) (out : List (H × Record)),
      p.registered = pre ++ reg → GInv objs p pre s outH → s.stack = [] →
      (∀ x ∈ pre, (x ∈ p.added ∨ x ∈ p.changed) → x ∈ outH) →
      commitLoop env objs p fuel reg s outH = .ok (out, s') →
      GInv objs p p.registered s' (outH ++ out.map (·.1)) ∧ s'.stack = [] ∧
        ∀ x ∈ p.registered, (x ∈ p.added ∨ x ∈ p.changed) → x ∈ outH ++ out.map (·.1)
  | [], pre, s, s', outH, out, hsplit, hg, hst, hq, h => by
    simp only [commitLoop, Except.ok.injEq, Prod.mk.injEq] at h
    obtain ⟨rfl, rfl⟩ := h
    have : p.registered = pre := by simpa using hsplit
    rw [this]
    exact ⟨by simpa using hg, hst, by simpa using hq⟩
  | h :: rest, pre, s, s', outH, out, hsplit, hg, hst, hq, hc => by
    obtain ⟨o, ho, hcur, _, hcase⟩ := commitLoop_cons_ok hc
    have hsplit' : p.registered = (pre ++ [h]) ++ rest := by rw [hsplit]; simp
    have hreg : h ∈ p.registered := by rw [hsplit]; simp
    have hnotpre : h ∉ pre := by
      rw [hsplit, List.nodup_append] at hnd
      exact fun hm => hnd.2.2 h hm h (by simp) rfl
    rcases hcase with ⟨hm, out1, s1, out2, hs, hr, rfl⟩ | ⟨hm, hr⟩
    · -- the object is stored, together with everything new that is reachable from it
      have hnot : h ∉ outH := by
        intro hin
        rcases hg.g6 h (.inl hin) with hin' | ⟨o', ho', hn⟩
        · exact hnotpre hin'
        · rw [ho] at ho'; cases ho'
          have : isNew objs p h = true := by simp [isNew, ho, hn]
          rw [mustStore_done_new hin this] at hm
          cases hm
      have hgA : GInv objs p (pre ++ [h]) { s with stack := [h] } outH := by
        refine ⟨?_, ?_, hg.g3, ?_, ?_, ?_⟩
        · intro h' hh'
          rcases hg.g1 h' hh' with hh' | hh'
          · exact .inl hh'
          · rw [hst] at hh'; cases hh'
        · intro h' hh'
          rcases hh' with hh' | hh'
          · exact hg.g2 h' (.inl hh')
          · have : h' = h := by simpa using hh'
            subst this
            exact Stored.root hreg (mustStore_true hm)
        · show (outH ++ [h]).Nodup
          have := hg.g4
          rw [hst, List.append_nil] at this
          rw [List.nodup_append]
          refine ⟨this, by simp, ?_⟩
          intro a ha b hb hab
          simp only [List.mem_singleton] at hb
          subst hb; subst hab
          exact hnot ha
        · intro h' hh'
          rcases hh' with hh' | hh'
          · exact hg.g5 h' (.inl hh')
          · have : h' = h := by simpa using hh'
            subst this
            rcases curOid_some hcur with hh | hh
            · exact .inl hh
            · exact .inr ⟨o, ho, hh⟩
        · intro h' hh'
          rcases hh' with hh' | hh'
          · exact (hg.g6 h' (.inl hh')).imp (fun hm => List.mem_append_left _ hm) id
          · have : h' = h := by simpa using hh'
            subst this
            exact .inl (by simp)
      obtain ⟨hg1, hst1⟩ := storeLoop_ginv fuel _ s1 outH out1 hgA hs
      have hhead : h ∈ out1.map (·.1) := storeLoop_head (s := { s with stack := [h] }) rfl hs
      have hq1 : ∀ x ∈ pre ++ [h], (x ∈ p.added ∨ x ∈ p.changed) → x ∈ outH ++ out1.map (·.1) := by
        intro x hx hac
        rcases List.mem_append.1 hx with hx | hx
        · exact List.mem_append_left _ (hq x hx hac)
        · simp only [List.mem_singleton] at hx; subst hx
          exact List.mem_append_right _ hhead
      have := commitLoop_ginv hnd rest (pre ++ [h]) s1 s' (outH ++ out1.map (·.1)) out2 hsplit' hg1
        hst1 hq1 hr
      simpa [List.append_assoc] using this
    · -- nothing to do for this object
      have hg' : GInv objs p (pre ++ [h]) s outH :=
        ginv_rs_mono (fun x hx => List.mem_append_left _ hx) hg
      have hq1 : ∀ x ∈ pre ++ [h], (x ∈ p.added ∨ x ∈ p.changed) → x ∈ outH := by
        intro x hx hac
        rcases List.mem_append.1 hx with hx | hx
        · exact hq x hx hac
        · simp only [List.mem_singleton] at hx; subst hx
          exact mustStore_false hm hac
      exact commitLoop_ginv hnd rest (pre ++ [h]) s s' outH out hsplit' hg' hst hq1 hr

theorem ginv_init (objs : List Obj) (p : Pending) : GInv objs p [] WState.init [] :=
  ⟨by simp [AH, WState.init], by simp [WState.init], by simp, by simp [WState.init],
   by simp [WState.init], by simp [WState.init]⟩

/-- the objects a successful commit stores are exactly those it has to store, each once, and the
    writer stack is drained -/
theorem commit_stored {env : Env} {objs : List Obj} {p : Pending} {out : List (H × Record)}
    {sf : WState} (hnd : p.registered.Nodup) (hc : commit env objs p = .ok (out, sf)) :
    (∀ h, h ∈ out.map (·.1) ↔ Stored objs p h) ∧ (out.map (·.1)).Nodup ∧ sf.stack = [] := by
  obtain ⟨hg, hst, hq⟩ := commitLoop_ginv hnd p.registered [] WState.init sf [] out (by simp)
    (ginv_init objs p) rfl (by simp) hc
  simp only [List.nil_append] at hg hq
  refine ⟨fun h => ⟨fun hh => hg.g2 h (.inl hh), fun hs => ?_⟩, ?_, hst⟩
  · induction hs with
    | root hr hac => exact hq _ hr hac
    | @step x y o oy _ ho hl hoy hn ih =>
      obtain ⟨l, hl, rfl⟩ := hl
      have := hg.g3 x ih o ho l hl oy hoy hn
      rcases hg.g1 _ this with hh | hh
      · exact hh
      · rw [hst] at hh; cases hh
  · have := hg.g4
    rw [hst, List.append_nil] at this
    exact this

/-! ### the commit never runs out of fuel -/

theorem commitLoop_fuel {env : Env} {objs : List Obj} {p : Pending} :
    ∀ (reg : List H) (s : WState) (done : List H), AInv objs s →
      commitLoop env objs p (fuelFor objs) reg s done ≠ .error .outOfFuel
  | [], s, done, _ => by simp [commitLoop]
  | h :: rest, s, done, ha => by
    simp only [commitLoop]
    cases ho : objs[h]? with
    | none => simp
    | some o =>
      simp only
      cases hc : curOid o s h with
      | none => simp
      | some oid =>
        simp only
        split
        · simp
        · split
          · have haA : AInv objs { s with stack := [h] } := ha
            have hf : ({ s with stack := [h] } : WState).stack.length +
                (objs.length - (AH { s with stack := [h] }).length) ≤ fuelFor objs := by
              simp only [fuelFor, List.length_singleton]; omega
            obtain ⟨hne, hok⟩ := storeLoop_fuel (env := env) (fuelFor objs) _ haA hf
            cases hs : storeLoop env objs (fuelFor objs) { s with stack := [h] } with
            | error e =>
              intro hcontra
              simp only [Except.error.injEq] at hcontra
              subst hcontra
              exact hne hs
            | ok q =>
              obtain ⟨out1, s1⟩ := q
              simp only
              have ih := commitLoop_fuel (env := env) (p := p) rest s1 (done ++ out1.map (·.1))
                (hok out1 s1 hs)
              cases hr : commitLoop env objs p (fuelFor objs) rest s1 (done ++ out1.map (·.1)) with
              | error e =>
                intro hcontra
                simp only [Except.error.injEq] at hcontra
                subst hcontra
                exact ih hr
              | ok q2 => simp
          · exact commitLoop_fuel rest s done ha

/-- `fuelFor` is enough for every heap and every set of registered objects -/
theorem commit_fuel_sufficient (env : Env) (objs : List Obj) (p : Pending) :
    commit env objs p ≠ .error .outOfFuel :=
  commitLoop_fuel p.registered WState.init [] ⟨by simp [AH, WState.init], by simp [AH, WState.init]⟩

/-- every record a commit stores is its object with references in place of persistent leaves,
    with the oids the objects have when the commit is over -/
theorem commit_records {env : Env} {objs : List Obj} {p : Pending} {out : List (H × Record)}
    {sf : WState} (hc : commit env objs p = .ok (out, sf)) :
    ∀ hr ∈ out, ∃ o, objs[hr.1]? = some o ∧ RecFor env objs sf o hr.2 :=
  (commitLoop_records p.registered WState.init sf [] out hc).2

end Proofs.Refs
