/-
  Historical instances, the invariant for every action, and the C02 / C15 consequences.
-/
import Proofs.MvccPublish
namespace Proofs.Mvcc
open ZodbModel.Mvcc

theorem refused_iff (l b : Nat) : refused l b = true ↔ l + 1 < b := by
  simp only [refused, getTID, later, Bool.and_eq_true, decide_eq_true_eq]
  omega

theorem refused_false_iff (l b : Nat) : refused l b = false ↔ b ≤ l + 1 := by
  rw [← Bool.not_eq_true, refused_iff]; omega

theorem inv_openHist {s s' : Sys} {a b : Option Nat} (hinv : Inv s)
    (h : step s (.openHist a b) = .ok s') : Inv s' := by
  obtain ⟨bf, _, _, hr, rfl⟩ := openHist_ok h
  have g := hinv.glob
  have hbf : bf ≤ headTid s.log + 1 := (refused_false_iff _ _).mp hr
  refine ⟨g, hinv.inst, ?_⟩
  intro hh hlt
  show HistInv s.log s.infl s.next (upd s.hists s.nh _ hh)
  by_cases he : hh = s.nh
  · subst he
    rw [upd_same]
    exact {
      h1 := ⟨[], rfl, fun T hT => by cases hT⟩
      h2 := ⟨by have := headTid_lt_next g; show bf ≤ s.next; omega,
             fun f hf => by have := headTid_lt_infl g hf; show bf ≤ f.tid; omega⟩
      h3 := fun oid e hc => by cases hc }
  · rw [upd_other _ _ _ _ he]
    have hlt' : hh < s.nh + 1 := hlt
    exact hinv.hist hh (by omega)

theorem inv_hread {s s' : Sys} {hh oid : Nat} (hinv : Inv s)
    (h : step s (.hread hh oid) = .ok s') : Inv s' := by
  obtain ⟨hlt, hcase⟩ := hread_ok h
  rcases hcase with rfl | ⟨ser, val, _, hst, rfl⟩
  · exact hinv
  refine ⟨hinv.glob, hinv.inst, ?_⟩
  intro k hk
  show HistInv s.log s.infl s.next (upd s.hists hh _ k)
  by_cases he : k = hh
  · subst he
    rw [upd_same]
    have v := hinv.hist k hlt
    obtain ⟨ext, hx, hge⟩ := v.h1
    exact { v with
      h3 := fun o e hc => by
        dsimp only at hc ⊢
        by_cases ho : o = oid
        · subst ho
          rw [upd_same] at hc
          simp only [Option.some.injEq] at hc; subst hc
          rw [hx, stateAt_append_ge o hge] at hst; exact hst
        · rw [upd_other _ _ _ _ ho] at hc; exact v.h3 o e hc }
  · rw [upd_other _ _ _ _ he]; exact hinv.hist k hk

/-- every accepted action preserves the invariant -/
theorem step_inv {s s' : Sys} (a : Act) (hinv : Inv s) (h : step s a = .ok s') : Inv s' := by
  cases a with
  | newInstance => exact inv_newInstance hinv h
  | reopen i => exact inv_reopen hinv h
  | close i => exact inv_close hinv h
  | pollRead i => exact inv_pollRead hinv h
  | pollApply i => exact inv_pollApply hinv h
  | read i oid => exact inv_read hinv h
  | write i oid d => exact inv_write hinv h
  | abort i => exact inv_abort hinv h
  | begin c t => exact inv_begin hinv h
  | store ws => exact inv_store hinv h
  | vote => exact inv_vote hinv h
  | extAbort => exact inv_extAbort hinv h
  | finishEnter => exact inv_finishEnter hinv h
  | deliver j => exact inv_deliver hinv h
  | publish => exact inv_publish hinv h
  | invalidateCache i => exact inv_invalidateCache hinv h
  | openHist a b => exact inv_openHist hinv h
  | hread hh oid => exact inv_hread hinv h
  | hpoll hh => have := hpoll_ok h; subst this; exact hinv
  | hcommit hh => exact absurd h hcommit_not_ok
  | hstore hh => exact absurd h hstore_not_ok
  | hnewOid hh => exact absurd h hnewOid_not_ok

theorem mvcc_inv {s : Sys} (hr : Reachable s) : Inv s := by
  induction hr with
  | init => exact inv_init
  | step a _ hs ih => exact step_inv a ih hs

/-! ### C02 consequences -/

/-- a cache entry of a live instance is the snapshot at its bound, taken over the committed log
    plus the transaction inside its finish section -/
theorem entry_is_vsnapshot {s : Sys} (hinv : Inv s) {i : Nat} (hi : i < s.n)
    (hl : (s.insts i).live = true) {oid ser : Nat} {d : Data}
    (hc : (s.insts i).cache oid = some (ser, d)) :
    stateAt (vlog s) (s.insts i).start oid = some (ser, d) := by
  have v := hinv.inst i hi
  have hlog := entry_is_snapshot v hc hl
  rcases vlog_cases s with ⟨f, hf, _, hv⟩ | ⟨_, hv⟩
  · rw [hv]
    by_cases hlt : f.tid < (s.insts i).start
    · have hd : i ∈ f.delivered := by
        by_cases hd : i ∈ f.delivered
        · exact hd
        · have := start_le_infl hinv.glob v hf hd; omega
      have hnot : oid ∉ f.txn.oids := by
        intro hm
        rw [v.b3 f hf hd hlt oid hm] at hc; cases hc
      rw [stateAt_cons_notin hnot]; exact hlog
    · rw [stateAt_cons_ge oid (by show (s.insts i).start ≤ f.tid; omega)]; exact hlog
  · rw [hv]; exact hlog

theorem readEnabled_miss {s : Sys} {i oid : Nat} (h : readEnabled s i oid = true)
    (hp : lookup oid (s.insts i).pending = none) (hc : (s.insts i).cache oid = none) :
    isFinishing s = false := by
  simp only [readEnabled, hp, hc, Option.isSome_none, Bool.false_or, Bool.and_eq_true,
    Bool.not_eq_true'] at h
  exact h.2

/-- the committed revision consulted by a read is the snapshot at the bound -/
theorem readCommitted_eq {s : Sys} (hinv : Inv s) {i oid : Nat}
    (hen : readEnabled s i oid = true) (hp : lookup oid (s.insts i).pending = none) :
    readCommitted s i oid = stateAt (vlog s) (s.insts i).start oid := by
  obtain ⟨hi, hl⟩ := readEnabled_facts hen
  unfold readCommitted
  cases hc : (s.insts i).cache oid with
  | some e =>
    obtain ⟨ser, d⟩ := e
    exact (entry_is_vsnapshot hinv hi hl hc).symm
  | none =>
    have hfin := readEnabled_miss hen hp hc
    rcases vlog_cases s with ⟨f, hf, hph, _⟩ | ⟨_, hv⟩
    · exact absurd hph (isFinishing_false.mp hfin f hf)
    · rw [hv]

theorem snapshot_consistent {s : Sys} (hr : Reachable s) {i oid : Nat}
    (hen : readEnabled s i oid = true) :
    readNow s i oid = overlay (s.insts i).pending (stateAt (vlog s) (s.insts i).start) oid := by
  have hinv := mvcc_inv hr
  unfold readNow overlay
  cases hp : lookup oid (s.insts i).pending with
  | some d => rfl
  | none => simp only; rw [readCommitted_eq hinv hen hp]

theorem cache_coherent {s : Sys} (hr : Reachable s) {i : Nat} (hi : i < s.n)
    (hl : (s.insts i).live = true) {oid : Nat} {e : Nat × Data}
    (hc : (s.insts i).cache oid = some e) :
    stateAt (vlog s) (s.insts i).start oid = some e := by
  obtain ⟨ser, d⟩ := e
  exact entry_is_vsnapshot (mvcc_inv hr) hi hl hc

/-- a poll puts the bound above everything published so far (hence above everything whose
    `tpc_finish` had returned before the poll began) -/
theorem snapshot_fresh {s s' : Sys} (hr : Reachable s) {i : Nat}
    (h : step s (.pollApply i) = .ok s') :
    (s'.insts i).live = true ∧ ∀ T ∈ s.log, T.tid < (s'.insts i).start := by
  obtain ⟨L, hi, _, hp, rfl⟩ := pollApply_ok h
  have v := (mvcc_inv hr).inst i hi
  have below := all_below_new_start v hp
  refine ⟨?_, ?_⟩
  · show (upd s.insts i _ i).live = true
    rw [upd_same]
  · show ∀ T ∈ s.log, T.tid < (upd s.insts i _ i).start
    rw [upd_same]; exact below

end Proofs.Mvcc
