/-
  Helper lemmas for C17, recovery part: what the byte-level readers (`read_txn_header`, the record
  iterator, `_loadBack_impl`) return on an image that contains an encoded transaction, and the
  layout of an encoded store.  Core Lean only.
-/
import Proofs.RecoverBytes
import Proofs.Copy
namespace Proofs.Recover
open ZodbModel ZodbModel.Copy ZodbModel.Recover Proofs.Copy

/-! ### `read_txn_header` on an encoded transaction -/

theorem tlen_ge (t : Txn) : 23 ≤ hdrLen t ∧ hdrLen t ≤ tlen t := by
  simp only [tlen, hdrLen]; omega

theorem readTxnHeader_enc {F : Bytes} {p : Nat} {older : Store} {t : Txn} {ltid : Option Nat}
    (h : At F p (encTxn older t)) (ht : TxnEnc t) (hl : tlen t < 2 ^ 64)
    (hlt : ∀ l, ltid = some l → l ≤ t.tid) :
    readTxnHeader F p ltid =
      .txn (p + tlen t + 8) t.tid t.status t.user t.desc t.ext (p + hdrLen t) (p + tlen t) := by
  obtain ⟨f1, f2, f3, f4, f5, f6, f7, f8, f9, -, f11, f12⟩ := encTxn_fields h ht hl
  have htl : beVal (be 8 (tlen t)) = tlen t := beVal_be 8 _ (by simpa using hl)
  have hg := tlen_ge t
  obtain ⟨-, hst, -⟩ := ht
  unfold readTxnHeader
  simp only [f1, f2, f3, f4, f5, f6, htl, f7, f8, f9, f11]
  rw [if_neg (by omega), if_neg (by omega), if_neg (by omega),
    if_neg (by simp only [tlen, hdrLen] at *; omega)]
  have hfin : (if t.status = 99 then Hdr.eof
      else if t.status ≠ 32 ∧ t.status ≠ 117 ∧ t.status ≠ 112 then Hdr.bad
      else if be 8 (tlen t) ≠ be 8 (tlen t) then Hdr.bad
      else if t.status = 117 then Hdr.undone (p + tlen t + 8) t.tid
      else Hdr.txn (p + tlen t + 8) t.tid t.status t.user t.desc t.ext
        (p + 23 + t.user.length + t.desc.length + t.ext.length) (p + tlen t)) =
      .txn (p + tlen t + 8) t.tid t.status t.user t.desc t.ext (p + hdrLen t) (p + tlen t) := by
    rw [if_neg (by omega), if_neg (by omega), if_neg (by simp), if_neg (by omega)]
    simp only [hdrLen]
    congr 1 <;> omega
  cases ltid with
  | none => simpa using hfin
  | some l =>
    have := hlt l rfl
    simp only [decide_eq_true_eq]
    rw [if_neg (by omega)]
    exact hfin

/-! ### back-pointer chains on the image -/

/-- the record `(l, i)` of `S` — and, transitively, every record its back pointer leads to — is
    present in `F` at its offset, unchanged -/
def ChainAt (F : Bytes) : Store → Nat → Nat → Prop
  | [], _, _ => False
  | t :: older, l, i =>
    if l = older.length then
      match t.recs[i]? with
      | none => False
      | some r =>
        At F (storeSize older + hdrLen t + recsLen (t.recs.take i)) (encRec older (storeSize older) r) ∧
        RecEnc r ∧ storeSize older < 2 ^ 64 ∧
        (match r.body with
         | .back l' i' => ChainAt F older l' i'
         | _ => True)
    else ChainAt F older l i

/-- a chained record starts behind the first transaction header and ends inside its store -/
theorem chainAt_off {F : Bytes} {S : Store} {l i : Nat} (h : ChainAt F S l i) :
    27 ≤ recOff S l i ∧ recOff S l i + 42 ≤ storeSize S := by
  induction S with
  | nil => simp [ChainAt] at h
  | cons t older ih =>
    simp only [ChainAt] at h
    simp only [recOff, storeSize]
    split at h
    · rename_i hl
      rw [if_pos hl]
      split at h
      · exact h.elim
      · rename_i r hr
        have hi : i < t.recs.length := (List.getElem?_eq_some_iff.1 hr).1
        have h1 := recsLen_take_get t.recs i hi
        have h2 := recLen_ge t.recs[i]
        have h3 := storeSize_ge older
        have h4 := tlen_ge t
        simp only [tlen] at *
        omega
    · rename_i hl
      rw [if_neg hl]
      have := ih h
      omega

/-- `_loadBack_impl` on the image follows a present chain exactly as `loadBack` follows it in the
    store; the header at the first hop carries the oid and tid of the record pointed to -/
theorem loadBackB_chain {F : Bytes} {S : Store} {l i : Nat} (h : ChainAt F S l i) :
    ∀ fuel, recOff S l i < fuel →
      ∃ v r' o', loadBack S l i = some v ∧ loadBackB F fuel (recOff S l i) = .data v ∧
        recAt S l i = some (r', o') ∧ num F (recOff S l i) 8 = r'.oid ∧
        num F (recOff S l i + 8) 8 = r'.serial := by
  induction S generalizing l i with
  | nil => simp [ChainAt] at h
  | cons t older ih =>
    intro fuel hfuel
    simp only [ChainAt] at h
    by_cases hl : l = older.length
    · rw [if_pos hl] at h
      cases hr : t.recs[i]? with
      | none => simp [hr] at h
      | some r =>
        simp only [hr] at h
        obtain ⟨hat, ⟨hoid, hser, hbody⟩, hsz, hch⟩ := h
        simp only [recOff, if_pos hl] at hfuel ⊢
        generalize hq : storeSize older + hdrLen t + recsLen (t.recs.take i) = q at *
        obtain ⟨g1, g2, -, g4, g5, g6⟩ := encRec_fields hat hoid hser hsz
        have hrl := recLen_ge r
        cases fuel with
        | zero => omega
        | succ f =>
          simp only [loadBack, recAt, if_pos hl, hr, Option.map_some, loadBackB]
          rw [if_neg (by omega), if_neg (by simp [g4])]
          cases hb : r.body with
          | full d =>
            simp only [hb] at hbody g5
            obtain ⟨e1, e2⟩ := encBody_full g5 (by simp only [hugeRead] at hbody; omega)
            have hne : d.length ≠ 0 := by
              intro h0; exact hbody.1 (List.eq_nil_of_length_eq_zero h0)
            rw [show q + 34 + 8 = q + 42 by omega] at e2
            rw [e1, if_pos hne, if_neg (by omega), e2]
            exact ⟨_, r, older, rfl, rfl, rfl, g1, g2⟩
          | uncreate =>
            simp only [hb] at g5
            obtain ⟨e1, e2⟩ := encBody_uncreate g5
            rw [show q + 34 + 8 = q + 42 by omega] at e2
            have hrl' : recLen r = 50 := by simp [recLen, hb]
            rw [e1, if_neg (by simp), if_neg (by omega), e2, if_pos rfl]
            exact ⟨_, r, older, rfl, rfl, rfl, g1, g2⟩
          | back l' i' =>
            simp only [hb] at g5 hch
            have hoff := chainAt_off hch
            have hle := recOff_le older l' i'
            obtain ⟨e1, e2⟩ := encBody_back g5 (by omega)
            rw [show q + 34 + 8 = q + 42 by omega] at e2
            have hrl' : recLen r = 50 := by simp [recLen, hb]
            have hqge : storeSize older ≤ q := by omega
            rw [e1, if_neg (by simp), if_neg (by omega), e2, if_neg (by omega), if_neg (by omega)]
            obtain ⟨v, r'', o'', h1, h2, -, -, -⟩ := ih hch f (by omega)
            exact ⟨v, r, older, h1, h2, rfl, g1, g2⟩
    · rw [if_neg hl] at h
      simp only [recOff, if_neg hl, loadBack, recAt] at hfuel ⊢
      exact ih h fuel hfuel

/-! ### the record iterator on encoded records -/

/-- what the readers need to know about a record of a transaction whose older transactions are
    `older`: its fields fit, and its back-pointer chain is present in the image -/
def RecAtOK (F : Bytes) (older : Store) (r : Rec) : Prop :=
  RecEnc r ∧ (match r.body with | .back l i => ChainAt F older l i | _ => True)

theorem readRec_enc {F : Bytes} {q : Nat} {older : Store} {tpos tend : Nat} {r : Rec} {ir : IRec}
    (hat : At F q (encRec older tpos r)) (hok : RecAtOK F older r) (htpos : tpos < 2 ^ 64)
    (hsz : storeSize older < 2 ^ 64) (hend : q + recLen r ≤ tend) (hir : iterRec older r = some ir) :
    readRec F tpos tend q = .one ir (recLen r) := by
  obtain ⟨⟨hoid, hser, hbody⟩, hch⟩ := hok
  obtain ⟨g1, g2, g3, g4, g5, g6⟩ := encRec_fields hat hoid hser htpos
  have hrl := recLen_ge r
  unfold readRec
  rw [if_neg (by omega), if_neg (by simp [g4])]
  simp only [g1, g2, g3]
  unfold iterRec at hir
  cases hb : r.body with
  | full d =>
    simp only [hb] at hbody g5 hir
    obtain ⟨e1, e2⟩ := encBody_full g5 (by simp only [hugeRead] at hbody; omega)
    have hne : d.length ≠ 0 := by
      intro h0; exact hbody.1 (List.eq_nil_of_length_eq_zero h0)
    rw [show q + 34 + 8 = q + 42 by omega] at e2
    have hrl' : recLen r = 42 + d.length := by simp [recLen, hb]
    simp only [Option.some.injEq] at hir
    rw [e1, if_pos hne, if_neg (by omega), e2, hrl', hir]
  | uncreate =>
    simp only [hb] at g5 hir
    obtain ⟨e1, e2⟩ := encBody_uncreate g5
    rw [show q + 34 + 8 = q + 42 by omega] at e2
    have hrl' : recLen r = 50 := by simp [recLen, hb]
    simp only [Option.some.injEq] at hir
    rw [e1, if_neg (by simp), if_neg (by omega), if_neg (by omega), e2, if_pos rfl, hrl', hir]
  | back l i =>
    simp only [hb] at g5 hch hir
    have hoff := chainAt_off hch
    have hle := recOff_le older l i
    obtain ⟨e1, e2⟩ := encBody_back g5 (by omega)
    rw [show q + 34 + 8 = q + 42 by omega] at e2
    have hrl' : recLen r = 50 := by simp [recLen, hb]
    obtain ⟨v, r', o', h1, h2, h3, h4, h5⟩ := loadBackB_chain hch (recOff older l i + 1) (by omega)
    rw [e1, if_neg (by simp), if_neg (by omega), if_neg (by omega), e2, if_neg (by omega), h2]
    simp only [h1, h3] at hir
    simp only [h4, h5]
    split at hir
    · rename_i heq
      simp only [Option.some.injEq] at hir
      rw [if_neg (by simp [heq]), hrl', hir]
    · simp at hir

theorem encRecs_cons_at {F : Bytes} {q : Nat} {older : Store} {tpos : Nat} {r : Rec} {rs : List Rec}
    (h : At F q (encRecs older tpos (r :: rs))) :
    At F q (encRec older tpos r) ∧ At F (q + recLen r) (encRecs older tpos rs) := by
  simp only [encRecs] at h
  have := h.app
  rwa [encRec_length] at this

theorem readRecs_enc {F : Bytes} {D older : Store} {tpos tend : Nat} (htpos : tpos < 2 ^ 64)
    (hsz : storeSize older < 2 ^ 64) :
    ∀ (rs : List Rec) (q : Nat) (irs : List IRec), At F q (encRecs older tpos rs) →
      (∀ r ∈ rs, RecAtOK F older r) → q + recsLen rs = tend → iterRecs older rs = some irs →
      ∀ fuel, rs.length < fuel →
        readRecs F D tpos tend fuel q =
          (match restoreRecs D irs with | .ok xs => Recs.ok xs | .error _ => Recs.err) := by
  intro rs
  induction rs with
  | nil =>
    intro q irs _ _ hq hirs fuel hfuel
    simp only [recsLen] at hq
    simp only [iterRecs, Option.some.injEq] at hirs
    subst hirs
    cases fuel with
    | zero => omega
    | succ f => simp only [readRecs, restoreRecs]; rw [if_neg (by omega), if_pos (by omega)]
  | cons r rs ih =>
    intro q irs hat hok hq hirs fuel hfuel
    obtain ⟨hat1, hat2⟩ := encRecs_cons_at hat
    simp only [recsLen] at hq
    simp only [iterRecs] at hirs
    split at hirs
    · rename_i ir irs' hir hirs'
      simp only [Option.some.injEq] at hirs
      subst hirs
      have hrl := recLen_ge r
      cases fuel with
      | zero => omega
      | succ f =>
        simp only [List.length_cons] at hfuel
        simp only [readRecs]
        rw [if_pos (by omega), readRec_enc hat1 (hok r List.mem_cons_self) htpos hsz (by omega) hir]
        simp only [restoreRecs]
        have hrec := ih (q + recLen r) irs' hat2 (fun r' hr' => hok r' (List.mem_cons_of_mem _ hr'))
          (by omega) hirs' f (by omega)
        rw [hrec]
        cases restoreRec D ir with
        | error e => rfl
        | ok x =>
          simp only
          cases restoreRecs D irs' with
          | error e => rfl
          | ok xs => rfl
    · simp at hirs

end Proofs.Recover
